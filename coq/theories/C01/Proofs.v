(* C01 — proofs about the shared trigger model: what each scan returns (used by C01 and C02), the stream
   invariant across append / trigger / trim, and the generic induction over histories. *)
From Dastard Require Import Common.ZX Pipeline.Stream C01.Model C01.Spec.
From Coq Require Import ZifyBool ZifyNat.

(* ---------- small facts ---------- *)

Lemma s32_small x : -2147483648 <= x < 2147483648 -> s32 x = x.
Proof. intros H. unfold s32. rewrite Z.mod_small by lia. lia. Qed.

Lemma lengths_ok_iff npre nsamp : lengths_ok npre nsamp = true <-> 3 <= npre /\ npre + 1 <= nsamp.
Proof. unfold lengths_ok. lia. Qed.

(* increasing lists: every element at least [lo], consecutive elements at least [d] apart *)
Fixpoint spaced (d lo : Z) (l : list Z) : Prop :=
  match l with [] => True | x :: l' => lo <= x /\ spaced d (x + d) l' end.

Lemma spaced_weaken d lo lo' l : lo' <= lo -> spaced d lo l -> spaced d lo' l.
Proof. destruct l; cbn [spaced]; [trivial|]. intros H [H1 H2]. split; [lia|assumption]. Qed.

Lemma spaced_weaken_d d d' lo l : d' <= d -> spaced d lo l -> spaced d' lo l.
Proof.
  intros Hd. revert lo. induction l as [|x l IH]; intros lo; cbn [spaced]; [trivial|].
  intros [H1 H2]. split; [assumption|]. apply IH. eapply spaced_weaken; [|exact H2]. lia.
Qed.

Lemma spaced_ge d lo l : 0 <= d -> spaced d lo l -> forall x, In x l -> lo <= x.
Proof.
  intros Hd. revert lo. induction l as [|y l IH]; intros lo H x Hx; [destruct Hx|].
  cbn [spaced] in H. destruct H as [H1 H2]. destruct Hx as [->|Hx]; [assumption|].
  specialize (IH _ H2 _ Hx). lia.
Qed.

(* ---------- sort ---------- *)

Lemma insert_in x l y : In y (insert x l) <-> y = x \/ In y l.
Proof.
  induction l as [|z l IH]; cbn [insert]; [cbn; intuition|].
  destruct (x <=? z); cbn [In]; [intuition|]. rewrite IH. intuition.
Qed.

Lemma sort_in l y : In y (sort l) <-> In y l.
Proof.
  induction l as [|x l IH]; cbn [sort]; [reflexivity|].
  rewrite insert_in, IH. cbn [In]. intuition.
Qed.

Lemma insert_spaced x lo l : lo <= x -> spaced 0 lo l -> spaced 0 lo (insert x l).
Proof.
  revert lo. induction l as [|z l IH]; intros lo Hx H; cbn [insert spaced] in *.
  - split; [assumption|trivial].
  - destruct H as [H1 H2]. destruct (x <=? z) eqn:E; cbn [spaced].
    + split; [assumption|]. split; [lia|]. assumption.
    + split; [assumption|]. apply IH; [lia|assumption].
Qed.

Lemma sort_spaced l lo : (forall x, In x l -> lo <= x) -> spaced 0 lo (sort l).
Proof.
  induction l as [|x l IH]; intros H; cbn [sort]; [exact I|].
  apply insert_spaced; [apply H; now left|]. apply IH. intros y Hy. apply H. now right.
Qed.

Lemma sort_length l : length (sort l) = length l.
Proof.
  induction l as [|x l IH]; [reflexivity|]. cbn [sort length]. rewrite <- IH. clear IH.
  generalize (sort l). intros s. induction s as [|z s IH]; [reflexivity|].
  cbn [insert]. destruct (x <=? z); cbn [length]; [reflexivity|]. now rewrite IH.
Qed.

Lemma last_opt_spaced lo l m : spaced 0 lo l -> last_opt l = Some m -> In m l /\ forall x, In x l -> x <= m.
Proof.
  revert lo. induction l as [|x l IH]; intros lo H Hm; [discriminate|].
  destruct l as [|y l].
  - inversion Hm; subst. split; [now left|]. intros z [->|[]]. lia.
  - cbn [spaced] in H. destruct H as [H1 H2].
    change (last_opt (y :: l) = Some m) in Hm.
    destruct (IH _ H2 Hm) as [Hin Hmax]. split; [now right|].
    intros z [<-|Hz]; [|now apply Hmax].
    assert (x + 0 <= y) by (cbn [spaced] in H2; tauto).
    specialize (Hmax y ltac:(now left)). lia.
Qed.

Lemma last_opt_none l : last_opt l = None -> l = [].
Proof.
  induction l as [|x l IH]; [reflexivity|]. destruct l as [|y l]; [discriminate|].
  intros H. change (last_opt (y :: l) = None) in H. specialize (IH H). discriminate.
Qed.

(* ---------- the edge scan ---------- *)

Definition edge_at (ts : tstate) (sg : bool) (raw : list Z) (i : Z) : bool :=
  edge_test ts (shift sg (znth 0 raw i)) (shift sg (znth 0 raw (i - 1)))
               (shift sg (znth 0 raw (i - 2))) (shift sg (znth 0 raw (i - 3))).

Record edge_list_ok (ts : tstate) (sg : bool) (raw : list Z) (nsamp i e : Z) (l : list Z) : Prop := {
  el_range : forall t, In t l -> i <= t < e /\ edge_at ts sg raw t = true;
  el_spaced : spaced (nsamp + 1) i l;
  el_complete : forall k, i <= k < e -> edge_at ts sg raw k = true ->
                In k l \/ exists t, In t l /\ t < k <= t + nsamp
}.

Lemma edge_loop_spec ts sg raw nsamp e :
  0 <= nsamp -> e <= zlen raw ->
  forall fuel i, 3 <= i -> Z.max 0 (e - i) < Z.of_nat fuel ->
  exists l, edge_loop fuel ts sg raw nsamp i e = Ok l /\ edge_list_ok ts sg raw nsamp i e l.
Proof.
  intros Hn He. induction fuel as [|f IH]; intros i Hi Hf; [lia|].
  cbn [edge_loop]. destruct (i <? e) eqn:Elt.
  2:{ exists []. split; [reflexivity|]. split; cbn [In spaced]; try tauto. intros; lia. }
  destruct ((i - 3 <? 0) || (i >=? zlen raw)) eqn:Er; [lia|].
  fold (edge_at ts sg raw i).
  destruct (edge_at ts sg raw i) eqn:Ec.
  - destruct (IH (i + nsamp + 1) ltac:(lia) ltac:(lia)) as [l [Hl [R S C]]].
    rewrite Hl. exists (i :: l). split; [reflexivity|]. split.
    + intros t [<-|Ht]; [split; [lia|assumption]|]. destruct (R t Ht). split; [lia|assumption].
    + cbn [spaced]. split; [lia|]. replace (i + (nsamp + 1)) with (i + nsamp + 1) by lia. assumption.
    + intros k Hk Hck. destruct (Z.eq_dec k i) as [->|Hne]; [left; now left|].
      destruct (Z.le_gt_cases k (i + nsamp)) as [Hle|Hgt].
      * right. exists i. split; [now left|lia].
      * destruct (C k ltac:(lia) Hck) as [Hin|[t [Ht Hr]]]; [left; now right|].
        right. exists t. split; [now right|assumption].
  - destruct (IH (i + 1) ltac:(lia) ltac:(lia)) as [l [Hl [R S C]]].
    rewrite Hl. exists l. split; [reflexivity|]. split.
    + intros t Ht. destruct (R t Ht). split; [lia|assumption].
    + eapply spaced_weaken; [|exact S]. lia.
    + intros k Hk Hck. destruct (Z.eq_dec k i) as [->|Hne]; [congruence|].
      apply C; [lia|assumption].
Qed.

(* ---------- the level scan ---------- *)

Definition level_at (ts : tstate) (sg : bool) (raw : list Z) (thr i : Z) : bool :=
  level_test ts thr (shift sg (znth 0 raw i)) (shift sg (znth 0 raw (i - 1))).

Record level_list_ok (ts : tstate) (sg : bool) (raw : list Z) (nsamp thr i e : Z) (found l : list Z) : Prop := {
  ll_range : forall t, In t l -> i <= t < e /\ level_at ts sg raw thr t = true;
  ll_complete : forall k, i <= k < e -> level_at ts sg raw thr k = true ->
                In k l \/ exists f, In f found /\ Z.abs (k - f) < nsamp
}.

Lemma level_loop_spec ts sg raw nsamp thr e :
  1 <= nsamp -> e <= zlen raw ->
  forall fuel i found, 1 <= i -> spaced (nsamp + 1) i found ->
    Z.max 0 (e - i) + zlen found < Z.of_nat fuel ->
  exists l, level_loop fuel ts sg raw nsamp thr i e found = Ok l /\
            level_list_ok ts sg raw nsamp thr i e found l.
Proof.
  intros Hn He. induction fuel as [|f IH]; intros i found Hi Hsp Hf; [pose proof (zlen_nonneg found); lia|].
  cbn [level_loop]. destruct (i <? e) eqn:Elt.
  2:{ exists []. split; [reflexivity|]. split; cbn [In]; try tauto. intros; lia. }
  (* the ordinary step, shared by the two places where it occurs *)
  assert (Hcheck : forall found', spaced (nsamp + 1) (i + 1) found' -> zlen found' <= zlen found ->
            (forall k, i < k -> forall f, In f found' -> Z.abs (k - f) < nsamp -> exists f0, In f0 found /\ Z.abs (k - f0) < nsamp) ->
            exists l,
              (if (i - 1 <? 0) || (i >=? zlen raw) then Panic
               else if level_test ts thr (shift sg (znth 0 raw i)) (shift sg (znth 0 raw (i - 1)))
                    then match level_loop f ts sg raw nsamp thr (i + 1) e found' with
                         | Ok l => Ok (i :: l) | Panic => Panic end
                    else level_loop f ts sg raw nsamp thr (i + 1) e found') = Ok l /\
              level_list_ok ts sg raw nsamp thr i e found l).
  { intros found' Hsp' Hlen Hsub.
    destruct ((i - 1 <? 0) || (i >=? zlen raw)) eqn:Er; [lia|].
    fold (level_at ts sg raw thr i).
    destruct (IH (i + 1) found' ltac:(lia) Hsp' ltac:(lia)) as [l [Hl [R C]]].
    rewrite Hl. destruct (level_at ts sg raw thr i) eqn:Ec.
    - exists (i :: l). split; [reflexivity|]. split.
      + intros t [<-|Ht]; [split; [lia|assumption]|]. destruct (R t Ht). split; [lia|assumption].
      + intros k Hk Hck. destruct (Z.eq_dec k i) as [->|Hne]; [left; now left|].
        destruct (C k ltac:(lia) Hck) as [Hin|[f0 [Hf0 Hr]]]; [left; now right|].
        right. apply (Hsub k ltac:(lia) f0 Hf0 Hr).
    - exists l. split; [reflexivity|]. split.
      + intros t Ht. destruct (R t Ht). split; [lia|assumption].
      + intros k Hk Hck. destruct (Z.eq_dec k i) as [->|Hne]; [congruence|].
        destruct (C k ltac:(lia) Hck) as [Hin|[f0 [Hf0 Hr]]]; [now left|].
        right. apply (Hsub k ltac:(lia) f0 Hf0 Hr). }
  destruct found as [|nf rest].
  - apply Hcheck; [exact I|lia|]. intros k _ f0 [].
  - cbn [spaced] in Hsp. destruct Hsp as [Hnf Hrest].
    assert (Hzl : zlen (nf :: rest) = 1 + zlen rest) by (unfold zlen; cbn [length]; lia).
    destruct (i + nsamp >? nf) eqn:Eskip.
    + (* skip to nf + nsamp *)
      destruct (IH (nf + nsamp) rest ltac:(lia)) as [l [Hl [R C]]].
      { eapply spaced_weaken; [|exact Hrest]. lia. }
      { pose proof (zlen_nonneg rest). lia. }
      exists l. split; [exact Hl|]. split.
      * intros t Ht. destruct (R t Ht). split; [lia|assumption].
      * intros k Hk Hck. destruct (Z.lt_ge_cases k (nf + nsamp)) as [Hlt|Hge].
        -- right. exists nf. split; [now left|lia].
        -- destruct (C k ltac:(lia) Hck) as [Hin|[f0 [Hf0 Hr]]]; [now left|].
           right. exists f0. split; [now right|assumption].
    + apply Hcheck.
      * cbn [spaced]. split; [lia|assumption].
      * lia.
      * intros k _ f0 Hf0 Hr. exists f0. split; assumption.
Qed.

(* ---------- the auto scan ---------- *)

Lemma vetoed_ok raw veto begin nsamp :
  0 <= begin -> 0 <= nsamp -> begin + nsamp < zlen raw -> exists v, vetoed raw veto begin nsamp = Ok v.
Proof.
  intros Hb Hn Hl. unfold vetoed. destruct (veto >? 0); [|eauto].
  destruct ((begin <? 0) || (begin >=? zlen raw) || (begin + nsamp >? zlen raw)) eqn:E; [lia|].
  destruct (fold_left veto_step _ _). eauto.
Qed.

Lemma vetoed_off raw veto begin nsamp : veto <= 0 -> vetoed raw veto begin nsamp = Ok false.
Proof. intros H. unfold vetoed. destruct (veto >? 0) eqn:E; [lia|reflexivity]. Qed.

(* what the auto scan guarantees about positions: enough for "never panics" and the excerpt theorem;
   the gap statements of C02 are proved separately *)
Lemma auto_loop_range raw veto npre nsamp dly :
  1 <= nsamp -> nsamp <= dly ->
  forall fuel c found, npre <= c -> spaced 0 (c - dly) found ->
    Z.max 0 (zlen raw - (c + nsamp - npre)) + zlen found < Z.of_nat fuel ->
  exists l, auto_loop fuel raw veto npre nsamp dly c found = Ok l /\
            forall t, In t l -> c <= t /\ t + nsamp - npre < zlen raw.
Proof.
  intros Hn Hd. induction fuel as [|f IH]; intros c found Hc Hsp Hf; [pose proof (zlen_nonneg found); lia|].
  cbn [auto_loop]. destruct (c + nsamp - npre <? zlen raw) eqn:Elt.
  2:{ exists []. split; [reflexivity|]. intros t []. }
  assert (Hemit : spaced 0 (c + dly - dly) found ->
            exists l,
              match vetoed raw veto (c - npre) nsamp with
              | Panic => Panic
              | Ok v => match auto_loop f raw veto npre nsamp dly (c + dly) found with
                        | Ok l => Ok (if v then l else c :: l) | Panic => Panic end
              end = Ok l /\ forall t, In t l -> c <= t /\ t + nsamp - npre < zlen raw).
  { intros Hsp'.
    destruct (vetoed_ok raw veto (c - npre) nsamp ltac:(lia) ltac:(lia) ltac:(lia)) as [v ->].
    destruct (IH (c + dly) found ltac:(lia) Hsp' ltac:(lia)) as [l [-> R]].
    destruct v; eexists; (split; [reflexivity|]).
    - intros t Ht. destruct (R t Ht). lia.
    - intros t [<-|Ht]; [lia|]. destruct (R t Ht). lia. }
  destruct found as [|nf rest].
  - apply Hemit. exact I.
  - cbn [spaced] in Hsp. destruct Hsp as [Hnf Hrest].
    assert (Hzl : zlen (nf :: rest) = 1 + zlen rest) by (unfold zlen; cbn [length]; lia).
    destruct (c + nsamp <=? nf) eqn:Eok.
    + apply Hemit. cbn [spaced]. split; [lia|assumption].
    + destruct (IH (nf + dly) rest ltac:(lia)) as [l [-> R]].
      { replace (nf + dly - dly) with (nf + 0) by lia. assumption. }
      { pose proof (zlen_nonneg rest). lia. }
      exists l. split; [reflexivity|]. intros t Ht. destruct (R t Ht). lia.
Qed.

(* ---------- TriggerData: the three scans together ---------- *)

Lemma first_potential_ge d : d_npre d <= first_potential d.
Proof. unfold first_potential. destruct (_ <? _) eqn:E; lia. Qed.

Lemma first_potential_auto_ge d : d_npre d <= first_potential_auto d.
Proof. unfold first_potential_auto. destruct (_ <? d_npre d) eqn:E; lia. Qed.

Definition auto_dly_of (d : dsp) : Z :=
  if ts_autodelay (d_ts d) <? d_nsamp d then d_nsamp d else ts_autodelay (d_ts d).

Lemma first_potential_auto_le d : 0 <= d_nsamp d -> first_potential_auto d - auto_dly_of d <= first_potential d.
Proof.
  intros Hn. unfold first_potential_auto, first_potential, auto_dly_of.
  destruct (ts_autodelay (d_ts d) >? d_nsamp d) eqn:E1; destruct (ts_autodelay (d_ts d) <? d_nsamp d) eqn:E2;
    repeat match goal with |- context [if ?c then _ else _] => destruct c eqn:? end; lia.
Qed.

(* the scans of one TriggerData call, with what each guarantees *)
Record scans (d : dsp) (E L A idx : list Z) : Prop := {
  sc_edge : if ts_edge (d_ts d)
            then edge_list_ok (d_ts d) (st_signed (d_stream d)) (st_data (d_stream d)) (d_nsamp d)
                   (first_potential d) (zlen (st_data (d_stream d)) + d_npre d - d_nsamp d) E
            else E = [];
  sc_level : if ts_level (d_ts d)
             then level_list_ok (d_ts d) (st_signed (d_stream d)) (st_data (d_stream d)) (d_nsamp d)
                    (if st_signed (d_stream d) then u16 (ts_levellevel (d_ts d) + 32768) else ts_levellevel (d_ts d))
                    (first_potential d) (zlen (st_data (d_stream d)) + d_npre d - d_nsamp d) E L
             else L = [];
  sc_auto : if ts_auto (d_ts d)
            then exists fuel EL,
                   auto_loop fuel (st_data (d_stream d)) (ts_autoveto (d_ts d)) (d_npre d) (d_nsamp d)
                             (auto_dly_of d) (first_potential_auto d) EL = Ok A /\
                   spaced 0 (first_potential_auto d - auto_dly_of d) EL /\
                   (forall x, In x EL <-> In x E \/ In x L)
            else A = [];
  sc_only_edge : ts_level (d_ts d) = false -> ts_auto (d_ts d) = false -> idx = E;
  sc_in : forall x, In x idx <-> In x E \/ In x L \/ In x A;
  sc_sorted : spaced 0 (d_npre d) idx;
  sc_range : forall i, In i idx -> d_npre d <= i /\ i + d_nsamp d - d_npre d < zlen (st_data (d_stream d))
}.

Lemma trigger_positions_scans d :
  3 <= d_npre d -> d_npre d + 1 <= d_nsamp d ->
  exists E L A idx, trigger_positions d = Ok idx /\ scans d E L A idx.
Proof.
  intros Hp Hs.
  pose proof (first_potential_ge d) as Hfp. pose proof (first_potential_auto_ge d) as Hfa.
  pose proof (first_potential_auto_le d ltac:(lia)) as Hfl.
  pose proof (zlen_nonneg (st_data (d_stream d))) as Hlen.
  unfold trigger_positions. cbv zeta.
  set (ts := d_ts d) in *. set (st := d_stream d) in *. set (raw := st_data st) in *.
  set (sg := st_signed st) in *. set (nsamp := d_nsamp d) in *. set (npre := d_npre d) in *.
  set (e := zlen raw + npre - nsamp) in *.
  set (fp := first_potential d) in *. set (fa := first_potential_auto d) in *.
  set (thr := if sg then u16 (ts_levellevel ts + 32768) else ts_levellevel ts).
  (* edge *)
  assert (HE : exists E, (if ts_edge ts then edge_loop (S (Z.to_nat (zlen raw))) ts sg raw nsamp fp e else Ok []) = Ok E /\
                         (if ts_edge ts then edge_list_ok ts sg raw nsamp fp e E else E = [])).
  { destruct (ts_edge ts); [|eauto].
    destruct (edge_loop_spec ts sg raw nsamp e ltac:(lia) ltac:(lia) (S (Z.to_nat (zlen raw))) fp ltac:(lia) ltac:(lia)) as [E [H1 H2]].
    eauto. }
  destruct HE as [E [-> HEok]].
  assert (HEsp : spaced (nsamp + 1) fp E).
  { destruct (ts_edge ts); [apply HEok|subst E; exact I]. }
  assert (HEr : forall t, In t E -> fp <= t < e).
  { destruct (ts_edge ts); [intros t Ht; apply (el_range _ _ _ _ _ _ _ HEok t Ht)|subst E; intros t []]. }
  (* level *)
  assert (HL : exists L, (if ts_level ts then level_loop (S (Z.to_nat (zlen raw)) + length E) ts sg raw nsamp thr fp e E else Ok []) = Ok L /\
                         (if ts_level ts then level_list_ok ts sg raw nsamp thr fp e E L else L = [])).
  { destruct (ts_level ts); [|eauto].
    destruct (level_loop_spec ts sg raw nsamp thr e ltac:(lia) ltac:(lia) (S (Z.to_nat (zlen raw)) + length E)%nat fp E
                ltac:(lia) HEsp ltac:(change (zlen E) with (Z.of_nat (length E)); lia)) as [L [H1 H2]].
    eauto. }
  destruct HL as [L [-> HLok]].
  assert (HLr : forall t, In t L -> fp <= t < e).
  { destruct (ts_level ts); [intros t Ht; apply (ll_range _ _ _ _ _ _ _ _ _ HLok t Ht)|subst L; intros t []]. }
  set (EL := if ts_level ts then sort (E ++ L) else E).
  assert (HELin : forall x, In x EL <-> In x E \/ In x L).
  { intros x. unfold EL. destruct (ts_level ts).
    - rewrite sort_in, in_app_iff. reflexivity.
    - subst L. cbn [In]. tauto. }
  assert (HELr : forall t, In t EL -> fp <= t < e).
  { intros t Ht. apply HELin in Ht. destruct Ht; auto. }
  change (if ts_autodelay ts <? nsamp then nsamp else ts_autodelay ts) with (auto_dly_of d).
  set (dly := auto_dly_of d) in *.
  assert (Hdly : nsamp <= dly) by (unfold dly, auto_dly_of; fold nsamp; destruct (_ <? _) eqn:E0; lia).
  assert (HELsp : forall lo, lo <= fp -> spaced 0 lo EL).
  { intros lo Hlo. unfold EL. destruct (ts_level ts).
    - apply sort_spaced. intros x Hx. rewrite in_app_iff in Hx. destruct Hx as [Hx|Hx]; [apply HEr in Hx|apply HLr in Hx]; lia.
    - eapply spaced_weaken; [exact Hlo|]. eapply spaced_weaken_d; [|exact HEsp]. lia. }
  (* auto *)
  assert (HA : exists A, (if ts_auto ts
                          then auto_loop (S (Z.to_nat (zlen raw)) + length EL) raw (ts_autoveto ts) npre nsamp dly fa EL
                          else Ok []) = Ok A /\
                         (if ts_auto ts then (forall t, In t A -> fa <= t /\ t + nsamp - npre < zlen raw) else A = [])).
  { destruct (ts_auto ts); [|eauto].
    destruct (auto_loop_range raw (ts_autoveto ts) npre nsamp dly ltac:(lia) Hdly (S (Z.to_nat (zlen raw)) + length EL)%nat fa EL
                ltac:(lia) (HELsp _ Hfl) ltac:(change (zlen EL) with (Z.of_nat (length EL)); lia)) as [A [H1 H2]].
    eauto. }
  destruct HA as [A [HAeq HAr]].
  rewrite HAeq.
  exists E, L, A. eexists. split; [reflexivity|].
  assert (HAr' : forall t, In t A -> npre <= t /\ t + nsamp - npre < zlen raw).
  { destruct (ts_auto ts); [intros t Ht; destruct (HAr t Ht); lia|subst A; intros t []]. }
  assert (Hin : forall x, In x (if ts_auto ts then sort (EL ++ A) else EL) <-> In x E \/ In x L \/ In x A).
  { intros x. destruct (ts_auto ts) eqn:Ea.
    - rewrite sort_in, in_app_iff, HELin. tauto.
    - subst A. rewrite HELin. cbn [In]. tauto. }
  assert (Hrange : forall i, In i (if ts_auto ts then sort (EL ++ A) else EL) -> npre <= i /\ i + nsamp - npre < zlen raw).
  { intros i Hi. apply Hin in Hi. destruct Hi as [Hi|[Hi|Hi]].
    - apply HEr in Hi. unfold e in Hi. lia.
    - apply HLr in Hi. unfold e in Hi. lia.
    - apply HAr' in Hi. lia. }
  split; try assumption.
  - change (ts_auto (d_ts d)) with (ts_auto ts). destruct (ts_auto ts) eqn:Ea; [|assumption].
    exists (S (Z.to_nat (zlen raw)) + length EL)%nat, EL. repeat split.
    + exact HAeq.
    + apply HELsp. exact Hfl.
    + apply HELin.
    + apply HELin.
  - change (ts_level (d_ts d)) with (ts_level ts). change (ts_auto (d_ts d)) with (ts_auto ts).
    intros H1 H2. rewrite H2. unfold EL. now rewrite H1.
  - destruct (ts_auto ts).
    + apply sort_spaced. intros x Hx. apply (sort_in (EL ++ A)) in Hx. apply Hrange in Hx. lia.
    + apply HELsp. lia.
Qed.

(* ---------- cutting the records ---------- *)

Lemma cut_spec st npre nsamp idx :
  0 <= nsamp ->
  (forall i, In i idx -> npre <= i /\ i + nsamp - npre <= zlen (st_data st)) ->
  exists recs, cut st npre nsamp idx = Ok recs /\
               Forall2 (fun i r => trigger_at st i npre nsamp = Ok r) idx recs.
Proof.
  intros Hn. induction idx as [|i idx IH]; intros H; cbn [cut]; [eauto|].
  destruct IH as [recs [-> HF]]; [intros j Hj; apply H; now right|].
  destruct (H i ltac:(now left)) as [H1 H2].
  destruct (trigger_at st i npre nsamp) as [r|] eqn:Et.
  - exists (r :: recs). split; [reflexivity|]. constructor; assumption.
  - unfold trigger_at in Et.
    destruct ((i - npre <? 0) || (i + nsamp - npre >? zlen (st_data st)) || (nsamp <? 0)) eqn:E; [lia|discriminate].
Qed.

Lemma trigger_at_frame st i npre nsamp r : trigger_at st i npre nsamp = Ok r -> r_frame r = st_first st + i.
Proof.
  unfold trigger_at. destruct (_ || _ || _); [discriminate|]. intros H; inversion H; reflexivity.
Qed.

Lemma cut_frames st npre nsamp idx recs :
  Forall2 (fun i r => trigger_at st i npre nsamp = Ok r) idx recs ->
  map r_frame recs = map (fun i => st_first st + i) idx.
Proof.
  induction 1 as [|i r idx recs H _ IH]; [reflexivity|].
  cbn [map]. rewrite IH. f_equal. eapply trigger_at_frame; eassumption.
Qed.

(* ---------- one block: append, trigger, trim ---------- *)

(* before the first block the stream is empty and its frame counter meaningless (AppendSegment overwrites it) *)
Definition StreamInv0 (G : list Z) (F0 : Z) (st : stream) : Prop :=
  StreamInv G F0 st \/ (G = [] /\ st_data st = []).

Lemma append_inv0 G F0 st sg :
  StreamInv0 G F0 st -> seg_first sg = F0 + zlen G -> StreamInv (G ++ seg_data sg) F0 (append st sg).
Proof.
  intros [H|[-> He]] Hc; [now apply append_inv|].
  split; cbn [append st_data st_first app]; rewrite He; cbn [app].
  - lia.
  - replace (zlen (seg_data sg) - zlen (seg_data sg)) with 0 by lia. reflexivity.
  - change (zlen (@nil Z)) with 0 in *. lia.
Qed.

Lemma StreamInv0_first G F0 st : StreamInv0 G F0 st -> st_data st <> [] -> st_first st <= F0 + zlen G.
Proof.
  intros [[H1 H2 H3]|[_ He]] Hne; [|contradiction]. pose proof (zlen_nonneg (st_data st)). lia.
Qed.

Record Inv1 (F0 p : Z) (d : dsp) (G : list Z) : Prop := {
  i1_stream : StreamInv0 G F0 (d_stream d);
  i1_npre : 3 <= d_npre d;
  i1_nsamp : d_npre d + 1 <= d_nsamp d;
  i1_max : d_nsamp d <= max_nsamp;
  i1_emt : d_emt_nsamp d = d_nsamp d;
  i1_emulti : ts_emulti (d_ts d) = false;
  i1_period : st_period (d_stream d) = p \/ st_data (d_stream d) = []
}.

Lemma ntokeep_val d : d_emt_nsamp d = d_nsamp d -> 0 <= d_nsamp d <= max_nsamp -> ntokeep d = 2 * d_nsamp d + 10.
Proof. intros He Hn. unfold ntokeep. rewrite He. apply s32_small. unfold max_nsamp in Hn. lia. Qed.

(* the state in which TriggerData runs *)
Definition appended (d : dsp) (sg : segment) : dsp := set_stream d (append (d_stream d) sg).
(* the state after the cycle, given the positions found *)
Definition after_block (d1 : dsp) (idx : list Z) : dsp :=
  let l := match last_opt idx with Some i => st_first (d_stream d1) + i | None => d_last d1 end in
  set_stream (set_last d1 l) (trim (2 * d_nsamp d1 + 10) (d_stream d1)).

Lemma process_block_spec F0 p d G sg :
  Inv1 F0 p d G -> seg_first sg = F0 + zlen G -> seg_period sg = p ->
  let d1 := appended d sg in
  exists E L A idx recs,
    process_block d sg = Ok (after_block d1 idx, recs) /\
    scans d1 E L A idx /\
    Forall2 (fun i r => trigger_at (d_stream d1) i (d_npre d) (d_nsamp d) = Ok r) idx recs /\
    StreamInv (G ++ seg_data sg) F0 (d_stream d1) /\
    st_time (d_stream d1) = seg_time sg - (zlen (st_data (d_stream d))) * p /\
    st_period (d_stream d1) = p /\
    Inv1 F0 p (after_block d1 idx) (G ++ seg_data sg).
Proof.
  intros [Hst Hp Hs Hmax Hemt Hem Hper] Hc Hpd d1.
  assert (Hst1 : StreamInv (G ++ seg_data sg) F0 (d_stream d1)) by (apply append_inv0; assumption).
  destruct (trigger_positions_scans d1 Hp Hs) as [E [L [A [idx [Hpos Hsc]]]]].
  destruct (cut_spec (d_stream d1) (d_npre d) (d_nsamp d) idx ltac:(lia)) as [recs [Hcut HF]].
  { intros i Hi. destruct (sc_range _ _ _ _ _ Hsc i Hi) as [H1 H2]. cbn in H1, H2 |- *. lia. }
  exists E, L, A, idx, recs.
  assert (Hpb : process_block d sg = Ok (after_block d1 idx, recs)).
  { unfold process_block. fold (appended d sg). fold d1. unfold trigger_data.
    change (ts_emulti (d_ts d1)) with (ts_emulti (d_ts d)). rewrite Hem. rewrite Hpos.
    change (d_npre d1) with (d_npre d). change (d_nsamp d1) with (d_nsamp d). rewrite Hcut.
    unfold after_block. rewrite ntokeep_val; [reflexivity| |]; cbn; [assumption|lia]. }
  split; [exact Hpb|]. split; [exact Hsc|]. split; [exact HF|]. split; [exact Hst1|].
  assert (Htime : st_time (d_stream d1) = seg_time sg - zlen (st_data (d_stream d)) * p).
  { cbn. destruct Hper as [-> | ->]; [reflexivity|]. cbn. lia. }
  split; [exact Htime|]. split; [cbn; assumption|].
  unfold after_block.
  split; cbn [d_stream d_npre d_nsamp d_emt_nsamp d_ts d_last set_stream set_last appended d1]; try assumption.
  - left. apply trim_inv; [lia|exact Hst1].
  - left. unfold trim. destruct (_ >=? _); cbn [st_period append]; assumption.
Qed.

(* every record of the block is the right excerpt *)
Lemma block_records_excerpts F0 p d G sg idx recs npre nsamp ts C lo prev allp :
  let d1 := appended d sg in
  StreamInv (G ++ seg_data sg) F0 (d_stream d1) ->
  st_time (d_stream d1) = seg_time sg - (zlen (st_data (d_stream d))) * p ->
  seg_period sg = p -> npre = d_npre d -> nsamp = d_nsamp d ->
  Forall2 (fun i r => trigger_at (d_stream d1) i (d_npre d) (d_nsamp d) = Ok r) idx recs ->
  block_excerpts (mkbi npre nsamp ts F0 (G ++ seg_data sg) sg C lo prev allp recs).
Proof.
  intros d1 Hst Htime Hp -> -> HF r Hr.
  assert (Hex : exists i, trigger_at (d_stream d1) i (d_npre d) (d_nsamp d) = Ok r).
  { clear -HF Hr. induction HF as [|i r0 idx recs H _ IH]; [destruct Hr|].
    destruct Hr as [<-|Hr]; [eauto|auto]. }
  destruct Hex as [i Hi].
  destruct (trigger_at_excerpt _ _ _ _ _ _ _ Hst Hi) as [H1 [H2 [H3 [H4 [H5 H6]]]]].
  unfold excerpt_ok. cbn [bi_npre bi_nsamp bi_F0 bi_G bi_seg].
  repeat split; try assumption.
  - rewrite H6, Htime. change (st_period (d_stream d1)) with (seg_period sg).
    change (st_first (d_stream d1)) with (seg_first sg - zlen (st_data (d_stream d))). rewrite Hp. ring.
  - unfold trigger_at in Hi. destruct (_ || _ || _); [discriminate|]. inversion Hi. reflexivity.
Qed.

(* ---------- induction over histories, generic in the invariant and the per-block judgement ---------- *)

Lemma accepted_len_G F0 s nsamp npre : s_G (accepted_len F0 s nsamp npre) = s_G s.
Proof. unfold accepted_len. destruct (_ && _); reflexivity. Qed.

Section History.
Variable F0 : Z.
Variable I : dsp -> sstate -> Prop.
Variable P : binfo -> Prop.
Variable Q : op -> Prop.

Hypothesis H_block : forall d s sg, I d s -> Q (Block sg) -> seg_first sg = F0 + zlen (s_G s) ->
  exists d' recs, process_block d sg = Ok (d', recs) /\
    P (block_info F0 s sg recs) /\
    I d' (after_block_ss F0 s sg (map r_frame recs)).
Hypothesis H_trig : forall d s ts, I d s -> Q (CfgTrig ts) ->
  I (fst (cfg_trig d ts)) (if snd (cfg_trig d ts) then s else new_epoch F0 s (s_npre s) (s_nsamp s) ts).
Hypothesis H_len : forall d s nsamp npre, I d s -> Q (CfgLen nsamp npre) ->
  I (fst (cfg_len d nsamp npre)) (if lengths_ok npre nsamp then accepted_len F0 s nsamp npre else s).

Lemma history_ind : forall ops d s,
  I d s -> contiguous (F0 + zlen (s_G s)) ops -> Forall Q ops ->
  exists bs, annotate F0 s (combine ops (run d ops)) = Some bs /\ (forall b, In b bs -> P b) /\
             length (run d ops) = length ops /\ ~ In OPanic (run d ops).
Proof.
  induction ops as [|o ops IH]; intros d s HI Hc HQ.
  - exists []. cbn. repeat split; tauto.
  - inversion HQ as [|? ? HQo HQr]; subst. destruct o as [sg|ts|nsamp npre].
    + cbn [contiguous] in Hc. destruct Hc as [Hf Hc].
      destruct (H_block d s sg HI HQo Hf) as [d' [recs [Hpb [HP HI']]]].
      cbn [run step]. rewrite Hpb. cbn [combine annotate].
      rewrite Hf, Z.eqb_refl.
      destruct (IH d' _ HI') as [bs [Ha [Hb [Hlen Hnp]]]]; [unfold after_block_ss; cbn [s_G]; rewrite zlen_app; now rewrite Z.add_assoc|assumption|].
      rewrite Ha. eexists. split; [reflexivity|]. split; [|split].
      * intros b [<-|Hb']; [exact HP|now apply Hb].
      * cbn [length]. now rewrite Hlen.
      * intros [Hx|Hx]; [discriminate|contradiction].
    + cbn [contiguous] in Hc. cbn [run step].
      pose proof (H_trig d s ts HI HQo) as HI'.
      destruct (cfg_trig d ts) as [d' err]. cbn [fst snd] in HI'. destruct err; cbn [combine annotate].
      * destruct (IH _ _ HI') as [bs [Ha [Hb [Hlen Hnp]]]]; [exact Hc|assumption|].
        exists bs. split; [exact Ha|]. split; [exact Hb|]. split; [cbn [length]; now rewrite Hlen|].
        intros [Hx|Hx]; [discriminate|contradiction].
      * destruct (IH _ _ HI') as [bs [Ha [Hb [Hlen Hnp]]]]; [exact Hc|assumption|].
        exists bs. split; [exact Ha|]. split; [exact Hb|]. split; [cbn [length]; now rewrite Hlen|].
        intros [Hx|Hx]; [discriminate|contradiction].
    + cbn [contiguous] in Hc. cbn [run step].
      pose proof (H_len d s nsamp npre HI HQo) as HI'.
      unfold cfg_len in *. destruct (lengths_ok npre nsamp); cbn [fst] in HI'; cbn [combine annotate].
      * destruct (IH _ _ HI') as [bs [Ha [Hb [Hlen Hnp]]]]; [rewrite accepted_len_G; exact Hc|assumption|].
        exists bs. split; [exact Ha|]. split; [exact Hb|]. split; [cbn [length]; now rewrite Hlen|].
        intros [Hx|Hx]; [discriminate|contradiction].
      * destruct (IH _ _ HI') as [bs [Ha [Hb [Hlen Hnp]]]]; [exact Hc|assumption|].
        exists bs. split; [exact Ha|]. split; [exact Hb|]. split; [cbn [length]; now rewrite Hlen|].
        intros [Hx|Hx]; [discriminate|contradiction].
Qed.
End History.

(* a request that switches edge-multi on with nmonotone beyond every record length is refused; any other request
   covered by [op_ok] has edge-multi off and is installed *)
Lemma cfg_trig_cases d ts :
  3 <= d_npre d -> d_npre d + 1 <= d_nsamp d -> d_nsamp d <= max_nsamp ->
  (ts_emulti ts = true -> max_nsamp < ts_emt_nmono ts) ->
  (ts_emulti ts = true /\ cfg_trig d ts = (d, true)) \/
  (ts_emulti ts = false /\ cfg_trig d ts = (cfg_trig_do d ts, false)).
Proof.
  intros Hp Hs Hm HQ. unfold cfg_trig. destruct (ts_emulti ts) eqn:Ee; [left|right; split; reflexivity].
  split; [reflexivity|]. specialize (HQ eq_refl). unfold max_nsamp in *.
  unfold emt_valid. rewrite !s32_small by lia.
  assert (E : (ts_emt_nmono ts >? d_nsamp d - d_npre d) = true) by lia.
  rewrite E. cbn [negb]. rewrite andb_false_r. reflexivity.
Qed.

(* ---------- C01 for the model ---------- *)

Definition Rel1 (F0 p : Z) (d : dsp) (s : sstate) : Prop :=
  Inv1 F0 p d (s_G s) /\ d_npre d = s_npre s /\ d_nsamp d = s_nsamp s.

Lemma fresh_inv1 F0 p npre nsamp ts :
  lengths_ok npre nsamp = true -> nsamp <= max_nsamp ->
  Inv1 F0 p (fresh_start npre nsamp ts) [].
Proof.
  intros Hl Hm. apply lengths_ok_iff in Hl. split; cbn; try lia.
  - right. split; reflexivity.
  - apply s32_small. unfold max_nsamp in Hm. lia.
  - now right.
Qed.

Lemma cfg_trig_inv1 F0 p d G ts : Inv1 F0 p d G -> ts_emulti ts = false -> Inv1 F0 p (cfg_trig_do d ts) G.
Proof.
  intros [H1 H2 H3 H4 H5 H6 H7] He. split; cbn; try assumption.
  apply s32_small. unfold max_nsamp in H4. lia.
Qed.

Lemma cfg_len_inv1 F0 p d G nsamp npre :
  Inv1 F0 p d G -> nsamp <= max_nsamp -> lengths_ok npre nsamp = true ->
  Inv1 F0 p (fst (cfg_len d nsamp npre)) G.
Proof.
  intros [H1 H2 H3 H4 H5 H6 H7] Hm Hl. unfold cfg_len. rewrite Hl. apply lengths_ok_iff in Hl.
  split; cbn; try assumption; try lia.
  apply s32_small. unfold max_nsamp in Hm. lia.
Qed.

Lemma model_C01 npre nsamp ts F0 p ops :
  valid_history npre nsamp F0 p ops ->
  let h := combine ops (run (fresh_start npre nsamp ts) ops) in
  C01_holds npre nsamp ts F0 h /\
  length (run (fresh_start npre nsamp ts) ops) = length ops /\
  ~ In OPanic (run (fresh_start npre nsamp ts) ops).
Proof.
  intros [Hl [Hm [Hc HQ]]] h.
  destruct (history_ind F0 (Rel1 F0 p) block_excerpts (op_ok p)) with (ops := ops)
    (d := fresh_start npre nsamp ts) (s := init_sstate npre nsamp ts F0) as [bs [Ha [Hb [Hlen Hnp]]]].
  - (* block *)
    intros d s sg [HI [Hn1 Hn2]] HQb Hf.
    destruct (process_block_spec F0 p d (s_G s) sg HI Hf HQb) as [E [L [A [idx [recs [Hpb [Hsc [HF [Hst [Htime [Hper HI']]]]]]]]]]].
    eexists _, recs. split; [exact Hpb|]. split.
    + eapply block_records_excerpts; eauto.
    + split; [exact HI'|]. cbn. split; assumption.
  - intros d s ts' [HI [Hn1 Hn2]] HQt. cbn [op_ok] in HQt. pose proof HI as [_ Hp3 Hs1 Hmx _ _ _].
    destruct (cfg_trig_cases d ts' Hp3 Hs1 Hmx HQt) as [[He ->]|[He ->]]; cbn [fst snd].
    + split; [exact HI|split; assumption].
    + split; [|split; assumption]. apply cfg_trig_inv1; assumption.
  - intros d s nsamp' npre' [HI [Hn1 Hn2]] HQl. cbn [op_ok] in HQl.
    destruct (lengths_ok npre' nsamp') eqn:El.
    + unfold Rel1. rewrite accepted_len_G.
      split; [apply cfg_len_inv1; assumption|]. unfold cfg_len. rewrite El. cbn [fst]. unfold accepted_len.
      destruct ((nsamp' =? s_nsamp s) && (npre' =? s_npre s)) eqn:Es; cbn; [split; lia|split; reflexivity].
    + unfold cfg_len. rewrite El. cbn [fst]. split; [exact HI|split; assumption].
  - split; [apply fresh_inv1; assumption|]. split; reflexivity.
  - cbn. now rewrite Z.add_0_r.
  - exact HQ.
  - split; [|split; assumption]. exists bs. split; assumption.
Qed.

(* the boolean checker decides the judgement *)
Lemma excerpt_okb_iff b r : excerpt_okb b r = true <-> excerpt_ok b r.
Proof.
  unfold excerpt_okb, excerpt_ok. cbv zeta.
  rewrite !andb_true_iff, zlist_eqb_eq, Bool.eqb_true_iff, !Z.eqb_eq, !Z.leb_le. tauto.
Qed.

Lemma block_excerptsb_iff b : block_excerptsb b = true <-> block_excerpts b.
Proof.
  unfold block_excerptsb, block_excerpts. rewrite forallb_forall.
  split; intros H r Hr; apply excerpt_okb_iff; auto.
Qed.

Lemma C01_check_iff npre nsamp ts F0 h : C01_check npre nsamp ts F0 h = true <-> C01_holds npre nsamp ts F0 h.
Proof.
  unfold C01_check, C01_holds. destruct (annotate F0 _ h) as [bs|].
  - rewrite forallb_forall. split.
    + intros H. exists bs. split; [reflexivity|]. intros b Hb. apply block_excerptsb_iff. auto.
    + intros [bs' [E H]]. inversion E; subst. intros b Hb. apply block_excerptsb_iff. auto.
  - split; [discriminate|]. intros [bs [E _]]. discriminate.
Qed.

(* ---------- the hypotheses are satisfiable by a non-trivial history ---------- *)

(* npre 3, nsamp 6, edge trigger at level 100: a step delivered in the second of three blocks cut so that the
   record needs samples of the first two blocks, then a refused and an accepted length change *)
Definition example_ts : tstate := mkts false 0 0 false false 0 true true false 100 false.
Definition example_ops : list op :=
  [ Block {| seg_data := [10;10;10;10;10]; seg_first := 7; seg_time := 1000; seg_period := 10; seg_signed := false |};
    Block {| seg_data := [10;500;500]; seg_first := 12; seg_time := 1050; seg_period := 10; seg_signed := false |};
    CfgLen 2 2;
    CfgLen 8 4;
    Block {| seg_data := [500;500;500;500;500;500]; seg_first := 15; seg_time := 1080; seg_period := 10; seg_signed := false |} ].

Example valid_history_example :
  valid_history 3 6 7 10 example_ops /\
  run (fresh_start 3 6 example_ts) example_ops =
    [ ORecs [] 5 7;
      ORecs [] 8 7;
      OCfg true; OCfg false;
      ORecs [ {| r_frame := 13; r_time := 1060; r_pre := 4; r_data := [10;10;10;10;500;500;500;500]; r_signed := false |} ] 14 7 ].
Proof.
  split.
  - unfold valid_history, example_ops. cbn [contiguous seg_first seg_data]. unfold max_nsamp.
    split; [reflexivity|]. split; [lia|]. split; [cbn; lia|].
    repeat constructor; cbn; unfold max_nsamp; lia.
  - vm_compute. reflexivity.
Qed.

(* ---------- the statements of Properties.v ---------- *)

Lemma model_records_are_excerpts :
  forall npre nsamp ts F0 period ops,
    lengths_ok npre nsamp = true -> nsamp <= max_nsamp ->
    contiguous F0 ops -> Forall (op_ok period) ops ->
    exists bs,
      annotate F0 (init_sstate npre nsamp ts F0) (combine ops (run (fresh_start npre nsamp ts) ops)) = Some bs /\
      forall b r, In b bs -> In r (bi_recs b) -> excerpt_ok b r.
Proof.
  intros npre nsamp ts F0 p ops H1 H2 H3 H4.
  destruct (model_C01 npre nsamp ts F0 p ops) as [[bs [Ha Hb]] _]; [repeat split; assumption|].
  exists bs. split; [exact Ha|]. intros b r Hb' Hr. exact (Hb b Hb' r Hr).
Qed.

Lemma model_never_panics :
  forall npre nsamp ts F0 period ops,
    lengths_ok npre nsamp = true -> nsamp <= max_nsamp ->
    contiguous F0 ops -> Forall (op_ok period) ops ->
    length (run (fresh_start npre nsamp ts) ops) = length ops /\
    ~ In OPanic (run (fresh_start npre nsamp ts) ops).
Proof.
  intros npre nsamp ts F0 p ops H1 H2 H3 H4.
  destruct (model_C01 npre nsamp ts F0 p ops) as [_ H]; [repeat split; assumption|exact H].
Qed.

Lemma model_C01_check :
  forall npre nsamp ts F0 period ops,
    lengths_ok npre nsamp = true -> nsamp <= max_nsamp ->
    contiguous F0 ops -> Forall (op_ok period) ops ->
    C01_check npre nsamp ts F0 (combine ops (run (fresh_start npre nsamp ts) ops)) = true.
Proof.
  intros npre nsamp ts F0 p ops H1 H2 H3 H4. apply C01_check_iff.
  destruct (model_C01 npre nsamp ts F0 p ops) as [H _]; [repeat split; assumption|exact H].
Qed.

Lemma C01_checker_sound :
  forall npre nsamp ts F0 h,
    C01_check npre nsamp ts F0 h = true ->
    exists bs, annotate F0 (init_sstate npre nsamp ts F0) h = Some bs /\
      forall b r, In b bs -> In r (bi_recs b) -> excerpt_ok b r.
Proof.
  intros npre nsamp ts F0 h H. apply C01_check_iff in H. destruct H as [bs [Ha Hb]].
  exists bs. split; [exact Ha|]. intros b r Hb' Hr. exact (Hb b Hb' r Hr).
Qed.

Lemma annotate_ground_truth :
  forall F0 s h bs, annotate F0 s h = Some bs ->
    forall pre b post, bs = pre ++ b :: post ->
      bi_F0 b = F0 /\
      bi_G b = s_G s ++ concat (map (fun x => seg_data (bi_seg x)) (pre ++ [b])) /\
      seg_first (bi_seg b) = F0 + zlen (bi_G b) - zlen (seg_data (bi_seg b)).
Proof.
  intros F0 s h. revert s. induction h as [|[o ob] h IH]; intros s bs Ha pre b post Hbs.
  - inversion Ha; subst. destruct pre; discriminate.
  - destruct o as [sg|ts|nsamp npre]; destruct ob as [recs n f|err|]; cbn [annotate] in Ha; try discriminate.
    + destruct (seg_first sg =? F0 + zlen (s_G s)) eqn:Ef; [|discriminate].
      destruct (annotate F0 _ h) as [bs'|] eqn:Ea; [|discriminate]. injection Ha as Ha. rewrite <- Ha in Hbs. clear Ha.
      apply Z.eqb_eq in Ef.
      destruct pre as [|b0 pre]; cbn [app] in Hbs; injection Hbs as Hb1 Hb2.
      * subst b. unfold block_info. cbn [bi_F0 bi_G bi_seg map concat app]. rewrite app_nil_r. repeat split.
        rewrite zlen_app. lia.
      * subst b0 bs'. destruct (IH _ _ Ea pre b post eq_refl) as [H1 [H2 H3]]. split; [exact H1|]. split; [|exact H3].
        rewrite H2. unfold after_block_ss, block_info. cbn [s_G map concat bi_seg app]. now rewrite app_assoc.
    + destruct err; apply (IH _ _ Ha pre b post Hbs).
    + destruct err; [apply (IH _ _ Ha pre b post Hbs)|].
      destruct (IH _ _ Ha pre b post Hbs) as [H1 [H2 H3]]. rewrite accepted_len_G in H2. auto.
Qed.

(* ================= sources that lose frames between blocks (no contiguity premise) ================= *)

(* content-only invariant: the retained stream is a suffix of everything delivered *)
Definition StreamC (G : list Z) (st : stream) : Prop :=
  zlen (st_data st) <= zlen G /\ st_data st = zskipn (zlen G - zlen (st_data st)) G.

Lemma emptyC : StreamC [] empty_stream.
Proof. split; cbn; [lia|reflexivity]. Qed.

Lemma appendC G st sg : StreamC G st -> StreamC (G ++ seg_data sg) (append st sg).
Proof.
  intros [Hl Hd]. pose proof (zlen_nonneg (st_data st)).
  split; cbn [append st_data]; rewrite ?zlen_app; [lia|].
  replace (zlen G + zlen (seg_data sg) - (zlen (st_data st) + zlen (seg_data sg)))
    with (zlen G - zlen (st_data st)) by lia.
  rewrite zskipn_app_r by lia. now rewrite <- Hd.
Qed.

Lemma trimC G st N : 0 <= N -> StreamC G st -> StreamC G (trim N st).
Proof.
  intros HN [Hl Hd]. unfold trim. destruct (N >=? zlen (st_data st)) eqn:E; [now split|].
  pose proof (zlen_nonneg (st_data st)).
  assert (HL : zlen (zskipn (zlen (st_data st) - N) (st_data st)) = N) by (rewrite zskipn_length; lia).
  split; cbn [st_data]; rewrite ?HL; [lia|].
  rewrite Hd at 2. rewrite zskipn_zskipn by lia. f_equal. lia.
Qed.

(* with the frame origin chosen to fit, it is the contiguous invariant: the excerpt lemma of Stream.v applies *)
Lemma StreamC_inv G st : StreamC G st -> StreamInv G (st_first st - (zlen G - zlen (st_data st))) st.
Proof. intros [Hl Hd]. split; [exact Hl|exact Hd|lia]. Qed.

Record Inv1G (p : Z) (d : dsp) (G : list Z) : Prop := {
  g_stream : StreamC G (d_stream d);
  g_npre : 3 <= d_npre d;
  g_nsamp : d_npre d + 1 <= d_nsamp d;
  g_max : d_nsamp d <= max_nsamp;
  g_emt : d_emt_nsamp d = d_nsamp d;
  g_emulti : ts_emulti (d_ts d) = false;
  g_period : st_period (d_stream d) = p \/ st_data (d_stream d) = []
}.

Lemma process_block_specG p d G sg :
  Inv1G p d G -> seg_period sg = p ->
  let d1 := appended d sg in
  exists idx recs,
    process_block d sg = Ok (after_block d1 idx, recs) /\
    Forall2 (fun i r => trigger_at (d_stream d1) i (d_npre d) (d_nsamp d) = Ok r) idx recs /\
    StreamC (G ++ seg_data sg) (d_stream d1) /\
    st_time (d_stream d1) = seg_time sg - (zlen (st_data (d_stream d))) * p /\
    Inv1G p (after_block d1 idx) (G ++ seg_data sg).
Proof.
  intros [Hst Hp Hs Hmax Hemt Hem Hper] Hpd d1.
  assert (Hst1 : StreamC (G ++ seg_data sg) (d_stream d1)) by (apply appendC; assumption).
  destruct (trigger_positions_scans d1 Hp Hs) as [E [L [A [idx [Hpos Hsc]]]]].
  destruct (cut_spec (d_stream d1) (d_npre d) (d_nsamp d) idx ltac:(lia)) as [recs [Hcut HF]].
  { intros i Hi. destruct (sc_range _ _ _ _ _ Hsc i Hi) as [H1 H2]. cbn in H1, H2 |- *. lia. }
  exists idx, recs.
  assert (Hpb : process_block d sg = Ok (after_block d1 idx, recs)).
  { unfold process_block. fold (appended d sg). fold d1. unfold trigger_data.
    change (ts_emulti (d_ts d1)) with (ts_emulti (d_ts d)). rewrite Hem. rewrite Hpos.
    change (d_npre d1) with (d_npre d). change (d_nsamp d1) with (d_nsamp d). rewrite Hcut.
    unfold after_block. rewrite ntokeep_val; [reflexivity| |]; cbn; [assumption|lia]. }
  split; [exact Hpb|]. split; [exact HF|]. split; [exact Hst1|].
  assert (Htime : st_time (d_stream d1) = seg_time sg - zlen (st_data (d_stream d)) * p).
  { cbn. destruct Hper as [-> | ->]; [reflexivity|]. cbn. lia. }
  split; [exact Htime|].
  unfold after_block.
  split; cbn [d_stream d_npre d_nsamp d_emt_nsamp d_ts d_last set_stream set_last appended d1]; try assumption.
  - apply trimC; [lia|exact Hst1].
  - left. unfold trim. destruct (_ >=? _); cbn [st_period append]; assumption.
Qed.

Lemma block_records_excerptsG p d G sg idx recs :
  let d1 := appended d sg in
  StreamC (G ++ seg_data sg) (d_stream d1) ->
  st_time (d_stream d1) = seg_time sg - (zlen (st_data (d_stream d))) * p ->
  seg_period sg = p ->
  Forall2 (fun i r => trigger_at (d_stream d1) i (d_npre d) (d_nsamp d) = Ok r) idx recs ->
  forall r, In r recs -> excerpt_okG (mkgi (d_npre d) (d_nsamp d) (G ++ seg_data sg) sg recs) r.
Proof.
  intros d1 Hst Htime Hp HF r Hr.
  assert (Hex : exists i, trigger_at (d_stream d1) i (d_npre d) (d_nsamp d) = Ok r).
  { clear -HF Hr. induction HF as [|i r0 idx recs H _ IH]; [destruct Hr|].
    destruct Hr as [<-|Hr]; [eauto|auto]. }
  destruct Hex as [i Hi].
  destruct (trigger_at_excerpt _ _ _ _ _ _ _ (StreamC_inv _ _ Hst) Hi) as [H1 [H2 [H3 [H4 [H5 H6]]]]].
  assert (Hlen1 : zlen (st_data (d_stream d1)) = zlen (st_data (d_stream d)) + zlen (seg_data sg)).
  { cbn. now rewrite zlen_app. }
  assert (Hf1 : st_first (d_stream d1) = seg_first sg - zlen (st_data (d_stream d))) by reflexivity.
  unfold excerpt_okG. cbn [gi_npre gi_nsamp gi_G gi_seg].
  replace (zlen (G ++ seg_data sg) - zlen (seg_data sg) + (r_frame r - seg_first sg))
    with (r_frame r - (st_first (d_stream d1) - (zlen (G ++ seg_data sg) - zlen (st_data (d_stream d1))))) by lia.
  repeat split; try assumption.
  - rewrite H6, Htime. change (st_period (d_stream d1)) with (seg_period sg). rewrite Hf1, Hp. ring.
  - unfold trigger_at in Hi. destruct (_ || _ || _); [discriminate|]. inversion Hi. reflexivity.
Qed.

Lemma fresh_inv1G p npre nsamp ts :
  lengths_ok npre nsamp = true -> nsamp <= max_nsamp -> Inv1G p (fresh_start npre nsamp ts) [].
Proof.
  intros Hl Hm. apply lengths_ok_iff in Hl. split; cbn; try lia.
  - exact emptyC.
  - apply s32_small. unfold max_nsamp in Hm. lia.
  - now right.
Qed.

Lemma history_G p : forall ops d G,
  Inv1G p d G -> Forall (op_ok p) ops ->
  exists gs, annotateG (d_npre d) (d_nsamp d) G (combine ops (run d ops)) = Some gs /\
             (forall g r, In g gs -> In r (gi_recs g) -> excerpt_okG g r) /\
             length (run d ops) = length ops /\ ~ In OPanic (run d ops).
Proof.
  induction ops as [|o ops IH]; intros d G HI HQ.
  - exists []. cbn. repeat split; tauto.
  - inversion HQ as [|? ? HQo HQr]; subst. destruct o as [sg|ts|nsamp npre].
    + cbn [op_ok] in HQo.
      destruct (process_block_specG p d G sg HI HQo) as [idx [recs [Hpb [HF [Hst [Htime HI']]]]]].
      cbn [run step]. rewrite Hpb. cbn [combine annotateG].
      destruct (IH _ _ HI' HQr) as [gs [Ha [Hb [Hlen Hnp]]]].
      change (d_npre (after_block (appended d sg) idx)) with (d_npre d) in Ha.
      change (d_nsamp (after_block (appended d sg) idx)) with (d_nsamp d) in Ha.
      rewrite Ha. eexists. split; [reflexivity|]. split; [|split].
      * intros g r [<-|Hg] Hr; [|now apply (Hb g r)].
        cbn [gi_recs] in Hr. eapply block_records_excerptsG; eauto.
      * cbn [length]. now rewrite Hlen.
      * intros [Hx|Hx]; [discriminate|contradiction].
    + cbn [op_ok] in HQo. cbn [run step]. pose proof HI as [_ Hp3 Hs1 Hmx _ _ _].
      destruct (cfg_trig_cases d ts Hp3 Hs1 Hmx HQo) as [[He ->]|[He ->]]; cbn [combine annotateG].
      * destruct (IH _ _ HI HQr) as [gs [Ha [Hb [Hlen Hnp]]]].
        exists gs. split; [exact Ha|]. split; [exact Hb|]. split; [cbn [length]; now rewrite Hlen|].
        intros [Hx|Hx]; [discriminate|contradiction].
      * assert (HI' : Inv1G p (cfg_trig_do d ts) G).
        { destruct HI as [H1 H2 H3 H4 H5 H6 H7]. split; cbn; try assumption.
          apply s32_small. unfold max_nsamp in H4. lia. }
        destruct (IH _ _ HI' HQr) as [gs [Ha [Hb [Hlen Hnp]]]].
        exists gs. split; [exact Ha|]. split; [exact Hb|]. split; [cbn [length]; now rewrite Hlen|].
        intros [Hx|Hx]; [discriminate|contradiction].
    + cbn [op_ok] in HQo. cbn [run step]. unfold cfg_len.
      destruct (lengths_ok npre nsamp) eqn:El; cbn [combine annotateG].
      * assert (HI' : Inv1G p (mkdsp nsamp npre (d_last d) (d_stream d) (d_ts d) (s32 nsamp) (s32 npre)) G).
        { destruct HI as [H1 H2 H3 H4 H5 H6 H7]. apply lengths_ok_iff in El. split; cbn; try assumption; try lia.
          apply s32_small. unfold max_nsamp in HQo. lia. }
        destruct (IH _ _ HI' HQr) as [gs [Ha [Hb [Hlen Hnp]]]].
        exists gs. split; [exact Ha|]. split; [exact Hb|]. split; [cbn [length]; now rewrite Hlen|].
        intros [Hx|Hx]; [discriminate|contradiction].
      * destruct (IH _ _ HI HQr) as [gs [Ha [Hb [Hlen Hnp]]]].
        exists gs. split; [exact Ha|]. split; [exact Hb|]. split; [cbn [length]; now rewrite Hlen|].
        intros [Hx|Hx]; [discriminate|contradiction].
Qed.

Lemma model_records_are_excerptsG :
  forall npre nsamp ts period ops,
    lengths_ok npre nsamp = true -> nsamp <= max_nsamp -> Forall (op_ok period) ops ->
    exists gs,
      annotateG npre nsamp [] (combine ops (run (fresh_start npre nsamp ts) ops)) = Some gs /\
      forall g r, In g gs -> In r (gi_recs g) -> excerpt_okG g r.
Proof.
  intros npre nsamp ts p ops Hl Hm HQ.
  destruct (history_G p ops (fresh_start npre nsamp ts) [] (fresh_inv1G p npre nsamp ts Hl Hm) HQ) as [gs [Ha [Hb _]]].
  exists gs. split; [exact Ha|exact Hb].
Qed.

Lemma model_never_panicsG :
  forall npre nsamp ts period ops,
    lengths_ok npre nsamp = true -> nsamp <= max_nsamp -> Forall (op_ok period) ops ->
    length (run (fresh_start npre nsamp ts) ops) = length ops /\
    ~ In OPanic (run (fresh_start npre nsamp ts) ops).
Proof.
  intros npre nsamp ts p ops Hl Hm HQ.
  destruct (history_G p ops (fresh_start npre nsamp ts) [] (fresh_inv1G p npre nsamp ts Hl Hm) HQ) as [gs [_ [_ H]]].
  exact H.
Qed.

Lemma excerpt_okGb_iff g r : excerpt_okGb g r = true <-> excerpt_okG g r.
Proof.
  unfold excerpt_okGb, excerpt_okG. cbv zeta.
  rewrite !andb_true_iff, zlist_eqb_eq, Bool.eqb_true_iff, !Z.eqb_eq, !Z.leb_le. tauto.
Qed.

Lemma C01G_check_iff npre nsamp h : C01G_check npre nsamp h = true <-> C01G_holds npre nsamp h.
Proof.
  unfold C01G_check, C01G_holds. destruct (annotateG npre nsamp [] h) as [gs|].
  - rewrite forallb_forall. split.
    + intros H. exists gs. split; [reflexivity|]. intros g r Hg Hr. apply excerpt_okGb_iff.
      specialize (H g Hg). rewrite forallb_forall in H. auto.
    + intros [gs' [E H]]. inversion E; subst. intros g Hg. apply forallb_forall. intros r Hr.
      apply excerpt_okGb_iff. auto.
  - split; [discriminate|]. intros [gs [E _]]. discriminate.
Qed.

Lemma model_C01G_check :
  forall npre nsamp ts period ops,
    lengths_ok npre nsamp = true -> nsamp <= max_nsamp -> Forall (op_ok period) ops ->
    C01G_check npre nsamp (combine ops (run (fresh_start npre nsamp ts) ops)) = true.
Proof.
  intros. apply C01G_check_iff. unfold C01G_holds. eapply model_records_are_excerptsG; eassumption.
Qed.

Lemma C01G_checker_sound :
  forall npre nsamp h, C01G_check npre nsamp h = true ->
    exists gs, annotateG npre nsamp [] h = Some gs /\
      forall g r, In g gs -> In r (gi_recs g) -> excerpt_okG g r.
Proof. intros npre nsamp h H. apply C01G_check_iff in H. exact H. Qed.

(* a history with a frame gap: 3 frames lost before the second block; the pulse delivered in that block and the
   one pending in the tail of the first block both become records while the second block is processed *)
Definition gap_ops : list op :=
  [ Block {| seg_data := [10;10;10;10;10;10;10;500;500]; seg_first := 0; seg_time := 0; seg_period := 10; seg_signed := false |};
    Block {| seg_data := [500;500;500;500;500;500;500;3000;3000;3000;3000;3000]; seg_first := 12; seg_time := 120; seg_period := 10; seg_signed := false |} ].

Example gap_example :
  Forall (op_ok 10) gap_ops /\
  map (fun o => match o with ORecs r _ _ => map (fun x => (r_frame x, r_time x)) r | _ => [] end)
      (run (fresh_start 3 6 example_ts) gap_ops) = [[]; [(10, 100); (19, 190)]].
Proof. split; [repeat constructor|vm_compute; reflexivity]. Qed.
