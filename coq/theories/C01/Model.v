(* C01 / C02 — shared mirror model of the per-channel trigger pipeline (definitions only, no proofs):
     triggering.go     firstPotentialTriggerFrame, firstPotentialAutoTriggerFrame, edgeTriggerComputeAppend,
                       levelTriggerComputeAppend, autoTriggerComputeAppend, TriggerData (LastTrigger update, sort)
     process_data.go   NewDataStreamProcessor, ConfigureTrigger, ConfigurePulseLengths, processSegment, TrimStream
     data_source.go    PrepareRun (what it installs in each processor), ChangeTriggerState,
                       AnySource.ConfigurePulseLengths (validity rule), the per-block cycle of ProcessSegments
     edge_multi_trigger.go   only EMTState.nsamp/npre and NToKeepOnTrim
   The retained stream (AppendSegment / TrimKeepingN / triggerAtSpecificSamples) is Pipeline/Stream.v.

   Conventions.  Stream positions [i] are indices into the retained stream (Go: int), frames are absolute.
   The three passes return the positions at which they cut records; the records themselves are cut by
   [cut] afterwards (triggerAt has no effect on the scans, so this is the same function of the inputs;
   a Panic anywhere makes the whole block Panic).  Every slice index the Go code uses is checked and
   yields Panic when out of range.  Loops run on fuel; running out of fuel is Panic as well and is proved
   unreachable (C01 processing_never_panics).
   Edge-multi triggering (TriggerState.EdgeMulti) is property C08's model: this model does not describe
   it, [trigger_data] answers [not_modelled] (= Panic) and every theorem carries the premise that it is off.
   int32 conversions (EMTState.nsamp = int32(NSamples), NToKeepOnTrim in int32 arithmetic, -EdgeLevel)
   are written out with [s32]; frame numbers are unbounded Z (premise: |frames| < 2^61). *)
From Dastard Require Import Common.ZX Pipeline.Stream.

Definition s32 (x : Z) : Z := (x + 2147483648) mod 4294967296 - 2147483648.
Definition u16 (x : Z) : Z := x mod 65536.

(* math.MinInt64 / 4 : "far in the past" *)
Definition far_past : Z := - 2305843009213693952.

(* TriggerState: the fields the edge / level / auto passes read.
   [ts_autodelay] is the ORACLE integer  int(AutoDelay.Seconds()*SampleRate + 0.5)  supplied (and checked) by
   the harness: the float expression itself is not modelled. *)
Record tstate := mkts_full {
  ts_auto : bool; ts_autodelay : Z; ts_autoveto : Z;
  ts_level : bool; ts_levelrising : bool; ts_levellevel : Z;
  ts_edge : bool; ts_edgerising : bool; ts_edgefalling : bool; ts_edgelevel : Z;
  ts_emulti : bool;
  (* the two EMTState parameters that EMTState.valid() reads (only to decide whether a request that switches
     edge-multi on is REFUSED; edge-multi triggering itself is C08's model) *)
  ts_emt_nmono : Z; ts_emt_zero : bool }.
Definition mkts (auto : bool) (delay veto : Z) (lev rising : bool) (level : Z) (edge er ef : bool) (elevel : Z)
                (em : bool) : tstate :=
  mkts_full auto delay veto lev rising level edge er ef elevel em 0 false.

(* DataStreamProcessor: record lengths, LastTrigger, the retained stream, trigger settings, and the copy of
   the record lengths inside EMTState that sizes the retained history *)
Record dsp := mkdsp {
  d_nsamp : Z; d_npre : Z; d_last : Z; d_stream : stream; d_ts : tstate;
  d_emt_nsamp : Z; d_emt_npre : Z }.

Definition set_stream (d : dsp) (st : stream) : dsp :=
  mkdsp (d_nsamp d) (d_npre d) (d_last d) st (d_ts d) (d_emt_nsamp d) (d_emt_npre d).
Definition set_last (d : dsp) (l : Z) : dsp :=
  mkdsp (d_nsamp d) (d_npre d) l (d_stream d) (d_ts d) (d_emt_nsamp d) (d_emt_npre d).

Definition no_emulti (ts : tstate) : tstate :=
  mkts_full (ts_auto ts) (ts_autodelay ts) (ts_autoveto ts) (ts_level ts) (ts_levelrising ts) (ts_levellevel ts)
       (ts_edge ts) (ts_edgerising ts) (ts_edgefalling ts) (ts_edgelevel ts) false (ts_emt_nmono ts) (ts_emt_zero ts).

(* PrepareRun: NewDataStreamProcessor (LastTrigger far in the past, empty stream), then the restored (or
   default) TriggerState with EdgeMulti forced off, then (fix commit) the record lengths copied into EMTState
   so that NToKeepOnTrim is right from the first block. *)
Definition fresh_start (npre nsamp : Z) (restored : tstate) : dsp :=
  mkdsp nsamp npre far_past empty_stream (no_emulti restored) (s32 nsamp) (s32 npre).

(* The code before the fix: the restored TriggerState carries a zero EMTState, so EMTState.nsamp = 0 until the
   first ConfigureTrigger / ConfigurePulseLengths.  Used only by the [_refuted_pre_fix] theorem. *)
Definition fresh_start_old (npre nsamp : Z) (restored : tstate) : dsp :=
  mkdsp nsamp npre far_past empty_stream (no_emulti restored) 0 0.

(* EMTState.NToKeepOnTrim: int(2*s.nsamp + 10) in int32 arithmetic *)
Definition ntokeep (d : dsp) : Z := s32 (2 * d_emt_nsamp d + 10).

(* EMTState.valid() with nsamp/npre = int32 of the processor's record lengths *)
Definition emt_valid (ts : tstate) (npre nsamp : Z) : bool :=
  negb (ts_emt_zero ts && (s32 npre <? 4)) &&
  negb (ts_emt_zero ts && (s32 nsamp - s32 npre <? 4)) &&
  negb (ts_emt_nmono ts >? s32 nsamp - s32 npre).

(* what an ACCEPTED ConfigureTrigger installs (fix commit: LastTrigger forgets to the far past, not to frame 0) *)
Definition cfg_trig_do (d : dsp) (ts : tstate) : dsp :=
  mkdsp (d_nsamp d) (d_npre d) far_past (d_stream d) ts (s32 (d_nsamp d)) (s32 (d_npre d)).
(* before the fix: a phantom trigger at frame 0 *)
Definition cfg_trig_old (d : dsp) (ts : tstate) : dsp :=
  mkdsp (d_nsamp d) (d_npre d) 0 (d_stream d) ts (s32 (d_nsamp d)) (s32 (d_npre d)).

(* DataStreamProcessor.ConfigureTrigger: a request that switches edge-multi on with an EMTState the record lengths
   cannot support is REFUSED before anything is touched — (unchanged state, error).  Otherwise the state is
   installed and LastTrigger forgotten. *)
Definition cfg_trig (d : dsp) (ts : tstate) : dsp * bool :=
  if ts_emulti ts && negb (emt_valid ts (d_npre d) (d_nsamp d)) then (d, true)
  else (cfg_trig_do d ts, false).

(* AnySource.ConfigurePulseLengths: the validity rule, then DataStreamProcessor.ConfigurePulseLengths.
   Returns (new state, error?) — an invalid request changes nothing. *)
Definition lengths_ok (npre nsamp : Z) : bool := (3 <=? npre) && (1 <=? nsamp) && (npre + 1 <=? nsamp).
Definition cfg_len (d : dsp) (nsamp npre : Z) : dsp * bool :=
  if lengths_ok npre nsamp
  then (mkdsp nsamp npre (d_last d) (d_stream d) (d_ts d) (s32 nsamp) (s32 npre), false)
  else (d, true).

(* ---------------- the scans ---------------- *)

(* signed channels: raw[i] += 32768 in uint16 arithmetic *)
Definition shift (signed : bool) (v : Z) : Z := if signed then u16 (v + 32768) else v.

(* firstPotentialTriggerFrame *)
Definition first_potential (d : dsp) : Z :=
  let nxt := d_last d - st_first (d_stream d) + d_nsamp d in
  if nxt <? d_npre d then d_npre d else nxt.

(* firstPotentialAutoTriggerFrame *)
Definition first_potential_auto (d : dsp) : Z :=
  let mindelay := if ts_autodelay (d_ts d) >? d_nsamp d then ts_autodelay (d_ts d) else d_nsamp d in
  let nxt := d_last d - st_first (d_stream d) + mindelay in
  if nxt <? d_npre d then d_npre d else nxt.

(* the edge test on  raw[i], raw[i-1], raw[i-2], raw[i-3]  (int32 arithmetic cannot overflow on uint16 inputs) *)
Definition edge_test (ts : tstate) (a b c d : Z) : bool :=
  let diff := a + b - c - d in
  (ts_edgerising ts && (diff >=? ts_edgelevel ts)) || (ts_edgefalling ts && (diff <=? s32 (- ts_edgelevel ts))).

(* edgeTriggerComputeAppend: for i := first; i < e; i++ { if test { trigger; i += NSamples } } *)
Fixpoint edge_loop (fuel : nat) (ts : tstate) (sg : bool) (raw : list Z) (nsamp : Z) (i e : Z) : res (list Z) :=
  match fuel with
  | O => Panic
  | S f =>
      if i <? e then
        if (i - 3 <? 0) || (i >=? zlen raw) then Panic
        else if edge_test ts (shift sg (znth 0 raw i)) (shift sg (znth 0 raw (i - 1)))
                             (shift sg (znth 0 raw (i - 2))) (shift sg (znth 0 raw (i - 3)))
        then match edge_loop f ts sg raw nsamp (i + nsamp + 1) e with
             | Ok l => Ok (i :: l)
             | Panic => Panic
             end
        else edge_loop f ts sg raw nsamp (i + 1) e
      else Ok []
  end.

Definition level_test (ts : tstate) (thr a b : Z) : bool :=
  (ts_levelrising ts && (a >=? thr) && (b <? thr)) || (negb (ts_levelrising ts) && (a <=? thr) && (b >? thr)).

(* levelTriggerComputeAppend.  [found] = the positions of the records found so far (the edge triggers) from
   records[idxNextTrig] on; [] stands for nextFoundTrig = MaxInt64. *)
Fixpoint level_loop (fuel : nat) (ts : tstate) (sg : bool) (raw : list Z) (nsamp thr : Z) (i e : Z)
         (found : list Z) : res (list Z) :=
  match fuel with
  | O => Panic
  | S f =>
      if i <? e then
        let check (_ : unit) :=
          if (i - 1 <? 0) || (i >=? zlen raw) then Panic
          else if level_test ts thr (shift sg (znth 0 raw i)) (shift sg (znth 0 raw (i - 1)))
          then match level_loop f ts sg raw nsamp thr (i + 1) e found with
               | Ok l => Ok (i :: l)
               | Panic => Panic
               end
          else level_loop f ts sg raw nsamp thr (i + 1) e found in
        match found with
        | nf :: rest =>
            if i + nsamp >? nf
            then level_loop f ts sg raw nsamp thr (nf + nsamp) e rest     (* i = nf + NSamples - 1; continue *)
            else check tt
        | [] => check tt
        end
      else Ok []
  end.

(* the (max-min) veto of the auto pass over rawData[begin, begin+nsamp) — unsigned comparison, whatever the
   channel's signedness, exactly as the code does *)
Definition veto_step (mm : Z * Z) (d : Z) : Z * Z :=
  let (mx, mn) := mm in if d >? mx then (d, mn) else if d <? mn then (mx, d) else (mx, mn).
Definition vetoed (raw : list Z) (veto begin nsamp : Z) : res bool :=
  if veto >? 0 then
    if (begin <? 0) || (begin >=? zlen raw) || (begin + nsamp >? zlen raw) then Panic
    else let first := znth 0 raw begin in
         let (mx, mn) := fold_left veto_step (zslice raw (begin + 1) (nsamp - 1)) (first, first) in
         Ok (u16 (mx - mn) >=? veto)
  else Ok false.

(* autoTriggerComputeAppend.  [c] = nextPotentialTrig, [dly] = max(autoDelaySamples, NSamples). *)
Fixpoint auto_loop (fuel : nat) (raw : list Z) (veto npre nsamp dly : Z) (c : Z) (found : list Z) : res (list Z) :=
  match fuel with
  | O => Panic
  | S f =>
      if c + nsamp - npre <? zlen raw then
        let emit (_ : unit) :=
          match vetoed raw veto (c - npre) nsamp with
          | Panic => Panic
          | Ok v => match auto_loop f raw veto npre nsamp dly (c + dly) found with
                    | Ok l => Ok (if v then l else c :: l)
                    | Panic => Panic
                    end
          end in
        match found with
        | nf :: rest =>
            if c + nsamp <=? nf then emit tt
            else auto_loop f raw veto npre nsamp dly (nf + dly) rest
        | [] => emit tt
        end
      else Ok []
  end.

(* sort.Sort(RecordSlice(records)) — by trigger frame; positions in one block are pairwise distinct, so any
   correct sort gives the same order *)
Fixpoint insert (x : Z) (l : list Z) : list Z :=
  match l with
  | [] => [x]
  | y :: l' => if x <=? y then x :: l else y :: insert x l'
  end.
Fixpoint sort (l : list Z) : list Z :=
  match l with [] => [] | x :: l' => insert x (sort l') end.

Fixpoint last_opt (l : list Z) : option Z :=
  match l with [] => None | [x] => Some x | _ :: l' => last_opt l' end.

(* triggerAt for each position *)
Fixpoint cut (st : stream) (npre nsamp : Z) (idx : list Z) : res (list record) :=
  match idx with
  | [] => Ok []
  | i :: rest =>
      match trigger_at st i npre nsamp, cut st npre nsamp rest with
      | Ok r, Ok rs => Ok (r :: rs)
      | _, _ => Panic
      end
  end.

Definition not_modelled {A} : res A := Panic.

(* the positions TriggerData selects: edge pass, level pass (+sort), auto pass (+sort) *)
Definition trigger_positions (d : dsp) : res (list Z) :=
  let ts := d_ts d in let st := d_stream d in
  let raw := st_data st in let sg := st_signed st in
  let nsamp := d_nsamp d in let npre := d_npre d in
  let ndata := zlen raw in
  let e := ndata + npre - nsamp in
  let fuel := S (Z.to_nat ndata) in
  match (if ts_edge ts then edge_loop fuel ts sg raw nsamp (first_potential d) e else Ok []) with
  | Panic => Panic
  | Ok E =>
      let thr := if sg then u16 (ts_levellevel ts + 32768) else ts_levellevel ts in
      match (if ts_level ts
             then level_loop (fuel + length E) ts sg raw nsamp thr (first_potential d) e E else Ok []) with
      | Panic => Panic
      | Ok L =>
          let EL := if ts_level ts then sort (E ++ L) else E in
          let dly := if ts_autodelay ts <? nsamp then nsamp else ts_autodelay ts in
          match (if ts_auto ts
                 then auto_loop (fuel + length EL) raw (ts_autoveto ts) npre nsamp dly (first_potential_auto d) EL
                 else Ok []) with
          | Panic => Panic
          | Ok A => Ok (if ts_auto ts then sort (EL ++ A) else EL)
          end
      end
  end.

(* TriggerData: records at the selected positions; LastTrigger := frame of the last one, if any *)
Definition trigger_data (d : dsp) : res (dsp * list record) :=
  if ts_emulti (d_ts d) then not_modelled
  else
    match trigger_positions d with
    | Panic => Panic
    | Ok idx =>
        match cut (d_stream d) (d_npre d) (d_nsamp d) idx with
        | Panic => Panic
        | Ok recs =>
            let l := match last_opt idx with Some i => st_first (d_stream d) + i | None => d_last d end in
            Ok (set_last d l, recs)
        end
    end.

(* one cycle of ProcessSegments for this channel: AppendSegment, TriggerData, (publish), TrimStream *)
Definition process_block (d : dsp) (sg : segment) : res (dsp * list record) :=
  match trigger_data (set_stream d (append (d_stream d) sg)) with
  | Panic => Panic
  | Ok (d1, recs) => Ok (set_stream d1 (trim (ntokeep d1) (d_stream d1)), recs)
  end.

(* ---------------- histories ---------------- *)

Inductive op :=
| Block (sg : segment)
| CfgTrig (ts : tstate)              (* ChangeTriggerState naming this channel *)
| CfgLen (nsamp npre : Z).           (* ConfigurePulseLengths *)

(* what is observed after each operation: the records published for the block (in publication order) plus a
   probe of the retained stream (length, first frame) used only to tie the model to the code; for a control
   operation whether it returned an error; OPanic if the process died *)
Inductive obs :=
| ORecs (recs : list record) (retained : Z) (first : Z)
| OCfg (err : bool)
| OPanic.

Definition step (d : dsp) (o : op) : option dsp * obs :=
  match o with
  | Block sg =>
      match process_block d sg with
      | Panic => (None, OPanic)
      | Ok (d', recs) => (Some d', ORecs recs (zlen (st_data (d_stream d'))) (st_first (d_stream d')))
      end
  | CfgTrig ts => let (d', err) := cfg_trig d ts in (Some d', OCfg err)
  | CfgLen nsamp npre => let (d', err) := cfg_len d nsamp npre in (Some d', OCfg err)
  end.

(* a history stops at the first panic (the process is gone) *)
Fixpoint run (d : dsp) (ops : list op) : list obs :=
  match ops with
  | [] => []
  | o :: rest =>
      match step d o with
      | (Some d', b) => b :: run d' rest
      | (None, b) => [b]
      end
  end.

(* the same with the pre-fix control functions, for the refutation theorems *)
Definition step_old (d : dsp) (o : op) : option dsp * obs :=
  match o with
  | CfgTrig ts => if snd (cfg_trig d ts) then (Some d, OCfg true) else (Some (cfg_trig_old d ts), OCfg false)
  | _ => step d o
  end.
Fixpoint run_old (d : dsp) (ops : list op) : list obs :=
  match ops with
  | [] => []
  | o :: rest =>
      match step_old d o with
      | (Some d', b) => b :: run_old d' rest
      | (None, b) => [b]
      end
  end.
