(* C01 — the property as a checker over OBSERVABLES only: the configuration the channel was started with,
   the operations issued (blocks delivered by the source, control requests) and what came out after each
   (the published records; the error flag of a control request).  Nothing here runs the model: the types
   [op]/[obs]/[tstate]/[record] are only the vocabulary of inputs and outputs.
   The same annotated view of a history ([binfo], one per delivered block) is used by C02. *)
From Dastard Require Import Common.ZX Pipeline.Stream C01.Model.

(* what the checker tracks while reading a history *)
Record sstate := mkss {
  s_npre : Z; s_nsamp : Z; s_ts : tstate;   (* settings in force (as requested through the control operations) *)
  s_G : list Z;                             (* ground truth: every sample delivered so far *)
  s_H : Z;                                  (* history bound: a channel keeps at least one record length of the data it
                                               has seen, so samples from frame s_H on are still available (C02) *)
  s_C : Z;                                  (* first candidate frame of the current epoch (C02) *)
  s_acc : Z;                                (* candidates below this frame were decidable, and judged, before (C02) *)
  s_epoch : list Z;                         (* trigger frames emitted in the current epoch, in emission order *)
  s_all : list Z }.                         (* every trigger frame emitted so far *)

(* one delivered block together with everything needed to judge the records cut while it was processed *)
Record binfo := mkbi {
  bi_npre : Z; bi_nsamp : Z; bi_ts : tstate;
  bi_F0 : Z;                  (* frame number of G[0] *)
  bi_G : list Z;              (* ground truth up to and including this block *)
  bi_seg : segment;           (* the block *)
  bi_C : Z;                   (* first candidate frame of the epoch the block belongs to *)
  bi_lo : Z;                  (* candidates below this frame were judged with earlier blocks *)
  bi_prev : list Z;           (* triggers of the same epoch emitted before this block *)
  bi_all_prev : list Z;       (* all triggers emitted before this block *)
  bi_recs : list record }.    (* records published for this block *)

Definition bi_trigs (b : binfo) : list Z := map r_frame (bi_recs b).
Definition bi_end (b : binfo) : Z := bi_F0 b + zlen (bi_G b).      (* frame after the last delivered sample *)

(* a fresh start: nothing delivered; the first candidate is the first sample with npre samples of history *)
Definition init_sstate (npre nsamp : Z) (ts : tstate) (F0 : Z) : sstate :=
  mkss npre nsamp (no_emulti ts) [] F0 (F0 + npre) (F0 + npre) [] [].

(* a control operation closes the epoch.  The new epoch's candidates continue where the old epoch's decidable ones
   ended (samples delivered but not yet decidable under the old settings must not be lost by reconfiguring), except
   that a candidate needs npre samples of history: with only one (old) record length of history guaranteed, the first
   candidate is not demanded before s_H + npre *)
Definition new_epoch (F0 : Z) (s : sstate) (npre nsamp : Z) (ts : tstate) : sstate :=
  let C := Z.max (s_acc s) (s_H s + npre) in
  mkss npre nsamp ts (s_G s) (s_H s) C C [] (s_all s).

(* an accepted ConfigurePulseLengths that asks for the lengths already in force changes nothing either *)
Definition accepted_len (F0 : Z) (s : sstate) (nsamp npre : Z) : sstate :=
  if (nsamp =? s_nsamp s) && (npre =? s_npre s) then s else new_epoch F0 s npre nsamp (s_ts s).

(* bookkeeping after a block: history bound and decidable end move with the data *)
Definition after_block_ss (F0 : Z) (s : sstate) (sg : segment) (tr : list Z) : sstate :=
  let G' := s_G s ++ seg_data sg in
  let e := F0 + zlen G' in
  mkss (s_npre s) (s_nsamp s) (s_ts s) G' (Z.max (s_H s) (e - s_nsamp s)) (s_C s)
       (Z.max (s_acc s) (e - (s_nsamp s - s_npre s))) (s_epoch s ++ tr) (s_all s ++ tr).
Definition block_info (F0 : Z) (s : sstate) (sg : segment) (recs : list record) : binfo :=
  mkbi (s_npre s) (s_nsamp s) (s_ts s) F0 (s_G s ++ seg_data sg) sg (s_C s) (s_acc s) (s_epoch s) (s_all s) recs.

(* None: the history is not one this property speaks about — the source was not contiguous, an operation and
   its observation do not fit together, or the process died (OPanic) *)
Fixpoint annotate (F0 : Z) (s : sstate) (h : list (op * obs)) : option (list binfo) :=
  match h with
  | [] => Some []
  | (Block sg, ORecs recs _ _) :: rest =>
      if seg_first sg =? F0 + zlen (s_G s) then
        match annotate F0 (after_block_ss F0 s sg (map r_frame recs)) rest with
        | Some bs => Some (block_info F0 s sg recs :: bs)
        | None => None
        end
      else None
  | (CfgTrig ts, OCfg false) :: rest => annotate F0 (new_epoch F0 s (s_npre s) (s_nsamp s) ts) rest
  | (CfgLen nsamp npre, OCfg false) :: rest => annotate F0 (accepted_len F0 s nsamp npre) rest
  (* a REFUSED request is no reconfiguration: nothing may change, the epoch goes on *)
  | (CfgTrig _, OCfg true) :: rest => annotate F0 s rest
  | (CfgLen _ _, OCfg true) :: rest => annotate F0 s rest
  | _ => None
  end.

(* ---- the C01 judgement on one record of one block ---- *)

(* declared lengths = configured lengths; samples = G[j-npre, j-npre+nsamp) where j is the record's frame
   counted from the first delivered sample; time = block time + (frame - block first frame) * period *)
Definition excerpt_ok (b : binfo) (r : record) : Prop :=
  let j := r_frame r - bi_F0 b in
  r_pre r = bi_npre b /\ zlen (r_data r) = bi_nsamp b /\
  0 <= j - bi_npre b /\ j - bi_npre b + bi_nsamp b <= zlen (bi_G b) /\
  r_data r = zslice (bi_G b) (j - bi_npre b) (bi_nsamp b) /\
  r_time r = seg_time (bi_seg b) + (r_frame r - seg_first (bi_seg b)) * seg_period (bi_seg b) /\
  r_signed r = seg_signed (bi_seg b).

Definition excerpt_okb (b : binfo) (r : record) : bool :=
  let j := r_frame r - bi_F0 b in
  (r_pre r =? bi_npre b) && (zlen (r_data r) =? bi_nsamp b) &&
  (0 <=? j - bi_npre b) && (j - bi_npre b + bi_nsamp b <=? zlen (bi_G b)) &&
  zlist_eqb (r_data r) (zslice (bi_G b) (j - bi_npre b) (bi_nsamp b)) &&
  (r_time r =? seg_time (bi_seg b) + (r_frame r - seg_first (bi_seg b)) * seg_period (bi_seg b)) &&
  Bool.eqb (r_signed r) (seg_signed (bi_seg b)).

Definition block_excerpts (b : binfo) : Prop := forall r, In r (bi_recs b) -> excerpt_ok b r.
Definition block_excerptsb (b : binfo) : bool := forallb (excerpt_okb b) (bi_recs b).

(* the whole history: nothing crashed, and every record of every block is the right excerpt *)
Definition C01_holds (npre nsamp : Z) (ts : tstate) (F0 : Z) (h : list (op * obs)) : Prop :=
  exists bs, annotate F0 (init_sstate npre nsamp ts F0) h = Some bs /\ forall b, In b bs -> block_excerpts b.

Definition C01_check (npre nsamp : Z) (ts : tstate) (F0 : Z) (h : list (op * obs)) : bool :=
  match annotate F0 (init_sstate npre nsamp ts F0) h with
  | Some bs => forallb block_excerptsb bs
  | None => false
  end.

(* ---- the same judgement without assuming that the source numbers its frames contiguously ----
   A source may lose frames between blocks (the next block's first frame is then later than the end of the previous
   one).  The channel keeps ONE stream: AppendSegment re-bases the retained samples on the newest block (documented
   behaviour, baseline test TestStreamGap).  The judgement therefore locates a record in the sequence of DELIVERED
   samples: its trigger sample is the one (r_frame - first frame of the block being processed) samples after the
   block's first sample — negative: that many before it, in the retained data — and
     - the samples are the contiguous delivered samples G[j-npre, j-npre+nsamp) around it,
     - the time is block time + (frame - block first frame) * period,
     - lengths are the configured ones.
   For a trigger sample that belongs to the block being processed (r_frame >= its first frame) r_frame IS the
   source's frame number of that sample, gaps or not; for a trigger sample in the retained data it is the source's
   number whenever no frames were lost in between (in particular for every contiguous source: [excerpt_ok] above). *)
Record ginfo := mkgi { gi_npre : Z; gi_nsamp : Z; gi_G : list Z; gi_seg : segment; gi_recs : list record }.

Fixpoint annotateG (npre nsamp : Z) (G : list Z) (h : list (op * obs)) : option (list ginfo) :=
  match h with
  | [] => Some []
  | (Block sg, ORecs recs _ _) :: rest =>
      let G' := G ++ seg_data sg in
      match annotateG npre nsamp G' rest with
      | Some gs => Some (mkgi npre nsamp G' sg recs :: gs)
      | None => None
      end
  | (CfgTrig ts, OCfg false) :: rest => annotateG npre nsamp G rest
  | (CfgLen nsamp' npre', OCfg false) :: rest => annotateG npre' nsamp' G rest
  | (CfgLen _ _, OCfg true) :: rest => annotateG npre nsamp G rest
  | (CfgTrig _, OCfg true) :: rest => annotateG npre nsamp G rest
  | _ => None
  end.

Definition excerpt_okG (g : ginfo) (r : record) : Prop :=
  let j := zlen (gi_G g) - zlen (seg_data (gi_seg g)) + (r_frame r - seg_first (gi_seg g)) in
  r_pre r = gi_npre g /\ zlen (r_data r) = gi_nsamp g /\
  0 <= j - gi_npre g /\ j - gi_npre g + gi_nsamp g <= zlen (gi_G g) /\
  r_data r = zslice (gi_G g) (j - gi_npre g) (gi_nsamp g) /\
  r_time r = seg_time (gi_seg g) + (r_frame r - seg_first (gi_seg g)) * seg_period (gi_seg g) /\
  r_signed r = seg_signed (gi_seg g).

Definition excerpt_okGb (g : ginfo) (r : record) : bool :=
  let j := zlen (gi_G g) - zlen (seg_data (gi_seg g)) + (r_frame r - seg_first (gi_seg g)) in
  (r_pre r =? gi_npre g) && (zlen (r_data r) =? gi_nsamp g) &&
  (0 <=? j - gi_npre g) && (j - gi_npre g + gi_nsamp g <=? zlen (gi_G g)) &&
  zlist_eqb (r_data r) (zslice (gi_G g) (j - gi_npre g) (gi_nsamp g)) &&
  (r_time r =? seg_time (gi_seg g) + (r_frame r - seg_first (gi_seg g)) * seg_period (gi_seg g)) &&
  Bool.eqb (r_signed r) (seg_signed (gi_seg g)).

Definition C01G_holds (npre nsamp : Z) (h : list (op * obs)) : Prop :=
  exists gs, annotateG npre nsamp [] h = Some gs /\ forall g r, In g gs -> In r (gi_recs g) -> excerpt_okG g r.

Definition C01G_check (npre nsamp : Z) (h : list (op * obs)) : bool :=
  match annotateG npre nsamp [] h with
  | Some gs => forallb (fun g => forallb (excerpt_okGb g) (gi_recs g)) gs
  | None => false
  end.

(* ---- premises on the inputs (what a source and the RPC layer guarantee) ---- *)

(* largest record length for which EMTState's int32 copies and 2*nsamp+10 do not wrap *)
Definition max_nsamp : Z := 1073741818.

(* the source numbers its frames contiguously and keeps one sample period *)
Fixpoint contiguous (next : Z) (ops : list op) : Prop :=
  match ops with
  | [] => True
  | Block sg :: rest => seg_first sg = next /\ contiguous (next + zlen (seg_data sg)) rest
  | _ :: rest => contiguous next rest
  end.

Definition op_ok (period : Z) (o : op) : Prop :=
  match o with
  | Block sg => seg_period sg = period
  (* edge-multi triggering is C08: a request that switches it on is covered only when it is one that NO record
     length can support (nmonotone beyond every nsamp - npre), i.e. when it is refused *)
  | CfgTrig ts => ts_emulti ts = true -> max_nsamp < ts_emt_nmono ts
  | CfgLen nsamp _ => nsamp <= max_nsamp         (* no int32 wrap in EMTState *)
  end.

Definition valid_history (npre nsamp F0 period : Z) (ops : list op) : Prop :=
  lengths_ok npre nsamp = true /\ nsamp <= max_nsamp /\
  contiguous F0 ops /\ Forall (op_ok period) ops.
