(* C19 — the property as a boolean checker over OBSERVABLES only: the configuration requests issued and,
   for each, what the source reported (accept/reject, identity tables, the status-message accessors,
   file names and header identity after a START).  Nothing here calls the model's prepare functions;
   only the pure text/bit helpers of Model.v (dec, err_name, chan_name, the four RowColCode accessors)
   and the record types are used. *)
From Coq Require Import String Ascii.
From Dastard Require Import Common.ZX C19.Model.
Open Scope Z_scope.

(* ---------------------------------------------------------------- small boolean helpers *)

Definition str_eqb := String.eqb.
Definition strs_eqb := list_eqb String.eqb.
Definition pairs_eqb := list_eqb (fun a b : Z * Z => (fst a =? fst b) && (snd a =? snd b)).

Fixpoint znodupb (l : list Z) : bool :=
  match l with [] => true | x :: r => negb (zmem x r) && znodupb r end.

Fixpoint snodupb (l : list string) : bool :=
  match l with [] => true | x :: r => negb (existsb (String.eqb x) r) && snodupb r end.

Definition in_group (x : Z) (g : Z * Z) : bool := (fst g <=? x) && (x <? fst g + snd g).

(* how many of the groups contain channel number x *)
Definition group_count (x : Z) (gs : list (Z * Z)) : Z :=
  fold_right (fun g a => if in_group x g then a + 1 else a) 0 gs.

(* "the reported channel groups cover exactly the channel numbers in use", and they are disjoint:
   every number in use lies in exactly one group, every member of every group is in use, and no number
   at all lies in two groups *)
Fixpoint groups_disjointb (gs : list (Z * Z)) : bool :=
  match gs with
  | [] => true
  | g :: r => forallb (fun h => (snd g <=? 0) || (snd h <=? 0)
                               || (fst g + snd g <=? fst h) || (fst h + snd h <=? fst g)) r
              && groups_disjointb r
  end.

Definition groups_coverb (nums : list Z) (gs : list (Z * Z)) : bool :=
  forallb (fun x => group_count x gs =? 1) nums
  && forallb (fun g => forallb (fun x => zmem x nums) (zrange (fst g) (snd g))) gs
  && groups_disjointb gs.

(* the geometry a stream must report *)
Record geo := mkG { g_row : Z; g_col : Z; g_rows : Z; g_cols : Z }.

Definition rc_matches (code : Z) (g : geo) : bool :=
  (rc_row code =? g_row g) && (rc_col code =? g_col g) && (rc_rows code =? g_rows g) && (rc_cols code =? g_cols g).

(* ---------------------------------------------------------------- Lancero *)

(* the streams of a card-set in readout-independent channel order: (card, column, row) *)
Definition card_geos (d : card) : list geo :=
  flat_map (fun col => map (fun row => mkG row col (c_nrows d) (c_ncols d)) (zrange 0 (c_nrows d)))
           (zrange 0 (c_ncols d)).
Definition lancero_geos (cards : list card) : list geo := flat_map card_geos cards.

(* error/feedback pairs: consumes the parallel tables two entries at a time *)
Fixpoint lancero_pairsb (gs : list geo) (names : list string) (nums rcs subs : list Z) : bool :=
  match gs, names, nums, rcs, subs with
  | [], [], [], [], [] => true
  | g :: gs', n1 :: n2 :: names', x1 :: x2 :: nums', r1 :: r2 :: rcs', s1 :: s2 :: subs' =>
      (x1 =? x2) && String.eqb n1 (err_name x1) && String.eqb n2 (chan_name x1)
      && rc_matches r1 g && rc_matches r2 g
      && lancero_pairsb gs' names' nums' rcs' subs'
  | _, _, _, _, _ => false
  end.

Fixpoint evens {A} (l : list A) : list A :=
  match l with x :: _ :: r => x :: evens r | _ => [] end.

(* chan2readoutOrder: stream (col,row,e) of a card whose streams start at [prev] is read out at
   prev + (row*ncols + col)*2 + e *)
Definition card_order (d : card) (prev : Z) : list Z :=
  flat_map (fun col => flat_map (fun row =>
              let r := prev + (row * c_ncols d + col) * 2 in [r; r + 1]) (zrange 0 (c_nrows d)))
           (zrange 0 (c_ncols d)).
Fixpoint lancero_order (cards : list card) (prev : Z) : list Z :=
  match cards with
  | [] => []
  | d :: r => card_order d prev ++ lancero_order r (prev + c_ncols d * c_nrows d * 2)
  end.

Definition first_rows (cards : list card) : Z := match cards with [] => 0 | d :: _ => c_nrows d end.
Definition rows_mixed (cards : list card) : bool :=
  existsb (fun d => negb (c_nrows d =? first_rows cards)) cards.

Definition devs_nodupb (cards : list card) : bool := znodupb (map c_dev cards).

Definition check_lancero (cards : list card) (t : tables) (mixed : bool) (order : list Z) : bool :=
  devs_nodupb cards
  && lancero_pairsb (lancero_geos cards) (t_names t) (t_nums t) (t_rc t) (t_sub t)
  && znodupb (evens (t_nums t))
  && groups_coverb (t_nums t) (t_groups t)
  && (t_cpp t =? 2)
  && (if forallb (fun d => 1 <=? c_nrows d) cards    (* every card really has rows *)
      then (match cards with [] => true | _ => t_subdiv t =? first_rows cards end)
           && Bool.eqb mixed (rows_mixed cards)
      else true)
  && zlist_eqb order (lancero_order cards 0).

(* ---------------------------------------------------------------- single-stream-per-channel sources *)

Fixpoint singlesb (gs : list geo) (names : list string) (nums rcs subs : list Z) : bool :=
  match gs, names, nums, rcs, subs with
  | [], [], [], [], [] => true
  | g :: gs', n :: names', x :: nums', r :: rcs', s :: subs' =>
      String.eqb n (chan_name x) && rc_matches r g && singlesb gs' names' nums' rcs' subs'
  | _, _, _, _, _ => false
  end.

(* same, for a source that reports no row/column codes at all *)
Fixpoint singles_norcb (names : list string) (nums subs : list Z) : bool :=
  match names, nums, subs with
  | [], [], [] => true
  | n :: names', x :: nums', s :: subs' => String.eqb n (chan_name x) && singles_norcb names' nums' subs'
  | _, _, _ => false
  end.

(* Abaco: the groups announced by the packets, as a set *)
Definition gmem (g : Z * Z) (l : list (Z * Z)) : bool := existsb (gidx_eqb g) l.
Definition announced (pk : list (Z * Z)) : list (Z * Z) := map (fun p => (snd p, fst p)) pk.

Fixpoint firsts_increasingb (gs : list (Z * Z)) : bool :=
  match gs with
  | g :: ((h :: _) as r) => (fst g <? fst h) && firsts_increasingb r
  | _ => true
  end.

Fixpoint abaco_geos (gs : list (Z * Z)) (col ncol : Z) : list geo :=
  match gs with
  | [] => []
  | g :: r => map (fun row => mkG row col (snd g) ncol) (zrange 0 (snd g)) ++ abaco_geos r (col + 1) ncol
  end.
Fixpoint abaco_nums (gs : list (Z * Z)) : list Z :=
  match gs with [] => [] | g :: r => zrange (fst g) (snd g) ++ abaco_nums r end.

Definition check_abaco (pk : list (Z * Z)) (t : tables) : bool :=
  let gs := t_groups t in
  forallb (fun g => gmem g (announced pk)) gs && forallb (fun g => gmem g gs) (announced pk)
  && firsts_increasingb gs
  && singlesb (abaco_geos gs 0 (zlen gs)) (t_names t) (t_nums t) (t_rc t) (t_sub t)
  && zlist_eqb (t_nums t) (abaco_nums gs)
  && znodupb (t_nums t)
  && groups_coverb (t_nums t) gs
  && (t_cpp t =? 1).

Definition check_roach (n : Z) (t : tables) : bool :=
  singlesb (map (fun i => mkG i 0 n 1) (zrange 0 n)) (t_names t) (t_nums t) (t_rc t) (t_sub t)
  && znodupb (t_nums t) && groups_coverb (t_nums t) (t_groups t) && (t_cpp t =? 1).

Definition check_sim (n : Z) (t : tables) : bool :=
  singlesb (map (fun i => mkG 0 i 1 n) (zrange 0 n)) (t_names t) (t_nums t) (t_rc t) (t_sub t)
  && (zlen (t_nums t) =? n)
  && znodupb (t_nums t) && groups_coverb (t_nums t) (t_groups t) && (t_cpp t =? 1).

Definition check_erroring (n : Z) (t : tables) : bool :=
  singles_norcb (t_names t) (t_nums t) (t_sub t)
  && (zlen (t_nums t) =? n)
  && znodupb (t_nums t) && groups_coverb (t_nums t) (t_groups t) && (t_cpp t =? 1).

(* ---------------------------------------------------------------- file names and header identity *)

Definition ident_eqb (a b : ident) : bool :=
  (i_index a =? i_index b) && String.eqb (i_chname a) (i_chname b) && (i_chnum a =? i_chnum b)
  && (i_nrows a =? i_nrows b) && (i_ncols a =? i_ncols b) && (i_row a =? i_row b) && (i_col a =? i_col b)
  && (i_nchan a =? i_nchan b) && (i_subdiv a =? i_subdiv b) && (i_suboff a =? i_suboff b)
  && String.eqb (i_source a) (i_source b).

(* the identity the status messages give to stream i (tables as reported + source name) *)
Definition status_ident (t : tables) (source : string) (i : Z) : ident :=
  let code := znth 0 (t_rc t) i in
  mkId i (znth_s (t_names t) i) (znth 0 (t_nums t) i) (rc_rows code) (rc_cols code) (rc_row code) (rc_col code)
       (zlen (t_names t)) (t_subdiv t) (znth 0 (t_sub t) i) source.

Fixpoint files_identb (t : tables) (source : string) (offs : list Z) (i : Z) (cf : list chanfile) : bool :=
  match cf with
  | [] => true
  | f :: r =>
      let id := status_ident t source i in
      String.eqb (f_dspname f) (i_chname id) && (f_dspnum f =? i_chnum id)
      && ident_eqb (f_hd f) id
      && (match f_offhd f with
          | Some h => has_off offs i && ident_eqb h id    (* an OFF file exactly for the channels with projectors *)
          | None => negb (has_off offs i)
          end)
      && files_identb t source offs (i + 1) r
  end.

Definition nonempty (s : string) : bool := negb (String.eqb s EmptyString).

Definition off_names (cf : list chanfile) : list string :=
  flat_map (fun f => match f_offhd f with Some _ => [f_off f] | None => [] end) cf.

Definition check_files (t : tables) (source : string) (offs : list Z) (cf : list chanfile) (nfiles : Z) : bool :=
  let names := map f_ljh cf ++ map f_ljh3 cf ++ off_names cf in
  (zlen cf =? zlen (t_names t))
  && files_identb t source offs 0 cf
  && forallb nonempty names
  && snodupb names                         (* no two streams (or formats) share an output file *)
  && (nfiles =? zlen names + 1).           (* every one of them exists, next to the experiment-state file *)

(* ---------------------------------------------------------------- histories *)

Record cst := mkC {
  k_cards : list card;                     (* geometry in force for the Lancero object *)
  k_last : option (tables * string)        (* tables last reported as accepted, with the source's name *)
}.
Definition cst0 : cst := mkC [] None.

Definition mk_cards (req : list Z) (geom : list (Z * Z)) : list card :=
  map (fun dg => mkCard (fst dg) (fst (snd dg)) (snd (snd dg))) (combine req geom).

Definition msgs_ok (t : tables) (names_msg : list string) (groups_msg : list (Z * Z)) : bool :=
  strs_eqb names_msg (t_names t) && pairs_eqb groups_msg (t_groups t).

Definition check_step (k : cst) (o : op) (b : obs) : option cst :=
  match o, b with
  | _, OPanic => None
  | LRun avail req nsamp first sepCards sepCols geom, ORejCfg => Some (mkC (k_cards k) None)
  | LRun avail req nsamp first sepCards sepCols geom, ORej _ _ _ => Some (mkC (mk_cards req geom) None)
  | LRun avail req nsamp first sepCards sepCols geom, OAcc t mixed order nm gm =>
      let cards := mk_cards req geom in
      if (zlen cards =? zlen req) && forallb (fun c => zmem c avail) req
         && check_lancero cards t mixed order && msgs_ok t nm gm
      then Some (mkC cards (Some (t, "Lancero"%string))) else None
  | LAgain geom, ORejCfg => Some (mkC (k_cards k) None)
  | LAgain geom, ORej _ _ _ => Some (mkC (regeom (k_cards k) geom) None)
  | LAgain geom, OAcc t mixed order nm gm =>
      (* the tables must describe what the cards deliver at THIS start *)
      let cards := regeom (k_cards k) geom in
      if check_lancero cards t mixed order && msgs_ok t nm gm
      then Some (mkC cards (Some (t, "Lancero"%string))) else None
  | LMid _ _ _ _ _ _, ORejCfg => Some (mkC (k_cards k) None)
  | LMid _ _ _ _ _ _, ORej _ _ _ => Some (mkC (k_cards k) None)
  | LMid _ _ _ _ _ _, OAcc t mixed order nm gm =>
      (* a Configure arriving during the start must not change what this start sets up *)
      if check_lancero (k_cards k) t mixed order && msgs_ok t nm gm
      then Some (mkC (k_cards k) (Some (t, "Lancero"%string))) else None
  | APrep pk, ORej _ _ _ => Some (mkC (k_cards k) None)
  | APrep pk, OAcc t _ _ nm gm =>
      if check_abaco pk t && msgs_ok t nm gm then Some (mkC (k_cards k) (Some (t, "Abaco"%string))) else None
  | RPrep devs, OAcc t _ _ nm gm =>
      if check_roach (fold_left Z.add devs 0) t && msgs_ok t nm gm
      then Some (mkC (k_cards k) (Some (t, "Roach"%string))) else None
  | TPrep n, ORej _ _ _ => Some (mkC (k_cards k) None)
  | TPrep n, OAcc t _ _ nm gm =>
      if check_sim n t && msgs_ok t nm gm then Some (mkC (k_cards k) (Some (t, "Triangle"%string))) else None
  | SPrep n, ORej _ _ _ => Some (mkC (k_cards k) None)
  | SPrep n, OAcc t _ _ nm gm =>
      if check_sim n t && msgs_ok t nm gm then Some (mkC (k_cards k) (Some (t, "SimPulse"%string))) else None
  | EPrep n, OAcc t _ _ nm gm =>
      if check_erroring n t && msgs_ok t nm gm then Some (mkC (k_cards k) (Some (t, ""%string))) else None
  | RcCode row col rows cols, ORc code r c nr nc =>
      (* "the row/column codes decode to the true geometry" (packed 16-bit fields) *)
      if (0 <=? row) && (row <? 65536) && (0 <=? col) && (col <? 65536)
         && (0 <=? rows) && (rows <? 65536) && (0 <=? cols) && (cols <? 65536)
      then (if (r =? row) && (c =? col) && (nr =? rows) && (nc =? cols) then Some k else None)
      else Some k
  | Files base today i offs mapn, ONoFiles => Some k
  | Files base today i offs mapn, OStartErr => Some k      (* a refused START sets up nothing *)
  | Files base today i offs mapn, OFiles pattern cf nfiles =>
      match k_last k with
      | Some (t, src) => if check_files t src offs cf nfiles then Some k else None
      | None => None
      end
  | _, _ => None
  end.

Fixpoint check_from (k : cst) (h : list (op * obs)) : bool :=
  match h with
  | [] => true
  | (o, b) :: rest => match check_step k o b with Some k' => check_from k' rest | None => false end
  end.

Definition C19_check (h : list (op * obs)) : bool := check_from cst0 h.

(* ================================================================ Prop-level vocabulary of the theorems *)

(* an error/feedback pair occupies two consecutive positions *)
Definition dup {A} (l : list A) : list A := flat_map (fun x => [x; x]) l.

(* channel number x belongs to group g = (Firstchan, Nchan) *)
Definition in_grp (x : Z) (g : Z * Z) : Prop := fst g <= x < fst g + snd g.

(* two groups have no channel number in common *)
Definition gdisj (g h : Z * Z) : Prop :=
  snd g <= 0 \/ snd h <= 0 \/ fst g + snd g <= fst h \/ fst h + snd h <= fst g.

(* groups at different positions of the list are disjoint *)
Fixpoint pdisj (gs : list (Z * Z)) : Prop :=
  match gs with [] => True | g :: r => Forall (gdisj g) r /\ pdisj r end.

Definition geo0 : geo := mkG 0 0 0 0.

Definition dims_nonneg (cards : list card) : Prop :=
  Forall (fun d => 0 <= c_ncols d /\ 0 <= c_nrows d) cards.
Definition dims_in_field (cards : list card) : Prop :=
  Forall (fun d => 0 <= c_ncols d < 65536 /\ 0 <= c_nrows d < 65536) cards.

(* a string without per-cent signs (premise on the base path of a START) *)
Fixpoint no_percent (s : string) : Prop :=
  match s with EmptyString => True | String c r => c <> "%"%char /\ no_percent r end.

(* the three extensions writeControlStart uses *)
Definition exts : list string := ["ljh"%string; "ljh3"%string; "off"%string].

(* inputs for which the model is a mirror and the 16-bit code fields suffice (what the harness generates) *)
Definition wf_op (o : op) : Prop :=
  match o with
  | LRun avail req nsamp first sepCards sepCols geom =>
      zlen req <= zlen geom /\ Forall (fun g => 0 <= fst g < 65536 /\ 0 <= snd g < 65536) geom
  | LAgain geom => Forall (fun g => 0 <= fst g < 65536 /\ 0 <= snd g < 65536) geom
  | LMid _ _ _ _ _ _ => True
  | APrep pk => Forall (fun p => 1 <= fst p < 65536) pk /\ zlen pk < 65536
  | RPrep devs => 0 <= fold_left Z.add devs 0 < 65536
  | TPrep n => n < 65536
  | SPrep n => n < 65536
  | EPrep n => 0 <= n
  | RcCode _ _ _ _ => True
  | Files base today i offs mapn => no_percent base /\ no_percent today
  end.

