(* C19 — evaluation of generated cases: model vs observed implementation output, and the checker. *)
From Coq Require Import String Ascii.
From Dastard Require Import Common.ZX Common.CaseLib C19.Model C19.Spec.
Open Scope Z_scope.

Record case := { c_hist : list (op * obs) }.

Definition tables_eqb (a b : tables) : bool :=
  strs_eqb (t_names a) (t_names b) && zlist_eqb (t_nums a) (t_nums b) && zlist_eqb (t_rc a) (t_rc b)
  && zlist_eqb (t_sub a) (t_sub b) && pairs_eqb (t_groups a) (t_groups b)
  && (t_subdiv a =? t_subdiv b) && (t_cpp a =? t_cpp b).

Definition oident_eqb (a b : option ident) : bool :=
  match a, b with Some x, Some y => ident_eqb x y | None, None => true | _, _ => false end.

Definition chanfile_eqb (a b : chanfile) : bool :=
  String.eqb (f_dspname a) (f_dspname b) && (f_dspnum a =? f_dspnum b)
  && String.eqb (f_ljh a) (f_ljh b) && String.eqb (f_ljh3 a) (f_ljh3 b) && String.eqb (f_off a) (f_off b)
  && ident_eqb (f_hd a) (f_hd b) && oident_eqb (f_offhd a) (f_offhd b).

Definition obs_eqb (a b : obs) : bool :=
  match a, b with
  | ORejCfg, ORejCfg => true
  | ORej d m s, ORej d' m' s' => (d =? d') && Bool.eqb m m' && (s =? s')
  | OAcc t m o nm gm, OAcc t' m' o' nm' gm' =>
      tables_eqb t t' && Bool.eqb m m' && zlist_eqb o o' && strs_eqb nm nm' && pairs_eqb gm gm'
  | ORc c r k nr nc, ORc c' r' k' nr' nc' => (c =? c') && (r =? r') && (k =? k') && (nr =? nr') && (nc =? nc')
  | OFiles p cf n, OFiles p' cf' n' => String.eqb p p' && list_eqb chanfile_eqb cf cf' && (n =? n')
  | ONoFiles, ONoFiles => true
  | OStartErr, OStartErr => true
  | OPanic, OPanic => true
  | _, _ => false
  end.

Fixpoint first_diff (i : Z) (a b : list obs) : Z :=
  match a, b with
  | [], [] => -1
  | x :: a', y :: b' => if obs_eqb x y then first_diff (i + 1) a' b' else i
  | _, _ => i
  end.

(* (code, index of the first operation whose observation differs from the model's) *)
Definition verdict (c : case) : Z * Z :=
  let ops := map fst (c_hist c) in
  let impl := map snd (c_hist c) in
  let model := run state0 ops in
  let d := first_diff 0 impl model in
  (verdict_code (d =? -1) (C19_check (c_hist c)), d).

(* ---- compact constructors for generated files ---- *)
Definition mk (h : list (op * obs)) : case := {| c_hist := h |}.
Definition T (names : list string) (nums rc sub : list Z) (groups : list (Z * Z)) (subdiv cpp : Z) : tables :=
  mkT names nums rc sub groups subdiv cpp.
Definition Id (idx : Z) (name : string) (num nrows ncols row col nchan subdiv suboff : Z) (src : string) : ident :=
  mkId idx name num nrows ncols row col nchan subdiv suboff src.
Definition NoId : ident := mkId (-1) EmptyString (-1) (-1) (-1) (-1) (-1) (-1) (-1) (-1) EmptyString.
Definition CF (dn : string) (dnum : Z) (ljh ljh3 off : string) (hd : ident) (offhd : option ident) : chanfile :=
  mkCF dn dnum ljh ljh3 off hd offhd.
Definition St (s : string) : string := s.
