(* C19 — mirror model of dastard's channel-identity code (definitions only, no proofs).

   lancero_source.go  Configure (validation of the active-card list), Sample (only: nchan),
                      PrepareChannels (two validation loops, running cnum / thisColFirstCnum bookkeeping,
                      names err<n>/chan<n>, row/column codes, sub-frame offsets, groups, sub-frame divisions,
                      mixed-row-count flag), updateChanOrderMap
   abaco.go           Sample (grouping of packets into a map keyed by GroupIndex, overlap check, sorted keys),
                      PrepareChannels
   roach.go           PrepareChannels
   simulated_data_sources.go   TriangleSource / SimPulseSource  Configure + Sample
   data_source.go     AnySource.PrepareChannels (default), rcCode and the four accessors, makeDirectory,
                      the file names and identity arguments of writeControlStart, PrepareRun (dsp.Name/ChannelNumber)

   Integers are unbounded Z (premise: no int64 overflow, i.e. |devnum*sepCards + firstRow| etc. < 2^63).
   Counts of columns and rows are mirrored for values >= 0 (Sample cannot produce negative ones). *)
From Coq Require Import String Ascii DecimalString Decimal DecimalZ.
From Dastard Require Import Common.ZX.
Open Scope Z_scope.

(* ---------------------------------------------------------------- text *)

(* fmt.Sprintf("%d", z) *)
Definition dec (z : Z) : string := NilZero.string_of_int (Z.to_int z).

Definition err_name (n : Z) : string := String.append "err" (dec n).      (* Sprintf("err%d", n) *)
Definition chan_name (n : Z) : string := String.append "chan" (dec n).    (* Sprintf("chan%d", n) *)

(* Sprintf("%4.4d", i) for 0 <= i < 10000 (the only values makeDirectory uses) *)
Definition pad4 (i : Z) : string :=
  if i <? 10 then String.append "000" (dec i)
  else if i <? 100 then String.append "00" (dec i)
  else if i <? 1000 then String.append "0" (dec i)
  else dec i.

(* ---------------------------------------------------------------- rcCode and RowColCode accessors *)

Definition rc_code (row col rows cols : Z) : Z :=
  let code := Z.land cols 65535 in
  let code := Z.lor (Z.shiftl code 16) (Z.land rows 65535) in
  let code := Z.lor (Z.shiftl code 16) (Z.land col 65535) in
  let code := Z.lor (Z.shiftl code 16) (Z.land row 65535) in
  code.      (* < 2^64, so RowColCode(code) = uint64(code) has the same value *)

Definition rc_row  (c : Z) : Z := Z.land (Z.shiftr c 0) 65535.
Definition rc_col  (c : Z) : Z := Z.land (Z.shiftr c 16) 65535.
Definition rc_rows (c : Z) : Z := Z.land (Z.shiftr c 32) 65535.
Definition rc_cols (c : Z) : Z := Z.land (Z.shiftr c 48) 65535.

(* ---------------------------------------------------------------- identity tables of an AnySource *)

Record tables := mkT {
  t_names  : list string;     (* chanNames *)
  t_nums   : list Z;          (* chanNumbers *)
  t_rc     : list Z;          (* rowColCodes *)
  t_sub    : list Z;          (* subframeOffsets *)
  t_groups : list (Z * Z);    (* groupKeysSorted: (Firstchan, Nchan), in the order held *)
  t_subdiv : Z;               (* subframeDivisions *)
  t_cpp    : Z                (* channelsPerPixel *)
}.

Record entry := mkE { e_name : string; e_num : Z; e_rc : Z; e_sub : Z }.

Definition tables_of (es : list entry) (groups : list (Z * Z)) (subdiv cpp : Z) : tables :=
  mkT (map e_name es) (map e_num es) (map e_rc es) (map e_sub es) groups subdiv cpp.

Definition zmem (x : Z) (l : list Z) : bool := existsb (Z.eqb x) l.

(* ---------------------------------------------------------------- Lancero *)

Record card := mkCard { c_dev : Z; c_ncols : Z; c_nrows : Z }.

(* the fields of the LanceroSource object that matter here; the object lives as long as the program *)
Record lsrc := mkL {
  l_active   : list card;   (* ls.active with each device's devnum, ncols, nrows *)
  l_first    : Z;           (* firstRowChanNum *)
  l_sepCards : Z;           (* chanSepCards *)
  l_sepCols  : Z;           (* chanSepColumns *)
  l_subdiv   : Z;           (* subframeDivisions *)
  l_mixed    : bool;        (* mixedRowCounts *)
  l_cfgerr   : bool         (* configError <> nil *)
}.

Definition lsrc0 : lsrc := mkL [] 0 0 0 0 false false.

(* the activation loop of Configure: every requested card must exist and must not be listed twice *)
Fixpoint activate (avail : list Z) (req : list Z) (active : list Z) : list Z * bool :=
  match req with
  | [] => (active, true)
  | c :: rest =>
      if negb (zmem c avail) then (active, false)
      else if zmem c active then (active, false)
      else activate avail rest (active ++ [c])
  end.

(* Configure followed by what SourceControl.ConfigureLanceroSource does with the error, followed by the
   geometry that Sample learns from the cards ([geom] = (ncols, nrows) of the i-th active card).
   Result: new object, and whether Configure succeeded. *)
Definition lancero_configure (s : lsrc) (avail req : list Z) (nsamp first sepCards sepCols : Z)
           (geom : list (Z * Z)) : lsrc * bool :=
  if (nsamp >? 16) || (nsamp <? 1)
  then (mkL (l_active s) (l_first s) (l_sepCards s) (l_sepCols s) (l_subdiv s) (l_mixed s) true, false)
  else
    let (act, ok) := activate avail req [] in
    let cards := map (fun dg => mkCard (fst dg) (fst (snd dg)) (snd (snd dg))) (combine act geom) in
    (mkL cards first sepCards sepCols (l_subdiv s) (l_mixed s) (negb ok), ok).

(* Sample: ls.nchan *)
Definition lancero_nchan (cards : list card) : Z :=
  fold_left (fun acc c => acc + c_ncols c * c_nrows c * 2) cards 0.

(* the innermost loop of PrepareChannels: rows of one column, starting at channel number cnum *)
Fixpoint rows_loop (rows : list Z) (col nrows ncols cnum : Z) : list entry * Z :=
  match rows with
  | [] => ([], cnum)
  | row :: rest =>
      let code := rc_code row col nrows ncols in
      let e1 := mkE (err_name cnum) cnum code row in
      let e2 := mkE (chan_name cnum) cnum code 0 in      (* subframeOffsets is set for the error stream only *)
      let (es, cn) := rows_loop rest col nrows ncols (cnum + 1) in
      (e1 :: e2 :: es, cn)
  end.

(* the column loop: carries cnum and thisColFirstCnum *)
Fixpoint cols_loop (cols : list Z) (sepCols nrows ncols cnum tcf : Z)
  : list entry * list (Z * Z) * Z * Z :=
  match cols with
  | [] => ([], [], cnum, tcf)
  | col :: rest =>
      let cnum := if sepCols >? 0 then tcf + sepCols else cnum in
      let tcf := cnum in
      let g := (cnum, nrows) in
      let (es, cnum') := rows_loop (zrange 0 nrows) col nrows ncols cnum in
      let '(es', gs', c'', t'') := cols_loop rest sepCols nrows ncols cnum' tcf in
      (es ++ es', g :: gs', c'', t'')
  end.

(* the device loop: also maintains subframeDivisions and mixedRowCounts *)
Fixpoint devs_loop (devs : list card) (first sepCards sepCols cnum tcf subdiv : Z) (mixed : bool)
  : list entry * list (Z * Z) * Z * bool :=
  match devs with
  | [] => ([], [], subdiv, mixed)
  | d :: rest =>
      let subdiv' := if subdiv =? 0 then c_nrows d else subdiv in
      let mixed' := if subdiv =? 0 then mixed else if negb (subdiv =? c_nrows d) then true else mixed in
      let cnum := if sepCards >? 0 then c_dev d * sepCards + first else cnum in
      let tcf := if sepCards >? 0 then cnum - sepCols else tcf in
      let '(es, gs, cnum', tcf') := cols_loop (zrange 0 (c_ncols d)) sepCols (c_nrows d) (c_ncols d) cnum tcf in
      let '(es', gs', sd, mx) := devs_loop rest first sepCards sepCols cnum' tcf' subdiv' mixed' in
      (es ++ es', gs ++ gs', sd, mx)
  end.

Definition set_sepCols (s : lsrc) (v : Z) : lsrc :=
  mkL (l_active s) (l_first s) (l_sepCards s) v (l_subdiv s) (l_mixed s) (l_cfgerr s).

(* the two validation loops *)
Definition rows_exceed_sep (s : lsrc) : bool :=
  (l_sepCols s >? 0) && existsb (fun d => c_nrows d >? l_sepCols s) (l_active s).
Definition card_exceeds_sep (s : lsrc) : bool :=
  (l_sepCards s >? 0) &&
  existsb (fun d => let colsep := if l_sepCols s >? 0 then l_sepCols s else c_nrows d in
                    colsep * c_ncols d >? l_sepCards s) (l_active s).

Definition lancero_valid (s : lsrc) : bool :=
  negb (l_sepCards s <? 0) && negb (l_sepCols s <? 0) && negb (rows_exceed_sep s) && negb (card_exceeds_sep s).

(* the numbering part, parameterised by the sub-frame state it starts from *)
Definition lancero_number (s : lsrc) (subdiv0 : Z) (mixed0 : bool) : list entry * list (Z * Z) * Z * bool :=
  devs_loop (l_active s) (l_first s) (l_sepCards s) (l_sepCols s)
            (l_first s) (l_first s - l_sepCols s) subdiv0 mixed0.

(* LanceroSource.PrepareChannels.  None = error returned.
   Current code (fix commit): sub-frame divisions and the mixed-row-count flag are recomputed on every call. *)
Definition lancero_prepare (s : lsrc) : lsrc * option tables :=
  if l_sepCards s <? 0 then (s, None)
  else if l_sepCols s <? 0 then (s, None)
  else if rows_exceed_sep s then (set_sepCols s 0, None)
  else if card_exceeds_sep s then (set_sepCols s 0, None)
  else
    let '(es, gs, sd, mx) := lancero_number s 0 false in
    (mkL (l_active s) (l_first s) (l_sepCards s) (l_sepCols s) sd mx (l_cfgerr s),
     Some (tables_of es gs sd 2)).

(* The code before the fix: subframeDivisions was set only while it was zero and mixedRowCounts never cleared. *)
Definition lancero_prepare_old (s : lsrc) : lsrc * option tables :=
  if l_sepCards s <? 0 then (s, None)
  else if l_sepCols s <? 0 then (s, None)
  else if rows_exceed_sep s then (set_sepCols s 0, None)
  else if card_exceeds_sep s then (set_sepCols s 0, None)
  else
    let '(es, gs, sd, mx) := lancero_number s (l_subdiv s) (l_mixed s) in
    (mkL (l_active s) (l_first s) (l_sepCards s) (l_sepCols s) sd mx (l_cfgerr s),
     Some (tables_of es gs sd 2)).

(* updateChanOrderMap: chan2readoutOrder as a list.  The Go code fills the slice by index; position
   channum + nchanPrevDevices receives readIdx + nchanPrevDevices.  Mirrored by computing, for every
   position, the readIdx that writes it (rownum = channum/2 mod nrows, colnum = channum/2 / nrows). *)
Definition chan_order_dev (ncols nrows prev : Z) : list Z :=
  map (fun channum =>
         let e := channum mod 2 in
         let rownum := (channum / 2) mod nrows in
         let colnum := (channum / 2) / nrows in
         (rownum * ncols + colnum) * 2 + e + prev)
      (zrange 0 (ncols * nrows * 2)).

Fixpoint chan_order (devs : list card) (prev : Z) : list Z :=
  match devs with
  | [] => []
  | d :: rest => chan_order_dev (c_ncols d) (c_nrows d) prev
                 ++ chan_order rest (prev + c_ncols d * c_nrows d * 2)
  end.

(* ---------------------------------------------------------------- Abaco *)

Definition gidx := (Z * Z)%type.   (* (Firstchan, Nchan) *)
Definition gidx_eqb (a b : gidx) : bool := (fst a =? fst b) && (snd a =? snd b).

(* as.groups: a map keyed by GroupIndex, filled from the sampled packets (announced as (nchan, offset)) *)
Fixpoint group_keys (pk : list (Z * Z)) (seen : list gidx) : list gidx :=
  match pk with
  | [] => seen
  | (n, off) :: rest =>
      if existsb (gidx_eqb (off, n)) seen then group_keys rest seen
      else group_keys rest (seen ++ [(off, n)])
  end.

(* "Verify that no channel # appears in 2 groups" *)
Fixpoint overlap_scan (gs : list gidx) (known : list Z) : bool :=
  match gs with
  | [] => false
  | (f, n) :: rest =>
      let cs := zrange f n in
      if existsb (fun c => zmem c known) cs then true else overlap_scan rest (cs ++ known)
  end.

(* sort.Sort(ByGroup(keys)): ordered by Firstchan (ties cannot occur among accepted groups) *)
Fixpoint ginsert (g : gidx) (l : list gidx) : list gidx :=
  match l with
  | [] => [g]
  | h :: t => if fst g <=? fst h then g :: l else h :: ginsert g t
  end.
Definition gsort (l : list gidx) : list gidx := fold_right ginsert [] l.

(* Sample, as far as identity goes: None = error; Some (sorted keys, nchan) *)
Definition abaco_sample (pk : list (Z * Z)) : option (list gidx * Z) :=
  let gs := group_keys pk [] in
  if overlap_scan gs [] then None
  else Some (gsort gs, fold_left (fun a g => a + snd g) gs 0).

Definition abaco_rows (rows : list Z) (col ncol : Z) (g : gidx) : list entry :=
  map (fun row => let cnum := row + fst g in
                  mkE (chan_name cnum) cnum (rc_code row col (snd g) ncol) 0) rows.

Fixpoint abaco_cols (gs : list gidx) (col ncol : Z) : list entry :=
  match gs with
  | [] => []
  | g :: rest => abaco_rows (zrange 0 (snd g)) col ncol g ++ abaco_cols rest (col + 1) ncol
  end.

Definition abaco_subframe_divisions : Z := 64.

(* AbacoSource.PrepareChannels *)
Definition abaco_prepare (sorted : list gidx) : tables :=
  tables_of (abaco_cols sorted 0 (zlen sorted)) sorted abaco_subframe_divisions 1.

(* ---------------------------------------------------------------- Roach, default, simulated sources *)

Definition roach_prepare (nchan : Z) : tables :=
  tables_of (map (fun row => mkE (chan_name row) row (rc_code row 0 nchan 1) 0) (zrange 0 nchan))
            [(0, nchan)] 0 1.

(* AnySource.PrepareChannels: does not touch rowColCodes nor subframeDivisions *)
Definition default_prepare (nchan : Z) (rc : list Z) (subdiv : Z) : tables :=
  mkT (map chan_name (zrange 0 nchan)) (zrange 0 nchan) rc (map (fun _ => 0) (zrange 0 nchan))
      [(0, nchan)] subdiv 1.

(* rowColCodes as left by TriangleSource.Sample / SimPulseSource.Sample *)
Definition sim_rc (nchan : Z) : list Z := map (fun i => rc_code 0 i 1 nchan) (zrange 0 nchan).

(* Configure (Nchan < 1 is refused) + Sample + PrepareChannels *)
Definition triangle_prepare (nchan : Z) : option tables :=
  if nchan <? 1 then None else Some (default_prepare nchan (sim_rc nchan) 0).
Definition simpulse_prepare (nchan : Z) : option tables :=
  if nchan <? 1 then None else Some (default_prepare nchan (sim_rc nchan) nchan).
(* ErroringSource: no Configure, Sample does nothing *)
Definition erroring_prepare (nchan : Z) : tables := default_prepare nchan [] 0.

(* ---------------------------------------------------------------- file names *)

(* fmt.Sprintf restricted to the verbs %s and %% (anything else: None = outside the modelled fragment;
   arguments left over or missing: None as well). *)
Fixpoint go_sprintf (p : string) (args : list string) : option string :=
  match p with
  | EmptyString => match args with [] => Some EmptyString | _ => None end
  | String c rest =>
      if Ascii.eqb c "%" then
        match rest with
        | String c2 rest2 =>
            if Ascii.eqb c2 "%" then option_map (String "%") (go_sprintf rest2 args)
            else if Ascii.eqb c2 "s" then
              match args with
              | a :: args' => option_map (String.append a) (go_sprintf rest2 args')
              | [] => None
              end
            else None
        | EmptyString => None
        end
      else option_map (String c) (go_sprintf rest args)
  end.

(* filepath.Join(a, b) for clean, slash-free-at-the-end a and a single component b *)
Definition join (a b : string) : string := String.append a (String "/" b).

(* makeDirectory(basepath): [today] is time.Now().Format("20060102") and [i] the first unused run number,
   both read off the implementation's result by the harness.  Premise: basepath is a clean absolute path
   (filepath.Join does no rewriting). *)
Definition make_directory (base today : string) (i : Z) : string :=
  let thisDir := join (join base today) (pad4 i) in
  join thisDir (String.append today (String.append "_run" (String.append (pad4 i) "_%s.%s"))).

(* fmt.Sprintf(filenamePattern, dsp.Name, ext) *)
Definition filename (pattern name ext : string) : option string := go_sprintf pattern [name; ext].

(* identity as written into a file header *)
Record ident := mkId {
  i_index : Z; i_chname : string; i_chnum : Z;
  i_nrows : Z; i_ncols : Z; i_row : Z; i_col : Z; i_nchan : Z; i_subdiv : Z; i_suboff : Z;
  i_source : string
}.

(* what PrepareRun / writeControlStart hand to one stream's processor and writers *)
Record chanfile := mkCF {
  f_dspname : string; f_dspnum : Z;                  (* dsp.Name, dsp.ChannelNumber *)
  f_ljh : string; f_ljh3 : string; f_off : string;   (* file names ("" = no such writer) *)
  f_hd : ident;                                      (* LJH 2.2 header *)
  f_offhd : option ident                             (* OFF header *)
}.

Definition znth_s (l : list string) (i : Z) : string := znth EmptyString l i.
Definition ostr (o : option string) : string := match o with Some x => x | None => EmptyString end.

(* One entry per processor (= per channel name).  Index i of rowColCodes / subframeOffsets / chanNumbers
   must exist: Go panics with index out of range otherwise. *)
(* [offs]: indices of the channels that have projectors loaded (only those get an OFF writer) *)
Definition has_off (offs : list Z) (i : Z) : bool := zmem i offs.

Definition files_of (t : tables) (source pattern : string) (offs : list Z) : res (list chanfile) :=
  let n := zlen (t_names t) in
  if (zlen (t_rc t) <? n) || (zlen (t_sub t) <? n) || (zlen (t_nums t) <? n) then Panic
  else Ok (map (fun i =>
         let name := znth_s (t_names t) i in
         let code := znth 0 (t_rc t) i in
         let id := mkId i name (znth 0 (t_nums t) i) (rc_rows code) (rc_cols code) (rc_row code) (rc_col code)
                        n (t_subdiv t) (znth 0 (t_sub t) i) source in
         mkCF name (znth 0 (t_nums t) i)
              (ostr (filename pattern name "ljh")) (ostr (filename pattern name "ljh3"))
              (if has_off offs i then ostr (filename pattern name "off") else EmptyString)
              id (if has_off offs i then Some id else None))
       (zrange 0 n)).

(* ---------------------------------------------------------------- operations and observations *)

Inductive op :=
| LRun (avail req : list Z) (nsamp first sepCards sepCols : Z) (geom : list (Z * Z))
       (* ConfigureLanceroSource, then Start up to and including PrepareChannels *)
| LAgain (geom : list (Z * Z))
  (* Start again without a new Configure; the i-th active card now delivers geom[i] = (ncols, nrows)
     (cards beyond the list: as before) *)
| LMid (avail req : list Z) (nsamp first sepCards sepCols : Z)
  (* Start again; a ConfigureLanceroSource request with these arguments arrives while the source is Starting,
     between Sample and PrepareChannels *)
| APrep (pk : list (Z * Z))                (* Abaco: Sample on packets announcing (nchan, offset), PrepareChannels *)
| RPrep (devs : list Z)                    (* Roach: devices with these channel counts *)
| TPrep (n : Z) | SPrep (n : Z) | EPrep (n : Z)   (* Triangle, SimPulse, Erroring source with n channels *)
| RcCode (row col rows cols : Z)
| Files (base today : string) (i : Z) (offs : list Z) (mapn : Z).
  (* PrepareRun + WriteControl START on the last prepared source; projectors on the channels [offs];
     mapn >= 0: a pixel map with mapn pixels is loaded (MapInternalOnly), mapn < 0: none *)

Inductive obs :=
| ORejCfg                                              (* Configure failed; Start refused *)
| ORej (subdiv : Z) (mixed : bool) (sepCols : Z)       (* an error was returned; what the object keeps *)
| OAcc (t : tables) (mixed : bool) (order : list Z)    (* tables; mixedRowCounts; chan2readoutOrder *)
       (names_msg : list string) (groups_msg : list (Z * Z))   (* ChannelNames(), ChanGroups() *)
| ORc (code r c nr nc : Z)
| OFiles (pattern : string) (cf : list chanfile) (nfiles : Z)
| ONoFiles                                             (* nothing prepared, or no channels: PrepareRun refuses *)
| OStartErr                                            (* WriteControl START returned an error; nothing was set up *)
| OPanic.

Record state := mkS { s_l : lsrc; s_last : option (tables * string) }.
Definition state0 : state := mkS lsrc0 None.

(* what Sample learns about the active cards at this start *)
Fixpoint regeom (cards : list card) (geom : list (Z * Z)) : list card :=
  match cards, geom with
  | c :: cs, g :: gs => mkCard (c_dev c) (fst g) (snd g) :: regeom cs gs
  | cs, _ => cs
  end.
Definition set_active (l : lsrc) (cards : list card) : lsrc :=
  mkL cards (l_first l) (l_sepCards l) (l_sepCols l) (l_subdiv l) (l_mixed l) (l_cfgerr l).
Definition set_cfgerr (l : lsrc) : lsrc :=
  mkL (l_active l) (l_first l) (l_sepCards l) (l_sepCols l) (l_subdiv l) (l_mixed l) true.

Definition acc (t : tables) : obs := OAcc t false [] (t_names t) (t_groups t).

Definition lancero_start (l : lsrc) : lsrc * obs * option tables :=
  if l_cfgerr l then (l, ORejCfg, None)
  else
    let (l', r) := lancero_prepare l in
    match r with
    | None => (l', ORej (l_subdiv l') (l_mixed l') (l_sepCols l'), None)
    | Some t => (l', OAcc t (l_mixed l') (chan_order (l_active l') 0) (t_names t) (t_groups t), Some t)
    end.

Definition step (s : state) (o : op) : state * obs :=
  let keep (ob : obs) := (s, ob) in
  let rejected (ob : obs) := (mkS (s_l s) None, ob) in      (* a refused Start leaves nothing to write from *)
  let prepared (t : tables) (src : string) := (mkS (s_l s) (Some (t, src)), acc t) in
  match o with
  | LRun avail req nsamp first sepCards sepCols geom =>
      let (l1, ok) := lancero_configure (s_l s) avail req nsamp first sepCards sepCols geom in
      let '(l2, ob, r) := lancero_start l1 in
      (mkS l2 (match r with Some t => Some (t, "Lancero"%string) | None => None end), ob)
  | LAgain geom =>
      (* Sample refuses after a failed Configure before it looks at the cards *)
      let l1 := if l_cfgerr (s_l s) then s_l s else set_active (s_l s) (regeom (l_active (s_l s)) geom) in
      let '(l2, ob, r) := lancero_start l1 in
      (mkS l2 (match r with Some t => Some (t, "Lancero"%string) | None => None end), ob)
  | LMid avail req nsamp first sepCards sepCols =>
      (* Configure refuses a source that is not Inactive and changes nothing; SourceControl remembers the
         error in configError, which only the next Start looks at *)
      if l_cfgerr (s_l s) then (mkS (s_l s) None, ORejCfg)
      else
        let '(l2, ob, r) := lancero_start (s_l s) in
        (mkS (set_cfgerr l2) (match r with Some t => Some (t, "Lancero"%string) | None => None end), ob)
  | APrep pk =>
      match abaco_sample pk with
      | None => rejected (ORej 0 false 0)
      | Some (sorted, _) => prepared (abaco_prepare sorted) "Abaco"%string
      end
  | RPrep devs => prepared (roach_prepare (fold_left Z.add devs 0)) "Roach"%string
  | TPrep n => match triangle_prepare n with None => rejected (ORej 0 false 0) | Some t => prepared t "Triangle"%string end
  | SPrep n => match simpulse_prepare n with None => rejected (ORej 0 false 0) | Some t => prepared t "SimPulse"%string end
  | EPrep n => prepared (erroring_prepare n) ""%string
  | RcCode row col rows cols =>
      let c := rc_code row col rows cols in keep (ORc c (rc_row c) (rc_col c) (rc_rows c) (rc_cols c))
  | Files base today i offs mapn =>
      match s_last s with
      | None => keep ONoFiles
      | Some (t, src) =>
          if zlen (t_names t) <=? 0 then keep ONoFiles
          else if (0 <=? mapn) && negb (mapn =? zlen (t_names t) / t_cpp t)
          then keep OStartErr      (* "map error": len(Pixels) != nchan / channelsPerPixel *)
          else let pattern := make_directory base today i in
               match files_of t src pattern offs with
               | Panic => keep OPanic
               | Ok cf => keep (OFiles pattern cf
                                 (zlen cf * 2 + zlen (filter (has_off offs) (zrange 0 (zlen cf))) + 1))
               end
      end
  end.

Fixpoint run (s : state) (ops : list op) : list obs :=
  match ops with
  | [] => []
  | o :: rest => let (s', b) := step s o in b :: run s' rest
  end.
