(* C19 — property theorems only: each closed by [exact], each followed by Print Assumptions.
   Vocabulary (Spec.v): in_grp x g : channel number x lies in group g = (Firstchan, Nchan);
   gdisj / pdisj : two groups / all groups at different positions share no channel number;
   lancero_geos cards : the (row, col, rows, cols) of every (card, column, row) triple in channel order;
   dims_nonneg / dims_in_field : counts of columns and rows are >= 0 / fit the 16-bit code fields;
   no_percent : a string without '%'; exts = [ljh; ljh3; off]. *)
From Coq Require Import String Ascii Permutation.
From Dastard Require Import Common.ZX C19.Model C19.Spec C19.Proofs.
Open Scope Z_scope.

(* Configure accepts a list of cards only if every card exists and none is named twice. *)
Theorem configure_accepts_distinct_cards :
  forall s avail req nsamp first sepCards sepCols geom s',
    lancero_configure s avail req nsamp first sepCards sepCols geom = (s', true) ->
    NoDup (map c_dev (l_active s')) /\ l_cfgerr s' = false /\
    l_first s' = first /\ l_sepCards s' = sepCards /\ l_sepCols s' = sepCols /\
    (zlen req <= zlen geom -> map c_dev (l_active s') = req).
Proof. exact configure_active_distinct. Qed.
Print Assumptions configure_accepts_distinct_cards.

(* For EVERY configuration PrepareChannels accepts (any cards with distinct device numbers, any numbers of
   columns and rows, any first-row number, any separations): position p of the tables belongs to triple p/2;
   two positions carry the same channel number exactly when they are the error/feedback partners of one
   (card, column, row) triple; names are err<n>/chan<n> of that number; all names are different. *)
Theorem lancero_numbering_injective :
  forall s s' t,
    NoDup (map c_dev (l_active s)) -> dims_nonneg (l_active s) ->
    lancero_prepare s = (s', Some t) ->
    let n := zlen (lancero_geos (l_active s)) in
    zlen (t_nums t) = 2 * n /\ zlen (t_names t) = 2 * n /\
    (forall p q, 0 <= p < 2 * n -> 0 <= q < 2 * n ->
       (znth 0 (t_nums t) p = znth 0 (t_nums t) q <-> p / 2 = q / 2)) /\
    (forall i, 0 <= i < n ->
       znth_s (t_names t) (2 * i) = err_name (znth 0 (t_nums t) (2 * i)) /\
       znth_s (t_names t) (2 * i + 1) = chan_name (znth 0 (t_nums t) (2 * i + 1))) /\
    NoDup (t_names t).
Proof. exact lancero_numbering. Qed.
Print Assumptions lancero_numbering_injective.

(* The reported groups cover exactly the channel numbers in use, and no number lies in two groups. *)
Theorem groups_cover :
  forall s s' t,
    NoDup (map c_dev (l_active s)) -> dims_nonneg (l_active s) ->
    lancero_prepare s = (s', Some t) ->
    (forall x, In x (t_nums t) <-> exists g, In g (t_groups t) /\ in_grp x g) /\ pdisj (t_groups t).
Proof. exact lancero_groups_cover. Qed.
Print Assumptions groups_cover.

(* If the numbering loops, run without the validation, would give two different triples the same number,
   PrepareChannels returns an error. *)
Theorem collisions_rejected :
  forall s,
    NoDup (map c_dev (l_active s)) -> dims_nonneg (l_active s) ->
    let nums := map e_num (fst (fst (fst (lancero_number s 0 false)))) in
    (exists p q, 0 <= p < zlen nums /\ 0 <= q < zlen nums /\ p / 2 <> q / 2 /\
                 znth 0 nums p = znth 0 nums q) ->
    snd (lancero_prepare s) = None.
Proof. exact lancero_collisions_rejected. Qed.
Print Assumptions collisions_rejected.

(* Packing and unpacking of row/column codes, for values in the 16-bit fields. *)
Theorem rccode_roundtrip :
  forall row col rows cols,
    0 <= row < 65536 -> 0 <= col < 65536 -> 0 <= rows < 65536 -> 0 <= cols < 65536 ->
    let c := rc_code row col rows cols in
    rc_row c = row /\ rc_col c = col /\ rc_rows c = rows /\ rc_cols c = cols.
Proof. exact rc_decode. Qed.
Print Assumptions rccode_roundtrip.

(* The code of every stream of an accepted Lancero configuration decodes to the true geometry of its triple. *)
Theorem lancero_codes_true_geometry :
  forall s s' t,
    NoDup (map c_dev (l_active s)) -> dims_in_field (l_active s) ->
    lancero_prepare s = (s', Some t) ->
    forall p, 0 <= p < 2 * zlen (lancero_geos (l_active s)) ->
      let g := znth geo0 (lancero_geos (l_active s)) (p / 2) in
      let c := znth 0 (t_rc t) p in
      rc_row c = g_row g /\ rc_col c = g_col g /\ rc_rows c = g_rows g /\ rc_cols c = g_cols g.
Proof. exact lancero_codes_decode. Qed.
Print Assumptions lancero_codes_true_geometry.

(* Whatever the source object went through before, the tables depend on the present configuration only,
   and the sub-frame facts are those of the present geometry. *)
Theorem lancero_history_irrelevant :
  forall act first sepCards sepCols e sd1 mx1 sd2 mx2,
    snd (lancero_prepare (mkL act first sepCards sepCols sd1 mx1 e)) =
    snd (lancero_prepare (mkL act first sepCards sepCols sd2 mx2 e)).
Proof. exact lancero_history_independent. Qed.
Print Assumptions lancero_history_irrelevant.

Theorem lancero_subframe_facts_current :
  forall s s' t,
    lancero_prepare s = (s', Some t) ->
    Forall (fun d => 1 <= c_nrows d) (l_active s) -> l_active s <> [] ->
    t_subdiv t = first_rows (l_active s) /\ l_subdiv s' = first_rows (l_active s) /\
    l_mixed s' = rows_mixed (l_active s).
Proof. exact lancero_subframe_facts. Qed.
Print Assumptions lancero_subframe_facts_current.

(* The code before the fix: a second run with 6 rows on an object that had run with 4 rows reports
   4 sub-frame divisions and "mixed row counts" although all cards agree. *)
Theorem lancero_history_irrelevant_refuted_pre_fix :
  exists t, snd (lancero_prepare_old old_s2) = Some t /\
            t_subdiv t = 4 /\ first_rows (l_active old_s2) = 6 /\
            l_mixed (fst (lancero_prepare_old old_s2)) = true /\ rows_mixed (l_active old_s2) = false.
Proof. exact old_code_keeps_stale_subframe_facts. Qed.
Print Assumptions lancero_history_irrelevant_refuted_pre_fix.

(* Abaco: Sample accepts exactly the group sets in which no channel number occurs twice ... *)
Theorem abaco_no_overlap_accepted :
  forall pk, abaco_sample pk <> None <-> NoDup (gnums (group_keys pk [])).
Proof. exact abaco_accept_iff. Qed.
Print Assumptions abaco_no_overlap_accepted.

(* ... and then reports the groups sorted, pairwise disjoint, covering exactly the numbers in use, with
   distinct numbers and distinct names chan<n>. *)
Theorem abaco_tables_identity :
  forall pk sorted nchan,
    abaco_sample pk = Some (sorted, nchan) ->
    let t := abaco_prepare sorted in
    Permutation sorted (group_keys pk []) /\ gsorted sorted /\
    t_groups t = sorted /\ t_nums t = gnums sorted /\ NoDup (t_nums t) /\
    t_names t = map chan_name (t_nums t) /\ NoDup (t_names t) /\ pdisj sorted /\
    (forall x, In x (t_nums t) <-> exists g, In g (t_groups t) /\ in_grp x g).
Proof. exact abaco_identity. Qed.
Print Assumptions abaco_tables_identity.

(* File names: for a base path without '%', the name of a file determines the stream name and the format. *)
Theorem filenames_injective :
  forall base today i n1 e1 n2 e2 f,
    no_percent base -> no_percent today -> In e1 exts -> In e2 exts ->
    filename (make_directory base today i) n1 e1 = Some f ->
    filename (make_directory base today i) n2 e2 = Some f ->
    n1 = n2 /\ e1 = e2.
Proof. exact filenames_injective_lemma. Qed.
Print Assumptions filenames_injective.

(* Consequently two different streams of a source with distinct names never share an output file. *)
Theorem no_shared_output_file :
  forall names base today i e1 e2 p q f1 f2,
    NoDup names -> no_percent base -> no_percent today ->
    0 <= p < zlen names -> 0 <= q < zlen names -> p <> q -> In e1 exts -> In e2 exts ->
    filename (make_directory base today i) (znth_s names p) e1 = Some f1 ->
    filename (make_directory base today i) (znth_s names q) e2 = Some f2 ->
    f1 <> f2.
Proof. exact distinct_streams_distinct_files. Qed.
Print Assumptions no_shared_output_file.

(* Roach / default (Triangle, SimPulse, Erroring) sources: numbers 0..n-1, names chan<i>, one group (0, n). *)
Theorem single_group_sources_identity :
  forall n rc sd t,
    In t [roach_prepare n; default_prepare n rc sd] ->
    t_nums t = zrange 0 n /\ t_names t = map chan_name (t_nums t) /\ t_groups t = [(0, n)] /\
    NoDup (t_nums t) /\ NoDup (t_names t) /\
    (forall x, In x (t_nums t) <-> exists g, In g (t_groups t) /\ in_grp x g) /\ pdisj (t_groups t).
Proof. exact single_group_sources. Qed.
Print Assumptions single_group_sources_identity.

(* chan2readoutOrder (updateChanOrderMap) sends the stream of (card, column, row, err/fb) to the position
   that triple has in the card's readout: prev + (row*ncols + col)*2 + e. *)
Theorem chan_order_consistent :
  forall devs, dims_nonneg devs -> forall prev, chan_order devs prev = lancero_order devs prev.
Proof. exact chan_order_eq. Qed.
Print Assumptions chan_order_consistent.

(* Abaco: the order in which the groups (keys of a Go map, packets of concurrent producers) are visited
   does not influence the decision nor the tables. *)
Theorem abaco_order_irrelevant :
  forall pk pk',
    Permutation pk pk' -> Forall (fun p => 1 <= fst p) pk -> abaco_sample pk = abaco_sample pk'.
Proof. exact abaco_order_irrelevant_lemma. Qed.
Print Assumptions abaco_order_irrelevant.

(* The tables the model produces for an accepted Lancero configuration pass the observable checker ... *)
Theorem lancero_model_satisfies_checker :
  forall s s' t,
    NoDup (map c_dev (l_active s)) -> dims_in_field (l_active s) ->
    lancero_prepare s = (s', Some t) ->
    check_lancero (l_active s) t (l_mixed s') (chan_order (l_active s') 0) = true.
Proof. exact lancero_model_passes_checker. Qed.
Print Assumptions lancero_model_satisfies_checker.

(* ... and what the checker's "true" means, for tables from any origin (independent of the model): *)
Theorem lancero_checker_sound :
  forall cards t mixed order,
    check_lancero cards t mixed order = true ->
    let n := zlen (lancero_geos cards) in
    NoDup (map c_dev cards) /\
    zlen (t_nums t) = 2 * n /\
    (forall p q, 0 <= p < 2 * n -> 0 <= q < 2 * n ->
       (znth 0 (t_nums t) p = znth 0 (t_nums t) q <-> p / 2 = q / 2)) /\
    NoDup (t_names t) /\
    (forall x, In x (t_nums t) <-> exists g, In g (t_groups t) /\ in_grp x g) /\ pdisj (t_groups t) /\
    (forall p, 0 <= p < 2 * n ->
       let g := znth geo0 (lancero_geos cards) (p / 2) in let c := znth 0 (t_rc t) p in
       rc_row c = g_row g /\ rc_col c = g_col g /\ rc_rows c = g_rows g /\ rc_cols c = g_cols g).
Proof. exact check_lancero_sound. Qed.
Print Assumptions lancero_checker_sound.

Theorem abaco_checker_sound :
  forall pk t,
    check_abaco pk t = true ->
    (forall g, In g (t_groups t) <-> In g (announced pk)) /\
    t_nums t = gnums (t_groups t) /\ NoDup (t_nums t) /\
    t_names t = map chan_name (t_nums t) /\ NoDup (t_names t) /\
    (forall x, In x (t_nums t) <-> exists g, In g (t_groups t) /\ in_grp x g) /\ pdisj (t_groups t).
Proof. exact check_abaco_sound. Qed.
Print Assumptions abaco_checker_sound.

(* after a START: no two streams (or formats) share a file, and every header carries the identity that the
   tables (status messages) give to the stream *)
Theorem files_checker_sound :
  forall t source offs cf nfiles,
    check_files t source offs cf nfiles = true ->
    zlen cf = zlen (t_names t) /\
    NoDup (map f_ljh cf ++ map f_ljh3 cf ++ off_names cf) /\
    forall k, 0 <= k < zlen cf ->
      let f := znth (mkCF EmptyString 0 EmptyString EmptyString EmptyString (status_ident t source 0) None) cf k in
      let id := status_ident t source k in
      f_dspname f = i_chname id /\ f_dspnum f = i_chnum id /\ ident_eqb (f_hd f) id = true /\
      (has_off offs k = true -> exists h, f_offhd f = Some h /\ ident_eqb h id = true) /\
      (has_off offs k = false -> f_offhd f = None).
Proof. exact check_files_sound. Qed.
Print Assumptions files_checker_sound.

(* The tables the model produces pass the other observable checkers as well (a verdict "model and
   implementation agree but the checker rejects" cannot arise for well-formed inputs). *)
Theorem abaco_model_satisfies_checker :
  forall pk sorted nchan,
    Forall (fun p => 1 <= fst p < 65536) pk -> abaco_sample pk = Some (sorted, nchan) -> zlen sorted < 65536 ->
    check_abaco pk (abaco_prepare sorted) = true.
Proof. exact abaco_model_passes_checker. Qed.
Print Assumptions abaco_model_satisfies_checker.

Theorem roach_model_satisfies_checker :
  forall n, 0 <= n < 65536 -> check_roach n (roach_prepare n) = true.
Proof. exact roach_model_passes_checker. Qed.
Print Assumptions roach_model_satisfies_checker.

Theorem simulated_model_satisfies_checker :
  forall n sd, 1 <= n < 65536 -> check_sim n (default_prepare n (sim_rc n) sd) = true.
Proof. exact sim_model_passes_checker. Qed.
Print Assumptions simulated_model_satisfies_checker.

Theorem erroring_model_satisfies_checker :
  forall n, 0 <= n -> check_erroring n (erroring_prepare n) = true.
Proof. exact erroring_model_passes_checker. Qed.
Print Assumptions erroring_model_satisfies_checker.

(* file names and header identities computed from tables with distinct names pass the files checker *)
Theorem files_model_satisfies_checker :
  forall t src base today i offs cf,
    no_percent base -> no_percent today -> NoDup (t_names t) ->
    files_of t src (make_directory base today i) offs = Ok cf ->
    check_files t src offs cf (zlen cf * 2 + zlen (filter (has_off offs) (zrange 0 (zlen cf))) + 1) = true.
Proof. exact files_model_passes_checker. Qed.
Print Assumptions files_model_satisfies_checker.

(* Whole histories: for every sequence of well-formed requests on which the model predicts no Go panic
   (a START on an ErroringSource is the only one), the model's observations pass C19_check: the verdict
   "implementation = model, yet the checker rejects" cannot occur. *)
Theorem model_history_satisfies_checker :
  forall ops,
    Forall wf_op ops -> ~ In OPanic (run state0 ops) -> C19_check (combine ops (run state0 ops)) = true.
Proof. exact model_history_passes_checker. Qed.
Print Assumptions model_history_satisfies_checker.
