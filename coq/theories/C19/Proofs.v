(* C19 — lemmas and proofs. *)
From Coq Require Import String Ascii DecimalString Decimal DecimalZ DecimalPos Permutation.
From Coq Require Import ZifyBool ZifyNat.
From Dastard Require Import Common.ZX C19.Model C19.Spec.
Open Scope Z_scope.

(* ================================================================ row/column codes *)

Lemma land_shiftl_small a b k : 0 <= k -> 0 <= b < 2 ^ k -> Z.land (Z.shiftl a k) b = 0.
Proof.
  intros Hk Hb. apply Z.bits_inj'. intros n Hn. rewrite Z.land_spec, Z.bits_0.
  destruct (Z.ltb_spec n k) as [L|G].
  - rewrite Z.shiftl_spec_low by lia. reflexivity.
  - destruct (Z.eq_dec b 0) as [->|NZ]; [rewrite Z.bits_0; apply andb_false_r|].
    rewrite (Z.bits_above_log2 b n); [apply andb_false_r | lia |].
    apply Z.log2_lt_pow2; try lia. apply Z.lt_le_trans with (2 ^ k); [lia|].
    apply Z.pow_le_mono_r; lia.
Qed.

Lemma lor_shiftl_small a b k : 0 <= k -> 0 <= b < 2 ^ k -> Z.lor (Z.shiftl a k) b = a * 2 ^ k + b.
Proof.
  intros Hk Hb. rewrite <- Z.shiftl_mul_pow2 by lia.
  rewrite <- Z.lxor_lor by (apply land_shiftl_small; lia).
  symmetry. apply Z.add_nocarry_lxor. apply land_shiftl_small; lia.
Qed.

Lemma land_65535 x : Z.land x 65535 = x mod 65536.
Proof. change 65535 with (Z.ones 16). rewrite Z.land_ones by lia. reflexivity. Qed.

Lemma rc_code_arith row col rows cols :
  rc_code row col rows cols =
  (((cols mod 65536) * 65536 + rows mod 65536) * 65536 + col mod 65536) * 65536 + row mod 65536.
Proof.
  unfold rc_code. rewrite !land_65535.
  assert (H : forall x, 0 <= x mod 65536 < 2 ^ 16) by (intro x; change (2 ^ 16) with 65536; apply Z.mod_pos_bound; lia).
  rewrite !lor_shiftl_small by (try lia; apply H). change (2 ^ 16) with 65536. reflexivity.
Qed.

Lemma rc_decode row col rows cols :
  0 <= row < 65536 -> 0 <= col < 65536 -> 0 <= rows < 65536 -> 0 <= cols < 65536 ->
  let c := rc_code row col rows cols in
  rc_row c = row /\ rc_col c = col /\ rc_rows c = rows /\ rc_cols c = cols.
Proof.
  intros H1 H2 H3 H4. cbv zeta. unfold rc_row, rc_col, rc_rows, rc_cols.
  rewrite rc_code_arith, !land_65535. rewrite !Z.shiftr_div_pow2 by lia.
  rewrite (Z.mod_small row), (Z.mod_small col), (Z.mod_small rows), (Z.mod_small cols) by lia.
  change (2 ^ 0) with 1. change (2 ^ 16) with 65536. change (2 ^ 32) with (65536 * 65536).
  change (2 ^ 48) with (65536 * 65536 * 65536).
  repeat split.
  - rewrite Z.div_1_r. rewrite Z.add_comm, Z.mod_add by lia. apply Z.mod_small; lia.
  - replace ((((cols * 65536 + rows) * 65536 + col) * 65536 + row) / 65536)
      with ((cols * 65536 + rows) * 65536 + col).
    + rewrite Z.add_comm, Z.mod_add by lia. apply Z.mod_small; lia.
    + apply Z.div_unique with row; lia.
  - replace ((((cols * 65536 + rows) * 65536 + col) * 65536 + row) / (65536 * 65536))
      with (cols * 65536 + rows).
    + rewrite Z.add_comm, Z.mod_add by lia. apply Z.mod_small; lia.
    + apply Z.div_unique with (col * 65536 + row); lia.
  - replace ((((cols * 65536 + rows) * 65536 + col) * 65536 + row) / (65536 * 65536 * 65536)) with cols.
    + apply Z.mod_small; lia.
    + apply Z.div_unique with ((rows * 65536 + col) * 65536 + row); lia.
Qed.

Lemma rc_code_range row col rows cols : 0 <= rc_code row col rows cols < 2 ^ 64.
Proof.
  rewrite rc_code_arith.
  assert (H : forall x, 0 <= x mod 65536 < 65536) by (intro x; apply Z.mod_pos_bound; lia).
  pose proof (H row); pose proof (H col); pose proof (H rows); pose proof (H cols).
  change (2 ^ 64) with (65536 * 65536 * 65536 * 65536). nia.
Qed.

(* ================================================================ text: decimal rendering is injective *)

Lemma to_int_not_nil z : Z.to_int z <> Pos Nil /\ Z.to_int z <> Neg Nil.
Proof.
  destruct z as [|p|p]; cbn; split; intro H; try discriminate; injection H as H;
    exact (Unsigned.to_uint_nonnil p H).
Qed.

Lemma dec_inj a b : dec a = dec b -> a = b.
Proof.
  unfold dec. intro H.
  destruct (to_int_not_nil a) as [A1 A2], (to_int_not_nil b) as [B1 B2].
  pose proof (NilZero.isi _ A1 A2) as Ia. pose proof (NilZero.isi _ B1 B2) as Ib.
  rewrite H in Ia. rewrite Ia in Ib. injection Ib as E.
  rewrite <- (DecimalZ.of_to a), <- (DecimalZ.of_to b), E. reflexivity.
Qed.

Lemma append_inj_l p a b : String.append p a = String.append p b -> a = b.
Proof. induction p as [|c p IH]; cbn; intro H; [exact H | injection H as H; auto]. Qed.

Lemma err_name_inj a b : err_name a = err_name b -> a = b.
Proof. unfold err_name. intro H. apply dec_inj. exact (append_inj_l _ _ _ H). Qed.
Lemma chan_name_inj a b : chan_name a = chan_name b -> a = b.
Proof. unfold chan_name. intro H. apply dec_inj. exact (append_inj_l _ _ _ H). Qed.
Lemma err_chan_distinct a b : err_name a <> chan_name b.
Proof. unfold err_name, chan_name. cbn. discriminate. Qed.

(* ================================================================ ranges, pairs, groups *)

Lemma zrange_nat_In a n x : In x (zrange_nat a n) <-> a <= x < a + Z.of_nat n.
Proof.
  revert a; induction n as [|n IH]; intro a; cbn [zrange_nat In].
  - split; [tauto | lia].
  - rewrite IH. lia.
Qed.
Lemma zrange_In a n x : In x (zrange a n) <-> a <= x < a + n.
Proof. unfold zrange. rewrite zrange_nat_In. lia. Qed.

Lemma zrange_nat_NoDup a n : NoDup (zrange_nat a n).
Proof.
  revert a; induction n as [|n IH]; intro a; cbn [zrange_nat]; constructor; [|apply IH].
  rewrite zrange_nat_In. lia.
Qed.
Lemma zrange_NoDup a n : NoDup (zrange a n).
Proof. apply zrange_nat_NoDup. Qed.

Lemma zrange_nil a n : n <= 0 -> zrange a n = [].
Proof. intro H. unfold zrange. replace (Z.to_nat n) with O by lia. reflexivity. Qed.

Lemma zrange_cons a n : 0 < n -> zrange a n = a :: zrange (a + 1) (n - 1).
Proof.
  intro H. unfold zrange. replace (Z.to_nat n) with (S (Z.to_nat (n - 1))) by lia. reflexivity.
Qed.

Lemma dup_app {A} (a b : list A) : dup (a ++ b) = dup a ++ dup b.
Proof. unfold dup. apply flat_map_app. Qed.

Lemma dup_length {A} (l : list A) : zlen (dup l) = 2 * zlen l.
Proof.
  unfold zlen. induction l as [|x l IH]; [reflexivity|].
  cbn [dup flat_map app length]. fold (dup l). cbn [length] in *. lia.
Qed.

Lemma In_dup {A} (x : A) l : In x (dup l) <-> In x l.
Proof.
  induction l as [|y l IH]; cbn [dup flat_map app In]; [tauto|].
  fold (dup l). rewrite IH. tauto.
Qed.

(* positions of a duplicated list *)
Lemma dup_znth {A} (d : A) l p : 0 <= p < 2 * zlen l -> znth d (dup l) p = znth d l (p / 2).
Proof.
  revert p; induction l as [|x l IH]; intros p Hp.
  - unfold zlen in Hp; cbn in Hp; lia.
  - unfold zlen in Hp. cbn [length] in Hp.
    cbn [dup flat_map app]. fold (dup l).
    destruct (Z.eq_dec p 0) as [->|N0]; [reflexivity|].
    destruct (Z.eq_dec p 1) as [->|N1]; [reflexivity|].
    assert (E : znth d (x :: x :: dup l) p = znth d (dup l) (p - 2)).
    { unfold znth. destruct (p <? 0) eqn:E1; [lia|]. destruct (p - 2 <? 0) eqn:E2; [lia|].
      replace (Z.to_nat p) with (S (S (Z.to_nat (p - 2)))) by lia. reflexivity. }
    rewrite E, IH by (unfold zlen; lia).
    replace (p / 2) with ((p - 2) / 2 + 1).
    2:{ replace p with ((p - 2) + 1 * 2) at 2 by lia. rewrite Z.div_add by lia. reflexivity. }
    assert (0 <= (p - 2) / 2) by (apply Z.div_pos; lia).
    unfold znth. destruct ((p - 2) / 2 <? 0) eqn:E1; [lia|]. destruct ((p - 2) / 2 + 1 <? 0) eqn:E2; [lia|].
    replace (Z.to_nat ((p - 2) / 2 + 1)) with (S (Z.to_nat ((p - 2) / 2))) by lia. reflexivity.
Qed.

Lemma NoDup_znth_inj (l : list Z) i j :
  NoDup l -> 0 <= i < zlen l -> 0 <= j < zlen l -> znth 0 l i = znth 0 l j -> i = j.
Proof.
  intros ND Hi Hj E. unfold znth in E. unfold zlen in *.
  destruct (i <? 0) eqn:E1; [lia|]. destruct (j <? 0) eqn:E2; [lia|].
  assert (Z.to_nat i = Z.to_nat j) by (apply (proj1 (NoDup_nth l 0) ND); try lia; exact E). lia.
Qed.

Lemma NoDup_app_intro {A} (a b : list A) :
  NoDup a -> NoDup b -> (forall x, In x a -> In x b -> False) -> NoDup (a ++ b).
Proof.
  induction a as [|x a IH]; cbn [app]; intros Ha Hb H; [exact Hb|].
  inversion Ha as [|? ? Hx Ha']; subst. constructor.
  - rewrite in_app_iff. intros [H1|H1]; [auto | exact (H x (or_introl eq_refl) H1)].
  - apply IH; auto. intros y Hy. apply H. now right.
Qed.

Lemma NoDup_app_inv {A} (a b : list A) :
  NoDup (a ++ b) -> NoDup a /\ NoDup b /\ (forall x, In x a -> In x b -> False).
Proof.
  induction a as [|x a IH]; cbn [app]; intro H.
  - repeat split; [constructor | exact H | intros x []].
  - inversion H as [|? ? Hx H']; subst. destruct (IH H') as [Ha [Hb Hd]].
    rewrite in_app_iff in Hx. repeat split; auto.
    + constructor; auto.
    + intros y [->|Hy] Hyb; [auto | eauto].
Qed.

(* all channel numbers of a list of groups, in order *)
Definition gnums (gs : list (Z * Z)) : list Z := flat_map (fun g => zrange (fst g) (snd g)) gs.

Lemma gnums_app a b : gnums (a ++ b) = gnums a ++ gnums b.
Proof. apply flat_map_app. Qed.

Lemma In_gnums x gs : In x (gnums gs) <-> exists g, In g gs /\ in_grp x g.
Proof.
  unfold gnums, in_grp. rewrite in_flat_map. split; intros [g [H1 H2]]; exists g; split; auto.
  - now apply zrange_In.
  - now apply zrange_In.
Qed.

Lemma gdisj_no_common g h x : gdisj g h -> in_grp x g -> in_grp x h -> False.
Proof. unfold gdisj, in_grp. lia. Qed.

Lemma pdisj_NoDup gs : pdisj gs -> NoDup (gnums gs).
Proof.
  induction gs as [|g r IH]; cbn [pdisj gnums flat_map]; intro H; [constructor|].
  destruct H as [H1 H2]. fold (gnums r).
  apply NoDup_app_intro; [apply zrange_NoDup | auto |].
  intros x Hx Hr. apply zrange_In in Hx. apply In_gnums in Hr as [h [Hh Hxh]].
  rewrite Forall_forall in H1. exact (gdisj_no_common g h x (H1 h Hh) Hx Hxh).
Qed.

(* ================================================================ Lancero: what the loops produce *)

Definition names_of (L : list Z) : list string := flat_map (fun x => [err_name x; chan_name x]) L.
Definition geo_code (g : geo) : Z := rc_code (g_row g) (g_col g) (g_rows g) (g_cols g).

Lemma names_of_app a b : names_of (a ++ b) = names_of a ++ names_of b.
Proof. apply flat_map_app. Qed.

Lemma zlen_cons {A} (x : A) l : zlen (x :: l) = zlen l + 1.
Proof. unfold zlen. cbn [length]. lia. Qed.

Lemma rows_loop_spec rows col nrows ncols : forall cnum,
  let r := rows_loop rows col nrows ncols cnum in
  snd r = cnum + zlen rows /\
  map e_num (fst r) = dup (zrange cnum (zlen rows)) /\
  map e_name (fst r) = names_of (zrange cnum (zlen rows)) /\
  map e_rc (fst r) = dup (map (fun row => rc_code row col nrows ncols) rows) /\
  map e_sub (fst r) = flat_map (fun row => [row; 0]) rows.
Proof.
  induction rows as [|row rest IH]; intro cnum; cbv zeta.
  - cbn [rows_loop fst snd map]. unfold zlen; cbn [length]. rewrite zrange_nil by lia. cbn. repeat split; lia.
  - cbn [rows_loop]. specialize (IH (cnum + 1)). cbv zeta in IH.
    destruct (rows_loop rest col nrows ncols (cnum + 1)) as [es cn] eqn:E. cbn [fst snd] in *.
    destruct IH as (I1 & I2 & I3 & I4 & I5).
    rewrite zlen_cons. pose proof (zlen_nonneg rest).
    rewrite (zrange_cons cnum) by lia. replace (zlen rest + 1 - 1) with (zlen rest) by lia.
    cbn [map dup names_of flat_map app e_num e_name e_rc e_sub].
    fold (dup (zrange (cnum + 1) (zlen rest))). fold (names_of (zrange (cnum + 1) (zlen rest))).
    fold (dup (map (fun row0 => rc_code row0 col nrows ncols) rest)).
    rewrite I2, I3, I4, I5. repeat split; try reflexivity. lia.
Qed.

Definition col_geos (cols : list Z) (nrows ncols : Z) : list geo :=
  flat_map (fun col => map (fun row => mkG row col nrows ncols) (zrange 0 nrows)) cols.
Definition col_subs (cols : list Z) (nrows : Z) : list Z :=
  flat_map (fun col => flat_map (fun row => [row; 0]) (zrange 0 nrows)) cols.

Lemma cols_loop_spec cols sepCols nrows ncols : forall cnum tcf es gs c' t',
  cols_loop cols sepCols nrows ncols cnum tcf = (es, gs, c', t') ->
  map e_num es = dup (gnums gs) /\
  map e_name es = names_of (gnums gs) /\
  map e_rc es = dup (map geo_code (col_geos cols nrows ncols)) /\
  map e_sub es = col_subs cols nrows /\
  Forall (fun g => snd g = nrows) gs /\
  length gs = length cols.
Proof.
  induction cols as [|col rest IH]; intros cnum tcf es gs c' t' H.
  - cbn [cols_loop] in H. injection H as <- <- <- <-. cbn. repeat split; constructor.
  - cbn [cols_loop] in H.
    set (cn := if sepCols >? 0 then tcf + sepCols else cnum) in *.
    pose proof (rows_loop_spec (zrange 0 nrows) col nrows ncols cn) as R. cbv zeta in R.
    destruct (rows_loop (zrange 0 nrows) col nrows ncols cn) as [es1 cn1] eqn:E1. cbn [fst snd] in R.
    destruct (cols_loop rest sepCols nrows ncols cn1 cn) as [[[es2 gs2] c2] t2] eqn:E2.
    injection H as <- <- <- <-.
    specialize (IH _ _ _ _ _ _ E2). destruct IH as (I1 & I2 & I3 & I4 & I5 & I6).
    destruct R as (R1 & R2 & R3 & R4 & R5).
    rewrite zrange_length in R2, R3.
    assert (Z0 : zrange cn (Z.max 0 nrows) = zrange cn nrows).
    { destruct (Z.le_gt_cases 0 nrows); [now rewrite Z.max_r by lia|].
      rewrite Z.max_l by lia. now rewrite !zrange_nil by lia. }
    rewrite Z0 in R2, R3.
    rewrite !map_app. cbn [gnums flat_map fst snd col_geos col_subs]. fold (gnums gs2).
    fold (col_geos rest nrows ncols). fold (col_subs rest nrows).
    rewrite dup_app, names_of_app, map_app, dup_app, map_map.
    rewrite R2, R3, R4, R5, I1, I2, I3, I4. cbn [geo_code g_row g_col g_rows g_cols].
    repeat split; try reflexivity.
    + constructor; [reflexivity | exact I5].
    + cbn [length]. now rewrite I6.
Qed.

(* the column a run of columns starts at, and the distance between column starts *)
Definition nf (sepCols cnum tcf : Z) : Z := if sepCols >? 0 then tcf + sepCols else cnum.
Definition colsep (sepCols nrows : Z) : Z := if sepCols >? 0 then sepCols else nrows.

(* consecutive groups, each starting at or after the end of the one before, all inside [lo, hi) *)
Fixpoint gchain (lo : Z) (gs : list (Z * Z)) (hi : Z) : Prop :=
  match gs with
  | [] => lo <= hi
  | g :: r => lo <= fst g /\ 0 <= snd g /\ gchain (fst g + snd g) r hi
  end.

Lemma gchain_le lo gs hi : gchain lo gs hi -> lo <= hi.
Proof.
  revert lo; induction gs as [|g r IH]; cbn [gchain]; intros lo H; [exact H|].
  destruct H as (H1 & H2 & H3). apply IH in H3. lia.
Qed.

Lemma gchain_weaken lo lo' gs hi hi' : lo' <= lo -> hi <= hi' -> gchain lo gs hi -> gchain lo' gs hi'.
Proof.
  revert lo lo'; induction gs as [|g r IH]; cbn [gchain]; intros lo lo' L H G; [lia|].
  destruct G as (G1 & G2 & G3). repeat split; try lia. eapply IH; [| exact H | exact G3]. lia.
Qed.

Lemma gchain_app lo a mid b hi : gchain lo a mid -> gchain mid b hi -> gchain lo (a ++ b) hi.
Proof.
  revert lo; induction a as [|g r IH]; cbn [gchain app]; intros lo Ha Hb.
  - eapply gchain_weaken; [exact Ha | apply Z.le_refl | exact Hb].
  - destruct Ha as (H1 & H2 & H3). repeat split; auto.
Qed.

Lemma gchain_within lo gs hi g : gchain lo gs hi -> In g gs -> 0 <= snd g /\ lo <= fst g /\ fst g + snd g <= hi.
Proof.
  revert lo; induction gs as [|h r IH]; cbn [gchain In]; intros lo G H; [tauto|].
  destruct G as (G1 & G2 & G3). destruct H as [->|H].
  - apply gchain_le in G3. lia.
  - specialize (IH _ G3 H). lia.
Qed.

Lemma gchain_pdisj lo gs hi : gchain lo gs hi -> pdisj gs.
Proof.
  revert lo; induction gs as [|g r IH]; cbn [gchain pdisj]; intros lo G; [exact I|].
  destruct G as (G1 & G2 & G3). split; [|eauto].
  apply Forall_forall. intros h Hh. pose proof (gchain_within _ _ _ _ G3 Hh). unfold gdisj. lia.
Qed.

Lemma cols_loop_chain cols sepCols nrows ncols : forall cnum tcf es gs c' t',
  0 <= nrows -> (sepCols >? 0 = true -> nrows <= sepCols) ->
  cols_loop cols sepCols nrows ncols cnum tcf = (es, gs, c', t') ->
  gchain (nf sepCols cnum tcf) gs (nf sepCols c' t') /\
  nf sepCols c' t' = nf sepCols cnum tcf + zlen cols * colsep sepCols nrows.
Proof.
  induction cols as [|col rest IH]; intros cnum tcf es gs c' t' Hn Hs H.
  - cbn [cols_loop] in H. injection H as <- <- <- <-. cbn [gchain]. unfold zlen; cbn [length]. lia.
  - cbn [cols_loop] in H. fold (nf sepCols cnum tcf) in H.
    set (cn := nf sepCols cnum tcf) in *.
    pose proof (rows_loop_spec (zrange 0 nrows) col nrows ncols cn) as R. cbv zeta in R.
    destruct (rows_loop (zrange 0 nrows) col nrows ncols cn) as [es1 cn1] eqn:E1. cbn [fst snd] in R.
    destruct R as (R1 & _). rewrite zrange_length, Z.max_r in R1 by lia.
    destruct (cols_loop rest sepCols nrows ncols cn1 cn) as [[[es2 gs2] c2] t2] eqn:E2.
    injection H as <- <- <- <-.
    destruct (IH _ _ _ _ _ _ Hn Hs E2) as [I1 I2].
    rewrite zlen_cons. cbn [gchain fst snd].
    assert (N : cn + nrows <= nf sepCols cn1 cn).
    { unfold nf. destruct (sepCols >? 0) eqn:E; [specialize (Hs eq_refl); lia | lia]. }
    assert (N2 : nf sepCols cn1 cn = cn + colsep sepCols nrows).
    { unfold nf, colsep. destruct (sepCols >? 0); lia. }
    split.
    + repeat split; try lia. eapply gchain_weaken; [exact N | apply Z.le_refl | exact I1].
    + rewrite I2, N2. lia.
Qed.

Definition dev_subs (devs : list card) : list Z :=
  flat_map (fun d => col_subs (zrange 0 (c_ncols d)) (c_nrows d)) devs.

Lemma devs_loop_spec devs first sepCards sepCols : forall cnum tcf sd mx es gs sd' mx',
  devs_loop devs first sepCards sepCols cnum tcf sd mx = (es, gs, sd', mx') ->
  map e_num es = dup (gnums gs) /\
  map e_name es = names_of (gnums gs) /\
  map e_rc es = dup (map geo_code (lancero_geos devs)) /\
  map e_sub es = dev_subs devs.
Proof.
  induction devs as [|d rest IH]; intros cnum tcf sd mx es gs sd' mx' H.
  - cbn [devs_loop] in H. injection H as <- <- <- <-. cbn. repeat split.
  - cbn [devs_loop] in H.
    set (cn := if sepCards >? 0 then c_dev d * sepCards + first else cnum) in *.
    set (tc := if sepCards >? 0 then cn - sepCols else tcf) in *.
    destruct (cols_loop (zrange 0 (c_ncols d)) sepCols (c_nrows d) (c_ncols d) cn tc) as [[[es1 gs1] c1] t1] eqn:E1.
    match type of H with context [devs_loop rest first sepCards sepCols c1 t1 ?a ?b] =>
      destruct (devs_loop rest first sepCards sepCols c1 t1 a b) as [[[es2 gs2] sd2] mx2] eqn:E2 end.
    injection H as <- <- <- <-.
    destruct (cols_loop_spec _ _ _ _ _ _ _ _ _ _ E1) as (C1 & C2 & C3 & C4 & _).
    destruct (IH _ _ _ _ _ _ _ _ E2) as (I1 & I2 & I3 & I4).
    rewrite !map_app, gnums_app, dup_app, names_of_app.
    cbn [lancero_geos flat_map dev_subs]. fold (lancero_geos rest). fold (dev_subs rest).
    rewrite map_app, dup_app. change (card_geos d) with (col_geos (zrange 0 (c_ncols d)) (c_nrows d) (c_ncols d)).
    rewrite C1, C2, C3, C4, I1, I2, I3, I4. repeat split.
Qed.

Definition dev_ok (sepCards sepCols : Z) (d : card) : Prop :=
  0 <= c_ncols d /\ 0 <= c_nrows d /\
  (sepCols >? 0 = true -> c_nrows d <= sepCols) /\
  (sepCards >? 0 = true -> colsep sepCols (c_nrows d) * c_ncols d <= sepCards).

Lemma devs_loop_chain devs first sepCards sepCols : sepCards >? 0 = false ->
  forall cnum tcf sd mx es gs sd' mx',
  Forall (dev_ok sepCards sepCols) devs ->
  devs_loop devs first sepCards sepCols cnum tcf sd mx = (es, gs, sd', mx') ->
  exists hi, gchain (nf sepCols cnum tcf) gs hi.
Proof.
  intro S. induction devs as [|d rest IH]; intros cnum tcf sd mx es gs sd' mx' OK H.
  - cbn [devs_loop] in H. injection H as <- <- <- <-. exists (nf sepCols cnum tcf). cbn. lia.
  - cbn [devs_loop] in H. rewrite S in H.
    destruct (cols_loop (zrange 0 (c_ncols d)) sepCols (c_nrows d) (c_ncols d) cnum tcf) as [[[es1 gs1] c1] t1] eqn:E1.
    match type of H with context [devs_loop rest first sepCards sepCols c1 t1 ?a ?b] =>
      destruct (devs_loop rest first sepCards sepCols c1 t1 a b) as [[[es2 gs2] sd2] mx2] eqn:E2 end.
    injection H as <- <- <- <-.
    inversion OK as [|? ? Hd Hr]; subst. destruct Hd as (D1 & D2 & D3 & D4).
    destruct (cols_loop_chain _ _ _ _ _ _ _ _ _ _ D2 D3 E1) as [G1 _].
    destruct (IH _ _ _ _ _ _ _ _ Hr E2) as [hi G2].
    exists hi. eapply gchain_app; eauto.
Qed.

Lemma pdisj_app a b : pdisj a -> pdisj b -> (forall g h, In g a -> In h b -> gdisj g h) -> pdisj (a ++ b).
Proof.
  induction a as [|x a IH]; cbn [pdisj app]; intros Ha Hb H; [exact Hb|].
  destruct Ha as [H1 H2]. split.
  - apply Forall_app. split; [exact H1|]. apply Forall_forall. intros h Hh. apply H; [now left | exact Hh].
  - apply IH; auto. intros g h Hg Hh. apply H; [now right | exact Hh].
Qed.

(* the block of channel numbers reserved for one card when cards are numbered apart *)
Definition win (first sepCards : Z) (d : card) (g : Z * Z) : Prop :=
  0 <= snd g /\ c_dev d * sepCards + first <= fst g /\ fst g + snd g <= c_dev d * sepCards + first + sepCards.

Lemma win_disjoint first sepCards d d' g h :
  0 < sepCards -> c_dev d <> c_dev d' -> win first sepCards d g -> win first sepCards d' h -> gdisj g h.
Proof.
  unfold win, gdisj. intros S N (G1 & G2 & G3) (H1 & H2 & H3).
  destruct (Z.lt_total (c_dev d) (c_dev d')) as [L|[E|L]]; [| contradiction |].
  - assert ((c_dev d + 1) * sepCards <= c_dev d' * sepCards) by (apply Z.mul_le_mono_nonneg_r; lia). lia.
  - assert ((c_dev d' + 1) * sepCards <= c_dev d * sepCards) by (apply Z.mul_le_mono_nonneg_r; lia). lia.
Qed.

Lemma devs_loop_windows devs first sepCards sepCols : sepCards >? 0 = true ->
  forall cnum tcf sd mx es gs sd' mx',
  Forall (dev_ok sepCards sepCols) devs -> NoDup (map c_dev devs) ->
  devs_loop devs first sepCards sepCols cnum tcf sd mx = (es, gs, sd', mx') ->
  pdisj gs /\ forall g, In g gs -> exists d, In d devs /\ win first sepCards d g.
Proof.
  intro S. induction devs as [|d rest IH]; intros cnum tcf sd mx es gs sd' mx' OK ND H.
  - cbn [devs_loop] in H. injection H as <- <- <- <-. split; [exact I | intros g []].
  - cbn [devs_loop] in H. rewrite S in H.
    set (base := c_dev d * sepCards + first) in *.
    destruct (cols_loop (zrange 0 (c_ncols d)) sepCols (c_nrows d) (c_ncols d) base (base - sepCols)) as [[[es1 gs1] c1] t1] eqn:E1.
    match type of H with context [devs_loop rest first sepCards sepCols c1 t1 ?a ?b] =>
      destruct (devs_loop rest first sepCards sepCols c1 t1 a b) as [[[es2 gs2] sd2] mx2] eqn:E2 end.
    injection H as <- <- <- <-.
    inversion OK as [|? ? Hd Hr]; subst. destruct Hd as (D1 & D2 & D3 & D4).
    cbn [map] in ND. inversion ND as [|? ? Nd NDr]; subst.
    destruct (cols_loop_chain _ _ _ _ _ _ _ _ _ _ D2 D3 E1) as [G1 G2].
    assert (B : nf sepCols base (base - sepCols) = base) by (unfold nf; destruct (sepCols >? 0); lia).
    rewrite B in G1, G2. rewrite zrange_length, Z.max_r in G2 by lia.
    specialize (D4 S).
    assert (W1 : forall g, In g gs1 -> win first sepCards d g).
    { intros g Hg. pose proof (gchain_within _ _ _ _ G1 Hg) as (W & X & Y). unfold win. fold base. lia. }
    destruct (IH _ _ _ _ _ _ _ _ Hr NDr E2) as [P2 W2].
    split.
    + apply pdisj_app; [eapply gchain_pdisj; eauto | exact P2 |].
      intros g h Hg Hh. destruct (W2 h Hh) as [d' [Hd' Wh]].
      apply (win_disjoint first sepCards d d'); auto; [lia|].
      intro E. apply Nd. rewrite E. now apply in_map.
    + intros g Hg. apply in_app_iff in Hg as [Hg|Hg].
      * exists d. split; [now left | auto].
      * destruct (W2 g Hg) as [d' [Hd' Wg]]. exists d'. split; [now right | auto].
Qed.

(* ================================================================ Lancero: accepted configurations *)

Lemma existsb_false {A} (f : A -> bool) l : existsb f l = false -> forall x, In x l -> f x = false.
Proof.
  intros H x Hx. destruct (f x) eqn:E; [|reflexivity].
  assert (existsb f l = true) by (apply existsb_exists; eauto). congruence.
Qed.

Lemma lancero_prepare_accept s s' t :
  lancero_prepare s = (s', Some t) ->
  exists es gs sd mx,
    lancero_number s 0 false = (es, gs, sd, mx) /\ t = tables_of es gs sd 2 /\
    s' = mkL (l_active s) (l_first s) (l_sepCards s) (l_sepCols s) sd mx (l_cfgerr s) /\
    0 <= l_sepCards s /\ 0 <= l_sepCols s /\ rows_exceed_sep s = false /\ card_exceeds_sep s = false.
Proof.
  unfold lancero_prepare. intro H.
  destruct (l_sepCards s <? 0) eqn:E1; [discriminate|].
  destruct (l_sepCols s <? 0) eqn:E2; [discriminate|].
  destruct (rows_exceed_sep s) eqn:E3; [discriminate|].
  destruct (card_exceeds_sep s) eqn:E4; [discriminate|].
  destruct (lancero_number s 0 false) as [[[es gs] sd] mx] eqn:E5.
  injection H as <- <-. exists es, gs, sd, mx. repeat split; auto; lia.
Qed.

Lemma lancero_valid_dev_ok s :
  dims_nonneg (l_active s) -> rows_exceed_sep s = false -> card_exceeds_sep s = false ->
  Forall (dev_ok (l_sepCards s) (l_sepCols s)) (l_active s).
Proof.
  unfold dims_nonneg, rows_exceed_sep, card_exceeds_sep. intros D R C.
  rewrite Forall_forall in *. intros d Hd. destruct (D d Hd) as [D1 D2].
  unfold dev_ok. repeat split; auto.
  - intro S. rewrite S in R. cbn [andb] in R. pose proof (existsb_false _ _ R d Hd) as X. cbv beta in X. lia.
  - intro S. rewrite S in C. cbn [andb] in C. pose proof (existsb_false _ _ C d Hd) as X. cbv beta in X.
    unfold colsep. lia.
Qed.

Lemma lancero_groups_pdisj s es gs sd mx sd0 mx0 :
  NoDup (map c_dev (l_active s)) -> dims_nonneg (l_active s) ->
  rows_exceed_sep s = false -> card_exceeds_sep s = false ->
  lancero_number s sd0 mx0 = (es, gs, sd, mx) -> pdisj gs.
Proof.
  intros ND D R C H. pose proof (lancero_valid_dev_ok s D R C) as OK. unfold lancero_number in H.
  destruct (l_sepCards s >? 0) eqn:S.
  - exact (proj1 (devs_loop_windows _ _ _ _ S _ _ _ _ _ _ _ _ OK ND H)).
  - destruct (devs_loop_chain _ _ _ _ S _ _ _ _ _ _ _ _ OK H) as [hi G]. eapply gchain_pdisj; eauto.
Qed.

Lemma pair_znth {B} (d : B) (f g : Z -> B) L i : 0 <= i < zlen L ->
  znth d (flat_map (fun x => [f x; g x]) L) (2 * i) = f (znth 0 L i) /\
  znth d (flat_map (fun x => [f x; g x]) L) (2 * i + 1) = g (znth 0 L i).
Proof.
  revert i; induction L as [|x L IH]; intros i Hi.
  - unfold zlen in Hi; cbn in Hi; lia.
  - rewrite zlen_cons in Hi. cbn [flat_map app].
    destruct (Z.eq_dec i 0) as [->|N]; [split; reflexivity|].
    specialize (IH (i - 1) ltac:(lia)). destruct IH as [I1 I2].
    assert (T : forall (l : list B) a b k, 2 <= k -> znth d (a :: b :: l) k = znth d l (k - 2)).
    { intros l a b k Hk. unfold znth. destruct (k <? 0) eqn:E1; [lia|]. destruct (k - 2 <? 0) eqn:E2; [lia|].
      replace (Z.to_nat k) with (S (S (Z.to_nat (k - 2)))) by lia. reflexivity. }
    assert (U : znth 0 (x :: L) i = znth 0 L (i - 1)).
    { unfold znth. destruct (i <? 0) eqn:E1; [lia|]. destruct (i - 1 <? 0) eqn:E2; [lia|].
      replace (Z.to_nat i) with (S (Z.to_nat (i - 1))) by lia. reflexivity. }
    rewrite !T by lia. rewrite U.
    replace (2 * i - 2) with (2 * (i - 1)) by lia. replace (2 * i + 1 - 2) with (2 * (i - 1) + 1) by lia.
    split; assumption.
Qed.

Lemma In_names_of n L : In n (names_of L) <-> exists x, In x L /\ (n = err_name x \/ n = chan_name x).
Proof.
  unfold names_of. rewrite in_flat_map. split.
  - intros [x [Hx H]]. exists x. split; auto. cbn in H. intuition.
  - intros [x [Hx H]]. exists x. split; auto. cbn. intuition.
Qed.

Lemma names_of_NoDup L : NoDup L -> NoDup (names_of L).
Proof.
  induction L as [|x L IH]; intro ND; [constructor|].
  inversion ND as [|? ? Hx ND']; subst. cbn [names_of flat_map app]. fold (names_of L).
  constructor; [|constructor; [|auto]].
  - cbn [In]. intros [E|H]; [symmetry in E; exact (err_chan_distinct _ _ E)|].
    apply In_names_of in H as [y [Hy [E|E]]].
    + apply err_name_inj in E. subst; auto.
    + exact (err_chan_distinct _ _ E).
  - intro H. apply In_names_of in H as [y [Hy [E|E]]].
    + symmetry in E. exact (err_chan_distinct _ _ E).
    + apply chan_name_inj in E. subst; auto.
Qed.

Lemma names_of_length L : zlen (names_of L) = 2 * zlen L.
Proof.
  unfold zlen. induction L as [|x L IH]; [reflexivity|].
  cbn [names_of flat_map app length]. fold (names_of L). cbn [length] in *. lia.
Qed.

Lemma zlen_map {A B} (f : A -> B) l : zlen (map f l) = zlen l.
Proof. unfold zlen. now rewrite map_length. Qed.

(* everything about an accepted Lancero configuration, in one place *)
Lemma lancero_identity s s' t :
  NoDup (map c_dev (l_active s)) -> dims_nonneg (l_active s) ->
  lancero_prepare s = (s', Some t) ->
  let L := gnums (t_groups t) in
  t_nums t = dup L /\ t_names t = names_of L /\ NoDup L /\ pdisj (t_groups t) /\
  t_rc t = dup (map geo_code (lancero_geos (l_active s))) /\
  zlen L = zlen (lancero_geos (l_active s)) /\
  t_sub t = dev_subs (l_active s) /\ t_cpp t = 2.
Proof.
  intros ND D H. destruct (lancero_prepare_accept _ _ _ H) as (es & gs & sd & mx & N & -> & _ & S1 & S2 & R & C).
  cbn [tables_of t_groups t_nums t_names t_rc t_sub t_cpp]. cbv zeta.
  pose proof (lancero_groups_pdisj _ _ _ _ _ _ _ ND D R C N) as P.
  unfold lancero_number in N. destruct (devs_loop_spec _ _ _ _ _ _ _ _ _ _ _ _ N) as (A1 & A2 & A3 & A4).
  repeat split; auto.
  - now apply pdisj_NoDup.
  - assert (E : zlen (dup (gnums gs)) = zlen (dup (map geo_code (lancero_geos (l_active s))))).
    { rewrite <- A1, <- A3, !zlen_map. reflexivity. }
    rewrite !dup_length, zlen_map in E. lia.
Qed.

(* ================================================================ Lancero: headline statements *)

Lemma lancero_numbering s s' t :
  NoDup (map c_dev (l_active s)) -> dims_nonneg (l_active s) ->
  lancero_prepare s = (s', Some t) ->
  let n := zlen (lancero_geos (l_active s)) in
  zlen (t_nums t) = 2 * n /\ zlen (t_names t) = 2 * n /\
  (forall p q, 0 <= p < 2 * n -> 0 <= q < 2 * n ->
     (znth 0 (t_nums t) p = znth 0 (t_nums t) q <-> p / 2 = q / 2)) /\
  (forall i, 0 <= i < n ->
     znth_s (t_names t) (2 * i) = err_name (znth 0 (t_nums t) (2 * i)) /\
     znth_s (t_names t) (2 * i + 1) = chan_name (znth 0 (t_nums t) (2 * i + 1))) /\
  NoDup (t_names t).
Proof.
  intros ND D H. destruct (lancero_identity _ _ _ ND D H) as (A1 & A2 & A3 & A4 & A5 & A6 & A7 & A8).
  cbv zeta. set (L := gnums (t_groups t)) in *. set (n := zlen (lancero_geos (l_active s))) in *.
  rewrite A1, A2. repeat split.
  - rewrite dup_length. lia.
  - rewrite names_of_length. lia.
  - intro E. rewrite !dup_znth in E by lia.
    apply (NoDup_znth_inj L); auto.
    + split; [apply Z.div_pos; lia | apply Z.div_lt_upper_bound; lia].
    + split; [apply Z.div_pos; lia | apply Z.div_lt_upper_bound; lia].
  - intro E. rewrite !dup_znth by lia. now rewrite E.
  - unfold znth_s, names_of. rewrite (proj1 (pair_znth EmptyString err_name chan_name L i ltac:(lia))).
    rewrite dup_znth by lia. f_equal. f_equal. rewrite Z.mul_comm, Z.div_mul by lia. reflexivity.
  - unfold znth_s, names_of. rewrite (proj2 (pair_znth EmptyString err_name chan_name L i ltac:(lia))).
    rewrite dup_znth by lia. f_equal. f_equal.
    replace (2 * i + 1) with (1 + i * 2) by lia. rewrite Z.div_add by lia. reflexivity.
  - now apply names_of_NoDup.
Qed.

Lemma lancero_groups_cover s s' t :
  NoDup (map c_dev (l_active s)) -> dims_nonneg (l_active s) ->
  lancero_prepare s = (s', Some t) ->
  (forall x, In x (t_nums t) <-> exists g, In g (t_groups t) /\ in_grp x g) /\ pdisj (t_groups t).
Proof.
  intros ND D H. destruct (lancero_identity _ _ _ ND D H) as (A1 & A2 & A3 & A4 & _).
  split; [|exact A4]. intro x. rewrite A1, In_dup. apply In_gnums.
Qed.

Lemma lancero_collisions_rejected s :
  NoDup (map c_dev (l_active s)) -> dims_nonneg (l_active s) ->
  let nums := map e_num (fst (fst (fst (lancero_number s 0 false)))) in
  (exists p q, 0 <= p < zlen nums /\ 0 <= q < zlen nums /\ p / 2 <> q / 2 /\ znth 0 nums p = znth 0 nums q) ->
  snd (lancero_prepare s) = None.
Proof.
  intros ND D nums (p & q & Hp & Hq & N & E).
  destruct (lancero_prepare s) as [s' [t|]] eqn:H; [|reflexivity]. exfalso.
  destruct (lancero_numbering _ _ _ ND D H) as (B1 & _ & B3 & _).
  destruct (lancero_prepare_accept _ _ _ H) as (es & gs & sd & mx & Nm & -> & _).
  subst nums. rewrite Nm in *. cbn [fst tables_of t_nums] in *.
  apply N. apply (proj1 (B3 p q ltac:(lia) ltac:(lia))). exact E.
Qed.

(* geometry *)
Lemma In_lancero_geos g cards : In g (lancero_geos cards) ->
  exists d, In d cards /\ 0 <= g_row g < c_nrows d /\ 0 <= g_col g < c_ncols d /\
            g_rows g = c_nrows d /\ g_cols g = c_ncols d.
Proof.
  unfold lancero_geos, card_geos. intro H. apply in_flat_map in H as [d [Hd H]].
  apply in_flat_map in H as [col [Hc H]]. apply in_map_iff in H as [row [<- Hr]].
  apply zrange_In in Hc, Hr. exists d. cbn. repeat split; auto; lia.
Qed.

Lemma znth_In {A} (d : A) l i : 0 <= i < zlen l -> In (znth d l i) l.
Proof.
  intro H. unfold znth, zlen in *. destruct (i <? 0) eqn:E; [lia|]. apply nth_In. lia.
Qed.

Lemma znth_map {A B} (f : A -> B) (da : A) (db : B) l i : 0 <= i < zlen l -> znth db (map f l) i = f (znth da l i).
Proof.
  intro H. unfold znth, zlen in *. destruct (i <? 0) eqn:E; [lia|].
  rewrite nth_indep with (d' := f da) by (rewrite map_length; lia). apply map_nth.
Qed.

Lemma lancero_codes_decode s s' t :
  NoDup (map c_dev (l_active s)) -> dims_in_field (l_active s) ->
  lancero_prepare s = (s', Some t) ->
  forall p, 0 <= p < 2 * zlen (lancero_geos (l_active s)) ->
    let g := znth geo0 (lancero_geos (l_active s)) (p / 2) in
    let c := znth 0 (t_rc t) p in
    rc_row c = g_row g /\ rc_col c = g_col g /\ rc_rows c = g_rows g /\ rc_cols c = g_cols g.
Proof.
  intros ND F H p Hp.
  assert (D : dims_nonneg (l_active s)).
  { unfold dims_nonneg, dims_in_field in *. rewrite Forall_forall in *. intros d Hd. specialize (F d Hd). lia. }
  destruct (lancero_identity _ _ _ ND D H) as (_ & _ & _ & _ & A5 & _).
  cbv zeta. rewrite A5. rewrite dup_znth by (rewrite zlen_map; lia).
  assert (R : 0 <= p / 2 < zlen (lancero_geos (l_active s))).
  { split; [apply Z.div_pos; lia | apply Z.div_lt_upper_bound; lia]. }
  rewrite (znth_map geo_code geo0 0) by exact R.
  pose proof (znth_In geo0 _ _ R) as I. apply In_lancero_geos in I as (d & Hd & G1 & G2 & G3 & G4).
  unfold dims_in_field in F. rewrite Forall_forall in F. specialize (F d Hd).
  unfold geo_code. apply rc_decode; lia.
Qed.

(* sub-frame facts do not depend on what the object went through before *)
Lemma devs_loop_sd_set devs first sepCards sepCols : forall cnum tcf sd mx es gs sd' mx',
  sd <> 0 -> devs_loop devs first sepCards sepCols cnum tcf sd mx = (es, gs, sd', mx') ->
  sd' = sd /\ mx' = mx || existsb (fun d => negb (c_nrows d =? sd)) devs.
Proof.
  induction devs as [|d rest IH]; intros cnum tcf sd mx es gs sd' mx' NZ H.
  - cbn [devs_loop] in H. injection H as <- <- <- <-. cbn. now rewrite orb_false_r.
  - cbn [devs_loop] in H.
    destruct (sd =? 0) eqn:E0; [lia|].
    match type of H with context [cols_loop ?a ?b ?c ?d ?e ?f] =>
      destruct (cols_loop a b c d e f) as [[[es1 gs1] c1] t1] eqn:E1 end.
    match type of H with context [devs_loop rest first sepCards sepCols c1 t1 ?a ?b] =>
      destruct (devs_loop rest first sepCards sepCols c1 t1 a b) as [[[es2 gs2] sd2] mx2] eqn:E2 end.
    injection H as <- <- <- <-.
    destruct (IH _ _ _ _ _ _ _ _ NZ E2) as [-> ->]. split; [reflexivity|].
    cbn [existsb]. rewrite (Z.eqb_sym (c_nrows d) sd).
    destruct (sd =? c_nrows d); cbn [negb]; destruct mx; reflexivity.
Qed.

Lemma lancero_subframe_facts s s' t :
  lancero_prepare s = (s', Some t) ->
  Forall (fun d => 1 <= c_nrows d) (l_active s) -> l_active s <> [] ->
  t_subdiv t = first_rows (l_active s) /\ l_subdiv s' = first_rows (l_active s) /\
  l_mixed s' = rows_mixed (l_active s).
Proof.
  intros H R NE. destruct (lancero_prepare_accept _ _ _ H) as (es & gs & sd & mx & N & -> & -> & _).
  cbn [tables_of t_subdiv l_subdiv l_mixed]. unfold lancero_number in N.
  destruct (l_active s) as [|d rest] eqn:EA; [congruence|].
  cbn [devs_loop] in N. cbn [Z.eqb] in N.
  match type of N with context [cols_loop ?a ?b ?c ?d ?e ?f] =>
    destruct (cols_loop a b c d e f) as [[[es1 gs1] c1] t1] eqn:E1 end.
  match type of N with context [devs_loop rest ?x ?y ?z c1 t1 ?a ?b] =>
    destruct (devs_loop rest x y z c1 t1 a b) as [[[es2 gs2] sd2] mx2] eqn:E2 end.
  injection N as <- <- <- <-.
  inversion R as [|? ? Rd Rr]; subst.
  assert (NZ : c_nrows d <> 0) by lia.
  destruct (devs_loop_sd_set _ _ _ _ _ _ _ _ _ _ _ _ NZ E2) as [-> ->].
  cbn [first_rows]. repeat split.
  unfold rows_mixed. cbn [existsb first_rows]. rewrite Z.eqb_refl. reflexivity.
Qed.

Lemma lancero_history_independent act first sepCards sepCols e sd1 mx1 sd2 mx2 :
  snd (lancero_prepare (mkL act first sepCards sepCols sd1 mx1 e)) =
  snd (lancero_prepare (mkL act first sepCards sepCols sd2 mx2 e)).
Proof.
  unfold lancero_prepare, rows_exceed_sep, card_exceeds_sep, lancero_number, set_sepCols.
  cbn [l_active l_first l_sepCards l_sepCols l_subdiv l_mixed l_cfgerr].
  repeat match goal with |- context [if ?c then _ else _] => destruct c; try reflexivity end.
  all: try (destruct (devs_loop act first sepCards sepCols first (first - sepCols) 0 false) as [[[es gs] sd] mx];
            reflexivity).
Qed.

(* ================================================================ Configure *)

Lemma zmem_In x l : zmem x l = true <-> In x l.
Proof.
  unfold zmem. rewrite existsb_exists. split.
  - intros [y [Hy E]]. apply Z.eqb_eq in E. now subst.
  - intro H. exists x. split; [exact H | apply Z.eqb_refl].
Qed.

Lemma activate_spec avail : forall req active act ok,
  NoDup active -> activate avail req active = (act, ok) ->
  NoDup act /\ (ok = true -> act = active ++ req /\ forall c, In c req -> In c avail).
Proof.
  induction req as [|c rest IH]; intros active act ok ND H; cbn [activate] in H.
  - injection H as <- <-. split; [exact ND|]. intros _. rewrite app_nil_r. split; [reflexivity | intros c []].
  - destruct (zmem c avail) eqn:E1; cbn [negb] in H.
    2:{ injection H as <- <-. split; [exact ND | discriminate]. }
    destruct (zmem c active) eqn:E2.
    { injection H as <- <-. split; [exact ND | discriminate]. }
    assert (ND' : NoDup (active ++ [c])).
    { apply NoDup_app_intro; [exact ND | repeat constructor; intros [] |].
      intros x Hx [<-|[]]. apply zmem_In in Hx. congruence. }
    destruct (IH _ _ _ ND' H) as [I1 I2]. split; [exact I1|].
    intro OK. destruct (I2 OK) as [-> I3]. rewrite <- app_assoc. split; [reflexivity|].
    intros x [<-|Hx]; [now apply zmem_In | auto].
Qed.

Lemma NoDup_fst_combine {B} (l : list Z) (g : list B) : NoDup l -> NoDup (map fst (combine l g)).
Proof.
  revert g; induction l as [|x l IH]; intros g ND; [constructor|].
  destruct g as [|y g]; [constructor|]. inversion ND as [|? ? Hx ND']; subst.
  cbn [combine map fst]. constructor; [|auto].
  intro H. apply Hx. apply in_map_iff in H as [[a b] [<- H]]. cbn. eapply in_combine_l; eauto.
Qed.

Lemma configure_active_distinct s avail req nsamp first sepCards sepCols geom s' :
  lancero_configure s avail req nsamp first sepCards sepCols geom = (s', true) ->
  NoDup (map c_dev (l_active s')) /\ l_cfgerr s' = false /\
  l_first s' = first /\ l_sepCards s' = sepCards /\ l_sepCols s' = sepCols /\
  (zlen req <= zlen geom -> map c_dev (l_active s') = req).
Proof.
  unfold lancero_configure. destruct ((nsamp >? 16) || (nsamp <? 1)); [discriminate|].
  destruct (activate avail req []) as [act ok] eqn:A. intro H. injection H as <- ->.
  cbn [l_active l_cfgerr l_first l_sepCards l_sepCols negb].
  destruct (activate_spec _ _ _ _ _ (NoDup_nil Z) A) as [ND I]. destruct (I eq_refl) as [-> _]. cbn [app] in *.
  rewrite map_map. cbn [c_dev].
  repeat split; auto.
  - replace (map (fun x : Z * (Z * Z) => fst x) (combine req geom)) with (map fst (combine req geom)) by reflexivity.
    now apply NoDup_fst_combine.
  - intro L. unfold zlen in L. clear - L. revert geom L. induction req as [|x r IH]; intros geom L; [reflexivity|].
    destruct geom as [|y g]; cbn [length] in L; [lia|]. cbn [combine map fst]. f_equal. apply IH. lia.
Qed.

(* ================================================================ the code before the fix *)

Definition old_s1 : lsrc :=
  fst (lancero_prepare_old (fst (lancero_configure lsrc0 [0] [0] 4 1 0 0 [(2, 4)]))).
Definition old_s2 : lsrc := fst (lancero_configure old_s1 [0] [0] 4 1 0 0 [(2, 6)]).

Lemma old_code_keeps_stale_subframe_facts :
  exists t, snd (lancero_prepare_old old_s2) = Some t /\
            t_subdiv t = 4 /\ first_rows (l_active old_s2) = 6 /\
            l_mixed (fst (lancero_prepare_old old_s2)) = true /\ rows_mixed (l_active old_s2) = false.
Proof. eexists. vm_compute. repeat split. Qed.

(* ================================================================ Abaco *)

Lemma overlap_scan_false gs : forall known,
  overlap_scan gs known = false <->
  (NoDup (gnums gs) /\ forall x, In x (gnums gs) -> ~ In x known).
Proof.
  induction gs as [|[f n] rest IH]; intro known; cbn [overlap_scan gnums flat_map fst snd].
  - split; [intros _; split; [constructor | intros x []] | reflexivity].
  - fold (gnums rest).
    destruct (existsb (fun c => zmem c known) (zrange f n)) eqn:E.
    + split; [discriminate|]. intros [_ H]. apply existsb_exists in E as [c [Hc Hk]].
      apply zmem_In in Hk. exfalso. apply (H c); [apply in_app_iff; now left | exact Hk].
    + rewrite IH. pose proof (existsb_false _ _ E) as E'. split.
      * intros [ND H]. split.
        -- apply NoDup_app_intro; [apply zrange_NoDup | exact ND |].
           intros x Hx Hr. apply (H x Hr). apply in_app_iff. now left.
        -- intros x Hx. apply in_app_iff in Hx as [Hx|Hx].
           ++ intro K. specialize (E' x Hx). cbv beta in E'. apply zmem_In in K. congruence.
           ++ intro K. apply (H x Hx). apply in_app_iff. now right.
      * intros [ND H]. apply NoDup_app_inv in ND as (N1 & N2 & N3). split; [exact N2|].
        intros x Hx K. apply in_app_iff in K as [K|K].
        -- exact (N3 x K Hx).
        -- apply (H x); [apply in_app_iff; now right | exact K].
Qed.

Lemma NoDup_gnums_pdisj gs : NoDup (gnums gs) -> pdisj gs.
Proof.
  induction gs as [|g r IH]; cbn [gnums flat_map pdisj]; intro ND; [exact I|]. fold (gnums r) in ND.
  apply NoDup_app_inv in ND as (N1 & N2 & N3). split; [|auto].
  apply Forall_forall. intros h Hh. unfold gdisj.
  destruct (Z_le_gt_dec (snd g) 0) as [?|Pg]; [now left|].
  destruct (Z_le_gt_dec (snd h) 0) as [?|Ph]; [right; now left|].
  destruct (Z_le_gt_dec (fst g + snd g) (fst h)) as [?|A]; [right; right; now left|].
  destruct (Z_le_gt_dec (fst h + snd h) (fst g)) as [?|B]; [right; right; now right|].
  exfalso. apply (N3 (Z.max (fst g) (fst h))).
  - apply zrange_In. lia.
  - apply In_gnums. exists h. split; [exact Hh | unfold in_grp; lia].
Qed.

Lemma ginsert_perm g l : Permutation (ginsert g l) (g :: l).
Proof.
  induction l as [|h t IH]; cbn [ginsert]; [reflexivity|].
  destruct (fst g <=? fst h); [reflexivity|]. rewrite IH. apply perm_swap.
Qed.
Lemma gsort_perm l : Permutation (gsort l) l.
Proof.
  induction l as [|g l IH]; cbn [gsort fold_right]; [constructor|].
  fold (gsort l). rewrite ginsert_perm. now constructor.
Qed.

Fixpoint gsorted (l : list gidx) : Prop :=
  match l with
  | g :: ((h :: _) as r) => fst g <= fst h /\ gsorted r
  | _ => True
  end.

Lemma ginsert_sorted g l : gsorted l -> gsorted (ginsert g l).
Proof.
  induction l as [|h t IH]; intro S; cbn [ginsert]; [exact I|].
  destruct (fst g <=? fst h) eqn:E.
  - cbn [gsorted]. split; [lia | exact S].
  - destruct t as [|k t'].
    + cbn [ginsert gsorted]. split; [lia | exact I].
    + cbn [gsorted] in S. destruct S as [S1 S2]. specialize (IH S2).
      cbn [ginsert] in *. destruct (fst g <=? fst k) eqn:E2; cbn [gsorted] in *; repeat split; try lia; tauto.
Qed.
Lemma gsort_sorted l : gsorted (gsort l).
Proof. induction l as [|g l IH]; cbn [gsort fold_right]; [exact I | now apply ginsert_sorted]. Qed.

Lemma gnums_perm a b : Permutation a b -> Permutation (gnums a) (gnums b).
Proof. intro P. unfold gnums. now apply Permutation_flat_map. Qed.

Lemma abaco_rows_nums rows col ncol g :
  map e_num (abaco_rows rows col ncol g) = map (fun row => row + fst g) rows /\
  map e_name (abaco_rows rows col ncol g) = map (fun row => chan_name (row + fst g)) rows.
Proof. unfold abaco_rows. rewrite !map_map. cbn [e_num e_name]. split; reflexivity. Qed.

Lemma zrange_shift a n : map (fun row => row + a) (zrange 0 n) = zrange a n.
Proof.
  rewrite <- (map_id (zrange a n)). apply map_zrange_ext. intros k Hk. lia.
Qed.

Lemma abaco_cols_spec gs : forall col ncol,
  map e_num (abaco_cols gs col ncol) = gnums gs /\
  map e_name (abaco_cols gs col ncol) = map chan_name (gnums gs) /\
  map e_sub (abaco_cols gs col ncol) = map (fun _ => 0) (gnums gs).
Proof.
  induction gs as [|g r IH]; intros col ncol; cbn [abaco_cols gnums flat_map]; [repeat split|].
  fold (gnums r). rewrite !map_app. destruct (IH (col + 1) ncol) as (I1 & I2 & I3). rewrite I1, I2, I3.
  unfold abaco_rows. rewrite !map_map. cbn [e_num e_name e_sub].
  rewrite <- (zrange_shift (fst g) (snd g)). rewrite !map_map. repeat split.
Qed.

Lemma chan_names_NoDup l : NoDup l -> NoDup (map chan_name l).
Proof.
  induction l as [|x l IH]; intro ND; [constructor|]. inversion ND as [|? ? Hx ND']; subst.
  cbn [map]. constructor; [|auto]. intro H. apply in_map_iff in H as [y [E Hy]].
  apply chan_name_inj in E. subst. auto.
Qed.

Lemma abaco_accept_iff pk :
  abaco_sample pk <> None <-> NoDup (gnums (group_keys pk [])).
Proof.
  unfold abaco_sample. destruct (overlap_scan (group_keys pk []) []) eqn:E.
  - split; [congruence|]. intro ND. exfalso.
    assert (overlap_scan (group_keys pk []) [] = false) by (apply overlap_scan_false; split; [exact ND | intros x _ []]).
    congruence.
  - apply overlap_scan_false in E as [ND _]. split; [intros _; exact ND | discriminate].
Qed.

Lemma abaco_identity pk sorted nchan :
  abaco_sample pk = Some (sorted, nchan) ->
  let t := abaco_prepare sorted in
  Permutation sorted (group_keys pk []) /\ gsorted sorted /\
  t_groups t = sorted /\ t_nums t = gnums sorted /\ NoDup (t_nums t) /\
  t_names t = map chan_name (t_nums t) /\ NoDup (t_names t) /\ pdisj sorted /\
  (forall x, In x (t_nums t) <-> exists g, In g (t_groups t) /\ in_grp x g).
Proof.
  unfold abaco_sample. destruct (overlap_scan (group_keys pk []) []) eqn:E; [discriminate|].
  intro H. injection H as <- <-. apply overlap_scan_false in E as [ND _]. cbv zeta.
  unfold abaco_prepare. cbn [tables_of t_groups t_nums t_names].
  destruct (abaco_cols_spec (gsort (group_keys pk [])) 0 (zlen (gsort (group_keys pk [])))) as (A1 & A2 & A3).
  rewrite A1, A2.
  assert (ND' : NoDup (gnums (gsort (group_keys pk [])))).
  { eapply Permutation_NoDup; [|exact ND]. symmetry. apply gnums_perm, gsort_perm. }
  repeat split; auto.
  - apply gsort_perm.
  - apply gsort_sorted.
  - now apply chan_names_NoDup.
  - now apply NoDup_gnums_pdisj.
  - apply In_gnums.
  - apply In_gnums.
Qed.

(* ================================================================ file names *)

Lemma sapp_assoc a b c : String.append (String.append a b) c = String.append a (String.append b c).
Proof. induction a as [|x a IH]; cbn; [reflexivity | now rewrite IH]. Qed.

Lemma no_percent_app a b : no_percent a -> no_percent b -> no_percent (String.append a b).
Proof. induction a as [|x a IH]; cbn; [auto | intros [H1 H2] Hb; split; auto]. Qed.

Lemma go_sprintf_literal lit : no_percent lit -> forall rest args,
  go_sprintf (String.append lit rest) args = option_map (String.append lit) (go_sprintf rest args).
Proof.
  induction lit as [|c lit IH]; cbn [no_percent String.append]; intros H rest args.
  - destruct (go_sprintf rest args); reflexivity.
  - destruct H as [H1 H2]. cbn [go_sprintf].
    destruct (Ascii.eqb c "%") eqn:E; [apply Ascii.eqb_eq in E; contradiction|].
    rewrite IH by exact H2. destruct (go_sprintf rest args); reflexivity.
Qed.

Lemma go_sprintf_tail a b :
  go_sprintf "%s.%s" [a; b] = Some (String.append a (String "." b)).
Proof.
  cbn. f_equal. f_equal. f_equal. induction b as [|c b IH]; cbn; [reflexivity | now rewrite IH].
Qed.

Lemma nilempty_uint_no_percent d : no_percent (NilEmpty.string_of_uint d).
Proof. induction d; cbn; repeat split; auto; discriminate. Qed.

Lemma dec_no_percent z : no_percent (dec z).
Proof.
  unfold dec, NilZero.string_of_int, NilZero.string_of_uint.
  destruct (Z.to_int z) as [d|d]; destruct d; cbn; repeat split; try discriminate; apply nilempty_uint_no_percent.
Qed.

Lemma pad4_no_percent i : no_percent (pad4 i).
Proof.
  unfold pad4. repeat match goal with |- context [if ?c then _ else _] => destruct c end;
    try apply dec_no_percent; apply no_percent_app; try apply dec_no_percent; cbn; repeat split; discriminate.
Qed.

(* the constant part of every file name of one START *)
Definition file_prefix (base today : string) (i : Z) : string :=
  String.append (join (join base today) (pad4 i))
    (String "/" (String.append today (String.append "_run" (String.append (pad4 i) "_")))).

Lemma make_directory_split base today i :
  make_directory base today i = String.append (file_prefix base today i) "%s.%s".
Proof.
  unfold make_directory, file_prefix, join.
  repeat (rewrite !sapp_assoc; cbn [String.append]). reflexivity.
Qed.

Lemma file_prefix_no_percent base today i :
  no_percent base -> no_percent today -> no_percent (file_prefix base today i).
Proof.
  intros Hb Ht. unfold file_prefix, join.
  repeat first [apply no_percent_app | apply pad4_no_percent | assumption
               | (cbn [no_percent String.append]; split; [discriminate|])];
  cbn; repeat split; try discriminate.
Qed.

Lemma filename_value base today i name ext :
  no_percent base -> no_percent today ->
  filename (make_directory base today i) name ext =
  Some (String.append (file_prefix base today i) (String.append name (String "." ext))).
Proof.
  intros Hb Ht. unfold filename. rewrite make_directory_split.
  rewrite go_sprintf_literal by (now apply file_prefix_no_percent).
  rewrite go_sprintf_tail. reflexivity.
Qed.

Fixpoint last_char (s : string) : ascii :=
  match s with
  | EmptyString => "000"%char
  | String c EmptyString => c
  | String _ r => last_char r
  end.

Lemma last_char_app a c r : last_char (String.append a (String c r)) = last_char (String c r).
Proof.
  induction a as [|x a IH]; [reflexivity|]. cbn [String.append].
  change (last_char (String x (String.append a (String c r)))) with
    (match String.append a (String c r) with EmptyString => x | _ => last_char (String.append a (String c r)) end).
  destruct (String.append a (String c r)) eqn:E; [destruct a; discriminate | exact IH].
Qed.

Lemma append_inj_r s : forall a b, String.append a s = String.append b s -> a = b.
Proof.
  assert (L : forall a, String.length (String.append a s) = (String.length a + String.length s)%nat).
  { induction a; cbn; [reflexivity | now rewrite IHa]. }
  induction a as [|x a IH]; intros b H.
  - destruct b as [|y b]; [reflexivity|]. apply (f_equal String.length) in H. rewrite !L in H. cbn in H. lia.
  - destruct b as [|y b].
    + apply (f_equal String.length) in H. rewrite !L in H. cbn in H. lia.
    + cbn in H. injection H as -> H. f_equal. auto.
Qed.

Lemma filenames_injective_lemma base today i n1 e1 n2 e2 f :
  no_percent base -> no_percent today -> In e1 exts -> In e2 exts ->
  filename (make_directory base today i) n1 e1 = Some f ->
  filename (make_directory base today i) n2 e2 = Some f ->
  n1 = n2 /\ e1 = e2.
Proof.
  intros Hb Ht H1 H2 F1 F2. rewrite filename_value in F1, F2 by assumption.
  rewrite <- F2 in F1. injection F1 as F. apply append_inj_l in F.
  assert (E : e1 = e2).
  { apply (f_equal last_char) in F.
    unfold exts in H1, H2. cbn [In] in H1, H2.
    destruct H1 as [<-|[<-|[<-|[]]]]; destruct H2 as [<-|[<-|[<-|[]]]]; try reflexivity;
      rewrite !last_char_app in F; cbn in F; discriminate. }
  subst e2. split; [|reflexivity]. now apply append_inj_r in F.
Qed.

Lemma NoDup_znth_inj_gen {A} (d : A) (l : list A) i j :
  NoDup l -> 0 <= i < zlen l -> 0 <= j < zlen l -> znth d l i = znth d l j -> i = j.
Proof.
  intros ND Hi Hj E. unfold znth in E. unfold zlen in *.
  destruct (i <? 0) eqn:E1; [lia|]. destruct (j <? 0) eqn:E2; [lia|].
  assert (Z.to_nat i = Z.to_nat j) by (apply (proj1 (NoDup_nth l d) ND); try lia; exact E). lia.
Qed.

Lemma distinct_streams_distinct_files names base today i e1 e2 p q f1 f2 :
  NoDup names -> no_percent base -> no_percent today ->
  0 <= p < zlen names -> 0 <= q < zlen names -> p <> q -> In e1 exts -> In e2 exts ->
  filename (make_directory base today i) (znth_s names p) e1 = Some f1 ->
  filename (make_directory base today i) (znth_s names q) e2 = Some f2 ->
  f1 <> f2.
Proof.
  intros ND Hb Ht Hp Hq N E1 E2 F1 F2 E. subst f2.
  destruct (filenames_injective_lemma _ _ _ _ _ _ _ _ Hb Ht E1 E2 F1 F2) as [En _].
  apply N. unfold znth_s in En. eapply NoDup_znth_inj_gen; eauto.
Qed.

(* ================================================================ sources with one stream per channel *)

Lemma simple_tables_identity n :
  NoDup (zrange 0 n) /\ NoDup (map chan_name (zrange 0 n)) /\
  (forall x, In x (zrange 0 n) <-> exists g, In g [(0, n)] /\ in_grp x g) /\ pdisj [(0, n)].
Proof.
  repeat split.
  - apply zrange_NoDup.
  - apply chan_names_NoDup, zrange_NoDup.
  - intro H. apply zrange_In in H. exists (0, n). split; [now left | unfold in_grp; cbn; lia].
  - intros [g [[<-|[]] H]]. apply zrange_In. unfold in_grp in H. cbn in H. lia.
  - constructor.
Qed.

Lemma roach_tables n :
  t_nums (roach_prepare n) = zrange 0 n /\ t_names (roach_prepare n) = map chan_name (zrange 0 n) /\
  t_groups (roach_prepare n) = [(0, n)] /\
  t_rc (roach_prepare n) = map (fun row => rc_code row 0 n 1) (zrange 0 n).
Proof.
  unfold roach_prepare. cbn [tables_of t_nums t_names t_groups t_rc]. rewrite !map_map. cbn [e_num e_name e_rc].
  repeat split. now rewrite map_id.
Qed.

Lemma default_tables n rc sd :
  t_nums (default_prepare n rc sd) = zrange 0 n /\ t_names (default_prepare n rc sd) = map chan_name (zrange 0 n) /\
  t_groups (default_prepare n rc sd) = [(0, n)].
Proof. repeat split. Qed.

Lemma single_group_sources n rc sd t :
  In t [roach_prepare n; default_prepare n rc sd] ->
  t_nums t = zrange 0 n /\ t_names t = map chan_name (t_nums t) /\ t_groups t = [(0, n)] /\
  NoDup (t_nums t) /\ NoDup (t_names t) /\
  (forall x, In x (t_nums t) <-> exists g, In g (t_groups t) /\ in_grp x g) /\ pdisj (t_groups t).
Proof.
  destruct (simple_tables_identity n) as (S1 & S2 & S3 & S4).
  intros [<-|[<-|[]]].
  - destruct (roach_tables n) as (R1 & R2 & R3 & _). rewrite R1, R2, R3. repeat split; auto; apply S3.
  - destruct (default_tables n rc sd) as (R1 & R2 & R3). rewrite R1, R2, R3. repeat split; auto; apply S3.
Qed.

(* ================================================================ examples: the hypotheses are satisfiable *)

(* two cards (device numbers 3 and 0), 3x5 and 2x5, both separations in force, exactly large enough *)
Definition ex_s : lsrc := fst (lancero_configure lsrc0 [0;1;2;3] [3;0] 1 0 24 8 [(3,5);(2,5)]).
Example ex_accepted :
  NoDup (map c_dev (l_active ex_s)) /\ dims_in_field (l_active ex_s) /\ dims_nonneg (l_active ex_s) /\
  Forall (fun d => 1 <= c_nrows d) (l_active ex_s) /\ l_active ex_s <> [] /\
  exists t, snd (lancero_prepare ex_s) = Some t /\ zlen (t_nums t) = 50 /\
            t_groups t = [(72,5);(80,5);(88,5);(0,5);(8,5)].
Proof.
  assert (A : l_active ex_s = [mkCard 3 3 5; mkCard 0 2 5]) by reflexivity.
  rewrite A. split; [|split; [|split; [|split; [|split]]]].
  - cbn. repeat constructor; cbn; intuition discriminate.
  - repeat constructor; cbn; lia.
  - repeat constructor; cbn; lia.
  - repeat constructor; cbn; lia.
  - discriminate.
  - eexists. vm_compute. repeat split.
Qed.

(* card separation one too small: the raw numbering collides, and the configuration is refused *)
Definition ex_bad : lsrc := fst (lancero_configure lsrc0 [0;1] [0;1] 1 1 14 0 [(3,5);(2,5)]).
Example ex_collision :
  NoDup (map c_dev (l_active ex_bad)) /\ dims_nonneg (l_active ex_bad) /\
  (let nums := map e_num (fst (fst (fst (lancero_number ex_bad 0 false)))) in
   0 <= 28 < zlen nums /\ 0 <= 30 < zlen nums /\ 28 / 2 <> 30 / 2 /\ znth 0 nums 28 = znth 0 nums 30) /\
  snd (lancero_prepare ex_bad) = None.
Proof.
  assert (A : l_active ex_bad = [mkCard 0 3 5; mkCard 1 2 5]) by reflexivity.
  rewrite A. split; [|split; [|split]].
  - cbn. repeat constructor; cbn; intuition discriminate.
  - repeat constructor; cbn; lia.
  - vm_compute. repeat split; congruence.
  - reflexivity.
Qed.

Example ex_abaco :
  abaco_sample [(4, 4); (4, 0); (4, 4)] = Some ([(0, 4); (4, 4)], 8) /\
  abaco_sample [(4, 0); (4, 3)] = None.
Proof. split; reflexivity. Qed.

Example ex_filename :
  no_percent "/data" /\ no_percent "20260930" /\
  filename (make_directory "/data" "20260930" 7) "err12" "ljh" = Some "/data/20260930/0007/20260930_run0007_err12.ljh"%string.
Proof. repeat split; try discriminate. Qed.

(* ================================================================ what the observable checker's "true" means *)

Lemma znodupb_NoDup l : znodupb l = true <-> NoDup l.
Proof.
  induction l as [|x r IH]; cbn [znodupb]; [split; [constructor | reflexivity]|].
  rewrite andb_true_iff, negb_true_iff, IH. split.
  - intros [H1 H2]. constructor; [|exact H2]. intro K. apply zmem_In in K. congruence.
  - intro H. inversion H as [|? ? Hx Hr]; subst. split; [|exact Hr].
    destruct (zmem x r) eqn:E; [apply zmem_In in E; contradiction | reflexivity].
Qed.

Lemma evens_dup {A} (L : list A) : evens (dup L) = L.
Proof. induction L as [|x L IH]; [reflexivity|]. cbn [dup flat_map app evens]. fold (dup L). now rewrite IH. Qed.

Lemma groups_disjointb_pdisj gs : groups_disjointb gs = true <-> pdisj gs.
Proof.
  induction gs as [|g r IH]; cbn [groups_disjointb pdisj]; [split; auto|].
  rewrite andb_true_iff, IH, forallb_forall, Forall_forall. unfold gdisj.
  split; intros [H1 H2]; split; auto; intros h Hh; specialize (H1 h Hh); lia.
Qed.

Lemma group_count_pos x gs : 0 < group_count x gs -> exists g, In g gs /\ in_grp x g.
Proof.
  induction gs as [|g r IH]; cbn [group_count fold_right]; [lia|]. fold (group_count x r).
  destruct (in_group x g) eqn:E.
  - intros _. exists g. split; [now left|]. unfold in_group in E. unfold in_grp. lia.
  - intro H. destruct (IH H) as [h [Hh Hx]]. exists h. split; [now right | exact Hx].
Qed.

Lemma groups_coverb_sound nums gs :
  groups_coverb nums gs = true ->
  (forall x, In x nums <-> exists g, In g gs /\ in_grp x g) /\ pdisj gs.
Proof.
  unfold groups_coverb. rewrite !andb_true_iff. intros [[H1 H2] H3].
  split; [|now apply groups_disjointb_pdisj].
  rewrite forallb_forall in H1, H2. intro x. split.
  - intro Hx. apply group_count_pos. specialize (H1 x Hx). lia.
  - intros [g [Hg Hx]]. specialize (H2 g Hg). rewrite forallb_forall in H2.
    apply zmem_In. apply H2. apply zrange_In. exact Hx.
Qed.

Lemma rc_matches_true code g :
  rc_matches code g = true <->
  rc_row code = g_row g /\ rc_col code = g_col g /\ rc_rows code = g_rows g /\ rc_cols code = g_cols g.
Proof. unfold rc_matches. rewrite !andb_true_iff, !Z.eqb_eq. tauto. Qed.

Lemma znth_cons2 {A} (d : A) a b l k : 2 <= k -> znth d (a :: b :: l) k = znth d l (k - 2).
Proof.
  intro Hk. unfold znth. destruct (k <? 0) eqn:E1; [lia|]. destruct (k - 2 <? 0) eqn:E2; [lia|].
  replace (Z.to_nat k) with (S (S (Z.to_nat (k - 2)))) by lia. reflexivity.
Qed.
Lemma znth_cons1 {A} (d : A) a l k : 1 <= k -> znth d (a :: l) k = znth d l (k - 1).
Proof.
  intro Hk. unfold znth. destruct (k <? 0) eqn:E1; [lia|]. destruct (k - 1 <? 0) eqn:E2; [lia|].
  replace (Z.to_nat k) with (S (Z.to_nat (k - 1))) by lia. reflexivity.
Qed.

Lemma lancero_pairsb_sound gs : forall names nums rcs subs,
  lancero_pairsb gs names nums rcs subs = true ->
  nums = dup (evens nums) /\ names = names_of (evens nums) /\ zlen (evens nums) = zlen gs /\
  forall p, 0 <= p < 2 * zlen gs -> rc_matches (znth 0 rcs p) (znth geo0 gs (p / 2)) = true.
Proof.
  induction gs as [|g gs IH]; intros names nums rcs subs H.
  - destruct names, nums, rcs, subs; try discriminate. cbn. repeat split. intros p Hp. unfold zlen in Hp; cbn in Hp; lia.
  - destruct names as [|n1 [|n2 names]]; try discriminate; destruct nums as [|x1 [|x2 nums]]; try discriminate;
      destruct rcs as [|r1 [|r2 rcs]]; try discriminate; destruct subs as [|s1 [|s2 subs]]; try discriminate.
    cbn [lancero_pairsb] in H. rewrite !andb_true_iff in H.
    destruct H as [[[[[H1 H2] H3] H4] H5] H6].
    apply Z.eqb_eq in H1. apply String.eqb_eq in H2, H3. subst x2 n1 n2.
    destruct (IH _ _ _ _ H6) as (I1 & I2 & I3 & I4).
    cbn [evens dup names_of flat_map app]. fold (dup (evens nums)). fold (names_of (evens nums)).
    rewrite <- I1, <- I2. rewrite !zlen_cons. repeat split; try lia.
    intros p Hp.
    destruct (Z.eq_dec p 0) as [->|N0]; [exact H4|].
    destruct (Z.eq_dec p 1) as [->|N1]; [exact H5|].
    rewrite znth_cons2 by lia.
    replace (p / 2) with ((p - 2) / 2 + 1).
    2:{ replace p with ((p - 2) + 1 * 2) at 2 by lia. rewrite Z.div_add by lia. reflexivity. }
    assert (0 <= (p - 2) / 2) by (apply Z.div_pos; lia).
    rewrite znth_cons1 by lia. replace ((p - 2) / 2 + 1 - 1) with ((p - 2) / 2) by lia.
    apply I4. lia.
Qed.

(* A Lancero table accepted by the checker has the property, whatever produced it. *)
Lemma check_lancero_sound cards t mixed order :
  check_lancero cards t mixed order = true ->
  let n := zlen (lancero_geos cards) in
  NoDup (map c_dev cards) /\
  zlen (t_nums t) = 2 * n /\
  (forall p q, 0 <= p < 2 * n -> 0 <= q < 2 * n ->
     (znth 0 (t_nums t) p = znth 0 (t_nums t) q <-> p / 2 = q / 2)) /\
  NoDup (t_names t) /\
  (forall x, In x (t_nums t) <-> exists g, In g (t_groups t) /\ in_grp x g) /\ pdisj (t_groups t) /\
  (forall p, 0 <= p < 2 * n ->
     let g := znth geo0 (lancero_geos cards) (p / 2) in let c := znth 0 (t_rc t) p in
     rc_row c = g_row g /\ rc_col c = g_col g /\ rc_rows c = g_rows g /\ rc_cols c = g_cols g).
Proof.
  unfold check_lancero. rewrite !andb_true_iff. intros [[[[[[H0 H1] H2] H3] H4] H5] H6]. cbv zeta.
  destruct (lancero_pairsb_sound _ _ _ _ _ H1) as (A1 & A2 & A3 & A4).
  apply znodupb_NoDup in H2. destruct (groups_coverb_sound _ _ H3) as [C1 C2].
  set (L := evens (t_nums t)) in *. set (n := zlen (lancero_geos cards)) in *.
  split; [now apply znodupb_NoDup|].
  split; [rewrite A1, dup_length; lia|].
  split.
  { intros p q Hp Hq. rewrite A1. rewrite !dup_znth by lia. split.
    - intro E. apply (NoDup_znth_inj L); auto.
      + split; [apply Z.div_pos; lia | apply Z.div_lt_upper_bound; lia].
      + split; [apply Z.div_pos; lia | apply Z.div_lt_upper_bound; lia].
    - intros ->. reflexivity. }
  split; [rewrite A2; now apply names_of_NoDup|].
  split; [exact C1|]. split; [exact C2|].
  intros p Hp. apply rc_matches_true. apply A4. exact Hp.
Qed.
Lemma singlesb_sound gs : forall names nums rcs subs,
  singlesb gs names nums rcs subs = true ->
  names = map chan_name nums /\ zlen nums = zlen gs /\
  forall p, 0 <= p < zlen gs -> rc_matches (znth 0 rcs p) (znth geo0 gs p) = true.
Proof.
  induction gs as [|g gs IH]; intros names nums rcs subs H.
  - destruct names, nums, rcs, subs; try discriminate. cbn. repeat split. intros p Hp. unfold zlen in Hp; cbn in Hp; lia.
  - destruct names as [|n1 names]; try discriminate; destruct nums as [|x1 nums]; try discriminate;
      destruct rcs as [|r1 rcs]; try discriminate; destruct subs as [|s1 subs]; try discriminate.
    cbn [singlesb] in H. rewrite !andb_true_iff in H. destruct H as [[H1 H2] H3].
    apply String.eqb_eq in H1. subst n1. destruct (IH _ _ _ _ H3) as (I1 & I2 & I3).
    cbn [map]. rewrite <- I1, !zlen_cons. repeat split; try lia.
    intros p Hp. destruct (Z.eq_dec p 0) as [->|N0]; [exact H2|].
    rewrite !znth_cons1 by lia. apply I3. lia.
Qed.

Lemma snodupb_NoDup l : snodupb l = true <-> NoDup l.
Proof.
  induction l as [|x r IH]; cbn [snodupb]; [split; [constructor | reflexivity]|].
  rewrite andb_true_iff, negb_true_iff, IH. split.
  - intros [H1 H2]. constructor; [|exact H2]. intro K.
    assert (existsb (String.eqb x) r = true) by (apply existsb_exists; exists x; split; [exact K | apply String.eqb_refl]).
    congruence.
  - intro H. inversion H as [|? ? Hx Hr]; subst. split; [|exact Hr].
    destruct (existsb (String.eqb x) r) eqn:E; [|reflexivity].
    apply existsb_exists in E as [y [Hy E]]. apply String.eqb_eq in E. subst. contradiction.
Qed.

Lemma check_abaco_sound pk t :
  check_abaco pk t = true ->
  (forall g, In g (t_groups t) <-> In g (announced pk)) /\
  t_nums t = gnums (t_groups t) /\ NoDup (t_nums t) /\
  t_names t = map chan_name (t_nums t) /\ NoDup (t_names t) /\
  (forall x, In x (t_nums t) <-> exists g, In g (t_groups t) /\ in_grp x g) /\ pdisj (t_groups t).
Proof.
  unfold check_abaco. rewrite !andb_true_iff. intros [[[[[[[H1 H2] H3] H4] H5] H6] H7] H8].
  destruct (singlesb_sound _ _ _ _ _ H4) as (A1 & A2 & A3).
  apply zlist_eqb_eq in H5. apply znodupb_NoDup in H6. destruct (groups_coverb_sound _ _ H7) as [C1 C2].
  assert (GM : forall g l, gmem g l = true <-> In g l).
  { intros g l. unfold gmem. rewrite existsb_exists. split.
    - intros [h [Hh E]]. unfold gidx_eqb in E. apply andb_true_iff in E as [E1 E2].
      apply Z.eqb_eq in E1, E2. destruct g, h; cbn in *; subst; auto.
    - intro Hg. exists g. split; auto. unfold gidx_eqb. now rewrite !Z.eqb_refl. }
  rewrite forallb_forall in H1, H2.
  assert (N : t_nums t = gnums (t_groups t)).
  { rewrite H5. clear. induction (t_groups t) as [|g r IH]; [reflexivity|]. cbn [abaco_nums gnums flat_map]. now rewrite IH. }
  split; [intro g; split; intro Hg; apply GM; [now apply H1 | now apply H2]|].
  split; [exact N|]. split; [exact H6|]. split; [exact A1|].
  split; [rewrite A1; now apply chan_names_NoDup|]. split; [exact C1 | exact C2].
Qed.

Lemma files_identb_sound t source offs : forall cf i,
  files_identb t source offs i cf = true ->
  forall k, 0 <= k < zlen cf ->
    let f := znth (mkCF EmptyString 0 EmptyString EmptyString EmptyString (status_ident t source 0) None) cf k in
    let id := status_ident t source (i + k) in
    f_dspname f = i_chname id /\ f_dspnum f = i_chnum id /\ ident_eqb (f_hd f) id = true /\
    (has_off offs (i + k) = true -> exists h, f_offhd f = Some h /\ ident_eqb h id = true) /\
    (has_off offs (i + k) = false -> f_offhd f = None).
Proof.
  induction cf as [|f r IH]; intros i H k Hk; [unfold zlen in Hk; cbn in Hk; lia|].
  cbn [files_identb] in H. rewrite !andb_true_iff in H. destruct H as [[[[H1 H2] H3] H4] H5].
  rewrite zlen_cons in Hk. destruct (Z.eq_dec k 0) as [->|N].
  - cbv zeta. replace (i + 0) with i by lia. cbn [znth Z.ltb Z.compare Z.to_nat nth].
    apply String.eqb_eq in H1. apply Z.eqb_eq in H2. repeat split; auto.
    + intros E. destruct (f_offhd f) as [h|]; [exists h; rewrite E in H4; cbn in H4; auto | rewrite E in H4; discriminate].
    + intros E. destruct (f_offhd f) as [h|]; [rewrite E in H4; cbn in H4; discriminate | reflexivity].
  - cbv zeta. rewrite znth_cons1 by lia. replace (i + k) with (i + 1 + (k - 1)) by lia.
    apply (IH (i + 1) H5 (k - 1)). lia.
Qed.

Lemma check_files_sound t source offs cf nfiles :
  check_files t source offs cf nfiles = true ->
  zlen cf = zlen (t_names t) /\
  NoDup (map f_ljh cf ++ map f_ljh3 cf ++ off_names cf) /\
  forall k, 0 <= k < zlen cf ->
    let f := znth (mkCF EmptyString 0 EmptyString EmptyString EmptyString (status_ident t source 0) None) cf k in
    let id := status_ident t source k in
    f_dspname f = i_chname id /\ f_dspnum f = i_chnum id /\ ident_eqb (f_hd f) id = true /\
    (has_off offs k = true -> exists h, f_offhd f = Some h /\ ident_eqb h id = true) /\
    (has_off offs k = false -> f_offhd f = None).
Proof.
  unfold check_files. rewrite !andb_true_iff. intros [[[[H1 H2] H3] H4] H5].
  split; [lia|]. split; [now apply snodupb_NoDup|].
  intros k Hk. pose proof (files_identb_sound _ _ _ _ _ H2 k Hk) as X. cbv zeta in X.
  replace (0 + k) with k in X by lia. cbv zeta. tauto.
Qed.

(* ================================================================ chan2readoutOrder *)

Lemma pairs_range_nat b : forall n r,
  flat_map (fun row => [b + 2 * row; b + 2 * row + 1]) (zrange_nat r n) = zrange_nat (b + 2 * r) (2 * n).
Proof.
  induction n as [|n IH]; intro r; [reflexivity|].
  replace (2 * S n)%nat with (S (S (2 * n))) by lia. cbn [zrange_nat flat_map app].
  rewrite IH. f_equal. f_equal. f_equal. lia.
Qed.

Lemma flat_map_ext_in {A B} (f g : A -> list B) l : (forall x, In x l -> f x = g x) -> flat_map f l = flat_map g l.
Proof.
  induction l as [|x l IH]; intro H; [reflexivity|]. cbn [flat_map].
  rewrite (H x (or_introl eq_refl)), IH; [reflexivity|]. intros y Hy. apply H. now right.
Qed.

Lemma map_flat_map {A B C} (h : B -> C) (f : A -> list B) l : map h (flat_map f l) = flat_map (fun x => map h (f x)) l.
Proof. induction l as [|x l IH]; [reflexivity|]. cbn [flat_map]. now rewrite map_app, IH. Qed.

(* all positions 0 .. ncols*nrows*2-1, grouped by column and row *)
Lemma positions_by_col_row nrows : 0 <= nrows -> forall k a,
  flat_map (fun col => flat_map (fun row => [(col * nrows + row) * 2; (col * nrows + row) * 2 + 1]) (zrange 0 nrows))
           (zrange_nat a k)
  = zrange_nat (a * nrows * 2) (k * Z.to_nat nrows * 2).
Proof.
  intros Hn. induction k as [|k IH]; intro a; [reflexivity|].
  cbn [zrange_nat flat_map]. rewrite IH.
  rewrite (flat_map_ext_in _ (fun row => [a * nrows * 2 + 2 * row; a * nrows * 2 + 2 * row + 1]))
    by (intros row _; f_equal; [lia | f_equal; lia]).
  unfold zrange. rewrite pairs_range_nat.
  replace (S k * Z.to_nat nrows * 2)%nat with (2 * Z.to_nat nrows + k * Z.to_nat nrows * 2)%nat by lia.
  rewrite zrange_nat_app. f_equal; [f_equal; lia|]. f_equal. lia.
Qed.

Lemma chan_order_dev_eq d prev : 0 <= c_ncols d -> 0 <= c_nrows d ->
  chan_order_dev (c_ncols d) (c_nrows d) prev = card_order d prev.
Proof.
  intros Hc Hr. unfold chan_order_dev, card_order.
  set (C := c_ncols d) in *. set (R := c_nrows d) in *.
  assert (E : zrange 0 (C * R * 2) =
              flat_map (fun col => flat_map (fun row => [(col * R + row) * 2; (col * R + row) * 2 + 1]) (zrange 0 R)) (zrange 0 C)).
  { unfold zrange at 3. rewrite positions_by_col_row by lia. unfold zrange. f_equal. nia. }
  rewrite E, map_flat_map. apply flat_map_ext_in. intros col Hcol. rewrite map_flat_map.
  apply flat_map_ext_in. intros row Hrow. apply zrange_In in Hcol, Hrow. cbn [map].
  assert (D0 : ((col * R + row) * 2) / 2 = col * R + row) by (apply Z.div_mul; lia).
  assert (D1 : ((col * R + row) * 2 + 1) / 2 = col * R + row).
  { symmetry. apply Z.div_unique with 1; lia. }
  assert (M0 : ((col * R + row) * 2) mod 2 = 0) by (apply Z.mod_mul; lia).
  assert (M1 : ((col * R + row) * 2 + 1) mod 2 = 1).
  { symmetry. apply Z.mod_unique with (col * R + row); lia. }
  assert (Mr : (col * R + row) mod R = row).
  { symmetry. apply Z.mod_unique with col; lia. }
  assert (Dr : (col * R + row) / R = col).
  { symmetry. apply Z.div_unique with row; lia. }
  rewrite D0, D1, M0, M1, Mr, Dr. f_equal; [lia | f_equal; lia].
Qed.

Lemma chan_order_eq devs : dims_nonneg devs -> forall prev, chan_order devs prev = lancero_order devs prev.
Proof.
  induction devs as [|d r IH]; intros D prev; [reflexivity|].
  inversion D as [|? ? [Hc Hr] D']; subst. cbn [chan_order lancero_order].
  rewrite chan_order_dev_eq by assumption. now rewrite IH.
Qed.

(* ================================================================ the model's Lancero tables pass the checker *)

Lemma flat_map_flat_map {A B C} (f : B -> list C) (g : A -> list B) l :
  flat_map f (flat_map g l) = flat_map (fun x => flat_map f (g x)) l.
Proof. induction l as [|x l IH]; [reflexivity|]. cbn [flat_map]. now rewrite flat_map_app, IH. Qed.

Lemma flat_map_map {A B C} (f : B -> list C) (g : A -> B) l : flat_map f (map g l) = flat_map (fun x => f (g x)) l.
Proof. induction l as [|x l IH]; [reflexivity|]. cbn [map flat_map]. now rewrite IH. Qed.

Lemma dev_subs_geos cards : dev_subs cards = flat_map (fun g => [g_row g; 0]) (lancero_geos cards).
Proof.
  unfold dev_subs, lancero_geos. rewrite flat_map_flat_map. apply flat_map_ext_in. intros d _.
  unfold col_subs, card_geos. rewrite flat_map_flat_map. apply flat_map_ext_in. intros col _.
  rewrite flat_map_map. reflexivity.
Qed.

Definition geo_field (g : geo) : Prop :=
  0 <= g_row g < 65536 /\ 0 <= g_col g < 65536 /\ 0 <= g_rows g < 65536 /\ 0 <= g_cols g < 65536.

Lemma rc_matches_code g : geo_field g -> rc_matches (geo_code g) g = true.
Proof.
  intros (H1 & H2 & H3 & H4). apply rc_matches_true. unfold geo_code. apply rc_decode; assumption.
Qed.

Lemma lancero_pairsb_complete gs : forall L,
  length L = length gs -> Forall geo_field gs ->
  lancero_pairsb gs (names_of L) (dup L) (dup (map geo_code gs)) (flat_map (fun g => [g_row g; 0]) gs) = true.
Proof.
  induction gs as [|g gs IH]; intros L HL F.
  - destruct L; [reflexivity | discriminate].
  - destruct L as [|x L]; [discriminate|]. inversion F as [|? ? Fg Fr]; subst.
    cbn [names_of dup map flat_map app lancero_pairsb].
    fold (names_of L). fold (dup L). fold (dup (map geo_code gs)).
    rewrite Z.eqb_refl, !String.eqb_refl, !rc_matches_code by assumption. cbn [andb].
    apply IH; [cbn in HL; lia | assumption].
Qed.

Lemma lancero_geos_field cards : dims_in_field cards -> Forall geo_field (lancero_geos cards).
Proof.
  intro F. apply Forall_forall. intros g Hg. apply In_lancero_geos in Hg as (d & Hd & G1 & G2 & G3 & G4).
  unfold dims_in_field in F. rewrite Forall_forall in F. specialize (F d Hd). unfold geo_field. lia.
Qed.

Lemma group_count_zero x gs : (forall g, In g gs -> ~ in_grp x g) -> group_count x gs = 0.
Proof.
  induction gs as [|g r IH]; intro H; [reflexivity|]. cbn [group_count fold_right]. fold (group_count x r).
  destruct (in_group x g) eqn:E.
  - exfalso. apply (H g (or_introl eq_refl)). unfold in_group in E. unfold in_grp. lia.
  - apply IH. intros h Hh. apply H. now right.
Qed.

Lemma group_count_one x gs g : pdisj gs -> In g gs -> in_grp x g -> group_count x gs = 1.
Proof.
  induction gs as [|h r IH]; intros P Hg Hx; [destruct Hg|].
  cbn [pdisj] in P. destruct P as [P1 P2]. rewrite Forall_forall in P1.
  cbn [group_count fold_right]. fold (group_count x r).
  destruct Hg as [->|Hg].
  - assert (E : in_group x g = true) by (unfold in_group; unfold in_grp in Hx; lia). rewrite E.
    rewrite group_count_zero; [reflexivity|]. intros k Hk Hxk. exact (gdisj_no_common g k x (P1 k Hk) Hx Hxk).
  - destruct (in_group x h) eqn:E.
    + exfalso. assert (in_grp x h) by (unfold in_group in E; unfold in_grp; lia).
      exact (gdisj_no_common h g x (P1 g Hg) H Hx).
    + eapply IH; eauto.
Qed.

Lemma groups_coverb_complete nums gs :
  (forall x, In x nums <-> exists g, In g gs /\ in_grp x g) -> pdisj gs -> groups_coverb nums gs = true.
Proof.
  intros C P. unfold groups_coverb. rewrite !andb_true_iff. repeat split.
  - apply forallb_forall. intros x Hx. apply C in Hx as [g [Hg Hxg]].
    rewrite (group_count_one x gs g P Hg Hxg). reflexivity.
  - apply forallb_forall. intros g Hg. apply forallb_forall. intros x Hx. apply zmem_In. apply C.
    exists g. split; [exact Hg | now apply zrange_In].
  - now apply groups_disjointb_pdisj.
Qed.

Lemma lancero_model_passes_checker s s' t :
  NoDup (map c_dev (l_active s)) -> dims_in_field (l_active s) ->
  lancero_prepare s = (s', Some t) ->
  check_lancero (l_active s) t (l_mixed s') (chan_order (l_active s') 0) = true.
Proof.
  intros ND F H.
  assert (D : dims_nonneg (l_active s)).
  { unfold dims_nonneg, dims_in_field in *. rewrite Forall_forall in *. intros d Hd. specialize (F d Hd). lia. }
  destruct (lancero_identity _ _ _ ND D H) as (A1 & A2 & A3 & A4 & A5 & A6 & A7 & A8).
  destruct (lancero_groups_cover _ _ _ ND D H) as [C1 C2].
  assert (ACT : l_active s' = l_active s).
  { destruct (lancero_prepare_accept _ _ _ H) as (? & ? & ? & ? & _ & _ & -> & _). reflexivity. }
  unfold check_lancero. rewrite !andb_true_iff. repeat split.
  - now apply znodupb_NoDup.
  - rewrite A1, A2, A5, A7, dev_subs_geos. apply lancero_pairsb_complete.
    + unfold zlen in A6. lia.
    + now apply lancero_geos_field.
  - rewrite A1, evens_dup. now apply znodupb_NoDup.
  - now apply groups_coverb_complete.
  - rewrite A8. reflexivity.
  - destruct (forallb (fun d => 1 <=? c_nrows d) (l_active s)) eqn:E; [|reflexivity].
    destruct (l_active s) as [|d r] eqn:EA.
    + cbn. destruct (lancero_prepare_accept _ _ _ H) as (es & gs & sd & mx & N & -> & -> & _).
      unfold lancero_number in N. rewrite EA in N. cbn in N. injection N as <- <- <- <-. reflexivity.
    + assert (R : Forall (fun d => 1 <= c_nrows d) (d :: r)).
      { apply Forall_forall. intros x Hx. rewrite forallb_forall in E. specialize (E x Hx). lia. }
      rewrite <- EA in R. destruct (lancero_subframe_facts _ _ _ H R ltac:(rewrite EA; discriminate)) as (S1 & S2 & S3).
      rewrite <- EA. rewrite S1, S3, Z.eqb_refl. cbn [andb]. rewrite EA. destruct (rows_mixed (d :: r)); reflexivity.
  - apply zlist_eqb_eq. rewrite ACT. now apply chan_order_eq.
Qed.

(* ================================================================ Abaco: the order in which packets (map keys) are visited is irrelevant *)

Lemma gidx_eqb_eq a b : gidx_eqb a b = true <-> a = b.
Proof.
  unfold gidx_eqb. rewrite andb_true_iff, !Z.eqb_eq. destruct a, b; cbn. split; [intros [-> ->]; reflexivity | intro E; inversion E; auto].
Qed.

Lemma gmem_In g l : existsb (gidx_eqb g) l = true <-> In g l.
Proof.
  rewrite existsb_exists. split.
  - intros [h [Hh E]]. apply gidx_eqb_eq in E. now subst.
  - intro H. exists g. split; [exact H | now apply gidx_eqb_eq].
Qed.

Lemma group_keys_spec pk : forall seen,
  NoDup seen ->
  NoDup (group_keys pk seen) /\
  forall g, In g (group_keys pk seen) <-> In g seen \/ In g (announced pk).
Proof.
  induction pk as [|[n off] rest IH]; intros seen ND; cbn [group_keys announced map].
  - split; [exact ND | intro g; cbn; tauto].
  - fold (announced rest). cbn [fst snd].
    destruct (existsb (gidx_eqb (off, n)) seen) eqn:E.
    + apply gmem_In in E. destruct (IH seen ND) as [I1 I2]. split; [exact I1|].
      intro g. rewrite I2. cbn [In]. split; [tauto|]. intros [H|[<-|H]]; auto.
    + assert (ND' : NoDup (seen ++ [(off, n)])).
      { apply NoDup_app_intro; [exact ND | repeat constructor; intros [] |].
        intros x Hx [<-|[]]. apply gmem_In in Hx. congruence. }
      destruct (IH _ ND') as [I1 I2]. split; [exact I1|].
      intro g. rewrite I2, in_app_iff. cbn [In]. tauto.
Qed.

Lemma announced_perm pk pk' : Permutation pk pk' -> Permutation (announced pk) (announced pk').
Proof. intro P. unfold announced. now apply Permutation_map. Qed.

Lemma group_keys_perm pk pk' : Permutation pk pk' -> Permutation (group_keys pk []) (group_keys pk' []).
Proof.
  intro P. destruct (group_keys_spec pk [] (NoDup_nil _)) as [N1 S1].
  destruct (group_keys_spec pk' [] (NoDup_nil _)) as [N2 S2].
  apply NoDup_Permutation; auto. intro g. rewrite S1, S2. cbn [In].
  split; intros [[]|H]; right.
  - eapply Permutation_in; [apply announced_perm; exact P | exact H].
  - eapply Permutation_in; [apply announced_perm, Permutation_sym; exact P | exact H].
Qed.

Lemma gsorted_head_min x l : gsorted (x :: l) -> forall y, In y l -> fst x <= fst y.
Proof.
  revert x; induction l as [|h t IH]; intros x S y Hy; [destruct Hy|].
  cbn [gsorted] in S. destruct S as [S1 S2]. destruct Hy as [<-|Hy]; [exact S1|].
  specialize (IH h S2 y Hy). lia.
Qed.

Lemma gsorted_tail x l : gsorted (x :: l) -> gsorted l.
Proof. destruct l; cbn [gsorted]; tauto. Qed.

Lemma sorted_perm_unique a : forall b,
  gsorted a -> gsorted b -> Permutation a b -> NoDup (map fst a) -> a = b.
Proof.
  induction a as [|x a IH]; intros b Sa Sb P ND.
  - apply Permutation_nil in P. now subst.
  - destruct b as [|y b]; [apply Permutation_sym, Permutation_nil in P; discriminate|].
    assert (E : x = y).
    { assert (Hx : In x (y :: b)) by (eapply Permutation_in; [exact P | now left]).
      assert (Hy : In y (x :: a)) by (eapply Permutation_in; [apply Permutation_sym; exact P | now left]).
      destruct Hx as [->|Hx]; [reflexivity|]. destruct Hy as [->|Hy]; [reflexivity|].
      pose proof (gsorted_head_min _ _ Sa y Hy). pose proof (gsorted_head_min _ _ Sb x Hx).
      assert (F : fst x = fst y) by lia.
      cbn [map] in ND. inversion ND as [|? ? Nx _]; subst. exfalso. apply Nx. rewrite F. now apply in_map. }
    subst y. f_equal. apply IH.
    + eapply gsorted_tail; eauto.
    + eapply gsorted_tail; eauto.
    + eapply Permutation_cons_inv; eauto.
    + cbn [map] in ND. now inversion ND.
Qed.

Lemma firsts_distinct gs :
  NoDup gs -> NoDup (gnums gs) -> Forall (fun g => 1 <= snd g) gs -> NoDup (map fst gs).
Proof.
  induction gs as [|g r IH]; intros N1 N2 F; [constructor|].
  inversion N1 as [|? ? Ng N1']; subst. inversion F as [|? ? Fg Fr]; subst.
  cbn [gnums flat_map] in N2. fold (gnums r) in N2. apply NoDup_app_inv in N2 as (_ & N2' & N3).
  cbn [map]. constructor; [|auto].
  intro H. apply in_map_iff in H as [h [E Hh]].
  rewrite Forall_forall in Fr. specialize (Fr h Hh).
  apply (N3 (fst g)).
  - apply zrange_In. lia.
  - apply In_gnums. exists h. split; [exact Hh | unfold in_grp; lia].
Qed.

Lemma sum_perm (a b : list gidx) : Permutation a b ->
  forall acc, fold_left (fun s g => s + snd g) a acc = fold_left (fun s g => s + snd g) b acc.
Proof.
  induction 1; intro acc; cbn [fold_left]; auto.
  - f_equal. lia.
  - now rewrite IHPermutation1.
Qed.

Lemma abaco_order_irrelevant_lemma pk pk' :
  Permutation pk pk' -> Forall (fun p => 1 <= fst p) pk -> abaco_sample pk = abaco_sample pk'.
Proof.
  intros P F. pose proof (group_keys_perm _ _ P) as PG.
  unfold abaco_sample.
  destruct (overlap_scan (group_keys pk []) []) eqn:E1; destruct (overlap_scan (group_keys pk' []) []) eqn:E2.
  - reflexivity.
  - exfalso. apply overlap_scan_false in E2 as [ND _].
    assert (overlap_scan (group_keys pk []) [] = false).
    { apply overlap_scan_false. split; [|intros x _ []]. eapply Permutation_NoDup; [|exact ND]. apply gnums_perm. now apply Permutation_sym. }
    congruence.
  - exfalso. apply overlap_scan_false in E1 as [ND _].
    assert (overlap_scan (group_keys pk' []) [] = false).
    { apply overlap_scan_false. split; [|intros x _ []]. eapply Permutation_NoDup; [|exact ND]. now apply gnums_perm. }
    congruence.
  - apply overlap_scan_false in E1 as [ND _]. f_equal. f_equal; [|now apply sum_perm].
    destruct (group_keys_spec pk [] (NoDup_nil _)) as [N1 S1].
    apply sorted_perm_unique; try apply gsort_sorted.
    + rewrite gsort_perm, PG. symmetry. apply gsort_perm.
    + assert (FG : Forall (fun g => 1 <= snd g) (group_keys pk [])).
      { apply Forall_forall. intros g Hg. apply S1 in Hg as [[]|Hg]. unfold announced in Hg.
        apply in_map_iff in Hg as [p [<- Hp]]. rewrite Forall_forall in F. exact (F p Hp). }
      pose proof (firsts_distinct _ N1 ND FG) as FD.
      eapply Permutation_NoDup; [|exact FD]. apply Permutation_map. symmetry. apply gsort_perm.
Qed.

(* ================================================================ the model's tables pass the other checkers too *)

Lemma singlesb_app g1 : forall n1 x1 r1 s1 g2 n2 x2 r2 s2,
  singlesb g1 n1 x1 r1 s1 = true -> singlesb g2 n2 x2 r2 s2 = true ->
  singlesb (g1 ++ g2) (n1 ++ n2) (x1 ++ x2) (r1 ++ r2) (s1 ++ s2) = true.
Proof.
  induction g1 as [|g g1 IH]; intros n1 x1 r1 s1 g2 n2 x2 r2 s2 H1 H2.
  - destruct n1, x1, r1, s1; try discriminate. exact H2.
  - destruct n1 as [|n n1], x1 as [|x x1], r1 as [|r r1], s1 as [|s s1]; try discriminate.
    cbn [singlesb app] in *. rewrite !andb_true_iff in *. destruct H1 as [[A B] C]. repeat split; auto.
Qed.

Lemma singlesb_maps (l : list Z) (fg : Z -> geo) (fn : Z -> string) (fx fr fs : Z -> Z) :
  (forall i, In i l -> fn i = chan_name (fx i) /\ rc_matches (fr i) (fg i) = true) ->
  singlesb (map fg l) (map fn l) (map fx l) (map fr l) (map fs l) = true.
Proof.
  induction l as [|i l IH]; intro H; [reflexivity|]. cbn [map singlesb].
  destruct (H i (or_introl eq_refl)) as [H1 H2]. rewrite H1, String.eqb_refl, H2. cbn [andb].
  apply IH. intros j Hj. apply H. now right.
Qed.

Lemma rc_matches_mk row col rows cols :
  0 <= row < 65536 -> 0 <= col < 65536 -> 0 <= rows < 65536 -> 0 <= cols < 65536 ->
  rc_matches (rc_code row col rows cols) (mkG row col rows cols) = true.
Proof. intros. apply rc_matches_true. cbn [g_row g_col g_rows g_cols]. now apply rc_decode. Qed.

(* ---- Roach *)
Lemma roach_model_passes_checker n : 0 <= n < 65536 -> check_roach n (roach_prepare n) = true.
Proof.
  intro Hn. unfold check_roach. destruct (roach_tables n) as (R1 & R2 & R3 & R4).
  destruct (simple_tables_identity n) as (S1 & S2 & S3 & S4).
  rewrite !andb_true_iff. repeat split.
  - unfold roach_prepare. cbn [tables_of t_names t_nums t_rc t_sub]. rewrite !map_map. cbn [e_name e_num e_rc e_sub].
    apply (singlesb_maps (zrange 0 n) (fun i => mkG i 0 n 1) chan_name (fun i => i) (fun row => rc_code row 0 n 1) (fun _ => 0)).
    intros i Hi. apply zrange_In in Hi. split; [reflexivity|]. apply rc_matches_mk; lia.
  - rewrite R1. now apply znodupb_NoDup.
  - rewrite R1, R3. now apply groups_coverb_complete.
Qed.

(* ---- Triangle / SimPulse (default PrepareChannels on top of the codes left by Sample) *)
Lemma sim_model_passes_checker n sd : 1 <= n < 65536 -> check_sim n (default_prepare n (sim_rc n) sd) = true.
Proof.
  intro Hn. unfold check_sim, default_prepare, sim_rc. cbn [t_names t_nums t_rc t_sub t_groups t_cpp].
  destruct (simple_tables_identity n) as (S1 & S2 & S3 & S4).
  rewrite !andb_true_iff. repeat split.
  - pose proof (singlesb_maps (zrange 0 n) (fun i => mkG 0 i 1 n) chan_name (fun i => i) (fun i => rc_code 0 i 1 n) (fun _ => 0)) as X.
    rewrite map_id in X. apply X.
    intros i Hi. apply zrange_In in Hi. split; [reflexivity|]. apply rc_matches_mk; lia.
  - rewrite zrange_length. lia.
  - now apply znodupb_NoDup.
  - now apply groups_coverb_complete.
Qed.

(* ---- Erroring source *)
Lemma singles_norcb_maps (l : list Z) (fs : Z -> Z) :
  singles_norcb (map chan_name l) l (map fs l) = true.
Proof. induction l as [|i l IH]; [reflexivity|]. cbn [map singles_norcb]. now rewrite String.eqb_refl. Qed.

Lemma erroring_model_passes_checker n : 0 <= n -> check_erroring n (erroring_prepare n) = true.
Proof.
  intro Hn. unfold check_erroring, erroring_prepare, default_prepare. cbn [t_names t_nums t_rc t_sub t_groups t_cpp].
  destruct (simple_tables_identity n) as (S1 & S2 & S3 & S4).
  rewrite !andb_true_iff. repeat split.
  - apply singles_norcb_maps.
  - rewrite zrange_length. lia.
  - now apply znodupb_NoDup.
  - now apply groups_coverb_complete.
Qed.

(* ---- Abaco *)
Lemma gsorted_strict l : gsorted l -> NoDup (map fst l) -> firsts_increasingb l = true.
Proof.
  induction l as [|g [|h r] IH]; intros S N; try reflexivity.
  cbn [gsorted] in S. destruct S as [S1 S2]. cbn [firsts_increasingb].
  cbn [map] in N. inversion N as [|? ? Ng N']; subst.
  rewrite andb_true_iff. split; [|apply IH; auto].
  assert (fst g <> fst h) by (intro E; apply Ng; rewrite E; now left). lia.
Qed.

Lemma abaco_nums_gnums gs : abaco_nums gs = gnums gs.
Proof. induction gs as [|g r IH]; [reflexivity|]. cbn [abaco_nums gnums flat_map]. now rewrite IH. Qed.

Lemma abaco_cols_singles gs : forall col ncol,
  0 <= col -> col + zlen gs <= ncol -> ncol < 65536 -> Forall (fun g => 0 <= snd g < 65536) gs ->
  let es := abaco_cols gs col ncol in
  singlesb (abaco_geos gs col ncol) (map e_name es) (map e_num es) (map e_rc es) (map e_sub es) = true.
Proof.
  induction gs as [|g r IH]; intros col ncol Hc Hl Hn F; [reflexivity|].
  inversion F as [|? ? Fg Fr]; subst. rewrite zlen_cons in Hl. pose proof (zlen_nonneg r).
  cbv zeta. cbn [abaco_cols abaco_geos]. rewrite !map_app. apply singlesb_app.
  - unfold abaco_rows. rewrite !map_map. cbn [e_name e_num e_rc e_sub].
    apply (singlesb_maps (zrange 0 (snd g)) (fun row => mkG row col (snd g) ncol)
             (fun row => chan_name (row + fst g)) (fun row => row + fst g)
             (fun row => rc_code row col (snd g) ncol) (fun _ => 0)).
    intros i Hi. apply zrange_In in Hi. split; [reflexivity|]. apply rc_matches_mk; lia.
  - apply IH; auto; lia.
Qed.

Lemma abaco_model_passes_checker pk sorted nchan :
  Forall (fun p => 1 <= fst p < 65536) pk -> abaco_sample pk = Some (sorted, nchan) -> zlen sorted < 65536 ->
  check_abaco pk (abaco_prepare sorted) = true.
Proof.
  intros F H L. destruct (abaco_identity _ _ _ H) as (P & S & G & N & ND & NM & NDn & PD & CV). cbv zeta in *.
  destruct (group_keys_spec pk [] (NoDup_nil _)) as [N1 S1].
  assert (MEM : forall g, In g sorted <-> In g (announced pk)).
  { intro g. split; intro Hg.
    - assert (In g (group_keys pk [])) by (eapply Permutation_in; eauto). apply S1 in H0 as [[]|]; auto.
    - eapply Permutation_in; [apply Permutation_sym; exact P|]. apply S1. now right. }
  assert (FG : Forall (fun g => 1 <= snd g < 65536) sorted).
  { apply Forall_forall. intros g Hg. apply MEM in Hg. unfold announced in Hg.
    apply in_map_iff in Hg as [p [<- Hp]]. rewrite Forall_forall in F. exact (F p Hp). }
  unfold check_abaco. rewrite G. rewrite !andb_true_iff. repeat split.
  - apply forallb_forall. intros g Hg. apply gmem_In. now apply MEM.
  - apply forallb_forall. intros g Hg. apply gmem_In. now apply MEM.
  - apply gsorted_strict; [exact S|].
    assert (NDs : NoDup sorted) by (eapply Permutation_NoDup; [apply Permutation_sym; exact P | exact N1]).
    apply firsts_distinct; auto.
    + rewrite <- N. exact ND.
    + eapply Forall_impl; [|exact FG]. cbv beta. intros; lia.
  - unfold abaco_prepare. cbn [tables_of t_names t_nums t_rc t_sub].
    apply abaco_cols_singles; [lia | rewrite Z.add_0_l; apply Z.le_refl | exact L |].
    eapply Forall_impl; [|exact FG]. cbv beta. intros; lia.
  - apply zlist_eqb_eq. rewrite abaco_nums_gnums. exact N.
  - now apply znodupb_NoDup.
  - apply groups_coverb_complete; [|exact PD]. rewrite G in CV. exact CV.
Qed.

(* ---- files *)
Lemma ident_eqb_refl a : ident_eqb a a = true.
Proof. unfold ident_eqb. now rewrite !Z.eqb_refl, !String.eqb_refl. Qed.

Lemma NoDup_map_in {A B} (f : A -> B) l :
  NoDup l -> (forall x y, In x l -> In y l -> f x = f y -> x = y) -> NoDup (map f l).
Proof.
  induction l as [|a l IH]; intros ND H; [constructor|]. inversion ND as [|? ? Na ND']; subst.
  cbn [map]. constructor.
  - intro K. apply in_map_iff in K as [y [E Hy]]. assert (y = a) by (apply H; [now right | now left | exact E]). subst. auto.
  - apply IH; auto. intros x y Hx Hy. apply H; now right.
Qed.

Definition fname (base today : string) (i : Z) (names : list string) (ext : string) (k : Z) : string :=
  String.append (file_prefix base today i) (String.append (znth_s names k) (String "." ext)).

Lemma fname_nonempty base today i names ext k : nonempty (fname base today i names ext k) = true.
Proof.
  unfold fname, nonempty. destruct (String.append _ _) eqn:E; [|reflexivity].
  exfalso. apply (f_equal String.length) in E. revert E.
  generalize (file_prefix base today i). intro p.
  assert (L : forall a b, String.length (String.append a b) = (String.length a + String.length b)%nat).
  { induction a; cbn; intros; [reflexivity | now rewrite IHa]. }
  rewrite !L. cbn. lia.
Qed.

Lemma fname_inj base today i names e1 e2 k1 k2 :
  no_percent base -> no_percent today -> NoDup names -> In e1 exts -> In e2 exts ->
  0 <= k1 < zlen names -> 0 <= k2 < zlen names ->
  fname base today i names e1 k1 = fname base today i names e2 k2 -> k1 = k2 /\ e1 = e2.
Proof.
  intros Hb Ht ND E1 E2 K1 K2 H.
  pose proof (filename_value base today i (znth_s names k1) e1 Hb Ht) as F1.
  pose proof (filename_value base today i (znth_s names k2) e2 Hb Ht) as F2.
  fold (fname base today i names e1 k1) in F1. fold (fname base today i names e2 k2) in F2. rewrite <- H in F2.
  destruct (filenames_injective_lemma _ _ _ _ _ _ _ _ Hb Ht E1 E2 F1 F2) as [En Ee]. split; [|exact Ee].
  unfold znth_s in En. eapply NoDup_znth_inj_gen; eauto.
Qed.

Lemma off_names_map (F : Z -> chanfile) offs l :
  (forall k, f_offhd (F k) = if has_off offs k then Some (f_hd (F k)) else None) ->
  off_names (map F l) = map (fun k => f_off (F k)) (filter (has_off offs) l).
Proof.
  intro H. induction l as [|k l IH]; [reflexivity|]. cbn [map off_names flat_map filter]. fold (off_names (map F l)).
  rewrite H, IH. destruct (has_off offs k); reflexivity.
Qed.

Lemma files_identb_model t src offs (F : Z -> chanfile) :
  (forall k, f_dspname (F k) = i_chname (status_ident t src k) /\ f_dspnum (F k) = i_chnum (status_ident t src k) /\
             f_hd (F k) = status_ident t src k /\
             f_offhd (F k) = if has_off offs k then Some (status_ident t src k) else None) ->
  forall n a, files_identb t src offs a (map F (zrange_nat a n)) = true.
Proof.
  intros H n. induction n as [|n IH]; intro a; [reflexivity|]. cbn [zrange_nat map files_identb].
  destruct (H a) as (H1 & H2 & H3 & H4). rewrite H1, H2, H3, H4, String.eqb_refl, Z.eqb_refl, ident_eqb_refl, IH.
  destruct (has_off offs a); [now rewrite ident_eqb_refl | reflexivity].
Qed.

Lemma files_model_passes_checker t src base today i offs cf :
  no_percent base -> no_percent today -> NoDup (t_names t) ->
  files_of t src (make_directory base today i) offs = Ok cf ->
  check_files t src offs cf (zlen cf * 2 + zlen (filter (has_off offs) (zrange 0 (zlen cf))) + 1) = true.
Proof.
  intros Hb Ht ND H. unfold files_of in H.
  set (n := zlen (t_names t)) in *.
  destruct ((zlen (t_rc t) <? n) || (zlen (t_sub t) <? n) || (zlen (t_nums t) <? n)); [discriminate|].
  injection H as H. pose proof (zlen_nonneg (t_names t)) as Hn. fold n in Hn.
  set (F := fun k : Z => _) in H. subst cf.
  assert (Fl : forall e k, ostr (filename (make_directory base today i) (znth_s (t_names t) k) e) = fname base today i (t_names t) e k).
  { intros e k. rewrite filename_value by assumption. reflexivity. }
  assert (LEN : zlen (map F (zrange 0 n)) = n) by (rewrite zlen_map, zrange_length; lia).
  assert (OFFH : forall k, f_offhd (F k) = if has_off offs k then Some (f_hd (F k)) else None).
  { intro k. subst F. cbn [f_offhd f_hd]. reflexivity. }
  assert (M1 : map f_ljh (map F (zrange 0 n)) = map (fname base today i (t_names t) "ljh") (zrange 0 n)).
  { rewrite map_map. apply map_ext. intro k. subst F. cbn [f_ljh]. apply Fl. }
  assert (M2 : map f_ljh3 (map F (zrange 0 n)) = map (fname base today i (t_names t) "ljh3") (zrange 0 n)).
  { rewrite map_map. apply map_ext. intro k. subst F. cbn [f_ljh3]. apply Fl. }
  assert (M3 : off_names (map F (zrange 0 n)) = map (fname base today i (t_names t) "off") (filter (has_off offs) (zrange 0 n))).
  { rewrite (off_names_map F offs _ OFFH). apply map_ext_in. intros k Hk. apply filter_In in Hk as [_ Hk].
    subst F. cbn [f_off]. rewrite Hk. apply Fl. }
  assert (EX : In "ljh"%string exts /\ In "ljh3"%string exts /\ In "off"%string exts) by (cbn; tauto).
  destruct EX as (X1 & X2 & X3).
  assert (INJ : forall e l, In e exts -> NoDup l -> (forall k, In k l -> 0 <= k < n) -> NoDup (map (fname base today i (t_names t) e) l)).
  { intros e l He NDl R. apply NoDup_map_in; [exact NDl|]. intros x y Hx Hy E.
    exact (proj1 (fname_inj _ _ _ _ _ _ _ _ Hb Ht ND He He (R x Hx) (R y Hy) E)). }
  assert (RZ : forall k, In k (zrange 0 n) -> 0 <= k < n) by (intros k Hk; apply zrange_In in Hk; lia).
  assert (RF : forall k, In k (filter (has_off offs) (zrange 0 n)) -> 0 <= k < n).
  { intros k Hk. apply filter_In in Hk as [Hk _]. auto. }
  assert (NDF : NoDup (filter (has_off offs) (zrange 0 n))) by (apply NoDup_filter, zrange_NoDup).
  unfold check_files. rewrite LEN, M1, M2, M3. rewrite !andb_true_iff. repeat split.
  - apply Z.eqb_refl.
  - unfold zrange. apply files_identb_model. intro k. subst F. cbn [f_dspname f_dspnum f_hd f_offhd].
    unfold status_ident. cbn [i_chname i_chnum]. fold n. repeat split.
  - rewrite !forallb_app. rewrite !andb_true_iff. repeat split; apply forallb_forall; intros x Hx;
      apply in_map_iff in Hx as [k [<- _]]; apply fname_nonempty.
  - assert (I1 := INJ _ _ X1 (zrange_NoDup 0 n) RZ). assert (I2 := INJ _ _ X2 (zrange_NoDup 0 n) RZ).
    assert (I3 := INJ _ _ X3 NDF RF).
    apply snodupb_NoDup. apply NoDup_app_intro; [exact I1 | apply NoDup_app_intro; [exact I2 | exact I3 |] |].
    + intros x H1 H2. apply in_map_iff in H1 as [k1 [<- K1]]. apply in_map_iff in H2 as [k2 [E K2]].
      destruct (fname_inj _ _ _ _ _ _ _ _ Hb Ht ND X3 X2 (RF _ K2) (RZ _ K1) E) as [_ Ee]. discriminate.
    + intros x H1 H2. apply in_map_iff in H1 as [k1 [<- K1]]. apply in_app_iff in H2 as [H2|H2];
        apply in_map_iff in H2 as [k2 [E K2]].
      * destruct (fname_inj _ _ _ _ _ _ _ _ Hb Ht ND X2 X1 (RZ _ K2) (RZ _ K1) E) as [_ Ee]. discriminate.
      * destruct (fname_inj _ _ _ _ _ _ _ _ Hb Ht ND X3 X1 (RF _ K2) (RZ _ K1) E) as [_ Ee]. discriminate.
  - rewrite !zlen_app, !zlen_map, zrange_length. apply Z.eqb_eq. lia.
Qed.

(* ================================================================ whole histories: the model's observations pass C19_check *)

Definition inv (s : state) (k : cst) : Prop :=
  k_last k = s_last s /\
  (l_cfgerr (s_l s) = false ->
     k_cards k = l_active (s_l s) /\ NoDup (map c_dev (l_active (s_l s))) /\ dims_in_field (l_active (s_l s))) /\
  (forall t src, s_last s = Some (t, src) -> NoDup (t_names t)).

Lemma strs_eqb_refl l : strs_eqb l l = true.
Proof. apply list_eqb_eq; [intros; apply String.eqb_eq | reflexivity]. Qed.
Lemma pairs_eqb_refl l : pairs_eqb l l = true.
Proof.
  apply list_eqb_eq; [|reflexivity]. intros [a b] [c d]. cbn. rewrite andb_true_iff, !Z.eqb_eq.
  split; [intros [-> ->]; reflexivity | intro E; inversion E; auto].
Qed.
Lemma msgs_ok_refl t : msgs_ok t (t_names t) (t_groups t) = true.
Proof. unfold msgs_ok. now rewrite strs_eqb_refl, pairs_eqb_refl. Qed.

Lemma group_keys_length pk : forall seen, zlen (group_keys pk seen) <= zlen seen + zlen pk.
Proof.
  induction pk as [|[n off] r IH]; intro seen; cbn [group_keys]; [unfold zlen; cbn; lia|].
  rewrite zlen_cons. destruct (existsb _ seen).
  - specialize (IH seen). lia.
  - specialize (IH (seen ++ [(off, n)])). rewrite zlen_app in IH. unfold zlen in *. cbn [length] in *. lia.
Qed.

Lemma perm_zlen {A} (a b : list A) : Permutation a b -> zlen a = zlen b.
Proof. intro P. unfold zlen. now rewrite (Permutation_length P). Qed.

Lemma regeom_devs cards : forall geom, map c_dev (regeom cards geom) = map c_dev cards.
Proof.
  induction cards as [|c cs IH]; intros [|g gs]; cbn [regeom map c_dev]; try reflexivity. now rewrite IH.
Qed.

Lemma regeom_field cards : forall geom,
  dims_in_field cards -> Forall (fun g => 0 <= fst g < 65536 /\ 0 <= snd g < 65536) geom ->
  dims_in_field (regeom cards geom).
Proof.
  unfold dims_in_field. induction cards as [|c cs IH]; intros [|g gs] D F; cbn [regeom]; auto.
  inversion D; subst. inversion F; subst. constructor; [cbn [c_ncols c_nrows]; assumption | now apply IH].
Qed.

(* a start of the Lancero object (after Configure, or again) *)
Lemma lancero_start_step l k (last0 : option (tables * string)) :
  (l_cfgerr l = false -> k_cards k = l_active l /\ NoDup (map c_dev (l_active l)) /\ dims_in_field (l_active l)) ->
  let '(l2, ob, r) := lancero_start l in
  (l_cfgerr l2 = l_cfgerr l /\ l_active l2 = l_active l) /\
  (match r with Some t => NoDup (t_names t) | None => True end) /\
  match ob with
  | ORejCfg => r = None
  | ORej _ _ _ => r = None
  | OAcc t mixed order nm gm =>
      r = Some t /\ check_lancero (k_cards k) t mixed order = true /\ msgs_ok t nm gm = true
  | _ => False
  end.
Proof.
  intro H. unfold lancero_start. destruct (l_cfgerr l) eqn:E; [repeat split; auto|].
  destruct (H eq_refl) as (K & ND & F).
  destruct (lancero_prepare l) as [l' [t|]] eqn:P.
  - destruct (lancero_prepare_accept _ _ _ P) as (es & gs & sd & mx & _ & _ & -> & _).
    cbn [l_cfgerr l_active]. repeat split; auto.
    + assert (D : dims_nonneg (l_active l)).
      { unfold dims_nonneg, dims_in_field in *. rewrite Forall_forall in *. intros d Hd. specialize (F d Hd). lia. }
      exact (proj2 (proj2 (proj2 (proj2 (lancero_numbering _ _ _ ND D P))))).
    + rewrite K. exact (lancero_model_passes_checker _ _ _ ND F P).
    + apply msgs_ok_refl.
  - unfold lancero_prepare in P.
    repeat match type of P with context [if ?c then _ else _] => destruct c end;
      try (destruct (lancero_number l 0 false) as [[[? ?] ?] ?]; discriminate);
      injection P as <-; cbn [set_sepCols l_cfgerr l_active]; repeat split; auto.
Qed.

Lemma step_preserves s k o :
  inv s k -> wf_op o -> snd (step s o) <> OPanic ->
  exists k', check_step k o (snd (step s o)) = Some k' /\ inv (fst (step s o)) k'.
Proof.
  intros (I1 & I2 & I3) W NP. destruct o as [avail req nsamp first sepCards sepCols geom|geom|avail req nsamp first sepCards sepCols|pk|devs|n|n|n|row col rows cols|base today i offs mapn].
  - (* LRun *)
    cbn [step] in *. destruct W as [WL WG].
    destruct (lancero_configure (s_l s) avail req nsamp first sepCards sepCols geom) as [l1 ok] eqn:C.
    assert (PRE : l_cfgerr l1 = false ->
                  mk_cards req geom = l_active l1 /\ NoDup (map c_dev (l_active l1)) /\ dims_in_field (l_active l1) /\
                  zlen (mk_cards req geom) = zlen req /\ forallb (fun c => zmem c avail) req = true).
    { intro E. unfold lancero_configure in C. destruct ((nsamp >? 16) || (nsamp <? 1)).
      - injection C as <- <-. cbn in E. discriminate.
      - destruct (activate avail req []) as [act ok'] eqn:A. injection C as <- <-. cbn [l_cfgerr l_active] in *.
        destruct ok'; [|discriminate].
        destruct (activate_spec _ _ _ _ _ (NoDup_nil Z) A) as [ND I]. destruct (I eq_refl) as [-> AV]. cbn [app] in *.
        unfold mk_cards. repeat split.
        + rewrite map_map. cbn [c_dev]. now apply NoDup_fst_combine.
        + unfold dims_in_field. apply Forall_forall. intros d Hd. apply in_map_iff in Hd as [[x [a b]] [<- Hx]].
          cbn [c_ncols c_nrows fst snd]. apply in_combine_r in Hx. rewrite Forall_forall in WG. exact (WG _ Hx).
        + rewrite zlen_map. unfold zlen in *. rewrite combine_length. lia.
        + apply forallb_forall. intros c Hc. apply zmem_In. now apply AV. }
    pose proof (lancero_start_step l1 (mkC (mk_cards req geom) None) None) as LS.
    destruct (lancero_start l1) as [[l2 ob] r] eqn:ST. cbn [fst snd] in *.
    assert (LS' := LS (fun E => let '(conj a (conj b (conj c _))) := PRE E in conj a (conj b c))). clear LS.
    destruct LS' as ((E1 & E2) & NDr & OB).
    destruct ob as [| sd mx sc | t mixed order nm gm | | | | |]; try contradiction.
    + subst r. eexists. split; [reflexivity|].
      assert (E : l_cfgerr l1 = true).
      { unfold lancero_start in ST. destruct (l_cfgerr l1) eqn:E; [reflexivity|].
        destruct (lancero_prepare l1) as [? [?|]]; discriminate. }
      split; [reflexivity|]. split; [cbn [s_l]; intro X; congruence | intros ? ? X; discriminate X].
    + subst r. eexists. split; [reflexivity|].
      split; [reflexivity|]. split; [|intros ? ? X; discriminate X].
      cbn [s_l k_cards]. intro X. rewrite E1 in X. destruct (PRE X) as (P1 & P2 & P3 & _). rewrite E2. auto.
    + destruct OB as (-> & CK & MS). cbn [k_cards] in CK.
      assert (E : l_cfgerr l1 = false).
      { unfold lancero_start in ST. destruct (l_cfgerr l1); [discriminate | reflexivity]. }
      destruct (PRE E) as (P1 & P2 & P3 & P4 & P5).
      cbn [check_step]. rewrite P4, Z.eqb_refl, P5, CK, MS. cbn [andb].
      eexists. split; [reflexivity|].
      split; [reflexivity|]. split.
      * cbn [s_l k_cards]. intros _. rewrite E2. auto.
      * intros t' src' Ht. cbn [s_last] in Ht. injection Ht as <- <-. exact NDr.
  - (* LAgain *)
    cbn [step] in *. cbn [wf_op] in W.
    set (l1 := if l_cfgerr (s_l s) then s_l s else set_active (s_l s) (regeom (l_active (s_l s)) geom)) in *.
    assert (PRE : l_cfgerr l1 = false ->
                  regeom (k_cards k) geom = l_active l1 /\ NoDup (map c_dev (l_active l1)) /\ dims_in_field (l_active l1)).
    { subst l1. destruct (l_cfgerr (s_l s)) eqn:E; [intro X; congruence|]. intros _.
      destruct (I2 eq_refl) as (K & ND & F). cbn [set_active l_active]. rewrite K. repeat split.
      - now rewrite regeom_devs.
      - now apply regeom_field. }
    pose proof (lancero_start_step l1 (mkC (regeom (k_cards k) geom) None) None PRE) as LS.
    destruct (lancero_start l1) as [[l2 ob] r] eqn:ST. cbn [fst snd] in *.
    destruct LS as ((E1 & E2) & NDr & OB).
    destruct ob as [| sd mx sc | t mixed order nm gm | | | | |]; try contradiction.
    + subst r. eexists. split; [reflexivity|].
      assert (E : l_cfgerr l1 = true).
      { unfold lancero_start in ST. destruct (l_cfgerr l1) eqn:E; [reflexivity|].
        destruct (lancero_prepare l1) as [? [?|]]; discriminate. }
      split; [reflexivity|]. split; [cbn [s_l]; intro X; congruence | intros ? ? X; discriminate X].
    + subst r. eexists. split; [reflexivity|].
      split; [reflexivity|]. split; [|intros ? ? X; discriminate X].
      cbn [s_l k_cards]. intro X. rewrite E1 in X. rewrite E2. now apply PRE.
    + destruct OB as (-> & CK & MS). cbn [k_cards] in CK. cbn [check_step]. rewrite CK, MS. cbn [andb].
      eexists. split; [reflexivity|].
      split; [reflexivity|]. split.
      * cbn [s_l k_cards]. intro X. rewrite E1 in X. rewrite E2. now apply PRE.
      * intros t' src' Ht. cbn [s_last] in Ht. injection Ht as <- <-. exact NDr.
  - (* LMid *)
    cbn [step] in *. destruct (l_cfgerr (s_l s)) eqn:CE.
    { cbn [snd fst check_step]. eexists. split; [reflexivity|].
      split; [reflexivity|]. split; [cbn [s_l]; intro X; congruence | intros ? ? X; discriminate X]. }
    pose proof (lancero_start_step (s_l s) k None (fun _ => I2 eq_refl)) as LS.
    destruct (lancero_start (s_l s)) as [[l2 ob] r] eqn:ST. cbn [fst snd] in *.
    destruct LS as ((E1 & E2) & NDr & OB).
    destruct ob as [| sd mx sc | t mixed order nm gm | | | | |]; try contradiction.
    + subst r. eexists. split; [reflexivity|].
      split; [reflexivity|]. split; [cbn; intro X; discriminate X | intros ? ? X; discriminate X].
    + subst r. eexists. split; [reflexivity|].
      split; [reflexivity|]. split; [cbn; intro X; discriminate X | intros ? ? X; discriminate X].
    + destruct OB as (-> & CK & MS). cbn [check_step]. rewrite CK, MS. cbn [andb].
      eexists. split; [reflexivity|].
      split; [reflexivity|]. split; [cbn; intro X; discriminate X|].
      intros t' src' Ht. cbn [s_last] in Ht. injection Ht as <- <-. exact NDr.
  - (* APrep *)
    cbn [step] in *. destruct W as [WF WL]. destruct (abaco_sample pk) as [[sorted nchan]|] eqn:A.
    + cbn [snd fst check_step acc].
      destruct (abaco_identity _ _ _ A) as (P & _ & _ & _ & _ & _ & NDn & _). cbv zeta in NDn.
      assert (L : zlen sorted < 65536).
      { rewrite (perm_zlen _ _ P). pose proof (group_keys_length pk []). unfold zlen in *. cbn [length] in *. lia. }
      rewrite (abaco_model_passes_checker _ _ _ WF A L), msgs_ok_refl. cbn [andb].
      eexists. split; [reflexivity|]. repeat split; cbn [k_last s_last s_l k_cards]; try now apply I2.
      intros t' src' Ht. injection Ht as <- <-. exact NDn.
    + cbn [snd fst check_step]. eexists. split; [reflexivity|].
      repeat split; cbn [k_last s_last s_l k_cards]; try now apply I2. discriminate.
  - (* RPrep *)
    cbn [step snd fst check_step acc] in *. rewrite (roach_model_passes_checker _ W), msgs_ok_refl. cbn [andb].
    eexists. split; [reflexivity|]. repeat split; cbn [k_last s_last s_l k_cards]; try now apply I2.
    intros t' src' Ht. injection Ht as <- <-.
    exact (proj1 (proj2 (proj2 (proj2 (proj2 (single_group_sources _ [] 0 _ (or_introl eq_refl))))))).
  - (* TPrep *)
    cbn [step] in *. unfold triangle_prepare in *. destruct (n <? 1) eqn:E.
    + cbn [snd fst check_step]. eexists. split; [reflexivity|].
      repeat split; cbn [k_last s_last s_l k_cards]; try now apply I2. discriminate.
    + cbn [snd fst check_step acc]. rewrite (sim_model_passes_checker n 0 ltac:(cbn in W; lia)), msgs_ok_refl. cbn [andb].
      eexists. split; [reflexivity|]. repeat split; cbn [k_last s_last s_l k_cards]; try now apply I2.
      intros t' src' Ht. injection Ht as <- <-.
      exact (proj1 (proj2 (proj2 (proj2 (proj2 (single_group_sources n (sim_rc n) 0 _ (or_intror (or_introl eq_refl)))))))).
  - (* SPrep *)
    cbn [step] in *. unfold simpulse_prepare in *. destruct (n <? 1) eqn:E.
    + cbn [snd fst check_step]. eexists. split; [reflexivity|].
      repeat split; cbn [k_last s_last s_l k_cards]; try now apply I2. discriminate.
    + cbn [snd fst check_step acc]. rewrite (sim_model_passes_checker n n ltac:(cbn in W; lia)), msgs_ok_refl. cbn [andb].
      eexists. split; [reflexivity|]. repeat split; cbn [k_last s_last s_l k_cards]; try now apply I2.
      intros t' src' Ht. injection Ht as <- <-.
      exact (proj1 (proj2 (proj2 (proj2 (proj2 (single_group_sources n (sim_rc n) n _ (or_intror (or_introl eq_refl)))))))).
  - (* EPrep *)
    cbn [step snd fst check_step acc] in *. rewrite (erroring_model_passes_checker _ W), msgs_ok_refl. cbn [andb].
    eexists. split; [reflexivity|]. repeat split; cbn [k_last s_last s_l k_cards]; try now apply I2.
    intros t' src' Ht. injection Ht as <- <-.
    exact (proj1 (proj2 (proj2 (proj2 (proj2 (single_group_sources n [] 0 _ (or_intror (or_introl eq_refl)))))))).
  - (* RcCode *)
    cbn [step snd fst check_step] in *.
    destruct ((0 <=? row) && (row <? 65536) && (0 <=? col) && (col <? 65536) && (0 <=? rows) && (rows <? 65536)
              && (0 <=? cols) && (cols <? 65536)) eqn:R.
    + destruct (rc_decode row col rows cols ltac:(lia) ltac:(lia) ltac:(lia) ltac:(lia)) as (D1 & D2 & D3 & D4).
      rewrite D1, D2, D3, D4, !Z.eqb_refl. cbn [andb]. exists k. split; [reflexivity | exact (conj I1 (conj I2 I3))].
    + exists k. split; [reflexivity | exact (conj I1 (conj I2 I3))].
  - (* Files *)
    assert (INV : inv s k) by exact (conj I1 (conj I2 I3)).
    cbn [step] in *. destruct W as [Wb Wt]. destruct (s_last s) as [[t src]|] eqn:L.
    2:{ cbn [snd fst check_step]. exists k. split; [reflexivity | exact INV]. }
    destruct (zlen (t_names t) <=? 0).
    { cbn [snd fst check_step]. exists k. split; [reflexivity | exact INV]. }
    destruct ((0 <=? mapn) && negb (mapn =? zlen (t_names t) / t_cpp t)).
    { cbn [snd fst check_step]. exists k. split; [reflexivity | exact INV]. }
    destruct (files_of t src (make_directory base today i) offs) as [cf|] eqn:F.
    2:{ cbn [snd] in NP. contradiction. }
    cbn [snd fst check_step]. rewrite I1.
    rewrite (files_model_passes_checker _ _ _ _ _ _ _ Wb Wt (I3 _ _ eq_refl) F).
    exists k. split; [reflexivity | exact INV].
Qed.

Lemma run_passes_from : forall ops s k,
  inv s k -> Forall wf_op ops -> ~ In OPanic (run s ops) -> check_from k (combine ops (run s ops)) = true.
Proof.
  induction ops as [|o ops IH]; intros s k I W NP; [reflexivity|].
  inversion W as [|? ? Wo Wr]; subst. cbn [run] in *.
  destruct (step s o) as [s' b] eqn:ST. cbn [combine check_from].
  assert (NPb : snd (step s o) <> OPanic) by (rewrite ST; cbn; intro E; apply NP; left; auto).
  destruct (step_preserves s k o I Wo NPb) as [k' [C I']]. rewrite ST in C, I'. cbn [fst snd] in C, I'.
  rewrite C. apply IH; auto. intro H. apply NP. now right.
Qed.

Lemma model_history_passes_checker ops :
  Forall wf_op ops -> ~ In OPanic (run state0 ops) -> C19_check (combine ops (run state0 ops)) = true.
Proof.
  intros W NP. apply run_passes_from; auto. unfold inv, state0, cst0, lsrc0. cbn. repeat split; try constructor.
  intros t src H. discriminate.
Qed.

Definition ex_history : list op :=
  [LRun [0;1;2;3] [3;0] 1 0 24 8 [(2,2);(1,2)]; Files "/data" "20260930" 0 [1;3;5] 6; LAgain [(3,2)]; LMid [0;1;2;3] [0] 1 1 0 0; LAgain [];
   APrep [(4,4);(4,0)]; Files "/data" "20260930" 1 [] (-1); Files "/data" "20260930" 2 [] 7; TPrep 3; RcCode 5 1 40 8].
Example ex_history_wf :
  Forall wf_op ex_history /\ ~ In OPanic (run state0 ex_history) /\
  exists cf n, nth 1 (run state0 ex_history) OPanic = OFiles "/data/20260930/0000/20260930_run0000_%s.%s" cf n /\ n = 28.
Proof.
  split; [|split].
  - unfold ex_history. repeat constructor; cbn; try lia; try discriminate.
  - vm_compute. intuition discriminate.
  - eexists. eexists. vm_compute. split; reflexivity.
Qed.
