From Dastard Require Import Common.ZX C19.Model C19.Spec.
