(* C09 — the property as a checker over OBSERVABLES only: the requests issued (with their arguments), the
   blocks delivered, the primary trigger frames of each cycle, the connection state reported after each
   request and the secondary records each channel published in each cycle.
   Only the TYPES of Model.v are used here (edit, op, obs, block, kind, config); no model function is called. *)
From Dastard Require Import Common.ZX Pipeline.Stream C09.Model.

(* ---------- the connection set, as a relation  source -> receiver -> bool ---------- *)
Definition rel := Z -> Z -> bool.
Definition rel_empty : rel := fun _ _ => false.

Definition chan_ok (n x : Z) : bool := (0 <=? x) && (x <? n).
(* a request concerning (s, r) can take effect only if both are channels and s <> r *)
Definition valid_pair (n s r : Z) : bool := chan_ok n s && chan_ok n r && negb (s =? r).

Definition rel_add (n : Z) (R : rel) (s r : Z) : rel :=
  if valid_pair n s r then fun s' r' => ((s' =? s) && (r' =? r)) || R s' r' else R.
Definition rel_del (R : rel) (s r : Z) : rel :=
  fun s' r' => negb ((s' =? s) && (r' =? r)) && R s' r'.

(* add / delete every (source, receiver) of the request *)
Definition rel_change (n : Z) (turnon : bool) (conns : list (Z * list Z)) (R : rel) : rel :=
  fold_left (fun R sr =>
               fold_left (fun R r => if turnon then rel_add n R (fst sr) r else rel_del R (fst sr) r) (snd sr) R)
            conns R.

(* error/feedback coupling of a Lancero source (status 3 = err->fb, 2 = fb->err, anything else = none):
   the pairs (2k, 2k+1) are connected iff status = 3, the pairs (2k+1, 2k) iff status = 2, every other
   pair is left alone.  Other sources have no such coupling: the request changes nothing. *)
Definition rel_couple (k : kind) (n : Z) (R : rel) (status : Z) : rel :=
  match k with
  | Generic => R
  | Lancero => fun s r =>
      if Z.even s && (r =? s + 1) && chan_ok n s && chan_ok n r then status =? 3
      else if Z.even r && (s =? r + 1) && chan_ok n s && chan_ok n r then status =? 2
      else R s r
  end.

Definition rel_edit (k : kind) (n : Z) (R : rel) (e : edit) : rel :=
  match e with
  | EAdd c => rel_change n true c R
  | EDel c => rel_change n false c R
  | EStop => rel_empty
  | ECouple st => rel_couple k n R st
  end.

(* the set-theoretic result of a sequence of requests *)
Definition rel_of_edits (k : kind) (n : Z) (es : list edit) : rel := fold_left (rel_edit k n) es rel_empty.

(* ---------- reported state = the set ---------- *)
Definition pair_eqb (p q : Z * Z) : bool := (fst p =? fst q) && (snd p =? snd q).
Definition pmem (p : Z * Z) (l : list (Z * Z)) : bool := existsb (pair_eqb p) l.

(* the reported pairs, read as a set, are the set R: they name channels only, and (s, r) is listed iff R s r *)
Definition report_ok (n : Z) (R : rel) (rep : list (Z * Z)) : bool :=
  forallb (fun p => chan_ok n (fst p) && chan_ok n (snd p)) rep
  && forallb (fun s => forallb (fun r => Bool.eqb (pmem (s, r) rep) (R s r)) (zrange 0 n)) (zrange 0 n).

(* ---------- secondaries ---------- *)
Definition zcount (x : Z) (l : list Z) : Z := zlen (filter (Z.eqb x) l).
Definition multiset_eqb (a b : list Z) : bool :=
  forallb (fun x => zcount x a =? zcount x b) (a ++ b).

(* the sources of receiver r *)
Definition sources_of (n : Z) (R : rel) (r : Z) : list Z := filter (fun s => R s r) (zrange 0 n).
(* what receiver r must emit: the primaries of all its sources *)
Definition expected_frames (n : Z) (R : rel) (prims : list (list Z)) (r : Z) : list Z :=
  concat (map (fun s => znth [] prims s) (sources_of n R r)).

(* a record is the excerpt of ground truth G (first sample = frame F0) around its trigger frame *)
Definition rec_ok (npre nsamp : Z) (G : list Z) (F0 : Z) (rc : record) : bool :=
  let j := r_frame rc - F0 in
  (0 <=? j - npre) && (j - npre + nsamp <=? zlen G) && (r_pre rc =? npre)
  && zlist_eqb (r_data rc) (zslice G (j - npre) nsamp).

(* checker state: the connection set, everything delivered so far per channel, frame number of its start *)
Record cst := { c_R : rel; c_G : list (list Z); c_F0 : option Z }.

Definition cst_init (n : Z) : cst :=
  {| c_R := rel_empty; c_G := map (fun _ => []) (zrange 0 n); c_F0 := None |}.

Definition check_step (cf : config) (st : cst) (o : op) (b : obs) : option cst :=
  let n := cf_n cf in
  match o, b with
  | OEdit e, ORep rep _ _ =>
      let R' := rel_edit (cf_kind cf) n (c_R st) e in
      if report_ok n R' rep then Some {| c_R := R'; c_G := c_G st; c_F0 := c_F0 st |} else None
  | OCycle blk prims, OSec recs =>
      let F0 := match c_F0 st with Some f => f | None => blk_first blk end in
      let G' := map2 (fun g c => g ++ fst c) (c_G st) (blk_chans blk) in
      if (zlen recs =? n)
         && forallb (fun r =>
                       let rs := znth [] recs r in
                       multiset_eqb (map r_frame rs) (expected_frames n (c_R st) prims r)
                       && forallb (rec_ok (cf_npre cf) (cf_nsamp cf) (znth [] G' r) F0) rs)
                    (zrange 0 n)
      then Some {| c_R := c_R st; c_G := G'; c_F0 := Some F0 |} else None
  | ORestart, ORep rep _ _ =>
      (* a restarted source has no connections, and clients must have been told so *)
      if report_ok n rel_empty rep then Some (cst_init n) else None
  | _, _ => None        (* a crash, or an answer of the wrong shape *)
  end.

Fixpoint check_from (cf : config) (st : cst) (h : list (op * obs)) : bool :=
  match h with
  | [] => true
  | (o, b) :: rest =>
      match check_step cf st o b with
      | Some st' => check_from cf st' rest
      | None => false
      end
  end.

Definition C09_check (cf : config) (h : list (op * obs)) : bool := check_from cf (cst_init (cf_n cf)) h.

(* ---------- well-formed inputs (premises of the theorems; the harness produces only such inputs) ---------- *)
(* every channel of a block has the same number of samples *)
Definition blk_len (blk : block) : Z := match blk_chans blk with [] => 0 | c :: _ => zlen (fst c) end.
Definition block_ok (n : Z) (blk : block) : Prop :=
  zlen (blk_chans blk) = n /\ forall c, In c (blk_chans blk) -> zlen (fst c) = blk_len blk.

(* a primary trigger at frame f is one for which the (shared) retained window [first, first+len) supplies a
   full record: that is where TriggerData can cut a record on the source channel *)
Definition prim_in_window (npre nsamp first len f : Z) : Prop :=
  first + npre <= f /\ f + (nsamp - npre) <= first + len.

(* inputs_ok next len ops: blocks are contiguous (next = Some of the frame that must come next; None before
   the first block), every channel retains [len] samples before each block, the primaries lie in the window *)
Fixpoint inputs_ok (cf : config) (next : option Z) (len : Z) (ops : list op) : Prop :=
  match ops with
  | [] => True
  | OEdit _ :: rest => inputs_ok cf next len rest
  | ORestart :: rest => inputs_ok cf None 0 rest
  | OCycle blk prims :: rest =>
      block_ok (cf_n cf) blk /\
      match next with Some f => blk_first blk = f | None => True end /\
      zlen prims = cf_n cf /\
      (forall p f, In p prims -> In f p ->
         prim_in_window (cf_npre cf) (cf_nsamp cf) (blk_first blk - len) (len + blk_len blk) f) /\
      inputs_ok cf (Some (blk_first blk + blk_len blk))
                (Z.min (2 * cf_nsamp cf + 10) (len + blk_len blk)) rest
  end.

(* ---------- vocabulary of the theorems about histories ---------- *)
(* the set-theoretic connection set after a history: requests act as set operations, a restart empties it *)
Definition rel_step (k : kind) (n : Z) (R : rel) (o : op) : rel :=
  match o with OEdit e => rel_edit k n R e | OCycle _ _ => R | ORestart => rel_empty end.
Definition rel_of_ops (k : kind) (n : Z) (ops : list op) : rel := fold_left (rel_step k n) ops rel_empty.

(* ground truth of channel c: everything delivered to it since the (last) start of the source *)
Definition truth_step (c : Z) (G : list Z) (o : op) : list Z :=
  match o with
  | OCycle blk _ => G ++ fst (znth ([], false) (blk_chans blk) c)
  | ORestart => []
  | OEdit _ => G
  end.
Definition truth (c : Z) (ops : list op) : list Z := fold_left (truth_step c) ops [].

(* frame number of the first sample delivered since the (last) start *)
Definition first_step (F : option Z) (o : op) : option Z :=
  match o with
  | OCycle blk _ => match F with Some f => Some f | None => Some (blk_first blk) end
  | ORestart => None
  | OEdit _ => F
  end.
Definition first_frame (ops : list op) : option Z := fold_left first_step ops None.
