(* C09 — mirror model of the group-trigger machinery (definitions only, no proofs).
     group_trigger.go   TriggerBroker: NewTriggerBroker, AddConnection, DeleteConnection, StopTriggerCoupling,
                        isConnected, computeGroupTriggerState, Distribute
     data_source.go     AnySource.ChangeGroupTrigger, StopTriggerCoupling, SetCoupling, ProcessSegments (the cycle)
     lancero_source.go  LanceroSource.SetCoupling (err->fb / fb->err pairs)
     rpc_server.go      StopTriggerCoupling = source.StopTriggerCoupling, then SetCoupling(NoCoupling)
     triggering.go      TriggerDataSecondary
     process_data.go    TrimStream with EMTState.NToKeepOnTrim = 2*nsamp+10
   The per-channel retained stream is the shared mirror Pipeline/Stream.v.
   The primary trigger frames of a cycle are an INPUT of this model (they are what TriggerData stored in
   dsp.lastTrigList; the algorithms that find them are properties C02/C08).
   A Go map[int]bool used as a set is a duplicate-free list; iteration order over it is never observable
   because Distribute sorts and the reported state is compared as a set. *)
From Dastard Require Import Common.ZX Pipeline.Stream.

(* ---------- small list helpers ---------- *)
Definition zmem (x : Z) (l : list Z) : bool := existsb (Z.eqb x) l.
Definition zremove (x : Z) (l : list Z) : list Z := filter (fun y => negb (y =? x)) l.

Fixpoint upd_nat {A} (l : list A) (i : nat) (v : A) : list A :=
  match l, i with
  | [], _ => []
  | _ :: t, O => v :: t
  | h :: t, S i' => h :: upd_nat t i' v
  end.
Definition zupd {A} (l : list A) (i : Z) (v : A) : list A :=
  if i <? 0 then l else upd_nat l (Z.to_nat i) v.

(* sort.Sort(FrameIdxSlice): the result of sorting integers does not depend on the algorithm *)
Fixpoint zinsert (x : Z) (l : list Z) : list Z :=
  match l with
  | [] => [x]
  | y :: t => if x <=? y then x :: l else y :: zinsert x t
  end.
Definition zsort (l : list Z) : list Z := fold_right zinsert [] l.

Definition zsum (l : list Z) : Z := fold_right Z.add 0 l.

Fixpoint mapM {A B} (f : A -> res B) (l : list A) : res (list B) :=
  match l with
  | [] => Ok []
  | x :: t => match f x with
              | Panic => Panic
              | Ok y => match mapM f t with Panic => Panic | Ok ys => Ok (y :: ys) end
              end
  end.

Definition in_range (n x : Z) : bool := (0 <=? x) && (x <? n).

(* ---------- TriggerBroker ---------- *)
(* b_src r = the sources of receiver r (broker.sources[r]); b_cnt = broker.nconnections *)
Record broker := { b_n : Z; b_src : list (list Z); b_cnt : Z }.

Definition new_broker (n : Z) : broker :=
  {| b_n := n; b_src := map (fun _ => []) (zrange 0 n); b_cnt := 0 |}.

Definition srcs (b : broker) (r : Z) : list Z := znth [] (b_src b) r.

(* TriggerBroker.AddConnection (after the fix: the source index is range-checked like the receiver) *)
Definition add_connection (b : broker) (s r : Z) : broker :=
  if s =? r then b
  else if negb (in_range (b_n b) r) then b
  else if negb (in_range (b_n b) s) then b
  else if zmem s (srcs b r) then b
  else {| b_n := b_n b; b_src := zupd (b_src b) r (s :: srcs b r); b_cnt := b_cnt b + 1 |}.

(* the code before the fix: any source index is stored *)
Definition add_connection_old (b : broker) (s r : Z) : broker :=
  if s =? r then b
  else if negb (in_range (b_n b) r) then b
  else if zmem s (srcs b r) then b
  else {| b_n := b_n b; b_src := zupd (b_src b) r (s :: srcs b r); b_cnt := b_cnt b + 1 |}.

(* TriggerBroker.DeleteConnection *)
Definition delete_connection (b : broker) (s r : Z) : broker :=
  if negb (in_range (b_n b) r) then b
  else {| b_n := b_n b;
          b_src := zupd (b_src b) r (zremove s (srcs b r));
          b_cnt := if zmem s (srcs b r) then b_cnt b - 1 else b_cnt b |}.

(* TriggerBroker.StopTriggerCoupling *)
Definition stop_coupling (b : broker) : broker :=
  {| b_n := b_n b; b_src := map (fun _ => []) (b_src b); b_cnt := 0 |}.

(* TriggerBroker.isConnected *)
Definition connected (b : broker) (s r : Z) : bool := in_range (b_n b) r && zmem s (srcs b r).

(* CouplingStatus: NoCoupling = 1, FBToErr = 2, ErrToFB = 3 *)
Inductive kind := Generic | Lancero.

(* for i := 0; i < nchan; i += 2 *)
Definition pair_starts (n : Z) : list Z := map (fun k => 2 * k) (zrange 0 ((n + 1) / 2)).

Inductive edit :=
| EAdd (conns : list (Z * list Z))     (* AddGroupTriggerCoupling *)
| EDel (conns : list (Z * list Z))     (* DeleteGroupTriggerCoupling *)
| EStop                                (* StopTriggerCoupling (RPC): stop, then SetCoupling(NoCoupling) *)
| ECouple (status : Z).                (* CoupleErrToFB / CoupleFBToErr: SetCoupling(status) *)

Section Adder.
  Variable add : broker -> Z -> Z -> broker.

  (* LanceroSource.SetCoupling *)
  Definition set_coupling_lancero (b : broker) (status : Z) : broker :=
    let ps := pair_starts (b_n b) in
    let b1 := fold_left (fun b i => if status =? 3 then add b i (i + 1) else delete_connection b i (i + 1)) ps b in
    fold_left (fun b i => if status =? 2 then add b (i + 1) i else delete_connection b (i + 1) i) ps b1.

  (* AnySource.SetCoupling: NoCoupling is accepted, anything else is an error; the broker is never touched *)
  Definition set_coupling (k : kind) (b : broker) (status : Z) : broker :=
    match k with Generic => b | Lancero => set_coupling_lancero b status end.

  (* AnySource.ChangeGroupTrigger: gts.Connections[source] = receivers *)
  Definition change_group (turnon : bool) (conns : list (Z * list Z)) (b : broker) : broker :=
    fold_left (fun b sr =>
                 fold_left (fun b r => if turnon then add b (fst sr) r else delete_connection b (fst sr) r)
                           (snd sr) b)
              conns b.

  Definition apply_edit (k : kind) (b : broker) (e : edit) : broker :=
    match e with
    | EAdd c => change_group true c b
    | EDel c => change_group false c b
    | EStop => set_coupling k (stop_coupling b) 1
    | ECouple st => set_coupling k b st
    end.
End Adder.

(* computeGroupTriggerState, flattened to (source, receiver) pairs *)
Definition report_pairs (b : broker) : list (Z * Z) :=
  flat_map (fun r => map (fun s => (s, r)) (srcs b r)) (zrange 0 (zlen (b_src b))).

(* the primaries of the sources of one receiver, concatenated: latestPrimaries[source] panics when the
   index is outside the table *)
Definition gather (prims : list (list Z)) (ss : list Z) : res (list Z) :=
  match mapM (fun s => if in_range (zlen prims) s then Ok (znth [] prims s) else Panic) ss with
  | Panic => Panic
  | Ok ls => Ok (concat ls)
  end.

(* TriggerBroker.Distribute: per receiver, the sorted secondary frames ([] = no entry in the map) *)
Definition distribute (b : broker) (prims : list (list Z)) : res (list (list Z)) :=
  let nprimaries := zsum (map zlen prims) in
  if (nprimaries =? 0) || (b_cnt b =? 0) then Ok (map (fun _ => []) (zrange 0 (b_n b)))
  else mapM (fun idx => match srcs b idx with
                        | [] => Ok []
                        | ss => match gather prims ss with Panic => Panic | Ok l => Ok (zsort l) end
                        end)
            (zrange 0 (b_n b)).

(* ---------- the cycle of ProcessSegments ---------- *)
Record block := { blk_first : Z; blk_time : Z; blk_period : Z; blk_chans : list (list Z * bool) }.

Definition seg_of (blk : block) (c : list Z * bool) : segment :=
  {| seg_data := fst c; seg_first := blk_first blk; seg_time := blk_time blk;
     seg_period := blk_period blk; seg_signed := snd c |}.

(* TriggerDataSecondary *)
Definition secondaries (npre nsamp : Z) (st : stream) (flist : list Z) : res (list record) :=
  mapM (fun f => trigger_at st (f - st_first st) npre nsamp) flist.

Fixpoint map2 {A B C} (f : A -> B -> C) (a : list A) (b : list B) : list C :=
  match a, b with
  | x :: a', y :: b' => f x y :: map2 f a' b'
  | _, _ => []
  end.

(* EMTState.NToKeepOnTrim *)
Definition n_to_keep (nsamp : Z) : Z := 2 * nsamp + 10.

(* One ProcessSegments call.  keeps = how many samples each channel retains when trimming.
   Result: the streams after the cycle and, per channel, the secondary records in publication order. *)
Definition cycle_with (keeps : list Z) (npre nsamp : Z) (b : broker) (sts : list stream)
                      (blk : block) (prims : list (list Z)) : res (list stream * list (list record)) :=
  if negb (zlen (blk_chans blk) =? zlen sts) then Panic        (* "Oh crap! dataBlock contains ..." *)
  else
    let sts1 := map2 append sts (map (seg_of blk) (blk_chans blk)) in
    match distribute b prims with
    | Panic => Panic
    | Ok secs =>
        match mapM (fun sf => secondaries npre nsamp (fst sf) (snd sf)) (combine sts1 secs) with
        | Panic => Panic
        | Ok recs => Ok (map2 trim keeps sts1, recs)
        end
    end.

Definition cycle (npre nsamp : Z) (b : broker) (sts : list stream) (blk : block) (prims : list (list Z)) :=
  cycle_with (map (fun _ => n_to_keep nsamp) sts) npre nsamp b sts blk prims.

(* ---------- histories ---------- *)
Inductive op :=
| OEdit (e : edit)
| OCycle (blk : block) (prims : list (list Z))
| ORestart.     (* SourceControl.Stop, then SourceControl.Start of the same source *)

Inductive obs :=
| ORep (pairs : list (Z * Z)) (cnt : Z) (coup : Z)
      (* after a request: what a client knows = the last GROUPTRIGGER message; the broker's connection counter
         and the last TRIGCOUPLING message (0: none yet) are compared with the model only, never judged *)
| OSec (recs : list (list record))   (* per channel, the secondary records of the cycle *)
| OCrash.                            (* the process died in this step *)

(* m_view = the last GROUPTRIGGER client update, m_coup = the last TRIGCOUPLING client update (0: none) *)
Record mstate := { m_b : broker; m_sts : list stream; m_view : list (Z * Z); m_coup : Z }.

(* PrepareRun: a new broker and new processors (empty streams) *)
Definition fresh_streams (n : Z) : list stream := map (fun _ => empty_stream) (zrange 0 n).

Definition init_state (n : Z) : mstate :=
  {| m_b := new_broker n; m_sts := fresh_streams n;
     m_view := [] (* Start broadcasts the fresh broker's state *); m_coup := 0 |}.

Record config := { cf_kind : kind; cf_n : Z; cf_npre : Z; cf_nsamp : Z }.

Section Run.
  Variable add : broker -> Z -> Z -> broker.
  Variable keeps_of : config -> list stream -> list Z.
  Variable couple_reports : bool.   (* CoupleErrToFB / CoupleFBToErr send GROUPTRIGGER (after the fix) *)

  (* the RPC layer (rpc_server.go): changeGroupTriggerCoupling, StopTriggerCoupling, CoupleErrToFB/CoupleFBToErr.
     Result: the broker, the GROUPTRIGGER update sent (if any), the TRIGCOUPLING update sent (if any). *)
  Definition rpc_edit (k : kind) (b : broker) (e : edit) : broker * option (list (Z * Z)) * option Z :=
    match e with
    | EAdd c => let b' := change_group add true c b in (b', Some (report_pairs b'), None)
    | EDel c => let b' := change_group add false c b in (b', Some (report_pairs b'), None)
    | EStop => let b1 := stop_coupling b in (set_coupling add k b1 1, Some (report_pairs b1), Some 1)
    | ECouple st => let b' := set_coupling add k b st in
                    (b', if couple_reports then Some (report_pairs b') else None, Some st)
    end.

  Definition step_with (cf : config) (m : mstate) (o : op) : res mstate * obs :=
    match o with
    | OEdit e =>
        match rpc_edit (cf_kind cf) (m_b m) e with
        | (b', gt, tc) =>
            let view := match gt with Some v => v | None => m_view m end in
            let coup := match tc with Some c => c | None => m_coup m end in
            (Ok {| m_b := b'; m_sts := m_sts m; m_view := view; m_coup := coup |}, ORep view (b_cnt b') coup)
        end
    | OCycle blk prims =>
        match cycle_with (keeps_of cf (m_sts m)) (cf_npre cf) (cf_nsamp cf) (m_b m) (m_sts m) blk prims with
        | Panic => (Panic, OCrash)
        | Ok (sts', recs) =>
            (Ok {| m_b := m_b m; m_sts := sts'; m_view := m_view m; m_coup := m_coup m |}, OSec recs)
        end
    | ORestart =>
        (* Start -> PrepareRun discards the broker and the processors; SourceControl.Start then broadcasts the
           group trigger state of the new broker (broadcastGroupTriggerState); no TRIGCOUPLING update is sent *)
        let b' := new_broker (cf_n cf) in
        (Ok {| m_b := b'; m_sts := fresh_streams (cf_n cf); m_view := report_pairs b'; m_coup := m_coup m |},
         ORep (report_pairs b') (b_cnt b') (m_coup m))
    end.

  (* the observations of a history; nothing follows a crash *)
  Fixpoint run_with (cf : config) (m : mstate) (ops : list op) : list obs :=
    match ops with
    | [] => []
    | o :: rest =>
        match step_with cf m o with
        | (Ok m', ob) => ob :: run_with cf m' rest
        | (Panic, ob) => [ob]
        end
    end.
End Run.

Definition keeps_fixed (cf : config) (sts : list stream) : list Z := map (fun _ => n_to_keep (cf_nsamp cf)) sts.

Definition step := step_with add_connection keeps_fixed true.
Definition run (cf : config) (ops : list op) : list obs :=
  run_with add_connection keeps_fixed true cf (init_state (cf_n cf)) ops.

(* state after a sequence of edits only *)
Definition run_edits (k : kind) (b : broker) (es : list edit) : broker :=
  fold_left (apply_edit add_connection k) es b.
