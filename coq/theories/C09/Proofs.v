(* C09 — invariants, lemmas and proofs. *)
From Coq Require Import Permutation.
From Coq Require Import ZifyBool ZifyNat.
From Dastard Require Import Common.ZX Pipeline.Stream C09.Model C09.Spec.

(* ====================================================================================== *)
(* list plumbing                                                                          *)
(* ====================================================================================== *)

Lemma znth_nth {A} (d : A) l i : 0 <= i -> znth d l i = nth (Z.to_nat i) l d.
Proof. intros H. unfold znth. destruct (i <? 0) eqn:E; [lia | reflexivity]. Qed.

Lemma znth_neg {A} (d : A) l i : i < 0 -> znth d l i = d.
Proof. intros H. unfold znth. destruct (i <? 0) eqn:E; [reflexivity | lia]. Qed.

Lemma znth_overflow {A} (d : A) l i : zlen l <= i -> znth d l i = d.
Proof.
  intros H. pose proof (zlen_nonneg l). rewrite znth_nth by lia. apply nth_overflow. unfold zlen in *. lia.
Qed.

Lemma znth_In {A} (d : A) l i : 0 <= i < zlen l -> In (znth d l i) l.
Proof. intros H. rewrite znth_nth by lia. apply nth_In. unfold zlen in *. lia. Qed.

Lemma In_znth {A} (d : A) l x : In x l -> exists i, 0 <= i < zlen l /\ znth d l i = x.
Proof.
  intros H. destruct (In_nth _ _ d H) as [k [Hk E]]. exists (Z.of_nat k). split; [unfold zlen; lia|].
  rewrite znth_nth by lia. now rewrite Nat2Z.id.
Qed.

Lemma znth_cons_0 {A} (d : A) x l : znth d (x :: l) 0 = x.
Proof. reflexivity. Qed.

Lemma znth_cons_S {A} (d : A) x l i : 0 < i -> znth d (x :: l) i = znth d l (i - 1).
Proof.
  intros H. rewrite !znth_nth by lia. replace (Z.to_nat i) with (S (Z.to_nat (i - 1))) by lia. reflexivity.
Qed.

Lemma zlen_cons {A} (x : A) l : zlen (x :: l) = 1 + zlen l.
Proof. unfold zlen. cbn [length]. lia. Qed.

Lemma zlen_nil A : zlen (@nil A) = 0.
Proof. reflexivity. Qed.

Lemma zlen_map {A B} (f : A -> B) l : zlen (map f l) = zlen l.
Proof. unfold zlen. now rewrite map_length. Qed.

Lemma zlen_zero_nil {A} (l : list A) : zlen l = 0 -> l = [].
Proof. destruct l; [reflexivity | rewrite zlen_cons; pose proof (zlen_nonneg l); lia]. Qed.

Lemma znth_map {A B} (d : B) (d' : A) (f : A -> B) l i :
  0 <= i < zlen l -> znth d (map f l) i = f (znth d' l i).
Proof.
  intros H. rewrite !znth_nth by lia. rewrite nth_indep with (d' := f d').
  - apply map_nth.
  - rewrite map_length. unfold zlen in *. lia.
Qed.

(* induction principle on the index *)
Lemma list_ext_znth {A} (d : A) (a b : list A) :
  zlen a = zlen b -> (forall i, 0 <= i < zlen a -> znth d a i = znth d b i) -> a = b.
Proof.
  intros Hl H. apply nth_ext with (d := d) (d' := d); [unfold zlen in *; lia|].
  intros k Hk. specialize (H (Z.of_nat k) ltac:(unfold zlen; lia)).
  rewrite !znth_nth in H by lia. now rewrite Nat2Z.id in H.
Qed.

Lemma In_zrange a n x : In x (zrange a n) <-> a <= x < a + n.
Proof.
  unfold zrange. remember (Z.to_nat n) as k eqn:Ek. split.
  - intros H. assert (a <= x < a + Z.of_nat k); [|lia]. clear Ek. revert a H.
    induction k as [|k IH]; intros a H; cbn [zrange_nat In] in H; [tauto|].
    destruct H as [H|H]; [lia|]. apply IH in H. lia.
  - intros H. assert (Hk : a <= x < a + Z.of_nat k) by lia. clear Ek H. revert a Hk.
    induction k as [|k IH]; intros a H; [lia|]. cbn [zrange_nat In].
    destruct (Z.eq_dec a x); [now left | right]. apply IH. lia.
Qed.

Lemma NoDup_zrange a n : NoDup (zrange a n).
Proof.
  unfold zrange. generalize (Z.to_nat n). intros k. revert a.
  induction k as [|k IH]; intros a; cbn [zrange_nat]; constructor; [|apply IH].
  intros H. assert (In a (zrange (a + 1) (Z.of_nat k))) by (unfold zrange; now rewrite Nat2Z.id).
  apply In_zrange in H0. lia.
Qed.

Lemma znth_zrange a n i : 0 <= i < n -> znth 0 (zrange a n) i = a + i.
Proof.
  intros H. rewrite znth_nth by lia. unfold zrange. rewrite zrange_nat_nth by lia. lia.
Qed.

(* ---- zupd ---- *)
Lemma upd_nat_length {A} (l : list A) i v : length (upd_nat l i v) = length l.
Proof. revert i; induction l as [|h t IH]; intros [|i]; cbn [upd_nat length]; auto. Qed.

Lemma zlen_zupd {A} (l : list A) i v : zlen (zupd l i v) = zlen l.
Proof. unfold zupd. destruct (i <? 0); [reflexivity|]. unfold zlen. now rewrite upd_nat_length. Qed.

Lemma upd_nat_nth_same {A} (d : A) l i v : (i < length l)%nat -> nth i (upd_nat l i v) d = v.
Proof. revert i; induction l as [|h t IH]; intros [|i] H; cbn [upd_nat nth length] in *; try lia; auto. apply IH. lia. Qed.

Lemma upd_nat_nth_other {A} (d : A) l i j v : i <> j -> nth j (upd_nat l i v) d = nth j l d.
Proof.
  revert i j; induction l as [|h t IH]; intros [|i] [|j] H; cbn [upd_nat nth]; try reflexivity; try lia.
  apply IH. lia.
Qed.

Lemma znth_zupd_same {A} (d : A) l i v : 0 <= i < zlen l -> znth d (zupd l i v) i = v.
Proof.
  intros H. unfold zupd. destruct (i <? 0) eqn:E; [lia|]. rewrite znth_nth by lia.
  apply upd_nat_nth_same. unfold zlen in *. lia.
Qed.

Lemma znth_zupd_other {A} (d : A) l i j v : i <> j -> znth d (zupd l i v) j = znth d l j.
Proof.
  intros H. unfold zupd. destruct (i <? 0) eqn:E; [reflexivity|].
  destruct (j <? 0) eqn:Ej; [now rewrite !znth_neg by lia|].
  rewrite !znth_nth by lia. apply upd_nat_nth_other. lia.
Qed.

Lemma zsum_upd_nat (l : list (list Z)) i v :
  (i < length l)%nat ->
  zsum (map zlen (upd_nat l i v)) = zsum (map zlen l) - zlen (nth i l []) + zlen v.
Proof.
  revert i; induction l as [|h t IH]; intros [|i] H; cbn [upd_nat map zsum fold_right nth length] in *; try lia.
  fold (zsum (map zlen (upd_nat t i v))). fold (zsum (map zlen t)). rewrite IH by lia. lia.
Qed.

Lemma zsum_zupd (l : list (list Z)) i v :
  0 <= i < zlen l ->
  zsum (map zlen (zupd l i v)) = zsum (map zlen l) - zlen (znth [] l i) + zlen v.
Proof.
  intros H. unfold zupd. destruct (i <? 0) eqn:E; [lia|]. rewrite znth_nth by lia.
  apply zsum_upd_nat. unfold zlen in *. lia.
Qed.

(* ---- zmem / zremove ---- *)
Lemma zmem_In x l : zmem x l = true <-> In x l.
Proof.
  unfold zmem. rewrite existsb_exists. split.
  - intros [y [Hy E]]. apply Z.eqb_eq in E. now subst.
  - intros H. exists x. split; [assumption | apply Z.eqb_refl].
Qed.

Lemma zmem_false x l : zmem x l = false <-> ~ In x l.
Proof. rewrite <- zmem_In. destruct (zmem x l); split; congruence. Qed.

Lemma In_zremove x y l : In y (zremove x l) <-> In y l /\ y <> x.
Proof. unfold zremove. rewrite filter_In. rewrite negb_true_iff, Z.eqb_neq. tauto. Qed.

Lemma NoDup_zremove x l : NoDup l -> NoDup (zremove x l).
Proof. apply NoDup_filter. Qed.

Lemma zlen_zremove_notin x l : ~ In x l -> zremove x l = l.
Proof.
  induction l as [|h t IH]; intros H; [reflexivity|]. unfold zremove in *. cbn [filter].
  destruct (h =? x) eqn:E; [exfalso; apply H; left; lia|]. cbn [negb]. f_equal. apply IH. intros H1; apply H; now right.
Qed.

Lemma zlen_zremove_in x l : NoDup l -> In x l -> zlen (zremove x l) = zlen l - 1.
Proof.
  induction l as [|h t IH]; intros Hnd Hin; [destruct Hin|].
  inversion Hnd as [|? ? Hnot Hnd']; subst. unfold zremove in *. cbn [filter]. rewrite zlen_cons.
  destruct (h =? x) eqn:E; cbn [negb].
  - assert (h = x) by lia. subst h. fold (zremove x t). rewrite zlen_zremove_notin by assumption. lia.
  - rewrite zlen_cons. destruct Hin as [Hin|Hin]; [lia|]. rewrite IH by assumption. lia.
Qed.

(* ---- sorting ---- *)
Lemma zinsert_perm x l : Permutation (zinsert x l) (x :: l).
Proof.
  induction l as [|y t IH]; cbn [zinsert]; [apply Permutation_refl|].
  destruct (x <=? y); [apply Permutation_refl|].
  eapply perm_trans; [apply perm_skip, IH | apply perm_swap].
Qed.

Lemma zsort_perm l : Permutation (zsort l) l.
Proof.
  induction l as [|x t IH]; cbn [zsort fold_right]; [constructor|].
  eapply perm_trans; [apply zinsert_perm | now apply perm_skip].
Qed.

Lemma zcount_perm x a b : Permutation a b -> zcount x a = zcount x b.
Proof.
  intros H. unfold zcount. induction H; cbn [filter]; try reflexivity.
  - destruct (x =? x0); [rewrite !zlen_cons; lia | assumption].
  - destruct (x =? y), (x =? x0); rewrite ?zlen_cons; lia.
  - lia.
Qed.

Lemma multiset_eqb_perm a b : Permutation a b -> multiset_eqb a b = true.
Proof.
  intros H. unfold multiset_eqb. apply forallb_forall. intros x _. apply Z.eqb_eq. now apply zcount_perm.
Qed.

Lemma Permutation_concat {A} (l l' : list (list A)) : Permutation l l' -> Permutation (concat l) (concat l').
Proof.
  intros H. induction H; cbn [concat].
  - constructor.
  - now apply Permutation_app_head.
  - rewrite !app_assoc. apply Permutation_app_tail. apply Permutation_app_comm.
  - eapply perm_trans; eassumption.
Qed.

(* ---- mapM ---- *)
Lemma mapM_ok_inv {A B} (f : A -> res B) l ys :
  mapM f l = Ok ys -> Forall2 (fun x y => f x = Ok y) l ys.
Proof.
  revert ys; induction l as [|x t IH]; intros ys H; cbn [mapM] in H.
  - inversion H. constructor.
  - destruct (f x) eqn:E; [|discriminate]. destruct (mapM f t) eqn:E2; [|discriminate].
    inversion H; subst. constructor; [assumption | now apply IH].
Qed.

Lemma mapM_ok_intro {A B} (f : A -> res B) l ys :
  Forall2 (fun x y => f x = Ok y) l ys -> mapM f l = Ok ys.
Proof. intros H. induction H; cbn [mapM]; [reflexivity|]. now rewrite H, IHForall2. Qed.

Lemma mapM_total {A B} (f : A -> res B) l :
  (forall x, In x l -> exists y, f x = Ok y) -> exists ys, mapM f l = Ok ys.
Proof.
  induction l as [|x t IH]; intros H; cbn [mapM]; [eauto|].
  destruct (H x (or_introl eq_refl)) as [y Hy]. rewrite Hy.
  destruct IH as [ys Hys]; [intros; apply H; now right|]. rewrite Hys. eauto.
Qed.

Lemma Forall2_zlen {A B} (P : A -> B -> Prop) l1 l2 : Forall2 P l1 l2 -> zlen l1 = zlen l2.
Proof. intros H. induction H; [reflexivity | rewrite !zlen_cons; lia]. Qed.

Lemma Forall2_znth {A B} (P : A -> B -> Prop) d1 d2 l1 l2 i :
  Forall2 P l1 l2 -> 0 <= i < zlen l1 -> P (znth d1 l1 i) (znth d2 l2 i).
Proof.
  intros H. revert i. induction H; intros i Hi; [unfold zlen in Hi; cbn [length] in Hi; lia|].
  rewrite zlen_cons in Hi. destruct (Z.eq_dec i 0) as [->|Hn]; [assumption|].
  rewrite !znth_cons_S by lia. apply IHForall2. lia.
Qed.

(* ---- map2 / combine ---- *)
Lemma zlen_map2 {A B C} (f : A -> B -> C) a b : zlen (map2 f a b) = Z.min (zlen a) (zlen b).
Proof.
  revert b; induction a as [|x a IH]; intros [|y b]; cbn [map2]; rewrite ?zlen_cons, ?zlen_nil;
    try (pose proof (zlen_nonneg a)); try (pose proof (zlen_nonneg b)); try lia.
  rewrite IH. lia.
Qed.

Lemma znth_map2 {A B C} (dc : C) (da : A) (db : B) (f : A -> B -> C) a b i :
  0 <= i < zlen a -> 0 <= i < zlen b -> znth dc (map2 f a b) i = f (znth da a i) (znth db b i).
Proof.
  revert b i; induction a as [|x a IH]; intros [|y b] i Ha Hb; rewrite ?zlen_nil, ?zlen_cons in *; try lia.
  cbn [map2]. destruct (Z.eq_dec i 0) as [->|Hn]; [reflexivity|].
  rewrite !znth_cons_S by lia. apply IH; lia.
Qed.

Lemma zlen_combine {A B} (a : list A) (b : list B) : zlen (combine a b) = Z.min (zlen a) (zlen b).
Proof. unfold zlen. rewrite combine_length. lia. Qed.

Lemma znth_combine {A B} (da : A) (db : B) a b i :
  0 <= i < zlen a -> 0 <= i < zlen b -> znth (da, db) (combine a b) i = (znth da a i, znth db b i).
Proof.
  revert b i; induction a as [|x a IH]; intros [|y b] i Ha Hb; rewrite ?zlen_nil, ?zlen_cons in *; try lia.
  cbn [combine]. destruct (Z.eq_dec i 0) as [->|Hn]; [reflexivity|].
  rewrite !znth_cons_S by lia. apply IH; lia.
Qed.

(* ====================================================================================== *)
(* the broker: invariant and set semantics                                                *)
(* ====================================================================================== *)

Record BInv (n : Z) (b : broker) : Prop := {
  bi_n : b_n b = n;
  bi_len : zlen (b_src b) = n;
  bi_nodup : forall r, 0 <= r < n -> NoDup (srcs b r);
  bi_range : forall r s, 0 <= r < n -> In s (srcs b r) -> 0 <= s < n /\ s <> r;
  bi_cnt : b_cnt b = zsum (map zlen (b_src b))
}.

(* the broker's connections are exactly the relation R *)
Definition Rep (b : broker) (R : rel) : Prop := forall s r, connected b s r = R s r.

Lemma in_range_iff n x : in_range n x = true <-> 0 <= x < n.
Proof. unfold in_range. lia. Qed.
Lemma chan_ok_iff n x : chan_ok n x = true <-> 0 <= x < n.
Proof. unfold chan_ok. lia. Qed.
Lemma chan_ok_in_range n x : chan_ok n x = in_range n x.
Proof. reflexivity. Qed.

Lemma zsum_map_nil {A} (l : list A) : zsum (map zlen (map (fun _ => @nil Z) l)) = 0.
Proof. induction l; cbn [map zsum fold_right]; [reflexivity|]. fold (zsum (map zlen (map (fun _ => @nil Z) l))). rewrite IHl. reflexivity. Qed.

Lemma znth_map_nil {A} (l : list A) r : znth [] (map (fun _ => @nil Z) l) r = [].
Proof.
  destruct (Z_lt_dec r 0); [now apply znth_neg|].
  destruct (Z_lt_dec r (zlen l)).
  - destruct l as [|a l']; [rewrite zlen_nil in *; lia|]. now rewrite znth_map with (d' := a) by lia.
  - apply znth_overflow. rewrite zlen_map. lia.
Qed.

Lemma new_broker_inv n : 0 <= n -> BInv n (new_broker n).
Proof.
  intros Hn. unfold new_broker. split; cbn [b_n b_src b_cnt]; unfold srcs; cbn [b_src].
  - reflexivity.
  - rewrite zlen_map, zrange_length. lia.
  - intros r _. rewrite znth_map_nil. constructor.
  - intros r s _ H. rewrite znth_map_nil in H. destruct H.
  - now rewrite zsum_map_nil.
Qed.

Lemma new_broker_rep n : Rep (new_broker n) rel_empty.
Proof.
  intros s r. unfold connected, srcs, new_broker, rel_empty. cbn [b_n b_src].
  rewrite znth_map_nil. cbn [zmem existsb]. apply andb_false_r.
Qed.

Lemma zmem_cons x y l : zmem x (y :: l) = (x =? y) || zmem x l.
Proof. reflexivity. Qed.

Lemma zmem_zremove x y l : zmem x (zremove y l) = negb (x =? y) && zmem x l.
Proof.
  destruct (zmem x (zremove y l)) eqn:E.
  - apply zmem_In, In_zremove in E as [E1 E2]. apply zmem_In in E1. rewrite E1. lia.
  - apply zmem_false in E. destruct (x =? y) eqn:Exy; [reflexivity|]. cbn [negb andb].
    symmetry. apply zmem_false. intros H. apply E. apply In_zremove. split; [assumption | lia].
Qed.

(* what replacing the sources of one receiver does *)
Lemma srcs_upd_same b r v cnt :
  0 <= r < zlen (b_src b) -> srcs {| b_n := b_n b; b_src := zupd (b_src b) r v; b_cnt := cnt |} r = v.
Proof. intros H. unfold srcs. cbn [b_src]. now apply znth_zupd_same. Qed.

Lemma srcs_upd_other b r r' v cnt :
  r <> r' -> srcs {| b_n := b_n b; b_src := zupd (b_src b) r v; b_cnt := cnt |} r' = srcs b r'.
Proof. intros H. unfold srcs. cbn [b_src]. now apply znth_zupd_other. Qed.

Lemma upd_inv n b r v cnt :
  BInv n b -> 0 <= r < n -> NoDup v -> (forall s, In s v -> 0 <= s < n /\ s <> r) ->
  cnt = b_cnt b - zlen (srcs b r) + zlen v ->
  BInv n {| b_n := b_n b; b_src := zupd (b_src b) r v; b_cnt := cnt |}.
Proof.
  intros [Hn Hl Hnd Hr Hc] Hrr Hv Hvr Hcnt. split; cbn [b_n b_cnt].
  - assumption.
  - cbn [b_src]. now rewrite zlen_zupd.
  - intros r' Hr'. destruct (Z.eq_dec r r') as [<-|Hne].
    + rewrite srcs_upd_same by lia. assumption.
    + rewrite srcs_upd_other by assumption. now apply Hnd.
  - intros r' s Hr'. destruct (Z.eq_dec r r') as [<-|Hne].
    + rewrite srcs_upd_same by lia. apply Hvr.
    + rewrite srcs_upd_other by assumption. now apply Hr.
  - cbn [b_src]. rewrite zsum_zupd by lia. unfold srcs in Hcnt. lia.
Qed.

Lemma add_inv n b s r : BInv n b -> BInv n (add_connection b s r).
Proof.
  intros H. pose proof H as [Hn Hl Hnd Hr Hc]. unfold add_connection.
  destruct (s =? r) eqn:Esr; [assumption|].
  destruct (in_range (b_n b) r) eqn:Er; cbn [negb]; [|assumption].
  destruct (in_range (b_n b) s) eqn:Es; cbn [negb]; [|assumption].
  destruct (zmem s (srcs b r)) eqn:Em; [assumption|].
  rewrite Hn in Er, Es. apply in_range_iff in Er, Es. apply zmem_false in Em.
  apply upd_inv; try assumption.
  - constructor; [assumption | now apply Hnd].
  - intros s' [<-|Hin]; [lia | now apply Hr].
  - rewrite zlen_cons. lia.
Qed.

Lemma valid_pair_iff n s r : valid_pair n s r = true <-> 0 <= s < n /\ 0 <= r < n /\ s <> r.
Proof. unfold valid_pair, chan_ok. lia. Qed.

Lemma add_rep n b R s r : BInv n b -> Rep b R -> Rep (add_connection b s r) (rel_add n R s r).
Proof.
  intros [Hn Hl Hnd Hr Hc] HR s' r'. unfold add_connection, rel_add.
  destruct (s =? r) eqn:Esr.
  { replace (valid_pair n s r) with false by (unfold valid_pair; lia). apply HR. }
  destruct (in_range (b_n b) r) eqn:Er; cbn [negb].
  2:{ replace (valid_pair n s r) with false by (unfold valid_pair, chan_ok, in_range in *; lia). apply HR. }
  destruct (in_range (b_n b) s) eqn:Es; cbn [negb].
  2:{ replace (valid_pair n s r) with false by (unfold valid_pair, chan_ok, in_range in *; lia). apply HR. }
  replace (valid_pair n s r) with true by (unfold valid_pair, chan_ok, in_range in *; lia).
  rewrite Hn in Er, Es. apply in_range_iff in Er, Es.
  destruct (zmem s (srcs b r)) eqn:Em.
  - rewrite <- HR. destruct ((s' =? s) && (r' =? r)) eqn:E; [|reflexivity].
    assert (s' = s /\ r' = r) as [-> ->] by lia. cbn [orb]. unfold connected. rewrite Em, Hn.
    unfold in_range. lia.
  - rewrite <- HR. unfold connected. cbn [b_n]. destruct (Z.eq_dec r r') as [<-|Hne].
    + rewrite srcs_upd_same by lia. rewrite zmem_cons. rewrite Z.eqb_refl. rewrite Hn.
      unfold in_range. destruct (zmem s' (srcs b r)), (s' =? s); lia.
    + rewrite srcs_upd_other by assumption. replace (r' =? r) with false by lia. now rewrite andb_false_r.
Qed.

Lemma delete_inv n b s r : BInv n b -> BInv n (delete_connection b s r).
Proof.
  intros H. pose proof H as [Hn Hl Hnd Hr Hc]. unfold delete_connection.
  destruct (in_range (b_n b) r) eqn:Er; cbn [negb]; [|assumption].
  rewrite Hn in Er. apply in_range_iff in Er.
  apply upd_inv; try assumption.
  - apply NoDup_zremove. now apply Hnd.
  - intros s' Hin. apply In_zremove in Hin as [Hin _]. now apply Hr.
  - destruct (zmem s (srcs b r)) eqn:Em.
    + apply zmem_In in Em. rewrite zlen_zremove_in; [lia | now apply Hnd | assumption].
    + apply zmem_false in Em. rewrite zlen_zremove_notin by assumption. lia.
Qed.

Lemma delete_rep n b R s r : BInv n b -> Rep b R -> Rep (delete_connection b s r) (rel_del R s r).
Proof.
  intros [Hn Hl Hnd Hr Hc] HR s' r'. unfold delete_connection, rel_del.
  destruct (in_range (b_n b) r) eqn:Er; cbn [negb].
  - rewrite Hn in Er. apply in_range_iff in Er. rewrite <- HR. unfold connected. cbn [b_n].
    destruct (Z.eq_dec r r') as [<-|Hne].
    + rewrite srcs_upd_same by lia. rewrite zmem_zremove. rewrite Z.eqb_refl.
      destruct (zmem s' (srcs b r)), (s' =? s), (in_range (b_n b) r); reflexivity.
    + rewrite srcs_upd_other by assumption. replace (r' =? r) with false by lia.
      now rewrite andb_false_r.
  - rewrite <- HR. destruct ((s' =? s) && (r' =? r)) eqn:E; [|reflexivity].
    assert (s' = s /\ r' = r) as [-> ->] by lia. unfold connected. rewrite Er. reflexivity.
Qed.

Lemma stop_inv n b : BInv n b -> BInv n (stop_coupling b).
Proof.
  intros [Hn Hl Hnd Hr Hc]. unfold stop_coupling. split; cbn [b_n b_src b_cnt]; unfold srcs; cbn [b_src].
  - assumption.
  - now rewrite zlen_map.
  - intros r _. rewrite znth_map_nil. constructor.
  - intros r s _ H. rewrite znth_map_nil in H. destruct H.
  - now rewrite zsum_map_nil.
Qed.

Lemma stop_rep b : Rep (stop_coupling b) rel_empty.
Proof.
  intros s r. unfold connected, srcs, stop_coupling, rel_empty. cbn [b_n b_src].
  rewrite znth_map_nil. cbn [zmem existsb]. apply andb_false_r.
Qed.

(* relations that hold only between distinct channels *)
Definition RValid (n : Z) (R : rel) : Prop := forall s r, R s r = true -> valid_pair n s r = true.

Lemma rep_valid n b R : BInv n b -> Rep b R -> RValid n R.
Proof.
  intros [Hn Hl Hnd Hr Hc] HR s r H. rewrite <- HR in H. unfold connected in H.
  apply andb_true_iff in H as [H1 H2]. rewrite Hn in H1. apply in_range_iff in H1. apply zmem_In in H2.
  apply valid_pair_iff. destruct (Hr r s H1 H2). lia.
Qed.

(* ---- folds of edits ---- *)
Lemma fold_sync {X} n (fb : broker -> X -> broker) (fR : rel -> X -> rel) :
  (forall b R x, BInv n b -> Rep b R -> BInv n (fb b x) /\ Rep (fb b x) (fR R x)) ->
  forall xs b R, BInv n b -> Rep b R ->
    BInv n (fold_left fb xs b) /\ Rep (fold_left fb xs b) (fold_left fR xs R).
Proof.
  intros Hstep xs. induction xs as [|x xs IH]; intros b R Hb HR; cbn [fold_left]; [now split|].
  destruct (Hstep b R x Hb HR) as [Hb' HR']. now apply IH.
Qed.

Definition rel_set (n : Z) (on : bool) (R : rel) (s r : Z) : rel :=
  if on then rel_add n R s r else rel_del R s r.

Lemma set_sync n (on : bool) b R s r : BInv n b -> Rep b R ->
  BInv n (if on then add_connection b s r else delete_connection b s r) /\
  Rep (if on then add_connection b s r else delete_connection b s r) (rel_set n on R s r).
Proof.
  intros Hb HR. unfold rel_set. destruct on; split;
    [now apply add_inv | now apply (add_rep n) | now apply delete_inv | now apply (delete_rep n)].
Qed.

Lemma change_group_sync n turnon conns b R : BInv n b -> Rep b R ->
  BInv n (change_group add_connection turnon conns b) /\
  Rep (change_group add_connection turnon conns b) (rel_change n turnon conns R).
Proof.
  unfold change_group, rel_change. revert b R. apply (fold_sync n). intros b R sr Hb HR.
  revert b R Hb HR. apply (fold_sync n). intros b R r Hb HR. apply (set_sync n turnon b R (fst sr) r Hb HR).
Qed.

(* the fold that LanceroSource.SetCoupling performs, on relations *)
Definition rel_couple_fold (n : Z) (R : rel) (status : Z) : rel :=
  let ps := pair_starts n in
  let R1 := fold_left (fun R i => rel_set n (status =? 3) R i (i + 1)) ps R in
  fold_left (fun R i => rel_set n (status =? 2) R (i + 1) i) ps R1.

Lemma set_coupling_lancero_sync n b R status : BInv n b -> Rep b R ->
  BInv n (set_coupling_lancero add_connection b status) /\
  Rep (set_coupling_lancero add_connection b status) (rel_couple_fold n R status).
Proof.
  intros Hb HR. unfold set_coupling_lancero, rel_couple_fold. rewrite (bi_n _ _ Hb).
  pose proof (fold_sync n (fun b i => if status =? 3 then add_connection b i (i + 1) else delete_connection b i (i + 1))
                (fun R i => rel_set n (status =? 3) R i (i + 1))
                ltac:(intros b0 R0 i Hb0 HR0; apply (set_sync n (status =? 3) b0 R0 i (i + 1) Hb0 HR0))
                (pair_starts n) b R Hb HR) as [Hb1 HR1].
  apply (fold_sync n (fun b i => if status =? 2 then add_connection b (i + 1) i else delete_connection b (i + 1) i)
           (fun R i => rel_set n (status =? 2) R (i + 1) i)
           ltac:(intros b0 R0 i Hb0 HR0; apply (set_sync n (status =? 2) b0 R0 (i + 1) i Hb0 HR0))
           (pair_starts n) _ _ Hb1 HR1).
Qed.

Lemma rel_set_point n on R s r s' r' : RValid n R ->
  rel_set n on R s r s' r' = if (s' =? s) && (r' =? r) && valid_pair n s r then on else R s' r'.
Proof.
  intros HV. unfold rel_set, rel_add, rel_del. destruct on.
  - destruct (valid_pair n s r) eqn:Ev.
    + destruct ((s' =? s) && (r' =? r)); reflexivity.
    + now rewrite andb_false_r.
  - destruct ((s' =? s) && (r' =? r)) eqn:E; cbn [negb andb]; [|reflexivity].
    destruct (valid_pair n s r) eqn:Ev; [reflexivity|].
    assert (s' = s /\ r' = r) as [-> ->] by lia.
    destruct (R s r) eqn:ER; [|reflexivity]. apply HV in ER. congruence.
Qed.

Lemma rel_set_valid n on R s r : RValid n R -> RValid n (rel_set n on R s r).
Proof.
  intros HV s' r' H. rewrite rel_set_point in H by assumption.
  destruct ((s' =? s) && (r' =? r) && valid_pair n s r) eqn:E; [|now apply HV].
  assert (s' = s /\ r' = r /\ valid_pair n s r = true) as (-> & -> & Hv) by lia. assumption.
Qed.

Lemma fold_set_point n on (f g : Z -> Z) ps : forall R, RValid n R ->
  RValid n (fold_left (fun R i => rel_set n on R (f i) (g i)) ps R) /\
  forall s' r', fold_left (fun R i => rel_set n on R (f i) (g i)) ps R s' r' =
    if existsb (fun i => (s' =? f i) && (r' =? g i) && valid_pair n (f i) (g i)) ps then on else R s' r'.
Proof.
  induction ps as [|i ps IH]; intros R HV; cbn [fold_left existsb]; [now split|].
  destruct (IH _ (rel_set_valid n on R (f i) (g i) HV)) as [HV' Hp]. split; [assumption|].
  intros s' r'. rewrite Hp. rewrite rel_set_point by assumption.
  destruct ((s' =? f i) && (r' =? g i) && valid_pair n (f i) (g i)); cbn [orb]; [|reflexivity].
  now destruct (existsb _ ps).
Qed.

Lemma In_pair_starts n i : In i (pair_starts n) <-> exists k, i = 2 * k /\ 0 <= k < (n + 1) / 2.
Proof.
  unfold pair_starts. rewrite in_map_iff. split.
  - intros [k [E Hk]]. apply In_zrange in Hk. exists k. lia.
  - intros [k [E Hk]]. exists k. split; [lia|]. apply In_zrange. lia.
Qed.

Lemma exists_fwd n s' r' :
  existsb (fun i => (s' =? i) && (r' =? i + 1) && valid_pair n i (i + 1)) (pair_starts n)
  = Z.even s' && (r' =? s' + 1) && chan_ok n s' && chan_ok n r'.
Proof.
  apply eq_true_iff_eq. rewrite existsb_exists. split.
  - intros [i [Hin H]]. apply In_pair_starts in Hin as [k [-> Hk]].
    assert (s' = 2 * k /\ r' = 2 * k + 1 /\ valid_pair n (2 * k) (2 * k + 1) = true) as (-> & -> & Hv) by lia.
    apply valid_pair_iff in Hv. rewrite Z.even_mul. unfold chan_ok. cbn [Z.even orb]. lia.
  - intros H.
    assert (Z.even s' = true /\ r' = s' + 1 /\ 0 <= s' < n /\ 0 <= r' < n) as (He & -> & Hs & Hr)
      by (unfold chan_ok in H; lia).
    apply Z.even_spec in He as [k ->]. exists (2 * k). split.
    + apply In_pair_starts. exists k. split; [reflexivity|].
      split; [lia|]. apply Z.lt_le_trans with (k + 1); [lia|]. apply Z.div_le_lower_bound; lia.
    + assert (valid_pair n (2 * k) (2 * k + 1) = true) by (apply valid_pair_iff; lia). lia.
Qed.

Lemma exists_bwd n s' r' :
  existsb (fun i => (s' =? i + 1) && (r' =? i) && valid_pair n (i + 1) i) (pair_starts n)
  = Z.even r' && (s' =? r' + 1) && chan_ok n s' && chan_ok n r'.
Proof.
  apply eq_true_iff_eq. rewrite existsb_exists. split.
  - intros [i [Hin H]]. apply In_pair_starts in Hin as [k [-> Hk]].
    assert (s' = 2 * k + 1 /\ r' = 2 * k /\ valid_pair n (2 * k + 1) (2 * k) = true) as (-> & -> & Hv) by lia.
    apply valid_pair_iff in Hv. rewrite Z.even_mul. unfold chan_ok. cbn [Z.even orb]. lia.
  - intros H.
    assert (Z.even r' = true /\ s' = r' + 1 /\ 0 <= s' < n /\ 0 <= r' < n) as (He & -> & Hs & Hr)
      by (unfold chan_ok in H; lia).
    apply Z.even_spec in He as [k ->]. exists (2 * k). split.
    + apply In_pair_starts. exists k. split; [reflexivity|].
      split; [lia|]. apply Z.lt_le_trans with (k + 1); [lia|]. apply Z.div_le_lower_bound; lia.
    + assert (valid_pair n (2 * k + 1) (2 * k) = true) by (apply valid_pair_iff; lia). lia.
Qed.

(* the fold equals the closed form of the specification *)
Lemma rel_couple_closed n R status s r : RValid n R ->
  rel_couple_fold n R status s r = rel_couple Lancero n R status s r.
Proof.
  intros HV. unfold rel_couple_fold, rel_couple.
  destruct (fold_set_point n (status =? 3) (fun i => i) (fun i => i + 1) (pair_starts n) R HV) as [HV1 H1].
  destruct (fold_set_point n (status =? 2) (fun i => i + 1) (fun i => i) (pair_starts n) _ HV1) as [_ H2].
  rewrite H2, H1, exists_fwd, exists_bwd.
  destruct (Z.even s && (r =? s + 1) && chan_ok n s && chan_ok n r) eqn:E1;
    destruct (Z.even r && (s =? r + 1) && chan_ok n s && chan_ok n r) eqn:E2; try reflexivity.
  exfalso. lia.
Qed.

Lemma apply_edit_sync k n b R e : BInv n b -> Rep b R ->
  BInv n (apply_edit add_connection k b e) /\ Rep (apply_edit add_connection k b e) (rel_edit k n R e).
Proof.
  intros Hb HR. destruct e as [c|c| |st]; cbn [apply_edit rel_edit].
  - now apply change_group_sync.
  - now apply change_group_sync.
  - pose proof (stop_inv n b Hb) as Hb1. pose proof (stop_rep b) as HR1.
    destruct k; cbn [set_coupling]; [now split|].
    destruct (set_coupling_lancero_sync n _ _ 1 Hb1 HR1) as [Hb2 HR2]. split; [assumption|].
    intros s r. rewrite HR2. rewrite rel_couple_closed by (intros ? ? H; discriminate H).
    unfold rel_couple, rel_empty.
    repeat match goal with |- context [if ?c then _ else _] => destruct c end; reflexivity.
  - destruct k; cbn [set_coupling]; [now split|].
    destruct (set_coupling_lancero_sync n _ _ st Hb HR) as [Hb2 HR2]. split; [assumption|].
    intros s r. rewrite HR2. apply rel_couple_closed. exact (rep_valid n b R Hb HR).
Qed.

Lemma run_edits_sync k n es : forall b R, BInv n b -> Rep b R ->
  BInv n (run_edits k b es) /\ Rep (run_edits k b es) (fold_left (rel_edit k n) es R).
Proof.
  unfold run_edits. apply (fold_sync n). intros b R e. apply apply_edit_sync.
Qed.

(* ---- the counter ---- *)
Lemma list_as_map_znth {A} (d : A) (l : list A) : l = map (znth d l) (zrange 0 (zlen l)).
Proof.
  apply list_ext_znth with (d := d).
  - rewrite zlen_map, zrange_length. pose proof (zlen_nonneg l). lia.
  - intros i Hi. rewrite znth_map with (d' := 0) by (rewrite zrange_length; lia).
    now rewrite znth_zrange by lia.
Qed.

Lemma cnt_as_sum n b : BInv n b -> b_cnt b = zsum (map (fun r => zlen (srcs b r)) (zrange 0 n)).
Proof.
  intros [Hn Hl Hnd Hr Hc]. rewrite Hc. rewrite (list_as_map_znth [] (b_src b)) at 1.
  rewrite map_map, Hl. reflexivity.
Qed.

Lemma zsum_zero_all (l : list Z) : (forall x, In x l -> 0 <= x) -> zsum l = 0 -> forall x, In x l -> x = 0.
Proof.
  induction l as [|h t IH]; intros Hp Hs x Hx; [destruct Hx|].
  cbn [zsum fold_right] in Hs. fold (zsum t) in Hs.
  assert (0 <= h) by (apply Hp; now left).
  assert (0 <= zsum t).
  { clear -Hp. induction t as [|a t IH]; cbn [zsum fold_right]; [lia|]. fold (zsum t).
    assert (0 <= a) by (apply Hp; right; now left).
    assert (0 <= zsum t) by (apply IH; intros y Hy; apply Hp; destruct Hy; [now left | right; now right]). lia. }
  destruct Hx as [<-|Hx]; [lia|]. apply IH; try assumption; [|lia]. intros y Hy. apply Hp. now right.
Qed.

Lemma cnt_zero_no_sources n b : BInv n b -> b_cnt b = 0 -> forall r, srcs b r = [].
Proof.
  intros [Hn Hl Hnd Hr Hc] H0 r. unfold srcs.
  destruct (Z_lt_dec r 0); [now apply znth_neg|].
  destruct (Z_lt_dec r (zlen (b_src b))); [|apply znth_overflow; lia].
  apply zlen_zero_nil. apply (zsum_zero_all (map zlen (b_src b))).
  - intros x Hx. apply in_map_iff in Hx as [l0 [<- _]]. apply zlen_nonneg.
  - congruence.
  - apply in_map. apply znth_In. lia.
Qed.

(* ---- the reported state ---- *)
Lemma In_report b s r : In (s, r) (report_pairs b) <-> 0 <= r < zlen (b_src b) /\ In s (srcs b r).
Proof.
  unfold report_pairs. rewrite in_flat_map. split.
  - intros [r' [Hr' H]]. apply in_map_iff in H as [s' [E Hs']]. inversion E; subst.
    apply In_zrange in Hr'. split; [lia | assumption].
  - intros [Hr Hs]. exists r. split; [apply In_zrange; lia|]. apply in_map_iff. now exists s.
Qed.

Lemma NoDup_app_intro {A} (a b : list A) :
  NoDup a -> NoDup b -> (forall x, In x a -> ~ In x b) -> NoDup (a ++ b).
Proof.
  induction a as [|x a IH]; intros Ha Hb Hd; [assumption|].
  inversion Ha as [|? ? Hx Ha']; subst. cbn [app]. constructor.
  - rewrite in_app_iff. intros [H|H]; [now apply Hx | apply (Hd x); [now left | assumption]].
  - apply IH; try assumption. intros y Hy. apply Hd. now right.
Qed.

Lemma NoDup_report n b : BInv n b -> NoDup (report_pairs b).
Proof.
  intros [Hn Hl Hnd Hr Hc]. unfold report_pairs. rewrite Hl.
  assert (Hsub : forall r, In r (zrange 0 n) -> 0 <= r < n) by (intros r H; apply In_zrange in H; lia).
  pose proof (NoDup_zrange 0 n) as Hz. revert Hsub Hz. generalize (zrange 0 n). intros l.
  induction l as [|r l IH]; intros Hsub Hz; cbn [flat_map]; [constructor|].
  inversion Hz as [|? ? Hrl Hz']; subst. apply NoDup_app_intro.
  - apply FinFun.Injective_map_NoDup; [|apply Hnd, Hsub; now left]. intros x y E. now inversion E.
  - apply IH; [intros; apply Hsub; now right | assumption].
  - intros [s' r'] H1 H2. apply in_map_iff in H1 as [s1 [E _]]. inversion E; subst.
    apply in_flat_map in H2 as [r2 [Hr2 H2]]. apply in_map_iff in H2 as [s2 [E2 _]]. inversion E2; subst. contradiction.
Qed.

Lemma pmem_In p l : pmem p l = true <-> In p l.
Proof.
  unfold pmem. rewrite existsb_exists. split.
  - intros [q [Hq E]]. unfold pair_eqb in E. destruct p, q. cbn [fst snd] in E.
    assert (z = z1 /\ z0 = z2) as [-> ->] by lia. assumption.
  - intros H. exists p. split; [assumption|]. unfold pair_eqb. lia.
Qed.

Lemma connected_iff n b s r : BInv n b -> connected b s r = true <-> 0 <= r < n /\ In s (srcs b r).
Proof.
  intros [Hn Hl Hnd Hr Hc]. unfold connected. rewrite andb_true_iff, zmem_In, Hn, in_range_iff. tauto.
Qed.

Lemma report_ok_model n b R : BInv n b -> Rep b R -> report_ok n R (report_pairs b) = true.
Proof.
  intros Hb HR. pose proof Hb as [Hn Hl Hnd Hr Hc]. unfold report_ok. rewrite !andb_true_iff. repeat split.
  - apply forallb_forall. intros [s r] H. apply In_report in H as [H1 H2]. rewrite Hl in H1.
    destruct (Hr r s H1 H2). cbn [fst snd]. unfold chan_ok. lia.
  - apply forallb_forall. intros s _. apply forallb_forall. intros r _.
    apply eqb_true_iff. rewrite <- HR. apply eq_true_iff_eq.
    rewrite pmem_In, In_report, (connected_iff n) by assumption. rewrite Hl. tauto.
Qed.

(* ====================================================================================== *)
(* Distribute                                                                             *)
(* ====================================================================================== *)

Lemma mapM_map {A B} (f : A -> res B) (g : A -> B) l :
  (forall x, In x l -> f x = Ok (g x)) -> mapM f l = Ok (map g l).
Proof.
  induction l as [|x t IH]; intros H; cbn [mapM map]; [reflexivity|].
  rewrite (H x (or_introl eq_refl)). rewrite IH by (intros; apply H; now right). reflexivity.
Qed.

Lemma gather_ok prims ss :
  (forall s, In s ss -> 0 <= s < zlen prims) -> gather prims ss = Ok (concat (map (znth [] prims) ss)).
Proof.
  intros H. unfold gather. rewrite (mapM_map _ (znth [] prims)); [reflexivity|].
  intros s Hs. apply H in Hs. replace (in_range (zlen prims) s) with true by (unfold in_range; lia). reflexivity.
Qed.

Lemma concat_map_nil {A B} (f : A -> list B) l : (forall x, In x l -> f x = []) -> concat (map f l) = [].
Proof.
  induction l as [|x t IH]; intros H; cbn [map concat]; [reflexivity|].
  rewrite (H x (or_introl eq_refl)). apply IH. intros; apply H; now right.
Qed.

Lemma distribute_ok n b prims : 0 <= n -> BInv n b -> zlen prims = n ->
  exists secs, distribute b prims = Ok secs /\ zlen secs = n /\
    forall r, 0 <= r < n -> Permutation (znth [] secs r) (concat (map (znth [] prims) (srcs b r))).
Proof.
  intros Hn0 Hb Hp. pose proof Hb as [Hn Hl Hnd Hr Hc]. unfold distribute. rewrite Hn.
  destruct ((zsum (map zlen prims) =? 0) || (b_cnt b =? 0)) eqn:Esc.
  - exists (map (fun _ => []) (zrange 0 n)). split; [reflexivity|]. split; [rewrite zlen_map, zrange_length; lia|].
    intros r Hrr. rewrite znth_map_nil.
    apply orb_true_iff in Esc as [E|E].
    + rewrite concat_map_nil; [constructor|]. intros s Hs. destruct (Hr r s Hrr Hs) as [Hs' _].
      apply zlen_zero_nil. apply (zsum_zero_all (map zlen prims)).
      * intros x Hx. apply in_map_iff in Hx as [l0 [<- _]]. apply zlen_nonneg.
      * lia.
      * apply in_map. apply znth_In. lia.
    + rewrite (cnt_zero_no_sources n b Hb) by lia. constructor.
  - set (g := fun idx => match srcs b idx with [] => [] | ss => zsort (concat (map (znth [] prims) ss)) end).
    exists (map g (zrange 0 n)). split; [|split].
    + apply mapM_map. intros idx Hidx. apply In_zrange in Hidx. unfold g.
      destruct (srcs b idx) as [|s0 ss] eqn:Es; [reflexivity|]. rewrite <- Es.
      rewrite gather_ok; [reflexivity|]. intros s Hs. rewrite Hp. apply (Hr idx s); [lia | assumption].
    + rewrite zlen_map, zrange_length. lia.
    + intros r Hrr. rewrite znth_map with (d' := 0) by (rewrite zrange_length; lia).
      rewrite znth_zrange by lia. replace (0 + r) with r by lia. unfold g.
      destruct (srcs b r) as [|s0 ss]; [constructor | apply zsort_perm].
Qed.

Lemma perm_srcs n b R r : BInv n b -> Rep b R -> 0 <= r < n -> Permutation (srcs b r) (sources_of n R r).
Proof.
  intros Hb HR Hrr. pose proof Hb as [Hn Hl Hnd Hr Hc]. apply NoDup_Permutation.
  - now apply Hnd.
  - apply NoDup_filter, NoDup_zrange.
  - intros s. unfold sources_of. rewrite filter_In, In_zrange, <- HR, (connected_iff n) by assumption.
    split; [intros H; destruct (Hr r s Hrr H); repeat split; try lia; assumption | tauto].
Qed.

(* ====================================================================================== *)
(* secondary records                                                                      *)
(* ====================================================================================== *)

Lemma secondaries_ok npre nsamp G F0 st flist : StreamInv G F0 st -> 0 <= nsamp ->
  (forall f, In f flist -> st_first st + npre <= f /\ f + (nsamp - npre) <= st_first st + zlen (st_data st)) ->
  exists recs, secondaries npre nsamp st flist = Ok recs /\ map r_frame recs = flist /\
     forall rc, In rc recs -> rec_ok npre nsamp G F0 rc = true.
Proof.
  intros HI Hns. unfold secondaries. induction flist as [|f t IH]; intros Hw; cbn [mapM].
  - exists []. repeat split. intros rc [].
  - destruct IH as [recs [E [Hfr Hok]]]; [intros; apply Hw; now right|].
    destruct (Hw f (or_introl eq_refl)) as [Hlo Hhi].
    destruct (trigger_at st (f - st_first st) npre nsamp) as [rc|] eqn:Et.
    2:{ unfold trigger_at in Et.
        replace ((f - st_first st - npre <? 0) || (f - st_first st + nsamp - npre >? zlen (st_data st)) || (nsamp <? 0))
          with false in Et by lia. discriminate. }
    rewrite E. exists (rc :: recs). split; [reflexivity|].
    pose proof (trigger_at_excerpt G F0 st _ npre nsamp rc HI Et) as H. cbv zeta in H.
    destruct H as (Hpre & Hlen & Hj0 & Hj1 & Hdata & _).
    assert (Hf : r_frame rc = f).
    { unfold trigger_at in Et. destruct (_ || _ || _); [discriminate|]. inversion Et. cbn [r_frame]. lia. }
    split; [cbn [map]; now rewrite Hf, Hfr|].
    intros rc' [<-|Hin]; [|now apply Hok].
    unfold rec_ok. rewrite Hf in *. rewrite !andb_true_iff. repeat split; try lia.
    apply zlist_eqb_eq. exact Hdata.
Qed.

(* ====================================================================================== *)
(* the cycle                                                                              *)
(* ====================================================================================== *)

(* every channel: retained stream = tail of its ground truth; all channels share the geometry *)
Record SInv (n F0 : Z) (Gs : list (list Z)) (sts : list stream) (len glen : Z) : Prop := {
  si_n : zlen sts = n;
  si_gn : zlen Gs = n;
  si_ch : forall c, 0 <= c < n ->
            StreamInv (znth [] Gs c) F0 (znth empty_stream sts c) /\
            zlen (st_data (znth empty_stream sts c)) = len /\ zlen (znth [] Gs c) = glen
}.

(* before the first block *)
Definition SPre (n : Z) (Gs : list (list Z)) (sts : list stream) : Prop :=
  zlen sts = n /\ zlen Gs = n /\
  forall c, 0 <= c < n -> st_data (znth empty_stream sts c) = [] /\ znth [] Gs c = [].

Lemma append_fresh st sg : st_data st = [] -> StreamInv (seg_data sg) (seg_first sg) (append st sg).
Proof.
  intros H. split; cbn [append st_data st_first]; rewrite H; cbn [app]; rewrite ?zlen_nil.
  - lia.
  - replace (zlen (seg_data sg) - zlen (seg_data sg)) with 0 by lia. reflexivity.
  - lia.
Qed.

Definition dchan : list Z * bool := ([], false).

Lemma blk_len_chan n blk c : block_ok n blk -> 0 <= c < n -> zlen (fst (znth dchan (blk_chans blk) c)) = blk_len blk.
Proof. intros [Hl Hc] Hcr. apply Hc. apply znth_In. lia. Qed.

Lemma znth_appended n blk sts c : zlen sts = n -> block_ok n blk -> 0 <= c < n ->
  znth empty_stream (map2 append sts (map (seg_of blk) (blk_chans blk))) c
  = append (znth empty_stream sts c) (seg_of blk (znth dchan (blk_chans blk) c)).
Proof.
  intros Hs [Hl _] Hc.
  rewrite znth_map2 with (da := empty_stream) (db := seg_of blk dchan) by (rewrite ?zlen_map; lia).
  now rewrite znth_map with (d' := dchan) by lia.
Qed.

Lemma znth_grown n blk Gs c : zlen Gs = n -> block_ok n blk -> 0 <= c < n ->
  znth [] (map2 (fun g ch => g ++ fst ch) Gs (blk_chans blk)) c = znth [] Gs c ++ fst (znth dchan (blk_chans blk) c).
Proof.
  intros Hs [Hl _] Hc. now rewrite znth_map2 with (da := []) (db := dchan) by lia.
Qed.

(* after AppendSegment, from the state before the first block *)
Lemma append_pre n blk Gs sts : SPre n Gs sts -> block_ok n blk ->
  SInv n (blk_first blk) (map2 (fun g ch => g ++ fst ch) Gs (blk_chans blk))
       (map2 append sts (map (seg_of blk) (blk_chans blk))) (blk_len blk) (blk_len blk).
Proof.
  intros (Hs & Hg & Hc) Hb. pose proof Hb as [Hl _]. split.
  - rewrite zlen_map2, zlen_map. lia.
  - rewrite zlen_map2. lia.
  - intros c Hcr. destruct (Hc c Hcr) as [Hd HG].
    rewrite (znth_appended n), (znth_grown n) by assumption. rewrite HG. cbn [app].
    pose proof (blk_len_chan n blk c Hb Hcr) as Hlen. split; [|split].
    + apply (append_fresh _ (seg_of blk (znth dchan (blk_chans blk) c))). assumption.
    + cbn [append st_data seg_of seg_data]. rewrite Hd. cbn [app]. assumption.
    + assumption.
Qed.

(* after AppendSegment of the block that continues the stream *)
Lemma append_run n F0 blk Gs sts len glen : SInv n F0 Gs sts len glen -> block_ok n blk ->
  blk_first blk = F0 + glen ->
  SInv n F0 (map2 (fun g ch => g ++ fst ch) Gs (blk_chans blk))
       (map2 append sts (map (seg_of blk) (blk_chans blk))) (len + blk_len blk) (glen + blk_len blk).
Proof.
  intros [Hs Hg Hc] Hb Hf. pose proof Hb as [Hl _]. split.
  - rewrite zlen_map2, zlen_map. lia.
  - rewrite zlen_map2. lia.
  - intros c Hcr. destruct (Hc c Hcr) as (HI & Hd & HG).
    rewrite (znth_appended n), (znth_grown n) by assumption.
    pose proof (blk_len_chan n blk c Hb Hcr) as Hlen. split; [|split].
    + apply (append_inv _ _ _ (seg_of blk (znth dchan (blk_chans blk) c)) HI). cbn [seg_of seg_first]. lia.
    + cbn [append st_data seg_of seg_data]. rewrite zlen_app. lia.
    + rewrite zlen_app. lia.
Qed.

Lemma trim_len N st : 0 <= N -> zlen (st_data (trim N st)) = Z.min N (zlen (st_data st)).
Proof.
  intros HN. unfold trim. destruct (N >=? zlen (st_data st)) eqn:E; [lia|].
  cbn [st_data]. rewrite zskipn_length; lia.
Qed.

Lemma trim_all n F0 Gs sts len glen N (keeps : list Z) : SInv n F0 Gs sts len glen -> 0 <= N ->
  zlen keeps = n -> (forall c, 0 <= c < n -> znth 0 keeps c = N) ->
  SInv n F0 Gs (map2 trim keeps sts) (Z.min N len) glen.
Proof.
  intros [Hs Hg Hc] HN Hk Hkc. split.
  - rewrite zlen_map2. lia.
  - assumption.
  - intros c Hcr. destruct (Hc c Hcr) as (HI & Hd & HG).
    rewrite znth_map2 with (da := 0) (db := empty_stream) by lia. rewrite Hkc by assumption. split; [|split].
    + now apply trim_inv.
    + rewrite trim_len by assumption. now rewrite Hd.
    + assumption.
Qed.

(* the secondaries of one cycle, given the streams after AppendSegment *)
Lemma cycle_secondaries n npre nsamp F0 Gs sts len glen b R prims :
  0 <= n -> 0 <= nsamp -> SInv n F0 Gs sts len glen -> BInv n b -> Rep b R -> zlen prims = n ->
  (forall p f, In p prims -> In f p -> prim_in_window npre nsamp (F0 + glen - len) len f) ->
  exists secs recs,
    distribute b prims = Ok secs /\
    mapM (fun sf => secondaries npre nsamp (fst sf) (snd sf)) (combine sts secs) = Ok recs /\
    zlen recs = n /\
    forall r, 0 <= r < n ->
      multiset_eqb (map r_frame (znth [] recs r)) (expected_frames n R prims r) = true /\
      forallb (rec_ok npre nsamp (znth [] Gs r) F0) (znth [] recs r) = true.
Proof.
  intros Hn0 Hns [Hs Hg Hc] Hb HR Hp Hw.
  destruct (distribute_ok n b prims Hn0 Hb Hp) as (secs & Hd & Hsl & Hperm).
  exists secs. pose proof Hb as [Hbn Hbl Hbnd Hbr Hbc].
  (* every channel can cut all its secondaries *)
  assert (Hall : forall r, 0 <= r < n ->
            exists recs_r, secondaries npre nsamp (znth empty_stream sts r) (znth [] secs r) = Ok recs_r /\
              map r_frame recs_r = znth [] secs r /\
              forall rc, In rc recs_r -> rec_ok npre nsamp (znth [] Gs r) F0 rc = true).
  { intros r Hrr. destruct (Hc r Hrr) as (HI & Hdl & HG).
    apply secondaries_ok; try assumption. intros f Hf.
    apply (Permutation_in _ (Hperm r Hrr)) in Hf. apply in_concat in Hf as [p [Hp1 Hp2]].
    apply in_map_iff in Hp1 as [s [<- Hs1]]. destruct (Hbr r s Hrr Hs1) as [Hsr _].
    assert (Hin : In (znth [] prims s) prims) by (apply znth_In; lia).
    specialize (Hw _ _ Hin Hp2). unfold prim_in_window in Hw.
    destruct HI as [_ _ Hfirst]. rewrite Hfirst, Hdl, HG. lia. }
  destruct (mapM_total (fun sf => secondaries npre nsamp (fst sf) (snd sf)) (combine sts secs)) as [recs Hrecs].
  { intros [st fl] Hin. destruct (In_znth (empty_stream, []) _ _ Hin) as [i [Hi Ei]].
    rewrite zlen_combine in Hi. rewrite znth_combine in Ei by lia. inversion Ei; subst. cbn [fst snd].
    destruct (Hall i ltac:(lia)) as [recs_r [E _]]. eauto. }
  exists recs. split; [assumption|]. split; [assumption|].
  pose proof (mapM_ok_inv _ _ _ Hrecs) as HF.
  pose proof (Forall2_zlen _ _ _ HF) as Hlen. rewrite zlen_combine in Hlen.
  split; [lia|]. intros r Hrr.
  pose proof (Forall2_znth _ (empty_stream, []) [] _ _ r HF ltac:(rewrite zlen_combine; lia)) as Hr.
  cbn beta in Hr. rewrite znth_combine in Hr by lia. cbn [fst snd] in Hr.
  destruct (Hall r Hrr) as [recs_r [E [Hfr Hok]]]. rewrite E in Hr. inversion Hr as [Er]. rewrite <- Er. split.
  - apply multiset_eqb_perm. rewrite Hfr. eapply perm_trans; [apply Hperm; assumption|].
    unfold expected_frames. apply Permutation_concat, Permutation_map. now apply perm_srcs.
  - apply forallb_forall. assumption.
Qed.

(* ====================================================================================== *)
(* histories: the model's observations pass the checker                                   *)
(* ====================================================================================== *)

(* the RPC layer answers every request with a GROUPTRIGGER update that is exactly the new connection set *)
Lemma rpc_edit_ok k n b R e : BInv n b -> Rep b R ->
  exists v tc, rpc_edit add_connection true k b e = (apply_edit add_connection k b e, Some v, tc) /\
               report_ok n (rel_edit k n R e) v = true.
Proof.
  intros Hb HR. destruct (apply_edit_sync k n b R e Hb HR) as [Hb' HR'].
  destruct e as [c|c| |st]; cbn [rpc_edit apply_edit rel_edit] in *.
  - eexists _, _. split; [reflexivity|]. now apply report_ok_model.
  - eexists _, _. split; [reflexivity|]. now apply report_ok_model.
  - eexists _, _. split; [reflexivity|]. apply report_ok_model; [now apply stop_inv | apply stop_rep].
  - eexists _, _. split; [reflexivity|]. now apply report_ok_model.
Qed.

Inductive Sync (cf : config) (m : mstate) (st : cst) : option Z -> Z -> Prop :=
| SyncPre :
    BInv (cf_n cf) (m_b m) -> Rep (m_b m) (c_R st) -> c_F0 st = None ->
    SPre (cf_n cf) (c_G st) (m_sts m) -> Sync cf m st None 0
| SyncRun F0 glen len :
    BInv (cf_n cf) (m_b m) -> Rep (m_b m) (c_R st) -> c_F0 st = Some F0 ->
    SInv (cf_n cf) F0 (c_G st) (m_sts m) len glen -> 0 <= len ->
    Sync cf m st (Some (F0 + glen)) len.

Lemma sync_broker cf m st next len : Sync cf m st next len -> BInv (cf_n cf) (m_b m) /\ Rep (m_b m) (c_R st).
Proof. intros [? ? ? ?|? ? ? ? ? ? ? ?]; now split. Qed.

Lemma sync_nsts cf m st next len : Sync cf m st next len -> zlen (m_sts m) = cf_n cf /\ zlen (c_G st) = cf_n cf.
Proof. intros [? ? ? (?&?&?)|? ? ? ? ? ? [? ? ?] ?]; now split. Qed.

Lemma fresh_sync cf v coup : 0 <= cf_n cf ->
  Sync cf {| m_b := new_broker (cf_n cf); m_sts := fresh_streams (cf_n cf); m_view := v; m_coup := coup |}
       (cst_init (cf_n cf)) None 0.
Proof.
  intros Hn. apply SyncPre; cbn [cst_init m_b m_sts c_R c_G c_F0]; unfold fresh_streams.
  - now apply new_broker_inv.
  - apply new_broker_rep.
  - reflexivity.
  - split; [rewrite zlen_map, zrange_length; lia|]. split; [rewrite zlen_map, zrange_length; lia|].
    intros c Hc. split.
    + rewrite znth_map with (d' := 0) by (rewrite zrange_length; lia). reflexivity.
    + apply znth_map_nil.
Qed.

Lemma cycle_tail cf m st blk prims F0 len1 glen1 :
  0 <= cf_n cf -> 0 <= cf_nsamp cf ->
  BInv (cf_n cf) (m_b m) -> Rep (m_b m) (c_R st) -> zlen (m_sts m) = cf_n cf -> block_ok (cf_n cf) blk ->
  SInv (cf_n cf) F0 (map2 (fun g ch => g ++ fst ch) (c_G st) (blk_chans blk))
       (map2 append (m_sts m) (map (seg_of blk) (blk_chans blk))) len1 glen1 ->
  zlen prims = cf_n cf ->
  (forall p f, In p prims -> In f p -> prim_in_window (cf_npre cf) (cf_nsamp cf) (F0 + glen1 - len1) len1 f) ->
  match c_F0 st with Some f => f | None => blk_first blk end = F0 ->
  exists recs,
    step cf m (OCycle blk prims)
    = (Ok {| m_b := m_b m;
             m_sts := map2 trim (keeps_fixed cf (m_sts m)) (map2 append (m_sts m) (map (seg_of blk) (blk_chans blk)));
             m_view := m_view m; m_coup := m_coup m |},
       OSec recs) /\
    check_step cf st (OCycle blk prims) (OSec recs)
    = Some {| c_R := c_R st; c_G := map2 (fun g ch => g ++ fst ch) (c_G st) (blk_chans blk); c_F0 := Some F0 |}.
Proof.
  intros Hn0 Hns Hb HR Hs Hblk HS Hp Hw HF0.
  destruct (cycle_secondaries _ _ _ _ _ _ _ _ _ _ _ Hn0 Hns HS Hb HR Hp Hw) as (secs & recs & Hd & Hm & Hl & Hr).
  exists recs. split.
  - unfold step, step_with, cycle_with. destruct Hblk as [Hbl _].
    replace (zlen (blk_chans blk) =? zlen (m_sts m)) with true by lia. cbn [negb].
    rewrite Hd, Hm. reflexivity.
  - cbn [check_step]. rewrite HF0.
    replace (zlen recs =? cf_n cf) with true by lia. cbn [andb].
    rewrite (proj2 (forallb_forall _ _)); [reflexivity|].
    intros r Hrr. apply In_zrange in Hrr. destruct (Hr r ltac:(lia)) as [H1 H2]. now rewrite H1, H2.
Qed.

Lemma step_sync cf m st next len o rest :
  0 <= cf_n cf -> 0 <= cf_nsamp cf -> Sync cf m st next len -> inputs_ok cf next len (o :: rest) ->
  exists m' ob st' next' len',
    step cf m o = (Ok m', ob) /\ check_step cf st o ob = Some st' /\
    Sync cf m' st' next' len' /\ inputs_ok cf next' len' rest.
Proof.
  intros Hn0 Hns HS Hin. destruct o as [e|blk prims|].
  - (* a request *)
    destruct (sync_broker _ _ _ _ _ HS) as [Hb HR].
    destruct (apply_edit_sync (cf_kind cf) (cf_n cf) (m_b m) (c_R st) e Hb HR) as [Hb' HR'].
    destruct (rpc_edit_ok (cf_kind cf) (cf_n cf) (m_b m) (c_R st) e Hb HR) as (v & tc & Erpc & Hv).
    exists {| m_b := apply_edit add_connection (cf_kind cf) (m_b m) e; m_sts := m_sts m; m_view := v;
              m_coup := match tc with Some c => c | None => m_coup m end |}.
    exists (ORep v (b_cnt (apply_edit add_connection (cf_kind cf) (m_b m) e))
                 (match tc with Some c => c | None => m_coup m end)).
    exists {| c_R := rel_edit (cf_kind cf) (cf_n cf) (c_R st) e; c_G := c_G st; c_F0 := c_F0 st |}.
    exists next, len. split; [unfold step, step_with; now rewrite Erpc|]. split.
    + cbn [check_step]. now rewrite Hv.
    + split; [|exact Hin]. destruct HS; [apply SyncPre | eapply SyncRun]; cbn [m_b m_sts c_R c_G c_F0]; eassumption.
  - (* a cycle *)
    cbn [inputs_ok] in Hin. destruct Hin as (Hblk & Hnext & Hp & Hw & Hrest).
    destruct (sync_broker _ _ _ _ _ HS) as [Hb HR]. destruct (sync_nsts _ _ _ _ _ HS) as [Hsn Hgn].
    assert (HN : 0 <= n_to_keep (cf_nsamp cf)) by (unfold n_to_keep; lia).
    assert (Hk : zlen (keeps_fixed cf (m_sts m)) = cf_n cf) by (unfold keeps_fixed; now rewrite zlen_map).
    assert (Hkc : forall c, 0 <= c < cf_n cf -> znth 0 (keeps_fixed cf (m_sts m)) c = n_to_keep (cf_nsamp cf)).
    { intros c Hc. unfold keeps_fixed. now rewrite znth_map with (d' := empty_stream) by lia. }
    destruct HS as [_ _ HF0 Hpre | F0 glen len _ _ HF0 Hinv Hlen].
    + pose proof (append_pre _ _ _ _ Hpre Hblk) as H1.
      destruct (cycle_tail cf m st blk prims (blk_first blk) (blk_len blk) (blk_len blk)) as (recs & E1 & E2);
        try assumption.
      { intros p f H2 H3. specialize (Hw p f H2 H3). unfold prim_in_window in *. lia. }
      { now rewrite HF0. }
      do 5 eexists. split; [exact E1|]. split; [exact E2|]. split; [|exact Hrest].
      replace (blk_first blk + blk_len blk) with (blk_first blk + blk_len blk) by lia.
      apply SyncRun; cbn [m_b m_sts c_R c_G c_F0]; try assumption; try reflexivity.
      * replace (0 + blk_len blk) with (blk_len blk) by lia.
        unfold n_to_keep in *. eapply trim_all; eassumption.
      * destruct Hblk as [_ ?]. unfold blk_len. destruct (blk_chans blk); [lia|]. pose proof (zlen_nonneg (fst p)). lia.
    + pose proof (append_run _ _ _ _ _ _ _ Hinv Hblk Hnext) as H1.
      destruct (cycle_tail cf m st blk prims F0 (len + blk_len blk) (glen + blk_len blk)) as (recs & E1 & E2);
        try assumption.
      { intros p f H2 H3. specialize (Hw p f H2 H3). unfold prim_in_window in *. lia. }
      { now rewrite HF0. }
      do 5 eexists. split; [exact E1|]. split; [exact E2|]. split; [|exact Hrest].
      replace (blk_first blk + blk_len blk) with (F0 + (glen + blk_len blk)) by lia.
      assert (0 <= blk_len blk) by (unfold blk_len; destruct (blk_chans blk) as [|p ?]; [lia | apply zlen_nonneg]).
      apply SyncRun; cbn [m_b m_sts c_R c_G c_F0]; try assumption; try reflexivity.
      * unfold n_to_keep in *. eapply trim_all; eassumption.
      * lia.
  - (* stop and start again *)
    do 5 eexists. split; [reflexivity|]. split.
    + cbn [check_step].
      rewrite (report_ok_model (cf_n cf) (new_broker (cf_n cf)) rel_empty (new_broker_inv _ Hn0) (new_broker_rep _)).
      reflexivity.
    + split; [now apply fresh_sync | exact Hin].
Qed.

Lemma init_sync cf : 0 <= cf_n cf -> Sync cf (init_state (cf_n cf)) (cst_init (cf_n cf)) None 0.
Proof. intros Hn. unfold init_state. now apply fresh_sync. Qed.

Lemma run_from_sync cf ops : 0 <= cf_n cf -> 0 <= cf_nsamp cf ->
  forall m st next len, Sync cf m st next len -> inputs_ok cf next len ops ->
    check_from cf st (combine ops (run_with add_connection keeps_fixed true cf m ops)) = true /\
    length (run_with add_connection keeps_fixed true cf m ops) = length ops /\
    ~ In OCrash (run_with add_connection keeps_fixed true cf m ops).
Proof.
  intros Hn0 Hns. induction ops as [|o rest IH]; intros m st next len HS Hin.
  - cbn. repeat split. tauto.
  - destruct (step_sync cf m st next len o rest Hn0 Hns HS Hin) as (m' & ob & st' & next' & len' & E1 & E2 & HS' & Hin').
    destruct (IH m' st' next' len' HS' Hin') as (H1 & H2 & H3).
    cbn [run_with]. fold (step cf m o). rewrite E1. cbn [combine check_from]. rewrite E2. repeat split.
    + assumption.
    + cbn [length]. now rewrite H2.
    + intros [H|H]; [|now apply H3]. subst ob. destruct o; cbn [check_step] in E2; discriminate.
Qed.

(* ---- headline statements ---- *)

Lemma model_satisfies_checker cf ops :
  0 <= cf_n cf -> 0 <= cf_nsamp cf -> inputs_ok cf None 0 ops ->
  C09_check cf (combine ops (run cf ops)) = true.
Proof.
  intros Hn Hns Hin. unfold C09_check, run.
  apply (run_from_sync cf ops Hn Hns _ _ None 0 (init_sync cf Hn) Hin).
Qed.

Lemma model_never_crashes cf ops :
  0 <= cf_n cf -> 0 <= cf_nsamp cf -> inputs_ok cf None 0 ops ->
  length (run cf ops) = length ops /\ ~ In OCrash (run cf ops).
Proof.
  intros Hn Hns Hin. unfold run.
  apply (run_from_sync cf ops Hn Hns _ _ None 0 (init_sync cf Hn) Hin).
Qed.

Lemma set_semantics k n es s r : 0 <= n ->
  connected (run_edits k (new_broker n) es) s r = rel_of_edits k n es s r.
Proof.
  intros Hn. unfold rel_of_edits.
  destruct (run_edits_sync k n es _ _ (new_broker_inv n Hn) (new_broker_rep n)) as [_ HR]. apply HR.
Qed.

Lemma counter_is_sum k n es : 0 <= n ->
  let b := run_edits k (new_broker n) es in
  b_cnt b = zsum (map (fun r => zlen (srcs b r)) (zrange 0 n)) /\
  (b_cnt b = 0 -> forall s r, connected b s r = false).
Proof.
  intros Hn b.
  destruct (run_edits_sync k n es _ _ (new_broker_inv n Hn) (new_broker_rep n)) as [Hb _]. fold b in Hb. split.
  - now apply cnt_as_sum.
  - intros H0 s r. unfold connected. rewrite (cnt_zero_no_sources n b Hb H0). cbn [zmem existsb]. apply andb_false_r.
Qed.

Lemma report_lists_state k n es : 0 <= n ->
  let b := run_edits k (new_broker n) es in
  NoDup (report_pairs b) /\ forall s r, In (s, r) (report_pairs b) <-> connected b s r = true.
Proof.
  intros Hn b.
  destruct (run_edits_sync k n es _ _ (new_broker_inv n Hn) (new_broker_rep n)) as [Hb _]. fold b in Hb. split.
  - eapply NoDup_report; eassumption.
  - intros s r. rewrite In_report, (connected_iff n) by assumption. now rewrite (bi_len _ _ Hb).
Qed.

(* ====================================================================================== *)
(* what the checker's acceptance of a cycle means; the state reached after a prefix       *)
(* ====================================================================================== *)

Lemma zcount_app x a b : zcount x (a ++ b) = zcount x a + zcount x b.
Proof. unfold zcount. now rewrite filter_app, zlen_app. Qed.

Lemma zcount_notin x l : ~ In x l -> zcount x l = 0.
Proof.
  intros H. unfold zcount. replace (filter (Z.eqb x) l) with (@nil Z); [reflexivity|].
  symmetry. induction l as [|y t IH]; [reflexivity|]. cbn [filter].
  destruct (x =? y) eqn:E; [exfalso; apply H; left; lia|]. apply IH. intros H1; apply H; now right.
Qed.

Lemma multiset_eqb_counts a b : multiset_eqb a b = true -> forall x, zcount x a = zcount x b.
Proof.
  intros H x. unfold multiset_eqb in H. rewrite forallb_forall in H.
  destruct (in_dec Z.eq_dec x (a ++ b)) as [Hin|Hnin].
  - apply Z.eqb_eq. now apply H.
  - rewrite in_app_iff in Hnin. rewrite !zcount_notin; tauto.
Qed.

Lemma zcount_concat_map {A} x (g : A -> list Z) l :
  zcount x (concat (map g l)) = zsum (map (fun s => zcount x (g s)) l).
Proof.
  induction l as [|s t IH]; cbn [map concat zsum fold_right]; [reflexivity|].
  rewrite zcount_app, IH. reflexivity.
Qed.

Lemma multiset_eqb_nil a : multiset_eqb a [] = true -> a = [].
Proof.
  intros H. destruct a as [|x t]; [reflexivity|]. exfalso.
  pose proof (multiset_eqb_counts _ _ H x) as E. unfold zcount in E. cbn [filter] in E.
  rewrite Z.eqb_refl, zlen_cons, zlen_nil in E. pose proof (zlen_nonneg (filter (Z.eqb x) t)). lia.
Qed.

Lemma check_cycle_sound cf st blk prims recs st' :
  check_step cf st (OCycle blk prims) (OSec recs) = Some st' ->
  c_R st' = c_R st /\
  c_G st' = map2 (fun g ch => g ++ fst ch) (c_G st) (blk_chans blk) /\
  c_F0 st' = Some (match c_F0 st with Some f => f | None => blk_first blk end) /\
  zlen recs = cf_n cf /\
  forall r, 0 <= r < cf_n cf ->
    (forall f, zcount f (map r_frame (znth [] recs r))
               = zsum (map (fun s => zcount f (znth [] prims s)) (sources_of (cf_n cf) (c_R st) r))) /\
    ((forall s, c_R st s r = false) -> znth [] recs r = []) /\
    (forall rc, In rc (znth [] recs r) ->
       let G := znth [] (c_G st') r in
       let j := r_frame rc - match c_F0 st with Some f => f | None => blk_first blk end in
       r_pre rc = cf_npre cf /\ 0 <= j - cf_npre cf /\ j - cf_npre cf + cf_nsamp cf <= zlen G /\
       r_data rc = zslice G (j - cf_npre cf) (cf_nsamp cf)).
Proof.
  cbn [check_step]. intros H.
  destruct ((zlen recs =? cf_n cf) && forallb _ (zrange 0 (cf_n cf))) eqn:E; [|discriminate].
  inversion H; subst st'; clear H. cbn [c_R c_G c_F0].
  apply andb_true_iff in E as [E1 E2]. rewrite forallb_forall in E2.
  repeat split; try lia.
  - specialize (E2 r ltac:(apply In_zrange; lia)). apply andb_true_iff in E2 as [E2 _].
    intros f. rewrite (multiset_eqb_counts _ _ E2 f). unfold expected_frames. apply zcount_concat_map.
  - intros Hno. specialize (E2 r ltac:(apply In_zrange; lia)). apply andb_true_iff in E2 as [E2 _].
    unfold expected_frames, sources_of in E2.
    replace (filter (fun s => c_R st s r) (zrange 0 (cf_n cf))) with (@nil Z) in E2.
    + cbn [map concat] in E2. apply multiset_eqb_nil in E2. now destruct (znth [] recs r).
    + symmetry. generalize (zrange 0 (cf_n cf)). intros l. induction l as [|s t IH]; [reflexivity|].
      cbn [filter]. now rewrite Hno.
  - specialize (E2 r ltac:(apply In_zrange; lia)). apply andb_true_iff in E2 as [_ E2].
    rewrite forallb_forall in E2. specialize (E2 rc H0). unfold rec_ok in E2. lia.
  - specialize (E2 r ltac:(apply In_zrange; lia)). apply andb_true_iff in E2 as [_ E2].
    rewrite forallb_forall in E2. specialize (E2 rc H0). unfold rec_ok in E2. lia.
  - specialize (E2 r ltac:(apply In_zrange; lia)). apply andb_true_iff in E2 as [_ E2].
    rewrite forallb_forall in E2. specialize (E2 rc H0). unfold rec_ok in E2. lia.
  - specialize (E2 r ltac:(apply In_zrange; lia)). apply andb_true_iff in E2 as [_ E2].
    rewrite forallb_forall in E2. specialize (E2 rc H0). unfold rec_ok in E2.
    apply zlist_eqb_eq. lia.
Qed.

Lemma check_edit_shape cf st e ob st' :
  check_step cf st (OEdit e) ob = Some st' ->
  c_R st' = rel_edit (cf_kind cf) (cf_n cf) (c_R st) e /\ c_G st' = c_G st /\ c_F0 st' = c_F0 st.
Proof.
  cbn [check_step]. destruct ob as [rep cnt coup| |]; try discriminate.
  destruct (report_ok _ _ _); [|discriminate]. intros H. inversion H. now cbn.
Qed.

Lemma check_restart_shape cf st ob st' :
  check_step cf st ORestart ob = Some st' -> st' = cst_init (cf_n cf).
Proof.
  cbn [check_step]. destruct ob as [rep cnt coup| |]; try discriminate.
  destruct (report_ok _ _ _); [|discriminate]. intros H. now inversion H.
Qed.

(* the checker state reached after a prefix is the fold of the vocabulary of Spec.v *)
Lemma reach cf pre rest : 0 <= cf_n cf -> 0 <= cf_nsamp cf ->
  forall m st next len, Sync cf m st next len -> inputs_ok cf next len (pre ++ rest) ->
  exists obs m' st' next' len',
    run_with add_connection keeps_fixed true cf m (pre ++ rest) = obs ++ run_with add_connection keeps_fixed true cf m' rest /\
    length obs = length pre /\
    Sync cf m' st' next' len' /\ inputs_ok cf next' len' rest /\
    c_R st' = fold_left (rel_step (cf_kind cf) (cf_n cf)) pre (c_R st) /\
    c_F0 st' = fold_left first_step pre (c_F0 st) /\
    forall c, 0 <= c < cf_n cf -> znth [] (c_G st') c = fold_left (truth_step c) pre (znth [] (c_G st) c).
Proof.
  intros Hn0 Hns. induction pre as [|o pre IH]; intros m st next len HS Hin.
  - exists [], m, st, next, len. cbn [app length fold_left]. repeat split; assumption.
  - cbn [app] in Hin.
    destruct (step_sync cf m st next len o (pre ++ rest) Hn0 Hns HS Hin)
      as (m1 & ob & st1 & next1 & len1 & E1 & E2 & HS1 & Hin1).
    destruct (IH m1 st1 next1 len1 HS1 Hin1) as (obs & m' & st' & next' & len' & Er & Hl & HS' & Hin' & HR & HF & HG).
    exists (ob :: obs), m', st', next', len'. split; [|split; [|split; [|split]]]; try assumption.
    + cbn [app run_with]. fold (step cf m o). rewrite E1, Er. reflexivity.
    + cbn [length]. now rewrite Hl.
    + cbn [fold_left]. destruct o as [e|blk prims|].
      * destruct (check_edit_shape _ _ _ _ _ E2) as (R1 & G1 & F1).
        cbn [rel_step first_step truth_step]. rewrite HR, HF, R1, F1. split; [reflexivity|]. split; [reflexivity|].
        intros c Hc. rewrite HG by assumption. now rewrite G1.
      * destruct ob as [| recs |]; try (cbn [check_step] in E2; discriminate).
        destruct (check_cycle_sound _ _ _ _ _ _ E2) as (R1 & G1 & F1 & _).
        cbn [rel_step first_step truth_step]. rewrite HR, HF, R1, F1. split; [reflexivity|].
        split; [now destruct (c_F0 st)|].
        intros c Hc. rewrite HG by assumption. rewrite G1.
        destruct (sync_nsts _ _ _ _ _ HS) as [_ Hgn]. cbn [inputs_ok] in Hin. destruct Hin as (Hblk & _).
        now rewrite (znth_grown (cf_n cf)) by assumption.
      * pose proof (check_restart_shape _ _ _ _ E2) as E. subst st1.
        cbn [rel_step first_step truth_step]. rewrite HR, HF. cbn [cst_init c_R c_F0]. split; [reflexivity|].
        split; [reflexivity|]. intros c Hc. rewrite HG by assumption. cbn [cst_init c_G]. now rewrite znth_map_nil.
Qed.

Lemma every_cycle cf pre blk prims :
  0 <= cf_n cf -> 0 <= cf_nsamp cf -> inputs_ok cf None 0 (pre ++ [OCycle blk prims]) ->
  exists obs recs,
    run cf (pre ++ [OCycle blk prims]) = obs ++ [OSec recs] /\ length obs = length pre /\
    zlen recs = cf_n cf /\
    let R := rel_of_ops (cf_kind cf) (cf_n cf) pre in
    let F0 := match first_frame pre with Some f => f | None => blk_first blk end in
    forall r, 0 <= r < cf_n cf ->
      (forall f, zcount f (map r_frame (znth [] recs r))
                 = zsum (map (fun s => zcount f (znth [] prims s)) (sources_of (cf_n cf) R r))) /\
      ((forall s, R s r = false) -> znth [] recs r = []) /\
      (forall rc, In rc (znth [] recs r) ->
         let G := truth r (pre ++ [OCycle blk prims]) in
         let j := r_frame rc - F0 in
         r_pre rc = cf_npre cf /\ 0 <= j - cf_npre cf /\ j - cf_npre cf + cf_nsamp cf <= zlen G /\
         r_data rc = zslice G (j - cf_npre cf) (cf_nsamp cf)).
Proof.
  intros Hn0 Hns Hin. unfold run.
  destruct (reach cf pre [OCycle blk prims] Hn0 Hns _ _ None 0 (init_sync cf Hn0) Hin)
    as (obs & m' & st' & next' & len' & Er & Hl & HS' & Hin' & HR & HF & HG).
  destruct (step_sync cf m' st' next' len' (OCycle blk prims) [] Hn0 Hns HS' Hin')
    as (m2 & ob & st2 & next2 & len2 & E1 & E2 & _ & _).
  destruct ob as [| recs |]; try (cbn [check_step] in E2; discriminate).
  exists obs, recs. split.
  { rewrite Er. cbn [run_with]. fold (step cf m' (OCycle blk prims)). now rewrite E1. }
  split; [assumption|].
  destruct (check_cycle_sound _ _ _ _ _ _ E2) as (R2 & G2 & F2 & Hlen & Hall).
  split; [assumption|]. cbv zeta. intros r Hr.
  destruct (Hall r Hr) as (H1 & H2 & H3).
  cbn [cst_init c_R c_F0] in HR, HF. unfold rel_of_ops. rewrite <- HR.
  split; [assumption|]. split; [assumption|].
  intros rc Hrc. specialize (H3 rc Hrc). cbv zeta in H3.
  assert (EG : znth [] (c_G st2) r = truth r (pre ++ [OCycle blk prims])).
  { rewrite G2. destruct (sync_nsts _ _ _ _ _ HS') as [_ Hgn]. cbn [inputs_ok] in Hin'. destruct Hin' as (Hblk & _).
    rewrite (znth_grown (cf_n cf)) by assumption. rewrite HG by assumption.
    cbn [cst_init c_G]. rewrite znth_map_nil. unfold truth. rewrite fold_left_app. reflexivity. }
  rewrite EG in H3. unfold first_frame. rewrite <- HF. exact H3.
Qed.

(* ====================================================================================== *)
(* a concrete history meeting the premises; the witnesses of the pre-fix defects          *)
(* ====================================================================================== *)

Definition ex_cf : config := {| cf_kind := Generic; cf_n := 2; cf_npre := 2; cf_nsamp := 4 |}.
Definition ex_blk (first : Z) : block :=
  {| blk_first := first; blk_time := 1000 * first; blk_period := 1000;
     blk_chans := [(map (fun x => 10 * x) (zrange first 6), false);
                   (map (fun x => 10 * x + 1) (zrange first 6), true)] |}.
(* requests with repeats, a self-pair and out-of-range indices; primaries in the new block and in the
   retained history; the receiver fires too *)
Definition ex_ops : list op :=
  [OEdit (EAdd [(0, [1; 0; 5]); (7, [1])]); OCycle (ex_blk 100) [[103]; []];
   OCycle (ex_blk 106) [[105; 109]; [104]]; OEdit (ECouple 3); OEdit (EDel [(0, [1])]);
   OCycle (ex_blk 112) [[113]; []]].

Ltac solve_inputs_ok :=
  cbn [inputs_ok]; repeat match goal with
  | |- _ /\ _ => split
  | |- True => exact I
  | |- block_ok _ _ => split; [reflexivity | intros c Hc; cbn in Hc; repeat (destruct Hc as [<-|Hc]; [reflexivity|]); destruct Hc]
  | |- forall p f, In p _ -> In f p -> prim_in_window _ _ _ _ _ =>
      let p := fresh "p" in let f := fresh "f" in let Hp := fresh "Hp" in let Hf := fresh "Hf" in
      intros p f Hp Hf; cbn in Hp;
      repeat (destruct Hp as [<-|Hp]; [cbn in Hf; repeat (destruct Hf as [<-|Hf]; [vm_compute; split; discriminate|]); destruct Hf|]);
      destruct Hp
  | |- _ = _ => reflexivity
  end.

Lemma ex_inputs_ok : inputs_ok ex_cf None 0 ex_ops.
Proof. unfold ex_ops. solve_inputs_ok. Qed.

Lemma ex_secondaries :
  map (fun o => match o with OSec r => map (map r_frame) r | _ => [] end) (run ex_cf ex_ops)
  = [[]; [[]; [103]]; [[]; [105; 109]]; []; []; [[]; []]].
Proof. vm_compute. reflexivity. Qed.

(* --- out-of-range source, code before the fix --- *)
Definition w_cf : config := {| cf_kind := Generic; cf_n := 3; cf_npre := 2; cf_nsamp := 4 |}.
Definition w_blk : block :=
  {| blk_first := 0; blk_time := 0; blk_period := 1000;
     blk_chans := [(zrange 0 8, false); (zrange 100 8, false); (zrange 200 8, false)] |}.
Definition w_ops : list op := [OEdit (EAdd [(7, [1])]); OCycle w_blk [[3]; []; []]].
Definition w_old : list obs := run_with add_connection_old keeps_fixed true w_cf (init_state 3) w_ops.

Lemma out_of_range_source_pre_fix :
  inputs_ok w_cf None 0 w_ops /\
  w_old = [ORep [(7, 1)] 1 0; OCrash] /\
  rel_of_ops Generic 3 w_ops 7 1 = false /\
  C09_check w_cf (combine w_ops w_old) = false /\
  run w_cf w_ops = [ORep [] 0 0; OSec [[]; []; []]].
Proof.
  split; [unfold w_ops; solve_inputs_ok|]. split; [vm_compute; reflexivity|].
  split; [vm_compute; reflexivity|]. split; vm_compute; reflexivity.
Qed.

(* --- a receiver that retains less history than its source (before the fix of PrepareRun an unconfigured
       channel kept 10 samples, a configured one 2*nsamp+10) --- *)
Definition v_cf : config := {| cf_kind := Generic; cf_n := 2; cf_npre := 12; cf_nsamp := 20 |}.
Definition v_blk (first : Z) : block :=
  {| blk_first := first; blk_time := 0; blk_period := 1000;
     blk_chans := [(zrange first 30, false); (zrange (1000 + first) 30, false)] |}.
Definition v_ops : list op := [OEdit (EAdd [(0, [1])]); OCycle (v_blk 0) [[15]; []]; OCycle (v_blk 30) [[26]; []]].
Definition v_old : list obs := run_with add_connection (fun _ _ => [50; 10]) true v_cf (init_state 2) v_ops.

Lemma unequal_history_pre_fix :
  inputs_ok v_cf None 0 v_ops /\
  nth 2 v_old (ORep [] 0 0) = OCrash /\
  C09_check v_cf (combine v_ops v_old) = false /\
  map (fun o => match o with OSec r => map (map r_frame) r | _ => [] end) (run v_cf v_ops) = [[]; [[]; [15]]; [[]; [26]]].
Proof.
  split; [unfold v_ops; solve_inputs_ok|]. split; [vm_compute; reflexivity|].
  split; vm_compute; reflexivity.
Qed.

Lemma every_cycle_union cf pre blk prims :
  0 <= cf_n cf -> 0 <= cf_nsamp cf -> inputs_ok cf None 0 (pre ++ [OCycle blk prims]) ->
  exists obs recs,
    run cf (pre ++ [OCycle blk prims]) = obs ++ [OSec recs] /\ length obs = length pre /\
    zlen recs = cf_n cf /\
    let R := rel_of_ops (cf_kind cf) (cf_n cf) pre in
    forall r, 0 <= r < cf_n cf ->
      (forall f, zcount f (map r_frame (znth [] recs r))
                 = zsum (map (fun s => zcount f (znth [] prims s)) (sources_of (cf_n cf) R r))) /\
      ((forall s, R s r = false) -> znth [] recs r = []).
Proof.
  intros Hn Hs Hin. destruct (every_cycle cf pre blk prims Hn Hs Hin) as (obs & recs & E & L & Z & H).
  exists obs, recs. repeat (split; [assumption|]). cbv zeta in *. intros r Hr.
  destruct (H r Hr) as (A & B & _). now split.
Qed.

Lemma every_cycle_excerpt cf pre blk prims :
  0 <= cf_n cf -> 0 <= cf_nsamp cf -> inputs_ok cf None 0 (pre ++ [OCycle blk prims]) ->
  exists obs recs,
    run cf (pre ++ [OCycle blk prims]) = obs ++ [OSec recs] /\ length obs = length pre /\
    let F0 := match first_frame pre with Some f => f | None => blk_first blk end in
    forall r rc, 0 <= r < cf_n cf -> In rc (znth [] recs r) ->
      let G := truth r (pre ++ [OCycle blk prims]) in
      let j := r_frame rc - F0 in
      r_pre rc = cf_npre cf /\ 0 <= j - cf_npre cf /\ j - cf_npre cf + cf_nsamp cf <= zlen G /\
      r_data rc = zslice G (j - cf_npre cf) (cf_nsamp cf).
Proof.
  intros Hn Hs Hin. destruct (every_cycle cf pre blk prims Hn Hs Hin) as (obs & recs & E & L & Z & H).
  exists obs, recs. repeat (split; [assumption|]). cbv zeta in *. intros r rc Hr Hrc.
  destruct (H r Hr) as (_ & _ & C). exact (C rc Hrc).
Qed.

(* ---- what the checker's acceptance means, independent of any model ---- *)
Lemma report_ok_sound n R rep : report_ok n R rep = true ->
  (forall s r, In (s, r) rep -> 0 <= s < n /\ 0 <= r < n) /\
  (forall s r, 0 <= s < n -> 0 <= r < n -> (In (s, r) rep <-> R s r = true)).
Proof.
  unfold report_ok. rewrite !andb_true_iff. intros [H2 H3]. split.
  - intros s r Hin. rewrite forallb_forall in H2. specialize (H2 _ Hin). cbn [fst snd] in H2. unfold chan_ok in H2. lia.
  - intros s r Hs Hr. rewrite forallb_forall in H3. specialize (H3 s ltac:(apply In_zrange; lia)).
    rewrite forallb_forall in H3. specialize (H3 r ltac:(apply In_zrange; lia)).
    apply eqb_prop in H3. rewrite <- H3. symmetry. apply pmem_In.
Qed.

Lemma check_edit_sound cf st e rep cnt coup st' :
  check_step cf st (OEdit e) (ORep rep cnt coup) = Some st' ->
  c_R st' = rel_edit (cf_kind cf) (cf_n cf) (c_R st) e /\
  (forall s r, In (s, r) rep -> 0 <= s < cf_n cf /\ 0 <= r < cf_n cf) /\
  (forall s r, 0 <= s < cf_n cf -> 0 <= r < cf_n cf -> (In (s, r) rep <-> c_R st' s r = true)).
Proof.
  cbn [check_step]. destruct (report_ok _ _ rep) eqn:E; [|discriminate]. intros H. inversion H. cbn [c_R].
  split; [reflexivity|]. now apply report_ok_sound.
Qed.

(* ====================================================================================== *)
(* what a client is told after every request of any history                               *)
(* ====================================================================================== *)

Lemma check_report_sound cf st o rep cnt coup st' :
  (match o with OCycle _ _ => False | _ => True end) ->
  check_step cf st o (ORep rep cnt coup) = Some st' ->
  c_R st' = rel_step (cf_kind cf) (cf_n cf) (c_R st) o /\
  (forall s r, In (s, r) rep -> 0 <= s < cf_n cf /\ 0 <= r < cf_n cf) /\
  (forall s r, 0 <= s < cf_n cf -> 0 <= r < cf_n cf -> (In (s, r) rep <-> c_R st' s r = true)).
Proof.
  intros Ho. destruct o as [e|blk prims|]; [|destruct Ho|].
  - apply check_edit_sound.
  - cbn [check_step rel_step]. destruct (report_ok _ _ rep) eqn:E; [|discriminate]. intros H. inversion H.
    cbn [cst_init c_R]. split; [reflexivity|]. now apply report_ok_sound.
Qed.

(* o = a request or a restart *)
Lemma every_request cf pre o :
  (match o with OCycle _ _ => False | _ => True end) ->
  0 <= cf_n cf -> 0 <= cf_nsamp cf -> inputs_ok cf None 0 (pre ++ [o]) ->
  exists obs v cnt coup,
    run cf (pre ++ [o]) = obs ++ [ORep v cnt coup] /\ length obs = length pre /\
    let R := rel_of_ops (cf_kind cf) (cf_n cf) (pre ++ [o]) in
    (forall s r, In (s, r) v -> 0 <= s < cf_n cf /\ 0 <= r < cf_n cf) /\
    (forall s r, 0 <= s < cf_n cf -> 0 <= r < cf_n cf -> (In (s, r) v <-> R s r = true)).
Proof.
  intros Ho Hn0 Hns Hin. unfold run.
  destruct (reach cf pre [o] Hn0 Hns _ _ None 0 (init_sync cf Hn0) Hin)
    as (obs & m' & st' & next' & len' & Er & Hl & HS' & Hin' & HR & _ & _).
  destruct (step_sync cf m' st' next' len' o [] Hn0 Hns HS' Hin')
    as (m2 & ob & st2 & next2 & len2 & E1 & E2 & _ & _).
  destruct ob as [v cnt coup| recs |].
  2:{ destruct o; [cbn [check_step] in E2; discriminate | destruct Ho | cbn [check_step] in E2; discriminate]. }
  2:{ destruct o; cbn [check_step] in E2; discriminate. }
  exists obs, v, cnt, coup. split.
  { rewrite Er. cbn [run_with]. fold (step cf m' o). now rewrite E1. }
  split; [assumption|].
  destruct (check_report_sound _ _ _ _ _ _ _ Ho E2) as (R2 & H1 & H2).
  cbv zeta. unfold rel_of_ops. rewrite fold_left_app. cbn [fold_left].
  cbn [cst_init c_R] in HR. rewrite <- HR, <- R2. now split.
Qed.

(* --- before the fix of CoupleErrToFB / CoupleFBToErr: no GROUPTRIGGER update after a coupling change --- *)
Definition u_cf : config := {| cf_kind := Lancero; cf_n := 2; cf_npre := 2; cf_nsamp := 4 |}.
Definition u_blk : block :=
  {| blk_first := 0; blk_time := 0; blk_period := 1000; blk_chans := [(zrange 0 8, true); (zrange 100 8, false)] |}.
Definition u_ops : list op := [OEdit (ECouple 3); OCycle u_blk [[3]; []]].
Definition u_old : list obs := run_with add_connection keeps_fixed false u_cf (init_state 2) u_ops.

Lemma stale_view_pre_fix :
  inputs_ok u_cf None 0 u_ops /\
  (* the client still believes there is no connection, yet channel 1 gets a secondary from channel 0 *)
  map (fun o => match o with ORep v _ _ => (v, []) | OSec r => ([], map (map r_frame) r) | OCrash => ([], []) end) u_old
    = [([], []); ([], [[]; [3]])] /\
  rel_of_ops Lancero 2 u_ops 0 1 = true /\
  C09_check u_cf (combine u_ops u_old) = false /\
  map (fun o => match o with ORep v _ _ => (v, []) | OSec r => ([], map (map r_frame) r) | OCrash => ([], []) end) (run u_cf u_ops)
    = [([(0, 1)], []); ([], [[]; [3]])].
Proof.
  split; [unfold u_ops; solve_inputs_ok|]. split; [vm_compute; reflexivity|].
  split; [vm_compute; reflexivity|]. split; vm_compute; reflexivity.
Qed.

(* a history with a restart: the connection does not survive it, clients are told, the next cycle has no secondary *)
Definition r_ops : list op :=
  [OEdit (EAdd [(0, [1])]); OCycle (ex_blk 100) [[103]; []]; ORestart; OCycle (ex_blk 500) [[503]; []];
   OEdit (EAdd [(0, [1; 9])]); OCycle (ex_blk 506) [[505]; []]].

Lemma restart_example :
  inputs_ok ex_cf None 0 r_ops /\
  map (fun o => match o with ORep v _ _ => (v, []) | OSec r => ([], map (map r_frame) r) | OCrash => ([], []) end)
      (run ex_cf r_ops)
  = [([(0, 1)], []); ([], [[]; [103]]); ([], []); ([], [[]; []]); ([(0, 1)], []); ([], [[]; [505]])].
Proof. split; [unfold r_ops; solve_inputs_ok | vm_compute; reflexivity]. Qed.
