(* C09 — evaluation of generated cases: model vs observed implementation output, and the checker. *)
From Dastard Require Import Common.ZX Common.CaseLib Pipeline.Stream C09.Model C09.Spec.

(* c_init = the GROUPTRIGGER state broadcast when the run starts (before any request) *)
Record case := { c_cfg : config; c_init : list (Z * Z); c_hist : list (op * obs) }.

(* reported pairs are compared as sets: both sides are sorted (the harness sorts what the implementation's
   map yields; the model's list order is an artefact too) *)
Definition pair_leb (p q : Z * Z) : bool :=
  (fst p <? fst q) || ((fst p =? fst q) && (snd p <=? snd q)).
Fixpoint pinsert (p : Z * Z) (l : list (Z * Z)) : list (Z * Z) :=
  match l with
  | [] => [p]
  | q :: t => if pair_leb p q then p :: l else q :: pinsert p t
  end.
Definition psort (l : list (Z * Z)) : list (Z * Z) := fold_right pinsert [] l.

Definition obs_eqb (a b : obs) : bool :=
  match a, b with
  | ORep x cx tx, ORep y cy ty => list_eqb pair_eqb (psort x) (psort y) && (cx =? cy) && (tx =? ty)
  | OSec x, OSec y => list_eqb (list_eqb record_eqb) x y
  | OCrash, OCrash => true
  | _, _ => false
  end.

Fixpoint first_diff (i : Z) (a b : list obs) : Z :=
  match a, b with
  | [], [] => -1
  | x :: a', y :: b' => if obs_eqb x y then first_diff (i + 1) a' b' else i
  | _, _ => i
  end.

Definition verdict (c : case) : Z * Z :=
  let ops := map fst (c_hist c) in
  let impl := map snd (c_hist c) in
  let model := run (c_cfg c) ops in
  let d := if list_eqb pair_eqb (psort (c_init c)) (m_view (init_state (cf_n (c_cfg c))))
           then first_diff 0 impl model else 0 in
  (verdict_code (d =? -1)
     (report_ok (cf_n (c_cfg c)) rel_empty (c_init c) && C09_check (c_cfg c) (c_hist c)), d).

(* compact constructors for generated files *)
Definition mkrec (frame time pre : Z) (data : list Z) (signed : bool) : record :=
  {| r_frame := frame; r_time := time; r_pre := pre; r_data := data; r_signed := signed |}.
Definition Ad (c : list (Z * list Z)) (rep : list (Z * Z)) (cnt coup : Z) : op * obs := (OEdit (EAdd c), ORep rep cnt coup).
Definition De (c : list (Z * list Z)) (rep : list (Z * Z)) (cnt coup : Z) : op * obs := (OEdit (EDel c), ORep rep cnt coup).
Definition St (rep : list (Z * Z)) (cnt coup : Z) : op * obs := (OEdit EStop, ORep rep cnt coup).
Definition Co (status : Z) (rep : list (Z * Z)) (cnt coup : Z) : op * obs := (OEdit (ECouple status), ORep rep cnt coup).
Definition mkblk (first time period : Z) (chans : list (list Z * bool)) : block :=
  {| blk_first := first; blk_time := time; blk_period := period; blk_chans := chans |}.
Definition Cy (first time period : Z) (chans : list (list Z * bool)) (prims : list (list Z))
              (recs : list (list record)) : op * obs :=
  (OCycle (mkblk first time period chans) prims, OSec recs).
Definition CyX (first time period : Z) (chans : list (list Z * bool)) (prims : list (list Z)) : op * obs :=
  (OCycle (mkblk first time period chans) prims, OCrash).
Definition Rs (rep : list (Z * Z)) (cnt coup : Z) : op * obs := (ORestart, ORep rep cnt coup).
Definition RsX : op * obs := (ORestart, OCrash).
(* an edit whose answer could not be observed *)
Definition EdX (e : edit) : op * obs := (OEdit e, OCrash).
Definition mk (lancero : bool) (n npre nsamp : Z) (init : list (Z * Z)) (h : list (op * obs)) : case :=
  {| c_cfg := {| cf_kind := if lancero then Lancero else Generic; cf_n := n; cf_npre := npre; cf_nsamp := nsamp |};
     c_init := init; c_hist := h |}.
