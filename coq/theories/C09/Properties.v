(* C09 — property theorems only: each closed by [exact], each followed by Print Assumptions.
   Vocabulary (Spec.v): a connection set is a relation  rel = source -> receiver -> bool;
   rel_of_edits k n es  is the set-theoretic result of the requests es on n channels of a source of kind k
   (fold of rel_add / rel_del / clear / the err-fb pairing, starting from the empty set; rel_add ignores
   self-pairs and any pair with an index outside [0, n));  rel_of_ops k n ops  is the same over a whole
   history (cycles change nothing, a restart of the source empties the set);  sources_of n R r = the sources of receiver r;
   truth r ops = all samples the history ops delivered to channel r since the last (re)start;  inputs_ok = the blocks of a history
   are contiguous, all channels get equally long blocks, and every primary trigger frame lies where the
   retained stream supplies a full record (which is where TriggerData can cut one). *)
From Dastard Require Import Common.ZX Pipeline.Stream C09.Model C09.Spec C09.Proofs.

(* For ALL sequences of add / delete / stop / err-fb-coupling requests with arbitrary indices, the
   connections the broker holds (TriggerBroker.isConnected) are exactly the set-theoretic result. *)
Theorem connections_are_set_semantics :
  forall k n es s r, 0 <= n ->
    connected (run_edits k (new_broker n) es) s r = rel_of_edits k n es s r.
Proof. exact set_semantics. Qed.
Print Assumptions connections_are_set_semantics.

(* nconnections = sum over receivers of the number of its sources, after every request sequence; so the
   "nconnections == 0" shortcut of Distribute is taken only when there is no connection at all. *)
Theorem counter_invariant :
  forall k n es, 0 <= n ->
    let b := run_edits k (new_broker n) es in
    b_cnt b = zsum (map (fun r => zlen (srcs b r)) (zrange 0 n)) /\
    (b_cnt b = 0 -> forall s r, connected b s r = false).
Proof. exact counter_is_sum. Qed.
Print Assumptions counter_invariant.

(* computeGroupTriggerState lists every connection exactly once and nothing else. *)
Theorem compute_state_lists_connections :
  forall k n es, 0 <= n ->
    let b := run_edits k (new_broker n) es in
    NoDup (report_pairs b) /\ forall s r, In (s, r) (report_pairs b) <-> connected b s r = true.
Proof. exact report_lists_state. Qed.
Print Assumptions compute_state_lists_connections.

(* What a CLIENT is told: after EVERY request and after EVERY restart (Stop + Start) o of any history (requests
   with arbitrary, also partly invalid, indices, interleaved with cycles and restarts), the RPC layer's last
   GROUPTRIGGER update v names channels only and is, as a set, the set-theoretic result of the history so far
   (empty after a restart) -- which by connections_are_set_semantics and secondaries_are_union is the set
   Distribute uses.  (The set changes only at requests and restarts, so in between the client's copy stays
   equal to it.) *)
Theorem report_is_state :
  forall cf pre o,
    (match o with OCycle _ _ => False | _ => True end) ->
    0 <= cf_n cf -> 0 <= cf_nsamp cf -> inputs_ok cf None 0 (pre ++ [o]) ->
    exists obs v cnt coup,
      run cf (pre ++ [o]) = obs ++ [ORep v cnt coup] /\ length obs = length pre /\
      let R := rel_of_ops (cf_kind cf) (cf_n cf) (pre ++ [o]) in
      (forall s r, In (s, r) v -> 0 <= s < cf_n cf /\ 0 <= r < cf_n cf) /\
      (forall s r, 0 <= s < cf_n cf -> 0 <= r < cf_n cf -> (In (s, r) v <-> R s r = true)).
Proof. exact every_request. Qed.
Print Assumptions report_is_state.

(* In EVERY cycle (after any history pre of requests and cycles), for EVERY receiver r: the multiset of its
   secondary trigger frames is the multiset union of the primaries of the channels connected to it as
   sources under the set-theoretic connection set; none if it has no incoming connection.
   (zcount f l = multiplicity of f in l.) *)
Theorem secondaries_are_union :
  forall cf pre blk prims,
    0 <= cf_n cf -> 0 <= cf_nsamp cf -> inputs_ok cf None 0 (pre ++ [OCycle blk prims]) ->
    exists obs recs,
      run cf (pre ++ [OCycle blk prims]) = obs ++ [OSec recs] /\ length obs = length pre /\
      zlen recs = cf_n cf /\
      let R := rel_of_ops (cf_kind cf) (cf_n cf) pre in
      forall r, 0 <= r < cf_n cf ->
        (forall f, zcount f (map r_frame (znth [] recs r))
                   = zsum (map (fun s => zcount f (znth [] prims s)) (sources_of (cf_n cf) R r))) /\
        ((forall s, R s r = false) -> znth [] recs r = []).
Proof. exact every_cycle_union. Qed.
Print Assumptions secondaries_are_union.

(* In EVERY cycle, EVERY secondary record of receiver r is the excerpt of r's OWN ground truth around its
   trigger frame: npre samples before, nsamp in total, entirely inside what was delivered to r. *)
Theorem secondary_excerpt :
  forall cf pre blk prims,
    0 <= cf_n cf -> 0 <= cf_nsamp cf -> inputs_ok cf None 0 (pre ++ [OCycle blk prims]) ->
    exists obs recs,
      run cf (pre ++ [OCycle blk prims]) = obs ++ [OSec recs] /\ length obs = length pre /\
      let F0 := match first_frame pre with Some f => f | None => blk_first blk end in
      forall r rc, 0 <= r < cf_n cf -> In rc (znth [] recs r) ->
        let G := truth r (pre ++ [OCycle blk prims]) in
        let j := r_frame rc - F0 in
        r_pre rc = cf_npre cf /\ 0 <= j - cf_npre cf /\ j - cf_npre cf + cf_nsamp cf <= zlen G /\
        r_data rc = zslice G (j - cf_npre cf) (cf_nsamp cf).
Proof. exact every_cycle_excerpt. Qed.
Print Assumptions secondary_excerpt.

(* ... and cutting them never panics: every step of every well-formed history yields an observation, none
   of them a crash (out-of-range index in Distribute, slice out of range in triggerAtSpecificSamples). *)
Theorem cycles_never_panic :
  forall cf ops, 0 <= cf_n cf -> 0 <= cf_nsamp cf -> inputs_ok cf None 0 ops ->
    length (run cf ops) = length ops /\ ~ In OCrash (run cf ops).
Proof. exact model_never_crashes. Qed.
Print Assumptions cycles_never_panic.

(* The whole property as the observable checker states it: for every well-formed history the model's
   observations are accepted (reported state = set after every request; per cycle and receiver the
   secondary frames are the multiset union and every record is the receiver's own excerpt). *)
Theorem model_passes_checker :
  forall cf ops, 0 <= cf_n cf -> 0 <= cf_nsamp cf -> inputs_ok cf None 0 ops ->
    C09_check cf (combine ops (run cf ops)) = true.
Proof. exact model_satisfies_checker. Qed.
Print Assumptions model_passes_checker.

(* What the checker's acceptance means, independent of any model: after a request the reported pairs
   name channels only and are, as a set, exactly the updated connection set ... *)
Theorem checker_sound_report :
  forall cf st e rep cnt coup st',
    check_step cf st (OEdit e) (ORep rep cnt coup) = Some st' ->
    c_R st' = rel_edit (cf_kind cf) (cf_n cf) (c_R st) e /\
    (forall s r, In (s, r) rep -> 0 <= s < cf_n cf /\ 0 <= r < cf_n cf) /\
    (forall s r, 0 <= s < cf_n cf -> 0 <= r < cf_n cf -> (In (s, r) rep <-> c_R st' s r = true)).
Proof. exact check_edit_sound. Qed.
Print Assumptions checker_sound_report.

(* ... and in a cycle every receiver's secondary frames are the multiset union of its sources' primaries
   (none without sources) and every record is the excerpt of the receiver's accumulated ground truth. *)
Theorem checker_sound_cycle :
  forall cf st blk prims recs st',
    check_step cf st (OCycle blk prims) (OSec recs) = Some st' ->
    c_R st' = c_R st /\
    c_G st' = map2 (fun g ch => g ++ fst ch) (c_G st) (blk_chans blk) /\
    c_F0 st' = Some (match c_F0 st with Some f => f | None => blk_first blk end) /\
    zlen recs = cf_n cf /\
    forall r, 0 <= r < cf_n cf ->
      (forall f, zcount f (map r_frame (znth [] recs r))
                 = zsum (map (fun s => zcount f (znth [] prims s)) (sources_of (cf_n cf) (c_R st) r))) /\
      ((forall s, c_R st s r = false) -> znth [] recs r = []) /\
      (forall rc, In rc (znth [] recs r) ->
         let G := znth [] (c_G st') r in
         let j := r_frame rc - match c_F0 st with Some f => f | None => blk_first blk end in
         r_pre rc = cf_npre cf /\ 0 <= j - cf_npre cf /\ j - cf_npre cf + cf_nsamp cf <= zlen G /\
         r_data rc = zslice G (j - cf_npre cf) (cf_nsamp cf)).
Proof. exact check_cycle_sound. Qed.
Print Assumptions checker_sound_cycle.

(* The premises are met by a history with repeated / self / out-of-range requests, primaries in the new
   block and in the retained history, and a receiver that fires itself; its secondaries are not empty. *)
Theorem premises_are_satisfiable :
  inputs_ok ex_cf None 0 ex_ops /\
  map (fun o => match o with OSec r => map (map r_frame) r | _ => [] end) (run ex_cf ex_ops)
  = [[]; [[]; [103]]; [[]; [105; 109]]; []; []; [[]; []]].
Proof. exact (conj ex_inputs_ok ex_secondaries). Qed.
Print Assumptions premises_are_satisfiable.

(* ... also across a restart of the source: the connection does not survive it, clients are told so, and the
   next cycle has no secondary until the connection is requested again. *)
Theorem premises_are_satisfiable_with_restart :
  inputs_ok ex_cf None 0 r_ops /\
  map (fun o => match o with ORep v _ _ => (v, []) | OSec r => ([], map (map r_frame) r) | OCrash => ([], []) end)
      (run ex_cf r_ops)
  = [([(0, 1)], []); ([], [[]; [103]]); ([], []); ([], [[]; []]); ([(0, 1)], []); ([], [[]; [505]])].
Proof. exact restart_example. Qed.
Print Assumptions premises_are_satisfiable_with_restart.

(* Before the fix (AddConnection did not range-check the source): AddConnection(7,1) on 3 channels is
   stored and reported although the set-theoretic result does not contain it, the next cycle with a primary
   dies, and the checker rejects that history; the repaired code ignores the request. *)
Theorem connections_are_set_semantics_refuted_pre_fix :
  inputs_ok w_cf None 0 w_ops /\
  run_with add_connection_old keeps_fixed true w_cf (init_state 3) w_ops = [ORep [(7, 1)] 1 0; OCrash] /\
  rel_of_ops Generic 3 w_ops 7 1 = false /\
  C09_check w_cf (combine w_ops (run_with add_connection_old keeps_fixed true w_cf (init_state 3) w_ops)) = false /\
  run w_cf w_ops = [ORep [] 0 0; OSec [[]; []; []]].
Proof. exact out_of_range_source_pre_fix. Qed.
Print Assumptions connections_are_set_semantics_refuted_pre_fix.

(* Before the fix of PrepareRun (EMTState.nsamp = 0 on a fresh processor) a never-configured receiver kept
   10 samples, its configured source 2*nsamp+10: a source primary found in the retained history then asks
   the receiver for samples it no longer has and the cycle dies.  With equal retention it does not. *)
Theorem secondary_excerpt_refuted_pre_fix :
  inputs_ok v_cf None 0 v_ops /\
  nth 2 (run_with add_connection (fun _ _ => [50; 10]) true v_cf (init_state 2) v_ops) (ORep [] 0 0) = OCrash /\
  C09_check v_cf (combine v_ops (run_with add_connection (fun _ _ => [50; 10]) true v_cf (init_state 2) v_ops)) = false /\
  map (fun o => match o with OSec r => map (map r_frame) r | _ => [] end) (run v_cf v_ops)
  = [[]; [[]; [15]]; [[]; [26]]].
Proof. exact unequal_history_pre_fix. Qed.
Print Assumptions secondary_excerpt_refuted_pre_fix.

(* Before the fix of CoupleErrToFB / CoupleFBToErr (TRIGCOUPLING was sent, GROUPTRIGGER was not): on a Lancero
   source, after "couple err->fb" the client's connection state is still empty although 0 -> 1 is connected and
   the next cycle gives channel 1 a secondary from channel 0; the checker rejects; the repaired layer reports (0,1). *)
Theorem report_is_state_refuted_pre_fix :
  inputs_ok u_cf None 0 u_ops /\
  map (fun o => match o with ORep v _ _ => (v, []) | OSec r => ([], map (map r_frame) r) | OCrash => ([], []) end)
      (run_with add_connection keeps_fixed false u_cf (init_state 2) u_ops)
    = [([], []); ([], [[]; [3]])] /\
  rel_of_ops Lancero 2 u_ops 0 1 = true /\
  C09_check u_cf (combine u_ops (run_with add_connection keeps_fixed false u_cf (init_state 2) u_ops)) = false /\
  map (fun o => match o with ORep v _ _ => (v, []) | OSec r => ([], map (map r_frame) r) | OCrash => ([], []) end)
      (run u_cf u_ops)
    = [([(0, 1)], []); ([], [[]; [3]])].
Proof. exact stale_view_pre_fix. Qed.
Print Assumptions report_is_state_refuted_pre_fix.
