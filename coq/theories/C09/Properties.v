(* C09 — property theorems only. *)
From Dastard Require Import Common.ZX Pipeline.Stream C09.Model C09.Spec.
