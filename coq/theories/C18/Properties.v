(* C18 — property theorems only: each closed by [exact], each followed by Print Assumptions. *)
From Dastard Require Import Common.ZX C18.Model C18.Spec C18.Proofs.

(* For every capacity and every operation history the model's observations pass the property checker
   (every read is the next contiguous stretch of the accepted stream; nothing lost, repeated, reordered;
   size-constrained reads are multiples; discards end on a stride boundary when one exists). *)
Theorem ring_refines_fifo :
  forall c ops, 2 <= c -> C18_check (combine ops (snd (run (create c) ops))) = true.
Proof. exact model_satisfies_checker. Qed.
Print Assumptions ring_refines_fifo.

(* The same for a ring whose 64-bit free-running pointers already stand at any position b (a ring that has
   carried b bytes before): stride boundaries are judged on absolute positions. [create_at c 0 = create c] and
   [C18_check_at 0] is [C18_check] (Proofs.check_from_at_0). *)
Theorem ring_refines_fifo_any_pointer_base :
  forall c b ops, 2 <= c -> 0 <= b ->
    C18_check_at b (combine ops (snd (run (create_at c b) ops))) = true.
Proof. exact model_satisfies_checker_at. Qed.
Print Assumptions ring_refines_fifo_any_pointer_base.

(* What the checker's "true" means, independent of any model. *)
Theorem checker_sound :
  forall h, C18_check h = true -> no_discards h -> reads_prefix_of_writes h.
Proof. exact checker_sound_prefix. Qed.
Print Assumptions checker_sound.

Theorem reads_are_prefix_of_writes :
  forall c ops, 2 <= c -> (forall o, In o ops -> is_discard o = false) ->
    reads_prefix_of_writes (combine ops (snd (run (create c) ops))).
Proof. exact ring_reads_are_prefix_of_writes. Qed.
Print Assumptions reads_are_prefix_of_writes.

Theorem ring_invariant :
  forall c ops, 2 <= c ->
    let s := fst (run (create c) ops) in
    0 <= rp s <= wp s /\ wp s - rp s <= cap s - 1 /\ cap s = c.
Proof. exact ring_invariant_reachable. Qed.
Print Assumptions ring_invariant.

Theorem read_multiple :
  forall s A k, GInv s A -> 0 < k < cap s ->
    exists D, snd (read_multiple_of s k) = RData D /\ zlen D = k * ((wp s - rp s) / k) /\
              D = zslice A (rp s) (zlen D).
Proof. exact read_multiple_is_multiple. Qed.
Print Assumptions read_multiple.

Theorem discard_stride_on_boundary :
  forall s A k, GInv s A -> 0 < k ->
    let s' := fst (discard_stride s k) in
    rp s <= rp s' <= wp s' /\ wp s' = wp s /\
    ((exists x, rp s <= x <= wp s /\ x mod k = 0) -> rp s' mod k = 0) /\
    ((forall x, rp s <= x <= wp s -> x mod k <> 0) -> rp s' = rp s).
Proof. exact discard_on_boundary. Qed.
Print Assumptions discard_stride_on_boundary.

Theorem exactly_full_and_empty :
  forall s A d, GInv s A ->
    snd (write s d) = Z.min (zlen d) (cap s - 1 - (wp s - rp s)) /\
    (wp s = rp s -> forall n, snd (read s n) = []).
Proof. exact full_and_empty. Qed.
Print Assumptions exactly_full_and_empty.

Theorem packet_reads_stay_on_packet_boundaries :
  forall p, 0 < p -> forall ops s,
    Forall (fun o => match o with
                     | Write _ => True
                     | ReadMultipleOf k | DiscardStride k => k = p
                     | _ => False end) ops ->
    rp s mod p = 0 -> rp (fst (run s ops)) mod p = 0.
Proof. exact packet_alignment_preserved. Qed.
Print Assumptions packet_reads_stay_on_packet_boundaries.

Theorem start_discard_aligns_or_keeps :
  forall s p, 0 < p ->
    let s' := fst (discard_stride s p) in rp s' mod p = 0 \/ rp s' = rp s.
Proof. exact start_aligns_or_keeps. Qed.
Print Assumptions start_discard_aligns_or_keeps.

Theorem reads_are_prefix_of_writes_any_pointer_base :
  forall c b ops, 2 <= c -> 0 <= b -> (forall o, In o ops -> is_discard o = false) ->
    reads_prefix_of_writes (combine ops (snd (run (create_at c b) ops))).
Proof. exact ring_reads_are_prefix_of_writes_at. Qed.
Print Assumptions reads_are_prefix_of_writes_any_pointer_base.

Theorem checker_sound_any_pointer_base :
  forall base h, C18_check_at base h = true -> no_discards h -> reads_prefix_of_writes h.
Proof. exact checker_at_sound_prefix. Qed.
Print Assumptions checker_sound_any_pointer_base.

Theorem ring_refines_fifo_refuted_pre_fix :
  C18_check old_witness = false /\ returned old_witness = [0;1;2;3;4;4;5;6].
Proof. exact ring_refines_fifo_refuted_before_fix. Qed.
Print Assumptions ring_refines_fifo_refuted_pre_fix.

(* Single-producer/single-consumer separation, for ANY state (reachable or not): reader-side calls leave the
   write pointer, the capacity and every byte of the shared memory untouched ... *)
Theorem reader_calls_never_touch_writer_side :
  forall ops s, Forall reader_op ops ->
    wp (fst (run s ops)) = wp s /\ cap (fst (run s ops)) = cap s /\ mem (fst (run s ops)) = mem s.
Proof. exact reader_never_touches_writer_side. Qed.
Print Assumptions reader_calls_never_touch_writer_side.

(* ... and Write leaves the read pointer and the capacity untouched. *)
Theorem write_never_touches_reader_side :
  forall s d, rp (fst (write s d)) = rp s /\ cap (fst (write s d)) = cap s.
Proof. exact writer_never_touches_reader_side. Qed.
Print Assumptions write_never_touches_reader_side.

(* Loss-freedom at the memory level: a write (of any length, wrapping or not) never alters a cell that still
   holds an unread byte. *)
Theorem write_never_overwrites_unread_bytes :
  forall s A d, GInv s A ->
    forall i, rp s <= i < wp s -> mem (fst (write s d)) (i mod cap s) = mem s (i mod cap s).
Proof. exact write_preserves_unread. Qed.
Print Assumptions write_never_overwrites_unread_bytes.

(* Region safety, for any state with a positive capacity and rp <= wp: a write never touches an address outside
   the data region [0, cap) ... *)
Theorem write_never_leaves_the_data_region :
  forall s d a, 0 < cap s -> rp s <= wp s -> (a < 0 \/ cap s <= a) -> mem (fst (write s d)) a = mem s a.
Proof. exact write_stays_in_region. Qed.
Print Assumptions write_never_leaves_the_data_region.

(* ... and what a read returns depends on no address outside it. *)
Theorem read_never_looks_outside_the_data_region :
  forall s m' size, 0 < cap s -> rp s <= wp s -> wp s - rp s <= cap s ->
    (forall a, 0 <= a < cap s -> m' a = mem s a) ->
    snd (read {| cap := cap s; wp := wp s; rp := rp s; mem := m' |} size) = snd (read s size).
Proof. exact read_looks_only_inside_region. Qed.
Print Assumptions read_never_looks_outside_the_data_region.

(* Conservation of space in every reachable state: BytesReadable + BytesWriteable = capacity - 1. *)
Theorem readable_plus_writeable_is_capacity_minus_one :
  forall c ops, 2 <= c ->
    let s := fst (run (create c) ops) in
    bytes_readable s + bytes_writeable s = c - 1 /\ 0 <= bytes_readable s /\ 0 <= bytes_writeable s.
Proof. exact space_conserved. Qed.
Print Assumptions readable_plus_writeable_is_capacity_minus_one.
