(* C18 — proofs about the ring-buffer mirror model. *)
From Dastard Require Import Common.ZX C18.Model C18.Spec.
From Coq Require Import ZifyBool ZifyNat.

(* Ghost invariant: A is every byte accepted so far (monotone history); the live cells of the
   shared memory hold exactly A[rp .. wp). *)
Record GInv (s : ring) (A : list Z) : Prop := {
  gi_cap  : 2 <= cap s;
  gi_r    : 0 <= rp s <= wp s;
  gi_room : wp s - rp s <= cap s - 1;
  gi_w    : wp s = zlen A;
  gi_mem  : forall i, rp s <= i < wp s -> mem s (i mod cap s) = znth 0 A i
}.

Lemma ginv_create c : 2 <= c -> GInv (create c) [].
Proof. intros H; split; cbn; try lia. Qed.

(* ---------- small list facts ---------- *)
Lemma zfirstn_length {A} n (l : list A) : 0 <= n <= zlen l -> zlen (zfirstn n l) = n.
Proof. unfold zfirstn, zlen; intros H. rewrite firstn_length. lia. Qed.

Lemma znth_app_l {A} (d : A) l1 l2 i : i < zlen l1 -> znth d (l1 ++ l2) i = znth d l1 i.
Proof.
  unfold znth, zlen; intros H. destruct (i <? 0) eqn:E; [reflexivity|].
  apply app_nth1. lia.
Qed.

Lemma znth_app_r {A} (d : A) l1 l2 i : zlen l1 <= i -> znth d (l1 ++ l2) i = znth d l2 (i - zlen l1).
Proof.
  unfold znth, zlen; intros H. destruct (i <? 0) eqn:E; [lia|].
  destruct (i - Z.of_nat (length l1) <? 0) eqn:E2; [lia|].
  rewrite app_nth2 by lia. f_equal. lia.
Qed.

Lemma znth_zfirstn {A} (d : A) n l i : 0 <= i < n -> znth d (zfirstn n l) i = znth d l i.
Proof.
  unfold znth, zfirstn; intros H. destruct (i <? 0) eqn:E; [lia|].
  apply nth_firstn_lt. lia.
Qed.

Lemma znth_zskipn {A} (d : A) n l i : 0 <= n -> 0 <= i -> znth d (zskipn n l) i = znth d l (n + i).
Proof.
  unfold znth, zskipn; intros Hn Hi. destruct (i <? 0) eqn:E; [lia|].
  destruct (n + i <? 0) eqn:E2; [lia|]. rewrite nth_skipn_add. f_equal. lia.
Qed.

Lemma zslice_app_l {A} (l x : list A) a n : 0 <= a -> 0 <= n -> a + n <= zlen l ->
  zslice (l ++ x) a n = zslice l a n.
Proof.
  intros Ha Hn H. unfold zslice, zfirstn, zskipn, zlen in *.
  rewrite skipn_app. rewrite firstn_app.
  replace (Z.to_nat n - length (skipn (Z.to_nat a) l))%nat with 0%nat
    by (rewrite skipn_length; lia).
  cbn [firstn]. now rewrite app_nil_r.
Qed.

(* ---------- upd_range ---------- *)
Lemma upd_range_in m start data a :
  start <= a < start + zlen data -> upd_range m start data a = znth 0 data (a - start).
Proof. unfold upd_range; intros H. destruct ((start <=? a) && (a <? start + zlen data)) eqn:E; [reflexivity|lia]. Qed.

Lemma upd_range_out m start data a :
  a < start \/ start + zlen data <= a -> upd_range m start data a = m a.
Proof. unfold upd_range; intros H. destruct ((start <=? a) && (a <? start + zlen data)) eqn:E; [lia|reflexivity]. Qed.

(* ---------- write ---------- *)
Lemma write_spec s A d :
  GInv s A ->
  let n := Z.min (zlen d) (cap s - 1 - (wp s - rp s)) in
  snd (write s d) = n /\
  rp (fst (write s d)) = rp s /\ wp (fst (write s d)) = wp s + n /\ cap (fst (write s d)) = cap s /\
  GInv (fst (write s d)) (A ++ zfirstn n d).
Proof.
  intros [Hc Hr Hroom Hw Hm] n.
  pose proof (zlen_nonneg d) as Hd.
  assert (Hn0 : 0 <= n) by (unfold n; lia).
  assert (Hnd : n <= zlen d) by (unfold n; lia).
  assert (Hwritten : (if zlen d >? cap s - (wp s - rp s + 1) then cap s - (wp s - rp s + 1) else zlen d) = n).
  { unfold n. destruct (zlen d >? cap s - (wp s - rp s + 1)) eqn:E; lia. }
  unfold write. cbv zeta. rewrite Hwritten. cbn [fst snd rp wp cap mem].
  split; [reflexivity|]. split; [reflexivity|]. split; [reflexivity|]. split; [reflexivity|].
  assert (Hcpos : 0 < cap s) by lia.
  pose proof (Z.mod_pos_bound (wp s) (cap s) Hcpos) as Hwm.
  (* characterise the new memory *)
  set (c := cap s) in *. set (w := wp s) in *. set (r := rp s) in *.
  assert (Hcells :
    forall newmem,
      newmem = (if (w + n) / c >? w / c
                then upd_range (upd_range (mem s) (w mod c) (zfirstn ((if (w + n) / c >? w / c then c else (w + n) mod c) - w mod c) d))
                       0 (zfirstn (n - ((if (w + n) / c >? w / c then c else (w + n) mod c) - w mod c))
                            (zskipn ((if (w + n) / c >? w / c then c else (w + n) mod c) - w mod c) d))
                else upd_range (mem s) (w mod c) (zfirstn ((if (w + n) / c >? w / c then c else (w + n) mod c) - w mod c) d)) ->
      (forall k, 0 <= k < n -> newmem ((w + k) mod c) = znth 0 d k) /\
      (forall a, 0 <= a < c -> (forall k, 0 <= k < n -> a <> (w + k) mod c) -> newmem a = mem s a)).
  { intros newmem ->.
    destruct ((w + n) / c >? w / c) eqn:Ewrap.
    - (* wraps *)
      pose proof (div_grows_wrap c w n Hcpos Hn0 Ewrap) as Hge.
      set (first := c - w mod c) in *.
      assert (Hf : 0 < first <= n) by (unfold first; lia).
      assert (Hl1 : zlen (zfirstn first d) = first) by (apply zfirstn_length; lia).
      assert (Hl2 : zlen (zfirstn (n - first) (zskipn first d)) = n - first).
      { apply zfirstn_length. unfold zskipn, zlen. rewrite skipn_length. unfold zlen in *. lia. }
      split.
      + intros k Hk. destruct (Z.lt_ge_cases k first) as [Hlt|Hge2].
        * rewrite mod_add_small by (unfold first in *; lia).
          rewrite upd_range_out by (rewrite Hl2; lia).
          rewrite upd_range_in by (rewrite Hl1; unfold first in *; lia).
          replace (w mod c + k - w mod c) with k by lia. apply znth_zfirstn; lia.
        * rewrite mod_add_wrap by (unfold first in *; lia).
          rewrite upd_range_in by (rewrite Hl2; unfold first in *; lia).
          replace (w mod c + k - c - 0) with (k - first) by (unfold first; lia).
          rewrite znth_zfirstn by lia. rewrite znth_zskipn by lia. f_equal. lia.
      + intros a Ha Hne.
        rewrite upd_range_out.
        2:{ rewrite Hl2. destruct (Z.lt_ge_cases a (n - first)) as [Hlt|]; [|lia].
            exfalso. apply (Hne (a + first)); [lia|].
            rewrite mod_add_wrap by (unfold first in *; lia). unfold first; lia. }
        rewrite upd_range_out; [reflexivity|].
        rewrite Hl1. destruct (Z.lt_ge_cases a (w mod c)) as [Hlt|Hge2]; [lia|].
        exfalso. apply (Hne (a - w mod c)); [unfold first in *; lia|].
        rewrite mod_add_small by (unfold first in *; lia). lia.
    - (* no wrap *)
      pose proof (div_same_iff_no_wrap c w n Hcpos Hn0 Ewrap) as Hlt.
      assert (Hend : (w + n) mod c - w mod c = n) by (rewrite mod_add_small by lia; lia).
      rewrite Hend.
      assert (Hl1 : zlen (zfirstn n d) = n) by (apply zfirstn_length; lia).
      split.
      + intros k Hk. rewrite mod_add_small by lia.
        rewrite upd_range_in by (rewrite Hl1; lia).
        replace (w mod c + k - w mod c) with k by lia. apply znth_zfirstn; lia.
      + intros a Ha Hne. rewrite upd_range_out; [reflexivity|].
        rewrite Hl1. destruct (Z.lt_ge_cases a (w mod c)) as [|Hge2]; [lia|].
        destruct (Z.lt_ge_cases a (w mod c + n)) as [Hlt2|]; [|lia].
        exfalso. apply (Hne (a - w mod c)); [lia|]. rewrite mod_add_small by lia. lia. }
  destruct (Hcells _ eq_refl) as [Hnew Hold]. clear Hcells.
  split; cbn [cap wp rp mem]; try lia.
  - rewrite zlen_app, zfirstn_length by lia. fold w. lia.
  - intros i Hi. fold c. destruct (Z.lt_ge_cases i w) as [Hlt|Hge].
    + rewrite znth_app_l by lia. rewrite <- Hm by (fold r w; lia).
      apply Hold; [apply Z.mod_pos_bound; lia|].
      intros k Hk. apply mod_neq_of_close; lia.
    + rewrite znth_app_r by lia. replace i with (w + (i - w)) at 1 by lia.
      rewrite Hnew by lia. rewrite <- Hw. symmetry. apply znth_zfirstn. lia.
Qed.

(* ---------- read ---------- *)
Lemma read_spec s A size :
  GInv s A ->
  let m := Z.max 0 (Z.min size (wp s - rp s)) in
  snd (read s size) = zslice A (rp s) m /\
  rp (fst (read s size)) = rp s + m /\ wp (fst (read s size)) = wp s /\
  cap (fst (read s size)) = cap s /\ mem (fst (read s size)) = mem s.
Proof.
  intros [Hc Hr Hroom Hw Hm] m.
  assert (Hbr : (if size >? wp s - rp s then wp s - rp s else size) = Z.min size (wp s - rp s)).
  { destruct (size >? wp s - rp s) eqn:E; lia. }
  unfold read. cbv zeta. rewrite Hbr.
  destruct (Z.min size (wp s - rp s) <=? 0) eqn:E0.
  - cbn [fst snd]. replace m with 0 by (unfold m; lia).
    repeat split; try lia; reflexivity.
  - assert (Hmpos : 0 < m) by (unfold m; lia).
    replace (Z.min size (wp s - rp s)) with m by (unfold m; lia).
    cbn [fst snd rp wp cap mem]. repeat split; try reflexivity.
    assert (Hcpos : 0 < cap s) by lia.
    set (c := cap s) in *. set (w := wp s) in *. set (r := rp s) in *.
    pose proof (Z.mod_pos_bound r c Hcpos) as Hrm.
    assert (Hmle : m <= w - r) by (unfold m; lia).
    rewrite (zslice_as_map 0) by lia.
    destruct ((r + m) / c >? r / c) eqn:Ewrap.
    + pose proof (div_grows_wrap c r m Hcpos ltac:(lia) Ewrap) as Hge.
      set (first := c - r mod c) in *.
      assert (Hl1 : zlen (map (mem s) (zrange (r mod c) first)) = first).
      { unfold zlen. rewrite map_length. fold (zlen (zrange (r mod c) first)). rewrite zrange_length. unfold first; lia. }
      rewrite Hl1. cbn [andb].
      destruct (m >? first) eqn:Em.
      * replace m with (first + (m - first)) at 2 by lia.
        rewrite zrange_app by (unfold first in *; lia). rewrite map_app. f_equal.
        -- apply map_zrange_ext. intros k Hk. rewrite <- Hm by (fold r w; lia).
           fold c. rewrite mod_add_small by (unfold first in *; lia). reflexivity.
        -- apply map_zrange_ext. intros k Hk. rewrite <- Hm by (fold r w; unfold first in *; lia).
           fold c. replace (r + first + k) with (r + (first + k)) by lia.
           rewrite mod_add_wrap by (unfold first in *; lia). f_equal. unfold first; lia.
      * assert (m = first) by (unfold first in *; lia). subst m.
        replace (Z.max 0 (Z.min size (w - r))) with first by lia.
        apply map_zrange_ext. intros k Hk. rewrite <- Hm by (fold r w; lia).
        fold c. rewrite mod_add_small by (unfold first in *; lia). reflexivity.
    + pose proof (div_same_iff_no_wrap c r m Hcpos ltac:(lia) Ewrap) as Hlt.
      rewrite mod_add_small by lia. cbn [andb].
      replace (r mod c + m - r mod c) with m by lia.
      apply map_zrange_ext. intros k Hk. rewrite <- Hm by (fold r w; lia).
      fold c. rewrite mod_add_small by lia. reflexivity.
Qed.

Lemma read_ginv s A size : GInv s A -> GInv (fst (read s size)) A.
Proof.
  intros H. pose proof (read_spec s A size H) as (_ & Hr & Hw & Hc & Hm).
  destruct H as [Hc0 Hr0 Hroom Hw0 Hm0].
  split; rewrite ?Hr, ?Hw, ?Hc, ?Hm; try lia.
  intros i Hi. apply Hm0. lia.
Qed.

(* ---------- discard ---------- *)
Lemma discard_spec s A k :
  GInv s A -> 0 < k ->
  let b := wp s - wp s mod k in          (* largest stride boundary not above the write position *)
  let r' := Z.max (rp s) b in
  snd (discard_stride s k) = RNil /\
  rp (fst (discard_stride s k)) = r' /\ wp (fst (discard_stride s k)) = wp s /\
  cap (fst (discard_stride s k)) = cap s /\ GInv (fst (discard_stride s k)) A.
Proof.
  intros [Hc Hr Hroom Hw Hm] Hk b r'.
  pose proof (Z.mod_pos_bound (wp s) k Hk) as Hmk.
  unfold discard_stride. destruct (k <=? 0) eqn:Ek; [lia|].
  assert (Hnew : (if wp s mod k >? 0 then wp s - wp s mod k else wp s) = b).
  { unfold b. destruct (wp s mod k >? 0) eqn:E; lia. }
  rewrite Hnew. destruct (b >? rp s) eqn:Eb; cbn [fst snd rp wp cap mem].
  - repeat split; try (unfold r'; lia); cbn [rp wp cap mem]; try lia.
    intros i Hi. apply Hm. unfold b in *. lia.
  - repeat split; try (unfold r'; lia); try lia. exact Hm.
Qed.

(* ---------- the model satisfies the observable checker, for every history ---------- *)
Lemma bytes_readable_inv s A : GInv s A -> bytes_readable s = wp s - rp s.
Proof. intros [Hc Hr Hroom Hw Hm]. unfold bytes_readable. destruct (wp s - rp s >=? cap s) eqn:E; lia. Qed.

Lemma zlist_eqb_refl l : zlist_eqb l l = true.
Proof. now apply zlist_eqb_eq. Qed.

Lemma zslice_length {A} (l : list A) a n : 0 <= a -> 0 <= n -> a + n <= zlen l -> zlen (zslice l a n) = n.
Proof.
  intros Ha Hn H. unfold zslice, zfirstn, zskipn, zlen in *. rewrite firstn_length, skipn_length. lia.
Qed.

Lemma observe_ok s A o :
  GInv s A ->
  exists A', check_step {| acc := A; consumed := rp s |} o (snd (observe s o))
             = Some {| acc := A'; consumed := rp (fst (observe s o)) |}
             /\ GInv (fst (observe s o)) A'.
Proof.
  intros H. pose proof H as [Hc Hr Hroom Hw Hm].
  assert (Hread : forall size,
     let m := Z.max 0 (Z.min size (wp s - rp s)) in
     (rp s + zlen (snd (read s size)) <=? zlen A) && zlist_eqb (snd (read s size)) (zslice A (rp s) (zlen (snd (read s size)))) = true
     /\ zlen (snd (read s size)) = m).
  { intros size m. pose proof (read_spec s A size H) as (Hd & _).
    assert (Hl : zlen (snd (read s size)) = m).
    { rewrite Hd. apply zslice_length; unfold m; lia. }
    split; [|exact Hl]. rewrite Hl. rewrite Hd at 1. rewrite zlist_eqb_refl.
    unfold m; lia. }
  unfold observe.
  destruct o as [d|n|k| |k| ]; cbn [step].
  - (* Write *)
    pose proof (write_spec s A d H) as (Hn & Hr' & Hw' & Hc' & HG). cbv zeta in *.
    destruct (write s d) as [s' n] eqn:E. cbn [fst snd] in *. subst n.
    set (n := Z.min (zlen d) (cap s - 1 - (wp s - rp s))) in *.
    exists (A ++ zfirstn n d). split; [|exact HG].
    cbn [check_step o_ret o_readable acc consumed].
    pose proof (zlen_nonneg d).
    replace ((0 <=? n) && (n <=? zlen d)) with true by (unfold n; lia).
    rewrite (bytes_readable_inv _ _ HG). rewrite zlen_app, zfirstn_length by (unfold n; lia).
    replace (wp s' - rp s' =? zlen A + n - rp s) with true by lia. now rewrite Hr'.
  - (* Read *)
    pose proof (read_spec s A n H) as (Hd & Hr' & Hw' & Hc' & Hm').
    pose proof (read_ginv s A n H) as HG. destruct (Hread n) as [Hok Hl]. cbv zeta in *.
    destruct (read s n) as [s' D] eqn:E. cbn [fst snd] in *.
    exists A. split; [|exact HG].
    cbn [check_step o_ret o_readable acc consumed]. rewrite Hok. cbn [andb].
    replace (zlen D <=? Z.max 0 n) with true by lia.
    rewrite (bytes_readable_inv _ _ HG).
    replace (wp s' - rp s' =? zlen A - (rp s + zlen D)) with true by lia.
    now rewrite Hr', Hl.
  - (* ReadMultipleOf *)
    unfold read_multiple_of.
    destruct ((k <=? 0) || (k >=? cap s)) eqn:Ek.
    + exists A. split; [|exact H]. cbn [fst snd check_step o_ret o_readable acc consumed].
      rewrite (bytes_readable_inv _ _ H). replace (wp s - rp s =? zlen A - rp s) with true by lia. reflexivity.
    + set (size := k * (bytes_readable s / k)).
      pose proof (read_spec s A size H) as (Hd & Hr' & Hw' & Hc' & Hm').
      pose proof (read_ginv s A size H) as HG. destruct (Hread size) as [Hok Hl]. cbv zeta in *.
      destruct (read s size) as [s' D] eqn:E. cbn [fst snd] in *.
      exists A. split; [|exact HG].
      cbn [check_step o_ret o_readable acc consumed]. rewrite Hok. cbn [andb].
      assert (Hkpos : 0 < k) by lia.
      assert (Hsz : 0 <= size <= wp s - rp s).
      { unfold size. rewrite (bytes_readable_inv _ _ H).
        pose proof (Z.mul_div_le (wp s - rp s) k Hkpos).
        assert (0 <= (wp s - rp s) / k) by (apply Z.div_pos; lia). nia. }
      assert (HlD : zlen D = size) by lia.
      replace (0 <? k) with true by lia. cbn [andb].
      replace (zlen D mod k =? 0) with true
        by (rewrite HlD; unfold size; rewrite Z.mul_comm, Z.mod_mul by lia; reflexivity).
      rewrite (bytes_readable_inv _ _ HG).
      replace (wp s' - rp s' =? zlen A - (rp s + zlen D)) with true by lia.
      now rewrite Hr', Hl.
  - (* ReadAll *)
    unfold read_all.
    pose proof (read_spec s A (cap s) H) as (Hd & Hr' & Hw' & Hc' & Hm').
    pose proof (read_ginv s A (cap s) H) as HG. destruct (Hread (cap s)) as [Hok Hl]. cbv zeta in *.
    destruct (read s (cap s)) as [s' D] eqn:E. cbn [fst snd] in *.
    exists A. split; [|exact HG].
    cbn [check_step o_ret o_readable acc consumed]. rewrite Hok.
    rewrite (bytes_readable_inv _ _ HG).
    replace (wp s' - rp s' =? zlen A - (rp s + zlen D)) with true by lia.
    now rewrite Hr', Hl.
  - (* DiscardStride *)
    destruct (Z.lt_ge_cases 0 k) as [Hk|Hk].
    + pose proof (discard_spec s A k H Hk) as (Hret & Hr' & Hw' & Hc' & HG). cbv zeta in *.
      destruct (discard_stride s k) as [s' rt] eqn:E. cbn [fst snd] in *. subst rt.
      exists A. split; [|exact HG].
      cbn [check_step o_ret o_readable acc consumed].
      rewrite (bytes_readable_inv _ _ HG).
      pose proof (Z.mod_pos_bound (wp s) k Hk) as Hmk.
      replace (zlen A - (wp s' - rp s')) with (rp s') by lia.
      replace (0 <? k) with true by lia. cbn [andb].
      replace (rp s <=? rp s') with true by lia.
      replace (rp s' <=? zlen A) with true by lia. cbn [andb].
      rewrite <- Hw. unfold is_boundary.
      destruct (rp s <=? wp s - wp s mod k) eqn:Eb.
      * replace (rp s') with (wp s - wp s mod k) by lia.
        assert (Hb : (wp s - wp s mod k) mod k = 0).
        { rewrite Zminus_mod_idemp_r. replace (wp s - wp s) with 0 by lia. apply Z.mod_0_l; lia. }
        rewrite Hb. cbn. replace (wp s' - (wp s - wp s mod k) =? wp s - (wp s - wp s mod k)) with true by lia.
        reflexivity.
      * replace (rp s' =? rp s) with true by lia.
        replace (wp s' - rp s' =? wp s - rp s') with true by lia. reflexivity.
    + unfold discard_stride. replace (k <=? 0) with true by lia.
      exists A. split; [|exact H]. cbn [fst snd check_step o_ret o_readable acc consumed].
      rewrite (bytes_readable_inv _ _ H). replace (wp s - rp s =? zlen A - rp s) with true by lia. reflexivity.
  - (* DiscardAll *)
    pose proof (discard_spec s A 1 H ltac:(lia)) as (Hret & Hr' & Hw' & Hc' & HG). cbv zeta in *.
    destruct (discard_stride s 1) as [s' rt] eqn:E. cbn [fst snd] in *. subst rt.
    exists A. split; [|exact HG].
    cbn [check_step o_ret o_readable acc consumed].
    rewrite (bytes_readable_inv _ _ HG).
    replace (zlen A - (wp s' - rp s')) with (rp s') by lia.
    replace (rp s <=? rp s') with true by lia.
    replace (rp s' <=? zlen A) with true by lia. cbn [andb].
    replace (wp s' - rp s' =? zlen A - rp s') with true by lia. reflexivity.
Qed.

Lemma run_checks s A ops :
  GInv s A ->
  check_from {| acc := A; consumed := rp s |} (combine ops (snd (run s ops))) = true
  /\ exists A', GInv (fst (run s ops)) A'.
Proof.
  revert s A; induction ops as [|o ops IH]; intros s A H.
  - cbn. split; [reflexivity | now exists A].
  - cbn [run]. destruct (observe_ok s A o H) as (A' & Hstep & HG).
    destruct (observe s o) as [s1 b] eqn:E1. cbn [fst snd] in *.
    destruct (IH s1 A' HG) as [Hrest Hex].
    destruct (run s1 ops) as [s2 bs] eqn:E2. cbn [fst snd combine check_from] in *.
    rewrite Hstep. split; assumption.
Qed.

Theorem model_satisfies_checker c ops :
  2 <= c -> C18_check (combine ops (snd (run (create c) ops))) = true.
Proof. intros Hc. apply (run_checks (create c) [] ops (ginv_create c Hc)). Qed.

Theorem ring_invariant_reachable c ops :
  2 <= c ->
  let s := fst (run (create c) ops) in
  0 <= rp s <= wp s /\ wp s - rp s <= cap s - 1 /\ cap s = c.
Proof.
  intros Hc s.
  assert (Hcap : forall ops s0, cap (fst (run s0 ops)) = cap s0).
  { clear. induction ops as [|o ops IH]; intros s0; [reflexivity|].
    cbn [run]. destruct (observe s0 o) as [s1 b] eqn:E1.
    specialize (IH s1). destruct (run s1 ops) as [s2 bs]. cbn [fst] in *. rewrite IH.
    unfold observe in E1. destruct (step s0 o) as [s1' r] eqn:E. inversion E1; subst s1'.
    destruct o; cbn [step] in E.
    - unfold write in E. inversion E. reflexivity.
    - unfold read in E. destruct (_ <=? 0) in E; inversion E; reflexivity.
    - unfold read_multiple_of in E. destruct (_ || _) in E; [inversion E; reflexivity|].
      destruct (read s0 _) as [s' d] eqn:Er. inversion E; subst. unfold read in Er.
      destruct (_ <=? 0) in Er; inversion Er; reflexivity.
    - unfold read_all, read in E. destruct (_ <=? 0) in E; inversion E; reflexivity.
    - unfold discard_stride in E. destruct (_ <=? 0) in E; [inversion E; reflexivity|].
      destruct (_ >? rp s0) in E; inversion E; reflexivity.
    - unfold discard_stride in E. destruct (_ <=? 0) in E; [inversion E; reflexivity|].
      destruct (_ >? rp s0) in E; inversion E; reflexivity. }
  destruct (run_checks (create c) [] ops (ginv_create c Hc)) as [_ [A' [H1 H2 H3 H4 H5]]].
  unfold s. rewrite Hcap in *. cbn [cap create] in *. lia.
Qed.

(* ---------- soundness of the checker: what an accepted observation history guarantees ---------- *)
Lemma zskipn_app_l {A} (l x : list A) a : 0 <= a <= zlen l -> zskipn a (l ++ x) = zskipn a l ++ x.
Proof.
  unfold zskipn, zlen; intros H. rewrite skipn_app.
  replace (Z.to_nat a - length l)%nat with 0%nat by lia. reflexivity.
Qed.

Lemma zskipn_split {A} (l : list A) a n : 0 <= a -> 0 <= n -> a + n <= zlen l ->
  zskipn a l = zslice l a n ++ zskipn (a + n) l.
Proof.
  unfold zslice, zfirstn, zskipn, zlen; intros Ha Hn H.
  rewrite Z2Nat.inj_add by lia. rewrite Nat.add_comm.
  rewrite <- (firstn_skipn (Z.to_nat n) (skipn (Z.to_nat a) l)) at 1.
  f_equal. clear. generalize (Z.to_nat a) (Z.to_nat n). intros a' n'. revert l.
  induction a' as [|a' IH]; intros l; [now rewrite Nat.add_0_r|].
  destruct l as [|x l]; [now rewrite !skipn_nil|]. rewrite Nat.add_succ_r. cbn [skipn]. apply IH.
Qed.

Definition st_ok (st : cst) : Prop := 0 <= consumed st <= zlen (acc st).

Lemma check_step_props st o b st' :
  st_ok st -> check_step st o b = Some st' -> is_discard o = false ->
  st_ok st' /\
  exists D X, (* bytes returned, bytes accepted by this call *)
     returned [(o, b)] = D /\ accepted [(o, b)] = X /\
     acc st' = acc st ++ X /\ consumed st' = consumed st + zlen D /\
     D = zslice (acc st) (consumed st) (zlen D) /\ consumed st + zlen D <= zlen (acc st).
Proof.
  intros Hok Hs Hnd. unfold st_ok in *. destruct b as [rt rd wr].
  unfold check_step in Hs. cbn [o_ret o_readable] in Hs.
  assert (Hfin : forall (A' : list Z) (c' : Z) (X D : list Z),
     (if rd =? zlen A' - c' then Some {| acc := A'; consumed := c' |} else None) = Some st' ->
     A' = acc st ++ X -> c' = consumed st + zlen D -> 0 <= c' <= zlen A' ->
     acc st' = acc st ++ X /\ consumed st' = consumed st + zlen D /\ 0 <= consumed st' <= zlen (acc st')).
  { intros A' c' X D Hf HA Hc Hb. destruct (rd =? zlen A' - c'); [|discriminate].
    inversion Hf; subst st'. cbn [acc consumed]. subst. repeat split; lia. }
  pose proof (zlen_nonneg (acc st)) as HlA.
  destruct o as [d|n|k| |k| ]; try discriminate Hnd; destruct rt as [wn|D| | | ]; try discriminate Hs.
  - (* Write / RWritten *)
    destruct ((0 <=? wn) && (wn <=? zlen d)) eqn:E; [|discriminate].
    destruct (Hfin _ _ (zfirstn wn d) [] Hs eq_refl) as (H1 & H2 & H3).
    { cbn; lia. } { rewrite zlen_app. pose proof (zlen_nonneg (zfirstn wn d)). lia. }
    split; [exact H3|]. exists [], (zfirstn wn d). cbn [returned accepted].
    rewrite app_nil_r. repeat split; auto; cbn; lia.
  - (* Write / RErr *)
    destruct (Hfin _ _ [] [] Hs) as (H1 & H2 & H3); [now rewrite app_nil_r | cbn; lia | lia |].
    split; [exact H3|]. exists [], []. cbn [returned accepted]. repeat split; auto; cbn; lia.
  - (* Read / RData *)
    destruct ((consumed st + zlen D <=? zlen (acc st)) && zlist_eqb D (zslice (acc st) (consumed st) (zlen D)) && (zlen D <=? Z.max 0 n)) eqn:E; [|discriminate].
    apply andb_true_iff in E as [E E3]. apply andb_true_iff in E as [E1 E2]. apply zlist_eqb_eq in E2.
    pose proof (zlen_nonneg D).
    destruct (Hfin _ _ [] D Hs) as (H1 & H2 & H3); [now rewrite app_nil_r | lia | lia |].
    split; [exact H3|]. exists D, []. cbn [returned accepted]. rewrite app_nil_r. repeat split; auto; lia.
  - destruct (Hfin _ _ [] [] Hs) as (H1 & H2 & H3); [now rewrite app_nil_r | cbn; lia | lia |].
    split; [exact H3|]. exists [], []. cbn [returned accepted]. repeat split; auto; cbn; lia.
  - (* ReadMultipleOf / RData *)
    destruct ((consumed st + zlen D <=? zlen (acc st)) && zlist_eqb D (zslice (acc st) (consumed st) (zlen D)) && (0 <? k) && (zlen D mod k =? 0)) eqn:E; [|discriminate].
    apply andb_true_iff in E as [E E4]. apply andb_true_iff in E as [E E3]. apply andb_true_iff in E as [E1 E2]. apply zlist_eqb_eq in E2.
    pose proof (zlen_nonneg D).
    destruct (Hfin _ _ [] D Hs) as (H1 & H2 & H3); [now rewrite app_nil_r | lia | lia |].
    split; [exact H3|]. exists D, []. cbn [returned accepted]. rewrite app_nil_r. repeat split; auto; lia.
  - destruct (Hfin _ _ [] [] Hs) as (H1 & H2 & H3); [now rewrite app_nil_r | cbn; lia | lia |].
    split; [exact H3|]. exists [], []. cbn [returned accepted]. repeat split; auto; cbn; lia.
  - (* ReadAll / RData *)
    destruct ((consumed st + zlen D <=? zlen (acc st)) && zlist_eqb D (zslice (acc st) (consumed st) (zlen D))) eqn:E; [|discriminate].
    apply andb_true_iff in E as [E1 E2]. apply zlist_eqb_eq in E2.
    pose proof (zlen_nonneg D).
    destruct (Hfin _ _ [] D Hs) as (H1 & H2 & H3); [now rewrite app_nil_r | lia | lia |].
    split; [exact H3|]. exists D, []. cbn [returned accepted]. rewrite app_nil_r. repeat split; auto; lia.
  - destruct (Hfin _ _ [] [] Hs) as (H1 & H2 & H3); [now rewrite app_nil_r | cbn; lia | lia |].
    split; [exact H3|]. exists [], []. cbn [returned accepted]. repeat split; auto; cbn; lia.
Qed.

Lemma accepted_cons x h : accepted (x :: h) = accepted [x] ++ accepted h.
Proof. destruct x as [o [rt rd wr]]. destruct o; destruct rt; cbn [accepted]; rewrite ?app_nil_r; reflexivity. Qed.
Lemma returned_cons x h : returned (x :: h) = returned [x] ++ returned h.
Proof. destruct x as [o [rt rd wr]]. destruct rt; cbn [returned]; rewrite ?app_nil_r; reflexivity. Qed.

Lemma check_from_prefix st h :
  st_ok st -> check_from st h = true -> no_discards h ->
  exists rest, zskipn (consumed st) (acc st) ++ accepted h = returned h ++ rest.
Proof.
  revert st; induction h as [|[o b] h IH]; intros st Hok Hc Hnd.
  - exists (zskipn (consumed st) (acc st)). cbn. now rewrite app_nil_r.
  - cbn [check_from] in Hc. destruct (check_step st o b) as [st'|] eqn:Es; [|discriminate].
    assert (Hd : is_discard o = false) by (apply (Hnd o b); now left).
    destruct (check_step_props st o b st' Hok Es Hd) as (Hok' & D & X & HD & HX & HA & HC & Hsl & Hle).
    destruct (IH st' Hok' Hc) as [rest Hrest].
    { intros o' b' Hin. apply (Hnd o' b'). now right. }
    exists rest. rewrite accepted_cons, returned_cons, HD, HX.
    rewrite HA, HC in Hrest. unfold st_ok in Hok. pose proof (zlen_nonneg D).
    rewrite zskipn_app_l in Hrest by lia.
    rewrite (zskipn_split (acc st) (consumed st) (zlen D)) by lia.
    rewrite <- Hsl. rewrite <- !app_assoc. f_equal. rewrite app_assoc. exact Hrest.
Qed.

Theorem checker_sound_prefix h :
  C18_check h = true -> no_discards h -> reads_prefix_of_writes h.
Proof.
  intros Hc Hnd. unfold reads_prefix_of_writes.
  destruct (check_from_prefix {| acc := []; consumed := 0 |} h) as [rest Hr]; auto.
  - unfold st_ok; cbn; lia.
  - exists rest. exact Hr.
Qed.

(* ---------- consequences for the model, stated for every history ---------- *)
Theorem ring_reads_are_prefix_of_writes c ops :
  2 <= c -> (forall o, In o ops -> is_discard o = false) ->
  reads_prefix_of_writes (combine ops (snd (run (create c) ops))).
Proof.
  intros Hc Hnd. apply checker_sound_prefix.
  - now apply model_satisfies_checker.
  - intros o b Hin. apply Hnd. eapply in_combine_l; eauto.
Qed.

(* Size-constrained reads: the model returns exactly k * floor(readable / k) bytes *)
Theorem read_multiple_is_multiple s A k :
  GInv s A -> 0 < k < cap s ->
  exists D, snd (read_multiple_of s k) = RData D /\ zlen D = k * ((wp s - rp s) / k) /\
            D = zslice A (rp s) (zlen D).
Proof.
  intros H Hk. unfold read_multiple_of.
  replace ((k <=? 0) || (k >=? cap s)) with false by lia.
  rewrite (bytes_readable_inv _ _ H).
  set (size := k * ((wp s - rp s) / k)).
  pose proof (read_spec s A size H) as (Hd & _). cbv zeta in Hd.
  destruct (read s size) as [s' D]. cbn [fst snd] in *. exists D. split; [reflexivity|].
  destruct H as [Hc Hr Hroom Hw Hm].
  assert (Hsz : 0 <= size <= wp s - rp s).
  { unfold size. pose proof (Z.mul_div_le (wp s - rp s) k ltac:(lia)).
    assert (0 <= (wp s - rp s) / k) by (apply Z.div_pos; lia). nia. }
  replace (Z.max 0 (Z.min size (wp s - rp s))) with size in Hd by lia.
  assert (zlen D = size) by (rewrite Hd; apply zslice_length; lia).
  split; [assumption|]. now rewrite H.
Qed.

(* Discarding to a stride: the read position ends on the largest stride boundary not above the write
   position when such a boundary lies at or after the old read position; otherwise it is unchanged.
   It never moves backwards and nothing is un-consumed. *)
Theorem discard_on_boundary s A k :
  GInv s A -> 0 < k ->
  let s' := fst (discard_stride s k) in
  rp s <= rp s' <= wp s' /\ wp s' = wp s /\
  ((exists x, rp s <= x <= wp s /\ x mod k = 0) -> rp s' mod k = 0) /\
  ((forall x, rp s <= x <= wp s -> x mod k <> 0) -> rp s' = rp s).
Proof.
  intros H Hk s'. pose proof (discard_spec s A k H Hk) as (_ & Hr' & Hw' & _ & HG). cbv zeta in *.
  fold s' in Hr', Hw', HG. destruct H as [Hc Hr Hroom Hw Hm].
  pose proof (Z.mod_pos_bound (wp s) k Hk) as Hmk.
  assert (Hb : (wp s - wp s mod k) mod k = 0).
  { rewrite Zminus_mod_idemp_r. replace (wp s - wp s) with 0 by lia. apply Z.mod_0_l; lia. }
  repeat split; try lia.
  - intros [x [Hx Hx0]].
    (* x is a multiple of k, x <= wp s, so x <= wp s - wp s mod k *)
    assert (x <= wp s - wp s mod k).
    { pose proof (Z.div_mod x k ltac:(lia)). pose proof (Z.div_mod (wp s) k ltac:(lia)).
      assert (x / k <= wp s / k) by (apply Z.div_le_mono; lia). nia. }
    replace (rp s') with (wp s - wp s mod k) by lia. exact Hb.
  - intros Hnone. destruct (Z.le_gt_cases (rp s) (wp s - wp s mod k)) as [Hle|Hgt]; [|lia].
    exfalso. apply (Hnone (wp s - wp s mod k)); [lia | exact Hb].
Qed.

(* Exactly full / exactly empty *)
Theorem full_and_empty s A d :
  GInv s A ->
  snd (write s d) = Z.min (zlen d) (cap s - 1 - (wp s - rp s)) /\
  (wp s = rp s -> forall n, snd (read s n) = []).
Proof.
  intros H. split.
  - apply (write_spec s A d H).
  - intros He n. pose proof (read_spec s A n H) as (Hd & _). cbv zeta in Hd. rewrite Hd.
    replace (Z.max 0 (Z.min n (wp s - rp s))) with 0 by lia. reflexivity.
Qed.

(* The code before the fix violated the property: the observation history it produced on the
   witness below is rejected by the checker (byte 4 is returned twice). *)
Definition old_witness : list (op * obs) :=
  let s0 := create 16 in
  let (s1, n1) := write s0 [0;1;2;3;4;5;6] in
  let (s2, d2) := read s1 5 in
  let s3 := discard_stride_old s2 4 in
  let (s4, d4) := read_all s3 in
  [ (Write [0;1;2;3;4;5;6], {| o_ret := RWritten n1; o_readable := bytes_readable s1; o_writeable := bytes_writeable s1 |});
    (Read 5, {| o_ret := RData d2; o_readable := bytes_readable s2; o_writeable := bytes_writeable s2 |});
    (DiscardStride 4, {| o_ret := RNil; o_readable := bytes_readable s3; o_writeable := bytes_writeable s3 |});
    (ReadAll, {| o_ret := RData d4; o_readable := bytes_readable s4; o_writeable := bytes_writeable s4 |}) ].

Theorem ring_refines_fifo_refuted_before_fix :
  C18_check old_witness = false /\ returned old_witness = [0;1;2;3;4;4;5;6].
Proof. vm_compute. split; reflexivity. Qed.

(* non-vacuity: the invariant's premises are met by a state that has wrapped *)
Example ginv_nontrivial :
  exists s A, GInv s A /\ wp s > cap s /\ rp s > 0 /\
    s = fst (run (create 4) [Write [1;2;3]; Read 2; Write [4;5]]).
Proof.
  eexists. destruct (run_checks (create 4) [] [Write [1;2;3]; Read 2; Write [4;5]] (ginv_create 4 ltac:(lia)))
    as [_ [A' HG]].
  exists A'. split; [exact HG|]. vm_compute. repeat split; reflexivity.
Qed.

(* ---------- rings whose pointers start at an arbitrary base ---------- *)
(* The checker with a base is the plain checker run on a history that is preceded by [base] accepted and
   consumed bytes P: everything it looks at (lengths, slices at or after the consumed position, absolute
   positions) is the same. *)
Definition shifted (b : Z) (P : list Z) (st st' : cst) : Prop :=
  acc st' = P ++ acc st /\ consumed st' = b + consumed st.

Lemma zslice_shift (P A : list Z) b c n :
  zlen P = b -> 0 <= c -> zslice (P ++ A) (b + c) n = zslice A c n.
Proof.
  intros HP Hc. unfold zslice. f_equal. unfold zskipn, zlen in *.
  rewrite skipn_app. replace (Z.to_nat (b + c) - length P)%nat with (Z.to_nat c) by lia.
  rewrite skipn_all2 by lia. reflexivity.
Qed.

Lemma check_step_at_shift b P st st' o ob :
  zlen P = b -> 0 <= consumed st -> shifted b P st st' ->
  match check_step_at b st o ob, check_step st' o ob with
  | Some s1, Some s2 => shifted b P s1 s2 /\ 0 <= consumed s1
  | None, None => True
  | _, _ => False
  end.
Proof.
  intros HP Hc [HA HC]. destruct st as [A c], st' as [A' c']. cbn [acc consumed] in *. subst A' c'.
  pose proof (zlen_nonneg A) as HlA. pose proof (zlen_nonneg P) as HlP.
  assert (Hlen : zlen (P ++ A) = b + zlen A) by (rewrite zlen_app; lia).
  assert (Hfin : forall (X : list Z) (cc : Z), 0 <= cc ->
     match (if o_readable ob =? zlen (A ++ X) - cc then Some {| acc := A ++ X; consumed := cc |} else None),
           (if o_readable ob =? zlen ((P ++ A) ++ X) - (b + cc) then Some {| acc := (P ++ A) ++ X; consumed := b + cc |} else None)
     with Some s1, Some s2 => shifted b P s1 s2 /\ 0 <= consumed s1 | None, None => True | _, _ => False end).
  { intros X cc Hcc. rewrite !zlen_app.
    replace (zlen P + zlen A + zlen X - (b + cc)) with (zlen A + zlen X - cc) by lia.
    destruct (o_readable ob =? zlen A + zlen X - cc); [|exact I].
    split; [|exact Hcc]. split; cbn [acc consumed]; [now rewrite app_assoc | reflexivity]. }
  assert (Hfin0 : forall cc : Z, 0 <= cc ->
     match (if o_readable ob =? zlen A - cc then Some {| acc := A; consumed := cc |} else None),
           (if o_readable ob =? zlen (P ++ A) - (b + cc) then Some {| acc := P ++ A; consumed := b + cc |} else None)
     with Some s1, Some s2 => shifted b P s1 s2 /\ 0 <= consumed s1 | None, None => True | _, _ => False end).
  { intros cc Hcc. specialize (Hfin [] cc Hcc). now rewrite !app_nil_r in Hfin. }
  assert (Hdata : forall D : list Z,
     (b + c + zlen D <=? zlen (P ++ A)) && zlist_eqb D (zslice (P ++ A) (b + c) (zlen D))
     = (c + zlen D <=? zlen A) && zlist_eqb D (zslice A c (zlen D))).
  { intros D. rewrite Hlen, zslice_shift by assumption.
    replace (b + c + zlen D <=? b + zlen A) with (c + zlen D <=? zlen A) by lia. reflexivity. }
  unfold check_step_at, check_step. cbn [acc consumed].
  destruct o as [d|n|k| |k| ]; destruct (o_ret ob) as [wn|D| | | ]; try exact I;
    try (apply Hfin0; exact Hc).
  - (* Write *) destruct ((0 <=? wn) && (wn <=? zlen d)); [apply Hfin; exact Hc | exact I].
  - (* Read *) rewrite Hdata. pose proof (zlen_nonneg D).
    destruct ((c + zlen D <=? zlen A) && zlist_eqb D (zslice A c (zlen D)) && (zlen D <=? Z.max 0 n)); [|exact I].
    replace (b + c + zlen D) with (b + (c + zlen D)) by lia. apply Hfin0; lia.
  - (* ReadMultipleOf *) rewrite Hdata. pose proof (zlen_nonneg D).
    destruct ((c + zlen D <=? zlen A) && zlist_eqb D (zslice A c (zlen D)) && (0 <? k) && (zlen D mod k =? 0)); [|exact I].
    replace (b + c + zlen D) with (b + (c + zlen D)) by lia. apply Hfin0; lia.
  - (* ReadAll *) rewrite Hdata. pose proof (zlen_nonneg D).
    destruct ((c + zlen D <=? zlen A) && zlist_eqb D (zslice A c (zlen D))); [|exact I].
    replace (b + c + zlen D) with (b + (c + zlen D)) by lia. apply Hfin0; lia.
  - (* DiscardStride *)
    rewrite Hlen.
    replace (b + zlen A - o_readable ob) with (b + (zlen A - o_readable ob)) by lia.
    set (c' := zlen A - o_readable ob).
    replace (b + c <=? b + c') with (c <=? c') by lia.
    replace (b + c' <=? b + zlen A) with (c' <=? zlen A) by lia.
    replace (b + c' =? b + c) with (c' =? c) by lia.
    destruct ((0 <? k) && (c <=? c') && (c' <=? zlen A) &&
              (if b + c <=? b + zlen A - (b + zlen A) mod k then is_boundary k (b + c') else c' =? c)) eqn:E; [|exact I].
    pose proof Hfin0 as H0. rewrite Hlen in H0. apply H0. lia.
  - (* DiscardAll *)
    rewrite Hlen.
    replace (b + zlen A - o_readable ob) with (b + (zlen A - o_readable ob)) by lia.
    set (c' := zlen A - o_readable ob).
    replace (b + c <=? b + c') with (c <=? c') by lia.
    replace (b + c' <=? b + zlen A) with (c' <=? zlen A) by lia.
    destruct ((c <=? c') && (c' <=? zlen A)) eqn:E; [|exact I].
    pose proof Hfin0 as H0. rewrite Hlen in H0. apply H0. lia.
Qed.

Lemma check_from_at_shift b P h : forall st st',
  zlen P = b -> 0 <= consumed st -> shifted b P st st' ->
  check_from_at b st h = check_from st' h.
Proof.
  induction h as [|[o ob] h IH]; intros st st' HP Hc Hs; [reflexivity|].
  cbn [check_from_at check_from].
  pose proof (check_step_at_shift b P st st' o ob HP Hc Hs) as H.
  destruct (check_step_at b st o ob) as [s1|], (check_step st' o ob) as [s2|]; try contradiction; [|reflexivity].
  destruct H as [H1 H2]. now apply IH.
Qed.

Lemma repeat_zlen (b : Z) : 0 <= b -> zlen (repeat 0 (Z.to_nat b)) = b.
Proof. intros H. unfold zlen. rewrite repeat_length. lia. Qed.

Lemma ginv_create_at c b : 2 <= c -> 0 <= b -> GInv (create_at c b) (repeat 0 (Z.to_nat b)).
Proof. intros Hc Hb. split; cbn [create_at cap wp rp mem]; rewrite ?repeat_zlen by lia; try lia. Qed.

(* every capacity, every starting position of the free-running pointers, every history *)
Theorem model_satisfies_checker_at c b ops :
  2 <= c -> 0 <= b -> C18_check_at b (combine ops (snd (run (create_at c b) ops))) = true.
Proof.
  intros Hc Hb. unfold C18_check_at.
  rewrite (check_from_at_shift b (repeat 0 (Z.to_nat b)) _ {| acc := []; consumed := 0 |}
             {| acc := repeat 0 (Z.to_nat b); consumed := b |}).
  - apply (run_checks (create_at c b) _ ops (ginv_create_at c b Hc Hb)).
  - now apply repeat_zlen.
  - cbn; lia.
  - split; cbn [acc consumed]; [now rewrite app_nil_r | lia].
Qed.

Lemma check_from_at_0 st h : 0 <= consumed st -> check_from_at 0 st h = check_from st h.
Proof.
  intros Hc. apply (check_from_at_shift 0 [] h st st); [reflexivity | exact Hc |].
  split; [reflexivity | lia].
Qed.

(* ---- AbacoRing's use of the ring: once the read position stands on a packet boundary (after start() = discard to the
   stride p), every later sequence of writes, whole-packet reads ReadMultipleOf p and further discards to p leaves it
   on a packet boundary, whatever DEED writes and whenever it does so.  No ring invariant is needed: it is arithmetic
   on the free-running pointers alone, so it holds for any pointer base. ---- *)
Definition packet_op (p : Z) (o : op) : Prop :=
  match o with
  | Write _ => True
  | ReadMultipleOf k | DiscardStride k => k = p
  | _ => False
  end.

Lemma read_rp_le s size : size <= wp s - rp s ->
  rp (fst (read s size)) = rp s \/ rp (fst (read s size)) = rp s + size.
Proof.
  intro Hle. unfold read.
  replace (size >? wp s - rp s) with false by lia.
  destruct (size <=? 0) eqn:E2; cbn [fst rp]; [now left | now right].
Qed.

Lemma rmo_keeps_alignment s p : 0 < p -> rp s mod p = 0 ->
  rp (fst (read_multiple_of s p)) mod p = 0.
Proof.
  intros Hp Hal. unfold read_multiple_of.
  destruct ((p <=? 0) || (p >=? cap s)) eqn:E; cbn [fst]; [exact Hal|].
  assert (Hle : p * (bytes_readable s / p) <= wp s - rp s).
  { assert (p * (bytes_readable s / p) <= bytes_readable s) by (apply Z.mul_div_le; lia).
    unfold bytes_readable in *. destruct (wp s - rp s >=? cap s) eqn:E3; lia. }
  destruct (read s (p * (bytes_readable s / p))) as [s' d] eqn:Er.
  cbn [fst].
  pose proof (read_rp_le s _ Hle) as H. rewrite Er in H. cbn [fst] in H.
  destruct H as [H | H]; rewrite H; [exact Hal|].
  rewrite Z.mul_comm, Z.mod_add by lia. exact Hal.
Qed.

Lemma discard_keeps_alignment s p : 0 < p -> rp s mod p = 0 ->
  rp (fst (discard_stride s p)) mod p = 0.
Proof.
  intros Hp Hal. unfold discard_stride.
  replace (p <=? 0) with false by lia.
  set (nr := if wp s mod p >? 0 then wp s - wp s mod p else wp s).
  assert (Hnr : nr mod p = 0).
  { unfold nr. destruct (wp s mod p >? 0) eqn:E.
    - rewrite Zminus_mod, Z.mod_mod, Z.sub_diag, Z.mod_0_l by lia. reflexivity.
    - pose proof (Z.mod_pos_bound (wp s) p Hp). lia. }
  destruct (nr >? rp s); cbn [fst rp]; assumption.
Qed.

Lemma write_rp s d : rp (fst (write s d)) = rp s.
Proof. reflexivity. Qed.

Lemma packet_step_alignment s p o : 0 < p -> packet_op p o -> rp s mod p = 0 ->
  rp (fst (step s o)) mod p = 0.
Proof.
  intros Hp Hop Hal. destruct o; cbn [packet_op] in Hop; try contradiction; cbn [step].
  - destruct (write s d) as [s' n] eqn:E. cbn [fst]. change s' with (fst (s', n)). rewrite <- E, write_rp. exact Hal.
  - subst k. now apply rmo_keeps_alignment.
  - subst k. now apply discard_keeps_alignment.
Qed.

Theorem packet_alignment_preserved p : 0 < p -> forall ops s,
  Forall (packet_op p) ops -> rp s mod p = 0 -> rp (fst (run s ops)) mod p = 0.
Proof.
  intros Hp ops. induction ops as [|o rest IH]; intros s Hall Hal; cbn [run fst]; [exact Hal|].
  inversion Hall as [|? ? Ho Hrest]; subst.
  unfold observe. destruct (step s o) as [s1 r] eqn:Es.
  destruct (run s1 rest) as [s2 bs] eqn:Er. cbn [fst].
  change s2 with (fst (s2, bs)). rewrite <- Er. apply IH; [exact Hrest|].
  change s1 with (fst (s1, r)). rewrite <- Es. now apply packet_step_alignment.
Qed.

(* start(): whatever stood in the ring, after DiscardStride p the read position is on a packet boundary or did not move *)
Theorem start_aligns_or_keeps s p : 0 < p ->
  let s' := fst (discard_stride s p) in rp s' mod p = 0 \/ rp s' = rp s.
Proof.
  intros Hp. cbn zeta. unfold discard_stride. replace (p <=? 0) with false by lia.
  set (nr := if wp s mod p >? 0 then wp s - wp s mod p else wp s).
  assert (Hnr : nr mod p = 0).
  { unfold nr. destruct (wp s mod p >? 0) eqn:E.
    - rewrite Zminus_mod, Z.mod_mod, Z.sub_diag, Z.mod_0_l by lia. reflexivity.
    - pose proof (Z.mod_pos_bound (wp s) p Hp). lia. }
  destruct (nr >? rp s); cbn [fst rp]; [left; exact Hnr | right; reflexivity].
Qed.

Example packet_alignment_nonvacuous :
  let s0 := fst (run (create 64) [Write (zrange 0 30); DiscardStride 8]) in
  rp s0 = 24 /\ rp (fst (run s0 [Write (zrange 30 20); ReadMultipleOf 8; Write (zrange 50 9); DiscardStride 8])) = 56.
Proof. vm_compute. split; reflexivity. Qed.

(* ---- the checker for an arbitrary pointer base is sound in the same sense: only the stride clause mentions the base ---- *)
Lemma check_step_at_nodiscard base st o b :
  is_discard o = false -> check_step_at base st o b = check_step st o b.
Proof. intros Hd. destruct o; try discriminate Hd; reflexivity. Qed.

Lemma check_from_at_nodiscard base h : forall st,
  no_discards h -> check_from_at base st h = check_from st h.
Proof.
  induction h as [|[o b] h IH]; intros st Hnd; [reflexivity|].
  cbn [check_from_at check_from].
  rewrite check_step_at_nodiscard by (apply (Hnd o b); now left).
  destruct (check_step st o b) as [st'|]; [|reflexivity].
  apply IH. intros o' b' Hin. apply (Hnd o' b'). now right.
Qed.

Theorem checker_at_sound_prefix base h :
  C18_check_at base h = true -> no_discards h -> reads_prefix_of_writes h.
Proof.
  intros Hc Hnd. apply checker_sound_prefix; [|exact Hnd].
  unfold C18_check_at in Hc. rewrite check_from_at_nodiscard in Hc by exact Hnd. exact Hc.
Qed.

Theorem ring_reads_are_prefix_of_writes_at c b ops :
  2 <= c -> 0 <= b -> (forall o, In o ops -> is_discard o = false) ->
  reads_prefix_of_writes (combine ops (snd (run (create_at c b) ops))).
Proof.
  intros Hc Hb Hnd. apply (checker_at_sound_prefix b).
  - now apply model_satisfies_checker_at.
  - intros o ob Hin. apply Hnd. eapply in_combine_l; eauto.
Qed.

(* ---------- single-producer / single-consumer separation and frame facts ---------- *)

(* Reader-side calls move only the read pointer: the write pointer, the capacity and every byte of the
   shared memory are left as they were (for ANY state, reachable or not). *)
Definition reader_op (o : op) : Prop := match o with Write _ => False | _ => True end.

Lemma read_frame s n :
  wp (fst (read s n)) = wp s /\ cap (fst (read s n)) = cap s /\ mem (fst (read s n)) = mem s.
Proof. unfold read. cbv zeta. destruct (_ <=? 0); cbn; auto. Qed.

Lemma reader_step_frame s o : reader_op o ->
  wp (fst (step s o)) = wp s /\ cap (fst (step s o)) = cap s /\ mem (fst (step s o)) = mem s.
Proof.
  destruct o as [d|n|k| |k| ]; cbn [reader_op step]; intros H; try contradiction.
  - pose proof (read_frame s n) as F. destruct (read s n); exact F.
  - unfold read_multiple_of. destruct (_ || _); cbn; auto.
    pose proof (read_frame s (k * (bytes_readable s / k))) as F.
    destruct (read s _); exact F.
  - unfold read_all. pose proof (read_frame s (cap s)) as F. destruct (read s _); exact F.
  - unfold discard_stride. destruct (k <=? 0); cbn; auto. destruct (_ >? rp s); cbn; auto.
  - unfold discard_stride. destruct (1 <=? 0); cbn; auto. destruct (_ >? rp s); cbn; auto.
Qed.

Theorem reader_never_touches_writer_side ops : forall s,
  Forall reader_op ops ->
  wp (fst (run s ops)) = wp s /\ cap (fst (run s ops)) = cap s /\ mem (fst (run s ops)) = mem s.
Proof.
  induction ops as [|o ops IH]; intros s HF; cbn [run fst]; auto.
  inversion HF as [|? ? Ho Hrest]; subst.
  unfold observe. pose proof (reader_step_frame s o Ho) as (Fw & Fc & Fm).
  destruct (step s o) as [s1 r]; cbn [fst] in *.
  specialize (IH s1 Hrest). destruct (run s1 ops) as [s2 bs]; cbn [fst] in *.
  destruct IH as (Iw & Ic & Im). repeat split; congruence.
Qed.

(* The writer moves only the write pointer (and memory): read pointer and capacity are untouched,
   for ANY state. *)
Theorem writer_never_touches_reader_side s d :
  rp (fst (write s d)) = rp s /\ cap (fst (write s d)) = cap s.
Proof. unfold write; cbn; auto. Qed.

(* A write never alters a cell that still holds an unread byte (loss-freedom at the memory level). *)
Theorem write_preserves_unread s A d : GInv s A ->
  forall i, rp s <= i < wp s -> mem (fst (write s d)) (i mod cap s) = mem s (i mod cap s).
Proof.
  intros G i Hi. pose proof (write_spec s A d G) as H. cbv zeta in H.
  destruct H as (_ & Hr & Hw & Hc & G').
  destruct G as [_ _ Hroom HwA Hm]. destruct G' as [_ _ _ _ Hm'].
  rewrite Hc, Hr, Hw in Hm'. pose proof (zlen_nonneg d) as Hd.
  rewrite Hm' by lia. rewrite Hm by lia.
  apply znth_app_l. lia.
Qed.

(* A write never touches an address outside the data region [0, cap): whatever lies beside the ring in the shared
   mapping (its description header) is out of reach, for any state with a positive capacity and rp <= wp. *)
Lemma zlen_zfirstn_le {A} k (l : list A) : zlen (zfirstn k l) <= Z.max 0 k.
Proof. unfold zfirstn, zlen. rewrite firstn_length. lia. Qed.

Theorem write_stays_in_region s d a :
  0 < cap s -> rp s <= wp s -> (a < 0 \/ cap s <= a) -> mem (fst (write s d)) a = mem s a.
Proof.
  intros Hc Hr Ha. unfold write. cbv zeta. cbn [fst mem].
  set (c := cap s) in *. set (w := wp s) in *. set (r := rp s) in *.
  set (written := if zlen d >? c - (w - r + 1) then c - (w - r + 1) else zlen d).
  assert (Hwr : written <= c - 1) by (unfold written; destruct (zlen d >? c - (w - r + 1)) eqn:E; lia).
  pose proof (Z.mod_pos_bound w c Hc) as Hwm.
  pose proof (Z.mod_pos_bound (w + written) c Hc) as Hwm2.
  destruct ((w + written) / c >? w / c) eqn:Ewrap.
  - pose proof (zlen_zfirstn_le (c - w mod c) d) as L1.
    pose proof (zlen_zfirstn_le (written - (c - w mod c)) (zskipn (c - w mod c) d)) as L2.
    rewrite upd_range_out by lia. rewrite upd_range_out by lia. reflexivity.
  - pose proof (zlen_zfirstn_le ((w + written) mod c - w mod c) d) as L1.
    rewrite upd_range_out by lia. reflexivity.
Qed.

(* A read looks only at addresses inside the data region [0, cap): the bytes it returns (and the state it leaves)
   are the same for any two memories that agree on the region. *)
Lemma in_zrange_nat a n x : In x (zrange_nat a n) -> a <= x < a + Z.of_nat n.
Proof.
  revert a; induction n as [|n IH]; intros a H; cbn [zrange_nat] in H; [contradiction|].
  destruct H as [<-|H]; [lia|]. apply IH in H. lia.
Qed.
Lemma in_zrange a n x : In x (zrange a n) -> a <= x < a + Z.max 0 n.
Proof. unfold zrange; intros H. apply in_zrange_nat in H. lia. Qed.

Theorem read_looks_only_inside_region s m' size :
  0 < cap s -> rp s <= wp s -> wp s - rp s <= cap s ->
  (forall a, 0 <= a < cap s -> m' a = mem s a) ->
  snd (read {| cap := cap s; wp := wp s; rp := rp s; mem := m' |} size) = snd (read s size).
Proof.
  intros Hc Hr Hroom Hag. unfold read. cbv zeta. cbn [cap wp rp mem].
  set (c := cap s) in *. set (w := wp s) in *. set (r := rp s) in *.
  set (n := if size >? w - r then w - r else size).
  destruct (n <=? 0) eqn:En; [reflexivity|]. cbn [snd].
  assert (Hn : 0 < n <= c) by (unfold n in *; destruct (size >? w - r) eqn:Es; lia).
  pose proof (Z.mod_pos_bound r c Hc) as Hrm.
  pose proof (Z.mod_pos_bound (r + n) c Hc) as Hrm2.
  set (rawend := if (r + n) / c >? r / c then c else (r + n) mod c).
  assert (Hre : rawend <= c) by (unfold rawend; destruct ((r + n) / c >? r / c); [apply Z.le_refl | apply Z.lt_le_incl, Hrm2]).
  assert (E1 : map m' (zrange (r mod c) (rawend - r mod c)) = map (mem s) (zrange (r mod c) (rawend - r mod c))).
  { apply map_ext_in. intros x Hx. apply in_zrange in Hx. apply Hag. lia. }
  rewrite E1.
  set (d1 := map (mem s) (zrange (r mod c) (rawend - r mod c))).
  destruct (((r + n) / c >? r / c) && (n >? zlen d1)) eqn:E2; [|reflexivity].
  f_equal. apply map_ext_in. intros x Hx. apply in_zrange in Hx. apply Hag.
  pose proof (zlen_nonneg d1). lia.
Qed.

(* Conservation of space in every reachable state: what can be read plus what can be written is always cap-1
   (one cell is kept free to tell full from empty), and neither is negative. *)
Theorem space_conserved c ops : 2 <= c ->
  let s := fst (run (create c) ops) in
  bytes_readable s + bytes_writeable s = c - 1 /\ 0 <= bytes_readable s /\ 0 <= bytes_writeable s.
Proof.
  intros H. pose proof (ring_invariant_reachable c ops H) as I. cbv zeta in *.
  set (s := fst (run (create c) ops)) in *. destruct I as (Hr & Hroom & Hc).
  unfold bytes_readable, bytes_writeable. destruct (wp s - rp s >=? cap s) eqn:E; lia.
Qed.
