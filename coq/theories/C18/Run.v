(* C18 — evaluation of generated cases: model vs observed implementation output, and the checker. *)
From Dastard Require Import Common.ZX Common.CaseLib C18.Model C18.Spec.

Record case := { c_cap : Z; c_base : Z; c_hist : list (op * obs) }.

Definition ret_eqb (a b : ret) : bool :=
  match a, b with
  | RWritten x, RWritten y => x =? y
  | RData x, RData y => zlist_eqb x y
  | RErr, RErr | RNil, RNil | RPanic, RPanic => true
  | _, _ => false
  end.
Definition obs_eqb (a b : obs) : bool :=
  ret_eqb (o_ret a) (o_ret b) && (o_readable a =? o_readable b) && (o_writeable a =? o_writeable b).

(* index of the first operation whose observation differs, or -1 *)
Fixpoint first_diff (i : Z) (a b : list obs) : Z :=
  match a, b with
  | [], [] => -1
  | x :: a', y :: b' => if obs_eqb x y then first_diff (i + 1) a' b' else i
  | _, _ => i
  end.

(* Above this capacity the mirror model is not evaluated (its memory is a chain of closures over lists:
   reading n bytes written in one piece costs O(n^2)); the verdict is the property checker's alone, which is
   linear.  Sound for violations: by ring_refines_fifo every output of the model passes the checker, so a
   rejected implementation output differs from the model's and breaks the property; what is lost for these
   few large cases is only the detection of property-preserving deviations from the model (code 2). *)
Definition model_cap_limit : Z := 16384.

(* (code, index of first diverging op) *)
Definition verdict (c : case) : Z * Z :=
  if c_cap c >? model_cap_limit
  then (if C18_check_at (c_base c) (c_hist c) then 0 else 1, -1)
  else
  let ops := map fst (c_hist c) in
  let impl := map snd (c_hist c) in
  let model := snd (run (create_at (c_cap c) (c_base c)) ops) in
  let d := first_diff 0 impl model in
  (verdict_code (d =? -1) (C18_check_at (c_base c) (c_hist c)), d).

(* compact rendering of long byte strings: a, a+1, ... modulo 251 *)
Definition pat (a n : Z) : list Z := map (fun i => (a + i) mod 251) (zrange 0 n).

(* compact constructors for generated files *)
Definition W d n r w := (Write d, {| o_ret := RWritten n; o_readable := r; o_writeable := w |}).
Definition Rd k d r w := (Read k, {| o_ret := RData d; o_readable := r; o_writeable := w |}).
Definition RM k d r w := (ReadMultipleOf k, {| o_ret := RData d; o_readable := r; o_writeable := w |}).
Definition RMe k r w := (ReadMultipleOf k, {| o_ret := RErr; o_readable := r; o_writeable := w |}).
Definition RMp k := (ReadMultipleOf k, {| o_ret := RPanic; o_readable := 0; o_writeable := 0 |}).
Definition RA d r w := (ReadAll, {| o_ret := RData d; o_readable := r; o_writeable := w |}).
Definition DS k r w := (DiscardStride k, {| o_ret := RNil; o_readable := r; o_writeable := w |}).
Definition DSe k r w := (DiscardStride k, {| o_ret := RErr; o_readable := r; o_writeable := w |}).
Definition DSp k := (DiscardStride k, {| o_ret := RPanic; o_readable := 0; o_writeable := 0 |}).
Definition DA r w := (DiscardAll, {| o_ret := RNil; o_readable := r; o_writeable := w |}).
Definition mk (cap : Z) (h : list (op * obs)) : case := {| c_cap := cap; c_base := 0; c_hist := h |}.
(* a ring whose read and write pointers both stood at [base] before the history began *)
Definition mkb (cap base : Z) (h : list (op * obs)) : case := {| c_cap := cap; c_base := base; c_hist := h |}.
