(* C18 — mirror model of /repo/ringbuffer/ringbuffer.go (definitions only, no proofs).
   One Gallina function per Go method, same arithmetic, same two-copy split at the wrap point.
   Pointers are unbounded Z (premise: they stay below 2^64, i.e. no uint64 wrap within a run).
   The shared memory region is a total function  Z -> Z  (address -> byte). *)
From Dastard Require Import Common.ZX.

Record ring := { cap : Z; wp : Z; rp : Z; mem : Z -> Z }.

(* copy(raw[start:start+len data], data) *)
Definition upd_range (m : Z -> Z) (start : Z) (data : list Z) : Z -> Z :=
  fun a => if (start <=? a) && (a <? start + zlen data) then znth 0 data (a - start) else m a.

Definition create (c : Z) : ring := {| cap := c; wp := 0; rp := 0; mem := fun _ => 0 |}.

(* a ring whose free-running pointers already stand at b (a region that has carried b bytes before):
   the pointers are 64-bit counters that are never reduced modulo the capacity *)
Definition create_at (c b : Z) : ring := {| cap := c; wp := b; rp := b; mem := fun _ => 0 |}.

Inductive op :=
| Write (d : list Z)
| Read (n : Z)
| ReadMultipleOf (k : Z)
| ReadAll
| DiscardStride (k : Z)
| DiscardAll.

(* what a call returns, projected:  bytes accepted / data / error / nothing; every call is followed
   by the observations BytesReadable() and BytesWriteable() *)
Inductive ret :=
| RWritten (n : Z)
| RData (d : list Z)
| RErr
| RNil
| RPanic.

(* RingBuffer.Write *)
Definition write (s : ring) (d : list Z) : ring * Z :=
  let w := wp s in let r := rp s in let c := cap s in
  let available := c - (w - r + 1) in
  let written := if zlen d >? available then available else zlen d in
  let wAfter := w + written in
  let dataWraps := wAfter / c >? w / c in
  let rawbegin := w mod c in
  let rawend := if dataWraps then c else wAfter mod c in
  let firstblocksize := rawend - rawbegin in
  let m1 := upd_range (mem s) rawbegin (zfirstn firstblocksize d) in
  let m2 := if dataWraps
            then upd_range m1 0 (zfirstn (written - firstblocksize) (zskipn firstblocksize d))
            else m1 in
  ({| cap := c; wp := wAfter; rp := r; mem := m2 |}, written).

(* RingBuffer.Read *)
Definition read (s : ring) (size : Z) : ring * list Z :=
  let w := wp s in let r := rp s in let c := cap s in
  let available := w - r in
  let bytesRead := if size >? available then available else size in
  if bytesRead <=? 0 then (s, [])
  else
    let rAfter := r + bytesRead in
    let dataWraps := rAfter / c >? r / c in
    let rawbegin := r mod c in
    let rawend := if dataWraps then c else rAfter mod c in
    let data := map (mem s) (zrange rawbegin (rawend - rawbegin)) in
    let data := if dataWraps && (bytesRead >? zlen data)
                then data ++ map (mem s) (zrange 0 (bytesRead - zlen data))
                else data in
    ({| cap := c; wp := w; rp := rAfter; mem := mem s |}, data).

(* RingBuffer.BytesReadable / BytesWriteable *)
Definition bytes_readable (s : ring) : Z :=
  if wp s - rp s >=? cap s then cap s - 1 else wp s - rp s.
Definition bytes_writeable (s : ring) : Z := cap s - (wp s - rp s + 1).

(* RingBuffer.ReadMultipleOf — chunksize <= 0 is rejected (fix commit), uint64(chunksize) >= size too *)
Definition read_multiple_of (s : ring) (k : Z) : ring * ret :=
  if (k <=? 0) || (k >=? cap s) then (s, RErr)
  else let nchunks := bytes_readable s / k in
       let (s', d) := read s (k * nchunks) in (s', RData d).

(* RingBuffer.ReadAll *)
Definition read_all (s : ring) : ring * list Z := read s (cap s).

(* RingBuffer.DiscardStride — stride 0 is rejected and the read pointer never moves backwards (fix commit) *)
Definition discard_stride (s : ring) (k : Z) : ring * ret :=
  if k <=? 0 then (s, RErr)
  else
    let newRp := wp s in
    let newRp := if newRp mod k >? 0 then newRp - newRp mod k else newRp in
    if newRp >? rp s
    then ({| cap := cap s; wp := wp s; rp := newRp; mem := mem s |}, RNil)
    else (s, RNil).

(* The code as it was before the fix: used only by the [_refuted] theorem. *)
Definition discard_stride_old (s : ring) (k : Z) : ring :=
  let newRp := wp s in
  let newRp := if newRp mod k >? 0 then newRp - newRp mod k else newRp in
  {| cap := cap s; wp := wp s; rp := newRp; mem := mem s |}.

Definition step (s : ring) (o : op) : ring * ret :=
  match o with
  | Write d => let (s', n) := write s d in (s', RWritten n)
  | Read n => let (s', d) := read s n in (s', RData d)
  | ReadMultipleOf k => read_multiple_of s k
  | ReadAll => let (s', d) := read_all s in (s', RData d)
  | DiscardStride k => discard_stride s k
  | DiscardAll => discard_stride s 1
  end.

(* one observation per call: the return value, then BytesReadable and BytesWriteable *)
Record obs := { o_ret : ret; o_readable : Z; o_writeable : Z }.

Definition observe (s : ring) (o : op) : ring * obs :=
  let (s', r) := step s o in
  (s', {| o_ret := r; o_readable := bytes_readable s'; o_writeable := bytes_writeable s' |}).

Fixpoint run (s : ring) (ops : list op) : ring * list obs :=
  match ops with
  | [] => (s, [])
  | o :: rest => let (s1, b) := observe s o in
                 let (s2, bs) := run s1 rest in (s2, b :: bs)
  end.
