(* C18 — the property as a checker over OBSERVABLES only (what a client of the ring buffer sees):
   the operations issued and, for each, the value returned plus BytesReadable()/BytesWriteable()
   right after it.  Nothing in this file mentions the model. *)
From Dastard Require Import Common.ZX C18.Model.

(* abstract state of the checker: every byte accepted so far, and how many were consumed
   (returned by a read or skipped by a discard) *)
Record cst := { acc : list Z; consumed : Z }.

Definition is_boundary (k x : Z) : bool := x mod k =? 0.

Definition check_step (st : cst) (o : op) (b : obs) : option cst :=
  let A := acc st in let c := consumed st in
  let fin (A' : list Z) (c' : Z) :=
    (* nothing accepted is lost: accepted-but-unconsumed bytes are all still readable *)
    if o_readable b =? zlen A' - c' then Some {| acc := A'; consumed := c' |} else None in
  let data_ok (D : list Z) :=
    (c + zlen D <=? zlen A) && zlist_eqb D (zslice A c (zlen D)) in
  match o, o_ret b with
  | _, RPanic => None
  | Write d, RWritten n =>
      if (0 <=? n) && (n <=? zlen d) then fin (A ++ zfirstn n d) c else None
  | Read n, RData D =>
      if data_ok D && (zlen D <=? Z.max 0 n) then fin A (c + zlen D) else None
  | ReadAll, RData D =>
      if data_ok D then fin A (c + zlen D) else None
  | ReadMultipleOf k, RData D =>
      if data_ok D && (0 <? k) && (zlen D mod k =? 0) then fin A (c + zlen D) else None
  | DiscardStride k, RNil =>
      let c' := zlen A - o_readable b in
      if (0 <? k) && (c <=? c') && (c' <=? zlen A)
         && (if c <=? zlen A - zlen A mod k          (* a stride boundary exists in [c, |A|] *)
             then is_boundary k c' else c' =? c)
      then fin A c' else None
  | DiscardAll, RNil =>
      let c' := zlen A - o_readable b in
      if (c <=? c') && (c' <=? zlen A) then fin A c' else None
  | _, RErr => fin A c                          (* an error return must not change anything *)
  | _, _ => None
  end.

(* The same judgement for a ring whose pointers stood at [base] when the observation began: the abstract
   state counts bytes from the start of the observation, stride boundaries are about ABSOLUTE positions. *)
Definition check_step_at (base : Z) (st : cst) (o : op) (b : obs) : option cst :=
  let A := acc st in let c := consumed st in
  let fin (A' : list Z) (c' : Z) :=
    if o_readable b =? zlen A' - c' then Some {| acc := A'; consumed := c' |} else None in
  let data_ok (D : list Z) :=
    (c + zlen D <=? zlen A) && zlist_eqb D (zslice A c (zlen D)) in
  match o, o_ret b with
  | _, RPanic => None
  | Write d, RWritten n =>
      if (0 <=? n) && (n <=? zlen d) then fin (A ++ zfirstn n d) c else None
  | Read n, RData D =>
      if data_ok D && (zlen D <=? Z.max 0 n) then fin A (c + zlen D) else None
  | ReadAll, RData D =>
      if data_ok D then fin A (c + zlen D) else None
  | ReadMultipleOf k, RData D =>
      if data_ok D && (0 <? k) && (zlen D mod k =? 0) then fin A (c + zlen D) else None
  | DiscardStride k, RNil =>
      let c' := zlen A - o_readable b in
      if (0 <? k) && (c <=? c') && (c' <=? zlen A)
         && (if base + c <=? (base + zlen A) - (base + zlen A) mod k
             then is_boundary k (base + c') else c' =? c)
      then fin A c' else None
  | DiscardAll, RNil =>
      let c' := zlen A - o_readable b in
      if (c <=? c') && (c' <=? zlen A) then fin A c' else None
  | _, RErr => fin A c
  | _, _ => None
  end.

Fixpoint check_from_at (base : Z) (st : cst) (h : list (op * obs)) : bool :=
  match h with
  | [] => true
  | (o, b) :: rest =>
      match check_step_at base st o b with
      | Some st' => check_from_at base st' rest
      | None => false
      end
  end.

Definition C18_check_at (base : Z) (h : list (op * obs)) : bool :=
  check_from_at base {| acc := []; consumed := 0 |} h.

Fixpoint check_from (st : cst) (h : list (op * obs)) : bool :=
  match h with
  | [] => true
  | (o, b) :: rest =>
      match check_step st o b with
      | Some st' => check_from st' rest
      | None => false
      end
  end.

Definition C18_check (h : list (op * obs)) : bool :=
  check_from {| acc := []; consumed := 0 |} h.

(* ---- the same thing as Props, for the statement of the theorems ---- *)

(* bytes accepted by the writes of a history *)
Fixpoint accepted (h : list (op * obs)) : list Z :=
  match h with
  | [] => []
  | (Write d, {| o_ret := RWritten n |}) :: rest => zfirstn n d ++ accepted rest
  | _ :: rest => accepted rest
  end.

(* bytes returned by the reads of a history *)
Fixpoint returned (h : list (op * obs)) : list Z :=
  match h with
  | [] => []
  | (_, {| o_ret := RData D |}) :: rest => D ++ returned rest
  | _ :: rest => returned rest
  end.

Definition is_discard (o : op) : bool :=
  match o with DiscardStride _ | DiscardAll => true | _ => false end.

Definition no_discards (h : list (op * obs)) : Prop :=
  forall o b, In (o, b) h -> is_discard o = false.

(* "the concatenation of all bytes returned by reads equals a prefix of the concatenation of all bytes
    accepted by writes" *)
Definition reads_prefix_of_writes (h : list (op * obs)) : Prop :=
  exists rest, accepted h = returned h ++ rest.
