(* Shared mirror of the per-channel retained stream of data_source.go / triggering.go:
   DataSegment, DataStream.AppendSegment, DataStream.TrimKeepingN, triggerAtSpecificSamples.
   Used by C01, C02, C08, C09.  Decimation is off (framesPerSample = 1): it cannot be switched on
   through any RPC or configuration path, and the harness asserts it.
   Times are integer nanoseconds; frame numbers are unbounded Z (premise: below 2^63). *)
From Dastard Require Import Common.ZX.

Record segment := { seg_data : list Z; seg_first : Z; seg_time : Z; seg_period : Z; seg_signed : bool }.
Record stream  := { st_data  : list Z; st_first  : Z; st_time  : Z; st_period  : Z; st_signed  : bool }.
Record record  := { r_frame : Z; r_time : Z; r_pre : Z; r_data : list Z; r_signed : bool }.

(* NewDataStreamProcessor: empty stream, frame 0, 1 ms period (the time of creation is never observable:
   AppendSegment overwrites it before any record is cut) *)
Definition empty_stream : stream :=
  {| st_data := []; st_first := 0; st_time := 0; st_period := 1000000; st_signed := false |}.

(* DataStream.AppendSegment — note the time shift uses the OLD period, then the period is replaced *)
Definition append (st : stream) (sg : segment) : stream :=
  let n := zlen (st_data st) in
  {| st_data := st_data st ++ seg_data sg;
     st_first := seg_first sg - n;
     st_time := seg_time sg - n * st_period st;
     st_period := seg_period sg;
     st_signed := seg_signed sg |}.

(* DataStream.TrimKeepingN (N >= L is a no-op) *)
Definition trim (N : Z) (st : stream) : stream :=
  let L := zlen (st_data st) in
  if N >=? L then st
  else {| st_data := zskipn (L - N) (st_data st);
          st_first := st_first st + (L - N);
          st_time := st_time st + (L - N) * st_period st;
          st_period := st_period st;
          st_signed := st_signed st |}.

(* triggerAtSpecificSamples: Panic where the Go slice expression is out of range of the live data
   (Go would re-slice into stale capacity or panic; either way the observable samples differ) *)
Definition trigger_at (st : stream) (i npre nsamp : Z) : res record :=
  if (i - npre <? 0) || (i + nsamp - npre >? zlen (st_data st)) || (nsamp <? 0) then Panic
  else Ok {| r_frame := st_first st + i;
             r_time := st_time st + i * st_period st;
             r_pre := npre;
             r_data := zslice (st_data st) (i - npre) nsamp;
             r_signed := st_signed st |}.

Definition record_eqb (a b : record) : bool :=
  (r_frame a =? r_frame b) && (r_time a =? r_time b) && (r_pre a =? r_pre b)
  && zlist_eqb (r_data a) (r_data b) && Bool.eqb (r_signed a) (r_signed b).

(* ---- ground truth: G = everything delivered so far for this channel, F0 = frame number of G[0] ---- *)
Record StreamInv (G : list Z) (F0 : Z) (st : stream) : Prop := {
  si_len   : zlen (st_data st) <= zlen G;
  si_data  : st_data st = zskipn (zlen G - zlen (st_data st)) G;
  si_first : st_first st = F0 + (zlen G - zlen (st_data st))
}.

Lemma zskipn_app_r {A} (l x : list A) a : 0 <= a <= zlen l -> zskipn a (l ++ x) = zskipn a l ++ x.
Proof.
  unfold zskipn, zlen; intros H. rewrite skipn_app.
  replace (Z.to_nat a - length l)%nat with 0%nat by lia. reflexivity.
Qed.

Lemma zskipn_zskipn {A} (l : list A) a b : 0 <= a -> 0 <= b -> zskipn a (zskipn b l) = zskipn (a + b) l.
Proof.
  unfold zskipn; intros Ha Hb. rewrite Z2Nat.inj_add by lia.
  generalize (Z.to_nat a) (Z.to_nat b). clear. intros a b. revert l.
  induction b as [|b IH]; intros l; [now rewrite Nat.add_0_r|].
  destruct l as [|x l]; [now rewrite !skipn_nil|]. rewrite Nat.add_succ_r. cbn [skipn]. apply IH.
Qed.

Lemma zskipn_length {A} (l : list A) a : 0 <= a <= zlen l -> zlen (zskipn a l) = zlen l - a.
Proof. unfold zskipn, zlen; intros H. rewrite skipn_length. lia. Qed.

(* a contiguous source: the segment continues the ground truth at the next frame *)
Lemma append_inv G F0 st sg :
  StreamInv G F0 st -> seg_first sg = F0 + zlen G ->
  StreamInv (G ++ seg_data sg) F0 (append st sg).
Proof.
  intros [Hl Hd Hf] Hc. pose proof (zlen_nonneg (st_data st)).
  split; cbn [append st_data st_first]; rewrite ?zlen_app.
  - lia.
  - replace (zlen G + zlen (seg_data sg) - (zlen (st_data st) + zlen (seg_data sg)))
      with (zlen G - zlen (st_data st)) by lia.
    rewrite zskipn_app_r by lia. now rewrite <- Hd.
  - lia.
Qed.

Lemma trim_inv G F0 st N : 0 <= N -> StreamInv G F0 st -> StreamInv G F0 (trim N st).
Proof.
  intros HN [Hl Hd Hf]. unfold trim. destruct (N >=? zlen (st_data st)) eqn:E; [now split|].
  pose proof (zlen_nonneg (st_data st)).
  assert (HL : zlen (zskipn (zlen (st_data st) - N) (st_data st)) = N) by (rewrite zskipn_length; lia).
  split; cbn [st_data st_first]; rewrite ?HL.
  - lia.
  - rewrite Hd at 2. rewrite zskipn_zskipn by lia. f_equal. lia.
  - lia.
Qed.

Lemma zslice_zskipn {A} (l : list A) a b n : 0 <= a -> 0 <= b -> zslice (zskipn a l) b n = zslice l (a + b) n.
Proof. intros Ha Hb. unfold zslice. rewrite zskipn_zskipn by lia. do 2 f_equal. lia. Qed.

(* every record cut from the retained stream is the exact excerpt of the ground truth around its frame *)
Lemma trigger_at_excerpt G F0 st i npre nsamp r :
  StreamInv G F0 st -> trigger_at st i npre nsamp = Ok r ->
  let j := r_frame r - F0 in
  r_pre r = npre /\ zlen (r_data r) = nsamp /\ 0 <= j - npre /\ j - npre + nsamp <= zlen G /\
  r_data r = zslice G (j - npre) nsamp /\
  r_time r = st_time st + (r_frame r - st_first st) * st_period st.
Proof.
  intros [Hl Hd Hf] Ht. unfold trigger_at in Ht.
  destruct ((i - npre <? 0) || (i + nsamp - npre >? zlen (st_data st)) || (nsamp <? 0)) eqn:E; [discriminate|].
  inversion Ht; subst r; clear Ht. cbn [r_frame r_time r_pre r_data].
  pose proof (zlen_nonneg (st_data st)).
  assert (Hsl : zlen (zslice (st_data st) (i - npre) nsamp) = nsamp).
  { unfold zslice, zfirstn, zskipn, zlen in *. rewrite firstn_length, skipn_length. lia. }
  repeat split; try lia.
  rewrite Hd at 1. rewrite zslice_zskipn by lia. f_equal. lia.
Qed.
