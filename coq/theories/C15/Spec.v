(* C15 — the property as a checker over OBSERVABLES only: the byte string handed to the decoder, what
   ReadPacket returned and how many bytes it took from the reader, what every accessor returned (or
   that it panicked); for the encoder the constructor calls issued, what each returned, the bytes
   Bytes() produced and the observation of decoding them.  Nothing here calls the model; Model.v is
   imported for the observation types only. *)
From Dastard Require Import Common.ZX C15.Model.

Definition bytes_ok (bs : list Z) : Prop := Forall (fun b => 0 <= b < 256) bs.

(* the length the 16-byte header declares: header length byte + 16-bit payload length *)
Definition declared (bs : list Z) : Z := znth 0 bs 1 + (znth 0 bs 2 * 256 + znth 0 bs 3).

(* number of samples / of bytes held by Packet.Data *)
Definition data_count (d : pdata) : Z :=
  match d with D16 l | D32 l | D64 l | DBytes l => zlen l | DNil | DOther => 0 end.
Definition data_bytes (d : pdata) : Z :=
  match d with
  | D16 l => 2 * zlen l | D32 l => 4 * zlen l | D64 l => 8 * zlen l | DBytes l => zlen l
  | DNil | DOther => 0
  end.

Definition same_kind_count (a b : pdata) : bool :=
  match a, b with
  | DNil, DNil | DOther, DOther => true
  | D16 x, D16 y | D32 x, D32 y | D64 x, D64 y | DBytes x, DBytes y => zlen x =? zlen y
  | _, _ => false
  end.

Definition res_is_ok {A} (r : res A) : bool := match r with Ok _ => true | Panic => false end.

(* a filler packet made with n <> 0 channels: made without a panic, same frame count, same length,
   same kind and amount of data (n = 0 is a caller error: integer division by zero) *)
Definition pretend_ok (f : Z) (a : aobs) (x : (Z * Z) * res pobs) : bool :=
  if snd (fst x) =? 0 then true
  else match snd x with
       | Panic => false
       | Ok q => match p_frames q with Ok f' => f' =? f | Panic => false end
                 && (p_len q =? a_len a) && same_kind_count (p_data q) (a_data a)
       end.

(* "Decoding any byte string either returns an error or returns a packet on which every accessor is
    safe to call and reports mutually consistent sizes; decoding never panics and never consumes more
    bytes than the header declares" *)
Definition decode_check (bs : list Z) (o : dobs) : bool :=
  match o with
  | ODPanic => false
  | ODErr n =>
      (* the fixed 16-byte header is always read; beyond it, never more than declared, never more than given *)
      (0 <=? n) && (n <=? zlen bs) && (n <=? Z.max 16 (declared bs))
  | ODOk n a =>
      (0 <=? n) && (n <=? zlen bs) && (n <=? declared bs)
      && (a_len a =? declared bs)                                   (* Length() *)
      && (n =? znth 0 bs 1 + data_bytes (a_data a))                 (* header + payload actually held *)
      && match a_frames a, a_chan a with                            (* Frames(), ChannelInfo() *)
         | Ok f, Ok (nc, off) =>
             (0 <=? f) && (1 <=? nc) && (f * nc <=? data_count (a_data a))
             && (0 <=? off) && (off <? 4294967296)
             && forallb (fun r => res_is_ok (snd r)) (a_reads a)     (* ReadValue(i), any i *)
             && forallb (pretend_ok f a) (a_pretend a)               (* MakePretendPacket(seq, n) *)
         | _, _ => false
         end
      (* Timestamp() and IsExternalTrigger() were called as well: their values are in a_ts / a_ext; had one of
         them panicked the harness would have reported the whole observation as ODPanic *)
  end.

Definition pdata_eqb (a b : pdata) : bool :=
  match a, b with
  | DNil, DNil | DOther, DOther => true
  | D16 x, D16 y | D32 x, D32 y | D64 x, D64 y | DBytes x, DBytes y => zlist_eqb x y
  | _, _ => false
  end.

Definition opt_eqb {A} (eqb : A -> A -> bool) (a b : option A) : bool :=
  match a, b with
  | None, None => true
  | Some x, Some y => eqb x y
  | _, _ => false
  end.

(* same payload samples: the same kind and values; a packet built with an empty slice carries no payload
   bytes, so the decoder has nothing to put in Data (nil): zero samples either way *)
Definition payload_eqb (decoded built : pdata) : bool :=
  if data_count built =? 0 then data_count decoded =? 0 else pdata_eqb decoded built.

(* what is seen of a construction: the accessors of the built packet, Bytes(), and the decoding of those bytes *)
Record bobs := { b_acc : aobs; b_bytes : res (list Z); b_dec : dobs }.

Definition is_panic_ret (r : bret) : bool := match r with BRPanic => true | _ => false end.
Definition is_err_ret (r : bret) : bool := match r with BRErr => true | _ => false end.

(* "Encoding any packet built through the public constructors and decoding the bytes reproduces version,
    source id, sequence number, channel offset, shape, payload samples and timestamp counter":
   one encoding, compared with the fields the encoded object has at that moment *)
Definition enc_ok (b : res bobs) : bool :=
  match b with
  | Panic => false
  | Ok b =>
      match b_bytes b, b_dec b with
      | Ok bs, ODOk n a =>
          let p := b_acc b in
          decode_check bs (b_dec b)
          && (n =? zlen bs)
          && (a_version a =? a_version p) && (a_src a =? a_src p) && (a_seq a =? a_seq p)
          && match a_chan a, a_chan p with
             | Ok (_, o1), Ok (_, o2) => o1 =? o2
             | _, _ => false
             end
          && opt_eqb zlist_eqb (a_shape a) (a_shape p)
          && payload_eqb (a_data a) (a_data p)
          && opt_eqb Z.eqb (a_ts a) (a_ts p)
      | _, _ => false
      end
  end.

(* what a step of a history returned: a constructor's error value, or (for an encoding) the two oracle words
   and the observation *)
Inductive hres := HRet (r : bret) | HEnc (num denom : Z) (b : res bobs).

(* What the caller has asked the object to hold, read off the ARGUMENTS of the calls that returned nil (not
   off the object): the dims and samples of the last NewData (none after ClearData), the counter of the time
   stamp handed to SetTimestamp as the caller has last set it (none after ResetTimestamp). *)
Record expst := { x_shape : option (list Z); x_data : pdata; x_ts : option Z }.
Definition exp0 : expst := {| x_shape := None; x_data := DNil; x_ts := None |}.
Definition exp_step (e : expst) (o : bop) : expst :=
  match o with
  | BSetTs t _ => {| x_shape := x_shape e; x_data := x_data e; x_ts := Some t |}
  | BResetTs => {| x_shape := x_shape e; x_data := x_data e; x_ts := None |}
  | BClear => {| x_shape := None; x_data := DNil; x_ts := x_ts e |}
  | BNewData d dims => {| x_shape := Some dims; x_data := d; x_ts := x_ts e |}
  | BMutTs t => {| x_shape := x_shape e; x_data := x_data e;
                   x_ts := match x_ts e with Some _ => Some t | None => None end |}
  end.

(* the decoded bytes carry the shape, samples and counter the caller asked for *)
Definition exp_ok (e : expst) (b : res bobs) : bool :=
  match b with
  | Ok b =>
      match b_dec b with
      | ODOk _ a => opt_eqb zlist_eqb (a_shape a) (x_shape e) && payload_eqb (a_data a) (x_data e)
                    && opt_eqb Z.eqb (a_ts a) (x_ts e)
      | _ => false
      end
  | Panic => false
  end.

(* a filler: same shape and counter, as many samples of the same type (their values are MakePretendPacket's) *)
Definition payload_like (decoded asked : pdata) : bool :=
  if data_count asked =? 0 then data_count decoded =? 0 else same_kind_count decoded asked.
Definition exp_ok_filler (e : expst) (b : res bobs) : bool :=
  match b with
  | Ok b =>
      match b_dec b with
      | ODOk _ a => opt_eqb zlist_eqb (a_shape a) (x_shape e) && payload_like (a_data a) (x_data e)
                    && opt_eqb Z.eqb (a_ts a) (x_ts e)
      | _ => false
      end
  | Panic => false
  end.

(* A history on one object and the objects derived from it.  EVERY encoding — of the object at any point of
   its life (after further constructor calls, after the caller advanced the time stamp it handed over, a
   second time in a row) and of a filler packet made from it by MakePretendPacket(seq, n), n <> 0 — must
   decode to the CURRENT fields of the encoded object ([enc_ok]) and to what the caller last asked it to
   hold ([exp_ok]).  A constructor call that panics has not built anything although it was asked to:
   rejected.  Once a call has returned an error the caller was told that nothing was built: no claim from
   then on.  [clean] = no error so far. *)
Fixpoint hist_check (clean : bool) (e : expst) (h : list (hop * hres)) : bool :=
  match h with
  | [] => true
  | (HOp o, HRet r) :: rest =>
      if is_panic_ret r then false else hist_check (clean && negb (is_err_ret r)) (exp_step e o) rest
  | (HEncode, HEnc _ _ b) :: rest =>
      (if clean then enc_ok b && exp_ok e b else true) && hist_check clean e rest
  | (HFiller _ n, HEnc _ _ b) :: rest =>
      (if clean && negb (n =? 0) then enc_ok b && exp_ok_filler e b else true) && hist_check clean e rest
  | _ => false
  end.

Definition build_check (h : list (hop * hres)) : bool := hist_check true exp0 h.
