(* C15 — encode_decode: decoding the bytes of a packet built through the public constructors. *)
From Dastard Require Import Common.ZX C15.Model C15.Spec C15.Proofs.
From Coq Require Import ZifyBool ZifyNat.

(* ================================================================== encodings *)

Lemma enc_be_length n : forall x, length (enc_be n x) = n.
Proof. induction n as [|n IH]; intros x; cbn [enc_be length]; [reflexivity|]. rewrite app_length, IH. cbn [length]. lia. Qed.

Lemma zlen_enc_be n x : zlen (enc_be n x) = Z.of_nat n.
Proof. unfold zlen. now rewrite enc_be_length. Qed.

Lemma be_val_app l b : be_val (l ++ [b]) = be_val l * 256 + b.
Proof. unfold be_val. rewrite fold_left_app. reflexivity. Qed.

Lemma be_val_enc_be n : forall x, be_val (enc_be n x) = x mod 256 ^ Z.of_nat n.
Proof.
  induction n as [|n IH]; intros x.
  - cbn [enc_be]. change (Z.of_nat 0) with 0. rewrite Z.pow_0_r, Z.mod_1_r. reflexivity.
  - cbn [enc_be]. rewrite be_val_app, IH. rewrite Nat2Z.inj_succ, Z.pow_succ_r by lia.
    assert (P : 0 < 256 ^ Z.of_nat n) by (apply Z.pow_pos_nonneg; lia).
    rewrite Z.rem_mul_r by lia. lia.
Qed.

Lemma enc_be_bytes_ok n : forall x, bytes_ok (enc_be n x).
Proof.
  induction n as [|n IH]; intros x; cbn [enc_be]; [constructor|].
  apply Forall_app. split; [apply IH|]. constructor; [|constructor].
  apply Z.mod_pos_bound. lia.
Qed.

Lemma le_val_enc_le n x : le_val (enc_le n x) = x mod 256 ^ Z.of_nat n.
Proof. unfold le_val, enc_le. rewrite rev_involutive. apply be_val_enc_be. Qed.

Lemma zlen_enc_le n x : zlen (enc_le n x) = Z.of_nat n.
Proof. unfold enc_le, zlen. rewrite rev_length, enc_be_length. reflexivity. Qed.

(* ================================================================== slices of concatenations *)

Lemma zslice_app_mid {A} (a m b : list A) : zslice (a ++ m ++ b) (zlen a) (zlen m) = m.
Proof. unfold zslice. rewrite zskipn_app_exact by reflexivity. now apply zfirstn_app_exact. Qed.

Lemma be_app_mid a m b i n : zlen a = i -> zlen m = n -> be (a ++ m ++ b) i n = be_val m.
Proof. intros <- <-. unfold be. now rewrite zslice_app_mid. Qed.

Lemma zslice_app_l {A} (t r : list A) i n : 0 <= i -> 0 <= n -> i + n <= zlen t ->
  zslice (t ++ r) i n = zslice t i n.
Proof.
  intros Hi Hn Hl. unfold zslice, zfirstn, zskipn, zlen in *.
  rewrite skipn_app. rewrite firstn_app.
  replace (Z.to_nat n - length (skipn (Z.to_nat i) t))%nat with 0%nat by (rewrite skipn_length; lia).
  cbn [firstn]. now rewrite app_nil_r.
Qed.

Lemma znth_app_l {A} (d : A) t r i : 0 <= i < zlen t -> znth d (t ++ r) i = znth d t i.
Proof. intros H. unfold znth, zlen in *. destruct (i <? 0); [reflexivity|]. apply app_nth1. lia. Qed.

Lemma byte_at_app_l t r i : 0 <= i < zlen t -> byte_at (t ++ r) i = byte_at t i.
Proof.
  intros H. unfold byte_at. rewrite zlen_app. pose proof (zlen_nonneg r).
  replace ((0 <=? i) && (i <? zlen t + zlen r)) with true by lia.
  replace ((0 <=? i) && (i <? zlen t)) with true by lia. now rewrite znth_app_l.
Qed.

Lemma rd_app_l t r i n : 0 <= i -> 0 <= n -> i + n <= zlen t -> rd (t ++ r) i n = rd t i n.
Proof.
  intros Hi Hn H. unfold rd, be. rewrite zlen_app. pose proof (zlen_nonneg r).
  replace ((0 <=? i) && (i + n <=? zlen t + zlen r)) with true by lia.
  replace ((0 <=? i) && (i + n <=? zlen t)) with true by lia. now rewrite zslice_app_l.
Qed.

Lemma sl_app_l t r a b : 0 <= a <= b -> b <= zlen t -> sl (t ++ r) a b = sl t a b.
Proof.
  intros Ha H. unfold sl. rewrite zlen_app. pose proof (zlen_nonneg r).
  replace ((0 <=? a) && (a <=? b) && (b <=? zlen t + zlen r)) with true by lia.
  replace ((0 <=? a) && (a <=? b) && (b <=? zlen t)) with true by lia. now rewrite zslice_app_l by lia.
Qed.

(* ================================================================== one TLV in front of others *)

(* parse_one looks at the TLV's own bytes only *)
Lemma parse_one_local lim t r :
  8 <= zlen t -> zlen t = 8 * znth 0 t 1 -> parse_one lim (t ++ r) = parse_one lim t.
Proof.
  intros H8 Hsz. pose proof (zlen_nonneg r) as Hr.
  unfold parse_one. rewrite zlen_app.
  replace (zlen t + zlen r <? 8) with false by lia. replace (zlen t <? 8) with false by lia.
  rewrite !byte_at_app_l by lia.
  unfold byte_at at 1 2 5 6.
  replace ((0 <=? 0) && (0 <? zlen t)) with true by lia.
  replace ((0 <=? 1) && (1 <? zlen t)) with true by lia. cbv iota beta.
  rewrite <- Hsz.
  replace (zlen t >? zlen t + zlen r) with false by lia. replace (zlen t >? zlen t) with false by lia.
  replace (zlen t <=? 0) with false by lia.
  rewrite !(rd_app_l t r 2 2), !(rd_app_l t r 4 4), (rd_app_l t r 4 2), (rd_app_l t r 6 2) by lia.
  rewrite !(sl_app_l t r 2 (zlen t)) by lia.
  destruct (zlen t <? 16) eqn:L16.
  - reflexivity.
  - rewrite (rd_app_l t r 8 8) by lia. reflexivity.
Qed.

Lemma parse_tlv_fuel_mono lim : forall f data r,
  parse_tlv lim f data = r -> r <> TFuel -> forall f', (f <= f')%nat -> parse_tlv lim f' data = r.
Proof.
  induction f as [|f IH]; intros data r E NF f' Hf.
  - cbn [parse_tlv] in E. destruct f'; cbn [parse_tlv]; destruct (zlen data <=? 0); congruence.
  - destruct f' as [|f']; [lia|]. cbn [parse_tlv] in *.
    destruct (zlen data <=? 0); [assumption|].
    destruct (parse_one lim data) as [| |n|it n]; try assumption.
    + apply IH; [assumption|assumption|lia].
    + destruct (parse_tlv lim f (zskipn n data)) eqn:E1.
      * rewrite (IH _ _ E1 ltac:(discriminate) f' ltac:(lia)). assumption.
      * rewrite (IH _ _ E1 ltac:(discriminate) f' ltac:(lia)). assumption.
      * rewrite (IH _ _ E1 ltac:(discriminate) f' ltac:(lia)). assumption.
      * congruence.
Qed.

(* a TLV followed by the rest of the header *)
Lemma parse_tlv_cons_item t r it items f :
  8 <= zlen t -> zlen t = 8 * znth 0 t 1 -> parse_one true t = SItem it (zlen t) ->
  parse_tlv true f r = TOk items ->
  parse_tlv true (S f) (t ++ r) = TOk (it :: items).
Proof.
  intros H8 Hsz P1 Pr. cbn [parse_tlv]. rewrite zlen_app. pose proof (zlen_nonneg r).
  replace (zlen t + zlen r <=? 0) with false by lia.
  rewrite parse_one_local by assumption. rewrite P1.
  rewrite zskipn_app_exact by reflexivity. now rewrite Pr.
Qed.

(* ================================================================== the TLVs Bytes() writes *)

Lemma parse_off_explicit a b c d :
  parse_one true [35; 1; 0; 0; a; b; c; d] = SItem (TOffset (be_val [a; b; c; d])) 8.
Proof. reflexivity. Qed.

Lemma parse_ts_explicit n1 n0 d1 d0 t7 t6 t5 t4 t3 t2 t1 t0 :
  parse_one true [19; 2; 64; 245; n1; n0; d1; d0; t7; t6; t5; t4; t3; t2; t1; t0]
  = SItem (TTs {| tsT := be_val [t7; t6; t5; t4; t3; t2; t1; t0];
                  tsRate := RateUnit (be_val [n1; n0]) (be_val [d1; d0]) (-11) |}) 16.
Proof. reflexivity. Qed.

Lemma list4 (l : list Z) : length l = 4%nat -> exists a b c d, l = [a; b; c; d].
Proof. destruct l as [|a [|b [|c [|d [|e l]]]]]; cbn [length]; intros; try lia. eauto. Qed.
Lemma list2 (l : list Z) : length l = 2%nat -> exists a b, l = [a; b].
Proof. destruct l as [|a [|b [|e l]]]; cbn [length]; intros; try lia. eauto. Qed.
Lemma list8 (l : list Z) : length l = 8%nat -> exists a b c d e f g h, l = [a; b; c; d; e; f; g; h].
Proof.
  destruct l as [|a [|b [|c [|d [|e [|f [|g [|h [|i l]]]]]]]]]; cbn [length]; intros; try lia.
  do 8 eexists; reflexivity.
Qed.

Definition tlv_off (o : Z) : list Z := [35; 1; 0; 0] ++ enc_be 4 o.

Lemma parse_tlv_off o : 0 <= o < 4294967296 ->
  zlen (tlv_off o) = 8 /\ znth 0 (tlv_off o) 1 = 1 /\ parse_one true (tlv_off o) = SItem (TOffset o) 8.
Proof.
  intros Ho. unfold tlv_off. destruct (list4 _ (enc_be_length 4 o)) as [a [b [c [d E]]]].
  pose proof (be_val_enc_be 4 o) as V. rewrite E in *. cbn [app].
  split; [reflexivity|]. split; [reflexivity|]. rewrite parse_off_explicit. rewrite V.
  change (256 ^ Z.of_nat 4) with 4294967296. now rewrite Z.mod_small by lia.
Qed.

Definition tlv_ts (num denom t : Z) : list Z :=
  [19; 2; 64; 245] ++ enc_be 2 num ++ enc_be 2 denom ++ enc_be 8 t.

Lemma parse_tlv_ts num denom t : 0 <= t < 18446744073709551616 ->
  zlen (tlv_ts num denom t) = 16 /\ znth 0 (tlv_ts num denom t) 1 = 2 /\
  exists r, parse_one true (tlv_ts num denom t) = SItem (TTs {| tsT := t; tsRate := r |}) 16.
Proof.
  intros Ht. unfold tlv_ts.
  destruct (list2 _ (enc_be_length 2 num)) as [n1 [n0 En]].
  destruct (list2 _ (enc_be_length 2 denom)) as [d1 [d0 Ed]].
  destruct (list8 _ (enc_be_length 8 t)) as [t7 [t6 [t5 [t4 [t3 [t2 [t1 [t0 Et]]]]]]]].
  pose proof (be_val_enc_be 8 t) as V. rewrite En, Ed, Et in *. cbn [app].
  split; [reflexivity|]. split; [reflexivity|]. rewrite parse_ts_explicit. rewrite V.
  change (256 ^ Z.of_nat 8) with 18446744073709551616. rewrite Z.mod_small by lia. eauto.
Qed.

Definition tlv_fmt (w : Z) : list Z := [33; 1] ++ pad6 (rawfmt (fmt_of_width w)).

Lemma parse_tlv_fmt w : w = 2 \/ w = 4 \/ w = 8 ->
  zlen (tlv_fmt w) = 8 /\ znth 0 (tlv_fmt w) 1 = 1 /\
  exists f, parse_one true (tlv_fmt w) = SItem (TFormat f) 8 /\ endian f = ELittle /\
            dtype f = dtype (fmt_of_width w) /\ wordlen f = w.
Proof.
  intros [-> | [-> | ->]]; (split; [reflexivity|]); (split; [reflexivity|]);
    eexists; (split; [vm_compute; reflexivity|]); repeat split; reflexivity.
Qed.

(* ---- shape ---- *)
Definition enc_dim (x : Z) : list Z := enc_be 2 (uint_of 2 x).
Definition tlv_shape (dims : list Z) : list Z :=
  [34; wrap8 (1 + zlen dims / 4)] ++ flat_map enc_dim dims ++ repeat 0 (Z.to_nat (2 * (3 - zlen dims mod 4))).

Lemma shape_sizes_zeros : forall k, shape_sizes (repeat 0 (2 * k)) = Ok [].
Proof.
  induction k as [|k IH]; [reflexivity|].
  replace (2 * S k)%nat with (S (S (2 * k))) by lia. cbn [repeat shape_sizes]. rewrite IH. reflexivity.
Qed.

Lemma enc_dim_explicit d : 0 < d <= 32767 ->
  exists a b, enc_dim d = [a; b] /\ sint 2 (a * 256 + b) = d.
Proof.
  intros Hd. unfold enc_dim. destruct (list2 _ (enc_be_length 2 (uint_of 2 d))) as [a [b E]].
  exists a, b. split; [assumption|].
  pose proof (be_val_enc_be 2 (uint_of 2 d)) as V. rewrite E in V.
  unfold be_val in V. cbn [fold_left] in V. change (256 ^ Z.of_nat 2) with 65536 in V.
  unfold uint_of in V. change (2 ^ (8 * 2)) with 65536 in V. rewrite Z.mod_mod in V by lia.
  rewrite Z.mod_small in V by lia.
  replace (a * 256 + b) with d by lia. unfold sint. change (2 ^ (8 * 2 - 1)) with 32768.
  replace (d <? 32768) with true by lia. reflexivity.
Qed.

Lemma shape_sizes_dims k : forall dims, Forall (fun d => 0 < d <= 32767) dims ->
  shape_sizes (flat_map enc_dim dims ++ repeat 0 (2 * k)) = Ok dims.
Proof.
  induction dims as [|d dims IH]; intros F.
  - cbn [flat_map app]. apply shape_sizes_zeros.
  - inversion F as [|? ? F1 F2]; subst. cbn [flat_map].
    destruct (enc_dim_explicit d F1) as [a [b [E S]]]. rewrite E. cbn [app shape_sizes].
    rewrite (IH F2). rewrite S. replace (d >? 0) with true by lia. reflexivity.
Qed.

Lemma dims_ok_facts : forall dims acc, dims_ok acc dims = true ->
  Forall (fun d => 0 < d) dims /\ prod_within acc dims = true.
Proof.
  induction dims as [|d dims IH]; intros acc H; cbn [dims_ok prod_within] in *.
  - split; [constructor|reflexivity].
  - destruct (d <=? 0) eqn:D; [discriminate|]. destruct (acc * d >? MAXU16); [discriminate|].
    destruct (IH _ H) as [F P]. split; [constructor; [lia|assumption]|assumption].
Qed.

Lemma zlen_flat_map_enc_dim dims : zlen (flat_map enc_dim dims) = 2 * zlen dims.
Proof.
  induction dims as [|d dims IH]; [reflexivity|].
  cbn [flat_map]. rewrite zlen_app, zlen_cons, IH. unfold enc_dim. rewrite zlen_enc_be. lia.
Qed.

Lemma zlen_repeat {A} (x : A) n : zlen (repeat x n) = Z.of_nat n.
Proof. unfold zlen. now rewrite repeat_length. Qed.

Lemma parse_tlv_shape dims :
  1 <= zlen dims <= 99 -> dims_ok 1 dims = true -> Forall (fun x => -32768 <= x <= 32767) dims ->
  zlen (tlv_shape dims) = 8 * (1 + zlen dims / 4) /\ znth 0 (tlv_shape dims) 1 = 1 + zlen dims / 4 /\
  parse_one true (tlv_shape dims) = SItem (TShape dims) (8 * (1 + zlen dims / 4)).
Proof.
  intros Hn Hd Hr. destruct (dims_ok_facts _ _ Hd) as [Fp Pw].
  set (n := zlen dims) in *.
  assert (Hq : 0 <= n / 4 <= 24).
  { split; [apply Z.div_pos; lia|]. assert (n / 4 < 25) by (apply Z.div_lt_upper_bound; lia). lia. }
  pose proof (Z.mod_pos_bound n 4 ltac:(lia)) as Hm. pose proof (Z.div_mod n 4 ltac:(lia)) as Hdm.
  assert (W : wrap8 (1 + n / 4) = 1 + n / 4) by (unfold wrap8; apply Z.mod_small; lia).
  assert (L : zlen (tlv_shape dims) = 8 * (1 + n / 4)).
  { unfold tlv_shape. rewrite zlen_app, zlen_app, zlen_flat_map_enc_dim, zlen_repeat.
    fold n. rewrite !zlen_cons. change (zlen (@nil Z)) with 0. lia. }
  split; [exact L|]. split; [unfold tlv_shape; cbn [app]; fold n; rewrite W; reflexivity|].
  unfold parse_one. rewrite L. replace (8 * (1 + n / 4) <? 8) with false by lia.
  unfold byte_at. rewrite L.
  replace ((0 <=? 0) && (0 <? 8 * (1 + n / 4))) with true by lia.
  replace ((0 <=? 1) && (1 <? 8 * (1 + n / 4))) with true by lia.
  assert (B0 : znth 0 (tlv_shape dims) 0 = 34) by reflexivity.
  assert (B1 : znth 0 (tlv_shape dims) 1 = 1 + n / 4) by (unfold tlv_shape; cbn [app]; fold n; rewrite W; reflexivity).
  rewrite B0, B1. cbv iota beta.
  replace (8 * (1 + n / 4) >? 8 * (1 + n / 4)) with false by lia.
  replace (8 * (1 + n / 4) <=? 0) with false by lia.
  change (34 =? 9) with false. change (34 =? 17) with false. change (34 =? 18) with false.
  change (34 =? 19) with false. change (34 =? 33) with false. change (34 =? 34) with true. cbv iota beta.
  unfold sl. rewrite L.
  replace ((0 <=? 2) && (2 <=? 8 * (1 + n / 4)) && (8 * (1 + n / 4) <=? 8 * (1 + n / 4))) with true by lia.
  assert (SL : zslice (tlv_shape dims) 2 (8 * (1 + n / 4) - 2)
               = flat_map enc_dim dims ++ repeat 0 (2 * Z.to_nat (3 - n mod 4))).
  { unfold tlv_shape. fold n.
    set (mid := flat_map enc_dim dims ++ repeat 0 (Z.to_nat (2 * (3 - n mod 4)))).
    assert (Lm : zlen mid = 8 * (1 + n / 4) - 2).
    { unfold mid. rewrite zlen_app, zlen_flat_map_enc_dim, zlen_repeat. fold n. lia. }
    pose proof (zslice_app_mid [34; wrap8 (1 + n / 4)] mid []) as Q.
    change (zlen [34; wrap8 (1 + n / 4)]) with 2 in Q. rewrite app_nil_r, Lm in Q.
    rewrite Q. unfold mid. f_equal. f_equal. lia. }
  rewrite SL. rewrite shape_sizes_dims.
  2:{ clear -Fp Hr. induction dims; [constructor|]. inversion Fp; inversion Hr; subst. constructor; [lia|auto]. }
  cbn [andb]. rewrite Pw. cbn [negb]. fold n. replace (n =? 0) with false by lia. reflexivity.
Qed.

(* ================================================================== payload *)

Definition vals_ok (w : Z) (vals : list Z) : Prop :=
  Forall (fun v => - 2 ^ (8 * w - 1) <= v < 2 ^ (8 * w - 1)) vals.

Lemma sint_uint w v : w = 2 \/ w = 4 \/ w = 8 -> - 2 ^ (8 * w - 1) <= v < 2 ^ (8 * w - 1) ->
  sint w (uint_of w v) = v /\ 0 <= uint_of w v < 2 ^ (8 * w).
Proof.
  intros [-> | [-> | ->]] H; unfold sint, uint_of.
  - change (2 ^ (8 * 2 - 1)) with 32768 in *. change (2 ^ (8 * 2)) with 65536.
    destruct (v mod 65536 <? 32768) eqn:E; Z.div_mod_to_equations; lia.
  - change (2 ^ (8 * 4 - 1)) with 2147483648 in *. change (2 ^ (8 * 4)) with 4294967296.
    destruct (v mod 4294967296 <? 2147483648) eqn:E; Z.div_mod_to_equations; lia.
  - change (2 ^ (8 * 8 - 1)) with 9223372036854775808 in *. change (2 ^ (8 * 8)) with 18446744073709551616.
    destruct (v mod 18446744073709551616 <? 9223372036854775808) eqn:E; Z.div_mod_to_equations; lia.
Qed.

Lemma take_vals_enc (wn : nat) w : Z.of_nat wn = w -> w = 2 \/ w = 4 \/ w = 8 ->
  forall vals rest, vals_ok w vals ->
  take_vals (length vals) w false (enc_vals wn false vals ++ rest) = vals.
Proof.
  intros Hw Hc. induction vals as [|v vals IH]; intros rest F; [reflexivity|].
  inversion F as [|? ? F1 F2]; subst. cbn [length take_vals enc_vals flat_map].
  rewrite <- app_assoc.
  rewrite zfirstn_app_exact by apply zlen_enc_le.
  rewrite zskipn_app_exact by apply zlen_enc_le.
  fold (enc_vals wn false vals). rewrite (IH rest F2).
  rewrite le_val_enc_le. destruct (sint_uint _ v Hc F1) as [S R].
  replace (256 ^ Z.of_nat wn) with (2 ^ (8 * Z.of_nat wn)).
  2:{ destruct Hc as [E | [E | E]]; rewrite E; reflexivity. }
  rewrite Z.mod_small by assumption. now rewrite S.
Qed.

Lemma zlen_enc_vals (wn : nat) vals : zlen (enc_vals wn false vals) = Z.of_nat wn * zlen vals.
Proof.
  induction vals as [|v vals IH]; [unfold zlen; cbn; lia|].
  cbn [enc_vals flat_map]. fold (enc_vals wn false vals). rewrite zlen_app, zlen_enc_le, IH, zlen_cons. lia.
Qed.

(* ================================================================== the fixed header *)

Definition H16 (v hl pl src seq : Z) : list Z :=
  [v; hl] ++ enc_be 2 pl ++ enc_be 4 MAGIC ++ enc_be 4 src ++ enc_be 4 seq.

Lemma H16_fields v hl pl src seq :
  0 <= pl < 65536 -> 0 <= src < 4294967296 -> 0 <= seq < 4294967296 ->
  let H := H16 v hl pl src seq in
  zlen H = 16 /\ znth 0 H 0 = v /\ znth 0 H 1 = hl /\ be H 2 2 = pl /\ be H 4 4 = MAGIC /\
  be H 8 4 = src /\ be H 12 4 = seq.
Proof.
  intros Hp Hs Hq. unfold H16.
  destruct (list2 _ (enc_be_length 2 pl)) as [p1 [p0 Ep]].
  destruct (list4 _ (enc_be_length 4 src)) as [s3 [s2 [s1 [s0 Es]]]].
  destruct (list4 _ (enc_be_length 4 seq)) as [q3 [q2 [q1 [q0 Eq]]]].
  pose proof (be_val_enc_be 2 pl) as Vp. pose proof (be_val_enc_be 4 src) as Vs.
  pose proof (be_val_enc_be 4 seq) as Vq.
  change (enc_be 4 MAGIC) with [129; 11; 0; 255].
  rewrite Ep, Es, Eq in *. cbn [app].
  change (256 ^ Z.of_nat 2) with 65536 in Vp. change (256 ^ Z.of_nat 4) with 4294967296 in Vs, Vq.
  rewrite Z.mod_small in Vp, Vs, Vq by lia.
  repeat split; try reflexivity; assumption.
Qed.

Lemma read_packet_struct H TLVS PAY items :
  zlen H = 16 -> 16 <= znth 0 H 1 -> be H 4 4 = MAGIC -> zlen TLVS = znth 0 H 1 - 16 ->
  parse_tlv true (length TLVS) TLVS = TOk items ->
  read_packet (H ++ TLVS ++ PAY)
  = read_payload (fold_left apply_tlv items (p0_of H (znth 0 H 1) (be H 2 2)))
      (znth 0 H 1) (be H 2 2) PAY (zlen (H ++ TLVS ++ PAY)).
Proof.
  intros LH Hhl Hm LT PT. unfold read_packet, read_packet_gen.
  pose proof (zlen_nonneg TLVS). pose proof (zlen_nonneg PAY).
  assert (LA : zlen (H ++ TLVS ++ PAY) = 16 + zlen TLVS + zlen PAY) by (rewrite !zlen_app; lia).
  replace (zlen (H ++ TLVS ++ PAY) <? 16) with false by lia.
  rewrite (zfirstn_app_exact H _ 16 LH). rewrite (zskipn_app_exact H _ 16 LH).
  replace (znth 0 H 1 <? 16) with false by lia. rewrite Hm. rewrite Z.eqb_refl. cbn [negb].
  rewrite zlen_app. replace (zlen TLVS + zlen PAY <? znth 0 H 1 - 16) with false by lia.
  rewrite <- LT. rewrite (zfirstn_app_exact TLVS PAY _ eq_refl). rewrite (zskipn_app_exact TLVS PAY _ eq_refl).
  rewrite PT. reflexivity.
Qed.

(* ================================================================== what the constructors build *)

Definition data_in_range (d : pdata) : Prop :=
  match d with
  | D16 l => vals_ok 2 l | D32 l => vals_ok 4 l | D64 l => vals_ok 8 l
  | _ => True
  end.

(* the arguments have the Go types: uint64 counter, []int16/[]int32/[]int64 samples, []int16 dims *)
Definition op_ok (o : bop) : Prop :=
  match o with
  | BSetTs t _ => 0 <= t < 18446744073709551616
  | BNewData d dims => data_in_range d /\ Forall (fun x => -32768 <= x <= 32767) dims
  | BMutTs t => 0 <= t < 18446744073709551616
  | BResetTs | BClear => True
  end.

Definition has_data (p : packet) : Prop :=
  exists w vals dims,
    data_width (pdat p) = Some (w, vals) /\ (w = 2 \/ w = 4 \/ w = 8) /\
    format p = Some (fmt_of_width w) /\ shape p = Some dims /\
    1 <= zlen dims <= 99 /\ dims_ok 1 dims = true /\ Forall (fun x => -32768 <= x <= 32767) dims /\
    vals_ok w vals /\ payloadLength p = w * zlen vals /\ payloadLength p <= 8192 /\
    headerLength p = base_header p + 8 + 8 * (1 + zlen dims / 4).

Definition no_data (p : packet) : Prop :=
  pdat p = DNil /\ format p = None /\ shape p = None /\ payloadLength p = 0 /\ headerLength p = base_header p.

Record binv (v src off : Z) (p : packet) : Prop := {
  bi_v : version p = v;
  bi_src : sourceID p = src;
  bi_off : offset p = wrap32 off;
  bi_seq : 0 <= sequenceNumber p < 4294967296;
  bi_ts : match timestamp p with Some t => 0 <= tsT t < 18446744073709551616 | None => True end;
  bi_body : no_data p \/ has_data p }.

Lemma wrap32_range x : 0 <= wrap32 x < 4294967296.
Proof. unfold wrap32. apply Z.mod_pos_bound. lia. Qed.

Lemma data_width_cases d w vals : data_width d = Some (w, vals) ->
  (d = D16 vals /\ w = 2) \/ (d = D32 vals /\ w = 4) \/ (d = D64 vals /\ w = 8).
Proof. destruct d; cbn; intros E; inversion E; auto. Qed.

Lemma shape_hdr_bound n : 1 <= n <= 99 -> 8 <= 8 * (1 + n / 4) <= 200.
Proof.
  intros H. assert (0 <= n / 4) by (apply Z.div_pos; lia).
  assert (n / 4 < 25) by (apply Z.div_lt_upper_bound; lia). lia.
Qed.

Lemma bstep_inv v src off p o p' :
  binv v src off p -> op_ok o -> bstep p o = Ok (p', false) -> binv v src off p'.
Proof.
  intros [Iv Is Io Iq It Ib] Ho E. destruct o as [t rid| | |d dims|t]; cbn [bstep] in E.
  - (* SetTimestamp *)
    inversion E; subst p'; clear E. cbn [op_ok] in Ho.
    constructor; cbn [set_timestamp version sourceID offset sequenceNumber timestamp tsT]; try assumption.
    destruct Ib as [[N1 [N2 [N3 [N4 N5]]]]|[w [vals [dims [D1 [D2 [D3 [D4 [D5 [D6 [D7 [D8 [D9 [D10 D11]]]]]]]]]]]]]].
    + left. unfold no_data. cbn [set_timestamp pdat format shape payloadLength headerLength base_header timestamp].
      repeat split; try assumption. rewrite N5. unfold base_header. destruct (timestamp p); [reflexivity|].
      reflexivity.
    + right. exists w, vals, dims.
      cbn [set_timestamp pdat format shape payloadLength headerLength base_header timestamp].
      repeat split; try assumption; try lia. rewrite D11. pose proof (shape_hdr_bound _ D5).
      unfold base_header. destruct (timestamp p); [reflexivity|]. unfold wrap8. rewrite Z.mod_small by lia. lia.
  - (* ResetTimestamp *)
    inversion E; subst p'; clear E.
    constructor; cbn [reset_timestamp version sourceID offset sequenceNumber timestamp]; try assumption; try exact I.
    destruct Ib as [[N1 [N2 [N3 [N4 N5]]]]|[w [vals [dims [D1 [D2 [D3 [D4 [D5 [D6 [D7 [D8 [D9 [D10 D11]]]]]]]]]]]]]].
    + left. unfold no_data. cbn [reset_timestamp pdat format shape payloadLength headerLength base_header timestamp].
      repeat split; try assumption. rewrite N5. unfold base_header. destruct (timestamp p); reflexivity.
    + right. exists w, vals, dims.
      cbn [reset_timestamp pdat format shape payloadLength headerLength base_header timestamp].
      repeat split; try assumption; try lia. rewrite D11. pose proof (shape_hdr_bound _ D5).
      unfold base_header. destruct (timestamp p); [|reflexivity]. unfold wrap8. rewrite Z.mod_small by lia. lia.
  - (* ClearData *)
    inversion E; subst p'; clear E.
    constructor; cbn [clear_data version sourceID offset sequenceNumber timestamp]; try assumption.
    left. unfold no_data. cbn [clear_data pdat format shape payloadLength headerLength].
    repeat split.
  - (* NewData *)
    unfold new_data in E. cbn [op_ok] in Ho. destruct Ho as [Hd Hdims].
    destruct ((zlen dims <? 1) || (zlen dims >? MAXDIMS)) eqn:C1; [inversion E|].
    destruct (negb (dims_ok 1 dims)) eqn:C2; [inversion E|].
    destruct (data_width d) as [[w vals]|] eqn:DW; [|inversion E].
    unfold MAXDIMS, MAXPACKET in *.
    destruct (base_header p + 8 + 8 * (1 + zlen dims / 4) + w * zlen vals >? 8192) eqn:C3; [injection E; discriminate|].
    injection E as Ep. subst p'.
    pose proof (shape_hdr_bound (zlen dims) ltac:(lia)) as SB.
    assert (BH : 24 <= base_header p <= 40) by (unfold base_header; destruct (timestamp p); lia).
    pose proof (zlen_nonneg vals).
    assert (Wc : w = 2 \/ w = 4 \/ w = 8) by (destruct (data_width_cases _ _ _ DW) as [[_ ?]|[[_ ?]|[_ ?]]]; auto).
    assert (0 <= w * zlen vals) by nia.
    constructor; cbn [version sourceID offset sequenceNumber timestamp]; try assumption.
    + apply wrap32_range.
    + right. exists w, vals, dims.
      assert (W16 : wrap16 (w * zlen vals) = w * zlen vals) by (unfold wrap16; apply Z.mod_small; lia).
      assert (W8 : wrap8 (base_header p + 8 + 8 * (1 + zlen dims / 4)) = base_header p + 8 + 8 * (1 + zlen dims / 4))
        by (unfold wrap8; apply Z.mod_small; lia).
      split; [exact DW|]. split; [exact Wc|]. split; [reflexivity|]. split; [reflexivity|].
      split; [lia|]. split; [now destruct (dims_ok 1 dims)|]. split; [exact Hdims|].
      split; [destruct (data_width_cases _ _ _ DW) as [[-> ->]|[[-> ->]|[-> ->]]]; exact Hd|].
      split; [exact W16|].
      split; [change (wrap16 (w * zlen vals) <= 8192); lia|].
      exact W8.
  - (* the caller changes ts.T *)
    cbn [op_ok] in Ho. injection E as Ep. subst p'. unfold mut_ts.
    destruct (timestamp p) as [ts|] eqn:ET.
    2:{ constructor; try assumption. now rewrite ET. }
    constructor; try assumption.
    destruct Ib as [[N1 [N2 [N3 [N4 N5]]]]|[w [vals [dims [D1 [D2 [D3 [D4 [D5 [D6 [D7 [D8 [D9 [D10 D11]]]]]]]]]]]]]].
    + left. unfold no_data, base_header in *. rewrite ET in N5. repeat split; assumption.
    + right. exists w, vals, dims. unfold base_header in *. rewrite ET in D11.
      split; [exact D1|]. split; [exact D2|]. split; [exact D3|]. split; [exact D4|].
      split; [exact D5|]. split; [exact D6|]. split; [exact D7|]. split; [exact D8|].
      split; [exact D9|]. split; [exact D10|]. exact D11.
Qed.

Lemma build_inv v src off : forall ops p r rets,
  binv v src off p -> Forall op_ok ops -> build p ops = (r, rets) ->
  Forall (fun x => x = BRNil) rets -> exists p', r = Ok p' /\ binv v src off p'.
Proof.
  induction ops as [|o ops IH]; intros p r rets I F E N.
  - cbn [build] in E. inversion E; subst. eauto.
  - cbn [build] in E. inversion F as [|? ? F1 F2]; subst.
    destruct (bstep p o) as [[p1 e]|] eqn:B.
    2:{ inversion E; subst. inversion N as [|? ? N1 N2]; discriminate. }
    destruct (build p1 ops) as [r1 rs1] eqn:B1. inversion E; subst; clear E.
    inversion N as [|? ? N1 N2]; subst. destruct e; [discriminate|].
    apply (IH p1 r rs1); [eapply bstep_inv; eauto|assumption|assumption|assumption].
Qed.

Lemma new_packet_inv v src seq off : 0 <= seq < 4294967296 -> binv v src off (new_packet v src seq off).
Proof.
  intros H. constructor; cbn [new_packet version sourceID offset sequenceNumber timestamp]; try reflexivity; try assumption; try exact I.
  left. unfold no_data. repeat split.
Qed.

(* ================================================================== Bytes() of a built packet *)

Definition tsb_of (num denom : Z) (p : packet) : list Z :=
  match timestamp p with
  | Some t => tlv_ts num denom (tsT t)
  | None => []
  end.

Lemma zlen_tsb num denom p :
  zlen (tsb_of num denom p) = base_header p - 24.
Proof.
  unfold tsb_of, base_header. destruct (timestamp p); [|reflexivity].
  unfold tlv_ts. rewrite !zlen_app, !zlen_enc_be. reflexivity.
Qed.

Lemma bytes_of_nodata num denom p : no_data p ->
  bytes_of num denom p =
  Ok (H16 (version p) (headerLength p) (payloadLength p) (sourceID p) (sequenceNumber p)
      ++ (tlv_off (offset p) ++ tsb_of num denom p ++ []) ++ []).
Proof.
  intros [N1 [N2 [N3 [N4 N5]]]]. unfold bytes_of. rewrite N1.
  f_equal. unfold H16, tlv_off, tsb_of, tlv_ts. rewrite !app_nil_r. rewrite <- !app_assoc. reflexivity.
Qed.

Lemma bytes_of_data num denom p w vals dims (wn : nat) :
  Z.of_nat wn = w -> data_width (pdat p) = Some (w, vals) ->
  format p = Some (fmt_of_width w) -> shape p = Some dims ->
  bytes_of num denom p =
  Ok (H16 (version p) (headerLength p) (payloadLength p) (sourceID p) (sequenceNumber p)
      ++ (tlv_off (offset p) ++ tsb_of num denom p ++ tlv_fmt w ++ tlv_shape dims ++ [])
      ++ enc_vals wn false vals).
Proof.
  intros Hw DW Ef Es. unfold bytes_of. rewrite Ef, Es.
  destruct (data_width_cases _ _ _ DW) as [[Ed E2]|[[Ed E2]|[Ed E2]]]; rewrite Ed; subst w;
    (assert (wn = 2 \/ wn = 4 \/ wn = 8)%nat as [-> | [-> | ->]] by lia; try lia);
    cbn [fmt_of_width endian payload_bytes Z.eqb Pos.eqb rawfmt];
    f_equal; unfold H16, tlv_off, tsb_of, tlv_ts, tlv_fmt, tlv_shape, enc_dim;
    cbn [fmt_of_width rawfmt Z.eqb Pos.eqb];
    rewrite app_nil_r; rewrite <- !app_assoc; reflexivity.
Qed.

(* ================================================================== the TLV section of Bytes() *)

Lemma parse_tsb num denom p rest f items :
  (match timestamp p with Some t => 0 <= tsT t < 18446744073709551616 | None => True end) ->
  parse_tlv true f rest = TOk items ->
  exists tsi, parse_tlv true (S f) (tsb_of num denom p ++ rest) = TOk (tsi ++ items) /\
    ((tsi = [] /\ timestamp p = None) \/
     (exists t r, timestamp p = Some t /\ tsi = [TTs {| tsT := tsT t; tsRate := r |}])).
Proof.
  intros Ht P. unfold tsb_of. destruct (timestamp p) as [t|] eqn:E.
  - destruct (parse_tlv_ts num denom (tsT t) Ht) as [L [B [r P1]]].
    exists [TTs {| tsT := tsT t; tsRate := r |}]. split.
    + cbn [app]. apply parse_tlv_cons_item; try assumption; try lia; try (rewrite L; exact P1).
    + right. eauto.
  - exists []. split; [|left; auto]. cbn [app].
    apply (parse_tlv_fuel_mono true f rest _ P); [discriminate|lia].
Qed.

Lemma fold_apply_app items1 items2 p :
  fold_left apply_tlv (items1 ++ items2) p = fold_left apply_tlv items2 (fold_left apply_tlv items1 p).
Proof. apply fold_left_app. Qed.

(* the effect of the optional time-stamp item *)
Lemma apply_tsi p0 tsi p :
  ((tsi = [] /\ timestamp p = None) \/
   (exists t r, timestamp p = Some t /\ tsi = [TTs {| tsT := tsT t; tsRate := r |}])) ->
  timestamp p0 = None ->
  let q := fold_left apply_tlv tsi p0 in
  timestamp_T q = timestamp_T p /\ version q = version p0 /\ sourceID q = sourceID p0 /\
  sequenceNumber q = sequenceNumber p0 /\ offset q = offset p0 /\ shape q = shape p0 /\
  format q = format p0 /\ pdat q = pdat p0 /\ headerLength q = headerLength p0 /\
  payloadLength q = payloadLength p0 /\ packetLength q = packetLength p0.
Proof.
  intros [[-> E]|[t [r [E ->]]]] H0; cbn [fold_left apply_tlv]; unfold timestamp_T; rewrite E.
  - rewrite H0. repeat split; reflexivity.
  - cbn. repeat split; reflexivity.
Qed.

(* ================================================================== decode (Bytes p) *)

Definition roundtrip_facts (v src off : Z) (p p' : packet) : Prop :=
  version p' = v /\ sourceID p' = src /\ sequenceNumber p' = sequenceNumber p /\
  offset p' = wrap32 off /\ shape p' = shape p /\
  (data_count (pdat p) = 0 -> data_count (pdat p') = 0) /\
  (data_count (pdat p) <> 0 -> pdat p' = pdat p) /\
  timestamp_T p' = timestamp_T p.

Lemma base_header_cases p : base_header p = 24 \/ base_header p = 40.
Proof. unfold base_header. destruct (timestamp p); auto. Qed.

Lemma roundtrip_nodata v src off num denom p :
  0 <= src < 4294967296 -> binv v src off p -> no_data p ->
  exists bs p', bytes_of num denom p = Ok bs /\ read_packet bs = (DOk p', zlen bs) /\
                roundtrip_facts v src off p p'.
Proof.
  intros Hs [Iv Is Io Iq It _] ND. pose proof ND as [N1 [N2 [N3 [N4 N5]]]].
  set (H := H16 (version p) (headerLength p) (payloadLength p) (sourceID p) (sequenceNumber p)).
  destruct (H16_fields (version p) (headerLength p) (payloadLength p) (sourceID p) (sequenceNumber p)
              ltac:(lia) ltac:(lia) Iq) as [F1 [F2 [F3 [F4 [F5 [F6 F7]]]]]].
  fold H in F1, F2, F3, F4, F5, F6, F7.
  set (o := offset p). assert (Ho : 0 <= o < 4294967296) by (unfold o; rewrite Io; apply wrap32_range).
  destruct (parse_tlv_off o Ho) as [LO [BO PO]].
  destruct (parse_tsb num denom p [] 0 [] It eq_refl) as [tsi [PT TS]].
  assert (P2 : parse_tlv true 2 (tlv_off o ++ tsb_of num denom p ++ []) = TOk (TOffset o :: tsi ++ [])).
  { apply parse_tlv_cons_item; try lia; try assumption; try (rewrite LO; exact PO). }
  set (TLVS := tlv_off o ++ tsb_of num denom p ++ []) in *.
  assert (LT : zlen TLVS = base_header p - 16).
  { unfold TLVS. rewrite !zlen_app, LO, zlen_tsb. change (zlen (@nil Z)) with 0. lia. }
  pose proof (base_header_cases p) as BC.
  assert (PL : parse_tlv true (length TLVS) TLVS = TOk (TOffset o :: tsi ++ [])).
  { apply (parse_tlv_fuel_mono true 2 TLVS _ P2); [discriminate|]. unfold zlen in LT. lia. }
  set (p1 := apply_tlv (p0_of H (headerLength p) (payloadLength p)) (TOffset o)).
  destruct (apply_tsi p1 tsi p TS eq_refl) as [A1 [A2 [A3 [A4 [A5 [A6 [A7 [A8 [A9 [A10 A11]]]]]]]]]].
  set (q := fold_left apply_tlv tsi p1) in *.
  exists (H ++ TLVS ++ []), q. split; [exact (bytes_of_nodata num denom p ND)|].
  rewrite (read_packet_struct H TLVS [] _ F1 ltac:(lia) F5 ltac:(lia) PL).
  rewrite F3, F4, app_nil_r.
  cbn [fold_left]. fold p1. fold q.
  unfold read_payload. rewrite A7. cbn [p1 apply_tlv p0_of format].
  split.
  - f_equal. rewrite !zlen_app, F1, LT. change (zlen (@nil Z)) with 0. lia.
  - unfold roundtrip_facts. rewrite A1, A2, A3, A4, A5, A6, A8.
    cbn [p1 apply_tlv p0_of version sourceID sequenceNumber offset shape pdat].
    rewrite F2, F6, F7, N1, N3. cbn [data_count]. repeat split; try assumption; try reflexivity; try lia.
Qed.

Lemma mk_data_width d w vals : data_width d = Some (w, vals) -> mk_data w vals = d.
Proof. intros DW. destruct (data_width_cases _ _ _ DW) as [[-> ->]|[[-> ->]|[-> ->]]]; reflexivity. Qed.

Lemma data_count_width d w vals : data_width d = Some (w, vals) -> data_count d = zlen vals.
Proof. intros DW. destruct (data_width_cases _ _ _ DW) as [[-> _]|[[-> _]|[-> _]]]; reflexivity. Qed.

Lemma roundtrip_data v src off num denom p :
  0 <= src < 4294967296 -> binv v src off p -> has_data p ->
  exists bs p', bytes_of num denom p = Ok bs /\ read_packet bs = (DOk p', zlen bs) /\
                roundtrip_facts v src off p p'.
Proof.
  intros Hs [Iv Is Io Iq It _] [w [vals [dims [D1 [D2 [D3 [D4 [D5 [D6 [D7 [D8 [D9 [D10 D11]]]]]]]]]]]]].
  assert (exists wn : nat, Z.of_nat wn = w) as [wn Hwn] by (exists (Z.to_nat w); lia).
  pose proof (zlen_nonneg vals) as Hv0.
  set (H := H16 (version p) (headerLength p) (payloadLength p) (sourceID p) (sequenceNumber p)).
  destruct (H16_fields (version p) (headerLength p) (payloadLength p) (sourceID p) (sequenceNumber p)
              ltac:(nia) ltac:(lia) Iq) as [F1 [F2 [F3 [F4 [F5 [F6 F7]]]]]].
  fold H in F1, F2, F3, F4, F5, F6, F7.
  set (o := offset p). assert (Ho : 0 <= o < 4294967296) by (unfold o; rewrite Io; apply wrap32_range).
  destruct (parse_tlv_off o Ho) as [LO [BO PO]].
  destruct (parse_tlv_fmt w D2) as [LF [BF [f [PF [Ee [Edt Ewl]]]]]].
  destruct (parse_tlv_shape dims D5 D6 D7) as [LS [BS PS]].
  pose proof (shape_hdr_bound _ D5) as SB.
  assert (P1 : parse_tlv true 1 (tlv_shape dims ++ []) = TOk [TShape dims]).
  { apply parse_tlv_cons_item; try lia; try assumption; try reflexivity; try (rewrite LS; exact PS). }
  assert (P2 : parse_tlv true 2 (tlv_fmt w ++ tlv_shape dims ++ []) = TOk [TFormat f; TShape dims]).
  { apply parse_tlv_cons_item; try lia; try assumption; try (rewrite LF; exact PF). }
  destruct (parse_tsb num denom p _ 2 _ It P2) as [tsi [PT TS]].
  assert (P4 : parse_tlv true 4 (tlv_off o ++ tsb_of num denom p ++ tlv_fmt w ++ tlv_shape dims ++ [])
               = TOk (TOffset o :: tsi ++ [TFormat f; TShape dims])).
  { apply parse_tlv_cons_item; try lia; try assumption; try (rewrite LO; exact PO). }
  set (TLVS := tlv_off o ++ tsb_of num denom p ++ tlv_fmt w ++ tlv_shape dims ++ []) in *.
  assert (LT : zlen TLVS = headerLength p - 16).
  { unfold TLVS. rewrite !zlen_app, LO, zlen_tsb, LF, LS. change (zlen (@nil Z)) with 0. lia. }
  pose proof (base_header_cases p) as BC.
  assert (PL : parse_tlv true (length TLVS) TLVS = TOk (TOffset o :: tsi ++ [TFormat f; TShape dims])).
  { apply (parse_tlv_fuel_mono true 4 TLVS _ P4); [discriminate|]. unfold zlen in LT. lia. }
  set (PAY := enc_vals wn false vals).
  assert (LP : zlen PAY = w * zlen vals) by (unfold PAY; rewrite zlen_enc_vals; lia).
  set (p1 := apply_tlv (p0_of H (headerLength p) (payloadLength p)) (TOffset o)).
  destruct (apply_tsi p1 tsi p TS eq_refl) as [A1 [A2 [A3 [A4 [A5 [A6 [A7 [A8 [A9 [A10 A11]]]]]]]]]].
  set (q1 := fold_left apply_tlv tsi p1) in *.
  set (q := apply_tlv (apply_tlv q1 (TFormat f)) (TShape dims)).
  assert (RS : read_packet (H ++ TLVS ++ PAY)
               = read_payload q (headerLength p) (payloadLength p) PAY (zlen (H ++ TLVS ++ PAY))).
  { rewrite (read_packet_struct H TLVS PAY _ F1 ltac:(lia) F5 ltac:(lia) PL).
    rewrite F3, F4. cbn [fold_left]. fold p1. rewrite fold_apply_app. fold q1. reflexivity. }
  assert (LB : zlen (H ++ TLVS ++ PAY) = headerLength p + w * zlen vals) by (rewrite !zlen_app, F1, LT, LP; lia).
  assert (QF : format q = Some f) by reflexivity.
  assert (Wpos : 0 < w) by lia.
  exists (H ++ TLVS ++ PAY).
  destruct (payloadLength p >? 0) eqn:PP.
  - (* some samples *)
    set (q' := set_data q (mk_data w (take_vals (Z.to_nat (payloadLength p / w)) w (is_big (endian f)) PAY))).
    exists q'. split; [exact (bytes_of_data num denom p w vals dims wn Hwn D1 D3 D4)|].
    assert (CNT : payloadLength p / w = zlen vals) by (rewrite D9, Z.mul_comm; apply Z.div_mul; lia).
    assert (TV : take_vals (Z.to_nat (payloadLength p / w)) w (is_big (endian f)) PAY = vals).
    { rewrite CNT, Ee. cbn [is_big]. replace (Z.to_nat (zlen vals)) with (length vals) by (unfold zlen; lia).
      unfold PAY. rewrite <- (app_nil_r (enc_vals wn false vals)). now apply take_vals_enc. }
    split.
    + rewrite RS. unfold read_payload. rewrite QF, PP, Edt.
      assert (KW : exists k, dtype (fmt_of_width w) = [k] /\ kind_width k = Some w).
      { destruct D2 as [-> | [-> | ->]]; eexists; split; reflexivity. }
      destruct KW as [k [-> ->]]. rewrite CNT.
      replace (zlen PAY <? zlen vals * w) with false by lia.
      f_equal; [unfold q'; rewrite CNT; reflexivity|lia].
    + assert (TQ : timestamp_T q' = timestamp_T q1) by reflexivity.
      unfold roundtrip_facts. rewrite TQ. unfold q'.
      cbn [set_data version sourceID sequenceNumber offset shape pdat].
      rewrite TV, (mk_data_width _ _ _ D1).
      cbn [q apply_tlv version sourceID sequenceNumber offset shape].
      rewrite A1, A2, A3, A4, A5.
      cbn [p1 apply_tlv p0_of version sourceID sequenceNumber offset].
      rewrite F2, F6, F7, D4. repeat split; try assumption; try reflexivity. tauto.
  - (* an empty slice: no payload bytes *)
    exists q. split; [exact (bytes_of_data num denom p w vals dims wn Hwn D1 D3 D4)|].
    assert (Z0 : zlen vals = 0) by nia.
    split.
    + rewrite RS. unfold read_payload. rewrite QF, PP. f_equal. lia.
    + assert (TQ : timestamp_T q = timestamp_T q1) by reflexivity.
      unfold roundtrip_facts. rewrite TQ.
      cbn [q apply_tlv version sourceID sequenceNumber offset shape pdat].
      rewrite A1, A2, A3, A4, A5, A8.
      cbn [p1 apply_tlv p0_of version sourceID sequenceNumber offset pdat].
      rewrite F2, F6, F7, D4, (data_count_width _ _ _ D1). cbn [data_count].
      repeat split; try assumption; try reflexivity; try lia.
Qed.

Lemma roundtrip v src off num denom p :
  0 <= src < 4294967296 -> binv v src off p ->
  exists bs p', bytes_of num denom p = Ok bs /\ read_packet bs = (DOk p', zlen bs) /\
                roundtrip_facts v src off p p'.
Proof.
  intros Hs I. destruct (bi_body _ _ _ _ I) as [N|D].
  - now apply roundtrip_nodata.
  - now apply roundtrip_data.
Qed.

(* ================================================================== encode_decode *)

Theorem encode_decode_model : forall v src seq off ops num denom r rets,
  0 <= src < 4294967296 -> 0 <= seq < 4294967296 -> Forall op_ok ops ->
  build (new_packet v src seq off) ops = (r, rets) -> Forall (fun x => x = BRNil) rets ->
  exists p bs p', r = Ok p /\ bytes_of num denom p = Ok bs /\ read_packet bs = (DOk p', zlen bs) /\
    version p' = v /\ sourceID p' = src /\ sequenceNumber p' = sequenceNumber p /\
    offset p' = wrap32 off /\ shape p' = shape p /\
    (data_count (pdat p) = 0 -> data_count (pdat p') = 0) /\
    (data_count (pdat p) <> 0 -> pdat p' = pdat p) /\
    timestamp_T p' = timestamp_T p.
Proof.
  intros v src seq off ops num denom r rets Hs Hq Fo B N.
  destruct (build_inv v src off ops _ r rets (new_packet_inv v src seq off Hq) Fo B N) as [p [-> I]].
  destruct (roundtrip v src off num denom p Hs I) as [bs [p' [E1 [E2 E3]]]].
  exists p, bs, p'. split; [reflexivity|]. split; [assumption|]. split; [assumption|]. exact E3.
Qed.

(* what the built packet holds, for the most common call sequence:  [SetTimestamp;] NewData *)
Lemma build_newdata_fields v src seq off d dims p :
  build (new_packet v src seq off) [BNewData d dims] = (Ok p, [BRNil]) ->
  shape p = Some dims /\ pdat p = d /\ sequenceNumber p = wrap32 (seq + 1) /\ timestamp_T p = None.
Proof.
  cbn [build bstep]. unfold new_data.
  destruct ((zlen dims <? 1) || (zlen dims >? MAXDIMS)); [intros E; inversion E|].
  destruct (negb (dims_ok 1 dims)); [intros E; inversion E|].
  destruct (data_width d) as [[w vals]|]; [|intros E; inversion E].
  destruct (_ >? MAXPACKET); intros E; injection E as E1; [discriminate|]. subst p.
  repeat split.
Qed.

Lemma build_ts_newdata_fields v src seq off t rid d dims p :
  build (new_packet v src seq off) [BSetTs t rid; BNewData d dims] = (Ok p, [BRNil; BRNil]) ->
  shape p = Some dims /\ pdat p = d /\ sequenceNumber p = wrap32 (seq + 1) /\ timestamp_T p = Some t.
Proof.
  cbn [build bstep]. unfold new_data.
  destruct ((zlen dims <? 1) || (zlen dims >? MAXDIMS)); [intros E; inversion E|].
  destruct (negb (dims_ok 1 dims)); [intros E; inversion E|].
  destruct (data_width d) as [[w vals]|]; [|intros E; inversion E].
  destruct (_ >? MAXPACKET); intros E; injection E as E1; [discriminate|]. subst p.
  repeat split.
Qed.

(* the constructors never panic (they return errors) *)
Lemma build_never_panics : forall ops p, fst (build p ops) <> Panic /\ ~ In BRPanic (snd (build p ops)).
Proof.
  induction ops as [|o ops IH]; intros p; cbn [build].
  - cbn. split; [discriminate|tauto].
  - assert (exists q e, bstep p o = Ok (q, e)) as [q [e E]].
    { destruct o; cbn [bstep]; eauto. unfold new_data.
      repeat match goal with |- context [if ?c then _ else _] => destruct c end; eauto.
      destruct (data_width d) as [[w vals]|]; eauto. }
    rewrite E. destruct (IH q) as [I1 I2]. destruct (build q ops) as [r rs]. cbn [fst snd] in *.
    split; [assumption|]. intros [H|H]; [destruct e; discriminate|contradiction].
Qed.


(* ================================================================== filler packets *)

Lemma pretend_vals_forall (P : Z -> Prop) d n : Forall P d -> forall is x,
  pretend_vals d n is = Ok x -> Forall P x.
Proof.
  intros Fd. induction is as [|i is IH]; intros x E; cbn [pretend_vals] in E.
  - injection E as <-. constructor.
  - destruct (n =? 0); [discriminate|].
    unfold idx in E. destruct ((0 <=? Z.rem i n) && (Z.rem i n <? zlen d)) eqn:R; [|discriminate].
    destruct (pretend_vals d n is) as [l|] eqn:El; [|discriminate].
    injection E as <-. constructor; [|now apply IH].
    pose proof (proj1 (Forall_forall _ _) Fd) as Fd'. apply Fd'.
    unfold znth. destruct (Z.rem i n <? 0) eqn:Ln; [lia|]. apply nth_In. unfold zlen in R. lia.
Qed.

(* MakePretendPacket(s, n), n <> 0, of a built packet is again a packet of the kind the constructors build *)
Lemma pretend_binv v src off p s n :
  binv v src off p -> 0 <= s < 4294967296 -> n <> 0 ->
  exists q, make_pretend p s n = Ok q /\ binv v src off q /\ sequenceNumber q = s /\
            shape q = shape p /\ timestamp_T q = timestamp_T p /\
            same_kind_count (pdat q) (pdat p) = true.
Proof.
  intros [Iv Is Io Iq It Ib] Hs Hn. unfold make_pretend.
  assert (G : forall d, exists x, pretend_vals d n (zrange 0 (zlen d)) = Ok x /\ zlen x = zlen d).
  { intros d. destruct (pretend_vals_ok d n Hn (zrange 0 (zlen d))) as [x [E L]].
    - unfold zrange. pose proof (zrange_nat_bounds (Z.to_nat (zlen d)) 0) as B.
      eapply Forall_impl; [|exact B]. cbn beta. pose proof (zlen_nonneg d). intros; lia.
    - exists x. split; [assumption|]. rewrite L. apply zlen_zrange0, zlen_nonneg. }
  destruct Ib as [[N1 [N2 [N3 [N4 N5]]]]|[w [vals [dims [D1 [D2 [D3 [D4 [D5 [D6 [D7 [D8 [D9 [D10 D11]]]]]]]]]]]]]].
  - rewrite N1. eexists. split; [reflexivity|]. split; [|repeat split].
    constructor; try assumption. left. unfold no_data. repeat split; assumption.
  - destruct (data_width_cases _ _ _ D1) as [[Ed Ew]|[[Ed Ew]|[Ed Ew]]]; rewrite Ed; subst w;
      destruct (G vals) as [x [Ex Lx]]; rewrite Ex;
      (eexists; split; [reflexivity|]; split;
       [ constructor; try assumption; right; eexists; exists x, dims;
         split; [reflexivity|]; split; [auto|]; split; [exact D3|]; split; [exact D4|];
         split; [exact D5|]; split; [exact D6|]; split; [exact D7|];
         split; [exact (pretend_vals_forall _ _ _ D8 _ _ Ex)|];
         split; [transitivity (payloadLength p); [reflexivity|rewrite Lx; exact D9]|];
         split; [exact D10|exact D11]
       | repeat split; cbn [set_seq_data pdat same_kind_count]; lia ]).
Qed.
