(* C15 — the code as it was before the fixes violates the property: witnesses, by computation. *)
From Dastard Require Import Common.ZX C15.Model C15.Spec.

(* ---- decoder side: datagrams that decode without error and then make an accessor panic ---- *)
(* 24-byte header, shape TLV [2], no format TLV *)
Definition w_shape_no_format : list Z := [1;24;0;0;129;11;0;255;0;0;0;7;0;0;0;9; 34;1;0;2;0;0;0;0].
(* bare 16-byte header *)
Definition w_bare_header : list Z := [1;16;0;0;129;11;0;255;0;0;0;7;0;0;0;9].
(* format "<" (no type letter), shape [2], 4 payload bytes *)
Definition w_no_letter : list Z :=
  [1;32;0;4;129;11;0;255;0;0;0;7;0;0;0;9; 33;1;60;0;0;0;0;0; 34;1;0;2;0;0;0;0; 1;2;3;4].
(* format "<hh", shape [1], 4 payload bytes *)
Definition w_mixed_format : list Z :=
  [1;32;0;4;129;11;0;255;0;0;0;7;0;0;0;9; 33;1;60;104;104;0;0;0; 34;1;0;1;0;0;0;0; 1;2;3;4].
(* format "<h", shape [16384;16384;16384;16384;16384] (product 2^70 wraps to 0), 8 payload bytes *)
Definition w_shape_overflow : list Z :=
  [1;40;0;8;129;11;0;255;0;0;0;7;0;0;0;9; 33;1;60;104;0;0;0;0;
   34;2;64;0;64;0;64;0;64;0;64;0;0;0;0;0; 1;2;3;4;5;6;7;8].

Definition after_decode_old (bs : list Z) (f : packet -> bool) : bool :=
  match read_packet_old bs with
  | (DOk p, _) => f p
  | _ => false
  end.
Definition is_panic {A} (r : res A) : bool := match r with Panic => true | Ok _ => false end.

Lemma decode_total_safe_refuted_before_fix :
  after_decode_old w_shape_no_format (fun p => is_panic (frames_old p)) = true /\
  after_decode_old w_bare_header (fun p => is_panic (channel_info_old p)) = true /\
  after_decode_old w_no_letter (fun p => is_panic (frames_old p)) = true /\
  after_decode_old w_mixed_format (fun p => is_panic (read_value_old p 0)) = true /\
  after_decode_old w_shape_overflow (fun p => is_panic (frames_old p)) = true.
Proof. vm_compute. repeat split. Qed.

(* ---- constructor side ---- *)
Definition np : packet := new_packet 3 77 100 8.
Definition six : pdata := D16 [-1000; -963; -926; -889; -852; -815].

(* after the old NewData returned nil: do the bytes decode? *)
Definition old_roundtrip_ok (d : pdata) (dims : list Z) : bool :=
  match new_data_old np d dims with
  | Ok (p, false) =>
      match bytes_of 0 0 p with
      | Ok bs => match read_packet bs with
                 | (DOk p', n) => (n =? zlen bs) && pdata_eqb (pdat p') (pdat p)
                 | _ => false
                 end
      | Panic => false
      end
  | _ => false
  end.

Lemma encode_decode_refuted_before_fix :
  (* no dimensions, or a zero dimension: NewData returned nil, the decoder rejects the bytes *)
  (exists p, new_data_old np six [] = Ok (p, false)) /\ old_roundtrip_ok six [] = false /\
  (exists p, new_data_old np six [0] = Ok (p, false)) /\ old_roundtrip_ok six [0] = false /\
  (* two dimensions: index out of range *)
  new_data_old np six [2; 3] = Panic /\
  (* 8192 int64 samples = 65536 bytes: nil error, 16-bit payload length 0 *)
  (exists p, new_data_old np (D64 (repeat 5 (Z.to_nat 8192))) [4] = Ok (p, false) /\ payloadLength p = 0) /\
  old_roundtrip_ok (D64 (repeat 5 (Z.to_nat 8192))) [4] = false /\
  (* ... while a well-formed call round-trips with the old code too *)
  old_roundtrip_ok six [2] = true.
Proof.
  split; [eexists; vm_compute; reflexivity|]. split; [vm_compute; reflexivity|].
  split; [eexists; vm_compute; reflexivity|]. split; [vm_compute; reflexivity|].
  split; [vm_compute; reflexivity|].
  split; [eexists; split; vm_compute; reflexivity|].
  split; vm_compute; reflexivity.
Qed.
