(* C15 — concrete inputs meeting the hypotheses of the theorems (non-vacuity). *)
From Dastard Require Import Common.ZX C15.Model C15.Spec C15.Proofs C15.RoundTrip.

(* a well-formed datagram: offset TLV, format "<h", shape [2], two frames of two channels *)
Definition ex_datagram : list Z :=
  [1;40;0;8;129;11;0;255;0;0;0;7;0;0;0;9; 35;1;0;0;0;0;48;0; 33;1;60;104;0;0;0;0; 34;1;0;2;0;0;0;0;
   1;0;255;255;0;128;255;127].

Example ex_datagram_bytes_ok : bytes_ok ex_datagram.
Proof. unfold bytes_ok, ex_datagram. repeat (constructor; [lia|]). constructor. Qed.

Example ex_datagram_decodes :
  match read_packet ex_datagram with
  | (DOk p, n) => n = 48 /\ frames p = Ok 2 /\ channel_info p = Ok (2, 12288) /\ pdat p = D16 [1; -1; -32768; 32767]
  | _ => False
  end.
Proof. vm_compute. repeat split. Qed.

(* SetTimestamp then NewData with two dimensions; the sequence number wraps *)
Definition ex_ops : list bop :=
  [BSetTs 72623859790382856 0; BNewData (D32 [1; -2; 2147483647; -2147483648; 5; 6]) [2; 3]].

Example ex_ops_ok : Forall op_ok ex_ops.
Proof.
  unfold ex_ops. constructor; [cbn [op_ok]; lia|]. constructor; [|constructor].
  cbn [op_ok data_in_range]. unfold vals_ok. change (2 ^ (8 * 4 - 1)) with 2147483648.
  split; repeat (constructor; [lia|]); constructor.
Qed.

Example ex_ops_build :
  match build (new_packet 3 77 4294967295 8) ex_ops with
  | (Ok p, rets) => rets = [BRNil; BRNil] /\ sequenceNumber p = 0 /\ shape p = Some [2; 3]
  | _ => False
  end.
Proof. vm_compute. repeat split. Qed.
