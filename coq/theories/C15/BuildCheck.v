(* C15 — the model's view of any construction passes the observable checker build_check. *)
From Dastard Require Import Common.ZX C15.Model C15.Spec C15.Proofs C15.RoundTrip C15.Run.
From Coq Require Import ZifyBool ZifyNat.

Lemma Ok_inj {A} (a b : A) : Ok a = Ok b -> a = b.
Proof. intros H; injection H; auto. Qed.

Lemma bytes_ok_app a b : bytes_ok a -> bytes_ok b -> bytes_ok (a ++ b).
Proof. intros; apply Forall_app; auto. Qed.

Lemma bytes_ok_consts l : forallb (fun b => (0 <=? b) && (b <? 256)) l = true -> bytes_ok l.
Proof.
  induction l as [|x l IH]; cbn [forallb]; intros H; [constructor|].
  apply andb_true_iff in H as [H1 H2]. constructor; [lia|exact (IH H2)].
Qed.

Lemma bytes_ok_flat_map {A} (f : A -> list Z) l : (forall x, bytes_ok (f x)) -> bytes_ok (flat_map f l).
Proof. intros H. induction l; cbn [flat_map]; [constructor|]. apply bytes_ok_app; auto. Qed.

Lemma bytes_ok_repeat0 n : bytes_ok (repeat 0 n).
Proof. induction n; cbn [repeat]; constructor; [lia|assumption]. Qed.

Lemma bytes_ok_enc_le n x : bytes_ok (enc_le n x).
Proof. unfold enc_le. apply Forall_rev, enc_be_bytes_ok. Qed.

Lemma bytes_ok_tsb num denom p : bytes_ok (tsb_of num denom p).
Proof.
  unfold tsb_of. destruct (timestamp p); [|constructor]. unfold tlv_ts.
  apply bytes_ok_app; [now apply bytes_ok_consts|].
  apply bytes_ok_app; [apply enc_be_bytes_ok|].
  apply bytes_ok_app; apply enc_be_bytes_ok.
Qed.

Lemma bytes_ok_H16 v hl pl src seq : 0 <= v < 256 -> 0 <= hl < 256 -> bytes_ok (H16 v hl pl src seq).
Proof.
  intros Hv Hh. unfold H16.
  apply bytes_ok_app; [constructor; [lia|]; constructor; [lia|constructor]|].
  apply bytes_ok_app; [apply enc_be_bytes_ok|].
  apply bytes_ok_app; [apply enc_be_bytes_ok|].
  apply bytes_ok_app; apply enc_be_bytes_ok.
Qed.

Lemma bytes_ok_off o : bytes_ok (tlv_off o).
Proof. unfold tlv_off. apply bytes_ok_app; [now apply bytes_ok_consts|apply enc_be_bytes_ok]. Qed.

Lemma bytes_ok_fmt w : w = 2 \/ w = 4 \/ w = 8 -> bytes_ok (tlv_fmt w).
Proof. intros [-> | [-> | ->]]; now apply bytes_ok_consts. Qed.

Lemma bytes_ok_shape dims : bytes_ok (tlv_shape dims).
Proof.
  unfold tlv_shape. apply bytes_ok_app; [|apply bytes_ok_app].
  - constructor; [lia|]. constructor; [unfold wrap8; apply Z.mod_pos_bound; lia|constructor].
  - apply bytes_ok_flat_map. intros x. apply enc_be_bytes_ok.
  - apply bytes_ok_repeat0.
Qed.

Lemma bytes_ok_enc_vals wn vals : bytes_ok (enc_vals wn false vals).
Proof. unfold enc_vals. apply bytes_ok_flat_map. intros x. apply bytes_ok_enc_le. Qed.

Lemma built_header_range v src off p : binv v src off p -> 24 <= headerLength p <= 248.
Proof.
  intros I. pose proof (base_header_cases p).
  destruct (bi_body _ _ _ _ I) as [[_ [_ [_ [_ N5]]]]|[w [vals [dims [_ [_ [_ [_ [D5 [_ [_ [_ [_ [_ D11]]]]]]]]]]]]]].
  - lia.
  - pose proof (shape_hdr_bound _ D5). lia.
Qed.

Lemma built_bytes v src off num denom p bs :
  0 <= v < 256 -> binv v src off p -> bytes_of num denom p = Ok bs -> bytes_ok bs /\ zlen bs <= 16384.
Proof.
  intros Hv I E. pose proof (built_header_range _ _ _ _ I) as HR.
  pose proof (bi_v _ _ _ _ I) as Iv.
  destruct (bi_body _ _ _ _ I) as [N|D].
  - rewrite (bytes_of_nodata num denom p N) in E. apply Ok_inj in E. subst bs. split.
    + apply bytes_ok_app; [apply bytes_ok_H16; lia|].
      apply bytes_ok_app; [|constructor].
      apply bytes_ok_app; [apply bytes_ok_off|].
      apply bytes_ok_app; [apply bytes_ok_tsb|constructor].
    + rewrite !zlen_app, zlen_tsb. change (zlen (@nil Z)) with 0.
      destruct (H16_fields (version p) (headerLength p) 0 0 0 ltac:(lia) ltac:(lia) ltac:(lia)) as [F1 _].
      unfold H16 in *. rewrite !zlen_app, !zlen_enc_be in *. unfold tlv_off. rewrite zlen_app, zlen_enc_be.
      pose proof (base_header_cases p). unfold zlen; cbn [length]; lia.
  - destruct D as [w [vals [dims [D1 [D2 [D3 [D4 [D5 [D6 [D7 [D8 [D9 [D10 D11]]]]]]]]]]]]].
    assert (exists wn : nat, Z.of_nat wn = w) as [wn Hwn] by (exists (Z.to_nat w); lia).
    rewrite (bytes_of_data num denom p w vals dims wn Hwn D1 D3 D4) in E. apply Ok_inj in E. subst bs. split.
    + apply bytes_ok_app; [apply bytes_ok_H16; lia|].
      apply bytes_ok_app; [|apply bytes_ok_enc_vals].
      apply bytes_ok_app; [apply bytes_ok_off|].
      apply bytes_ok_app; [apply bytes_ok_tsb|].
      apply bytes_ok_app; [now apply bytes_ok_fmt|].
      apply bytes_ok_app; [apply bytes_ok_shape|constructor].
    + destruct (parse_tlv_shape dims D5 D6 D7) as [LS _]. destruct (parse_tlv_fmt w D2) as [LF _].
      rewrite !zlen_app, zlen_tsb, LS, LF, zlen_enc_vals. change (zlen (@nil Z)) with 0.
      unfold H16. rewrite !zlen_app, !zlen_enc_be. unfold tlv_off. rewrite zlen_app, zlen_enc_be.
      rewrite Hwn. pose proof (base_header_cases p). pose proof (shape_hdr_bound _ D5).
      change (zlen [version p; headerLength p]) with 2. change (zlen [35; 1; 0; 0]) with 4. lia.
Qed.

Lemma zlist_eqb_refl l : zlist_eqb l l = true.
Proof. now apply zlist_eqb_eq. Qed.

Lemma existsb_false_forall {A} (f : A -> bool) l : existsb f l = false -> Forall (fun x => f x = false) l.
Proof.
  induction l as [|x l IH]; cbn [existsb]; intros H; [constructor|].
  apply orb_false_iff in H as [H1 H2]. constructor; auto.
Qed.

Lemma enc_ok_model v src off p num denom reads pret dreads dpret :
  0 <= v < 256 -> 0 <= src < 4294967296 -> binv v src off p ->
  enc_ok (model_enc p num denom reads pret dreads dpret) = true.
Proof.
  intros Hv Hs I. unfold model_enc, enc_ok.
  destruct (roundtrip v src off num denom p Hs I) as [bs [p' [Eb [Er RF]]]].
  destruct (built_bytes v src off num denom p bs Hv I Eb) as [Bok Blen].
  rewrite Eb. replace (zlen bs >? 16384) with false by lia.
  cbn [b_bytes b_dec b_acc].
  pose proof (decode_passes_checker_model bs dreads dpret Bok) as DC.
  unfold observe_decode in *. rewrite Er in *. rewrite DC.
  destruct RF as [R1 [R2 [R3 [R4 [R5 [R6 [R7 R8]]]]]]].
  cbn [observe_packet a_version a_src a_seq a_chan a_shape a_data a_ts andb].
  rewrite R1, R2, R3, R5, R8, (bi_v _ _ _ _ I), (bi_src _ _ _ _ I).
  rewrite !Z.eqb_refl. cbn [andb].
  assert (C1 : exists n1, channel_info p' = Ok (n1, offset p')) by (unfold channel_info; destruct (shape p'); eauto).
  assert (C2 : exists n2, channel_info p = Ok (n2, offset p)) by (unfold channel_info; destruct (shape p); eauto).
  destruct C1 as [n1 ->]. destruct C2 as [n2 ->]. rewrite R4, (bi_off _ _ _ _ I), Z.eqb_refl.
  assert (S1 : opt_eqb zlist_eqb (shape p) (shape p) = true)
    by (destruct (shape p); cbn [opt_eqb]; [apply zlist_eqb_refl|reflexivity]).
  assert (S2 : opt_eqb Z.eqb (timestamp_T p) (timestamp_T p) = true)
    by (destruct (timestamp_T p); cbn [opt_eqb]; [apply Z.eqb_refl|reflexivity]).
  rewrite S1, S2. cbn [andb]. rewrite andb_true_r.
  unfold payload_eqb. destruct (data_count (pdat p) =? 0) eqn:DZ.
  - rewrite R6 by lia. reflexivity.
  - rewrite R7 by lia. destruct (pdat p); cbn [pdata_eqb]; try reflexivity; apply zlist_eqb_refl.
Qed.

Lemma bstep_total p o : exists q e, bstep p o = Ok (q, e).
Proof.
  destruct o; cbn [bstep]; eauto. unfold new_data.
  repeat match goal with |- context [if ?c then _ else _] => destruct c end; eauto.
  destruct (data_width d) as [[w vals]|]; eauto.
Qed.

(* the arguments of a history step have their Go types *)
Definition hop_ok (o : hop) : Prop :=
  match o with
  | HOp o => op_ok o
  | HEncode => True
  | HFiller s _ => 0 <= s < 4294967296
  end.

(* the model's encoding observation, spelled out *)
Lemma enc_dec_model v src off p num denom reads pret dreads dpret :
  0 <= v < 256 -> 0 <= src < 4294967296 -> binv v src off p ->
  exists bs p',
    model_enc p num denom reads pret dreads dpret
    = Ok {| b_acc := observe_packet p reads pret; b_bytes := Ok bs;
            b_dec := ODOk (zlen bs) (observe_packet p' dreads dpret) |} /\
    roundtrip_facts v src off p p'.
Proof.
  intros Hv Hs I. unfold model_enc.
  destruct (roundtrip v src off num denom p Hs I) as [bs [p' [Eb [Er RF]]]].
  destruct (built_bytes v src off num denom p bs Hv I Eb) as [Bok Blen].
  exists bs, p'. rewrite Eb. replace (zlen bs >? 16384) with false by lia.
  unfold observe_decode. rewrite Er. split; [reflexivity|assumption].
Qed.

Lemma opt_zlist_refl o : opt_eqb zlist_eqb o o = true.
Proof. destruct o; cbn [opt_eqb]; [apply zlist_eqb_refl|reflexivity]. Qed.
Lemma opt_z_refl o : opt_eqb Z.eqb o o = true.
Proof. destruct o; cbn [opt_eqb]; [apply Z.eqb_refl|reflexivity]. Qed.

(* the object holds what the caller asked for *)
Definition xrel (p : packet) (e : expst) : Prop :=
  shape p = x_shape e /\ pdat p = x_data e /\ timestamp_T p = x_ts e.

Lemma bstep_xrel p o q e : bstep p o = Ok (q, false) -> xrel p e -> xrel q (exp_step e o).
Proof.
  intros B [X1 [X2 X3]]. destruct o as [t rid| | |d dims|t]; cbn [bstep] in B.
  - apply Ok_inj in B. injection B as <-. repeat split; assumption.
  - apply Ok_inj in B. injection B as <-. repeat split; assumption.
  - apply Ok_inj in B. injection B as <-. repeat split. assumption.
  - unfold new_data in B.
    destruct ((zlen dims <? 1) || (zlen dims >? MAXDIMS)); [apply Ok_inj in B; discriminate|].
    destruct (negb (dims_ok 1 dims)); [apply Ok_inj in B; discriminate|].
    destruct (data_width d) as [[w vals]|]; [|apply Ok_inj in B; discriminate].
    destruct (_ >? MAXPACKET); apply Ok_inj in B; [discriminate|].
    injection B as <-. repeat split. assumption.
  - apply Ok_inj in B. injection B as <-. unfold mut_ts, timestamp_T in *.
    destruct (timestamp p) as [ts|] eqn:ET; cbn [exp_step x_shape x_data x_ts].
    + rewrite <- X3. unfold xrel, timestamp_T. cbn [x_shape x_data x_ts]. repeat split; try assumption.
    + rewrite <- X3. unfold xrel, timestamp_T. rewrite ET. cbn [x_shape x_data x_ts]. repeat split; assumption.
Qed.

Lemma payload_eqb_facts d' d :
  (data_count d = 0 -> data_count d' = 0) -> (data_count d <> 0 -> d' = d) -> payload_eqb d' d = true.
Proof.
  intros R6 R7. unfold payload_eqb. destruct (data_count d =? 0) eqn:DZ.
  - rewrite R6 by lia. reflexivity.
  - rewrite R7 by lia. destruct d; cbn [pdata_eqb]; try reflexivity; apply zlist_eqb_refl.
Qed.

Lemma same_kind_count_count a b : same_kind_count a b = true -> data_count a = data_count b.
Proof. destruct a, b; cbn; intros H; try discriminate; lia. Qed.

Lemma hist_passes_checker v src off :
  0 <= v < 256 -> 0 <= src < 4294967296 ->
  forall h p clean e, (clean = true -> binv v src off p /\ xrel p e) -> Forall hop_ok (map fst h) ->
  hist_check clean e (combine (map fst h) (run_hist p h)) = true.
Proof.
  intros Hv Hs. induction h as [|[o x] h IH]; intros p clean e I F; [reflexivity|].
  cbn [map fst] in F. inversion F as [|? ? F1 F2]; subst.
  destruct o as [o| |s n]; cbn [map fst run_hist].
  - destruct (bstep_total p o) as [q [er E]]. rewrite E. cbn [combine hist_check].
    replace (is_panic_ret (if er then BRErr else BRNil)) with false by (destruct er; reflexivity).
    apply IH; [|assumption]. intros C. apply andb_true_iff in C as [C1 C2].
    destruct er; [discriminate|]. destruct (I C1) as [I1 I2].
    split; [eapply bstep_inv; eauto|eapply bstep_xrel; eauto].
  - destruct (oracle_of x) as [[num denom] b]. destruct (probes_of b) as [[[reads pret] dreads] dpret].
    cbn [combine hist_check]. rewrite (IH p clean e I F2), andb_true_r.
    destruct clean; [|reflexivity]. destruct (I eq_refl) as [I1 [X1 [X2 X3]]].
    rewrite (enc_ok_model v src off) by auto. cbn [andb].
    destruct (enc_dec_model v src off p num denom reads pret dreads dpret Hv Hs I1)
      as [bs [p' [-> [R1 [R2 [R3 [R4 [R5 [R6 [R7 R8]]]]]]]]]].
    cbn [exp_ok b_dec observe_packet a_shape a_data a_ts].
    rewrite R5, R8, X1, X3, opt_zlist_refl, opt_z_refl, <- X2, (payload_eqb_facts _ _ R6 R7). reflexivity.
  - destruct (oracle_of x) as [[num denom] b]. destruct (probes_of b) as [[[reads pret] dreads] dpret].
    cbn [combine hist_check]. rewrite (IH p clean e I F2), andb_true_r.
    destruct (clean && negb (n =? 0)) eqn:C; [|reflexivity].
    apply andb_true_iff in C as [C1 C2]. cbn [hop_ok] in F1. destruct (I C1) as [I1 [X1 [X2 X3]]].
    destruct (pretend_binv v src off p s n I1 F1 ltac:(lia)) as [q [Eq [Iq [Q1 [Q2 [Q3 Q4]]]]]].
    rewrite Eq. rewrite (enc_ok_model v src off) by auto. cbn [andb].
    destruct (enc_dec_model v src off q num denom reads pret dreads dpret Hv Hs Iq)
      as [bs [q' [-> [R1 [R2 [R3 [R4 [R5 [R6 [R7 R8]]]]]]]]]].
    cbn [exp_ok_filler b_dec observe_packet a_shape a_data a_ts].
    rewrite R5, R8, Q2, Q3, X1, X3, opt_zlist_refl, opt_z_refl, <- X2. cbn [andb]. rewrite andb_true_r.
    unfold payload_like. pose proof (same_kind_count_count _ _ Q4) as CQ.
    destruct (data_count (pdat p) =? 0) eqn:DZ.
    + rewrite R6 by lia. reflexivity.
    + rewrite R7 by lia. exact Q4.
Qed.

Theorem build_passes_checker_model : forall v src seq off h,
  0 <= v < 256 -> 0 <= src < 4294967296 -> 0 <= seq < 4294967296 -> Forall hop_ok (map fst h) ->
  build_check (combine (map fst h) (run_hist (new_packet v src seq off) h)) = true.
Proof.
  intros v src seq off h Hv Hs Hq F. unfold build_check.
  apply (hist_passes_checker v src off Hv Hs); [|assumption].
  intros _. split; [now apply new_packet_inv|]. repeat split.
Qed.

(* a filler packet made from any built packet round-trips: decode (Bytes q) gives q's sequence number,
   q's (repeated) payload, and the shape, offset and time-stamp counter of the original *)
Theorem filler_round_trip_model : forall v src seq off ops num denom r rets s n,
  0 <= src < 4294967296 -> 0 <= seq < 4294967296 -> Forall op_ok ops ->
  build (new_packet v src seq off) ops = (r, rets) -> Forall (fun x => x = BRNil) rets ->
  0 <= s < 4294967296 -> n <> 0 ->
  exists p q bs q', r = Ok p /\ make_pretend p s n = Ok q /\ bytes_of num denom q = Ok bs /\
    read_packet bs = (DOk q', zlen bs) /\
    version q' = v /\ sourceID q' = src /\ sequenceNumber q' = s /\ offset q' = wrap32 off /\
    shape q' = shape p /\
    (data_count (pdat q) = 0 -> data_count (pdat q') = 0) /\
    (data_count (pdat q) <> 0 -> pdat q' = pdat q) /\
    timestamp_T q' = timestamp_T p.
Proof.
  intros v src seq off ops num denom r rets s n Hs Hq Fo B N Hsn Hn.
  destruct (build_inv v src off ops _ r rets (new_packet_inv v src seq off Hq) Fo B N) as [p [-> I]].
  destruct (pretend_binv v src off p s n I Hsn Hn) as [q [Eq [Iq [Q1 [Q2 [Q3 _]]]]]].
  destruct (roundtrip v src off num denom q Hs Iq) as [bs [q' [E1 [E2 [R1 [R2 [R3 [R4 [R5 [R6 [R7 R8]]]]]]]]]]].
  exists p, q, bs, q'. repeat split; try assumption; try congruence.
Qed.
