(* C15 — mirror model of /repo/packets/packets.go (definitions only, no proofs).
   One Gallina function per Go function, same order of checks, same arithmetic; every place where Go
   relies on fixed-width wrap-around has the wrap written out; every place where Go can panic (index or
   slice out of range, nil dereference, division by zero, explicit panic) is an explicit [Panic].
   A byte string is a [list Z] with entries in 0..255 (the harness renders bytes; theorems carry the
   premise [bytes_ok]).  Not modelled: the float value of a time stamp's rate (it is carried
   symbolically; the two 16-bit words that Bytes() derives from it are an oracle input), error texts,
   the list of "other" TLVs (tags, counters), which no exported function reads. *)
From Dastard Require Import Common.ZX.

(* ---------- fixed-width integers ---------- *)
Definition wrap8 (x : Z) : Z := x mod 256.
Definition wrap16 (x : Z) : Z := x mod 65536.
Definition wrap32 (x : Z) : Z := x mod 4294967296.
Definition wrap64s (x : Z) : Z := (x + 9223372036854775808) mod 18446744073709551616 - 9223372036854775808.
(* signed reading of an unsigned value of [8*w] bits *)
Definition sint (w : Z) (u : Z) : Z := if u <? 2 ^ (8 * w - 1) then u else u - 2 ^ (8 * w).
(* unsigned representation (two's complement) of a signed value of [8*w] bits *)
Definition uint_of (w : Z) (v : Z) : Z := v mod 2 ^ (8 * w).

(* ---------- byte strings ---------- *)
Definition be_val (bs : list Z) : Z := fold_left (fun a b => a * 256 + b) bs 0.
Definition le_val (bs : list Z) : Z := be_val (rev bs).
(* big-endian value of the n bytes at offset i; no bounds check (used on fixed-size arrays) *)
Definition be (l : list Z) (i n : Z) : Z := be_val (zslice l i n).

Fixpoint enc_be (n : nat) (x : Z) : list Z :=
  match n with O => [] | S k => enc_be k (x / 256) ++ [x mod 256] end.
Definition enc_le (n : nat) (x : Z) : list Z := rev (enc_be n x).

(* Go:  data[i]  *)
Definition byte_at (l : list Z) (i : Z) : res Z :=
  if (0 <=? i) && (i <? zlen l) then Ok (znth 0 l i) else Panic.
(* Go:  binary.BigEndian.UintNN(data[i:])  — panics unless i+n <= len(data) *)
Definition rd (l : list Z) (i n : Z) : res Z :=
  if (0 <=? i) && (i + n <=? zlen l) then Ok (be l i n) else Panic.
(* Go:  data[a:b] *)
Definition sl (l : list Z) (a b : Z) : res (list Z) :=
  if (0 <=? a) && (a <=? b) && (b <=? zlen l) then Ok (zslice l a (b - a)) else Panic.

(* ---------- the packet ---------- *)
Inductive endianness := ENone | EBig | ELittle.
Inductive kind := KInvalid | KInt8 | KUint8 | KInt16 | KUint16 | KInt32 | KUint32 | KInt64 | KUint64.

Record pformat := { endian : endianness; rawfmt : list Z; wordlen : Z; nvals : Z; dtype : list kind }.

(* the float64 rate of a time stamp, symbolically *)
Inductive rate :=
| RateNs                          (* 1e9: TIMESTAMP TLV without units *)
| RateUnit (num denom exp : Z)    (* float64(denom)/float64(num)*10^-exp *)
| RateGiven (id : Z).             (* whatever the caller of SetTimestamp supplied *)
Record tstamp := { tsT : Z; tsRate : rate }.

(* Packet.Data (interface{}) *)
Inductive pdata :=
| DNil
| D16 (d : list Z)
| D32 (d : list Z)
| D64 (d : list Z)
| DBytes (d : list Z)
| DOther.                          (* any other dynamic type (only through NewData's argument) *)

Record packet := {
  version : Z; headerLength : Z; payloadLength : Z; sourceID : Z; sequenceNumber : Z; packetLength : Z;
  format : option pformat; shape : option (list Z); timestamp : option tstamp;
  payloadLabel : list Z; offset : Z; explicitOffset : bool;
  pdat : pdata }.

Definition MAGIC : Z := 2164982015.       (* 0x810b00ff *)
Definition MAXPACKET : Z := 8192.
Definition MAXU16 : Z := 65535.
Definition MAXDIMS : Z := 99.

(* ---------- parseTLV ---------- *)
Inductive tlv :=
| TTag (v : Z)
| TTs (t : tstamp)
| TCounter (id cnt : Z)
| TFormat (f : pformat)
| TShape (s : list Z)
| TOffset (o : Z)
| TLabel (l : list Z).

Inductive tstep := SErr | SPanic | SSkip (size : Z) | SItem (it : tlv) (size : Z).

Definition fmt0 (raw : list Z) : pformat :=
  {| endian := ENone; rawfmt := raw; wordlen := 0; nvals := 0; dtype := [] |}.
Definition set_endian (f : pformat) (e : endianness) : pformat :=
  {| endian := e; rawfmt := rawfmt f; wordlen := wordlen f; nvals := nvals f; dtype := dtype f |}.
(* headPayloadFormat.addDataComponent *)
Definition add_component (f : pformat) (k : kind) (nb : Z) : pformat :=
  {| endian := endian f; rawfmt := rawfmt f; wordlen := wordlen f + nb; nvals := nvals f + 1;
     dtype := dtype f ++ [k] |}.

(* the letters of a format string.  Go ranges over the string by runes: a byte >= 0x80 starts a rune
   >= 0x80 (or U+FFFD), which is no known letter, so the loop ends with the error at that byte *)
Definition letter (c : Z) : option (kind * Z) :=
  if c =? 120 then Some (KInvalid, 1)                      (* x *)
  else if c =? 98 then Some (KInt8, 1)                     (* b *)
  else if c =? 66 then Some (KUint8, 1)                    (* B *)
  else if c =? 104 then Some (KInt16, 2)                   (* h *)
  else if c =? 72 then Some (KUint16, 2)                   (* H *)
  else if (c =? 105) || (c =? 108) then Some (KInt32, 4)   (* i l *)
  else if (c =? 73) || (c =? 76) then Some (KUint32, 4)    (* I L *)
  else if c =? 113 then Some (KInt64, 8)                   (* q *)
  else if c =? 81 then Some (KUint64, 8)                   (* Q *)
  else None.

Fixpoint parse_fmt (cs : list Z) (f : pformat) : option pformat :=
  match cs with
  | [] => Some f
  | c :: r =>
      if (c =? 0) || (c =? 32) then parse_fmt r f
      else if (c =? 33) || (c =? 62) then parse_fmt r (set_endian f EBig)        (* ! > *)
      else if c =? 60 then parse_fmt r (set_endian f ELittle)                    (* < *)
      else match letter c with
           | Some (k, nb) => parse_fmt r (add_component f k nb)
           | None => None
           end
  end.

(* the loop  for i := 2; i < tlvsize; i += 2 { d := int16(BigEndian.Uint16(data[i:])); if d > 0 {append} }
   over the bytes data[2:tlvsize] *)
Fixpoint shape_sizes (bs : list Z) : res (list Z) :=
  match bs with
  | [] => Ok []
  | [_] => Panic
  | a :: b :: r =>
      match shape_sizes r with
      | Panic => Panic
      | Ok rest => let d := sint 2 (a * 256 + b) in Ok (if d >? 0 then d :: rest else rest)
      end
  end.

(* running product of the sizes with the bound check of the (fixed) shape clause: true = within bound *)
Fixpoint prod_within (acc : Z) (sizes : list Z) : bool :=
  match sizes with
  | [] => true
  | s :: r => let acc' := acc * s in if acc' >? MAXU16 then false else prod_within acc' r
  end.

(* MakeTimestamp(x, y, 1e9) followed by  ts.T = ts.T << 16  (uint64 arithmetic) *)
Definition wrap64u_shl16 (x y : Z) : Z :=
  ((x * 4294967296 + y) mod 18446744073709551616 * 65536) mod 18446744073709551616.

(* one iteration of the loop in parseTLV; [lim] = the shape clause checks the product of the sizes
   (true in the current code, false for the code before the fix) *)
Definition parse_one (lim : bool) (data : list Z) : tstep :=
  let remaining := zlen data in
  if remaining <? 8 then SErr else
  match byte_at data 0, byte_at data 1 with
  | Ok t, Ok l1 =>
    let tlvsize := 8 * l1 in
    if tlvsize >? remaining then SErr
    else if tlvsize <=? 0 then SErr
    else if t =? 9 then                                     (* tlvTAG *)
      match rd data 2 2, rd data 4 4 with
      | Ok x, Ok tag => if x =? 0 then SItem (TTag tag) tlvsize else SErr
      | _, _ => SPanic
      end
    else if t =? 17 then                                    (* tlvTIMESTAMP *)
      match rd data 2 2, rd data 4 4 with
      | Ok x, Ok y => SItem (TTs {| tsT := wrap64u_shl16 x y; tsRate := RateNs |}) tlvsize
      | _, _ => SPanic
      end
    else if t =? 18 then                                    (* tlvCOUNTER *)
      if negb (tlvsize =? 8) then SErr else
      match rd data 2 2, rd data 4 4 with
      | Ok id, Ok c => SItem (TCounter (sint 2 id) (sint 4 c)) tlvsize
      | _, _ => SPanic
      end
    else if t =? 19 then                                    (* tlvTIMESTAMPUNIT *)
      if tlvsize <? 16 then SErr else
      match byte_at data 2, byte_at data 3, rd data 4 2, rd data 6 2, rd data 8 8 with
      | Ok nbits, Ok expb, Ok num, Ok denom, Ok t64 =>
          if nbits <? 64 then
            SItem (TTs {| tsT := t64 mod 2 ^ nbits; tsRate := RateUnit num denom (sint 1 expb) |}) tlvsize
          else if nbits =? 64 then
            SItem (TTs {| tsT := t64; tsRate := RateUnit num denom (sint 1 expb) |}) tlvsize
          else SErr
      | _, _, _, _, _ => SPanic
      end
    else if t =? 33 then                                    (* tlvFORMAT *)
      match sl data 2 tlvsize with
      | Ok raw => match parse_fmt raw (fmt0 raw) with
                  | Some f => SItem (TFormat f) tlvsize
                  | None => SErr
                  end
      | Panic => SPanic
      end
    else if t =? 34 then                                    (* tlvSHAPE *)
      match sl data 2 tlvsize with
      | Ok raw => match shape_sizes raw with
                  | Ok sizes =>
                      if lim && negb (prod_within 1 sizes) then SErr
                      else if zlen sizes =? 0 then SErr
                      else SItem (TShape sizes) tlvsize
                  | Panic => SPanic
                  end
      | Panic => SPanic
      end
    else if t =? 35 then                                    (* tlvCHANOFFSET *)
      match rd data 2 2, rd data 4 4 with
      | Ok pad, Ok off => if pad =? 0 then SItem (TOffset off) tlvsize else SErr
      | _, _ => SPanic
      end
    else if t =? 41 then                                    (* tlvPAYLOADLABEL *)
      match sl data 2 tlvsize with
      | Ok raw => SItem (TLabel raw) tlvsize
      | Panic => SPanic
      end
    else SSkip tlvsize
  | _, _ => SPanic
  end.

(* ---------- the loop of parseTLV ---------- *)
Inductive tres := TOk (l : list tlv) | TErr | TPanic | TFuel.

(* fuel = number of bytes; every iteration drops tlvsize >= 8 bytes ([data = data[tlvsize:]], in range
   because parse_one has just checked tlvsize <= len(data)) *)
Fixpoint parse_tlv (lim : bool) (fuel : nat) (data : list Z) : tres :=
  if zlen data <=? 0 then TOk [] else
  match fuel with
  | O => TFuel
  | S f =>
      match parse_one lim data with
      | SErr => TErr
      | SPanic => TPanic
      | SSkip n => parse_tlv lim f (zskipn n data)
      | SItem it n =>
          match parse_tlv lim f (zskipn n data) with
          | TOk l => TOk (it :: l)
          | e => e
          end
      end
  end.

(* ---------- ReadPacket ---------- *)
Definition set_data (p : packet) (d : pdata) : packet :=
  {| version := version p; headerLength := headerLength p; payloadLength := payloadLength p;
     sourceID := sourceID p; sequenceNumber := sequenceNumber p; packetLength := packetLength p;
     format := format p; shape := shape p; timestamp := timestamp p; payloadLabel := payloadLabel p;
     offset := offset p; explicitOffset := explicitOffset p; pdat := d |}.

(* the switch over the parsed TLVs in ReadPacket (tags and counters go to otherTLV: not modelled) *)
Definition apply_tlv (p : packet) (it : tlv) : packet :=
  match it with
  | TOffset o =>
      {| version := version p; headerLength := headerLength p; payloadLength := payloadLength p;
         sourceID := sourceID p; sequenceNumber := sequenceNumber p; packetLength := packetLength p;
         format := format p; shape := shape p; timestamp := timestamp p; payloadLabel := payloadLabel p;
         offset := o; explicitOffset := true; pdat := pdat p |}
  | TShape s =>
      {| version := version p; headerLength := headerLength p; payloadLength := payloadLength p;
         sourceID := sourceID p; sequenceNumber := sequenceNumber p; packetLength := packetLength p;
         format := format p; shape := Some s; timestamp := timestamp p; payloadLabel := payloadLabel p;
         offset := offset p; explicitOffset := explicitOffset p; pdat := pdat p |}
  | TFormat f =>
      {| version := version p; headerLength := headerLength p; payloadLength := payloadLength p;
         sourceID := sourceID p; sequenceNumber := sequenceNumber p; packetLength := packetLength p;
         format := Some f; shape := shape p; timestamp := timestamp p; payloadLabel := payloadLabel p;
         offset := offset p; explicitOffset := explicitOffset p; pdat := pdat p |}
  | TTs t =>
      {| version := version p; headerLength := headerLength p; payloadLength := payloadLength p;
         sourceID := sourceID p; sequenceNumber := sequenceNumber p; packetLength := packetLength p;
         format := format p; shape := shape p; timestamp := Some t; payloadLabel := payloadLabel p;
         offset := offset p; explicitOffset := explicitOffset p; pdat := pdat p |}
  | TLabel l =>
      {| version := version p; headerLength := headerLength p; payloadLength := payloadLength p;
         sourceID := sourceID p; sequenceNumber := sequenceNumber p; packetLength := packetLength p;
         format := format p; shape := shape p; timestamp := timestamp p; payloadLabel := l;
         offset := offset p; explicitOffset := explicitOffset p; pdat := pdat p |}
  | TTag _ | TCounter _ _ => p
  end.

Definition kind_width (k : kind) : option Z :=
  match k with KInt16 => Some 2 | KInt32 => Some 4 | KInt64 => Some 8 | _ => None end.

(* cnt values of w bytes each, read into host (little-endian) memory, byte-swapped when the format is
   big-endian, reinterpreted as signed *)
Fixpoint take_vals (cnt : nat) (w : Z) (big : bool) (l : list Z) : list Z :=
  match cnt with
  | O => []
  | S c => let chunk := zfirstn w l in
           sint w (if big then be_val chunk else le_val chunk) :: take_vals c w big (zskipn w l)
  end.

Definition mk_data (w : Z) (vals : list Z) : pdata :=
  if w =? 2 then D16 vals else if w =? 4 then D32 vals else D64 vals.

Definition is_big (e : endianness) : bool := match e with EBig => true | _ => false end.

Inductive dres := DOk (p : packet) | DErr | DPanic | DFuel.

(* the last part of ReadPacket: the payload, read according to the format TLV.  [body] = what the reader
   still holds, [total] = all bytes it ever held (a short read takes them all) *)
Definition read_payload (p : packet) (hl pl : Z) (body : list Z) (total : Z) : dres * Z :=
  match format p with
  | Some f =>
      if pl >? 0 then
        match dtype f with
        | [k] =>
            match kind_width k with
            | Some w =>
                let cnt := pl / w in
                if zlen body <? cnt * w then (DErr, total)
                else (DOk (set_data p (mk_data w (take_vals (Z.to_nat cnt) w (is_big (endian f)) body))),
                      hl + cnt * w)
            | None => (DErr, hl)
            end
        | _ =>
            if zlen body <? pl then (DErr, total)
            else (DOk (set_data p (DBytes (zfirstn pl body))), hl + pl)
        end
      else (DOk p, hl)
  | None => (DOk p, hl)
  end.

(* the packet right after the fixed 16-byte header *)
Definition p0_of (hdr : list Z) (hl pl : Z) : packet :=
  {| version := znth 0 hdr 0; headerLength := hl; payloadLength := pl;
     sourceID := be hdr 8 4; sequenceNumber := be hdr 12 4; packetLength := hl + pl;
     format := None; shape := None; timestamp := None; payloadLabel := [];
     offset := 0; explicitOffset := false; pdat := DNil |}.

(* result and number of bytes taken from the reader *)
Definition read_packet_gen (lim : bool) (bs : list Z) : dres * Z :=
  if zlen bs <? 16 then (DErr, zlen bs) else              (* io.ReadFull(data, hdr) *)
  let hdr := zfirstn 16 bs in
  let hl := znth 0 hdr 1 in
  let pl := be hdr 2 2 in
  if hl <? 16 then (DErr, 16) else
  if negb (be hdr 4 4 =? MAGIC) then (DErr, 16) else
  let rest := zskipn 16 bs in
  let ntlv := hl - 16 in
  if zlen rest <? ntlv then (DErr, zlen bs) else          (* io.ReadFull(data, tlvdata) *)
  let tlvdata := zfirstn ntlv rest in
  match parse_tlv lim (length tlvdata) tlvdata with
  | TErr => (DErr, hl)
  | TPanic => (DPanic, hl)
  | TFuel => (DFuel, hl)
  | TOk items =>
      read_payload (fold_left apply_tlv items (p0_of hdr hl pl)) hl pl (zskipn ntlv rest) (zlen bs)
  end.

Definition read_packet : list Z -> dres * Z := read_packet_gen true.
(* the decoder before the fix "shape TLV: bound the product of the sizes" *)
Definition read_packet_old : list Z -> dres * Z := read_packet_gen false.

(* ---------- accessors ---------- *)
(* nchan := 1; for _, s := range Sizes { if s > 0 { nchan *= int(s) } }      (int = int64) *)
Definition nchan_of (sizes : list Z) : Z :=
  fold_left (fun n s => if s >? 0 then wrap64s (n * s) else n) sizes 1.

(* Packet.Length *)
Definition length_of (p : packet) : Z := packetLength p.

(* Packet.Frames — nil shape or nil format: 0; frame size <= 0: 0 *)
Definition frames (p : packet) : res Z :=
  match shape p, format p with
  | Some s, Some f =>
      let framesize := wrap64s (wordlen f * nchan_of s) in
      if framesize <=? 0 then Ok 0 else Ok (Z.quot (payloadLength p) framesize)
  | _, _ => Ok 0
  end.

(* Packet.Frames before the fixes: p.format dereferenced without a nil test, division unguarded *)
Definition frames_old (p : packet) : res Z :=
  match shape p with
  | None => Ok 0
  | Some s =>
      match format p with
      | None => Panic
      | Some f =>
          let d := wrap64s (wordlen f * nchan_of s) in
          if d =? 0 then Panic else Ok (wrap64s (Z.quot (payloadLength p) d))
      end
  end.

(* Packet.ChannelInfo — nil shape counts as one channel *)
Definition channel_info (p : packet) : res (Z * Z) :=
  match shape p with
  | Some s => Ok (nchan_of s, offset p)
  | None => Ok (1, offset p)
  end.

Definition channel_info_old (p : packet) : res (Z * Z) :=
  match shape p with
  | Some s => Ok (nchan_of s, offset p)
  | None => Panic
  end.

(* Packet.Timestamp: nil or (a copy of) the time stamp; only the counter is observed *)
Definition timestamp_T (p : packet) : option Z :=
  match timestamp p with Some t => Some (tsT t) | None => None end.

(* "value,active,t" *)
Definition EXT_LABEL : list Z := [118; 97; 108; 117; 101; 44; 97; 99; 116; 105; 118; 101; 44; 116].

(* Packet.IsExternalTrigger *)
Definition is_external_trigger (p : packet) : bool :=
  if explicitOffset p then false else zlist_eqb (payloadLabel p) EXT_LABEL.

(* Go:  d[i] *)
Definition idx (d : list Z) (i : Z) : res Z :=
  if (0 <=? i) && (i <? zlen d) then Ok (znth 0 d i) else Panic.

(* Packet.ReadValue — data of any other type (mixed-format payloads are []byte) reads as 0 *)
Definition read_value_gen (fr : packet -> res Z) (other : res Z) (p : packet) (sample : Z) : res Z :=
  match fr p with
  | Panic => Panic
  | Ok f =>
      if (sample <? 0) || (sample >=? f) then Ok 0
      else match pdat p with
           | D16 d | D32 d | D64 d => idx d sample
           | _ => other
           end
  end.
Definition read_value : packet -> Z -> res Z := read_value_gen frames (Ok 0).
(* before the fixes: old Frames, and the explicit panic in the default clause *)
Definition read_value_old : packet -> Z -> res Z := read_value_gen frames_old Panic.

Definition set_seq_data (p : packet) (s : Z) (d : pdata) : packet :=
  {| version := version p; headerLength := headerLength p; payloadLength := payloadLength p;
     sourceID := sourceID p; sequenceNumber := s; packetLength := packetLength p;
     format := format p; shape := shape p; timestamp := timestamp p; payloadLabel := payloadLabel p;
     offset := offset p; explicitOffset := explicitOffset p; pdat := d |}.

(* x[i] = d[i % nchan] for i in is *)
Fixpoint pretend_vals (d : list Z) (n : Z) (is : list Z) : res (list Z) :=
  match is with
  | [] => Ok []
  | i :: r =>
      if n =? 0 then Panic                                  (* integer divide by zero *)
      else match idx d (Z.rem i n), pretend_vals d n r with
           | Ok v, Ok l => Ok (v :: l)
           | _, _ => Panic
           end
  end.

(* Packet.MakePretendPacket *)
Definition make_pretend (p : packet) (seq n : Z) : res packet :=
  let go (mk : list Z -> pdata) (d : list Z) :=
    match pretend_vals d n (zrange 0 (zlen d)) with
    | Ok x => Ok (set_seq_data p seq (mk x))
    | Panic => Panic
    end in
  match pdat p with
  | D16 d => go D16 d
  | D32 d => go D32 d
  | D64 d => go D64 d
  | other => Ok (set_seq_data p seq other)
  end.

(* ---------- constructors ---------- *)
(* NewPacket(version uint8, sourceID uint32, sequenceNumber uint32, chanOffset int) *)
Definition new_packet (v src seq off : Z) : packet :=
  {| version := v; headerLength := 24; payloadLength := 0; sourceID := src; sequenceNumber := seq;
     packetLength := 0; format := None; shape := None; timestamp := None; payloadLabel := [];
     offset := wrap32 off; explicitOffset := false; pdat := DNil |}.

(* Packet.SetTimestamp (ts non-nil) *)
Definition set_timestamp (p : packet) (t : tstamp) : packet :=
  let fresh := match timestamp p with None => true | Some _ => false end in
  {| version := version p;
     headerLength := if fresh then wrap8 (headerLength p + 16) else headerLength p;
     payloadLength := payloadLength p; sourceID := sourceID p; sequenceNumber := sequenceNumber p;
     packetLength := if fresh then packetLength p + 16 else packetLength p;
     format := format p; shape := shape p; timestamp := Some t; payloadLabel := payloadLabel p;
     offset := offset p; explicitOffset := explicitOffset p; pdat := pdat p |}.

(* Packet.ResetTimestamp *)
Definition reset_timestamp (p : packet) : packet :=
  let had := match timestamp p with None => false | Some _ => true end in
  {| version := version p;
     headerLength := if had then wrap8 (headerLength p - 16) else headerLength p;
     payloadLength := payloadLength p; sourceID := sourceID p; sequenceNumber := sequenceNumber p;
     packetLength := if had then packetLength p - 16 else packetLength p;
     format := format p; shape := shape p; timestamp := None; payloadLabel := payloadLabel p;
     offset := offset p; explicitOffset := explicitOffset p; pdat := pdat p |}.

Definition base_header (p : packet) : Z :=
  match timestamp p with Some _ => 40 | None => 24 end.

(* Packet.ClearData *)
Definition clear_data (p : packet) : packet :=
  {| version := version p; headerLength := base_header p; payloadLength := 0;
     sourceID := sourceID p; sequenceNumber := sequenceNumber p; packetLength := base_header p;
     format := None; shape := None; timestamp := timestamp p; payloadLabel := payloadLabel p;
     offset := offset p; explicitOffset := explicitOffset p; pdat := DNil |}.

Definition fmt_of_width (w : Z) : pformat :=
  {| endian := ELittle;
     rawfmt := [60; if w =? 2 then 104 else if w =? 4 then 105 else 113];   (* "<h" "<i" "<q" *)
     wordlen := w; nvals := 1;
     dtype := [if w =? 2 then KInt16 else if w =? 4 then KInt32 else KInt64] |}.

Definition data_width (d : pdata) : option (Z * list Z) :=
  match d with D16 l => Some (2, l) | D32 l => Some (4, l) | D64 l => Some (8, l) | _ => None end.

(* the validation loop over dims:  d <= 0 -> error;  nchan *= d;  nchan > 65535 -> error *)
Fixpoint dims_ok (acc : Z) (dims : list Z) : bool :=
  match dims with
  | [] => true
  | d :: r => if d <=? 0 then false
              else let acc' := acc * d in if acc' >? MAXU16 then false else dims_ok acc' r
  end.

(* Packet.NewData; the boolean is "returned a non-nil error".  Refused dimensions or data type: the
   packet is unchanged.  Oversize: everything is stored (16-bit payload length truncated), only the
   sequence number is not advanced, and the error is returned — decided on the untruncated size. *)
Definition new_data (p : packet) (d : pdata) (dims : list Z) : res (packet * bool) :=
  let ndim := zlen dims in
  if (ndim <? 1) || (ndim >? MAXDIMS) then Ok (p, true)
  else if negb (dims_ok 1 dims) then Ok (p, true)
  else match data_width d with
       | None => Ok (p, true)
       | Some (w, vals) =>
           let hdrlen := base_header p + 8 + 8 * (1 + ndim / 4) in
           let payloadBytes := w * zlen vals in
           let over := hdrlen + payloadBytes >? MAXPACKET in
           Ok ({| version := version p; headerLength := wrap8 hdrlen; payloadLength := wrap16 payloadBytes;
                  sourceID := sourceID p;
                  sequenceNumber := if over then sequenceNumber p else wrap32 (sequenceNumber p + 1);
                  packetLength := hdrlen + payloadBytes;
                  format := Some (fmt_of_width w); shape := Some dims;
                  timestamp := timestamp p; payloadLabel := payloadLabel p;
                  offset := offset p; explicitOffset := explicitOffset p; pdat := d |}, over)
       end.

(* Packet.NewData as it was before the fixes: a one-element Sizes slice indexed by every dimension
   (index out of range for two or more), nothing validated, the payload length truncated to 16 bits
   before the size check *)
Definition new_data_old (p : packet) (d : pdata) (dims : list Z) : res (packet * bool) :=
  let ndim := zlen dims in
  let hl0 := base_header p in
  match data_width d with
  | None =>
      Ok ({| version := version p; headerLength := hl0; payloadLength := payloadLength p;
             sourceID := sourceID p; sequenceNumber := sequenceNumber p; packetLength := packetLength p;
             format := format p; shape := shape p; timestamp := timestamp p;
             payloadLabel := payloadLabel p; offset := offset p; explicitOffset := explicitOffset p;
             pdat := pdat p |}, true)
  | Some (w, vals) =>
      if ndim >=? 2 then Panic
      else
        let pl := wrap16 (w * zlen vals) in
        let sizes := match dims with [] => [0] | d0 :: _ => [d0] end in
        let hl := wrap8 (wrap8 (hl0 + 8) + wrap8 (8 * wrap8 (1 + ndim / 4))) in
        let plen := hl + pl in
        let over := plen >? MAXPACKET in
        Ok ({| version := version p; headerLength := hl; payloadLength := pl;
               sourceID := sourceID p;
               sequenceNumber := if over then sequenceNumber p else wrap32 (sequenceNumber p + 1);
               packetLength := plen;
               format := Some (fmt_of_width w); shape := Some sizes;
               timestamp := timestamp p; payloadLabel := payloadLabel p;
               offset := offset p; explicitOffset := explicitOffset p; pdat := d |}, over)
  end.

(* ---------- Packet.Bytes ---------- *)
Definition pad6 (l : list Z) : list Z := zfirstn 6 (l ++ [0; 0; 0; 0; 0; 0]).

Definition enc_vals (w : nat) (big : bool) (vals : list Z) : list Z :=
  flat_map (fun v => let u := uint_of (Z.of_nat w) v in if big then enc_be w u else enc_le w u) vals.

(* the payload section; binary.Write with a nil byte order panics as soon as it must order bytes *)
Definition payload_bytes (e : endianness) (d : pdata) : res (list Z) :=
  match e, d with
  | _, DNil | _, DOther => Ok []
  | _, DBytes b => Ok b
  | EBig, D16 l => Ok (enc_vals 2 true l)
  | EBig, D32 l => Ok (enc_vals 4 true l)
  | EBig, D64 l => Ok (enc_vals 8 true l)
  | _, D16 l => Ok (enc_vals 2 false l)                    (* raw host memory *)
  | ELittle, D32 l => Ok (enc_vals 4 false l)
  | ELittle, D64 l => Ok (enc_vals 8 false l)
  | ENone, D32 l => if zlen l =? 0 then Ok [] else Panic
  | ENone, D64 l => if zlen l =? 0 then Ok [] else Panic
  end.

(* [num], [denom]: the two 16-bit words Bytes() computes from the float rate (oracle input) *)
Definition bytes_of (num denom : Z) (p : packet) : res (list Z) :=
  let head := [version p; headerLength p] ++ enc_be 2 (payloadLength p) ++ enc_be 4 MAGIC
              ++ enc_be 4 (sourceID p) ++ enc_be 4 (sequenceNumber p)
              ++ [35; 1; 0; 0] ++ enc_be 4 (offset p) in
  let tsb := match timestamp p with
             | Some t => [19; 2; 64; 245] ++ enc_be 2 num ++ enc_be 2 denom ++ enc_be 8 (tsT t)
             | None => []
             end in
  match pdat p, shape p, format p with
  | DNil, _, _ | _, None, _ | _, _, None => Ok (head ++ tsb)
  | d, Some s, Some f =>
      let fm := [33; 1] ++ pad6 (rawfmt f) in
      let sh := [34; wrap8 (1 + zlen s / 4)] ++ flat_map (fun x => enc_be 2 (uint_of 2 x)) s
                ++ repeat 0 (Z.to_nat (2 * (3 - zlen s mod 4))) in
      match payload_bytes (endian f) d with
      | Ok pb => Ok (head ++ tsb ++ fm ++ sh ++ pb)
      | Panic => Panic
      end
  end.

(* ---------- what the harness observes ---------- *)
Record pobs := { p_seq : Z; p_frames : res Z; p_len : Z; p_data : pdata }.

Record aobs := {
  a_version : Z; a_src : Z; a_seq : Z; a_len : Z;
  a_frames : res Z; a_chan : res (Z * Z);
  a_ts : option Z; a_ext : bool; a_shape : option (list Z); a_data : pdata;
  a_reads : list (Z * res Z);                (* ReadValue(i) *)
  a_pretend : list ((Z * Z) * res pobs) }.   (* MakePretendPacket(seq, n) *)

Inductive dobs := ODOk (consumed : Z) (a : aobs) | ODErr (consumed : Z) | ODPanic.

Definition observe_pretend (q : res packet) : res pobs :=
  match q with
  | Ok q => Ok {| p_seq := sequenceNumber q; p_frames := frames q; p_len := length_of q; p_data := pdat q |}
  | Panic => Panic
  end.

Definition observe_packet (p : packet) (reads : list Z) (pret : list (Z * Z)) : aobs :=
  {| a_version := version p; a_src := sourceID p; a_seq := sequenceNumber p; a_len := length_of p;
     a_frames := frames p; a_chan := channel_info p;
     a_ts := timestamp_T p; a_ext := is_external_trigger p; a_shape := shape p; a_data := pdat p;
     a_reads := map (fun i => (i, read_value p i)) reads;
     a_pretend := map (fun sn => (sn, observe_pretend (make_pretend p (fst sn) (snd sn)))) pret |}.

Definition observe_decode (bs : list Z) (reads : list Z) (pret : list (Z * Z)) : dobs :=
  match read_packet bs with
  | (DOk p, n) => ODOk n (observe_packet p reads pret)
  | (DErr, n) => ODErr n
  | (_, _) => ODPanic
  end.

(* ---------- building a packet through the public constructors ---------- *)
(* SetTimestamp keeps the caller's pointer: the caller may change ts.T of the object it handed over, and the
   packet then carries the new counter (nothing happens when the packet holds no time stamp any more) *)
Definition mut_ts (p : packet) (t : Z) : packet :=
  match timestamp p with
  | None => p
  | Some ts =>
      {| version := version p; headerLength := headerLength p; payloadLength := payloadLength p;
         sourceID := sourceID p; sequenceNumber := sequenceNumber p; packetLength := packetLength p;
         format := format p; shape := shape p; timestamp := Some {| tsT := t; tsRate := tsRate ts |};
         payloadLabel := payloadLabel p; offset := offset p; explicitOffset := explicitOffset p;
         pdat := pdat p |}
  end.

Inductive bop :=
| BSetTs (t : Z) (rid : Z)
| BResetTs
| BClear
| BNewData (d : pdata) (dims : list Z)
| BMutTs (t : Z).                 (* ts.T = t on the object last given to SetTimestamp *)
Inductive bret := BRNil | BRErr | BRPanic.

(* a history on one packet object: constructor-side calls interleaved with encodings.  Bytes() and
   MakePretendPacket do not change the packet: the model is stateless per encoding, every encoding is a
   function of the object's current fields only *)
Inductive hop :=
| HOp (o : bop)
| HEncode                         (* p.Bytes() *)
| HFiller (seq n : Z).            (* q := p.MakePretendPacket(seq, n); q.Bytes() *)

Definition bstep (p : packet) (o : bop) : res (packet * bool) :=
  match o with
  | BSetTs t rid => Ok (set_timestamp p {| tsT := t; tsRate := RateGiven rid |}, false)
  | BResetTs => Ok (reset_timestamp p, false)
  | BClear => Ok (clear_data p, false)
  | BNewData d dims => new_data p d dims
  | BMutTs t => Ok (mut_ts p t, false)
  end.

(* the calls stop at the first panic *)
Fixpoint build (p : packet) (ops : list bop) : res packet * list bret :=
  match ops with
  | [] => (Ok p, [])
  | o :: rest =>
      match bstep p o with
      | Panic => (Panic, [BRPanic])
      | Ok (p', e) => let (r, rs) := build p' rest in (r, (if e then BRErr else BRNil) :: rs)
      end
  end.
