(* C15 — evaluation of generated cases: model vs observed implementation output, and the checker. *)
From Dastard Require Import Common.ZX Common.CaseLib C15.Model C15.Spec.

Inductive item :=
| IDecode (bs : list Z) (o : dobs)
| IBuild (v src seq off : Z) (ops : list (bop * bret)) (num denom : Z) (b : res bobs).
Record case := { c_items : list item }.

Definition res_eqb {A} (eqb : A -> A -> bool) (a b : res A) : bool :=
  match a, b with
  | Ok x, Ok y => eqb x y
  | Panic, Panic => true
  | _, _ => false
  end.
Definition pair_eqb (a b : Z * Z) : bool := (fst a =? fst b) && (snd a =? snd b).
Definition pobs_eqb (a b : pobs) : bool :=
  (p_seq a =? p_seq b) && res_eqb Z.eqb (p_frames a) (p_frames b) && (p_len a =? p_len b)
  && pdata_eqb (p_data a) (p_data b).
Definition aobs_eqb (a b : aobs) : bool :=
  (a_version a =? a_version b) && (a_src a =? a_src b) && (a_seq a =? a_seq b) && (a_len a =? a_len b)
  && res_eqb Z.eqb (a_frames a) (a_frames b) && res_eqb pair_eqb (a_chan a) (a_chan b)
  && opt_eqb Z.eqb (a_ts a) (a_ts b) && Bool.eqb (a_ext a) (a_ext b)
  && opt_eqb zlist_eqb (a_shape a) (a_shape b) && pdata_eqb (a_data a) (a_data b)
  && list_eqb (fun x y => (fst x =? fst y) && res_eqb Z.eqb (snd x) (snd y)) (a_reads a) (a_reads b)
  && list_eqb (fun x y => pair_eqb (fst x) (fst y) && res_eqb pobs_eqb (snd x) (snd y))
       (a_pretend a) (a_pretend b).
Definition dobs_eqb (a b : dobs) : bool :=
  match a, b with
  | ODOk n x, ODOk m y => (n =? m) && aobs_eqb x y
  | ODErr n, ODErr m => n =? m
  | ODPanic, ODPanic => true
  | _, _ => false
  end.

(* the probes (ReadValue indices, MakePretendPacket arguments) are read off the observation *)
Definition reads_of (o : dobs) : list Z :=
  match o with ODOk _ a => map fst (a_reads a) | _ => [] end.
Definition pret_of (o : dobs) : list (Z * Z) :=
  match o with ODOk _ a => map fst (a_pretend a) | _ => [] end.

Definition bret_eqb (a b : bret) : bool :=
  match a, b with BRNil, BRNil | BRErr, BRErr | BRPanic, BRPanic => true | _, _ => false end.

(* the model's view of a construction; the decoding probes are those the harness used *)
Definition model_build (v src seq off : Z) (ops : list bop) (num denom : Z)
    (reads : list Z) (pret : list (Z * Z)) (dreads : list Z) (dpret : list (Z * Z)) : res bobs * list bret :=
  let (r, rets) := build (new_packet v src seq off) ops in
  match r with
  | Panic => (Panic, rets)
  | Ok p =>
      (* the harness cuts a Bytes() output longer than 16384 bytes (no datagram is that long) *)
      let bytes := match bytes_of num denom p with
                   | Ok bs => Ok (if zlen bs >? 16384 then zfirstn 16384 bs else bs)
                   | Panic => Panic
                   end in
      (Ok {| b_acc := observe_packet p reads pret; b_bytes := bytes;
             b_dec := match bytes with
                      | Ok bs => observe_decode bs dreads dpret
                      | Panic => ODPanic
                      end |}, rets)
  end.

Definition bobs_eqb (a b : bobs) : bool :=
  aobs_eqb (b_acc a) (b_acc b) && res_eqb zlist_eqb (b_bytes a) (b_bytes b) && dobs_eqb (b_dec a) (b_dec b).

Definition item_code (it : item) : Z :=
  match it with
  | IDecode bs o =>
      verdict_code (dobs_eqb o (observe_decode bs (reads_of o) (pret_of o))) (decode_check bs o)
  | IBuild v src seq off ops num denom b =>
      let rets := map snd ops in
      let '(reads, pret, dreads, dpret) :=
        match b with
        | Ok b => (map fst (a_reads (b_acc b)), map fst (a_pretend (b_acc b)), reads_of (b_dec b), pret_of (b_dec b))
        | Panic => ([], [], [], [])
        end in
      let '(mb, mrets) := model_build v src seq off (map fst ops) num denom reads pret dreads dpret in
      (* after a panic the harness stops issuing calls: the model's return list ends there too *)
      verdict_code (res_eqb bobs_eqb b mb && list_eqb bret_eqb rets mrets) (build_check rets b)
  end.

(* (code of the first item that is not 0, its index) *)
Fixpoint first_bad (i : Z) (l : list item) : Z * Z :=
  match l with
  | [] => (0, -1)
  | it :: r => let c := item_code it in if c =? 0 then first_bad (i + 1) r else (c, i)
  end.

Definition verdict (c : case) : Z * Z := first_bad 0 (c_items c).

(* compact constructors for generated files *)
Definition A v src seq len fr ch ts ext sh d rd pr : aobs :=
  {| a_version := v; a_src := src; a_seq := seq; a_len := len; a_frames := fr; a_chan := ch;
     a_ts := ts; a_ext := ext; a_shape := sh; a_data := d; a_reads := rd; a_pretend := pr |}.
Definition Q s f l d : pobs := {| p_seq := s; p_frames := f; p_len := l; p_data := d |}.
Definition B a bytes dec : bobs := {| b_acc := a; b_bytes := bytes; b_dec := dec |}.
Definition mk (l : list item) : case := {| c_items := l |}.
Definition P {X} : res X := Panic.
