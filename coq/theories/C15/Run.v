(* C15 — evaluation of generated cases: model vs observed implementation output, and the checker. *)
From Dastard Require Import Common.ZX Common.CaseLib C15.Model C15.Spec.

Inductive item :=
| IDecode (bs : list Z) (o : dobs)
| IBuild (v src seq off : Z) (h : list (hop * hres)).
Record case := { c_items : list item }.

Definition res_eqb {A} (eqb : A -> A -> bool) (a b : res A) : bool :=
  match a, b with
  | Ok x, Ok y => eqb x y
  | Panic, Panic => true
  | _, _ => false
  end.
Definition pair_eqb (a b : Z * Z) : bool := (fst a =? fst b) && (snd a =? snd b).
Definition pobs_eqb (a b : pobs) : bool :=
  (p_seq a =? p_seq b) && res_eqb Z.eqb (p_frames a) (p_frames b) && (p_len a =? p_len b)
  && pdata_eqb (p_data a) (p_data b).
Definition aobs_eqb (a b : aobs) : bool :=
  (a_version a =? a_version b) && (a_src a =? a_src b) && (a_seq a =? a_seq b) && (a_len a =? a_len b)
  && res_eqb Z.eqb (a_frames a) (a_frames b) && res_eqb pair_eqb (a_chan a) (a_chan b)
  && opt_eqb Z.eqb (a_ts a) (a_ts b) && Bool.eqb (a_ext a) (a_ext b)
  && opt_eqb zlist_eqb (a_shape a) (a_shape b) && pdata_eqb (a_data a) (a_data b)
  && list_eqb (fun x y => (fst x =? fst y) && res_eqb Z.eqb (snd x) (snd y)) (a_reads a) (a_reads b)
  && list_eqb (fun x y => pair_eqb (fst x) (fst y) && res_eqb pobs_eqb (snd x) (snd y))
       (a_pretend a) (a_pretend b).
Definition dobs_eqb (a b : dobs) : bool :=
  match a, b with
  | ODOk n x, ODOk m y => (n =? m) && aobs_eqb x y
  | ODErr n, ODErr m => n =? m
  | ODPanic, ODPanic => true
  | _, _ => false
  end.

(* the probes (ReadValue indices, MakePretendPacket arguments) are read off the observation *)
Definition reads_of (o : dobs) : list Z :=
  match o with ODOk _ a => map fst (a_reads a) | _ => [] end.
Definition pret_of (o : dobs) : list (Z * Z) :=
  match o with ODOk _ a => map fst (a_pretend a) | _ => [] end.

Definition bret_eqb (a b : bret) : bool :=
  match a, b with BRNil, BRNil | BRErr, BRErr | BRPanic, BRPanic => true | _, _ => false end.

(* the model's view of one encoding of packet [p]; the probes are those the harness used *)
Definition probes_of (b : res bobs) : list Z * list (Z * Z) * list Z * list (Z * Z) :=
  match b with
  | Ok b => (map fst (a_reads (b_acc b)), map fst (a_pretend (b_acc b)), reads_of (b_dec b), pret_of (b_dec b))
  | Panic => ([], [], [], [])
  end.

Definition model_enc (p : packet) (num denom : Z)
    (reads : list Z) (pret : list (Z * Z)) (dreads : list Z) (dpret : list (Z * Z)) : res bobs :=
  (* the harness cuts a Bytes() output longer than 16384 bytes (no datagram is that long) *)
  let bytes := match bytes_of num denom p with
               | Ok bs => Ok (if zlen bs >? 16384 then zfirstn 16384 bs else bs)
               | Panic => Panic
               end in
  Ok {| b_acc := observe_packet p reads pret; b_bytes := bytes;
        b_dec := match bytes with
                 | Ok bs => observe_decode bs dreads dpret
                 | Panic => ODPanic
                 end |}.

(* the model's results of a history.  [probe] gives, for the i-th step, the probes and oracle words the
   harness used there.  Encodings do not change the state: the model is stateless per encoding.
   After a panicking constructor call the harness stops issuing calls: so does the model. *)
Definition oracle_of (x : hres) : Z * Z * res bobs :=
  match x with
  | HEnc num denom b => (num, denom, b)
  | HRet _ => (0, 0, Panic)          (* malformed observation: never equal to the model's *)
  end.

Fixpoint run_hist (p : packet) (h : list (hop * hres)) : list hres :=
  match h with
  | [] => []
  | (HOp o, _) :: rest =>
      match bstep p o with
      | Panic => [HRet BRPanic]
      | Ok (p', e) => HRet (if e then BRErr else BRNil) :: run_hist p' rest
      end
  | (HEncode, x) :: rest =>
      let '(num, denom, b) := oracle_of x in
      let '(reads, pret, dreads, dpret) := probes_of b in
      HEnc num denom (model_enc p num denom reads pret dreads dpret) :: run_hist p rest
  | (HFiller s n, x) :: rest =>
      let '(num, denom, b) := oracle_of x in
      let '(reads, pret, dreads, dpret) := probes_of b in
      HEnc num denom (match make_pretend p s n with
                      | Ok q => model_enc q num denom reads pret dreads dpret
                      | Panic => Panic
                      end) :: run_hist p rest
  end.

Definition bobs_eqb (a b : bobs) : bool :=
  aobs_eqb (b_acc a) (b_acc b) && res_eqb zlist_eqb (b_bytes a) (b_bytes b) && dobs_eqb (b_dec a) (b_dec b).

Definition hres_eqb (a b : hres) : bool :=
  match a, b with
  | HRet x, HRet y => bret_eqb x y
  | HEnc n1 d1 x, HEnc n2 d2 y => (n1 =? n2) && (d1 =? d2) && res_eqb bobs_eqb x y
  | _, _ => false
  end.

Definition item_code (it : item) : Z :=
  match it with
  | IDecode bs o =>
      verdict_code (dobs_eqb o (observe_decode bs (reads_of o) (pret_of o))) (decode_check bs o)
  | IBuild v src seq off h =>
      verdict_code (list_eqb hres_eqb (map snd h) (run_hist (new_packet v src seq off) h)) (build_check h)
  end.

(* (code of the first item that is not 0, its index) *)
Fixpoint first_bad (i : Z) (l : list item) : Z * Z :=
  match l with
  | [] => (0, -1)
  | it :: r => let c := item_code it in if c =? 0 then first_bad (i + 1) r else (c, i)
  end.

Definition verdict (c : case) : Z * Z := first_bad 0 (c_items c).

(* compact constructors for generated files *)
Definition A v src seq len fr ch ts ext sh d rd pr : aobs :=
  {| a_version := v; a_src := src; a_seq := seq; a_len := len; a_frames := fr; a_chan := ch;
     a_ts := ts; a_ext := ext; a_shape := sh; a_data := d; a_reads := rd; a_pretend := pr |}.
Definition Q s f l d : pobs := {| p_seq := s; p_frames := f; p_len := l; p_data := d |}.
Definition B a bytes dec : bobs := {| b_acc := a; b_bytes := bytes; b_dec := dec |}.
Definition mk (l : list item) : case := {| c_items := l |}.
Definition P {X} : res X := Panic.
