(* C15 — property theorems only: each closed by [exact], each followed by Print Assumptions. *)
From Dastard Require Import Common.ZX C15.Model C15.Spec C15.Proofs.

(* For EVERY byte string: ReadPacket (model) never panics and never runs out of fuel; it takes no more bytes
   than it was given and no more than the header declares (the fixed 16-byte header is always read, hence
   the max with 16 when the decoder answers with an error); after a successful decode Length() is the
   declared length, the bytes taken are header + payload actually held, Frames() and ChannelInfo() return
   without panic, frames >= 0, channels >= 1, frames * channels <= number of samples held, ReadValue(i) is
   safe for every i, and MakePretendPacket(s, k) is safe for every k <> 0 and yields a packet with the same
   frame count, length and kind/amount of data.  (Timestamp() and IsExternalTrigger() are total functions
   of the model: the Go code tests for nil / compares strings, nothing can panic.) *)
Theorem decode_total_safe : forall bs, bytes_ok bs ->
  let (r, n) := read_packet bs in
  0 <= n <= zlen bs /\ n <= Z.max 16 (declared bs) /\
  match r with
  | DPanic | DFuel => False
  | DErr => True
  | DOk p =>
      n <= declared bs /\ length_of p = declared bs /\ n = znth 0 bs 1 + data_bytes (pdat p) /\
      exists f nc, frames p = Ok f /\ channel_info p = Ok (nc, offset p) /\
        0 <= f /\ 1 <= nc /\ f * nc <= data_count (pdat p) /\ 0 <= offset p < 4294967296 /\
        (forall i, exists v, read_value p i = Ok v) /\
        (forall s k, k <> 0 -> exists q, make_pretend p s k = Ok q /\ frames q = Ok f /\
                                  length_of q = length_of p /\ same_kind_count (pdat q) (pdat p) = true)
  end.
Proof. exact decode_total_safe_model. Qed.
Print Assumptions decode_total_safe.

(* The same, through the observable checker the correspondence run applies to the implementation:
   whatever ReadValue / MakePretendPacket probes are chosen, the model's observation passes. *)
Theorem decode_passes_checker : forall bs reads pret, bytes_ok bs ->
  decode_check bs (observe_decode bs reads pret) = true.
Proof. exact decode_passes_checker_model. Qed.
Print Assumptions decode_passes_checker.
