(* C15 — property theorems only: each closed by [exact], each followed by Print Assumptions. *)
From Dastard Require Import Common.ZX C15.Model C15.Spec C15.Proofs C15.RoundTrip C15.Run C15.BuildCheck C15.Refuted.

(* For EVERY byte string: ReadPacket (model) never panics and never runs out of fuel; it takes no more bytes
   than it was given and no more than the header declares (the fixed 16-byte header is always read, hence
   the max with 16 when the decoder answers with an error); after a successful decode Length() is the
   declared length, the bytes taken are header + payload actually held, Frames() and ChannelInfo() return
   without panic, frames >= 0, channels >= 1, frames * channels <= number of samples held, ReadValue(i) is
   safe for every i, and MakePretendPacket(s, k) is safe for every k <> 0 and yields a packet with the same
   frame count, length and kind/amount of data.  (Timestamp() and IsExternalTrigger() are total functions
   of the model: the Go code tests for nil / compares strings, nothing can panic.) *)
Theorem decode_total_safe : forall bs, bytes_ok bs ->
  let (r, n) := read_packet bs in
  0 <= n <= zlen bs /\ n <= Z.max 16 (declared bs) /\
  match r with
  | DPanic | DFuel => False
  | DErr => True
  | DOk p =>
      n <= declared bs /\ length_of p = declared bs /\ n = znth 0 bs 1 + data_bytes (pdat p) /\
      exists f nc, frames p = Ok f /\ channel_info p = Ok (nc, offset p) /\
        0 <= f /\ 1 <= nc /\ f * nc <= data_count (pdat p) /\ 0 <= offset p < 4294967296 /\
        (forall i, exists v, read_value p i = Ok v) /\
        (forall s k, k <> 0 -> exists q, make_pretend p s k = Ok q /\ frames q = Ok f /\
                                  length_of q = length_of p /\ same_kind_count (pdat q) (pdat p) = true)
  end.
Proof. exact decode_total_safe_model. Qed.
Print Assumptions decode_total_safe.

(* The same, through the observable checker the correspondence run applies to the implementation:
   whatever ReadValue / MakePretendPacket probes are chosen, the model's observation passes. *)
Theorem decode_passes_checker : forall bs reads pret, bytes_ok bs ->
  decode_check bs (observe_decode bs reads pret) = true.
Proof. exact decode_passes_checker_model. Qed.
Print Assumptions decode_passes_checker.

(* For EVERY sequence of constructor calls (NewPacket, then any mix of SetTimestamp, ResetTimestamp,
   ClearData, NewData, and changes of ts.T on the object last handed to SetTimestamp, with arguments of the
   Go types: [op_ok]) in which every call returned nil: Bytes()
   succeeds and decoding its output consumes exactly all of it and reproduces version, source id,
   sequence number, channel offset (as a uint32), shape, payload samples (same type and values; a packet
   built from an empty slice carries no payload bytes, so both sides hold zero samples) and the
   timestamp counter.  [num], [denom] are the two words Bytes() derives from the float rate: any values.
   The size limits are those NewData itself enforces (1..99 positive dimensions with product <= 65535,
   packet <= 8192 bytes): a call outside them returns an error and is outside the hypothesis. *)
Theorem encode_decode : forall v src seq off ops num denom r rets,
  0 <= src < 4294967296 -> 0 <= seq < 4294967296 -> Forall op_ok ops ->
  build (new_packet v src seq off) ops = (r, rets) -> Forall (fun x => x = BRNil) rets ->
  exists p bs p', r = Ok p /\ bytes_of num denom p = Ok bs /\ read_packet bs = (DOk p', zlen bs) /\
    version p' = v /\ sourceID p' = src /\ sequenceNumber p' = sequenceNumber p /\
    offset p' = wrap32 off /\ shape p' = shape p /\
    (data_count (pdat p) = 0 -> data_count (pdat p') = 0) /\
    (data_count (pdat p) <> 0 -> pdat p' = pdat p) /\
    timestamp_T p' = timestamp_T p.
Proof. exact encode_decode_model. Qed.
Print Assumptions encode_decode.

(* what the built packet of the usual call sequence holds, in terms of the arguments *)
Theorem encode_decode_fields : forall v src seq off t rid d dims p,
  build (new_packet v src seq off) [BSetTs t rid; BNewData d dims] = (Ok p, [BRNil; BRNil]) ->
  shape p = Some dims /\ pdat p = d /\ sequenceNumber p = wrap32 (seq + 1) /\ timestamp_T p = Some t.
Proof. exact build_ts_newdata_fields. Qed.
Print Assumptions encode_decode_fields.

(* the constructors never panic, whatever they are given *)
Theorem constructors_never_panic : forall ops p,
  fst (build p ops) <> Panic /\ ~ In BRPanic (snd (build p ops)).
Proof. exact build_never_panics. Qed.
Print Assumptions constructors_never_panic.

(* Histories.  The model is STATELESS PER ENCODING: Bytes() and MakePretendPacket are functions of the
   object's current fields and change nothing, and a change of the time-stamp object the caller handed to
   SetTimestamp is just another step ([BMutTs], covered by [encode_decode] since every prefix of a history is
   a call sequence).  For ANY history on one object — constructor calls, time-stamp changes, encodings at any
   point (twice in a row, after further calls), fillers made from it and encoded — the model's results pass
   the observable checker: every encoding decodes to the current fields of the encoded object. *)
Theorem build_passes_checker : forall v src seq off h,
  0 <= v < 256 -> 0 <= src < 4294967296 -> 0 <= seq < 4294967296 -> Forall hop_ok (map fst h) ->
  build_check (combine (map fst h) (run_hist (new_packet v src seq off) h)) = true.
Proof. exact build_passes_checker_model. Qed.
Print Assumptions build_passes_checker.

(* A filler packet made by MakePretendPacket(s, n), n <> 0, from any built packet round-trips as well: its
   bytes decode to ITS sequence number s and ITS payload, with the original's shape, offset and counter. *)
Theorem filler_round_trip : forall v src seq off ops num denom r rets s n,
  0 <= src < 4294967296 -> 0 <= seq < 4294967296 -> Forall op_ok ops ->
  build (new_packet v src seq off) ops = (r, rets) -> Forall (fun x => x = BRNil) rets ->
  0 <= s < 4294967296 -> n <> 0 ->
  exists p q bs q', r = Ok p /\ make_pretend p s n = Ok q /\ bytes_of num denom q = Ok bs /\
    read_packet bs = (DOk q', zlen bs) /\
    version q' = v /\ sourceID q' = src /\ sequenceNumber q' = s /\ offset q' = wrap32 off /\
    shape q' = shape p /\
    (data_count (pdat q) = 0 -> data_count (pdat q') = 0) /\
    (data_count (pdat q) <> 0 -> pdat q' = pdat q) /\
    timestamp_T q' = timestamp_T p.
Proof. exact filler_round_trip_model. Qed.
Print Assumptions filler_round_trip.

(* The code as it was before the fixes: five datagrams that decode without error and then make an
   accessor panic (nil format, nil shape, word length 0, mixed format, channel count wrapped to 0). *)
Theorem decode_total_safe_refuted_pre_fix :
  after_decode_old w_shape_no_format (fun p => is_panic (frames_old p)) = true /\
  after_decode_old w_bare_header (fun p => is_panic (channel_info_old p)) = true /\
  after_decode_old w_no_letter (fun p => is_panic (frames_old p)) = true /\
  after_decode_old w_mixed_format (fun p => is_panic (read_value_old p 0)) = true /\
  after_decode_old w_shape_overflow (fun p => is_panic (frames_old p)) = true.
Proof. exact decode_total_safe_refuted_before_fix. Qed.
Print Assumptions decode_total_safe_refuted_pre_fix.

(* The old NewData: built packets the decoder rejects (no / zero dimensions), panicked on two dimensions,
   wrapped a 65536-byte payload length to 0 without an error. *)
Theorem encode_decode_refuted_pre_fix :
  (exists p, new_data_old np six [] = Ok (p, false)) /\ old_roundtrip_ok six [] = false /\
  (exists p, new_data_old np six [0] = Ok (p, false)) /\ old_roundtrip_ok six [0] = false /\
  new_data_old np six [2; 3] = Panic /\
  (exists p, new_data_old np (D64 (repeat 5 (Z.to_nat 8192))) [4] = Ok (p, false) /\ payloadLength p = 0) /\
  old_roundtrip_ok (D64 (repeat 5 (Z.to_nat 8192))) [4] = false /\
  old_roundtrip_ok six [2] = true.
Proof. exact encode_decode_refuted_before_fix. Qed.
Print Assumptions encode_decode_refuted_pre_fix.
