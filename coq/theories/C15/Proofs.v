(* C15 — invariants, lemmas and proofs. *)
From Dastard Require Import Common.ZX C15.Model C15.Spec.
From Coq Require Import ZifyBool ZifyNat.

(* ================================================================== generic list facts *)

Lemma zlen_cons {A} (x : A) l : zlen (x :: l) = 1 + zlen l.
Proof. unfold zlen; cbn [length]; lia. Qed.

Lemma zlen_nil {A} : zlen (@nil A) = 0.
Proof. reflexivity. Qed.

Lemma zlen_zfirstn {A} (l : list A) n : 0 <= n <= zlen l -> zlen (zfirstn n l) = n.
Proof. unfold zlen, zfirstn; intros; rewrite firstn_length; lia. Qed.

Lemma zlen_zfirstn_le {A} (l : list A) n : zlen (zfirstn n l) <= zlen l.
Proof. unfold zlen, zfirstn; rewrite firstn_length; lia. Qed.

Lemma zlen_zskipn {A} (l : list A) n : 0 <= n <= zlen l -> zlen (zskipn n l) = zlen l - n.
Proof. unfold zlen, zskipn; intros; rewrite skipn_length; lia. Qed.

Lemma zlen_zslice {A} (l : list A) a n : 0 <= a -> 0 <= n -> a + n <= zlen l -> zlen (zslice l a n) = n.
Proof.
  intros. unfold zslice. rewrite zlen_zfirstn; [reflexivity|]. rewrite zlen_zskipn by lia. lia.
Qed.

Lemma zfirstn_app_exact {A} (h r : list A) n : zlen h = n -> zfirstn n (h ++ r) = h.
Proof.
  unfold zlen, zfirstn; intros E. replace (Z.to_nat n) with (length h) by lia.
  rewrite firstn_app, Nat.sub_diag, firstn_all. cbn [firstn]. apply app_nil_r.
Qed.

Lemma zskipn_app_exact {A} (h r : list A) n : zlen h = n -> zskipn n (h ++ r) = r.
Proof.
  unfold zlen, zskipn; intros E. replace (Z.to_nat n) with (length h) by lia.
  rewrite skipn_app, Nat.sub_diag, skipn_all. reflexivity.
Qed.

Lemma Forall_firstn' {A} (P : A -> Prop) n l : Forall P l -> Forall P (firstn n l).
Proof.
  revert l; induction n as [|n IH]; intros l H; cbn [firstn]; [constructor|].
  destruct l; [constructor|]. inversion H; subst. constructor; auto.
Qed.

Lemma Forall_skipn' {A} (P : A -> Prop) n l : Forall P l -> Forall P (skipn n l).
Proof.
  revert l; induction n as [|n IH]; intros l H; cbn [skipn]; [assumption|].
  destruct l; [constructor|]. inversion H; subst. auto.
Qed.

Lemma bytes_ok_zfirstn n l : bytes_ok l -> bytes_ok (zfirstn n l).
Proof. apply Forall_firstn'. Qed.
Lemma bytes_ok_zskipn n l : bytes_ok l -> bytes_ok (zskipn n l).
Proof. apply Forall_skipn'. Qed.
Lemma bytes_ok_zslice l a n : bytes_ok l -> bytes_ok (zslice l a n).
Proof. intros; unfold zslice. now apply bytes_ok_zfirstn, bytes_ok_zskipn. Qed.

Lemma znth_in_range l i : bytes_ok l -> 0 <= znth 0 l i < 256.
Proof.
  intros H. unfold znth. destruct (i <? 0); [lia|].
  destruct (Nat.lt_ge_cases (Z.to_nat i) (length l)) as [L|L].
  - pose proof (proj1 (Forall_forall _ _) H) as H'. apply H'. now apply nth_In.
  - rewrite nth_overflow by lia. lia.
Qed.

(* ================================================================== big-endian values *)

Lemma be_val_fold_range : forall l acc n,
  bytes_ok l -> 0 <= acc < n -> 0 < n ->
  0 <= fold_left (fun a b => a * 256 + b) l acc < n * 256 ^ zlen l.
Proof.
  induction l as [|b l IH]; intros acc n Hb Ha Hn.
  - cbn [fold_left]. change (zlen (@nil Z)) with 0. rewrite Z.pow_0_r. lia.
  - inversion Hb as [|? ? Hb1 Hb2]; subst. cbn [fold_left]. rewrite zlen_cons.
    rewrite Z.pow_add_r by (pose proof (zlen_nonneg l); lia).
    specialize (IH (acc * 256 + b) (n * 256) Hb2 ltac:(nia) ltac:(lia)).
    replace (n * (256 ^ 1 * 256 ^ zlen l)) with (n * 256 * 256 ^ zlen l) by (rewrite Z.pow_1_r; ring).
    exact IH.
Qed.

Lemma be_val_range l : bytes_ok l -> 0 <= be_val l < 256 ^ zlen l.
Proof.
  intros H. unfold be_val. pose proof (be_val_fold_range l 0 1 H ltac:(lia) ltac:(lia)). lia.
Qed.

Lemma be_range l i n : bytes_ok l -> 0 <= i -> 0 <= n -> i + n <= zlen l -> 0 <= be l i n < 256 ^ n.
Proof.
  intros H Hi Hn Hl. unfold be.
  pose proof (be_val_range (zslice l i n) (bytes_ok_zslice _ _ _ H)) as R.
  now rewrite zlen_zslice in R by lia.
Qed.

(* ================================================================== fixed-width arithmetic *)

Lemma wrap64s_small x : -9223372036854775808 <= x < 9223372036854775808 -> wrap64s x = x.
Proof. intros H. unfold wrap64s. rewrite Z.mod_small by lia. lia. Qed.

(* ================================================================== format strings *)

Definition kind_nb (k : kind) : Z :=
  match k with
  | KInvalid | KInt8 | KUint8 => 1
  | KInt16 | KUint16 => 2
  | KInt32 | KUint32 => 4
  | KInt64 | KUint64 => 8
  end.
Definition sum_nb (l : list kind) : Z := fold_right (fun k a => kind_nb k + a) 0 l.

Lemma sum_nb_app a b : sum_nb (a ++ b) = sum_nb a + sum_nb b.
Proof. induction a as [|k a IH]; unfold sum_nb in *; cbn [app fold_right]; lia. Qed.

Lemma sum_nb_nonneg l : 0 <= sum_nb l.
Proof. induction l as [|k l IH]; unfold sum_nb in *; cbn [fold_right]; [lia|]. destruct k; cbn [kind_nb]; lia. Qed.

Lemma letter_nb c k nb : letter c = Some (k, nb) -> nb = kind_nb k.
Proof.
  unfold letter. repeat match goal with |- context [if ?b then _ else _] => destruct b end;
    intros E; inversion E; reflexivity.
Qed.

Lemma kind_nb_le k : 1 <= kind_nb k <= 8.
Proof. destruct k; cbn [kind_nb]; lia. Qed.

Lemma parse_fmt_inv cs : forall f f',
  parse_fmt cs f = Some f' -> wordlen f = sum_nb (dtype f) ->
  wordlen f' = sum_nb (dtype f') /\ wordlen f' <= wordlen f + 8 * zlen cs.
Proof.
  induction cs as [|c cs IH]; intros f f' E Hf.
  - cbn [parse_fmt] in E. inversion E; subst. change (zlen (@nil Z)) with 0. lia.
  - cbn [parse_fmt] in E. rewrite zlen_cons. pose proof (zlen_nonneg cs).
    destruct ((c =? 0) || (c =? 32)).
    { specialize (IH _ _ E Hf). lia. }
    destruct ((c =? 33) || (c =? 62)).
    { specialize (IH _ _ E Hf). cbn [set_endian wordlen dtype] in IH. lia. }
    destruct (c =? 60).
    { specialize (IH _ _ E Hf). cbn [set_endian wordlen dtype] in IH. lia. }
    destruct (letter c) as [[k nb]|] eqn:L; [|discriminate].
    apply letter_nb in L. subst nb.
    assert (Hf' : wordlen (add_component f k (kind_nb k)) = sum_nb (dtype (add_component f k (kind_nb k)))).
    { cbn [add_component wordlen dtype]. rewrite sum_nb_app. cbn [sum_nb fold_right]. lia. }
    specialize (IH _ _ E Hf'). cbn [add_component wordlen dtype] in IH.
    pose proof (kind_nb_le k). lia.
Qed.

Definition fmt_ok (B : Z) (f : pformat) : Prop :=
  wordlen f = sum_nb (dtype f) /\ wordlen f <= 8 * B.

(* ================================================================== shape *)

Lemma shape_sizes_even : forall k raw, length raw = (2 * k)%nat ->
  exists s, shape_sizes raw = Ok s /\ Forall (fun d => 0 < d) s.
Proof.
  induction k as [|k IH]; intros raw L.
  - destruct raw; [|cbn [length] in L; lia]. exists []. split; [reflexivity|constructor].
  - destruct raw as [|a [|b r]]; cbn [length] in L; try lia.
    destruct (IH r ltac:(lia)) as [s [E F]].
    cbn [shape_sizes]. rewrite E.
    destruct (sint 2 (a * 256 + b) >? 0) eqn:G.
    + eexists; split; [reflexivity|]. constructor; [lia|assumption].
    + eexists; split; [reflexivity|assumption].
Qed.

Definition nchan_step (n s : Z) : Z := if s >? 0 then wrap64s (n * s) else n.

Lemma nchan_fold_bound : forall s acc,
  1 <= acc <= 65535 -> Forall (fun d => 0 < d) s -> prod_within acc s = true ->
  acc <= fold_left nchan_step s acc <= 65535.
Proof.
  induction s as [|d s IH]; intros acc Ha F P.
  - cbn [fold_left]. lia.
  - inversion F as [|? ? F1 F2]; subst. cbn [fold_left prod_within] in *.
    unfold MAXU16 in P. destruct (acc * d >? 65535) eqn:G; [discriminate|].
    assert (E : nchan_step acc d = acc * d).
    { unfold nchan_step. replace (d >? 0) with true by lia. apply wrap64s_small. nia. }
    rewrite E. specialize (IH (acc * d) ltac:(nia) F2 P). nia.
Qed.

Definition shape_ok (s : list Z) : Prop :=
  s <> [] /\ Forall (fun d => 0 < d) s /\ prod_within 1 s = true.

Lemma nchan_of_bound s : shape_ok s -> 1 <= nchan_of s <= 65535.
Proof.
  intros [_ [F P]]. unfold nchan_of.
  change (fun n s0 : Z => if s0 >? 0 then wrap64s (n * s0) else n) with nchan_step.
  pose proof (nchan_fold_bound s 1 ltac:(lia) F P). lia.
Qed.

(* ================================================================== one TLV *)

Definition tlv_good (B : Z) (it : tlv) : Prop :=
  match it with
  | TShape s => shape_ok s
  | TFormat f => fmt_ok B f
  | TOffset o => 0 <= o < 4294967296
  | _ => True
  end.

Lemma zslice_even_length (data : list Z) l1 :
  2 <= 8 * l1 <= zlen data ->
  length (zslice data 2 (8 * l1 - 2)) = (2 * Z.to_nat (4 * l1 - 1))%nat.
Proof.
  intros H. pose proof (zlen_zslice data 2 (8 * l1 - 2) ltac:(lia) ltac:(lia) ltac:(lia)) as E.
  unfold zlen in E. lia.
Qed.

Lemma parse_one_spec data : bytes_ok data ->
  match parse_one true data with
  | SErr => True
  | SPanic => False
  | SSkip n => 8 <= n <= zlen data
  | SItem it n => 8 <= n <= zlen data /\ tlv_good (zlen data) it
  end.
Proof.
  intros Hb. unfold parse_one.
  destruct (zlen data <? 8) eqn:L8; [exact I|].
  unfold byte_at. replace ((0 <=? 0) && (0 <? zlen data)) with true by lia.
  replace ((0 <=? 1) && (1 <? zlen data)) with true by lia.
  set (t := znth 0 data 0). set (l1 := znth 0 data 1). cbv iota beta.
  destruct (8 * l1 >? zlen data) eqn:Lr; [exact I|].
  destruct (8 * l1 <=? 0) eqn:L0; [exact I|].
  assert (Hsz : 8 <= 8 * l1 <= zlen data) by lia.
  unfold rd, sl.
  replace ((0 <=? 2) && (2 + 2 <=? zlen data)) with true by lia.
  replace ((0 <=? 4) && (4 + 4 <=? zlen data)) with true by lia.
  replace ((0 <=? 2) && (2 <? zlen data)) with true by lia.
  replace ((0 <=? 3) && (3 <? zlen data)) with true by lia.
  replace ((0 <=? 4) && (4 + 2 <=? zlen data)) with true by lia.
  replace ((0 <=? 6) && (6 + 2 <=? zlen data)) with true by lia.
  replace ((0 <=? 2) && (2 <=? 8 * l1) && (8 * l1 <=? zlen data)) with true by lia.
  cbv iota beta.
  destruct (t =? 9). { destruct (be data 2 2 =? 0); [split; [lia|exact I]|exact I]. }
  destruct (t =? 17). { split; [lia|exact I]. }
  destruct (t =? 18). { destruct (negb (8 * l1 =? 8)); [exact I|]. split; [lia|exact I]. }
  destruct (t =? 19).
  { destruct (8 * l1 <? 16) eqn:L16; [exact I|].
    replace ((0 <=? 8) && (8 + 8 <=? zlen data)) with true by lia. cbv iota beta.
    destruct (znth 0 data 2 <? 64); [split; [lia|exact I]|].
    destruct (znth 0 data 2 =? 64); [split; [lia|exact I]|exact I]. }
  destruct (t =? 33).
  { destruct (parse_fmt _ _) as [f|] eqn:PF; [|exact I].
    split; [lia|]. apply parse_fmt_inv in PF; [|reflexivity].
    cbn [fmt0 wordlen] in PF. cbn [tlv_good]. unfold fmt_ok.
    rewrite zlen_zslice in PF by lia. lia. }
  destruct (t =? 34).
  { destruct (shape_sizes_even _ _ (zslice_even_length data l1 ltac:(lia))) as [s [E F]].
    rewrite E. cbn [andb].
    destruct (negb (prod_within 1 s)) eqn:PW; [exact I|].
    destruct (zlen s =? 0) eqn:Z0; [exact I|].
    split; [lia|]. cbn [tlv_good]. unfold shape_ok. repeat split; try assumption.
    - intros ->. change (zlen (@nil Z)) with 0 in Z0. lia.
    - now destruct (prod_within 1 s). }
  destruct (t =? 35).
  { destruct (be data 2 2 =? 0); [|exact I]. split; [lia|]. cbn [tlv_good].
    pose proof (be_range data 4 4 Hb ltac:(lia) ltac:(lia) ltac:(lia)) as R.
    change (256 ^ 4) with 4294967296 in R. exact R. }
  destruct (t =? 41). { split; [lia|exact I]. }
  lia.
Qed.

(* ================================================================== the TLV loop *)

Lemma tlv_good_mono B B' it : B <= B' -> tlv_good B it -> tlv_good B' it.
Proof. intros HB. destruct it; cbn [tlv_good]; try tauto. unfold fmt_ok. lia. Qed.

Lemma parse_tlv_spec : forall fuel data, bytes_ok data -> zlen data <= Z.of_nat fuel ->
  match parse_tlv true fuel data with
  | TOk items => Forall (tlv_good (zlen data)) items
  | TErr => True
  | TPanic => False
  | TFuel => False
  end.
Proof.
  induction fuel as [|f IH]; intros data Hb Hl.
  - cbn [parse_tlv]. destruct (zlen data <=? 0) eqn:E; [constructor|lia].
  - cbn [parse_tlv]. destruct (zlen data <=? 0) eqn:E; [constructor|].
    pose proof (parse_one_spec data Hb) as S1.
    destruct (parse_one true data) as [| |n|it n]; [exact I|contradiction| |].
    + assert (L : zlen (zskipn n data) = zlen data - n) by (apply zlen_zskipn; lia).
      specialize (IH (zskipn n data) (bytes_ok_zskipn _ _ Hb) ltac:(lia)).
      destruct (parse_tlv true f (zskipn n data)); try assumption.
      eapply Forall_impl; [|exact IH]. intros a. apply tlv_good_mono. lia.
    + destruct S1 as [S1 G].
      assert (L : zlen (zskipn n data) = zlen data - n) by (apply zlen_zskipn; lia).
      specialize (IH (zskipn n data) (bytes_ok_zskipn _ _ Hb) ltac:(lia)).
      destruct (parse_tlv true f (zskipn n data)); try assumption.
      constructor; [assumption|].
      eapply Forall_impl; [|exact IH]. intros a. apply tlv_good_mono. lia.
Qed.

(* ================================================================== the decoded header *)

Record pinv (B hl pl : Z) (p : packet) : Prop := {
  pi_hl : headerLength p = hl;
  pi_pl : payloadLength p = pl;
  pi_len : packetLength p = hl + pl;
  pi_dat : pdat p = DNil;
  pi_shape : match shape p with Some s => shape_ok s | None => True end;
  pi_fmt : match format p with Some f => fmt_ok B f | None => True end;
  pi_off : 0 <= offset p < 4294967296 }.

Lemma apply_tlv_inv B hl pl p it : pinv B hl pl p -> tlv_good B it -> pinv B hl pl (apply_tlv p it).
Proof.
  intros [H1 H2 H3 H4 H5 H6 H7] G. destruct it; cbn [apply_tlv tlv_good] in *;
    try (constructor; cbn; assumption).
Qed.

Lemma fold_apply_inv B hl pl : forall items p,
  pinv B hl pl p -> Forall (tlv_good B) items -> pinv B hl pl (fold_left apply_tlv items p).
Proof.
  induction items as [|it items IH]; intros p Hp F; cbn [fold_left]; [assumption|].
  inversion F; subst. apply IH; [|assumption]. now apply apply_tlv_inv.
Qed.

(* version, source id and sequence number are those of the fixed header *)
Lemma apply_tlv_fixed p it :
  version (apply_tlv p it) = version p /\ sourceID (apply_tlv p it) = sourceID p /\
  sequenceNumber (apply_tlv p it) = sequenceNumber p.
Proof. destruct it; cbn; auto. Qed.

(* ================================================================== accessors on a decoded packet *)

(* how Data relates to format and payload length after a successful ReadPacket *)
Definition data_fits (p : packet) : Prop :=
  match pdat p with
  | DNil => format p = None \/ payloadLength p = 0
  | D16 d => exists f, format p = Some f /\ dtype f = [KInt16] /\ zlen d = payloadLength p / 2
  | D32 d => exists f, format p = Some f /\ dtype f = [KInt32] /\ zlen d = payloadLength p / 4
  | D64 d => exists f, format p = Some f /\ dtype f = [KInt64] /\ zlen d = payloadLength p / 8
  | DBytes d => exists f, format p = Some f /\ zlen d = payloadLength p
  | DOther => False
  end.

Record dinv (p : packet) : Prop := {
  di_shape : match shape p with Some s => shape_ok s | None => True end;
  di_fmt : match format p with Some f => fmt_ok 239 f | None => True end;
  di_off : 0 <= offset p < 4294967296;
  di_pl : 0 <= payloadLength p <= 65535;
  di_data : data_fits p }.

Lemma frames_div_bound w nc pl : 0 < w -> 1 <= nc -> 0 <= pl ->
  0 <= pl / (w * nc) /\ pl / (w * nc) * nc <= pl / w.
Proof.
  intros Hw Hn Hp. assert (0 < w * nc) by nia. split; [apply Z.div_pos; lia|].
  apply Z.div_le_lower_bound; [lia|].
  pose proof (Z.mul_div_le pl (w * nc) ltac:(lia)). nia.
Qed.

Lemma accessors_ok p : dinv p ->
  exists f nc, frames p = Ok f /\ channel_info p = Ok (nc, offset p) /\
    0 <= f /\ 1 <= nc /\ f * nc <= data_count (pdat p).
Proof.
  intros [Hs Hf Ho Hp Hd]. unfold frames, channel_info.
  assert (C0 : 0 <= data_count (pdat p)) by (destruct (pdat p); cbn [data_count]; try apply zlen_nonneg; lia).
  destruct (shape p) as [s|] eqn:ES.
  2:{ exists 0, 1. repeat split; try reflexivity; lia. }
  pose proof (nchan_of_bound s Hs) as Hn.
  destruct (format p) as [fm|] eqn:EF.
  2:{ exists 0, (nchan_of s). repeat split; try reflexivity; lia. }
  destruct Hf as [Hw Hwb]. pose proof (sum_nb_nonneg (dtype fm)) as Hw0.
  rewrite wrap64s_small by nia.
  destruct (wordlen fm * nchan_of s <=? 0) eqn:Z0.
  { exists 0, (nchan_of s). repeat split; try reflexivity; lia. }
  assert (Hwl : 1 <= wordlen fm) by nia.
  rewrite Z.quot_div_nonneg by lia.
  exists (payloadLength p / (wordlen fm * nchan_of s)), (nchan_of s).
  destruct (frames_div_bound (wordlen fm) (nchan_of s) (payloadLength p) ltac:(lia) ltac:(lia) ltac:(lia)) as [B1 B2].
  repeat split; try reflexivity; try lia.
  unfold data_fits in Hd. destruct (pdat p) as [|d|d|d|d|]; cbn [data_count].
  - destruct Hd as [Hd|Hd]; [congruence|]. rewrite Hd in *. rewrite Z.div_0_l in * by lia. lia.
  - destruct Hd as [f' [E1 [E2 E3]]]. assert (f' = fm) by congruence. subst f'.
    rewrite E2 in Hw. cbn in Hw. rewrite Hw in *. lia.
  - destruct Hd as [f' [E1 [E2 E3]]]. assert (f' = fm) by congruence. subst f'.
    rewrite E2 in Hw. cbn in Hw. rewrite Hw in *. lia.
  - destruct Hd as [f' [E1 [E2 E3]]]. assert (f' = fm) by congruence. subst f'.
    rewrite E2 in Hw. cbn in Hw. rewrite Hw in *. lia.
  - destruct Hd as [f' [E1 E3]]. rewrite E3.
    assert (payloadLength p / wordlen fm <= payloadLength p).
    { apply Z.div_le_upper_bound; [lia|]. nia. }
    lia.
  - contradiction.
Qed.

Lemma read_value_ok p i : dinv p -> exists v, read_value p i = Ok v.
Proof.
  intros H. destruct (accessors_ok p H) as [f [nc [Ef [_ [H0 [H1 H2]]]]]].
  unfold read_value, read_value_gen. rewrite Ef.
  destruct ((i <? 0) || (i >=? f)) eqn:R; [eauto|].
  assert (Hi : i < data_count (pdat p)) by nia.
  destruct (pdat p); cbn [data_count] in Hi; eauto;
    unfold idx; replace ((0 <=? i) && (i <? zlen d)) with true by lia; eauto.
Qed.

Lemma zrange_nat_bounds : forall n a, Forall (fun i => a <= i < a + Z.of_nat n) (zrange_nat a n).
Proof.
  induction n as [|n IH]; intros a; cbn [zrange_nat]; constructor; [lia|].
  eapply Forall_impl; [|apply IH]. cbn beta. intros; lia.
Qed.

Lemma rem_bounds i n : 0 <= i -> n <> 0 -> 0 <= Z.rem i n <= i.
Proof.
  intros Hi Hn. destruct (Z.lt_trichotomy n 0) as [L|[L|L]]; [|lia|].
  - replace n with (- (- n)) by lia. rewrite Z.rem_opp_r by lia.
    pose proof (Z.rem_bound_pos i (- n) Hi ltac:(lia)). pose proof (Z.rem_le i (- n) Hi ltac:(lia)). lia.
  - pose proof (Z.rem_bound_pos i n Hi L). pose proof (Z.rem_le i n Hi L). lia.
Qed.

Lemma pretend_vals_ok d n : n <> 0 -> forall is,
  Forall (fun i => 0 <= i < zlen d) is -> exists x, pretend_vals d n is = Ok x /\ zlen x = zlen is.
Proof.
  intros Hn. induction is as [|i is IH]; intros F.
  - exists []. split; reflexivity.
  - inversion F as [|? ? F1 F2]; subst. destruct (IH F2) as [x [E L]].
    cbn [pretend_vals]. replace (n =? 0) with false by lia.
    pose proof (rem_bounds i n ltac:(lia) Hn). unfold idx.
    replace ((0 <=? Z.rem i n) && (Z.rem i n <? zlen d)) with true by lia.
    rewrite E. eexists; split; [reflexivity|]. rewrite !zlen_cons. lia.
Qed.

Lemma zlen_zrange0 n : 0 <= n -> zlen (zrange 0 n) = n.
Proof. intros. rewrite zrange_length. lia. Qed.

Lemma make_pretend_ok p s n : n <> 0 ->
  exists q, make_pretend p s n = Ok q /\ frames q = frames p /\ length_of q = length_of p /\
            same_kind_count (pdat q) (pdat p) = true.
Proof.
  intros Hn. unfold make_pretend.
  assert (G : forall d, exists x, pretend_vals d n (zrange 0 (zlen d)) = Ok x /\ zlen x = zlen d).
  { intros d. destruct (pretend_vals_ok d n Hn (zrange 0 (zlen d))) as [x [E L]].
    - unfold zrange. pose proof (zrange_nat_bounds (Z.to_nat (zlen d)) 0) as B.
      eapply Forall_impl; [|exact B]. cbn beta. pose proof (zlen_nonneg d). intros; lia.
    - exists x. split; [assumption|]. rewrite L. apply zlen_zrange0, zlen_nonneg. }
  destruct (pdat p) as [|d|d|d|d|] eqn:ED.
  - eexists; repeat split; reflexivity.
  - destruct (G d) as [x [E L]]. rewrite E. eexists; repeat split; try reflexivity. cbn. lia.
  - destruct (G d) as [x [E L]]. rewrite E. eexists; repeat split; try reflexivity. cbn. lia.
  - destruct (G d) as [x [E L]]. rewrite E. eexists; repeat split; try reflexivity. cbn. lia.
  - eexists; repeat split; try reflexivity. cbn. lia.
  - eexists; repeat split; reflexivity.
Qed.

(* ================================================================== ReadPacket *)

Lemma znth_zfirstn {A} (d : A) l n i : 0 <= i < n -> znth d (zfirstn n l) i = znth d l i.
Proof.
  intros H. unfold znth, zfirstn. destruct (i <? 0); [reflexivity|].
  apply nth_firstn_lt. lia.
Qed.

Lemma be_two l i : 0 <= i -> i + 2 <= zlen l -> be l i 2 = znth 0 l i * 256 + znth 0 l (i + 1).
Proof.
  intros Hi Hl. unfold be. rewrite (zslice_as_map 0) by lia.
  unfold zrange. change (Z.to_nat 2) with 2%nat. cbn [zrange_nat map]. unfold be_val. cbn [fold_left]. lia.
Qed.

Lemma take_vals_length : forall cnt w big l, length (take_vals cnt w big l) = cnt.
Proof. induction cnt; intros; cbn [take_vals length]; [reflexivity|]. now rewrite IHcnt. Qed.

Lemma kind_width_cases k w : kind_width k = Some w ->
  (k = KInt16 /\ w = 2) \/ (k = KInt32 /\ w = 4) \/ (k = KInt64 /\ w = 8).
Proof. destruct k; cbn; intros E; inversion E; auto. Qed.

(* everything the property says about the decoder, on the model *)
Definition decode_facts (bs : list Z) (r : dres) (n : Z) : Prop :=
  0 <= n <= zlen bs /\ n <= Z.max 16 (declared bs) /\
  match r with
  | DPanic | DFuel => False
  | DErr => True
  | DOk p =>
      n <= declared bs /\ dinv p /\ length_of p = declared bs /\
      n = znth 0 bs 1 + data_bytes (pdat p)
  end.

Lemma facts_ok bs p n :
  0 <= n <= zlen bs -> n <= declared bs -> dinv p -> length_of p = declared bs ->
  n = znth 0 bs 1 + data_bytes (pdat p) -> decode_facts bs (DOk p) n.
Proof. intros. unfold decode_facts. split; [assumption|]. split; [lia|]. auto. Qed.

Lemma read_packet_facts bs : bytes_ok bs -> decode_facts bs (fst (read_packet bs)) (snd (read_packet bs)).
Proof.
  intros Hb. unfold read_packet, read_packet_gen, read_payload, decode_facts.
  pose proof (zlen_nonneg bs) as Hn0.
  destruct (zlen bs <? 16) eqn:L16.
  { cbn [fst snd]. repeat split; lia. }
  set (hdr := zfirstn 16 bs).
  assert (Hhl : znth 0 hdr 1 = znth 0 bs 1) by (apply znth_zfirstn; lia).
  assert (Hlh : zlen hdr = 16) by (apply zlen_zfirstn; lia).
  assert (Hpl : be hdr 2 2 = znth 0 bs 2 * 256 + znth 0 bs 3).
  { rewrite be_two by lia. unfold hdr. rewrite !znth_zfirstn by lia. reflexivity. }
  pose proof (znth_in_range bs 1 Hb) as R1. pose proof (znth_in_range bs 2 Hb) as R2.
  pose proof (znth_in_range bs 3 Hb) as R3.
  assert (Hdecl : declared bs = znth 0 hdr 1 + be hdr 2 2) by (unfold declared; lia).
  set (hl := znth 0 hdr 1) in *. set (pl := be hdr 2 2) in *.
  destruct (hl <? 16) eqn:Lh. { cbn [fst snd]. repeat split; lia. }
  destruct (negb (be hdr 4 4 =? MAGIC)). { cbn [fst snd]. repeat split; lia. }
  set (rest := zskipn 16 bs).
  assert (Hrest : zlen rest = zlen bs - 16) by (apply zlen_zskipn; lia).
  destruct (zlen rest <? hl - 16) eqn:Lt. { cbn [fst snd]. repeat split; lia. }
  set (tlvdata := zfirstn (hl - 16) rest).
  assert (Htl : zlen tlvdata = hl - 16) by (apply zlen_zfirstn; lia).
  assert (Htb : bytes_ok tlvdata) by (apply bytes_ok_zfirstn, bytes_ok_zskipn, Hb).
  pose proof (parse_tlv_spec (length tlvdata) tlvdata Htb ltac:(unfold zlen; lia)) as PS.
  destruct (parse_tlv true (length tlvdata) tlvdata) as [items| | |];
    [|cbn [fst snd]; repeat split; lia|contradiction|contradiction].
  assert (PI : pinv 239 hl pl (fold_left apply_tlv items (p0_of hdr hl pl))).
  { apply fold_apply_inv.
    - constructor; cbn; auto; lia.
    - eapply Forall_impl; [|exact PS]. intros a. apply tlv_good_mono. lia. }
  set (p := fold_left apply_tlv items (p0_of hdr hl pl)) in *.
  destruct PI as [I1 I2 I3 I4 I5 I6 I7].
  set (body := zskipn (hl - 16) rest).
  assert (Hbody : zlen body = zlen bs - hl) by (unfold body; rewrite zlen_zskipn; lia).
  assert (BASE : dinv p -> decode_facts bs (DOk p) hl).
  { intros D. apply facts_ok; try assumption; try lia.
    - unfold length_of. lia.
    - rewrite I4. cbn [data_bytes]. lia. }
  assert (D0 : (format p = None \/ pl = 0) -> dinv p).
  { intros C. constructor; try assumption; try lia.
    - unfold data_fits. rewrite I4, I2. exact C. }
  destruct (format p) as [f|] eqn:EF.
  2:{ cbn [fst snd]. apply BASE, D0. now left. }
  destruct (pl >? 0) eqn:Lp.
  2:{ cbn [fst snd]. apply BASE, D0. right; lia. }
  assert (DINV : forall d, data_fits (set_data p d) -> dinv (set_data p d)).
  { intros d F. constructor; cbn [set_data shape format offset payloadLength]; try assumption; try lia.
    rewrite EF. assumption. }
  destruct (dtype f) as [|k [|k2 ks]] eqn:ED.
  - (* no type letter: bytes *)
    destruct (zlen body <? pl) eqn:Lb. { cbn [fst snd]. repeat split; lia. }
    cbn [fst snd].
    assert (Lz : zlen (zfirstn pl body) = pl) by (apply zlen_zfirstn; lia).
    apply facts_ok; try lia.
    + apply DINV. unfold data_fits. cbn [set_data pdat format payloadLength]. exists f. rewrite I2. auto.
    + unfold length_of. cbn [set_data packetLength]. lia.
    + cbn [set_data pdat data_bytes]. lia.
  - (* one type letter *)
    destruct (kind_width k) as [w|] eqn:EK. 2:{ cbn [fst snd]. repeat split; lia. }
    destruct (kind_width_cases k w EK) as [[Ek Ew]|[[Ek Ew]|[Ek Ew]]]; subst k w;
      (destruct (zlen body <? _) eqn:Lb; [cbn [fst snd]; repeat split; lia|]);
      cbn [fst snd];
      match goal with |- context [take_vals ?c ?w ?b ?l] =>
        assert (Lz : zlen (take_vals c w b l) = pl / w)
          by (unfold zlen; rewrite take_vals_length; pose proof (Z.div_pos pl w); lia)
      end;
      pose proof (Z.mul_div_le pl 2 ltac:(lia)); pose proof (Z.mul_div_le pl 4 ltac:(lia));
      pose proof (Z.mul_div_le pl 8 ltac:(lia));
      pose proof (Z.div_pos pl 2 ltac:(lia) ltac:(lia)); pose proof (Z.div_pos pl 4 ltac:(lia) ltac:(lia));
      pose proof (Z.div_pos pl 8 ltac:(lia) ltac:(lia));
      (apply facts_ok; try lia;
       [ apply DINV; unfold data_fits; cbn [set_data pdat format payloadLength mk_data Z.eqb Pos.eqb];
         exists f; rewrite I2; auto
       | unfold length_of; cbn [set_data packetLength]; lia
       | cbn [set_data pdat data_bytes mk_data Z.eqb Pos.eqb]; lia ]).
  - (* several type letters: bytes *)
    destruct (zlen body <? pl) eqn:Lb. { cbn [fst snd]. repeat split; lia. }
    cbn [fst snd].
    assert (Lz : zlen (zfirstn pl body) = pl) by (apply zlen_zfirstn; lia).
    apply facts_ok; try lia.
    + apply DINV. unfold data_fits. cbn [set_data pdat format payloadLength]. exists f. rewrite I2. auto.
    + unfold length_of. cbn [set_data packetLength]. lia.
    + cbn [set_data pdat data_bytes]. lia.
Qed.

(* ================================================================== decode_total_safe *)

Lemma decode_total_safe_model : forall bs, bytes_ok bs ->
  let (r, n) := read_packet bs in
  0 <= n <= zlen bs /\ n <= Z.max 16 (declared bs) /\
  match r with
  | DPanic | DFuel => False
  | DErr => True
  | DOk p =>
      n <= declared bs /\ length_of p = declared bs /\ n = znth 0 bs 1 + data_bytes (pdat p) /\
      exists f nc, frames p = Ok f /\ channel_info p = Ok (nc, offset p) /\
        0 <= f /\ 1 <= nc /\ f * nc <= data_count (pdat p) /\ 0 <= offset p < 4294967296 /\
        (forall i, exists v, read_value p i = Ok v) /\
        (forall s k, k <> 0 -> exists q, make_pretend p s k = Ok q /\ frames q = Ok f /\
                                  length_of q = length_of p /\ same_kind_count (pdat q) (pdat p) = true)
  end.
Proof.
  intros bs Hb. pose proof (read_packet_facts bs Hb) as F.
  destruct (read_packet bs) as [r n]. cbn [fst snd] in F. destruct F as [F1 [F2 F3]].
  split; [assumption|]. split; [assumption|].
  destruct r as [p| | |]; try assumption.
  destruct F3 as [G1 [G2 [G3 G4]]].
  split; [assumption|]. split; [assumption|]. split; [assumption|].
  destruct (accessors_ok p G2) as [f [nc [Ef [Ec [H0 [H1 H2]]]]]].
  exists f, nc. repeat split; try assumption; try apply (di_off p G2).
  - intros i. now apply read_value_ok.
  - intros s k Hk. destruct (make_pretend_ok p s k Hk) as [q [E1 [E2 [E3 E4]]]].
    exists q. repeat split; try assumption. congruence.
Qed.

Lemma forallb_map {A B} (f : B -> bool) (g : A -> B) l : forallb f (map g l) = forallb (fun x => f (g x)) l.
Proof. induction l; cbn [map forallb]; [reflexivity|]. now rewrite IHl. Qed.

Lemma forallb_true {A} (f : A -> bool) l : (forall x, f x = true) -> forallb f l = true.
Proof. intros H. induction l; cbn [forallb]; [reflexivity|]. now rewrite H, IHl. Qed.

Lemma decode_passes_checker_model : forall bs reads pret, bytes_ok bs ->
  decode_check bs (observe_decode bs reads pret) = true.
Proof.
  intros bs reads pret Hb. pose proof (decode_total_safe_model bs Hb) as F.
  unfold observe_decode. destruct (read_packet bs) as [r n].
  destruct F as [F1 [F2 F3]].
  destruct r as [p| | |]; try contradiction.
  2:{ cbn [decode_check]. lia. }
  destruct F3 as [G1 [G2 [G3 [f [nc [Ef [Ec [H0 [H1 [H2 [Ho [Hr Hp]]]]]]]]]]]].
  cbn [decode_check observe_packet a_len a_data a_frames a_chan a_reads a_pretend].
  rewrite Ef, Ec.
  replace (0 <=? n) with true by lia. replace (n <=? zlen bs) with true by lia.
  replace (n <=? declared bs) with true by lia.
  replace (length_of p =? declared bs) with true by lia.
  replace (n =? znth 0 bs 1 + data_bytes (pdat p)) with true by lia.
  replace (0 <=? f) with true by lia. replace (1 <=? nc) with true by lia.
  replace (f * nc <=? data_count (pdat p)) with true by lia.
  replace (0 <=? offset p) with true by lia. replace (offset p <? 4294967296) with true by lia.
  cbn [andb]. rewrite !forallb_map.
  rewrite forallb_true.
  2:{ intros i. cbn [snd]. destruct (Hr i) as [v E]. now rewrite E. }
  cbn [andb]. apply forallb_true. intros [s k]. unfold pretend_ok. cbn [fst snd].
  destruct (k =? 0) eqn:K; [reflexivity|].
  destruct (Hp s k ltac:(lia)) as [q [E1 [E2 [E3 E4]]]].
  rewrite E1. cbn [observe_pretend p_frames p_len p_data observe_packet a_len a_data]. rewrite E2.
  replace (f =? f) with true by lia. replace (length_of q =? length_of p) with true by lia.
  now rewrite E4.
Qed.
