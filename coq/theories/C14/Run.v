(* C14 — evaluation of generated cases: the frames observed on the implementation against the model's
   frames, and the property checker on the observed frames. *)
From Dastard Require Import Common.ZX Common.CaseLib C14.Model C14.Spec.

(* one record with the two messages observed for it *)
Record item := {
  c_rec : record;                    (* the record handed to messageRecords / messageSummaries *)
  c_recmsg : list (list Z);          (* frames returned by messageRecords *)
  c_summsg : list (list Z)           (* frames returned by messageSummaries *)
}.

(* A case is a BATCH: the harness builds the messages of all its records first, keeps the returned frames
   as they are (no copy), and reads them only after the last message has been built - as a publisher
   goroutine holds a built message while the other port's goroutine builds its own.  The requirement is
   per message ([Spec.C14_check_batch]): every held message must still decode to its own record. *)
Record case := {
  c_items : list item;
  c_stray : list (list (list Z))     (* messages received on the ports that belong to no published record
                                        (end-to-end cases that keep listening after their last record) *)
}.

Definition msg_eqb (a b : list (list Z)) : bool := list_eqb zlist_eqb a b.

Definition triples (l : list item) : list (record * list (list Z) * list (list Z)) :=
  map (fun it => (c_rec it, c_recmsg it, c_summsg it)) l.

(* index of the first message that differs from the model's: 2*i for the record message of record i,
   2*i+1 for its summary message; -1 when all agree *)
Fixpoint first_diff (i : Z) (l : list item) : Z :=
  match l with
  | [] => -1
  | it :: rest =>
      if negb (msg_eqb (c_recmsg it) (record_msg (c_rec it))) then 2 * i
      else if negb (msg_eqb (c_summsg it) (summary_msg (c_rec it))) then 2 * i + 1
      else first_diff (i + 1) rest
  end.

(* (code, first differing message; -2 = a message of no published record).  The model publishes one record
   message and one summary message per record and nothing else.  Records outside the property's domain
   ([fits_b] false: channel or presample count that does not fit its header field) are compared with the
   mirror only; the property says nothing about them (and by checker_characterisation no message would be
   accepted for them). *)
Definition verdict (c : case) : Z * Z :=
  let d := first_diff 0 (c_items c) in
  let nostray := match c_stray c with [] => true | _ => false end in
  let chk := C14_check_port (filter (fun t => fits_b (fst (fst t))) (triples (c_items c))) (c_stray c) in
  (verdict_code ((d =? -1) && nostray) chk, if d =? -1 then (if nostray then -1 else -2) else d).

(* compact constructors for generated files *)
Definition ramp (a b n : Z) : list Z := map (fun i => (a + b * i) mod 65536) (zrange 0 n).

(* A long observed frame is written in pieces (Coq's parser cannot take very long list literals), and its
   bytes as the constants b00 .. bff below instead of decimal numerals (Coq reads numerals slowly).  This is
   only the notation in which the harness writes down the bytes it observed. *)
Definition cat (chunks : list (list Z)) : list Z := concat chunks.
(* [rep k chunk] = k copies of a chunk (the harness writes consecutive identical chunks once) *)
Definition rep (k : Z) (chunk : list Z) : list (list Z) := repeat chunk (Z.to_nat k).
Definition catr (runs : list (list (list Z))) : list Z := concat (concat runs).
Definition b00 := 0. Definition b01 := 1. Definition b02 := 2. Definition b03 := 3. Definition b04 := 4. Definition b05 := 5. Definition b06 := 6. Definition b07 := 7. Definition b08 := 8. Definition b09 := 9. Definition b0a := 10. Definition b0b := 11. Definition b0c := 12. Definition b0d := 13. Definition b0e := 14. Definition b0f := 15.
Definition b10 := 16. Definition b11 := 17. Definition b12 := 18. Definition b13 := 19. Definition b14 := 20. Definition b15 := 21. Definition b16 := 22. Definition b17 := 23. Definition b18 := 24. Definition b19 := 25. Definition b1a := 26. Definition b1b := 27. Definition b1c := 28. Definition b1d := 29. Definition b1e := 30. Definition b1f := 31.
Definition b20 := 32. Definition b21 := 33. Definition b22 := 34. Definition b23 := 35. Definition b24 := 36. Definition b25 := 37. Definition b26 := 38. Definition b27 := 39. Definition b28 := 40. Definition b29 := 41. Definition b2a := 42. Definition b2b := 43. Definition b2c := 44. Definition b2d := 45. Definition b2e := 46. Definition b2f := 47.
Definition b30 := 48. Definition b31 := 49. Definition b32 := 50. Definition b33 := 51. Definition b34 := 52. Definition b35 := 53. Definition b36 := 54. Definition b37 := 55. Definition b38 := 56. Definition b39 := 57. Definition b3a := 58. Definition b3b := 59. Definition b3c := 60. Definition b3d := 61. Definition b3e := 62. Definition b3f := 63.
Definition b40 := 64. Definition b41 := 65. Definition b42 := 66. Definition b43 := 67. Definition b44 := 68. Definition b45 := 69. Definition b46 := 70. Definition b47 := 71. Definition b48 := 72. Definition b49 := 73. Definition b4a := 74. Definition b4b := 75. Definition b4c := 76. Definition b4d := 77. Definition b4e := 78. Definition b4f := 79.
Definition b50 := 80. Definition b51 := 81. Definition b52 := 82. Definition b53 := 83. Definition b54 := 84. Definition b55 := 85. Definition b56 := 86. Definition b57 := 87. Definition b58 := 88. Definition b59 := 89. Definition b5a := 90. Definition b5b := 91. Definition b5c := 92. Definition b5d := 93. Definition b5e := 94. Definition b5f := 95.
Definition b60 := 96. Definition b61 := 97. Definition b62 := 98. Definition b63 := 99. Definition b64 := 100. Definition b65 := 101. Definition b66 := 102. Definition b67 := 103. Definition b68 := 104. Definition b69 := 105. Definition b6a := 106. Definition b6b := 107. Definition b6c := 108. Definition b6d := 109. Definition b6e := 110. Definition b6f := 111.
Definition b70 := 112. Definition b71 := 113. Definition b72 := 114. Definition b73 := 115. Definition b74 := 116. Definition b75 := 117. Definition b76 := 118. Definition b77 := 119. Definition b78 := 120. Definition b79 := 121. Definition b7a := 122. Definition b7b := 123. Definition b7c := 124. Definition b7d := 125. Definition b7e := 126. Definition b7f := 127.
Definition b80 := 128. Definition b81 := 129. Definition b82 := 130. Definition b83 := 131. Definition b84 := 132. Definition b85 := 133. Definition b86 := 134. Definition b87 := 135. Definition b88 := 136. Definition b89 := 137. Definition b8a := 138. Definition b8b := 139. Definition b8c := 140. Definition b8d := 141. Definition b8e := 142. Definition b8f := 143.
Definition b90 := 144. Definition b91 := 145. Definition b92 := 146. Definition b93 := 147. Definition b94 := 148. Definition b95 := 149. Definition b96 := 150. Definition b97 := 151. Definition b98 := 152. Definition b99 := 153. Definition b9a := 154. Definition b9b := 155. Definition b9c := 156. Definition b9d := 157. Definition b9e := 158. Definition b9f := 159.
Definition ba0 := 160. Definition ba1 := 161. Definition ba2 := 162. Definition ba3 := 163. Definition ba4 := 164. Definition ba5 := 165. Definition ba6 := 166. Definition ba7 := 167. Definition ba8 := 168. Definition ba9 := 169. Definition baa := 170. Definition bab := 171. Definition bac := 172. Definition bad := 173. Definition bae := 174. Definition baf := 175.
Definition bb0 := 176. Definition bb1 := 177. Definition bb2 := 178. Definition bb3 := 179. Definition bb4 := 180. Definition bb5 := 181. Definition bb6 := 182. Definition bb7 := 183. Definition bb8 := 184. Definition bb9 := 185. Definition bba := 186. Definition bbb := 187. Definition bbc := 188. Definition bbd := 189. Definition bbe := 190. Definition bbf := 191.
Definition bc0 := 192. Definition bc1 := 193. Definition bc2 := 194. Definition bc3 := 195. Definition bc4 := 196. Definition bc5 := 197. Definition bc6 := 198. Definition bc7 := 199. Definition bc8 := 200. Definition bc9 := 201. Definition bca := 202. Definition bcb := 203. Definition bcc := 204. Definition bcd := 205. Definition bce := 206. Definition bcf := 207.
Definition bd0 := 208. Definition bd1 := 209. Definition bd2 := 210. Definition bd3 := 211. Definition bd4 := 212. Definition bd5 := 213. Definition bd6 := 214. Definition bd7 := 215. Definition bd8 := 216. Definition bd9 := 217. Definition bda := 218. Definition bdb := 219. Definition bdc := 220. Definition bdd := 221. Definition bde := 222. Definition bdf := 223.
Definition be0 := 224. Definition be1 := 225. Definition be2 := 226. Definition be3 := 227. Definition be4 := 228. Definition be5 := 229. Definition be6 := 230. Definition be7 := 231. Definition be8 := 232. Definition be9 := 233. Definition bea := 234. Definition beb := 235. Definition bec := 236. Definition bed := 237. Definition bee := 238. Definition bef := 239.
Definition bf0 := 240. Definition bf1 := 241. Definition bf2 := 242. Definition bf3 := 243. Definition bf4 := 244. Definition bf5 := 245. Definition bf6 := 246. Definition bf7 := 247. Definition bf8 := 248. Definition bf9 := 249. Definition bfa := 250. Definition bfb := 251. Definition bfc := 252. Definition bfd := 253. Definition bfe := 254. Definition bff := 255.

Definition mk (chan : Z) (signed : bool) (pre : Z) (data : list Z) (period vpa time frame : Z)
              (ptmean peak rms avg resid : Z) (coefs : list Z)
              (recmsg summsg : list (list Z)) : item :=
  {| c_rec := {| r_chan := chan; r_signed := signed; r_pre := pre; r_data := data;
                 r_period := period; r_vpa := vpa; r_time := time; r_frame := frame;
                 r_ptmean := ptmean; r_peak := peak; r_rms := rms; r_avg := avg; r_resid := resid;
                 r_coefs := coefs |};
     c_recmsg := recmsg; c_summsg := summsg |}.
Definition mkc (items : list item) (stray : list (list (list Z))) : case :=
  {| c_items := items; c_stray := stray |}.
