(* C14 — evaluation of generated cases: the frames observed on the implementation against the model's
   frames, and the property checker on the observed frames. *)
From Dastard Require Import Common.ZX Common.CaseLib C14.Model C14.Spec.

Record case := {
  c_rec : record;                    (* the record handed to messageRecords / messageSummaries *)
  c_recmsg : list (list Z);          (* frames returned by messageRecords *)
  c_summsg : list (list Z)           (* frames returned by messageSummaries *)
}.

Definition msg_eqb (a b : list (list Z)) : bool := list_eqb zlist_eqb a b.

(* (code, first differing message: 0 = record message, 1 = summary message, -1 = none).
   Records outside the property's domain ([fits_b] false: channel or presample count that does not fit
   its header field) are compared with the mirror only; the property says nothing about them. *)
Definition verdict (c : case) : Z * Z :=
  let r := c_rec c in
  let a0 := msg_eqb (c_recmsg c) (record_msg r) in
  let a1 := msg_eqb (c_summsg c) (summary_msg r) in
  let chk := if fits_b r then C14_check r (c_recmsg c) (c_summsg c) else true in
  (verdict_code (a0 && a1) chk, if negb a0 then 0 else if negb a1 then 1 else -1).

(* compact constructors for generated files *)
Definition ramp (a b n : Z) : list Z := map (fun i => (a + b * i) mod 65536) (zrange 0 n).

(* a long observed frame is written in pieces (Coq's parser cannot take very long list literals) *)
Definition cat (chunks : list (list Z)) : list Z := concat chunks.

Definition mk (chan : Z) (signed : bool) (pre : Z) (data : list Z) (period vpa time frame : Z)
              (ptmean peak rms avg resid : Z) (coefs : list Z)
              (recmsg summsg : list (list Z)) : case :=
  {| c_rec := {| r_chan := chan; r_signed := signed; r_pre := pre; r_data := data;
                 r_period := period; r_vpa := vpa; r_time := time; r_frame := frame;
                 r_ptmean := ptmean; r_peak := peak; r_rms := rms; r_avg := avg; r_resid := resid;
                 r_coefs := coefs |};
     c_recmsg := recmsg; c_summsg := summsg |}.
