(* C14 — lemmas and proofs. *)
From Coq Require Import ZifyBool ZifyNat.
From Dastard Require Import Common.ZX C14.Model C14.Spec.

(* ---------- little-endian encode / decode, every width ---------- *)

Lemma le_length k : forall n, length (le k n) = k.
Proof. induction k as [|k IH]; intro n; cbn [le length]; [reflexivity | now rewrite IH]. Qed.

Lemma zlen_le k n : zlen (le k n) = Z.of_nat k.
Proof. unfold zlen. now rewrite le_length. Qed.

Lemma pow256 k : 2 ^ (8 * Z.of_nat (S k)) = 256 * 2 ^ (8 * Z.of_nat k).
Proof.
  replace (8 * Z.of_nat (S k)) with (8 + 8 * Z.of_nat k) by lia.
  rewrite Z.pow_add_r by lia. reflexivity.
Qed.

Lemma pow8k_pos k : 0 < 2 ^ (8 * Z.of_nat k).
Proof. apply Z.pow_pos_nonneg; lia. Qed.

(* decoding what [le k] wrote gives the low 8k bits of n, for EVERY integer n *)
Lemma unle_le_mod k : forall n, unle (le k n) = n mod 2 ^ (8 * Z.of_nat k).
Proof.
  induction k as [|k IH]; intro n.
  - cbn [le unle]. change (2 ^ (8 * Z.of_nat 0)) with 1. now rewrite Z.mod_1_r.
  - cbn [le unle]. rewrite IH, pow256.
    pose proof (pow8k_pos k) as Hp.
    rewrite Z.rem_mul_r by lia. reflexivity.
Qed.

(* the generic round trip: for every width k, every value that fits k bytes *)
Lemma unle_le k n : 0 <= n < 2 ^ (8 * Z.of_nat k) -> unle (le k n) = n.
Proof. intro H. rewrite unle_le_mod. now apply Z.mod_small. Qed.

Lemma le_is_bytes k : forall n, Forall (fun b => 0 <= b < 256) (le k n).
Proof.
  induction k as [|k IH]; intro n; cbn [le]; constructor; [|apply IH].
  apply Z.mod_pos_bound; lia.
Qed.

Lemma bytes_ok_iff bs : bytes_ok bs = true <-> Forall (fun b => 0 <= b < 256) bs.
Proof.
  unfold bytes_ok. rewrite forallb_forall, Forall_forall.
  split; intros H b Hb; specialize (H b Hb); unfold is_byte in *; lia.
Qed.

Lemma le_bytes_ok k n : bytes_ok (le k n) = true.
Proof. apply bytes_ok_iff, le_is_bytes. Qed.

Lemma bytes_ok_app a b : bytes_ok (a ++ b) = bytes_ok a && bytes_ok b.
Proof. unfold bytes_ok. apply forallb_app. Qed.

Lemma unle_bound bs : Forall (fun b => 0 <= b < 256) bs -> 0 <= unle bs < 2 ^ (8 * zlen bs).
Proof.
  induction 1 as [|b bs Hb _ IH].
  - cbn. lia.
  - cbn [unle]. unfold zlen in *. cbn [length]. rewrite pow256. lia.
Qed.

(* the converse round trip: re-encoding a decoded byte string gives it back *)
Lemma le_unle bs : Forall (fun b => 0 <= b < 256) bs -> le (length bs) (unle bs) = bs.
Proof.
  induction 1 as [|b bs Hb _ IH]; [reflexivity|].
  cbn [length le unle]. f_equal.
  - replace (b + 256 * unle bs) with (b + unle bs * 256) by lia.
    rewrite Z.mod_add by lia. now apply Z.mod_small.
  - replace (b + 256 * unle bs) with (b + unle bs * 256) by lia.
    rewrite Z.div_add by lia. rewrite Z.div_small by lia. now rewrite Z.add_0_l.
Qed.

(* [le k] only looks at n modulo 2^(8k) *)
Lemma le_mod k : forall n, le k (n mod 2 ^ (8 * Z.of_nat k)) = le k n.
Proof.
  induction k as [|k IH]; intro n; [reflexivity|].
  cbn [le]. pose proof (pow8k_pos k) as Hp. rewrite pow256.
  rewrite Z.rem_mul_r by lia. f_equal.
  - replace (n mod 256 + 256 * ((n / 256) mod 2 ^ (8 * Z.of_nat k)))
      with (n mod 256 + (n / 256) mod 2 ^ (8 * Z.of_nat k) * 256) by lia.
    rewrite Z.mod_add by lia. apply Z.mod_mod; lia.
  - replace (n mod 256 + 256 * ((n / 256) mod 2 ^ (8 * Z.of_nat k)))
      with (n mod 256 + (n / 256) mod 2 ^ (8 * Z.of_nat k) * 256) by lia.
    rewrite Z.div_add by lia.
    rewrite Z.div_small by (apply Z.mod_pos_bound; lia). rewrite Z.add_0_l. apply IH.
Qed.

(* ---------- two's complement ---------- *)

Lemma twos_mod bits n : 0 < bits -> - 2 ^ (bits - 1) <= n < 2 ^ (bits - 1) ->
  twos bits (n mod 2 ^ bits) = n.
Proof.
  intros Hb Hn. unfold twos.
  assert (Hp : 2 ^ bits = 2 * 2 ^ (bits - 1)).
  { replace bits with (1 + (bits - 1)) at 1 by lia. rewrite Z.pow_add_r by lia. reflexivity. }
  assert (0 < 2 ^ (bits - 1)) by (apply Z.pow_pos_nonneg; lia).
  destruct (Z_lt_dec n 0) as [Hneg|Hpos].
  - assert (E : n mod 2 ^ bits = n + 2 ^ bits).
    { symmetry. apply Z.mod_unique with (q := -1); lia. }
    rewrite E. destruct (n + 2 ^ bits <? 2 ^ (bits - 1)) eqn:C; lia.
  - rewrite Z.mod_small by lia. destruct (n <? 2 ^ (bits - 1)) eqn:C; lia.
Qed.

Lemma twos_range bits u : 0 < bits -> 0 <= u < 2 ^ bits ->
  - 2 ^ (bits - 1) <= twos bits u < 2 ^ (bits - 1) /\ twos bits u mod 2 ^ bits = u.
Proof.
  intros Hb Hu. unfold twos.
  assert (Hp : 2 ^ bits = 2 * 2 ^ (bits - 1)).
  { replace bits with (1 + (bits - 1)) at 1 by lia. rewrite Z.pow_add_r by lia. reflexivity. }
  destruct (u <? 2 ^ (bits - 1)) eqn:C.
  - split; [lia|]. apply Z.mod_small; lia.
  - split; [lia|]. symmetry. apply Z.mod_unique with (q := -1); lia.
Qed.

(* signed 64-bit round trip (trigger time, frame index) *)
Lemma int64_roundtrip n : - 2 ^ 63 <= n < 2 ^ 63 -> twos 64 (unle (le 8 n)) = n.
Proof.
  intro H. rewrite unle_le_mod. change (8 * Z.of_nat 8) with 64.
  apply twos_mod; [lia|]. change (64 - 1) with 63. exact H.
Qed.

(* ---------- slices of concatenations: how a field is found at its documented offset ---------- *)

Lemma skipn_app_plus {A} (a b : list A) n : skipn (length a + n) (a ++ b) = skipn n b.
Proof. induction a as [|x a IH]; [reflexivity | exact IH]. Qed.

Lemma zslice_app_skip {A} (a b : list A) off off' len :
  off' = off - zlen a -> 0 <= off' ->
  zslice (a ++ b) off len = zslice b off' len.
Proof.
  intros -> H. unfold zslice, zskipn, zlen in *. f_equal.
  replace (Z.to_nat off) with (length a + Z.to_nat (off - Z.of_nat (length a)))%nat by lia.
  apply skipn_app_plus.
Qed.

Lemma zslice_app_take {A} (a b : list A) off len :
  off = 0 -> zlen a = len -> zslice (a ++ b) off len = a.
Proof.
  intros -> <-. unfold zslice, zskipn, zfirstn, zlen. cbn [Z.to_nat skipn].
  rewrite Nat2Z.id, firstn_app, firstn_all, Nat.sub_diag. cbn [firstn]. apply app_nil_r.
Qed.

Lemma zslice_take_all {A} (a : list A) off len :
  off = 0 -> zlen a = len -> zslice a off len = a.
Proof. intros H1 H2. rewrite <- (app_nil_r a) at 1. now apply zslice_app_take. Qed.

Lemma zfirstn_app_exact {A} (a b : list A) n : zlen a = n -> zfirstn n (a ++ b) = a.
Proof.
  intros <-. unfold zfirstn, zlen. rewrite Nat2Z.id, firstn_app, firstn_all, Nat.sub_diag.
  cbn [firstn]. apply app_nil_r.
Qed.

(* ---------- payload frames ---------- *)

Lemma words16_samples d : Forall (fun v => 0 <= v < 2 ^ 16) d -> words16 (raw_type_to_bytes d) = d.
Proof.
  unfold raw_type_to_bytes. induction 1 as [|v d Hv _ IH]; [reflexivity|].
  cbn [flat_map]. change (le 2 v ++ flat_map (le 2) d)
    with (v mod 256 :: (v / 256) mod 256 :: flat_map (le 2) d).
  cbn [words16]. rewrite IH. f_equal.
  change [v mod 256; (v / 256) mod 256] with (le 2 v). apply unle_le. exact Hv.
Qed.

Lemma words64_coefs d : Forall (fun v => 0 <= v < 2 ^ 64) d -> words64 (from_slice_float64 d) = d.
Proof.
  unfold from_slice_float64. induction 1 as [|v d Hv _ IH]; [reflexivity|].
  cbn [flat_map]. remember (flat_map (le 8) d) as rest.
  cbn [le app words64]. rewrite IH. f_equal.
  change (unle (le 8 v) = v). apply unle_le. exact Hv.
Qed.

Lemma zlen_flat_map_le k d : zlen (flat_map (le k) d) = Z.of_nat k * zlen d.
Proof.
  induction d as [|v d IH]; [cbn; lia|].
  cbn [flat_map]. rewrite zlen_app, IH, zlen_le. unfold zlen. cbn [length]. lia.
Qed.

Lemma bytes_ok_flat_map_le k d : bytes_ok (flat_map (le k) d) = true.
Proof.
  induction d as [|v d IH]; [reflexivity|].
  cbn [flat_map]. now rewrite bytes_ok_app, le_bytes_ok, IH.
Qed.

(* ---------- the fields of the two headers sit at the documented offsets ---------- *)

Ltac skip_field :=
  erewrite zslice_app_skip; [ | reflexivity | rewrite zlen_le; lia ].
Ltac take_field :=
  first [ apply zslice_app_take; [ lia | rewrite zlen_le; lia ]
        | apply zslice_take_all; [ lia | rewrite zlen_le; lia ] ].
Ltac find_field := repeat skip_field; take_field.

Lemma record_header_layout r :
  let h := record_header r in
  zslice h 0 2 = le 2 (r_chan r) /\
  zslice h 2 1 = le 1 0 /\
  zslice h 3 1 = le 1 (if r_signed r then 2 else 3) /\
  zslice h 4 4 = le 4 (r_pre r) /\
  zslice h 8 4 = le 4 (zlen (r_data r)) /\
  zslice h 12 4 = le 4 (r_period r) /\
  zslice h 16 4 = le 4 (r_vpa r) /\
  zslice h 20 8 = le 8 (r_time r) /\
  zslice h 28 8 = le 8 (r_frame r).
Proof. cbv zeta. unfold record_header. repeat split; find_field. Qed.

Lemma summary_header_layout r :
  let h := summary_header r in
  zslice h 0 2 = le 2 (r_chan r) /\
  zslice h 2 2 = le 2 0 /\
  zslice h 4 4 = le 4 (r_pre r) /\
  zslice h 8 4 = le 4 (zlen (r_data r)) /\
  zslice h 12 4 = le 4 (r_ptmean r) /\
  zslice h 16 4 = le 4 (r_peak r) /\
  zslice h 20 4 = le 4 (r_rms r) /\
  zslice h 24 4 = le 4 (r_avg r) /\
  zslice h 28 4 = le 4 (r_resid r) /\
  zslice h 32 8 = le 8 (r_time r) /\
  zslice h 40 8 = le 8 (r_frame r).
Proof. cbv zeta. unfold summary_header. repeat split; find_field. Qed.

Lemma record_header_length r : zlen (record_header r) = 36.
Proof. unfold record_header. rewrite !zlen_app, !zlen_le. reflexivity. Qed.

Lemma summary_header_length r : zlen (summary_header r) = 48.
Proof. unfold summary_header. rewrite !zlen_app, !zlen_le. reflexivity. Qed.

Lemma record_header_bytes r : bytes_ok (record_header r) = true.
Proof. unfold record_header. rewrite !bytes_ok_app, !le_bytes_ok. reflexivity. Qed.

Lemma summary_header_bytes r : bytes_ok (summary_header r) = true.
Proof. unfold summary_header. rewrite !bytes_ok_app, !le_bytes_ok. reflexivity. Qed.

(* ---------- decoding per the document recovers the record ---------- *)

Lemma u8 n : 0 <= n < 2 ^ 8 -> unle (le 1 n) = n.
Proof. intro H. apply unle_le. exact H. Qed.
Lemma u16 n : 0 <= n < 2 ^ 16 -> unle (le 2 n) = n.
Proof. intro H. apply unle_le. exact H. Qed.
Lemma u32 n : 0 <= n < 2 ^ 32 -> unle (le 4 n) = n.
Proof. intro H. apply unle_le. exact H. Qed.
Lemma u64 n : 0 <= n < 2 ^ 64 -> unle (le 8 n) = n.
Proof. intro H. apply unle_le. exact H. Qed.

Lemma record_roundtrip r : fits r -> decode_record (record_msg r) = Some (rec_fields_of r).
Proof.
  intros (Hc & Hp & Hn & Hd & Hpe & Hv & Ht & Hf & _).
  pose proof (zlen_nonneg (r_data r)) as Hn0.
  unfold decode_record, record_msg, int64_at, uint_at.
  destruct (record_header_layout r) as (L0 & L2 & L3 & L4 & L8 & L12 & L16 & L20 & L28).
  rewrite L0, L2, L3, L4, L8, L12, L16, L20, L28.
  rewrite record_header_length, record_header_bytes.
  unfold raw_type_to_bytes at 1 2. rewrite bytes_ok_flat_map_le, zlen_flat_map_le.
  rewrite (u16 _ Hc), (u32 _ Hp), (u32 _ Hpe), (u32 _ Hv), (u32 (zlen (r_data r))) by lia.
  rewrite (int64_roundtrip _ Ht), (int64_roundtrip _ Hf).
  rewrite (words16_samples _ Hd).
  rewrite (u8 0) by (cbn; lia).
  rewrite (u8 (if r_signed r then 2 else 3)) by (destruct (r_signed r); cbn; lia).
  rewrite Z.eqb_refl. cbn [andb].
  assert (E : (Z.of_nat 2 * zlen (r_data r) =? 2 * zlen (r_data r)) = true) by (apply Z.eqb_eq; lia).
  rewrite E.
  unfold rec_fields_of. destruct (r_signed r); reflexivity.
Qed.

Lemma summary_roundtrip r : fits r -> decode_summary (summary_msg r) = Some (sum_fields_of r).
Proof.
  intros (Hc & Hp & Hn & _ & _ & _ & Ht & Hf & H1 & H2 & H3 & H4 & H5 & Hco).
  pose proof (zlen_nonneg (r_data r)) as Hn0.
  unfold decode_summary, summary_msg, int64_at, uint_at.
  destruct (summary_header_layout r) as (L0 & L2 & L4 & L8 & L12 & L16 & L20 & L24 & L28 & L32 & L40).
  rewrite L0, L2, L4, L8, L12, L16, L20, L24, L28, L32, L40.
  rewrite summary_header_length, summary_header_bytes.
  unfold from_slice_float64 at 1 2. rewrite bytes_ok_flat_map_le, zlen_flat_map_le.
  rewrite (u16 _ Hc), (u32 _ Hp), (u32 _ H1), (u32 _ H2), (u32 _ H3), (u32 _ H4), (u32 _ H5),
          (u32 (zlen (r_data r))) by lia.
  rewrite (int64_roundtrip _ Ht), (int64_roundtrip _ Hf).
  rewrite (words64_coefs _ Hco).
  rewrite (u16 0) by (cbn; lia).
  rewrite Z.eqb_refl. cbn [andb].
  assert (E : (Z.of_nat 8 * zlen (r_coefs r)) mod 8 =? 0 = true).
  { apply Z.eqb_eq. change (Z.of_nat 8) with 8. rewrite Z.mul_comm. apply Z.mod_mul. lia. }
  rewrite E. reflexivity.
Qed.

(* ---------- frame shapes and the subscription prefix ---------- *)

Lemma frame_lengths r :
  map zlen (record_msg r) = [36; 2 * zlen (r_data r)] /\
  map zlen (summary_msg r) = [48; 8 * zlen (r_coefs r)].
Proof.
  unfold record_msg, summary_msg, raw_type_to_bytes, from_slice_float64. cbn [map].
  now rewrite record_header_length, summary_header_length, !zlen_flat_map_le.
Qed.

Lemma header_lengths_proof r :
  length (record_msg r) = 2%nat /\ length (summary_msg r) = 2%nat /\
  zlen (nth 0 (record_msg r) []) = 36 /\ zlen (nth 0 (summary_msg r) []) = 48.
Proof.
  split; [reflexivity|]. split; [reflexivity|].
  split; [apply record_header_length | apply summary_header_length].
Qed.

Lemma payload_length_proof r :
  zlen (nth 1 (record_msg r) []) = 2 * zlen (r_data r) /\
  zlen (nth 1 (summary_msg r) []) = 8 * zlen (r_coefs r).
Proof.
  unfold record_msg, summary_msg, raw_type_to_bytes, from_slice_float64. cbn [nth].
  now rewrite !zlen_flat_map_le.
Qed.

Lemma le2_explicit c : 0 <= c < 2 ^ 16 -> le 2 c = channel_prefix c.
Proof.
  intro H. unfold channel_prefix. cbn [le]. f_equal. f_equal.
  apply Z.mod_small. split; [apply Z.div_pos; lia | apply Z.div_lt_upper_bound; lia].
Qed.

Lemma record_prefix r : zfirstn 2 (record_header r) = le 2 (r_chan r).
Proof. unfold record_header. apply zfirstn_app_exact. apply zlen_le. Qed.

Lemma summary_prefix r : zfirstn 2 (summary_header r) = le 2 (r_chan r).
Proof. unfold summary_header. apply zfirstn_app_exact. apply zlen_le. Qed.

Lemma prefix_is_channel_proof r : 0 <= r_chan r < 2 ^ 16 ->
  zfirstn 2 (nth 0 (record_msg r) []) = [r_chan r mod 256; r_chan r / 256] /\
  zfirstn 2 (nth 0 (summary_msg r) []) = [r_chan r mod 256; r_chan r / 256] /\
  unle [r_chan r mod 256; r_chan r / 256] = r_chan r.
Proof.
  intro H. cbn [record_msg summary_msg nth].
  rewrite record_prefix, summary_prefix, (le2_explicit _ H). unfold channel_prefix.
  repeat split. cbn [unle]. pose proof (Z.div_mod (r_chan r) 256). lia.
Qed.

(* distinct channels have distinct prefixes: a 2-byte subscription selects exactly one channel *)
Lemma prefix_separates_proof r1 r2 :
  0 <= r_chan r1 < 2 ^ 16 -> 0 <= r_chan r2 < 2 ^ 16 ->
  (zfirstn 2 (nth 0 (record_msg r1) []) = zfirstn 2 (nth 0 (record_msg r2) []) \/
   zfirstn 2 (nth 0 (summary_msg r1) []) = zfirstn 2 (nth 0 (summary_msg r2) [])) ->
  r_chan r1 = r_chan r2.
Proof.
  intros H1 H2 E.
  destruct (prefix_is_channel_proof r1 H1) as (A1 & B1 & C1).
  destruct (prefix_is_channel_proof r2 H2) as (A2 & B2 & C2).
  rewrite A1, A2, B1, B2 in E. rewrite <- C1, <- C2.
  destruct E as [E|E]; now rewrite E.
Qed.

(* ---------- the checker: the model passes it; what acceptance means; acceptance is tight ---------- *)

Lemma fits_b_iff r : fits_b r = true <-> fits r.
Proof.
  unfold fits_b, fits, in_range. rewrite !andb_true_iff, !forallb_forall, !Forall_forall.
  split.
  - intros H. repeat match goal with H : _ /\ _ |- _ => destruct H end.
    repeat split; try lia.
    all: intros v Hv; match goal with H : forall x, In x _ -> _ |- _ => specialize (H v Hv); lia end.
  - intros H. repeat match goal with H : _ /\ _ |- _ => destruct H end.
    repeat split; try lia.
    all: intros v Hv; match goal with H : forall x, In x _ -> _ |- _ => specialize (H v Hv); lia end.
Qed.

Lemma rec_fields_eqb_eq a b : rec_fields_eqb a b = true <-> a = b.
Proof.
  unfold rec_fields_eqb. rewrite !andb_true_iff, !Z.eqb_eq, zlist_eqb_eq, Bool.eqb_true_iff.
  split.
  - intros H. repeat match goal with H : _ /\ _ |- _ => destruct H end.
    destruct a, b; cbn in *; congruence.
  - intros ->. repeat split.
Qed.

Lemma sum_fields_eqb_eq a b : sum_fields_eqb a b = true <-> a = b.
Proof.
  unfold sum_fields_eqb. rewrite !andb_true_iff, !Z.eqb_eq, zlist_eqb_eq.
  split.
  - intros H. repeat match goal with H : _ /\ _ |- _ => destruct H end.
    destruct a, b; cbn in *; congruence.
  - intros ->. repeat split.
Qed.

Lemma shape_ok_record r : 0 <= r_chan r < 2 ^ 16 -> shape_ok r 36 2 (zlen (r_data r)) (record_msg r) = true.
Proof.
  intro H. unfold shape_ok, record_msg.
  rewrite record_header_length, record_prefix, (le2_explicit _ H).
  unfold raw_type_to_bytes. rewrite zlen_flat_map_le.
  rewrite !andb_true_iff, !Z.eqb_eq, zlist_eqb_eq. repeat split; lia.
Qed.

Lemma shape_ok_summary r : 0 <= r_chan r < 2 ^ 16 -> shape_ok r 48 8 (zlen (r_coefs r)) (summary_msg r) = true.
Proof.
  intro H. unfold shape_ok, summary_msg.
  rewrite summary_header_length, summary_prefix, (le2_explicit _ H).
  unfold from_slice_float64. rewrite zlen_flat_map_le.
  rewrite !andb_true_iff, !Z.eqb_eq, zlist_eqb_eq. repeat split; lia.
Qed.

(* the model's messages pass the checker, for every record in the domain *)
Lemma model_passes_checker_proof r : fits r -> C14_check r (record_msg r) (summary_msg r) = true.
Proof.
  intro F. unfold C14_check, check_record_msg, check_summary_msg.
  rewrite (record_roundtrip r F), (summary_roundtrip r F).
  destruct F as (Hc & _).
  rewrite (shape_ok_record r Hc), (shape_ok_summary r Hc).
  rewrite !andb_true_iff. repeat split; [apply rec_fields_eqb_eq | apply sum_fields_eqb_eq]; reflexivity.
Qed.

(* what the checker's "true" means, independent of any model *)
Lemma checker_sound_proof r recmsg summsg :
  C14_check r recmsg summsg = true ->
  decode_record recmsg = Some (rec_fields_of r) /\
  decode_summary summsg = Some (sum_fields_of r) /\
  (exists h p, recmsg = [h; p] /\ zlen h = 36 /\ zlen p = 2 * zlen (r_data r) /\
               zfirstn 2 h = [r_chan r mod 256; r_chan r / 256]) /\
  (exists h p, summsg = [h; p] /\ zlen h = 48 /\ zlen p = 8 * zlen (r_coefs r) /\
               zfirstn 2 h = [r_chan r mod 256; r_chan r / 256]).
Proof.
  unfold C14_check, check_record_msg, check_summary_msg. rewrite !andb_true_iff.
  intros ((D1 & S1) & (D2 & S2)).
  split; [|split; [|split]].
  - destruct (decode_record recmsg) as [f|]; [|discriminate]. apply rec_fields_eqb_eq in D1. now subst.
  - destruct (decode_summary summsg) as [f|]; [|discriminate]. apply sum_fields_eqb_eq in D2. now subst.
  - unfold shape_ok in S1. destruct recmsg as [|h [|p [|x l]]]; try discriminate.
    rewrite !andb_true_iff, !Z.eqb_eq, zlist_eqb_eq in S1. destruct S1 as ((A & B) & C).
    exists h, p. auto.
  - unfold shape_ok in S2. destruct summsg as [|h [|p [|x l]]]; try discriminate.
    rewrite !andb_true_iff, !Z.eqb_eq, zlist_eqb_eq in S2. destruct S2 as ((A & B) & C).
    exists h, p. auto.
Qed.

(* ---------- tightness: an accepted message is byte for byte the model's message ---------- *)

Definition byte_list (bs : list Z) : Prop := Forall (fun b => 0 <= b < 256) bs.

Lemma skipn_skipn_plus {A} a n : forall l : list A, skipn n (skipn a l) = skipn (a + n) l.
Proof. induction a as [|a IH]; intro l; [reflexivity|]. destruct l; [now rewrite !skipn_nil | apply IH]. Qed.

Lemma zskipn_step {A} (l : list A) a n : 0 <= a -> 0 <= n ->
  zskipn a l = zslice l a n ++ zskipn (a + n) l.
Proof.
  intros Ha Hn. unfold zslice, zfirstn, zskipn.
  replace (Z.to_nat (a + n)) with (Z.to_nat a + Z.to_nat n)%nat by lia.
  rewrite <- skipn_skipn_plus. symmetry. apply firstn_skipn.
Qed.

Lemma zskipn_all {A} (l : list A) n : zlen l <= n -> zskipn n l = [].
Proof. intro H. unfold zskipn, zlen in *. apply skipn_all2. lia. Qed.

Lemma Forall_firstn_ {A} (P : A -> Prop) n : forall l, Forall P l -> Forall P (firstn n l).
Proof.
  induction n as [|n IH]; intros l H; [constructor|].
  destruct H as [|x l Hx Hl]; [constructor|]. cbn [firstn]. constructor; auto.
Qed.

Lemma Forall_skipn_ {A} (P : A -> Prop) n : forall l, Forall P l -> Forall P (skipn n l).
Proof.
  induction n as [|n IH]; intros l H; [exact H|].
  destruct H as [|x l Hx Hl]; [constructor|]. cbn [skipn]. auto.
Qed.

Lemma byte_list_slice bs a n : byte_list bs -> byte_list (zslice bs a n).
Proof. intro H. unfold byte_list, zslice, zfirstn, zskipn. now apply Forall_firstn_, Forall_skipn_. Qed.

Lemma zlen_zslice {A} (l : list A) a n : 0 <= a -> 0 <= n -> a + n <= zlen l -> zlen (zslice l a n) = n.
Proof.
  intros Ha Hn H. unfold zslice, zfirstn, zskipn, zlen in *. rewrite firstn_length, skipn_length. lia.
Qed.

(* a k-byte slice of a byte frame is the little-endian encoding of the value read there *)
Lemma slice_is_le bs off k : byte_list bs -> 0 <= off -> off + Z.of_nat k <= zlen bs ->
  zslice bs off (Z.of_nat k) = le k (uint_at bs off (Z.of_nat k)).
Proof.
  intros Hb Ho Hl. unfold uint_at.
  pose proof (zlen_zslice bs off (Z.of_nat k) Ho ltac:(lia) Hl) as L.
  pose proof (byte_list_slice bs off (Z.of_nat k) Hb) as B.
  set (s := zslice bs off (Z.of_nat k)) in *.
  assert (Lk : length s = k) by (unfold zlen in L; lia).
  rewrite <- Lk. symmetry. now apply le_unle.
Qed.

(* [le 8] of the two's-complement reading is [le 8] of the unsigned reading *)
Lemma le8_twos u : 0 <= u < 2 ^ 64 -> le 8 (twos 64 u) = le 8 u.
Proof.
  intro H. destruct (twos_range 64 u ltac:(lia) H) as (_ & E).
  rewrite <- (le_mod 8 (twos 64 u)). change (8 * Z.of_nat 8) with 64. now rewrite E.
Qed.

Lemma uint_at_bound bs off k : byte_list bs -> 0 <= off -> off + Z.of_nat k <= zlen bs ->
  0 <= uint_at bs off (Z.of_nat k) < 2 ^ (8 * Z.of_nat k).
Proof.
  intros Hb Ho Hl. unfold uint_at.
  pose proof (unle_bound _ (byte_list_slice bs off (Z.of_nat k) Hb)) as B.
  now rewrite zlen_zslice in B by lia.
Qed.

Lemma words16_inv : forall n bs, length bs = (2 * n)%nat -> byte_list bs ->
  flat_map (le 2) (words16 bs) = bs.
Proof.
  induction n as [|n IH]; intros bs L B.
  - destruct bs; [reflexivity | discriminate].
  - destruct bs as [|b0 [|b1 rest]]; try (cbn in L; lia).
    inversion B as [|? ? H0 B']; subst. inversion B' as [|? ? H1 B'']; subst.
    cbn [words16 flat_map]. rewrite IH by (cbn in L; auto; lia).
    change (le 2 (unle [b0; b1])) with (le (length [b0; b1]) (unle [b0; b1])).
    rewrite le_unle by (constructor; [assumption | constructor; [assumption | constructor]]). reflexivity.
Qed.

Lemma words64_inv : forall n bs, length bs = (8 * n)%nat -> byte_list bs ->
  flat_map (le 8) (words64 bs) = bs.
Proof.
  induction n as [|n IH]; intros bs L B.
  - destruct bs; [reflexivity | discriminate].
  - destruct bs as [|b0 [|b1 [|b2 [|b3 [|b4 [|b5 [|b6 [|b7 rest]]]]]]]]; try (cbn in L; lia).
    assert (B8 : byte_list [b0; b1; b2; b3; b4; b5; b6; b7] /\ byte_list rest).
    { unfold byte_list in *. repeat match goal with H : Forall _ (_ :: _) |- _ => inversion H; clear H; subst end.
      split; [repeat (apply Forall_cons; [assumption|]); apply Forall_nil | assumption]. }
    destruct B8 as (B8 & Br).
    cbn [words64 flat_map]. rewrite IH by (cbn in L; auto; lia).
    change (le 8 (unle [b0; b1; b2; b3; b4; b5; b6; b7]))
      with (le (length [b0; b1; b2; b3; b4; b5; b6; b7]) (unle [b0; b1; b2; b3; b4; b5; b6; b7])).
    rewrite le_unle by exact B8. reflexivity.
Qed.

Ltac slice_eq hdr off kZ kn :=
  let S := fresh "S" in
  assert (S : zslice hdr off kZ = le kn (uint_at hdr off kZ))
    by (apply (slice_is_le hdr off kn); [assumption | lia | lia]);
  rewrite S; clear S.

Lemma le8_int64_at hdr off : byte_list hdr -> 0 <= off -> off + 8 <= zlen hdr ->
  le 8 (int64_at hdr off) = le 8 (uint_at hdr off 8).
Proof.
  intros Hb Ho Hl. unfold int64_at. apply le8_twos.
  apply (uint_at_bound hdr off 8%nat); [assumption | lia | lia].
Qed.

(* decoding is injective: the decoded fields determine every byte of the message *)
Lemma decode_record_tight msg f :
  decode_record msg = Some f ->
  msg = [ le 2 (f_chan f) ++ le 1 0 ++ le 1 (if f_signed f then 2 else 3) ++ le 4 (f_pre f) ++
          le 4 (f_nsamp f) ++ le 4 (f_period f) ++ le 4 (f_vpa f) ++ le 8 (f_time f) ++ le 8 (f_frame f);
          flat_map (le 2) (f_samples f) ] /\
  zlen (f_samples f) = f_nsamp f.
Proof.
  unfold decode_record.
  destruct msg as [|hdr [|payload [|x l]]]; try discriminate.
  match goal with |- (if ?c then _ else _) = _ -> _ => destruct c eqn:C end; [|discriminate].
  intros [= <-]. cbn [f_chan f_signed f_pre f_nsamp f_period f_vpa f_time f_frame f_samples].
  rewrite !andb_true_iff, !Z.eqb_eq in C.
  destruct C as (((((Hlen & Hb) & Hpb) & Hver) & Hty) & Hpl).
  apply bytes_ok_iff in Hb. apply bytes_ok_iff in Hpb. fold (byte_list hdr) in Hb. fold (byte_list payload) in Hpb.
  assert (Hpay : flat_map (le 2) (words16 payload) = payload).
  { apply (words16_inv (Z.to_nat (uint_at hdr 8 4))); [|assumption].
    pose proof (uint_at_bound hdr 8 4%nat Hb ltac:(lia) ltac:(lia)). unfold zlen in Hpl. lia. }
  assert (Hn : zlen (words16 payload) = uint_at hdr 8 4).
  { pose proof (zlen_flat_map_le 2 (words16 payload)) as E. rewrite Hpay in E. lia. }
  split; [|exact Hn]. f_equal; [|now rewrite Hpay].
  rewrite (le8_int64_at hdr 20), (le8_int64_at hdr 28) by (assumption || lia).
  assert (Hd : le 1 (if uint_at hdr 3 1 =? 2 then 2 else 3) = le 1 (uint_at hdr 3 1)).
  { destruct (uint_at hdr 3 1 =? 2) eqn:E2; [apply Z.eqb_eq in E2; now rewrite E2|].
    destruct (uint_at hdr 3 1 =? 3) eqn:E3; [apply Z.eqb_eq in E3; now rewrite E3|]. discriminate. }
  rewrite Hd. replace (le 1 0) with (le 1 (uint_at hdr 2 1)) by now rewrite Hver.
  transitivity (zskipn 0 hdr); [reflexivity|].
  rewrite (zskipn_step hdr 0 2), (zskipn_step hdr (0 + 2) 1), (zskipn_step hdr (0 + 2 + 1) 1),
    (zskipn_step hdr (0 + 2 + 1 + 1) 4), (zskipn_step hdr (0 + 2 + 1 + 1 + 4) 4),
    (zskipn_step hdr (0 + 2 + 1 + 1 + 4 + 4) 4), (zskipn_step hdr (0 + 2 + 1 + 1 + 4 + 4 + 4) 4),
    (zskipn_step hdr (0 + 2 + 1 + 1 + 4 + 4 + 4 + 4) 8), (zskipn_step hdr (0 + 2 + 1 + 1 + 4 + 4 + 4 + 4 + 8) 8) by lia.
  rewrite (zskipn_all hdr) by lia. rewrite app_nil_r.
  cbn [Z.add Pos.add Pos.succ Pos.add_carry].
  slice_eq hdr 0 2 2%nat. slice_eq hdr 2 1 1%nat. slice_eq hdr 3 1 1%nat. slice_eq hdr 4 4 4%nat.
  slice_eq hdr 8 4 4%nat. slice_eq hdr 12 4 4%nat. slice_eq hdr 16 4 4%nat. slice_eq hdr 20 8 8%nat.
  slice_eq hdr 28 8 8%nat. reflexivity.
Qed.

Lemma decode_summary_tight msg f :
  decode_summary msg = Some f ->
  msg = [ le 2 (s_chan f) ++ le 2 0 ++ le 4 (s_pre f) ++ le 4 (s_nsamp f) ++ le 4 (s_ptmean f) ++
          le 4 (s_peak f) ++ le 4 (s_rms f) ++ le 4 (s_avg f) ++ le 4 (s_resid f) ++
          le 8 (s_time f) ++ le 8 (s_frame f);
          flat_map (le 8) (s_coefs f) ].
Proof.
  unfold decode_summary.
  destruct msg as [|hdr [|payload [|x l]]]; try discriminate.
  match goal with |- (if ?c then _ else _) = _ -> _ => destruct c eqn:C end; [|discriminate].
  intros [= <-].
  cbn [s_chan s_pre s_nsamp s_ptmean s_peak s_rms s_avg s_resid s_time s_frame s_coefs].
  rewrite !andb_true_iff, !Z.eqb_eq in C.
  destruct C as ((((Hlen & Hb) & Hpb) & Hver) & Hpl).
  apply bytes_ok_iff in Hb. apply bytes_ok_iff in Hpb. fold (byte_list hdr) in Hb. fold (byte_list payload) in Hpb.
  assert (Hpay : flat_map (le 8) (words64 payload) = payload).
  { apply (words64_inv (Z.to_nat (zlen payload / 8))); [|assumption].
    pose proof (Z.div_mod (zlen payload) 8 ltac:(lia)) as E. pose proof (zlen_nonneg payload).
    assert (0 <= zlen payload / 8) by (apply Z.div_pos; lia). unfold zlen in *. lia. }
  f_equal; [|now rewrite Hpay].
  rewrite (le8_int64_at hdr 32), (le8_int64_at hdr 40) by (assumption || lia).
  replace (le 2 0) with (le 2 (uint_at hdr 2 2)) by now rewrite Hver.
  transitivity (zskipn 0 hdr); [reflexivity|].
  rewrite (zskipn_step hdr 0 2), (zskipn_step hdr (0 + 2) 2), (zskipn_step hdr (0 + 2 + 2) 4),
    (zskipn_step hdr (0 + 2 + 2 + 4) 4), (zskipn_step hdr (0 + 2 + 2 + 4 + 4) 4),
    (zskipn_step hdr (0 + 2 + 2 + 4 + 4 + 4) 4), (zskipn_step hdr (0 + 2 + 2 + 4 + 4 + 4 + 4) 4),
    (zskipn_step hdr (0 + 2 + 2 + 4 + 4 + 4 + 4 + 4) 4), (zskipn_step hdr (0 + 2 + 2 + 4 + 4 + 4 + 4 + 4 + 4) 4),
    (zskipn_step hdr (0 + 2 + 2 + 4 + 4 + 4 + 4 + 4 + 4 + 4) 8),
    (zskipn_step hdr (0 + 2 + 2 + 4 + 4 + 4 + 4 + 4 + 4 + 4 + 8) 8) by lia.
  rewrite (zskipn_all hdr) by lia. rewrite app_nil_r.
  cbn [Z.add Pos.add Pos.succ Pos.add_carry].
  slice_eq hdr 0 2 2%nat. slice_eq hdr 2 2 2%nat. slice_eq hdr 4 4 4%nat. slice_eq hdr 8 4 4%nat.
  slice_eq hdr 12 4 4%nat. slice_eq hdr 16 4 4%nat. slice_eq hdr 20 4 4%nat. slice_eq hdr 24 4 4%nat.
  slice_eq hdr 28 4 4%nat. slice_eq hdr 32 8 8%nat. slice_eq hdr 40 8 8%nat. reflexivity.
Qed.

(* the checker accepts exactly one pair of messages per record: the model's *)
Lemma checker_tight_proof r recmsg summsg :
  C14_check r recmsg summsg = true -> recmsg = record_msg r /\ summsg = summary_msg r.
Proof.
  intro H. destruct (checker_sound_proof r recmsg summsg H) as (D1 & D2 & _).
  apply decode_record_tight in D1. apply decode_summary_tight in D2.
  destruct D1 as (D1 & _). split; [exact D1 | exact D2].
Qed.

(* ---------- the domain is forced: only records that fit their fields can have an accepted message ---------- *)

Lemma words16_range : forall n bs, length bs = (2 * n)%nat -> byte_list bs ->
  Forall (fun v => 0 <= v < 2 ^ 16) (words16 bs).
Proof.
  induction n as [|n IH]; intros bs L B.
  - destruct bs; [constructor | discriminate].
  - destruct bs as [|b0 [|b1 rest]]; try (cbn in L; lia).
    inversion B as [|? ? H0 B']; subst. inversion B' as [|? ? H1 B'']; subst.
    cbn [words16]. constructor; [|apply IH; [cbn in L; lia | assumption]].
    cbn [unle]. lia.
Qed.

Lemma words64_range : forall n bs, length bs = (8 * n)%nat -> byte_list bs ->
  Forall (fun v => 0 <= v < 2 ^ 64) (words64 bs).
Proof.
  induction n as [|n IH]; intros bs L B.
  - destruct bs; [constructor | discriminate].
  - destruct bs as [|b0 [|b1 [|b2 [|b3 [|b4 [|b5 [|b6 [|b7 rest]]]]]]]]; try (cbn in L; lia).
    assert (B8 : byte_list [b0; b1; b2; b3; b4; b5; b6; b7] /\ byte_list rest).
    { unfold byte_list in *. repeat match goal with H : Forall _ (_ :: _) |- _ => inversion H; clear H; subst end.
      split; [repeat (apply Forall_cons; [assumption|]); apply Forall_nil | assumption]. }
    destruct B8 as (B8 & Br).
    cbn [words64]. constructor; [|apply IH; [cbn in L; lia | assumption]].
    apply (unle_bound _ B8).
Qed.

Lemma int64_at_range hdr off : byte_list hdr -> 0 <= off -> off + 8 <= zlen hdr ->
  - 2 ^ 63 <= int64_at hdr off < 2 ^ 63.
Proof.
  intros Hb Ho Hl. unfold int64_at.
  apply (twos_range 64); [lia|]. apply (uint_at_bound hdr off 8%nat); [assumption | lia | lia].
Qed.

Lemma decode_record_range msg f : decode_record msg = Some f ->
  0 <= f_chan f < 2 ^ 16 /\ 0 <= f_pre f < 2 ^ 32 /\ 0 <= f_nsamp f < 2 ^ 32 /\
  0 <= f_period f < 2 ^ 32 /\ 0 <= f_vpa f < 2 ^ 32 /\
  - 2 ^ 63 <= f_time f < 2 ^ 63 /\ - 2 ^ 63 <= f_frame f < 2 ^ 63 /\
  Forall (fun v => 0 <= v < 2 ^ 16) (f_samples f).
Proof.
  unfold decode_record.
  destruct msg as [|hdr [|payload [|x l]]]; try discriminate.
  match goal with |- (if ?c then _ else _) = _ -> _ => destruct c eqn:C end; [|discriminate].
  intros [= <-]. cbn [f_chan f_signed f_pre f_nsamp f_period f_vpa f_time f_frame f_samples].
  rewrite !andb_true_iff, !Z.eqb_eq in C.
  destruct C as (((((Hlen & Hb) & Hpb) & Hver) & Hty) & Hpl).
  apply bytes_ok_iff in Hb. apply bytes_ok_iff in Hpb. fold (byte_list hdr) in Hb. fold (byte_list payload) in Hpb.
  pose proof (uint_at_bound hdr 8 4%nat Hb ltac:(lia) ltac:(lia)) as Bn.
  repeat split;
    try (apply (uint_at_bound hdr _ 2%nat); [assumption | lia | lia]);
    try (apply (uint_at_bound hdr _ 4%nat); [assumption | lia | lia]);
    try (apply int64_at_range; [assumption | lia | lia]).
  apply (words16_range (Z.to_nat (uint_at hdr 8 4))); [|assumption]. unfold zlen in Hpl. lia.
Qed.

Lemma decode_summary_range msg f : decode_summary msg = Some f ->
  0 <= s_chan f < 2 ^ 16 /\ 0 <= s_pre f < 2 ^ 32 /\ 0 <= s_nsamp f < 2 ^ 32 /\
  0 <= s_ptmean f < 2 ^ 32 /\ 0 <= s_peak f < 2 ^ 32 /\ 0 <= s_rms f < 2 ^ 32 /\
  0 <= s_avg f < 2 ^ 32 /\ 0 <= s_resid f < 2 ^ 32 /\
  - 2 ^ 63 <= s_time f < 2 ^ 63 /\ - 2 ^ 63 <= s_frame f < 2 ^ 63 /\
  Forall (fun v => 0 <= v < 2 ^ 64) (s_coefs f).
Proof.
  unfold decode_summary.
  destruct msg as [|hdr [|payload [|x l]]]; try discriminate.
  match goal with |- (if ?c then _ else _) = _ -> _ => destruct c eqn:C end; [|discriminate].
  intros [= <-].
  cbn [s_chan s_pre s_nsamp s_ptmean s_peak s_rms s_avg s_resid s_time s_frame s_coefs].
  rewrite !andb_true_iff, !Z.eqb_eq in C.
  destruct C as ((((Hlen & Hb) & Hpb) & Hver) & Hpl).
  apply bytes_ok_iff in Hb. apply bytes_ok_iff in Hpb. fold (byte_list hdr) in Hb. fold (byte_list payload) in Hpb.
  repeat split;
    try (apply (uint_at_bound hdr _ 2%nat); [assumption | lia | lia]);
    try (apply (uint_at_bound hdr _ 4%nat); [assumption | lia | lia]);
    try (apply int64_at_range; [assumption | lia | lia]).
  apply (words64_range (Z.to_nat (zlen payload / 8))); [|assumption].
  pose proof (Z.div_mod (zlen payload) 8 ltac:(lia)) as E. pose proof (zlen_nonneg payload).
  assert (0 <= zlen payload / 8) by (apply Z.div_pos; lia). unfold zlen in *. lia.
Qed.

(* no message whatsoever is accepted for a record outside the domain *)
Lemma checker_implies_fits_proof r recmsg summsg : C14_check r recmsg summsg = true -> fits r.
Proof.
  intro H. destruct (checker_sound_proof r recmsg summsg H) as (D1 & D2 & _).
  apply decode_record_range in D1. apply decode_summary_range in D2.
  cbn [rec_fields_of sum_fields_of f_chan f_signed f_pre f_nsamp f_period f_vpa f_time f_frame f_samples
       s_chan s_pre s_nsamp s_ptmean s_peak s_rms s_avg s_resid s_time s_frame s_coefs] in D1, D2.
  unfold fits. intuition.
Qed.

Lemma checker_characterisation_proof r recmsg summsg :
  C14_check r recmsg summsg = true <-> fits r /\ recmsg = record_msg r /\ summsg = summary_msg r.
Proof.
  split.
  - intro H. split; [eapply checker_implies_fits_proof; exact H | eapply checker_tight_proof; exact H].
  - intros (F & -> & ->). now apply model_passes_checker_proof.
Qed.

(* ---------- batches: messages built earlier are not disturbed by messages built later ---------- *)

Lemma batch_passes_proof rs : Forall fits rs ->
  C14_check_batch (map (fun r => (r, record_msg r, summary_msg r)) rs) = true.
Proof.
  intro H. unfold C14_check_batch. rewrite forallb_forall. intros t Ht.
  apply in_map_iff in Ht. destruct Ht as (r & <- & Hr). cbn [fst snd].
  apply model_passes_checker_proof. rewrite Forall_forall in H. now apply H.
Qed.

Lemma batch_characterisation_proof b :
  C14_check_batch b = true <->
  Forall (fun t => fits (fst (fst t)) /\ snd (fst t) = record_msg (fst (fst t)) /\
                   snd t = summary_msg (fst (fst t))) b.
Proof.
  unfold C14_check_batch. rewrite forallb_forall, Forall_forall.
  split; intros H t Ht; apply checker_characterisation_proof; now apply H.
Qed.

Lemma port_characterisation_proof b stray :
  C14_check_port b stray = true <->
  stray = [] /\
  Forall (fun t => fits (fst (fst t)) /\ snd (fst t) = record_msg (fst (fst t)) /\
                   snd t = summary_msg (fst (fst t))) b.
Proof.
  unfold C14_check_port. rewrite andb_true_iff, batch_characterisation_proof.
  destruct stray; split; intros (A & B); try discriminate; auto.
Qed.

(* the frame index read as an UNSIGNED 64-bit value (how the Go comments describe the field) is the
   record's frame whenever that is non-negative, i.e. always in practice *)
Lemma frame_unsigned_proof r : 0 <= r_frame r < 2 ^ 63 ->
  uint_at (nth 0 (record_msg r) []) 28 8 = r_frame r /\
  uint_at (nth 0 (summary_msg r) []) 40 8 = r_frame r.
Proof.
  intro H. cbn [record_msg summary_msg nth]. unfold uint_at.
  destruct (record_header_layout r) as (_ & _ & _ & _ & _ & _ & _ & _ & L28).
  destruct (summary_header_layout r) as (_ & _ & _ & _ & _ & _ & _ & _ & _ & _ & L40).
  rewrite L28, L40. split; apply u64; lia.
Qed.

(* ---------- concrete instances (non-vacuity) ---------- *)

Definition example_record : record :=
  {| r_chan := 258; r_signed := false; r_pre := 1; r_data := [1; 65535; 513];
     r_period := 897988541; r_vpa := 947912704; r_time := -1; r_frame := 4294967296;
     r_ptmean := 1148846080; r_peak := 2139095040; r_rms := 2143289344; r_avg := 1; r_resid := 0;
     r_coefs := [4607182418800017408; 18444492273895866368] |}.

Lemma example_fits : fits example_record.
Proof. apply fits_b_iff. vm_compute. reflexivity. Qed.

(* a message written down by hand from the document's table, decoded by the document-derived decoder *)
Lemma example_decode_literal :
  decode_record [[2; 1;  0;  3;  1; 0; 0; 0;  3; 0; 0; 0;  189; 55; 134; 53;  0; 0; 128; 56;
                  255; 255; 255; 255; 255; 255; 255; 255;  0; 0; 0; 0; 1; 0; 0; 0];
                 [1; 0; 255; 255; 1; 2]]
  = Some {| f_chan := 258; f_signed := false; f_pre := 1; f_nsamp := 3; f_period := 897988541;
            f_vpa := 947912704; f_time := -1; f_frame := 4294967296; f_samples := [1; 65535; 513] |}.
Proof. vm_compute. reflexivity. Qed.

Lemma example_model_literal :
  record_msg example_record =
    [[2; 1;  0;  3;  1; 0; 0; 0;  3; 0; 0; 0;  189; 55; 134; 53;  0; 0; 128; 56;
      255; 255; 255; 255; 255; 255; 255; 255;  0; 0; 0; 0; 1; 0; 0; 0];
     [1; 0; 255; 255; 1; 2]].
Proof. vm_compute. reflexivity. Qed.
