(* C14 — lemmas and proofs. *)
From Dastard Require Import Common.ZX C14.Model C14.Spec.
