(* C14 — mirror model of the ZMQ message builders of /repo/publish_data.go
   (messageRecords, messageSummaries), of getbytes/getbytes.go (FromUint8/16/32/64, FromInt64,
   FromFloat32, FromSliceFloat64) and of publish_data_slices.go (rawTypeToBytes).
   Definitions only, no proofs.

   Bytes are Z in [0,256); a frame is a list of bytes; a message is a list of frames.
   getbytes reinterprets the memory of a fixed-width value as bytes on a little-endian host, i.e. it
   yields the value's two's-complement bit pattern, least significant byte first.  [le k n] is exactly
   that for EVERY integer n (Go's conversions uint16(x), uint32(x), uint64(x) of an int keep the low
   bits: the [mod 256] at every step does the same, also for negative n).
   Floats occur only as bit patterns: the harness supplies math.Float32bits / math.Float64bits of the
   value the encoder is about to write (see the trusted base in checks/C14.json). *)
From Dastard Require Import Common.ZX.

(* little-endian bytes of the low 8k bits of n *)
Fixpoint le (k : nat) (n : Z) : list Z :=
  match k with
  | O => []
  | S k' => n mod 256 :: le k' (n / 256)
  end.

(* the projection of a DataRecord that the two encoders read *)
Record record := {
  r_chan   : Z;          (* channelIndex (Go int) *)
  r_signed : bool;       (* signed *)
  r_pre    : Z;          (* presamples (Go int) *)
  r_data   : list Z;     (* data []RawType, each sample as its uint16 value *)
  r_period : Z;          (* Float32bits(sampPeriod) *)
  r_vpa    : Z;          (* Float32bits(voltsPerArb) *)
  r_time   : Z;          (* trigTime.UnixNano(), int64 *)
  r_frame  : Z;          (* trigFrame, FrameIndex = int64 *)
  r_ptmean : Z;          (* Float32bits(float32(pretrigMean)) *)
  r_peak   : Z;          (* Float32bits(float32(peakValue)) *)
  r_rms    : Z;          (* Float32bits(float32(pulseRMS)) *)
  r_avg    : Z;          (* Float32bits(float32(pulseAverage)) *)
  r_resid  : Z;          (* Float32bits(float32(residualStdDev)) *)
  r_coefs  : list Z      (* Float64bits of each modelCoefs element *)
}.

(* rawTypeToBytes: the samples' memory, 2 bytes each (an empty slice gives an empty frame) *)
Definition raw_type_to_bytes (d : list Z) : list Z := flat_map (le 2) d.

(* getbytes.FromSliceFloat64 *)
Definition from_slice_float64 (d : list Z) : list Z := flat_map (le 8) d.

(* messageRecords: header fields in the order of the header.Write calls, then the data frame *)
Definition record_header (r : record) : list Z :=
  le 2 (r_chan r) ++                              (* FromUint16(uint16(rec.channelIndex)) *)
  le 1 0 ++                                       (* FromUint8(headerVersion = 0) *)
  le 1 (if r_signed r then 2 else 3) ++           (* FromUint8(dataType) *)
  le 4 (r_pre r) ++                               (* FromUint32(uint32(rec.presamples)) *)
  le 4 (zlen (r_data r)) ++                       (* FromUint32(uint32(len(rec.data))) *)
  le 4 (r_period r) ++                            (* FromFloat32(rec.sampPeriod) *)
  le 4 (r_vpa r) ++                               (* FromFloat32(rec.voltsPerArb) *)
  le 8 (r_time r) ++                              (* FromInt64(nano) *)
  le 8 (r_frame r).                               (* FromUint64(uint64(rec.trigFrame)) *)

Definition record_msg (r : record) : list (list Z) :=
  [record_header r; raw_type_to_bytes (r_data r)].

(* messageSummaries *)
Definition summary_header (r : record) : list Z :=
  le 2 (r_chan r) ++                              (* FromUint16(uint16(rec.channelIndex)) *)
  le 2 0 ++                                       (* FromUint16(headerVersion = 0) *)
  le 4 (r_pre r) ++                               (* FromUint32(uint32(rec.presamples)) *)
  le 4 (zlen (r_data r)) ++                       (* FromUint32(uint32(len(rec.data))) *)
  le 4 (r_ptmean r) ++                            (* FromFloat32(float32(rec.pretrigMean)) *)
  le 4 (r_peak r) ++                              (* FromFloat32(float32(rec.peakValue)) *)
  le 4 (r_rms r) ++                               (* FromFloat32(float32(rec.pulseRMS)) *)
  le 4 (r_avg r) ++                               (* FromFloat32(float32(rec.pulseAverage)) *)
  le 4 (r_resid r) ++                             (* FromFloat32(float32(rec.residualStdDev)) *)
  le 8 (r_time r) ++                              (* FromInt64(nano) *)
  le 8 (r_frame r).                               (* FromInt64(int64(rec.trigFrame)) *)

Definition summary_msg (r : record) : list (list Z) :=
  [summary_header r; from_slice_float64 (r_coefs r)].
