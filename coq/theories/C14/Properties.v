(* C14 — property theorems only. *)
From Dastard Require Import Common.ZX C14.Model C14.Spec C14.Proofs.
