(* C14 — property theorems only: each closed by [exact], each followed by Print Assumptions.
   Vocabulary: [le k n] (Model.v) = the k bytes getbytes produces for the integer n;
   [record_msg r] / [summary_msg r] (Model.v) = mirror of messageRecords / messageSummaries;
   [unle], [decode_record], [decode_summary], [C14_check], [fits] (Spec.v) = written from
   doc/BINARY_FORMATS.md, they do not mention the model. *)
From Dastard Require Import Common.ZX C14.Model C14.Spec C14.Proofs.

(* ---- generic little-endian lemmas, every width k ---- *)

Theorem unle_le_roundtrip :
  forall (k : nat) (n : Z), 0 <= n < 2 ^ (8 * Z.of_nat k) -> unle (le k n) = n.
Proof. exact unle_le. Qed.
Print Assumptions unle_le_roundtrip.

Example unle_le_roundtrip_instance : 0 <= 65535 < 2 ^ (8 * Z.of_nat 2) /\ le 2 65535 = [255; 255].
Proof. vm_compute. intuition discriminate. Qed.

(* without the range premise: the encoder keeps the low 8k bits (Go's uintN(x) conversions), also of negatives *)
Theorem unle_le_wraps :
  forall (k : nat) (n : Z), unle (le k n) = n mod 2 ^ (8 * Z.of_nat k).
Proof. exact unle_le_mod. Qed.
Print Assumptions unle_le_wraps.

Theorem le_unle_roundtrip :
  forall bs : list Z, Forall (fun b => 0 <= b < 256) bs -> le (length bs) (unle bs) = bs.
Proof. exact le_unle. Qed.
Print Assumptions le_unle_roundtrip.

(* signed 64-bit fields: two's complement written out *)
Theorem int64_field_roundtrip :
  forall n : Z, - 2 ^ 63 <= n < 2 ^ 63 ->
    (if unle (le 8 n) <? 2 ^ 63 then unle (le 8 n) else unle (le 8 n) - 2 ^ 64) = n.
Proof. exact int64_roundtrip. Qed.
Print Assumptions int64_field_roundtrip.

Example int64_field_roundtrip_instance : le 8 (-2) = [254; 255; 255; 255; 255; 255; 255; 255].
Proof. vm_compute. reflexivity. Qed.

(* ---- the headline theorems ---- *)

(* Decoding the record message per the document recovers the record's fields exactly, for ALL records
   whose fields fit their header fields ([fits], Spec.v: channel < 2^16, presamples and length < 2^32,
   samples 16 bit, float32 patterns < 2^32, time and frame signed 64 bit). *)
Theorem record_message_roundtrip :
  forall r : record, fits r ->
    decode_record (record_msg r) =
      Some {| f_chan := r_chan r; f_signed := r_signed r; f_pre := r_pre r; f_nsamp := zlen (r_data r);
              f_period := r_period r; f_vpa := r_vpa r; f_time := r_time r; f_frame := r_frame r;
              f_samples := r_data r |}.
Proof. exact record_roundtrip. Qed.
Print Assumptions record_message_roundtrip.

Theorem summary_message_roundtrip :
  forall r : record, fits r ->
    decode_summary (summary_msg r) =
      Some {| s_chan := r_chan r; s_pre := r_pre r; s_nsamp := zlen (r_data r);
              s_ptmean := r_ptmean r; s_peak := r_peak r; s_rms := r_rms r; s_avg := r_avg r;
              s_resid := r_resid r; s_time := r_time r; s_frame := r_frame r; s_coefs := r_coefs r |}.
Proof. exact summary_roundtrip. Qed.
Print Assumptions summary_message_roundtrip.

(* the premise is satisfiable by a record with negative time, frame >= 2^32, +Inf and NaN analysis values *)
Example fits_instance : fits example_record.
Proof. exact example_fits. Qed.

(* the decoder applied to a message written by hand from the document's table; the model gives those bytes *)
Example decode_instance :
  decode_record [[2; 1;  0;  3;  1; 0; 0; 0;  3; 0; 0; 0;  189; 55; 134; 53;  0; 0; 128; 56;
                  255; 255; 255; 255; 255; 255; 255; 255;  0; 0; 0; 0; 1; 0; 0; 0];
                 [1; 0; 255; 255; 1; 2]]
  = Some {| f_chan := 258; f_signed := false; f_pre := 1; f_nsamp := 3; f_period := 897988541;
            f_vpa := 947912704; f_time := -1; f_frame := 4294967296; f_samples := [1; 65535; 513] |}
  /\ record_msg example_record =
     [[2; 1;  0;  3;  1; 0; 0; 0;  3; 0; 0; 0;  189; 55; 134; 53;  0; 0; 128; 56;
       255; 255; 255; 255; 255; 255; 255; 255;  0; 0; 0; 0; 1; 0; 0; 0];
      [1; 0; 255; 255; 1; 2]].
Proof. exact (conj example_decode_literal example_model_literal). Qed.

(* both messages have two frames; the headers are 36 and 48 bytes — for every record, no premise *)
Theorem header_lengths :
  forall r : record,
    length (record_msg r) = 2%nat /\ length (summary_msg r) = 2%nat /\
    zlen (nth 0 (record_msg r) []) = 36 /\ zlen (nth 0 (summary_msg r) []) = 48.
Proof. exact header_lengths_proof. Qed.
Print Assumptions header_lengths.

(* the second frame is exactly 2 bytes per sample / 8 bytes per coefficient — for every record *)
Theorem payload_length :
  forall r : record,
    zlen (nth 1 (record_msg r) []) = 2 * zlen (r_data r) /\
    zlen (nth 1 (summary_msg r) []) = 8 * zlen (r_coefs r).
Proof. exact payload_length_proof. Qed.
Print Assumptions payload_length.

(* the first two bytes of either message are the little-endian channel number *)
Theorem prefix_is_channel :
  forall r : record, 0 <= r_chan r < 2 ^ 16 ->
    zfirstn 2 (nth 0 (record_msg r) []) = [r_chan r mod 256; r_chan r / 256] /\
    zfirstn 2 (nth 0 (summary_msg r) []) = [r_chan r mod 256; r_chan r / 256] /\
    unle [r_chan r mod 256; r_chan r / 256] = r_chan r.
Proof. exact prefix_is_channel_proof. Qed.
Print Assumptions prefix_is_channel.

(* ... hence a 2-byte ZMQ subscription prefix selects exactly one channel *)
Theorem prefix_separates_channels :
  forall r1 r2 : record, 0 <= r_chan r1 < 2 ^ 16 -> 0 <= r_chan r2 < 2 ^ 16 ->
    (zfirstn 2 (nth 0 (record_msg r1) []) = zfirstn 2 (nth 0 (record_msg r2) []) \/
     zfirstn 2 (nth 0 (summary_msg r1) []) = zfirstn 2 (nth 0 (summary_msg r2) [])) ->
    r_chan r1 = r_chan r2.
Proof. exact prefix_separates_proof. Qed.
Print Assumptions prefix_separates_channels.

(* the 8-byte frame field read as unsigned (as the Go comments describe it) is the frame when it is >= 0 *)
Theorem frame_unsigned_reading :
  forall r : record, 0 <= r_frame r < 2 ^ 63 ->
    uint_at (nth 0 (record_msg r) []) 28 8 = r_frame r /\
    uint_at (nth 0 (summary_msg r) []) 40 8 = r_frame r.
Proof. exact frame_unsigned_proof. Qed.
Print Assumptions frame_unsigned_reading.

(* ---- the checker used on the implementation's frames ---- *)

(* model output passes the checker (so verdict code 3 cannot occur inside the domain) *)
Theorem model_passes_checker :
  forall r : record, fits r -> C14_check r (record_msg r) (summary_msg r) = true.
Proof. exact model_passes_checker_proof. Qed.
Print Assumptions model_passes_checker.

(* what acceptance means for ANY observed frames, independent of the model *)
Theorem checker_sound :
  forall (r : record) (recmsg summsg : list (list Z)),
    C14_check r recmsg summsg = true ->
    decode_record recmsg = Some (rec_fields_of r) /\
    decode_summary summsg = Some (sum_fields_of r) /\
    (exists h p, recmsg = [h; p] /\ zlen h = 36 /\ zlen p = 2 * zlen (r_data r) /\
                 zfirstn 2 h = [r_chan r mod 256; r_chan r / 256]) /\
    (exists h p, summsg = [h; p] /\ zlen h = 48 /\ zlen p = 8 * zlen (r_coefs r) /\
                 zfirstn 2 h = [r_chan r mod 256; r_chan r / 256]).
Proof. exact checker_sound_proof. Qed.
Print Assumptions checker_sound.

(* the document leaves no slack: frames accepted for r are byte for byte the model's frames *)
Theorem checker_tight :
  forall (r : record) (recmsg summsg : list (list Z)),
    C14_check r recmsg summsg = true -> recmsg = record_msg r /\ summsg = summary_msg r.
Proof. exact checker_tight_proof. Qed.
Print Assumptions checker_tight.

(* ... and nothing at all is accepted for a record outside the domain: the range premises of the round-trip
   theorems are forced by the fixed-width fields, not chosen for convenience.  Altogether: *)
Theorem checker_characterisation :
  forall (r : record) (recmsg summsg : list (list Z)),
    C14_check r recmsg summsg = true <-> fits r /\ recmsg = record_msg r /\ summsg = summary_msg r.
Proof. exact checker_characterisation_proof. Qed.
Print Assumptions checker_characterisation.

(* ---- batches: a message that is held while later messages are built ---- *)

(* the model's messages for any list of in-domain records pass the batch checker together ... *)
Theorem batch_passes_checker :
  forall rs : list record, Forall fits rs ->
    C14_check_batch (map (fun r => (r, record_msg r, summary_msg r)) rs) = true.
Proof. exact batch_passes_proof. Qed.
Print Assumptions batch_passes_checker.

(* ... and the batch checker accepts exactly the batches in which EVERY held message is still, byte for byte,
   the message of its own record (whatever was built after it) *)
Theorem batch_characterisation :
  forall b : list (record * list (list Z) * list (list Z)),
    C14_check_batch b = true <->
    Forall (fun t => fits (fst (fst t)) /\ snd (fst t) = record_msg (fst (fst t)) /\
                     snd t = summary_msg (fst (fst t))) b.
Proof. exact batch_characterisation_proof. Qed.
Print Assumptions batch_characterisation.

(* what is accepted of a port: the messages of the published records, each still its own, and no other message *)
Theorem port_characterisation :
  forall (b : list (record * list (list Z) * list (list Z))) (stray : list (list (list Z))),
    C14_check_port b stray = true <->
    stray = [] /\
    Forall (fun t => fits (fst (fst t)) /\ snd (fst t) = record_msg (fst (fst t)) /\
                     snd t = summary_msg (fst (fst t))) b.
Proof. exact port_characterisation_proof. Qed.
Print Assumptions port_characterisation.
