(* C14 — the property as a checker over OBSERVABLES only: the record handed to the message builder and
   the byte frames it returned.  The decoders below are written from /repo/doc/BINARY_FORMATS.md (the
   text is quoted next to each clause), NOT from the encoder; nothing in this file calls the model
   ([C14.Model] is imported for the type [record] of the inputs only).

   doc/BINARY_FORMATS.md, "Binary format for triggered data records", Message Version 0:
     "Triggered data records go into a 2-frame ZMQ message. The first frame contains the header, which is
      36 bytes long. The second frame is the raw record data, which is of variable length and packed in
      little-endian byte order. The header also contains little-endian values:
        Byte 0 (2 bytes): channel number
        Byte 2 (1 byte):  header version number (0 in this version)
        Byte 3 (1 byte):  data type code (see below)
        Byte 4 (4 bytes): samples before trigger
        Byte 8 (4 bytes): samples in record
        Byte 12 (4 bytes): sample period in seconds (float)
        Byte 16 (4 bytes): volts per arb (float)
        Byte 20 (8 bytes): trigger time (nanoseconds since 1 Jan 1970)
        Byte 28 (8 bytes): trigger frame index
      Because the channel number makes up the first 2 bytes, ZMQ subscriber sockets can subscribe
      selectively to only certain channels.
      Data type code: so far, only uint16 and int16 are allowed.  ... 2 = int16, 3 = uint16 ..."

   doc/BINARY_FORMATS.md, "Binary format for triggered data summaries", Message Version 0:
        Byte 0 (2 bytes): channel number
        Byte 2 (2 byte):  header version number (0 in this version)
        Byte 4 (4 bytes): samples before trigger
        Byte 8 (4 bytes): samples in record
        Byte 12 (4 bytes): pretrigger mean value
        Byte 16 (4 bytes): peak value (pretrigger mean subtracted first)
        Byte 20 (4 bytes): pulse RMS (pretrigger mean subtracted first)
        Byte 24 (4 bytes): pulse average (pretrigger mean subtracted first)
        Byte 28 (4 bytes): residual standard deviation (basis vectors projected out first)
        Byte 32 (8 bytes): trigger time (nanoseconds since 1 Jan 1970)
        Byte 40 (8 bytes): trigger frame index
     "The second frame consists of the projection coefficients, from the linear projection into the basis.
      The coefficients are float64, and the size of the second frame should be 8 times the number of
      coefficients."
   The summary header is 48 bytes (last field: byte 40 + 8).  Until /repo commit 9af8301 the prose of that
   section said "the header, which is 36 bytes long" (a copy of the records section) in contradiction with
   its own field table; the property statement (properties.jsonl C14) says "the documented 48-byte header",
   the code writes 48 bytes, and the document was corrected.

   Floats are not interpreted: a float field is recovered as its IEEE bit pattern (an integer below 2^32 /
   2^64).  Trigger time is a signed count of nanoseconds (times before 1970 are negative) and Go's frame
   index is an int64, so both 8-byte fields are read as two's complement. *)
From Dastard Require Import Common.ZX C14.Model.

(* ---------- reading little-endian integers ---------- *)

(* value of a little-endian byte string of any length *)
Fixpoint unle (bs : list Z) : Z :=
  match bs with
  | [] => 0
  | b :: rest => b + 256 * unle rest
  end.

Definition is_byte (b : Z) : bool := (0 <=? b) && (b <? 256).
Definition bytes_ok (bs : list Z) : bool := forallb is_byte bs.

(* "Byte off (len bytes)": the unsigned little-endian value stored there *)
Definition uint_at (frame : list Z) (off len : Z) : Z := unle (zslice frame off len).

(* two's-complement reading of an unsigned [bits]-bit value *)
Definition twos (bits u : Z) : Z := if u <? 2 ^ (bits - 1) then u else u - 2 ^ bits.

Definition int64_at (frame : list Z) (off : Z) : Z := twos 64 (uint_at frame off 8).

(* a frame of 16-bit little-endian words / of 64-bit little-endian words *)
Fixpoint words16 (bs : list Z) : list Z :=
  match bs with
  | b0 :: b1 :: rest => unle [b0; b1] :: words16 rest
  | _ => []
  end.

Fixpoint words64 (bs : list Z) : list Z :=
  match bs with
  | b0 :: b1 :: b2 :: b3 :: b4 :: b5 :: b6 :: b7 :: rest =>
      unle [b0; b1; b2; b3; b4; b5; b6; b7] :: words64 rest
  | _ => []
  end.

(* ---------- record messages ---------- *)

Record rec_fields := {
  f_chan : Z;              (* channel number *)
  f_signed : bool;         (* data type code 2 (int16) -> true, 3 (uint16) -> false *)
  f_pre : Z;               (* samples before trigger *)
  f_nsamp : Z;             (* samples in record *)
  f_period : Z;            (* sample period, float32 bit pattern *)
  f_vpa : Z;               (* volts per arb, float32 bit pattern *)
  f_time : Z;              (* trigger time, ns since 1970, signed *)
  f_frame : Z;             (* trigger frame index, signed *)
  f_samples : list Z       (* the samples as 16-bit patterns *)
}.

(* Decoder for "Message Version 0" of a triggered record.  It refuses (None) anything the document does
   not describe: not two frames, header not 36 bytes, version not 0, data type other than int16/uint16,
   second frame not exactly 2 bytes per "samples in record". *)
Definition decode_record (msg : list (list Z)) : option rec_fields :=
  match msg with
  | [hdr; payload] =>
      let version := uint_at hdr 2 1 in
      let dtype := uint_at hdr 3 1 in
      let nsamp := uint_at hdr 8 4 in
      if (zlen hdr =? 36) && bytes_ok hdr && bytes_ok payload
         && (version =? 0) && ((dtype =? 2) || (dtype =? 3))
         && (zlen payload =? 2 * nsamp)
      then Some {| f_chan := uint_at hdr 0 2;
                   f_signed := dtype =? 2;
                   f_pre := uint_at hdr 4 4;
                   f_nsamp := nsamp;
                   f_period := uint_at hdr 12 4;
                   f_vpa := uint_at hdr 16 4;
                   f_time := int64_at hdr 20;
                   f_frame := int64_at hdr 28;
                   f_samples := words16 payload |}
      else None
  | _ => None
  end.

(* ---------- summary messages ---------- *)

Record sum_fields := {
  s_chan : Z;
  s_pre : Z;
  s_nsamp : Z;
  s_ptmean : Z;            (* the five analysis values: float32 bit patterns *)
  s_peak : Z;
  s_rms : Z;
  s_avg : Z;
  s_resid : Z;
  s_time : Z;
  s_frame : Z;
  s_coefs : list Z         (* projection coefficients: float64 bit patterns *)
}.

(* Decoder for "Message Version 0" of a summary: two frames, 48-byte header, version 0, second frame a
   whole number of 8-byte coefficients. *)
Definition decode_summary (msg : list (list Z)) : option sum_fields :=
  match msg with
  | [hdr; payload] =>
      let version := uint_at hdr 2 2 in
      if (zlen hdr =? 48) && bytes_ok hdr && bytes_ok payload
         && (version =? 0) && (zlen payload mod 8 =? 0)
      then Some {| s_chan := uint_at hdr 0 2;
                   s_pre := uint_at hdr 4 4;
                   s_nsamp := uint_at hdr 8 4;
                   s_ptmean := uint_at hdr 12 4;
                   s_peak := uint_at hdr 16 4;
                   s_rms := uint_at hdr 20 4;
                   s_avg := uint_at hdr 24 4;
                   s_resid := uint_at hdr 28 4;
                   s_time := int64_at hdr 32;
                   s_frame := int64_at hdr 40;
                   s_coefs := words64 payload |}
      else None
  | _ => None
  end.

(* ---------- what decoding must recover: the record's own fields ---------- *)

Definition rec_fields_of (r : record) : rec_fields :=
  {| f_chan := r_chan r; f_signed := r_signed r; f_pre := r_pre r; f_nsamp := zlen (r_data r);
     f_period := r_period r; f_vpa := r_vpa r; f_time := r_time r; f_frame := r_frame r;
     f_samples := r_data r |}.

Definition sum_fields_of (r : record) : sum_fields :=
  {| s_chan := r_chan r; s_pre := r_pre r; s_nsamp := zlen (r_data r);
     s_ptmean := r_ptmean r; s_peak := r_peak r; s_rms := r_rms r; s_avg := r_avg r;
     s_resid := r_resid r; s_time := r_time r; s_frame := r_frame r; s_coefs := r_coefs r |}.

Definition rec_fields_eqb (a b : rec_fields) : bool :=
  (f_chan a =? f_chan b) && Bool.eqb (f_signed a) (f_signed b) && (f_pre a =? f_pre b)
  && (f_nsamp a =? f_nsamp b) && (f_period a =? f_period b) && (f_vpa a =? f_vpa b)
  && (f_time a =? f_time b) && (f_frame a =? f_frame b) && zlist_eqb (f_samples a) (f_samples b).

Definition sum_fields_eqb (a b : sum_fields) : bool :=
  (s_chan a =? s_chan b) && (s_pre a =? s_pre b) && (s_nsamp a =? s_nsamp b)
  && (s_ptmean a =? s_ptmean b) && (s_peak a =? s_peak b) && (s_rms a =? s_rms b)
  && (s_avg a =? s_avg b) && (s_resid a =? s_resid b)
  && (s_time a =? s_time b) && (s_frame a =? s_frame b) && zlist_eqb (s_coefs a) (s_coefs b).

(* the two bytes a ZMQ subscriber must use as its subscription prefix for channel c *)
Definition channel_prefix (c : Z) : list Z := [c mod 256; c / 256].

(* ---------- the checker ---------- *)

(* frame sizes and the subscription prefix, stated on the raw frames (no decoding involved) *)
Definition shape_ok (r : record) (hdrlen bytes_per_item nitems : Z) (msg : list (list Z)) : bool :=
  match msg with
  | [hdr; payload] =>
      (zlen hdr =? hdrlen) && (zlen payload =? bytes_per_item * nitems)
      && zlist_eqb (zfirstn 2 hdr) (channel_prefix (r_chan r))
  | _ => false
  end.

Definition check_record_msg (r : record) (msg : list (list Z)) : bool :=
  match decode_record msg with
  | Some f => rec_fields_eqb f (rec_fields_of r)
  | None => false
  end && shape_ok r 36 2 (zlen (r_data r)) msg.

Definition check_summary_msg (r : record) (msg : list (list Z)) : bool :=
  match decode_summary msg with
  | Some f => sum_fields_eqb f (sum_fields_of r)
  | None => false
  end && shape_ok r 48 8 (zlen (r_coefs r)) msg.

(* one case = one record, the record message and the summary message built from it *)
Definition C14_check (r : record) (recmsg summsg : list (list Z)) : bool :=
  check_record_msg r recmsg && check_summary_msg r summsg.

(* A batch: several records whose messages were all built before any of them was read (a built message is
   held by its publisher goroutine while other messages are being built).  Every held message must still
   decode to ITS OWN record. *)
Definition C14_check_batch (b : list (record * list (list Z) * list (list Z))) : bool :=
  forallb (fun t => C14_check (fst (fst t)) (snd (fst t)) (snd t)) b.

(* What a subscriber of the two ports may see: the messages of the published records (each still decoding to
   its own record) and NOTHING else - "every record published on the pulse port is a two-part message ...",
   so a message that is not the message of a published record (a keep-alive, a stray frame, several records
   glued into one message) violates the property.  [stray] = the received messages that the harness could not
   attribute to a published record. *)
Definition C14_check_port (b : list (record * list (list Z) * list (list Z)))
                          (stray : list (list (list Z))) : bool :=
  C14_check_batch b && match stray with [] => true | _ => false end.

(* ---------- the domain of the property: records whose fields fit the fixed-width header ---------- *)

Definition fits (r : record) : Prop :=
  0 <= r_chan r < 2 ^ 16 /\                      (* "channel indices 0..65535" *)
  0 <= r_pre r < 2 ^ 32 /\
  zlen (r_data r) < 2 ^ 32 /\
  Forall (fun v => 0 <= v < 2 ^ 16) (r_data r) /\   (* RawType = uint16 *)
  0 <= r_period r < 2 ^ 32 /\ 0 <= r_vpa r < 2 ^ 32 /\     (* float32 bit patterns *)
  - 2 ^ 63 <= r_time r < 2 ^ 63 /\               (* int64 *)
  - 2 ^ 63 <= r_frame r < 2 ^ 63 /\              (* FrameIndex = int64 *)
  0 <= r_ptmean r < 2 ^ 32 /\ 0 <= r_peak r < 2 ^ 32 /\ 0 <= r_rms r < 2 ^ 32 /\
  0 <= r_avg r < 2 ^ 32 /\ 0 <= r_resid r < 2 ^ 32 /\
  Forall (fun v => 0 <= v < 2 ^ 64) (r_coefs r).   (* float64 bit patterns *)

Definition in_range (lo hi v : Z) : bool := (lo <=? v) && (v <? hi).

Definition fits_b (r : record) : bool :=
  in_range 0 (2 ^ 16) (r_chan r) && in_range 0 (2 ^ 32) (r_pre r) && (zlen (r_data r) <? 2 ^ 32)
  && forallb (in_range 0 (2 ^ 16)) (r_data r)
  && in_range 0 (2 ^ 32) (r_period r) && in_range 0 (2 ^ 32) (r_vpa r)
  && in_range (- 2 ^ 63) (2 ^ 63) (r_time r) && in_range (- 2 ^ 63) (2 ^ 63) (r_frame r)
  && in_range 0 (2 ^ 32) (r_ptmean r) && in_range 0 (2 ^ 32) (r_peak r) && in_range 0 (2 ^ 32) (r_rms r)
  && in_range 0 (2 ^ 32) (r_avg r) && in_range 0 (2 ^ 32) (r_resid r)
  && forallb (in_range 0 (2 ^ 64)) (r_coefs r).
