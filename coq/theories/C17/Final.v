(* C17 — assembly: the ownership monitor accepts every execution of the repaired protocol, hence every
   execution is race free; the computed check agrees. *)
From Coq Require Import List Arith Bool Lia.
Import ListNotations.
From Dastard Require Import C17.Conc C17.ConcProofs C17.ClockProofs C17.Model C17.Spec C17.Proofs
  C17.FamHdr C17.FamSeg C17.FamProc C17.FamWs C17.FamMisc C17.Refute.

Lemma WFtrue_step n s a s' ev : WFtrue s -> step fixed n s a = Some (s', ev) -> WFtrue s'.
Proof. intros; exact Logic.I. Qed.

(* per location: the one-location monitor never rejects *)
Lemma loc_accepted n sched l :
  mon1_run l (holders0 fixed l) (exec fixed n sched) <> None.
Proof.
  unfold exec.
  destruct l as [ | | | k i | k | i | k i ph | x | | j | | | | | fi | | ].
  - apply (fam_run n WFtrue _ _ (WFtrue_step n) (fam_next n)); [exact Logic.I | apply (proj1 (fam_next n))].
  - apply (fam_run n WFtrue _ _ (WFtrue_step n) (fam_etrig n)); [exact Logic.I | apply (proj1 (fam_etrig n))].
  - apply (fam_run n WFtrue _ _ (WFtrue_step n) (fam_timing n)); [exact Logic.I | apply (proj1 (fam_timing n))].
  - apply (fam_run n (WFseg n) _ _ (WFseg_step n) (fam_seg n k i)); [apply WFseg_init | apply (proj1 (fam_seg n k i))].
  - apply (fam_run n (WF1 n) _ _ (WF1_step n) (fam_hdr n k)); [apply WF1_init | apply (proj1 (fam_hdr n k))].
  - apply (fam_run n (WFproc n) _ _ (WFproc_step n) (fam_proc n i)); [apply WFproc_init | apply (proj1 (fam_proc n i))].
  - apply (fam_run n (WFproc n) _ _ (WFproc_step n) (fam_rec n k i ph)); [apply WFproc_init | apply (proj1 (fam_rec n k i ph))].
  - apply (fam_run n (WFproc n) _ _ (WFproc_step n) (fam_rate n x)); [apply WFproc_init | apply (proj1 (fam_rate n x))].
  - apply (fam_run n WFtrue _ _ (WFtrue_step n) (fam_arch n)); [exact Logic.I | apply (proj1 (fam_arch n))].
  - apply (fam_run n WFsnap _ _ (WFsnap_step n) (fam_snap n j)); [apply WFsnap_init | apply (proj1 (fam_snap n j))].
  - apply (fam_run n (WFq n) _ _ (WFq_step n) (fam_ws n)); [apply WFq_init | apply (proj1 (fam_ws n))].
  - apply (fam_run n (WFq n) _ _ (WFq_step n) (fam_cnt n)); [apply WFq_init | apply (proj1 (fam_cnt n))].
  - apply (fam_run n (WFq n) _ _ (WFq_step n) (fam_paused n)); [apply WFq_init | apply (proj1 (fam_paused n))].
  - apply (fam_run n (WFq n) _ _ (WFq_step n) (fam_status n)); [apply WFq_init | apply (proj1 (fam_status n))].
  - apply (fam_run n WFtrue _ _ (WFtrue_step n) (fam_file n fi)); [exact Logic.I | apply (proj1 (fam_file n fi))].
  - apply (fam_run n WFtrue _ _ (WFtrue_step n) (fam_state n)); [exact Logic.I | apply (proj1 (fam_state n))].
  - apply (fam_run n WFtrue _ _ (WFtrue_step n) (fam_mix n)); [exact Logic.I | apply (proj1 (fam_mix n))].
Qed.

(* every access of every execution is made by a holder of the location, and ownership moves only along
   synchronisation edges *)
Theorem model_accepted_thm (n : nat) (sched : list act) :
  monitor_accepts fixed (exec fixed n sched) = true.
Proof.
  unfold monitor_accepts.
  destruct (Conc.mon_run tid mid loc tid_dec mid_dec loc_dec (holders0 fixed) (exec fixed n sched)) eqn:E; [reflexivity|].
  exfalso. revert E.
  apply (ConcProofs.mon_run_pointwise tid mid loc tid_dec mid_dec loc_dec). intro l. apply loc_accepted.
Qed.

Theorem ownership_race_free_thm (n : nat) (sched : list act) : RaceFree (exec fixed n sched).
Proof.
  apply (ConcProofs.monitor_sound_thm tid mid loc tid_dec mid_dec loc_dec (holders0 fixed)).
  pose proof (model_accepted_thm n sched) as A. unfold monitor_accepts in A.
  destruct (Conc.mon_run tid mid loc tid_dec mid_dec loc_dec (holders0 fixed) (exec fixed n sched)); congruence.
Qed.

Theorem monitor_sound_gen (v : variant) (p : trace) : monitor_accepts v p = true -> RaceFree p.
Proof.
  unfold monitor_accepts. intro A.
  apply (ConcProofs.monitor_sound_thm tid mid loc tid_dec mid_dec loc_dec (holders0 v)).
  destruct (Conc.mon_run tid mid loc tid_dec mid_dec loc_dec (holders0 v) p); congruence.
Qed.

Theorem check_log_iff (p : trace) : C17_check_log p = true <-> RaceFree p.
Proof. apply (race_free_b_iff_thm tid mid loc tid_dec mid_dec loc_dec). Qed.

(* the model's executions pass the observable checker: the statement used by the correspondence check *)
Theorem model_passes_checker_thm (n : nat) (sched : list act) : C17_check_log (exec fixed n sched) = true.
Proof. apply check_log_iff. apply ownership_race_free_thm. Qed.

Theorem refuted_pre_fix_thm :
  ~ RaceFree (exec only_next 1 w_next) /\ ~ RaceFree (exec only_nsamp 2 w_nsamp) /\
  ~ RaceFree (exec only_etrig 1 w_etrig) /\ ~ RaceFree (exec only_arch 1 w_arch) /\
  ~ RaceFree (exec only_cnt 1 w_cnt) /\ ~ RaceFree (exec pre_fix 2 (one_block 2 ++ w_arch)).
Proof.
  destruct witnesses_racy as (A & B & C & D & E & _ & G).
  repeat split; now apply racy_not_race_free.
Qed.

Theorem refuted_rate_shared_thm : ~ RaceFree (exec only_rate 1 w_rate).
Proof. destruct witnesses_racy as (_ & _ & _ & _ & _ & F & _). now apply racy_not_race_free. Qed.

(* the hypothesis of [monitor_sound_gen] is met by non-trivial traces: a complete block with two channels
   followed by an archive request that fills, 112 events *)
Example monitor_sound_hypothesis_met :
  monitor_accepts fixed (exec fixed 2 (one_block 2 ++ w_arch)) = true /\
  length (exec fixed 2 (one_block 2 ++ w_arch)) = 112.
Proof. vm_compute. split; reflexivity. Qed.
