(* C17 — evaluation of generated cases.
   Conf n log : a logged execution of the real program (n channels), translated by the harness into the
                event vocabulary of Model.v (releases carry no payload).
                  agree  = the ownership monitor of the model accepts the log once every release is given
                           the payload that the MODEL's protocol assigns to its message (every access
                           is made by a holder of that phase, hand-overs only along synchronisation edges)
                  check  = C17_check_log log  (no two conflicting accesses unordered by happens-before)
   Race reps  : the Go race detector's reports for one run (location numbers); agree = check = "none".
   Crashed    : the process died while the case ran (a panic inside dastard): no observation; verdict code 2. *)
From Coq Require Import List Arith Bool ZArith.
Import ListNotations.
From Dastard Require Import Common.CaseLib C17.Conc C17.Model C17.Spec.

Inductive case :=
| Conf (n : nat) (log : trace)
| Race (reports : list nat)
| Crashed.            (* the pipeline died under the workload: nothing to evaluate (reported as a mismatch) *)

(* the protocol's payload of each message *)
Definition payload_of (n : nat) (t : tid) (m : mid) : list (loc * bool) :=
  match m with
  | MBuf k | MBlk k => block_payload n k
  | MAFork k i | MADone k i => [(LSeg k i, false)]
  | MGo _ | MXGo _ => []
  | MF _ k i | MD _ k i => [(LProc i, false); (LSeg k i, false)]
  | MPub k i x => [(LRec k i (x mod 2), true)]
  | MRate x => [(LRate x, false)]
  | MReq _ => [(LStatus, false); (LWsPaused, false)]
  | MRes _ => [(LStatus, false); (LWsPaused, true)]
  | MWs => match t with TC => [(LWs, true); (LWsCnt, false)] | _ => [(LWs, false); (LWsCnt, false)] end
  | MSnap j => [(LSnap j, false)]
  | MState => [(LState, false)]
  | MMix | MMixR => []
  end.

Definition annotate (n : nat) (p : trace) : trace :=
  map (fun e => match e with Rel t m _ => Rel t m (payload_of n t m) | _ => e end) p.

Definition first_reject (n : nat) (p : trace) : nat :=
  Conc.mon_first_reject tid mid loc tid_dec mid_dec loc_dec (holders0 fixed) (annotate n p) 0.

Definition verdict (c : case) : Z * Z :=
  match c with
  | Conf n log =>
      let agree := monitor_accepts fixed (annotate n log) in
      let chk := C17_check_log log in
      (verdict_code agree chk,
       if chk then (if agree then (-1)%Z else Z.of_nat (first_reject n log))
       else match C17_races log with (i, j) :: _ => Z.of_nat j | [] => (-1)%Z end)
  | Race reps =>
      let ok := C17_check_reports reps in
      (verdict_code ok ok, match reps with r :: _ => Z.of_nat r | [] => (-1)%Z end)
  | Crashed => (verdict_code false true, (-1)%Z)
  end.

(* ---- compact constructors for generated files (numbers are Z there) ---- *)
Local Notation N_ := Z.to_nat.
Definition tR := TR.  Definition tA := TA.  Definition tC := TC.  Definition tP := TP.
Definition tU := TU.  Definition tQ := TQ.
Definition tAW (i : Z) := TAW (N_ i).
Definition tW (i : Z) := TW (N_ i).
Definition tX (j : Z) := TX (N_ j).
Definition lNext := LNext.  Definition lETrig := LETrig.  Definition lTiming := LTiming.
Definition lSeg (k i : Z) := LSeg (N_ k) (N_ i).
Definition lHdr (k : Z) := LHdr (N_ k).
Definition lProc (i : Z) := LProc (N_ i).
Definition lRec (k i ph : Z) := LRec (N_ k) (N_ i) (N_ ph).
Definition lRate (x : Z) := LRate (N_ x).
Definition lArch := LArch.
Definition lSnap (j : Z) := LSnap (N_ j).
Definition lWs := LWs.  Definition lWsCnt := LWsCnt.  Definition lWsPaused := LWsPaused.  Definition lStatus := LStatus.
Definition mBuf (k : Z) := MBuf (N_ k).
Definition mAFork (k i : Z) := MAFork (N_ k) (N_ i).
Definition mADone (k i : Z) := MADone (N_ k) (N_ i).
Definition mBlk (k : Z) := MBlk (N_ k).
Definition mGo (k : Z) := MGo (N_ k).
Definition mF (ph k i : Z) := MF (N_ ph) (N_ k) (N_ i).
Definition mD (ph k i : Z) := MD (N_ ph) (N_ k) (N_ i).
Definition mPub (k i x : Z) := MPub (N_ k) (N_ i) (N_ x).
Definition mRate (x : Z) := MRate (N_ x).
Definition mReq (r : Z) := MReq (N_ r).
Definition mRes (r : Z) := MRes (N_ r).
Definition mWs := MWs.
Definition mXGo (j : Z) := MXGo (N_ j).
Definition mSnap (j : Z) := MSnap (N_ j).
Definition mState := MState.
Definition tF (i : Z) := TF (N_ i).
Definition lFile (i : Z) := LFile (N_ i).
Definition lState := LState.
Definition lMix := LMix.
Definition mMix := MMix.
Definition mMixR := MMixR.
Definition r_ (t : tid) (l : loc) : event := Acc t l false false.
Definition w_ (t : tid) (l : loc) : event := Acc t l true false.
Definition ar_ (t : tid) (l : loc) : event := Acc t l false true.
Definition aw_ (t : tid) (l : loc) : event := Acc t l true true.
Definition rel_ (t : tid) (m : mid) : event := Rel t m [].
Definition acq_ (t : tid) (m : mid) : event := Acq t m.
Definition conf (n : Z) (log : trace) : case := Conf (N_ n) log.
Definition race (reps : list Z) : case := Race (map N_ reps).
Definition crashed : case := Crashed.
