From Coq Require Import List Arith Bool Lia.
Import ListNotations.
(* C17 — family LSeg k i (channel i of buffers message / block k): one holder at any time,
   reader -> MBuf k -> assembler -> (MAFork k i -> per-channel goroutine -> MADone k i -> assembler)
   -> MBlk k -> core loop -> twice (MF ph k i -> worker -> MD ph k i -> core loop). *)
From Dastard Require Import C17.Conc C17.ConcProofs C17.Model C17.Spec C17.Proofs.

(* ------------------------------------------------------------------ the owner as a function of the state *)

Definition own_a (s : st) (k i : nat) : H :=
  if apc s =? 2
  then (if i <? afc s then (if awdone s i then HM (MADone k i) else HM (MAFork k i)) else HT TA)
  else if apc s =? 3
       then (if i <? ajc s then HT TA else (if awdone s i then HM (MADone k i) else HM (MAFork k i)))
       else HT TA.

Definition own_c (s : st) (k i : nat) : H :=
  if cpc s =? 3
  then (if i <? cfc s then (if wdone s i then HM (MD (cph s) k i) else HM (MF (cph s) k i)) else HT TC)
  else if cpc s =? 4
       then (if i <? cjc s then HT TC else (if wdone s i then HM (MD (cph s) k i) else HM (MF (cph s) k i)))
       else HT TC.

Definition owner_seg (n : nat) (s : st) (k i : nat) : H :=
  if n <=? i then HT TR
  else if rk s <=? k then HT TR
  else if k <? ak s
       then (if k <? ck s then HT TC
             else if k =? ck s
                  then (if 2 <=? cpc s then (if cpc s <=? 7 then own_c s k i else HM (MBlk k)) else HM (MBlk k))
                  else HM (MBlk k))
       else if k =? ak s
            then (if 2 <=? apc s then own_a s k i else HM (MBuf k))
            else HM (MBuf k).

Definition Hi_seg (k i : nat) (h : H) : Prop :=
  h = HT TR \/ h = HT TA \/ h = HT TC \/ h = HM (MBuf k) \/ h = HM (MAFork k i) \/ h = HM (MADone k i) \/
  h = HM (MBlk k) \/ (exists ph, h = HM (MF ph k i)) \/ (exists ph, h = HM (MD ph k i)).

Lemma owner_seg_Hi n s k i : Hi_seg k i (owner_seg n s k i).
Proof.
  unfold owner_seg, own_a, own_c, Hi_seg.
  repeat match goal with |- context [if ?b then _ else _] => destruct b end; eauto 15.
Qed.

Lemma owner_seg_big n s k i : n <= i -> owner_seg n s k i = HT TR.
Proof. intro L. unfold owner_seg. destruct (Nat.leb_spec n i); [reflexivity | lia]. Qed.

Definition I_seg (n k i : nat) (s : st) (o : option (list H)) : Prop :=
  exists hs, o = Some hs /\ only (owner_seg n s k i) hs = true.

(* ------------------------------------------------------------------ what is needed of the model state *)

Record WFseg (n : nat) (s : st) : Prop := {
  ws_ak_rk : ak s <= rk s;
  ws_apc_rk : 2 <= apc s -> ak s < rk s;
  ws_ck_ak : ck s <= ak s;
  ws_cpc_ak : 2 <= cpc s <= 7 -> ck s < ak s;
  ws_afc : afc s <= n;
  ws_cfc : cfc s <= n;
  ws_cjc0 : cpc s = 3 -> cjc s = 0;
  ws_awd : forall j, awdone s j = true -> j < afc s /\ 2 <= apc s;
  ws_awj : forall j, apc s = 3 -> j < ajc s -> awdone s j = true;
  ws_wd : forall j, wdone s j = true -> j < cfc s;
  ws_wj : forall j, cpc s = 4 -> j < cjc s -> wdone s j = true;
}.

Lemma WFseg_init n : WFseg n init.
Proof. constructor; simpl; intros; try lia; discriminate. Qed.

(* [simpl] turns [2 <=? x] and [3 <=? x] into a match: recover the inequality *)
Ltac fix_leb :=
  repeat match goal with
         | X : match ?x with _ => _ end = true |- _ =>
             first [ assert (3 <= x) by (destruct x as [|[|[|?]]]; try discriminate X; lia)
                   | assert (2 <= x) by (destruct x as [|[|?]]; try discriminate X; lia) ];
             clear X
         end.

Ltac wf_q A8 A9 A10 A11 :=
  intros; unfold setb in *;
  repeat match goal with
         | X : (if ?a =? ?b then _ else _) = true |- _ => destruct (Nat.eqb_spec a b)
         | |- (if ?a =? ?b then _ else _) = true => destruct (Nat.eqb_spec a b)
         end;
  first [ lia | discriminate | reflexivity | assumption
        | match goal with X : awdone _ _ = true |- _ => apply A8 in X; lia end
        | match goal with X : wdone _ _ = true |- _ => apply A10 in X; lia end
        | apply A9; lia | apply A11; lia
        | match goal with X : awdone _ ?j = true |- awdone _ ?j' = true =>
            destruct (Nat.eq_dec j' j); [subst; assumption | apply A9; lia] end
        | match goal with X : wdone _ ?j = true |- wdone _ ?j' = true =>
            destruct (Nat.eq_dec j' j); [subst; assumption | apply A11; lia] end
        | subst; lia ].

Lemma WFseg_step n s a s' ev : WFseg n s -> step fixed n s a = Some (s', ev) -> WFseg n s'.
Proof.
  intros [A1 A2 A3 A4 A5 A6 A7 A8 A9 A10 A11] ST.
  destruct a; simpl in ST; break_step ST; fix_leb; constructor; proj; try lia.
  all: wf_q A8 A9 A10 A11.
Qed.

(* ------------------------------------------------------------------ tactics *)

(* decide [owner = owner'] by walking down the nested conditionals, outermost first *)
Ltac dcond c :=
  match c with
  | (?a <? ?b) => destruct (Nat.ltb_spec a b)
  | (?a <=? ?b) => destruct (Nat.leb_spec a b)
  | (?a =? ?b) => destruct (Nat.eqb_spec a b)
  | (if ?d then _ else _) => dcond d
  | _ => destruct c eqn:?
  end.

Ltac own_split :=
  repeat (cbv iota;
          match goal with
          | |- (if ?c then _ else _) = _ => dcond c
          | |- _ = (if ?c then _ else _) => dcond c
          end);
  cbv iota; first [reflexivity | exfalso; lia | congruence].

Ltac own_eq W := destruct W; unfold owner_seg, own_a, own_c, setb; proj; own_split.

(* an equation between locations / holders that is arithmetically impossible *)
Ltac inj_lia :=
  match goal with
  | X : LSeg _ _ = LSeg _ _ |- _ => inversion X; lia
  | X : HM _ = HM _ |- _ => inversion X; lia
  end.

Ltac seg_skip n k i s hs HB O W :=
  solve [ exists (Some hs); split;
    [ apply mon1_run_skip with (Hi := Hi_seg k i); [exact HB | unfold Hi_seg; nomention]
    | exists hs; split; [reflexivity |];
      match goal with |- only (owner_seg _ ?s' ?kk ?ii) ?hh = true =>
         first [exact O | replace (owner_seg n s' kk ii) with (owner_seg n s kk ii); [exact O|]] end;
      own_eq W ] ].

Lemma fam_seg n k i : fam_ok n (WFseg n) (LSeg k i) (I_seg n k i).
Proof.
  split; [exists [HT TR]; split; [reflexivity | ]|].
  { replace (owner_seg n init k i) with (HT TR : H); [apply only_one|].
    unfold owner_seg. simpl. destruct (n <=? i); reflexivity. }
  intros s o a s' ev W (hs & -> & O) ST.
  pose proof (ws_afc _ _ W) as Wafc. pose proof (ws_cfc _ _ W) as Wcfc.
  destruct (Nat.le_gt_cases n i) as [BIG | LT].
  { (* a channel that does not exist: never touched *)
    rewrite owner_seg_big in O by exact BIG.
    assert (HB : forall h, In h hs -> h = HT TR).
    { intros h I. apply only_spec in O as [_ A]. exact (A h I). }
    destruct a as [| | j | c | j pub | | | j | c | j | | c w]; simpl in ST.
    all: break_step ST.
    all: unfold wr, rd, nextacc.
    all: exists (Some hs); split;
      [ apply mon1_run_skip with (Hi := fun h => h = HT TR); [exact HB | nomention; try inj_lia]
      | exists hs; split; [reflexivity | rewrite owner_seg_big by exact BIG; exact O] ]. }
  assert (HB : forall h, In h hs -> Hi_seg k i h).
  { intros h I. apply only_spec in O as [_ A]. rewrite (A h I). apply owner_seg_Hi. }
  destruct a as [| | j | c | j pub | | | j | c | j | | c w]; simpl in ST.
  all: break_step ST.
  all: fix_leb.
  all: unfold wr, rd, nextacc.
  all: try seg_skip n k i s hs HB O W.
  - (* reader tick *)
    destruct (Nat.eq_dec k (rk s)) as [->|NE]; [|seg_skip n k i s hs HB O W].
    assert (E : owner_seg n s (rk s) i = HT TR) by own_eq W.
    rewrite E in O.
    eexists. split.
    + repeat run1.
      rewrite (run_map_acc _ _ TR (fun i0 => LSeg (rk s) i0) true false n) by (left; apply acc_ok1_only; exact O).
      repeat run1. rewrite rel1_block_seg by exact LT. rewrite (only_hmem _ _ O). reflexivity.
    + eexists. split; [reflexivity|].
      replace (owner_seg _ _ (rk s) i) with (HM (MBuf (rk s)) : H); [now apply only_give|].
      own_eq W.
  - (* assembler receives the buffers message *)
    destruct (Nat.eq_dec k (ak s)) as [->|NE]; [|seg_skip n k i s hs HB O W].
    assert (E : owner_seg n s (ak s) i = HM (MBuf (ak s))) by own_eq W.
    rewrite E in O. pose proof (only_take TA _ _ O) as O'.
    eexists. split.
    + repeat run1. reflexivity.
    + eexists. split; [reflexivity|].
      replace (owner_seg _ _ (ak s) i) with (HT TA : H); [exact O'|].
      own_eq W.
  - (* assembler forks the goroutine of channel afc *)
    destruct (Nat.eq_dec k (ak s)) as [->|NE]; [|seg_skip n k i s hs HB O W].
    destruct (Nat.eq_dec i (afc s)) as [->|NE]; [|seg_skip n (ak s) i s hs HB O W].
    assert (AWF : awdone s (afc s) = false).
    { destruct (awdone s (afc s)) eqn:X; [apply (ws_awd _ _ W) in X; lia | reflexivity]. }
    assert (E : owner_seg n s (ak s) (afc s) = HT TA) by own_eq W.
    rewrite E in O.
    eexists. split.
    + repeat run1. rewrite rel1_cons_eq, (only_hmem _ _ O). reflexivity.
    + eexists. split; [reflexivity|].
      replace (owner_seg _ _ (ak s) (afc s)) with (HM (MAFork (ak s) (afc s)) : H); [now apply only_give|].
      own_eq W.
  - (* assembler joins the goroutine of channel ajc *)
    destruct (Nat.eq_dec k (ak s)) as [->|NE]; [|seg_skip n k i s hs HB O W].
    destruct (Nat.eq_dec i (ajc s)) as [->|NE]; [|seg_skip n (ak s) i s hs HB O W].
    assert (E : owner_seg n s (ak s) (ajc s) = HM (MADone (ak s) (ajc s))) by own_eq W.
    rewrite E in O. pose proof (only_take TA _ _ O) as O'.
    eexists. split.
    + repeat run1. reflexivity.
    + eexists. split; [reflexivity|].
      replace (owner_seg _ _ (ak s) (ajc s)) with (HT TA : H); [exact O'|].
      own_eq W.
  - (* assembler sends the block *)
    destruct (Nat.eq_dec k (ak s)) as [->|NE]; [|seg_skip n k i s hs HB O W].
    assert (E : owner_seg n s (ak s) i = HT TA) by own_eq W.
    rewrite E in O.
    eexists. split.
    + repeat run1. rewrite rel1_block_seg by exact LT. rewrite (only_hmem _ _ O). reflexivity.
    + eexists. split; [reflexivity|].
      replace (owner_seg _ _ (ak s) i) with (HM (MBlk (ak s)) : H); [now apply only_give|].
      own_eq W.
  - (* per-channel goroutine of distributeData *)
    destruct (Nat.eq_dec k (ak s)) as [->|NE]; [|seg_skip n k i s hs HB O W].
    destruct (Nat.eq_dec i j) as [->|NE]; [|seg_skip n (ak s) i s hs HB O W].
    assert (AJ : apc s = 3 -> ajc s <= j).
    { intro X. destruct (Nat.le_gt_cases (ajc s) j) as [|Y]; [assumption|].
      apply (ws_awj _ _ W _ X) in Y. congruence. }
    assert (E : owner_seg n s (ak s) j = HM (MAFork (ak s) j)) by own_eq W.
    rewrite E in O. pose proof (only_take (TAW j) _ _ O) as O'.
    eexists. split.
    + repeat run1. rewrite (acc_ok1_only _ _ _ O'). cbv beta iota. repeat run1.
      rewrite rel1_cons_eq, (only_hmem _ _ O'). reflexivity.
    + eexists. split; [reflexivity|].
      replace (owner_seg _ _ (ak s) j) with (HM (MADone (ak s) j) : H); [now apply only_give|].
      own_eq W.
  - (* core loop receives the block *)
    destruct (Nat.eq_dec k (ck s)) as [->|NE]; [|seg_skip n k i s hs HB O W].
    assert (E : owner_seg n s (ck s) i = HM (MBlk (ck s))) by own_eq W.
    rewrite E in O. pose proof (only_take TC _ _ O) as O'.
    eexists. split.
    + repeat run1. reflexivity.
    + eexists. split; [reflexivity|].
      replace (owner_seg _ _ (ck s) i) with (HT TC : H); [exact O'|].
      own_eq W.
  - (* archive copy of the block, archive filled *)
    destruct (Nat.eq_dec k (ck s)) as [->|NE]; [|seg_skip n k i s hs HB O W].
    assert (E : owner_seg n s (ck s) i = HT TC) by own_eq W.
    rewrite E in O.
    exists (Some hs). split.
    + repeat run1.
      rewrite (run_map_acc _ _ TC (fun i0 => LSeg (ck s) i0) false false n) by (left; apply acc_ok1_only; exact O).
      repeat run1. reflexivity.
    + eexists. split; [reflexivity|].
      replace (owner_seg _ _ (ck s) i) with (HT TC : H); [exact O|].
      own_eq W.
  - (* archive copy of the block, archive not yet full *)
    destruct (Nat.eq_dec k (ck s)) as [->|NE]; [|seg_skip n k i s hs HB O W].
    assert (E : owner_seg n s (ck s) i = HT TC) by own_eq W.
    rewrite E in O.
    exists (Some hs). split.
    + repeat run1.
      rewrite (run_map_acc _ _ TC (fun i0 => LSeg (ck s) i0) false false n) by (left; apply acc_ok1_only; exact O).
      repeat run1. reflexivity.
    + eexists. split; [reflexivity|].
      replace (owner_seg _ _ (ck s) i) with (HT TC : H); [exact O|].
      own_eq W.
  - (* core loop forks worker cfc *)
    destruct (Nat.eq_dec k (ck s)) as [->|NE]; [|seg_skip n k i s hs HB O W].
    destruct (Nat.eq_dec i (cfc s)) as [->|NE]; [|seg_skip n (ck s) i s hs HB O W].
    assert (WDF : wdone s (cfc s) = false).
    { destruct (wdone s (cfc s)) eqn:X; [apply (ws_wd _ _ W) in X; lia | reflexivity]. }
    assert (E : owner_seg n s (ck s) (cfc s) = HT TC) by own_eq W.
    rewrite E in O.
    eexists. split.
    + repeat run1. rewrite rel1_cons_ne by discriminate. rewrite rel1_cons_eq, (only_hmem _ _ O). reflexivity.
    + eexists. split; [reflexivity|].
      replace (owner_seg _ _ (ck s) (cfc s)) with (HM (MF (cph s) (ck s) (cfc s)) : H); [now apply only_give|].
      own_eq W.
  - (* core loop joins worker cjc *)
    destruct (Nat.eq_dec k (ck s)) as [->|NE]; [|seg_skip n k i s hs HB O W].
    destruct (Nat.eq_dec i (cjc s)) as [->|NE]; [|seg_skip n (ck s) i s hs HB O W].
    assert (E : owner_seg n s (ck s) (cjc s) = HM (MD (cph s) (ck s) (cjc s))) by own_eq W.
    rewrite E in O. pose proof (only_take TC _ _ O) as O'.
    eexists. split.
    + repeat run1. reflexivity.
    + eexists. split; [reflexivity|].
      replace (owner_seg _ _ (ck s) (cjc s)) with (HT TC : H); [exact O'|].
      own_eq W.
  - (* worker j, publishing *)
    destruct (Nat.eq_dec k (ck s)) as [->|NE]; [|seg_skip n k i s hs HB O W].
    destruct (Nat.eq_dec i j) as [->|NE]; [|seg_skip n (ck s) i s hs HB O W].
    assert (CJ : cpc s = 4 -> cjc s <= j).
    { intro X. destruct (Nat.le_gt_cases (cjc s) j) as [|Y]; [assumption|].
      apply (ws_wj _ _ W _ X) in Y. congruence. }
    assert (E : owner_seg n s (ck s) j = HM (MF (cph s) (ck s) j)) by own_eq W.
    rewrite E in O. pose proof (only_take (TW j) _ _ O) as O'.
    eexists. split.
    + repeat run1. rewrite (acc_ok1_only _ _ _ O'). cbv beta iota.
      repeat run1. rewrite (acc_ok1_only _ _ _ O'). cbv beta iota.
      repeat run1. rewrite rel1_cons_ne by discriminate.
      rewrite rel1_cons_eq, (only_hmem _ _ O'). reflexivity.
    + eexists. split; [reflexivity|].
      replace (owner_seg _ _ (ck s) j) with (HM (MD (cph s) (ck s) j) : H); [now apply only_give|].
      own_eq W.
  - (* worker j, not publishing *)
    destruct (Nat.eq_dec k (ck s)) as [->|NE]; [|seg_skip n k i s hs HB O W].
    destruct (Nat.eq_dec i j) as [->|NE]; [|seg_skip n (ck s) i s hs HB O W].
    assert (CJ : cpc s = 4 -> cjc s <= j).
    { intro X. destruct (Nat.le_gt_cases (cjc s) j) as [|Y]; [assumption|].
      apply (ws_wj _ _ W _ X) in Y. congruence. }
    assert (E : owner_seg n s (ck s) j = HM (MF (cph s) (ck s) j)) by own_eq W.
    rewrite E in O. pose proof (only_take (TW j) _ _ O) as O'.
    eexists. split.
    + repeat run1. rewrite (acc_ok1_only _ _ _ O'). cbv beta iota.
      repeat run1. rewrite (acc_ok1_only _ _ _ O'). cbv beta iota.
      repeat run1. rewrite rel1_cons_ne by discriminate.
      rewrite rel1_cons_eq, (only_hmem _ _ O'). reflexivity.
    + eexists. split; [reflexivity|].
      replace (owner_seg _ _ (ck s) j) with (HM (MD (cph s) (ck s) j) : H); [now apply only_give|].
      own_eq W.
Qed.
