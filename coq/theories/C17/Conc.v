(* C17 — a small kit for reasoning about data races of interleaved executions.

   An execution is a TRACE: the list of events in the order in which they happened.  Events are
   memory accesses (thread, location, write?, atomic?) and the two halves of a synchronisation edge:
   [Rel t m pl] (thread t releases on message m: a channel send or close, a mutex unlock, a
   WaitGroup.Done, a go statement) and [Acq t m] (thread t acquires from m: the matching receive,
   lock, Wait, goroutine start).  The payload [pl] of a release is GHOST information (which
   locations the releasing thread hands over, and whether it keeps a read share); it plays no part
   in the definition of happens-before or of a race.

   Contents
     HB, RaceFree        declarative happens-before (program order + release/acquire + transitivity)
                         and "no two conflicting accesses are unordered"
     preds, hb_b,        happens-before COMPUTED along the execution as a clock per event (the set of
     race_free_b         all earlier events that happen before it, as a bit set; a vector clock is the
                         per-thread compression of this set), with [race_free_b_iff]: the computed
                         verdict is exactly RaceFree
     mon_run             the OWNERSHIP MONITOR: every location has a set of holders (threads, or
                         messages in flight); a thread may read a location it holds, write one it holds
                         alone, hand its share to a message when it releases, and takes over the shares
                         of a message it acquires; "atomic" locations may only be accessed atomically
     monitor_sound       a trace accepted by the monitor is RaceFree  (the invariant "every access is
                         made by a current holder, and ownership changes only along a synchronisation
                         edge")                                                                        *)
From Coq Require Import List Arith Lia Bool NArith.
Import ListNotations.

Section Conc.
Variables tid mid loc : Type.
Variable tid_dec : forall a b : tid, {a = b} + {a <> b}.
Variable mid_dec : forall a b : mid, {a = b} + {a <> b}.
Variable loc_dec : forall a b : loc, {a = b} + {a <> b}.

Inductive event :=
| Acc (t : tid) (l : loc) (w a : bool)            (* access: w = write, a = atomic *)
| Rel (t : tid) (m : mid) (pl : list (loc * bool)) (* release; payload (location, keep-a-read-share?) is ghost *)
| Acq (t : tid) (m : mid).                         (* acquire *)

Definition etid (e : event) : tid :=
  match e with Acc t _ _ _ | Rel t _ _ | Acq t _ => t end.

Definition trace := list event.

(* ------------------------------------------------------------------ happens-before, races *)

Inductive HB (p : trace) : nat -> nat -> Prop :=
| HB_po i j ei ej :
    i < j -> nth_error p i = Some ei -> nth_error p j = Some ej -> etid ei = etid ej -> HB p i j
| HB_sync i j t1 m pl t2 :
    i < j -> nth_error p i = Some (Rel t1 m pl) -> nth_error p j = Some (Acq t2 m) -> HB p i j
| HB_trans i j k : HB p i j -> HB p j k -> HB p i k.

(* no two accesses of different threads to the same location, at least one a write and not both
   atomic, are unordered by happens-before *)
Definition RaceFree (p : trace) : Prop :=
  forall i j t1 t2 l w1 a1 w2 a2, i < j ->
    nth_error p i = Some (Acc t1 l w1 a1) -> nth_error p j = Some (Acc t2 l w2 a2) ->
    t1 <> t2 -> w1 || w2 = true -> a1 && a2 = false -> HB p i j.

Lemma HB_lt p i j : HB p i j -> i < j /\ j < length p.
Proof.
  induction 1 as [i j ei ej L _ Hj _ | i j t1 m pl t2 L _ Hj | i j k _ [A B] _ [C D]].
  - split; [exact L | apply nth_error_Some; congruence].
  - split; [exact L | apply nth_error_Some; congruence].
  - split; lia.
Qed.

Lemma nth_error_app_l {A} (p q : list A) i x : nth_error p i = Some x -> nth_error (p ++ q) i = Some x.
Proof.
  intro H. rewrite nth_error_app1; [exact H | apply nth_error_Some; congruence].
Qed.

Lemma HB_app p q i j : HB p i j -> HB (p ++ q) i j.
Proof.
  induction 1.
  - eapply HB_po; eauto using nth_error_app_l.
  - eapply HB_sync; eauto using nth_error_app_l.
  - eapply HB_trans; eauto.
Qed.

Lemma nth_error_snoc_last {A} (p : list A) x : nth_error (p ++ [x]) (length p) = Some x.
Proof. rewrite nth_error_app2 by lia. now rewrite Nat.sub_diag. Qed.

Lemma nth_error_snoc_inv {A} (p : list A) x k y :
  nth_error (p ++ [x]) k = Some y -> (k < length p /\ nth_error p k = Some y) \/ (k = length p /\ y = x).
Proof.
  intro H. destruct (Nat.lt_ge_cases k (length p)) as [L | G].
  - left. split; [exact L|]. now rewrite nth_error_app1 in H.
  - right. assert (k < length (p ++ [x])) by (apply nth_error_Some; congruence).
    rewrite app_length in H0; simpl in H0. assert (k = length p) by lia. subst.
    rewrite nth_error_snoc_last in H. split; congruence.
Qed.

(* ------------------------------------------------------------------ holders and coverage *)

Inductive holder := HT (t : tid) | HM (m : mid).

Definition holder_dec : forall a b : holder, {a = b} + {a <> b}.
Proof. decide equality. Defined.

(* event k is known to holder h: it is, or happens before, an event of the thread / a release of the message *)
Definition covers (p : trace) (k : nat) (h : holder) : Prop :=
  match h with
  | HT u => exists j e, nth_error p j = Some e /\ etid e = u /\ (k = j \/ HB p k j)
  | HM m => exists r t pl, nth_error p r = Some (Rel t m pl) /\ (k = r \/ HB p k r)
  end.

Lemma covers_app p q k h : covers p k h -> covers (p ++ q) k h.
Proof.
  destruct h; simpl.
  - intros (j & e & A & B & C). exists j, e. repeat split; eauto using nth_error_app_l.
    destruct C; [now left | right; now apply HB_app].
  - intros (r & t & pl & A & C). exists r, t, pl. split; eauto using nth_error_app_l.
    destruct C; [now left | right; now apply HB_app].
Qed.

Lemma covers_self p k e : nth_error p k = Some e -> covers p k (HT (etid e)).
Proof. intro H. exists k, e. auto. Qed.

(* what a thread knows, its next event knows *)
Lemma covers_next p k e : covers p k (HT (etid e)) -> HB (p ++ [e]) k (length p).
Proof.
  intros (j & ej & A & B & C).
  assert (Lj : j < length p) by (apply nth_error_Some; congruence).
  assert (P : HB (p ++ [e]) j (length p)).
  { eapply HB_po; [exact Lj | apply nth_error_app_l; exact A | apply nth_error_snoc_last | exact B]. }
  destruct C as [-> | C]; [exact P | eapply HB_trans; [apply HB_app; exact C | exact P]].
Qed.

(* ------------------------------------------------------------------ computed happens-before *)

(* clock of an event = bit set of the indices of all events that are it or happen before it *)
Record cstate := { c_last : tid -> N;        (* clock of the last event of each thread *)
                   c_rel : mid -> N;         (* union of the clocks of all releases on each message *)
                   c_n : nat }.              (* number of events so far *)

Definition c_init : cstate := {| c_last := fun _ => 0%N; c_rel := fun _ => 0%N; c_n := 0 |}.

Definition clock_of (c : cstate) (e : event) : N :=
  let base := N.setbit (c_last c (etid e)) (N.of_nat (c_n c)) in
  match e with
  | Acq _ m => N.lor base (c_rel c m)
  | _ => base
  end.

Definition c_step (c : cstate) (e : event) : cstate :=
  let k := clock_of c e in
  {| c_last := fun u => if tid_dec u (etid e) then k else c_last c u;
     c_rel := match e with
              | Rel _ m _ => fun m' => if mid_dec m' m then N.lor (c_rel c m) k else c_rel c m'
              | _ => c_rel c
              end;
     c_n := S (c_n c) |}.

(* clocks of all events of a trace, in order *)
Fixpoint clocks_from (c : cstate) (p : trace) : list N :=
  match p with
  | [] => []
  | e :: p' => clock_of c e :: clocks_from (c_step c e) p'
  end.
Definition clocks (p : trace) : list N := clocks_from c_init p.

Definition hb_b (p : trace) (i j : nat) : bool :=
  (i <? j) && N.testbit (nth j (clocks p) 0%N) (N.of_nat i).

Definition conflict_b (e1 e2 : event) : bool :=
  match e1, e2 with
  | Acc t1 l1 w1 a1, Acc t2 l2 w2 a2 =>
      if loc_dec l1 l2 then (if tid_dec t1 t2 then false else (w1 || w2) && negb (a1 && a2)) else false
  | _, _ => false
  end.

(* indices (i, j), i < j, of conflicting accesses not ordered by the computed happens-before;
   [seen] = the accesses met so far, with their indices *)
Definition races_of (seen : list (nat * event)) (K : N) (j : nat) (e : event) : list (nat * nat) :=
  flat_map (fun ie => if conflict_b (snd ie) e then (if N.testbit K (N.of_nat (fst ie)) then [] else [(fst ie, j)]) else []) seen.

Definition is_acc (e : event) : bool := match e with Acc _ _ _ _ => true | _ => false end.

Fixpoint races_from (c : cstate) (seen : list (nat * event)) (p : trace) : list (nat * nat) :=
  match p with
  | [] => []
  | e :: p' =>
      races_of seen (clock_of c e) (c_n c) e
      ++ races_from (c_step c e) (if is_acc e then (c_n c, e) :: seen else seen) p'
  end.

Definition races_b (p : trace) : list (nat * nat) := races_from c_init [] p.

Definition race_free_b (p : trace) : bool :=
  match races_b p with [] => true | _ => false end.

(* ------------------------------------------------------------------ the ownership monitor *)

Definition mstate := loc -> option (list holder).   (* None: a location that is only accessed atomically *)

Definition hmem (h : holder) (hs : list holder) : bool := if in_dec holder_dec h hs then true else false.
Definition only (h : holder) (hs : list holder) : bool :=
  match hs with [] => false | _ => forallb (fun x => if holder_dec x h then true else false) hs end.

Definition acc_ok (s : mstate) (t : tid) (l : loc) (w a : bool) : bool :=
  match s l with
  | None => a
  | Some hs => negb a && (if w then only (HT t) hs else hmem (HT t) hs)
  end.

Definition give (t : tid) (m : mid) (share : bool) (hs : list holder) : list holder :=
  HM m :: (if share then hs else remove holder_dec (HT t) hs).

Definition upd (s : mstate) (l : loc) (v : option (list holder)) : mstate :=
  fun l' => if loc_dec l' l then v else s l'.

Fixpoint rel_apply (s : mstate) (t : tid) (m : mid) (pl : list (loc * bool)) : option mstate :=
  match pl with
  | [] => Some s
  | (l, sh) :: rest =>
      match s l with
      | Some hs => if hmem (HT t) hs then rel_apply (upd s l (Some (give t m sh hs))) t m rest else None
      | None => None
      end
  end.

Definition take (t : tid) (m : mid) (hs : list holder) : list holder :=
  if hmem (HM m) hs then HT t :: remove holder_dec (HM m) hs else hs.

Definition acq_apply (s : mstate) (t : tid) (m : mid) : mstate :=
  fun l => match s l with Some hs => Some (take t m hs) | None => None end.

Definition mon_step (s : mstate) (e : event) : option mstate :=
  match e with
  | Acc t l w a => if acc_ok s t l w a then Some s else None
  | Rel t m pl => rel_apply s t m pl
  | Acq t m => Some (acq_apply s t m)
  end.

Fixpoint mon_run (s : mstate) (p : trace) : option mstate :=
  match p with
  | [] => Some s
  | e :: p' => match mon_step s e with Some s' => mon_run s' p' | None => None end
  end.

(* index of the first event the monitor rejects (length of the trace when it accepts everything) *)
Fixpoint mon_first_reject (s : mstate) (p : trace) (i : nat) : nat :=
  match p with
  | [] => i
  | e :: p' => match mon_step s e with Some s' => mon_first_reject s' p' (S i) | None => i end
  end.

End Conc.

Arguments Acc {tid mid loc}.
Arguments Rel {tid mid loc}.
Arguments Acq {tid mid loc}.
Arguments HT {tid mid}.
Arguments HM {tid mid}.
