(* C17 — four single locations shared between the core loop (TC) and the client's RPC thread (TQ):

     LStatus    SourceControl.status: one holder at any time,
                client -> MReq r -> core loop (the queued closure) -> MRes r -> client
     LWsPaused  WritingState.Paused: the core loop always holds a read share; the other share is the
                client's, except while a request is in flight (it travels with MReq r, is merged into the
                core loop's while the closure runs - which may then write - and comes back with MRes r)
     LWs        the WritingState fields copied by ComputeState: the core loop always holds a read share,
                the other share travels with the mutex MWs (free: in MWs; locked by the client: the
                client's; locked by the core loop: merged, the core loop may write)
     LWsCnt     externalTriggerNumberObserved: plain lock ownership (MWs / TC / TQ)

   One state invariant [WFq] for all four; proof style of FamHdr.v. *)
From Coq Require Import List Arith Bool Lia.
Import ListNotations.
From Dastard Require Import C17.Conc C17.ConcProofs C17.Model C17.Spec C17.Proofs.

Notation Hd := (Conc.holder tid mid).

(* ------------------------------------------------------------------ the state invariant *)

Record WFq (n : nat) (s : st) : Prop := {
  q_wsl : wsl s <= 2;
  q_wsl1 : wsl s = 1 <-> (cpc s = 7 \/ cpc s = 11);
  q_wsl2 : wsl s = 2 <-> qpc s = 2;
  q_qpc : qpc s <= 2;
  q_ccl : cpc s = 10 \/ cpc s = 11 \/ cpc s = 13 -> qpc s = 1 /\ creq s = qr s;
  q_creq : creq s = qr s \/ (creq s = S (qr s) /\ qpc s = 1);
  q_cpc : cpc s <= 7 \/ cpc s = 10 \/ cpc s = 11 \/ cpc s = 13;
}.

Lemma WFq_init n : WFq n init.
Proof. constructor; simpl; lia. Qed.

Lemma WFq_step n s a s' ev : WFq n s -> step fixed n s a = Some (s', ev) -> WFq n s'.
Proof.
  intros [] ST. destruct a; simpl in ST; break_step ST; constructor; proj; lia.
Qed.

(* ------------------------------------------------------------------ helpers *)

Lemma hmem_in (h : Hd) hs : In h hs -> hmem h hs = true.
Proof. apply ConcProofs.hmem_true. Qed.

Lemma acc_ok1_rd t (hs : list Hd) : In (HT t) hs -> acc_ok1 (Some hs) t false false = true.
Proof. intro I. simpl. now apply hmem_in. Qed.

Lemma acc_ok1_wr t (hs : list Hd) :
  In (HT t) hs -> (forall x, In x hs -> x = HT t) -> acc_ok1 (Some hs) t true false = true.
Proof. intros I A. simpl. apply only_spec. split; [intro; subst; destruct I | exact A]. Qed.

Ltac hsolve := intuition (subst; congruence).

(* holder shapes of the request/reply locations (for the CURRENT request) and of the lock locations *)
Definition Hi_req (s : st) (h : Hd) : Prop :=
  h = HT TQ \/ h = HT TC \/ h = HM (MReq (qr s)) \/ h = HM (MRes (qr s)).
Definition Hi_lock (h : Hd) : Prop := h = HT TC \/ h = HT TQ \/ h = HM MWs.

(* ------------------------------------------------------------------ LStatus *)

Definition cclb (s : st) : bool := (cpc s =? 10) || (cpc s =? 11) || (cpc s =? 13).

Definition owner_status (s : st) : Hd :=
  if qpc s =? 1
  then (if cclb s then HT TC
        else if creq s =? qr s then HM (MReq (qr s)) else HM (MRes (qr s)))
  else HT TQ.

Lemma owner_status_Hi s : Hi_req s (owner_status s).
Proof. unfold owner_status, Hi_req. repeat match goal with |- context [if ?b then _ else _] => destruct b end; auto 6. Qed.

Definition I_status (s : st) (o : option (list Hd)) : Prop :=
  exists hs, o = Some hs /\ only (owner_status s) hs = true.

Ltac status_skip s hs HB O W :=
  solve [ exists (Some hs); split;
    [ apply mon1_run_skip with (Hi := Hi_req s); [exact HB | unfold Hi_req; nomention]
    | exists hs; split; [reflexivity |];
      match goal with |- only (owner_status ?s') ?hh = true =>
         first [exact O | replace (owner_status s') with (owner_status s); [exact O|]] end;
      clear W; unfold owner_status, cclb; proj; bool_lia ] ].

Ltac status_own W := destruct W; unfold owner_status, cclb; proj; bool_lia.

Lemma fam_status n : fam_ok n (WFq n) LStatus I_status.
Proof.
  split; [exists [HT TQ]; split; [reflexivity | apply only_one]|].
  intros s o a s' ev W (hs & -> & O) ST.
  assert (HB : forall h, In h hs -> Hi_req s h).
  { intros h I. apply only_spec in O as [_ A]. rewrite (A h I). apply owner_status_Hi. }
  destruct a; simpl in ST.
  all: break_step ST.
  all: unfold wr, rd, nextacc.
  all: try status_skip s hs HB O W.
  - (* the core loop takes the request *)
    assert (E : owner_status s = HM (MReq (qr s))) by status_own W.
    rewrite E in O. pose proof (only_take TC _ _ O) as O'.
    eexists. split.
    + repeat run1. reflexivity.
    + eexists. split; [reflexivity|].
      replace (owner_status _) with (HT TC : Hd); [exact O' | status_own W].
  - (* the closure of a status-only request *)
    assert (E : owner_status s = HT TC) by status_own W.
    rewrite E in O.
    exists (Some hs). split.
    + repeat run1. rewrite (acc_ok1_only _ _ _ O). repeat run1. rewrite (acc_ok1_only _ _ _ O). reflexivity.
    + eexists. split; [reflexivity|].
      replace (owner_status _) with (HT TC : Hd); [exact O | status_own W].
  - (* the core loop answers *)
    assert (E : owner_status s = HT TC) by status_own W.
    rewrite E in O.
    eexists. split.
    + repeat run1. rewrite (acc_ok1_only _ _ _ O). repeat run1.
      rewrite rel1_cons_eq, (only_hmem _ _ O). repeat run1. reflexivity.
    + eexists. split; [reflexivity|].
      replace (owner_status _) with (HM (MRes (qr s)) : Hd); [now apply only_give | status_own W].
  - (* ReadComment: the client locks the WritingState *)
    assert (E : owner_status s = HT TQ) by status_own W.
    rewrite E in O.
    exists (Some hs). split.
    + repeat run1. rewrite (acc_ok1_only _ _ _ O). repeat run1.
      rewrite (only_take_other _ _ _ _ O) by discriminate. reflexivity.
    + eexists. split; [reflexivity|].
      replace (owner_status _) with (HT TQ : Hd); [exact O | status_own W].
  - (* the client sends a request *)
    assert (E : owner_status s = HT TQ) by status_own W.
    rewrite E in O.
    eexists. split.
    + repeat run1. rewrite (acc_ok1_only _ _ _ O). repeat run1. rewrite (acc_ok1_only _ _ _ O). repeat run1.
      rewrite rel1_cons_eq, (only_hmem _ _ O). repeat run1. reflexivity.
    + eexists. split; [reflexivity|].
      replace (owner_status _) with (HM (MReq (qr s)) : Hd); [now apply only_give | status_own W].
  - (* the client takes the reply *)
    assert (E : owner_status s = HM (MRes (qr s))) by status_own W.
    rewrite E in O. pose proof (only_take TQ _ _ O) as O'.
    eexists. split.
    + repeat run1. rewrite (acc_ok1_only _ _ _ O'). repeat run1. rewrite (acc_ok1_only _ _ _ O'). reflexivity.
    + eexists. split; [reflexivity|].
      replace (owner_status _) with (HT TQ : Hd); [exact O' | status_own W].
Qed.

(* ------------------------------------------------------------------ LWsPaused *)

Definition inreq (s : st) : Prop :=
  qpc s = 1 /\ creq s = qr s /\ cpc s <> 10 /\ cpc s <> 11 /\ cpc s <> 13.
Definition inres (s : st) : Prop := qpc s = 1 /\ creq s = S (qr s).

Definition mem_paused (s : st) (h : Hd) : Prop :=
  h = HT TC
  \/ (qpc s <> 1 /\ h = HT TQ)
  \/ (inreq s /\ h = HM (MReq (qr s)))
  \/ (inres s /\ h = HM (MRes (qr s))).

Definition I_paused (s : st) (o : option (list Hd)) : Prop :=
  exists hs, o = Some hs /\ forall h, In h hs <-> mem_paused s h.

Lemma mp_idle s h : qpc s <> 1 -> (mem_paused s h <-> h = HT TC \/ h = HT TQ).
Proof. unfold mem_paused, inreq, inres. intuition lia. Qed.
Lemma mp_req s h : qpc s = 1 -> creq s = qr s -> cpc s <> 10 -> cpc s <> 11 -> cpc s <> 13 ->
  (mem_paused s h <-> h = HT TC \/ h = HM (MReq (qr s))).
Proof. unfold mem_paused, inreq, inres. intuition lia. Qed.
Lemma mp_clo s h : qpc s = 1 -> creq s = qr s -> cpc s = 10 \/ cpc s = 11 \/ cpc s = 13 ->
  (mem_paused s h <-> h = HT TC).
Proof. unfold mem_paused, inreq, inres. intuition lia. Qed.
Lemma mp_res s h : qpc s = 1 -> creq s = S (qr s) ->
  (mem_paused s h <-> h = HT TC \/ h = HM (MRes (qr s))).
Proof. unfold mem_paused, inreq, inres. intuition lia. Qed.

Ltac paused_skip s hs HB M W :=
  solve [ exists (Some hs); split;
    [ apply mon1_run_skip with (Hi := Hi_req s); [exact HB | unfold Hi_req; nomention]
    | exists hs; split; [reflexivity |];
      match goal with |- forall h, In h hs <-> mem_paused ?s' h =>
        let E1 := fresh "E" in let E2 := fresh "E" in let E3 := fresh "E" in let h := fresh "h" in
        assert (E1 : inreq s' <-> inreq s) by (clear W; unfold inreq; proj; lia);
        assert (E2 : inres s' <-> inres s) by (clear W; unfold inres; proj; lia);
        assert (E3 : qpc s' <> 1 <-> qpc s <> 1) by (clear W; proj; lia);
        intro h; rewrite (M h); unfold mem_paused; proj; tauto
      end ] ].

Lemma fam_paused n : fam_ok n (WFq n) LWsPaused I_paused.
Proof.
  split.
  { exists [HT TC; HT TQ]. split; [reflexivity|]. intro h. rewrite mp_idle by (simpl; lia). simpl.
    split; [intros [<-|[<-|[]]]; auto | intros [-> | ->]; auto]. }
  intros s o a s' ev W (hs & -> & M) ST.
  assert (HB : forall h, In h hs -> Hi_req s h).
  { intros h I. apply M in I. unfold mem_paused, Hi_req in *. tauto. }
  assert (TCin : In (HT TC) hs) by (apply M; left; reflexivity).
  destruct a; simpl in ST.
  all: break_step ST.
  all: unfold wr, rd, nextacc.
  all: try paused_skip s hs HB M W.
  - (* the core loop takes the request *)
    assert (M' : forall h, In h hs <-> h = HT TC \/ h = HM (MReq (qr s))) by (intro h; rewrite M; apply mp_req; lia).
    eexists. split.
    + repeat run1. reflexivity.
    + eexists. split; [reflexivity|]. intro h.
      rewrite mp_clo by (proj; lia). rewrite ConcProofs.In_take, !M'. hsolve.
  - (* cpc 6: reads *)
    exists (Some hs). split.
    + repeat run1. rewrite (acc_ok1_rd _ _ TCin). repeat run1.
      rewrite ConcProofs.take_skip; [reflexivity|].
      intro X. apply M in X. unfold mem_paused in X. intuition discriminate.
    + exists hs. split; [reflexivity|]. intro h. rewrite (M h). unfold mem_paused, inreq, inres. proj. clear W. intuition lia.
  - (* cpc 10, kind 1: writes *)
    destruct (q_ccl _ _ W) as [Q1 Q2]; [lia|].
    assert (M' : forall h, In h hs <-> h = HT TC) by (intro h; rewrite M; apply mp_clo; lia).
    assert (TCo : forall x, In x hs -> x = HT TC) by (intros x Hx; now apply M').
    exists (Some hs). split.
    + repeat run1. rewrite (acc_ok1_wr _ _ TCin TCo). reflexivity.
    + exists hs. split; [reflexivity|]. intro h. rewrite mp_clo by (proj; lia). apply M'.
  - (* the core loop answers *)
    destruct (q_ccl _ _ W) as [Q1 Q2]; [lia|].
    assert (M' : forall h, In h hs <-> h = HT TC) by (intro h; rewrite M; apply mp_clo; lia).
    eexists. split.
    + repeat run1. rewrite rel1_cons_ne by discriminate. rewrite rel1_cons_eq, (hmem_in _ _ TCin). repeat run1. reflexivity.
    + eexists. split; [reflexivity|]. intro h.
      rewrite mp_res by (proj; lia). rewrite ConcProofs.In_give, !M'. hsolve.
  - (* the client sends a request *)
    assert (M' : forall h, In h hs <-> h = HT TC \/ h = HT TQ) by (intro h; rewrite M; apply mp_idle; lia).
    assert (TQin : In (HT TQ) hs) by (apply M'; auto).
    eexists. split.
    + repeat run1. rewrite rel1_cons_ne by discriminate. rewrite rel1_cons_eq, (hmem_in _ _ TQin). repeat run1. reflexivity.
    + eexists. split; [reflexivity|]. intro h.
      rewrite mp_req by (destruct W; proj; lia). rewrite ConcProofs.In_give, !M'. hsolve.
  - (* the client takes the reply *)
    assert (M' : forall h, In h hs <-> h = HT TC \/ h = HM (MRes (qr s))) by (intro h; rewrite M; apply mp_res; destruct W; lia).
    eexists. split.
    + repeat run1. reflexivity.
    + eexists. split; [reflexivity|]. intro h.
      rewrite mp_idle by (proj; lia). rewrite ConcProofs.In_take, !M'. hsolve.
  - (* ReadComment: the client reads *)
    assert (M' : forall h, In h hs <-> h = HT TC \/ h = HT TQ) by (intro h; rewrite M; apply mp_idle; lia).
    assert (TQin : In (HT TQ) hs) by (apply M'; auto).
    exists (Some hs). split.
    + repeat run1. rewrite (acc_ok1_rd _ _ TQin). repeat run1. reflexivity.
    + exists hs. split; [reflexivity|]. intro h. rewrite mp_idle by (proj; lia). apply M'.
Qed.

(* ------------------------------------------------------------------ LWs *)

Definition mem_ws (s : st) (h : Hd) : Prop :=
  h = HT TC \/ (wsl s = 0 /\ h = HM MWs) \/ (wsl s = 2 /\ h = HT TQ).

Definition I_ws (s : st) (o : option (list Hd)) : Prop :=
  exists hs, o = Some hs /\ forall h, In h hs <-> mem_ws s h.

Lemma mw0 s h : wsl s = 0 -> (mem_ws s h <-> h = HT TC \/ h = HM MWs).
Proof. unfold mem_ws. intuition lia. Qed.
Lemma mw1 s h : wsl s = 1 -> (mem_ws s h <-> h = HT TC).
Proof. unfold mem_ws. intuition lia. Qed.
Lemma mw2 s h : wsl s = 2 -> (mem_ws s h <-> h = HT TC \/ h = HT TQ).
Proof. unfold mem_ws. intuition lia. Qed.

Ltac ws_skip s hs HB M W :=
  solve [ exists (Some hs); split;
    [ apply mon1_run_skip with (Hi := Hi_lock); [exact HB | unfold Hi_lock; nomention]
    | exists hs; split; [reflexivity |];
      let h := fresh "h" in intro h; rewrite (M h); unfold mem_ws; proj; tauto ] ].

Lemma fam_ws n : fam_ok n (WFq n) LWs I_ws.
Proof.
  split.
  { exists [HT TC; HM MWs]. split; [reflexivity|]. intro h. unfold mem_ws. simpl.
    split; [intros [<-|[<-|[]]]; auto | intros [->|[[_ ->]|[? _]]]; auto; discriminate]. }
  intros s o a s' ev W (hs & -> & M) ST.
  assert (HB : forall h, In h hs -> Hi_lock h).
  { intros h I. apply M in I. unfold mem_ws, Hi_lock in *. tauto. }
  assert (TCin : In (HT TC) hs) by (apply M; left; reflexivity).
  destruct a; simpl in ST.
  all: break_step ST.
  all: unfold wr, rd, nextacc.
  all: try ws_skip s hs HB M W.
  - (* cpc 6: reads, locks *)
    assert (M' : forall h, In h hs <-> h = HT TC \/ h = HM MWs) by (intro h; rewrite M; apply mw0; lia).
    eexists. split.
    + repeat run1. rewrite (acc_ok1_rd _ _ TCin). repeat run1. reflexivity.
    + eexists. split; [reflexivity|]. intro h.
      rewrite mw1 by (proj; lia). rewrite ConcProofs.In_take, !M'. hsolve.
  - (* cpc 7: unlocks *)
    assert (M' : forall h, In h hs <-> h = HT TC) by (intro h; rewrite M; apply mw1; apply (q_wsl1 _ _ W); lia).
    eexists. split.
    + repeat run1. rewrite rel1_cons_eq, (hmem_in _ _ TCin). repeat run1. reflexivity.
    + eexists. split; [reflexivity|]. intro h.
      rewrite mw0 by (proj; lia). rewrite ConcProofs.In_give, !M'. hsolve.
  - (* cpc 10 kind 2: locks *)
    assert (M' : forall h, In h hs <-> h = HT TC \/ h = HM MWs) by (intro h; rewrite M; apply mw0; lia).
    eexists. split.
    + repeat run1. reflexivity.
    + eexists. split; [reflexivity|]. intro h.
      rewrite mw1 by (proj; lia). rewrite ConcProofs.In_take, !M'. hsolve.
  - (* cpc 11: writes, unlocks *)
    assert (M' : forall h, In h hs <-> h = HT TC) by (intro h; rewrite M; apply mw1; apply (q_wsl1 _ _ W); lia).
    assert (TCo : forall x, In x hs -> x = HT TC) by (intros x Hx; now apply M').
    eexists. split.
    + repeat run1. rewrite (acc_ok1_wr _ _ TCin TCo). repeat run1.
      rewrite rel1_cons_eq, (hmem_in _ _ TCin). repeat run1. reflexivity.
    + eexists. split; [reflexivity|]. intro h.
      rewrite mw0 by (proj; lia). rewrite ConcProofs.In_give, !M'. hsolve.
  - (* ReadComment: the client locks *)
    assert (M' : forall h, In h hs <-> h = HT TC \/ h = HM MWs) by (intro h; rewrite M; apply mw0; lia).
    eexists. split.
    + repeat run1. reflexivity.
    + eexists. split; [reflexivity|]. intro h.
      rewrite mw2 by (proj; lia). rewrite ConcProofs.In_take, !M'. hsolve.
  - (* ReadComment: the client reads, unlocks *)
    assert (M' : forall h, In h hs <-> h = HT TC \/ h = HT TQ) by (intro h; rewrite M; apply mw2; apply (q_wsl2 _ _ W); lia).
    assert (TQin : In (HT TQ) hs) by (apply M'; auto).
    eexists. split.
    + repeat run1. rewrite (acc_ok1_rd _ _ TQin). repeat run1.
      rewrite rel1_cons_eq, (hmem_in _ _ TQin). repeat run1. reflexivity.
    + eexists. split; [reflexivity|]. intro h.
      rewrite mw0 by (proj; lia). rewrite ConcProofs.In_give, !M'. hsolve.
Qed.

(* ------------------------------------------------------------------ LWsCnt *)

Definition owner_cnt (s : st) : Hd :=
  if wsl s =? 0 then HM MWs else if wsl s =? 1 then HT TC else HT TQ.

Lemma owner_cnt_Hi s : Hi_lock (owner_cnt s).
Proof. unfold owner_cnt, Hi_lock. repeat match goal with |- context [if ?b then _ else _] => destruct b end; auto. Qed.

Definition I_cnt (s : st) (o : option (list Hd)) : Prop :=
  exists hs, o = Some hs /\ only (owner_cnt s) hs = true.

Ltac cnt_skip s hs HB O W :=
  solve [ exists (Some hs); split;
    [ apply mon1_run_skip with (Hi := Hi_lock); [exact HB | unfold Hi_lock; nomention]
    | exists hs; split; [reflexivity |];
      match goal with |- only (owner_cnt ?s') ?hh = true =>
         first [exact O | replace (owner_cnt s') with (owner_cnt s); [exact O|]] end;
      destruct W; unfold owner_cnt; proj; bool_lia ] ].

Lemma fam_cnt n : fam_ok n (WFq n) LWsCnt I_cnt.
Proof.
  split; [exists [HM MWs]; split; [reflexivity | apply only_one]|].
  intros s o a s' ev W (hs & -> & O) ST.
  assert (HB : forall h, In h hs -> Hi_lock h).
  { intros h I. apply only_spec in O as [_ A]. rewrite (A h I). apply owner_cnt_Hi. }
  destruct a; simpl in ST.
  all: break_step ST.
  all: unfold wr, rd, nextacc.
  all: try cnt_skip s hs HB O W.
  - (* cpc 6: lock *)
    assert (E : owner_cnt s = HM MWs). { destruct W; unfold owner_cnt; bool_lia. }
    rewrite E in O. pose proof (only_take TC _ _ O) as O'.
    eexists. split.
    + repeat run1. reflexivity.
    + eexists. split; [reflexivity|]. exact O'.
  - (* cpc 7: count, unlock *)
    assert (E : owner_cnt s = HT TC). { destruct W; unfold owner_cnt; bool_lia. }
    rewrite E in O.
    eexists. split.
    + repeat run1. rewrite (acc_ok1_only _ _ _ O). repeat run1.
      rewrite rel1_cons_ne by discriminate. rewrite rel1_cons_eq, (only_hmem _ _ O). reflexivity.
    + eexists. split; [reflexivity|]. now apply only_give.
  - (* cpc 10, kind 2: lock *)
    assert (E : owner_cnt s = HM MWs). { destruct W; unfold owner_cnt; bool_lia. }
    rewrite E in O. pose proof (only_take TC _ _ O) as O'.
    eexists. split.
    + repeat run1. reflexivity.
    + eexists. split; [reflexivity|]. exact O'.
  - (* cpc 11: unlock *)
    assert (E : owner_cnt s = HT TC). { destruct W; unfold owner_cnt; bool_lia. }
    rewrite E in O.
    eexists. split.
    + repeat run1.
      rewrite rel1_cons_ne by discriminate. rewrite rel1_cons_eq, (only_hmem _ _ O). reflexivity.
    + eexists. split; [reflexivity|]. now apply only_give.
  - (* client locks *)
    assert (E : owner_cnt s = HM MWs). { destruct W; unfold owner_cnt; bool_lia. }
    rewrite E in O. pose proof (only_take TQ _ _ O) as O'.
    eexists. split.
    + repeat run1. reflexivity.
    + eexists. split; [reflexivity|]. exact O'.
  - (* client reads, unlocks *)
    assert (E : owner_cnt s = HT TQ). { destruct W; unfold owner_cnt; bool_lia. }
    rewrite E in O.
    eexists. split.
    + repeat run1. rewrite (acc_ok1_only _ _ _ O). repeat run1.
      rewrite rel1_cons_ne by discriminate. rewrite rel1_cons_eq, (only_hmem _ _ O). reflexivity.
    + eexists. split; [reflexivity|]. now apply only_give.
Qed.
