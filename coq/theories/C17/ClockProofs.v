(* C17 — the happens-before computed by clocks (Conc.clocks / hb_b / races_b) is exactly the
   declarative HB, hence [race_free_b p = true <-> RaceFree p]. *)
From Coq Require Import List Arith Lia Bool NArith.
Import ListNotations.
From Dastard Require Import C17.Conc C17.ConcProofs.

Section Clocks.
Variables tid mid loc : Type.
Variable tid_dec : forall a b : tid, {a = b} + {a <> b}.
Variable mid_dec : forall a b : mid, {a = b} + {a <> b}.
Variable loc_dec : forall a b : loc, {a = b} + {a <> b}.

Notation event := (event tid mid loc).
Notation trace := (trace tid mid loc).
Notation HBr := (@HB tid mid loc).
Notation coversr := (@covers tid mid loc).
Notation cstate := (cstate tid mid).
Notation c_init := (c_init tid mid).
Notation c_step := (c_step tid mid loc tid_dec mid_dec).
Notation clock_of := (clock_of tid mid loc).
Notation clocks_from := (clocks_from tid mid loc tid_dec mid_dec).
Notation clocks := (clocks tid mid loc tid_dec mid_dec).
Notation etid := (etid tid mid loc).

Definition bit (X : N) (i : nat) : Prop := N.testbit X (N.of_nat i) = true.
Definition sub (X Y : N) : Prop := forall i, bit X i -> bit Y i.

Lemma bit_setbit X n i : bit (N.setbit X (N.of_nat n)) i <-> n = i \/ bit X i.
Proof.
  unfold bit. rewrite N.setbit_iff. split; intros [E|B]; auto.
  - left. now apply Nat2N.inj.
Qed.

Lemma bit_lor X Y i : bit (N.lor X Y) i <-> bit X i \/ bit Y i.
Proof. unfold bit. rewrite N.lor_spec. apply orb_true_iff. Qed.

Lemma bit_zero i : ~ bit 0%N i.
Proof. unfold bit. rewrite N.bits_0. discriminate. Qed.

Lemma sub_refl X : sub X X.
Proof. intros i B; exact B. Qed.

Lemma sub_trans X Y Z : sub X Y -> sub Y Z -> sub X Z.
Proof. intros A B i Hi. apply B, A, Hi. Qed.

Definition cst (p : trace) : cstate := fold_left c_step p c_init.
Definition Kof (p : trace) (j : nat) : N := nth j (clocks p) 0%N.

Lemma clocks_from_app c p q :
  clocks_from c (p ++ q) = clocks_from c p ++ clocks_from (fold_left c_step p c) q.
Proof. revert c. induction p as [|e p IH]; intro c; simpl; [reflexivity | now rewrite IH]. Qed.

Lemma clocks_from_len c p : length (clocks_from c p) = length p.
Proof. revert c. induction p as [|e p IH]; intro c; simpl; [reflexivity | now rewrite IH]. Qed.

Lemma clocks_snoc p e : clocks (p ++ [e]) = clocks p ++ [clock_of (cst p) e].
Proof. unfold Conc.clocks. rewrite clocks_from_app. reflexivity. Qed.

Lemma cst_snoc p e : cst (p ++ [e]) = c_step (cst p) e.
Proof. unfold cst. now rewrite fold_left_app. Qed.

Lemma Kof_old p e j : j < length p -> Kof (p ++ [e]) j = Kof p j.
Proof.
  intro L. unfold Kof. rewrite clocks_snoc. apply app_nth1. unfold Conc.clocks. now rewrite clocks_from_len.
Qed.

Lemma Kof_new p e : Kof (p ++ [e]) (length p) = clock_of (cst p) e.
Proof.
  unfold Kof. rewrite clocks_snoc, app_nth2; unfold Conc.clocks; rewrite clocks_from_len; [|lia].
  now rewrite Nat.sub_diag.
Qed.

Lemma bit_clock_of c e i :
  bit (clock_of c e) i <->
  c_n _ _ c = i \/ bit (c_last _ _ c (etid e)) i \/ (exists t m, e = Acq t m /\ bit (c_rel _ _ c m) i).
Proof.
  unfold Conc.clock_of. destruct e as [t l w a | t m pl | t m].
  - rewrite bit_setbit. split; [intros [A|A]; auto | intros [A|[A|(t' & m' & E & _)]]; auto; discriminate].
  - rewrite bit_setbit. split; [intros [A|A]; auto | intros [A|[A|(t' & m' & E & _)]]; auto; discriminate].
  - rewrite bit_lor, bit_setbit. split.
    + intros [[A|A]|A]; auto. right; right. exists t, m. auto.
    + intros [A|[A|(t' & m' & E & A)]]; auto. inversion E; subst. auto.
Qed.

(* ------------------------------------------------------------------ the invariant *)

Record CI (p : trace) : Prop := {
  ci_n : c_n _ _ (cst p) = length p;
  ci_last : forall u i, bit (c_last _ _ (cst p) u) i -> coversr p i (HT u);
  ci_rel : forall m i, bit (c_rel _ _ (cst p) m) i -> coversr p i (HM m);
  ci_k : forall j i, j < length p -> bit (Kof p j) i -> i = j \/ HBr p i j;
  ci_self : forall j, j < length p -> bit (Kof p j) j;
  ci_po : forall i j ei ej, i < j -> nth_error p i = Some ei -> nth_error p j = Some ej ->
                            etid ei = etid ej -> sub (Kof p i) (Kof p j);
  ci_sync : forall i j t1 m pl t2, i < j -> nth_error p i = Some (Rel t1 m pl) ->
                                   nth_error p j = Some (Acq t2 m) -> sub (Kof p i) (Kof p j);
  ci_closed : forall j i, j < length p -> bit (Kof p j) i -> sub (Kof p i) (Kof p j);
  ci_last_up : forall j e, nth_error p j = Some e -> sub (Kof p j) (c_last _ _ (cst p) (etid e));
  ci_rel_up : forall r t m pl, nth_error p r = Some (Rel t m pl) -> sub (Kof p r) (c_rel _ _ (cst p) m);
  ci_last_cl : forall u i, bit (c_last _ _ (cst p) u) i ->
                           i < length p /\ sub (Kof p i) (c_last _ _ (cst p) u);
  ci_rel_cl : forall m i, bit (c_rel _ _ (cst p) m) i ->
                          i < length p /\ sub (Kof p i) (c_rel _ _ (cst p) m);
}.

Lemma nth_error_nil_none {A} i : nth_error (@nil A) i = None.
Proof. destruct i; reflexivity. Qed.

Lemma CI_nil : CI [].
Proof.
  constructor; simpl; intros;
    try lia;
    try (exfalso; eapply bit_zero; eassumption);
    try (match goal with X : nth_error [] _ = Some _ |- _ => rewrite nth_error_nil_none in X; discriminate end).
Qed.

(* facts about the clock of the new event *)
Section Snoc.
Variables (p : trace) (e : event).
Hypothesis I : CI p.
Local Notation n := (length p).
Local Notation p' := (p ++ [e]).
Local Notation Kn := (clock_of (cst p) e).

Lemma Kn_cases i :
  bit Kn i ->
  i = n \/ (i < n /\ sub (Kof p i) Kn /\ HBr p' i n).
Proof.
  intro B. apply bit_clock_of in B as [A|[A|(t & m & E & A)]].
  - left. rewrite (ci_n _ I) in A. subst; reflexivity.
  - right. destruct (ci_last_cl _ I _ _ A) as [L S]. split; [exact L|]. split.
    + intros x Bx. apply bit_clock_of. right; left. now apply S.
    + apply covers_next. now apply (ci_last _ I).
  - right. destruct (ci_rel_cl _ I _ _ A) as [L S]. split; [exact L|]. split.
    + intros x Bx. apply bit_clock_of. right; right. exists t, m. split; [exact E|]. now apply S.
    + destruct (ci_rel _ I _ _ A) as (r & t1 & pl & Er & C).
      assert (Lr : r < n) by (apply nth_error_Some; congruence).
      assert (P : HBr p' r n).
      { eapply HB_sync; [exact Lr | apply nth_error_app_l; exact Er | rewrite nth_error_snoc_last, E; reflexivity]. }
      destruct C as [->|C]; [exact P | eapply HB_trans; [apply HB_app; exact C | exact P]].
Qed.

Lemma Kn_self : bit Kn n.
Proof. apply bit_clock_of. left. apply (ci_n _ I). Qed.

Lemma Kn_last : sub (c_last _ _ (cst p) (etid e)) Kn.
Proof. intros i B. apply bit_clock_of. auto. Qed.

Lemma Kn_rel t m : e = Acq t m -> sub (c_rel _ _ (cst p) m) Kn.
Proof. intros E i B. apply bit_clock_of. right; right. exists t, m. auto. Qed.

Lemma last_snoc u :
  c_last _ _ (cst p') u = if tid_dec u (etid e) then Kn else c_last _ _ (cst p) u.
Proof. rewrite cst_snoc. reflexivity. Qed.

Lemma rel_snoc m' :
  c_rel _ _ (cst p') m' =
  match e with
  | Rel _ m _ => if mid_dec m' m then N.lor (c_rel _ _ (cst p) m) Kn else c_rel _ _ (cst p) m'
  | _ => c_rel _ _ (cst p) m'
  end.
Proof. rewrite cst_snoc. destruct e; reflexivity. Qed.

Lemma K'_old j : j < n -> Kof p' j = Kof p j.
Proof. apply Kof_old. Qed.

Lemma K'_new : Kof p' n = Kn.
Proof. apply Kof_new. Qed.

Lemma len' : length p' = S n.
Proof. rewrite app_length. simpl. lia. Qed.

Lemma Kn_covers i : bit Kn i -> coversr p' i (HT (etid e)).
Proof.
  intro B. destruct (Kn_cases _ B) as [->|(L & _ & HBn)].
  - apply covers_self. apply nth_error_snoc_last.
  - exists n, e. split; [apply nth_error_snoc_last|]. split; [reflexivity | now right].
Qed.

Lemma Kn_closed i : bit Kn i -> sub (Kof p' i) Kn.
Proof.
  intro B. destruct (Kn_cases _ B) as [->|(L & S & _)].
  - rewrite K'_new. apply sub_refl.
  - now rewrite K'_old.
Qed.

Lemma CI_snoc : CI p'.
Proof.
  constructor.
  - rewrite cst_snoc. simpl. rewrite (ci_n _ I). rewrite app_length. simpl. lia.
  - (* ci_last *)
    intros u i B. rewrite last_snoc in B. destruct (tid_dec u (etid e)) as [->|N].
    + now apply Kn_covers.
    + apply covers_app. now apply (ci_last _ I).
  - (* ci_rel *)
    intros m i B. rewrite rel_snoc in B.
    assert (OLD : bit (c_rel _ _ (cst p) m) i -> coversr p' i (HM m)).
    { intro B0. apply covers_app. now apply (ci_rel _ I). }
    destruct e as [t l w a | t m0 pl | t m0] eqn:Ee; try (now apply OLD).
    destruct (mid_dec m m0) as [->|N]; [|now apply OLD].
    apply bit_lor in B as [B|B]; [now apply OLD|].
    rewrite <- Ee in B |- *.
    exists n, t, pl. split; [rewrite nth_error_snoc_last, Ee; reflexivity|].
    destruct (Kn_cases _ B) as [->|(_ & _ & HBn)]; [now left | now right].
  - (* ci_k *)
    intros j i L B. rewrite len' in L. destruct (Nat.eq_dec j n) as [->|N].
    + rewrite K'_new in B. destruct (Kn_cases _ B) as [->|(_ & _ & HBn)]; auto.
    + assert (Lj : j < n) by lia. rewrite K'_old in B by exact Lj.
      destruct (ci_k _ I _ _ Lj B) as [->|HBj]; [now left | right; now apply HB_app].
  - (* ci_self *)
    intros j L. rewrite len' in L. destruct (Nat.eq_dec j n) as [->|N].
    + rewrite K'_new. apply Kn_self.
    + rewrite K'_old by lia. apply (ci_self _ I). lia.
  - (* ci_po *)
    intros i j ei ej Lij Ei Ej ET.
    apply nth_error_snoc_inv in Ej as [[Lj Ej]|[-> ->]].
    + apply nth_error_snoc_inv in Ei as [[Li Ei]|[-> _]]; [|lia].
      rewrite !K'_old by assumption. eapply (ci_po _ I); eauto.
    + apply nth_error_snoc_inv in Ei as [[Li Ei]|[Ei _]]; [|lia].
      rewrite K'_new, K'_old by exact Li.
      eapply sub_trans; [apply (ci_last_up _ I _ _ Ei)|]. rewrite ET. apply Kn_last.
  - (* ci_sync *)
    intros i j t1 m pl t2 Lij Ei Ej.
    apply nth_error_snoc_inv in Ej as [[Lj Ej]|[-> Ee]].
    + apply nth_error_snoc_inv in Ei as [[Li Ei]|[-> _]]; [|lia].
      rewrite !K'_old by assumption. eapply (ci_sync _ I); eauto.
    + apply nth_error_snoc_inv in Ei as [[Li Ei]|[Ei _]]; [|lia].
      rewrite K'_new, K'_old by exact Li.
      eapply sub_trans; [apply (ci_rel_up _ I _ _ _ _ Ei)|]. eapply Kn_rel. symmetry. exact Ee.
  - (* ci_closed *)
    intros j i L B. rewrite len' in L. destruct (Nat.eq_dec j n) as [->|N].
    + rewrite K'_new in *. now apply Kn_closed.
    + assert (Lj : j < n) by lia. rewrite (K'_old j Lj) in *.
      assert (Li : i < n).
      { destruct (ci_k _ I _ _ Lj B) as [->|HBj]; [exact Lj | apply HB_lt in HBj; lia]. }
      rewrite (K'_old i Li). now apply (ci_closed _ I).
  - (* ci_last_up *)
    intros j ej Ej. rewrite last_snoc.
    apply nth_error_snoc_inv in Ej as [[Lj Ej]|[-> ->]].
    + rewrite K'_old by exact Lj. destruct (tid_dec (etid ej) (etid e)) as [E|N].
      * eapply sub_trans; [apply (ci_last_up _ I _ _ Ej)|]. rewrite E. apply Kn_last.
      * apply (ci_last_up _ I _ _ Ej).
    + rewrite K'_new. destruct (tid_dec (etid e) (etid e)); [apply sub_refl | contradiction].
  - (* ci_rel_up *)
    intros r t m pl Er. rewrite rel_snoc.
    apply nth_error_snoc_inv in Er as [[Lr Er]|[-> Ee]].
    + rewrite K'_old by exact Lr. pose proof (ci_rel_up _ I _ _ _ _ Er) as S.
      destruct e as [? ? ? ? | t0 m0 pl0 | ? ?]; try exact S.
      destruct (mid_dec m m0) as [->|N]; [|exact S].
      intros x Bx. apply bit_lor. left. now apply S.
    + rewrite K'_new. rewrite <- Ee. destruct (mid_dec m m); [|contradiction].
      intros x Bx. apply bit_lor. now right.
  - (* ci_last_cl *)
    intros u i B. rewrite len'. rewrite last_snoc in *. destruct (tid_dec u (etid e)) as [->|N].
    + split; [|now apply Kn_closed]. destruct (Kn_cases _ B) as [->|(L & _)]; lia.
    + destruct (ci_last_cl _ I _ _ B) as [L S]. split; [lia|]. now rewrite K'_old.
  - (* ci_rel_cl *)
    intros m i B. rewrite len'. rewrite rel_snoc in *.
    assert (OLD : bit (c_rel _ _ (cst p) m) i -> i < S n /\ sub (Kof p' i) (c_rel _ _ (cst p) m)).
    { intro B0. destruct (ci_rel_cl _ I _ _ B0) as [L S]. split; [lia|]. now rewrite K'_old. }
    pose proof Kn_cases as KC. pose proof Kn_closed as KCl.
    destruct e as [? ? ? ? | t0 m0 pl0 | ? ?] eqn:Ee; try (now apply OLD).
    destruct (mid_dec m m0) as [->|N]; [|now apply OLD].
    apply bit_lor in B as [B|B].
    + destruct (OLD B) as [L S]. split; [exact L|]. intros x Bx. apply bit_lor. left. now apply S.
    + split.
      * destruct (KC _ B) as [->|(L & _)]; lia.
      * intros x Bx. apply bit_lor. right. now apply (KCl _ B).
Qed.

End Snoc.

Lemma CI_all p : CI p.
Proof. induction p as [|e p IH] using rev_ind; [apply CI_nil | now apply CI_snoc]. Qed.

(* ------------------------------------------------------------------ computed = declarative *)

Lemma HB_bit p i j : HBr p i j -> bit (Kof p j) i.
Proof.
  pose proof (CI_all p) as I. induction 1 as [i j ei ej L Ei Ej ET | i j t1 m pl t2 L Ei Ej | i j k _ IH1 H2 IH2].
  - eapply (ci_po _ I); eauto. apply (ci_self _ I). apply nth_error_Some. congruence.
  - eapply (ci_sync _ I); eauto. apply (ci_self _ I). apply nth_error_Some. congruence.
  - apply HB_lt in H2 as [_ Lk]. eapply (ci_closed _ I); eauto.
Qed.

Theorem hb_b_iff p i j : j < length p ->
  (hb_b tid mid loc tid_dec mid_dec p i j = true <-> HBr p i j).
Proof.
  intro L. unfold Conc.hb_b. rewrite andb_true_iff, Nat.ltb_lt. split.
  - intros [Lij B]. destruct (ci_k _ (CI_all p) j i L B) as [->|Hb]; [lia | exact Hb].
  - intro Hb. split; [now apply HB_lt in Hb | now apply HB_bit].
Qed.

(* ---- the race list *)

Notation races_from := (races_from tid mid loc tid_dec mid_dec loc_dec).
Notation races_of := (races_of tid mid loc tid_dec loc_dec).
Notation conflict_b := (conflict_b tid mid loc tid_dec loc_dec).

Definition Conflict (e1 e2 : event) : Prop :=
  exists t1 l w1 a1 t2 w2 a2, e1 = Acc t1 l w1 a1 /\ e2 = Acc t2 l w2 a2 /\
    t1 <> t2 /\ w1 || w2 = true /\ a1 && a2 = false.

Lemma conflict_b_iff e1 e2 : conflict_b e1 e2 = true <-> Conflict e1 e2.
Proof.
  unfold Conc.conflict_b, Conflict. destruct e1 as [t1 l1 w1 a1| |]; destruct e2 as [t2 l2 w2 a2| |];
    try (split; [discriminate | intros (? & ? & ? & ? & ? & ? & ? & E1 & E2 & _); discriminate]).
  destruct (loc_dec l1 l2) as [->|NL]; [destruct (tid_dec t1 t2) as [->|NT]|].
  - split; [discriminate|]. intros (? & ? & ? & ? & ? & ? & ? & E1 & E2 & N & _). inversion E1; inversion E2; subst. contradiction.
  - rewrite andb_true_iff, negb_true_iff. split.
    + intros [W A]. exists t1, l2, w1, a1, t2, w2, a2. auto.
    + intros (? & ? & ? & ? & ? & ? & ? & E1 & E2 & _ & W & A). inversion E1; inversion E2; subst. auto.
  - split; [discriminate|]. intros (? & ? & ? & ? & ? & ? & ? & E1 & E2 & _). inversion E1; inversion E2; subst. contradiction.
Qed.

Lemma flat_map_nil {A B} (f : A -> list B) l : (forall x, In x l -> f x = []) -> flat_map f l = [].
Proof.
  induction l as [|x l IH]; intro Hf; simpl; [reflexivity|].
  rewrite (Hf x (or_introl eq_refl)), IH; [reflexivity|]. intros y Hy. apply Hf. now right.
Qed.

(* all accesses of the prefix, with their indices *)
Definition Seen (pre : trace) (seen : list (nat * event)) : Prop :=
  forall i e, In (i, e) seen <-> (nth_error pre i = Some e /\ is_acc tid mid loc e = true).

Lemma races_from_none pre : forall q seen,
  Seen pre seen ->
  (races_from (cst pre) seen q = [] <->
   forall i j ei ej, i < j -> length pre <= j -> nth_error (pre ++ q) i = Some ei ->
     nth_error (pre ++ q) j = Some ej -> Conflict ei ej -> bit (Kof (pre ++ q) j) i).
Proof.
  intros q. revert pre. induction q as [|e q IH]; intros pre seen S.
  - simpl. split; [|reflexivity]. intros _ i j ei ej Lij Lj Ei Ej.
    rewrite app_nil_r in Ej. assert (j < length pre) by (apply nth_error_Some; congruence). lia.
  - simpl.
    assert (S' : Seen (pre ++ [e]) (if is_acc tid mid loc e then (c_n _ _ (cst pre), e) :: seen else seen)).
    { intros i x. rewrite (ci_n _ (CI_all pre)). split.
      - intro In0. assert (In1 : In (i, x) seen \/ (is_acc tid mid loc e = true /\ i = length pre /\ x = e)).
        { destruct (is_acc tid mid loc e); [destruct In0 as [E|In0]; [inversion E; auto | auto] | auto]. }
        destruct In1 as [In1|(A & -> & ->)].
        + apply S in In1 as [E A]. split; [now apply nth_error_app_l | exact A].
        + split; [apply nth_error_snoc_last | exact A].
      - intros [E A]. apply nth_error_snoc_inv in E as [[L E]|[-> ->]].
        + assert (In (i, x) seen) by (apply S; auto). destruct (is_acc tid mid loc e); [now right | assumption].
        + rewrite A. now left. }
    specialize (IH (pre ++ [e]) _ S'). rewrite cst_snoc in IH.
    replace ((pre ++ [e]) ++ q) with (pre ++ e :: q) in IH by (rewrite <- app_assoc; reflexivity).
    rewrite app_length in IH. simpl in IH.
    split.
    + intro E. apply app_eq_nil in E as [E1 E2].
      intros i j ei ej Lij Lj Ei Ej C.
      destruct (Nat.eq_dec j (length pre)) as [->|N].
      * (* the pair ends at the new event *)
        assert (Ej' : ej = e).
        { rewrite nth_error_app2 in Ej by lia. rewrite Nat.sub_diag in Ej. simpl in Ej. congruence. }
        subst ej.
        assert (Ei' : nth_error pre i = Some ei).
        { rewrite nth_error_app1 in Ei by lia. exact Ei. }
        assert (Ai : is_acc tid mid loc ei = true) by (destruct C as (? & ? & ? & ? & ? & ? & ? & -> & _); reflexivity).
        assert (In0 : In (i, ei) seen) by (apply S; auto).
        assert (K : Kof (pre ++ e :: q) (length pre) = clock_of (cst pre) e).
        { replace (pre ++ e :: q) with ((pre ++ [e]) ++ q) by (rewrite <- app_assoc; reflexivity).
          unfold Kof, Conc.clocks. rewrite clocks_from_app.
          rewrite app_nth1 by (rewrite clocks_from_len, app_length; simpl; lia).
          apply Kof_new. }
        rewrite K. unfold Conc.races_of in E1.
        destruct (N.testbit (clock_of (cst pre) e) (N.of_nat i)) eqn:T; [exact T|].
        exfalso. assert (In (i, c_n _ _ (cst pre)) (@nil (nat * nat))); [|contradiction].
        rewrite <- E1. apply in_flat_map. exists (i, ei). split; [exact In0|]. simpl.
        apply conflict_b_iff in C. rewrite C, T. now left.
      * apply (proj1 IH E2 i j ei ej); auto. lia.
    + intro Hall.
      assert (R1 : races_of seen (clock_of (cst pre) e) (c_n _ _ (cst pre)) e = []); [|rewrite R1; simpl].
      * unfold Conc.races_of. apply flat_map_nil. intros [i ei] In0. simpl.
        destruct (conflict_b ei e) eqn:C; [|reflexivity].
        apply S in In0 as [Ei Ai]. apply conflict_b_iff in C.
        assert (Li : i < length pre) by (apply nth_error_Some; congruence).
        assert (B : bit (Kof (pre ++ e :: q) (length pre)) i).
        { apply (Hall i (length pre) ei e); auto.
          - now apply nth_error_app_l.
          - rewrite nth_error_app2 by lia. now rewrite Nat.sub_diag. }
        assert (K : Kof (pre ++ e :: q) (length pre) = clock_of (cst pre) e).
        { replace (pre ++ e :: q) with ((pre ++ [e]) ++ q) by (rewrite <- app_assoc; reflexivity).
          unfold Kof, Conc.clocks. rewrite clocks_from_app.
          rewrite app_nth1 by (rewrite clocks_from_len, app_length; simpl; lia).
          apply Kof_new. }
        rewrite K in B. unfold bit in B. now rewrite B.
      * apply (proj2 IH). intros i j ei ej Lij Lj Ei Ej C. apply (Hall i j ei ej); auto. lia.
Qed.

Theorem race_free_b_iff_thm p :
  race_free_b tid mid loc tid_dec mid_dec loc_dec p = true <-> RaceFree tid mid loc p.
Proof.
  unfold Conc.race_free_b, Conc.races_b.
  assert (S0 : Seen [] []).
  { intros i e. split; [intros [] | intros [E _]; destruct i; discriminate]. }
  pose proof (races_from_none [] p [] S0) as R. simpl in R.
  split.
  - intro E. destruct (Conc.races_from tid mid loc tid_dec mid_dec loc_dec (Conc.c_init tid mid) [] p) eqn:RR; [|discriminate].
    pose proof (proj1 R RR) as Hall.
    intros i j t1 t2 l w1 a1 w2 a2 Lij Ei Ej NT W A.
    assert (Lj : j < length p) by (apply nth_error_Some; congruence).
    apply (hb_b_iff p i j Lj). unfold Conc.hb_b. apply andb_true_iff. split; [now apply Nat.ltb_lt|].
    apply (Hall i j _ _ Lij (Nat.le_0_l _) Ei Ej). exists t1, l, w1, a1, t2, w2, a2. auto.
  - intro RF. assert (E : Conc.races_from tid mid loc tid_dec mid_dec loc_dec (Conc.c_init tid mid) [] p = []); [|now rewrite E].
    apply (proj2 R). intros i j ei ej Lij _ Ei Ej (t1 & l & w1 & a1 & t2 & w2 & a2 & -> & -> & NT & W & A).
    apply HB_bit. eapply RF; eauto.
Qed.

End Clocks.
