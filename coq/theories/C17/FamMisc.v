(* C17 — the small families: reader-private state (LETrig, LTiming), the atomic frame counter (LNext),
   the core loop's archive block (LArch) and the archive snapshots (LSnap j). *)
From Coq Require Import List Arith Bool Lia.
Import ListNotations.
From Dastard Require Import C17.Conc C17.ConcProofs C17.Model C17.Spec C17.Proofs.

Definition WFtrue (s : st) : Prop := True.

(* ---- a location held by one thread for ever *)
Lemma fam_const n (l : loc) (t : tid) :
  holders0 fixed l = Some [HT t] ->
  (forall s a s' ev, step fixed n s a = Some (s', ev) ->
     Forall (fun e => match e with
                      | Acc t' l' w a' => l' = l -> t' = t /\ a' = false
                      | Rel _ _ pl => ~ In l (map fst pl)
                      | Acq _ _ => True
                      end) ev) ->
  fam_ok n WFtrue l (fun _ o => o = Some [HT t]).
Proof.
  intros H0 HS. split; [exact H0|].
  intros s o a s' ev _ -> ST. exists (Some [HT t]). split; [|reflexivity].
  specialize (HS _ _ _ _ ST). clear ST.
  induction HS as [|e ev He _ IH]; [reflexivity|].
  rewrite run_cons.
  assert (E : mon1 l (Some [HT t]) e = Some (Some [HT t])).
  { destruct e as [t' l' w a' | t' m pl | t' m].
    - destruct (loc_dec l' l) as [->|N]; [|now apply mon1_acc_ne].
      destruct (He eq_refl) as [-> ->]. rewrite mon1_acc_eq, (acc_ok1_only _ _ _ (only_one _)). reflexivity.
    - rewrite mon1_rel. now apply ConcProofs.rel1_skip.
    - rewrite mon1_acq. rewrite (only_take_other _ _ _ _ (only_one _)) by discriminate. reflexivity. }
  rewrite E. exact IH.
Qed.

Ltac const_steps :=
  intros s a s' ev ST; destruct a; simpl in ST; break_step ST; unfold wr, rd, nextacc;
  repeat first
    [ apply Forall_nil
    | apply Forall_cons
    | apply Forall_app; split
    | apply Forall_map_chans; intros ? ? ];
  simpl; try rewrite in_block_payload; try (intros; split; congruence);
  try discriminate; try congruence; try tauto; nm1.

Lemma fam_etrig n : fam_ok n WFtrue LETrig (fun _ o => o = Some [HT TR]).
Proof. apply fam_const; [reflexivity|]. const_steps. Qed.

Lemma fam_timing n : fam_ok n WFtrue LTiming (fun _ o => o = Some [HT TR]).
Proof. apply fam_const; [reflexivity|]. const_steps. Qed.

Lemma fam_arch n : fam_ok n WFtrue LArch (fun _ o => o = Some [HT TC]).
Proof. apply fam_const; [reflexivity|]. const_steps. Qed.

(* ---- the frame counter: only atomic accesses *)
Lemma fam_next n : fam_ok n WFtrue LNext (fun _ o => o = None).
Proof.
  split; [reflexivity|].
  intros s o a s' ev _ -> ST. exists None. split; [|reflexivity].
  assert (HS : Forall (fun e => match e with
                                | Acc _ l' _ a' => l' = LNext -> a' = true
                                | Rel _ _ pl => ~ In LNext (map fst pl)
                                | Acq _ _ => True
                                end) ev).
  { destruct a; simpl in ST; break_step ST; unfold wr, rd, nextacc;
    repeat first
      [ apply Forall_nil
      | apply Forall_cons
      | apply Forall_app; split
      | apply Forall_map_chans; intros ? ? ];
    simpl; try rewrite in_block_payload; try discriminate; try congruence; try tauto; nm1. }
  clear ST. induction HS as [|e ev He _ IH]; [reflexivity|].
  rewrite run_cons.
  assert (E : mon1 LNext None e = Some None).
  { destruct e as [t' l' w a' | t' m pl | t' m].
    - destruct (loc_dec l' LNext) as [->|N]; [|now apply mon1_acc_ne].
      rewrite mon1_acc_eq. simpl. now rewrite (He eq_refl).
    - rewrite mon1_rel. now apply ConcProofs.rel1_skip.
    - reflexivity. }
  rewrite E. exact IH.
Qed.

(* ---- the copy of the j-th filled archive block: core loop -> MSnap j -> archive writer j *)
Record WFsnap (s : st) : Prop := {
  w_xpc2 : forall j, xpc s j = 2 -> j < aj s;
  w_xpc_le : forall j, xpc s j <= 2;
}.

Lemma WFsnap_init : WFsnap init.
Proof. constructor; simpl; intros; lia. Qed.

Lemma WFsnap_step n s a s' ev : WFsnap s -> step fixed n s a = Some (s', ev) -> WFsnap s'.
Proof.
  intros [A B] ST. destruct a; simpl in ST; break_step ST; constructor; proj; intros j0;
    try (unfold setn; destruct (Nat.eqb_spec j0 j); subst);
    try (intro E; specialize (A _ E)); try specialize (B j0); try lia.
Qed.

Definition owner_snap (s : st) (j : nat) : H :=
  if aj s <=? j then HT TC else if xpc s j <=? 1 then HM (MSnap j) else HT (TX j).

Definition Hi_snap (j : nat) (h : H) : Prop := h = HT TC \/ h = HM (MSnap j) \/ h = HT (TX j).

Definition I_snap (j : nat) (s : st) (o : option (list H)) : Prop :=
  exists hs, o = Some hs /\ only (owner_snap s j) hs = true.

Ltac snap_skip j s hs HB O W :=
  solve [ exists (Some hs); split;
    [ apply mon1_run_skip with (Hi := Hi_snap j); [exact HB | unfold Hi_snap; nomention]
    | exists hs; split; [reflexivity |];
      match goal with |- only (owner_snap ?s' ?jj) ?hh = true =>
         first [exact O | replace (owner_snap s' jj) with (owner_snap s jj); [exact O|]] end;
      destruct W as [WA WB]; unfold owner_snap, setn; proj;
      try (pose proof (WA j)); try (pose proof (WB j)); bool_lia ] ].

Lemma fam_snap n j : fam_ok n WFsnap (LSnap j) (I_snap j).
Proof.
  split; [exists [HT TC]; split; [reflexivity | apply only_one]|].
  intros s o a s' ev W (hs & -> & O) ST.
  assert (HB : forall h, In h hs -> Hi_snap j h).
  { intros h I. apply only_spec in O as [_ A]. rewrite (A h I). unfold owner_snap, Hi_snap.
    repeat match goal with |- context [if ?b then _ else _] => destruct b end; auto. }
  destruct a; simpl in ST.
  all: break_step ST.
  all: unfold wr, rd, nextacc.
  all: try snap_skip j s hs HB O W.
  - (* the archive is filled: the core loop writes the copy and sends it *)
    destruct (Nat.eq_dec j (aj s)) as [->|NE]; [|snap_skip j s hs HB O W].
    assert (E : owner_snap s (aj s) = HT TC). { unfold owner_snap. bool_lia. }
    rewrite E in O.
    eexists. split.
    + repeat run1. rewrite (acc_ok1_only _ _ _ O). cbv beta iota. repeat run1.
      rewrite (acc_ok1_only _ _ _ O). cbv beta iota.
      rewrite run_cons, mon1_rel, rel1_cons_eq, (only_hmem _ _ O). reflexivity.
    + eexists. split; [reflexivity|].
      replace (owner_snap _ (aj s)) with (HM (MSnap (aj s)) : H); [now apply only_give|].
      destruct W as [WA WB]. pose proof (WA (aj s)). pose proof (WB (aj s)). unfold owner_snap; proj. bool_lia.
  - (* a block is copied into the archive that is being filled: the core loop writes the buffers of request aj *)
    destruct (Nat.eq_dec j (aj s)) as [->|NE]; [|snap_skip j s hs HB O W].
    assert (E : owner_snap s (aj s) = HT TC). { unfold owner_snap. bool_lia. }
    rewrite E in O.
    exists (Some hs). split.
    + repeat run1. rewrite (acc_ok1_only _ _ _ O). reflexivity.
    + exists hs. split; [reflexivity|].
      unfold owner_snap; proj. rewrite Nat.leb_refl. exact O.
  - (* archive writer j0 starts: no concern *)
    destruct (Nat.eq_dec j j0) as [->|NE].
    + exists (Some hs). split.
      * apply mon1_run_skip with (Hi := Hi_snap j0); [exact HB | unfold Hi_snap; nomention].
      * exists hs. split; [reflexivity|].
        replace (owner_snap _ j0) with (owner_snap s j0); [exact O|].
        unfold owner_snap, setn; proj. rewrite Nat.eqb_refl. destruct W as [WA WB]. bool_lia.
    + exists (Some hs). split.
      * apply mon1_run_skip with (Hi := Hi_snap j); [exact HB | unfold Hi_snap; nomention].
      * exists hs. split; [reflexivity|].
        replace (owner_snap _ j) with (owner_snap s j); [exact O|].
        unfold owner_snap, setn; proj. destruct (Nat.eqb_spec j j0); [contradiction|reflexivity].
  - (* archive writer j0 receives the copy *)
    destruct (Nat.eq_dec j j0) as [->|NE].
    + assert (E : owner_snap s j0 = HM (MSnap j0)). { unfold owner_snap. bool_lia. }
      rewrite E in O. pose proof (only_take (TX j0) _ _ O) as O'.
      eexists. split.
      * repeat run1. rewrite (acc_ok1_only _ _ _ O'). reflexivity.
      * eexists. split; [reflexivity|].
        replace (owner_snap _ j0) with (HT (TX j0) : H); [exact O'|].
        unfold owner_snap, setn; proj. rewrite Nat.eqb_refl. bool_lia.
    + exists (Some hs). split.
      * apply mon1_run_skip with (Hi := Hi_snap j); [exact HB | unfold Hi_snap; nomention].
      * exists hs. split; [reflexivity|].
        replace (owner_snap _ j) with (owner_snap s j); [exact O|].
        unfold owner_snap, setn; proj. destruct (Nat.eqb_spec j j0); [contradiction|reflexivity].
Qed.

(* ---- the state of a data file's writer goroutine (buffer, error state of the underlying file): its own *)
Lemma fam_file n i : fam_ok n WFtrue (LFile i) (fun _ o => o = Some [HT (TF i)]).
Proof. apply fam_const; [reflexivity|]. const_steps. Qed.

(* ---- Lancero's Mix objects: the block assembler's own (it serves the mix requests and applies the mix) *)
Lemma fam_mix n : fam_ok n WFtrue LMix (fun _ o => o = Some [HT TA]).
Proof. apply fam_const; [reflexivity|]. const_steps. Qed.

(* ---- sourceState: only ever touched inside a critical section of sourceStateLock *)
Lemma fam_state n :
  fam_ok n WFtrue LState (fun _ o => exists hs, o = Some hs /\ only (HM MState) hs = true).
Proof.
  split; [exists [HM MState]; split; [reflexivity | apply only_one]|].
  intros s o a s' ev _ (hs & -> & O) ST.
  assert (HB : forall h, In h hs -> h = HM MState).
  { intros h I. apply only_spec in O as [_ A]. exact (A h I). }
  destruct a; simpl in ST.
  all: break_step ST.
  all: unfold wr, rd, nextacc.
  all: try (solve [ exists (Some hs); split;
                    [ apply mon1_run_skip with (Hi := fun h => h = HM MState); [exact HB | nomention]
                    | exists hs; split; [reflexivity | exact O] ] ]).
  all: pose proof (only_take TQ _ _ O) as OQ; pose proof (only_take TC _ _ O) as OC.
  - eexists. split.
    + repeat run1. rewrite (acc_ok1_only _ _ _ OQ). cbv beta iota.
      rewrite run_cons, mon1_rel, rel1_cons_eq, (only_hmem _ _ OQ). reflexivity.
    + eexists. split; [reflexivity | now apply only_give].
  - eexists. split.
    + repeat run1. rewrite (acc_ok1_only _ _ _ OC). cbv beta iota.
      rewrite run_cons, mon1_rel, rel1_cons_eq, (only_hmem _ _ OC). reflexivity.
    + eexists. split; [reflexivity | now apply only_give].
Qed.
