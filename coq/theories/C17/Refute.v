(* C17 — the protocol of the UNCHANGED tree (and one seeded fault) is not race free: for each hand-off that
   was repaired, the variant of the model that re-introduces it has a schedule whose execution contains
   two conflicting accesses not ordered by happens-before.  Witnesses are evaluated by vm_compute; the
   step from "the computed race list is not empty" to "not RaceFree" is ClockProofs.race_free_b_iff_thm. *)
From Coq Require Import List Arith Bool Lia.
Import ListNotations.
From Dastard Require Import C17.Conc C17.ConcProofs C17.ClockProofs C17.Model C17.Spec.

Definition reps (k : nat) (a : act) : list act := repeat a k.

(* one reader tick, the assembly of the block (n channels) and its hand-over to the core loop *)
Definition assemble (n : nat) : list act :=
  [AR] ++ reps (3 + n) AA ++ map AAW (seq 0 n) ++ reps (2 + n) AA.
(* the core loop takes the block and processes it completely *)
Definition process (n : nat) (fill : nat) : list act :=
  [AC 0; AC fill] ++ reps (1 + n) (AC 0) ++ map (fun i => AW i true) (seq 0 n) ++ reps (2 + n) (AC 0)
  ++ reps (1 + n) (AC 0) ++ map (fun i => AW i true) (seq 0 n) ++ reps (3 + n) (AC 0).
Definition one_block (n : nat) : list act := [AC 0] ++ assemble n ++ process n 1.

Definition only_next := {| v_next_plain := true; v_nsamp_workers := false; v_etrig_asm := false;
                           v_arch_shared := false; v_cnt_nolock := false; v_rate_shared := false |}.
Definition only_nsamp := {| v_next_plain := false; v_nsamp_workers := true; v_etrig_asm := false;
                            v_arch_shared := false; v_cnt_nolock := false; v_rate_shared := false |}.
Definition only_etrig := {| v_next_plain := false; v_nsamp_workers := false; v_etrig_asm := true;
                            v_arch_shared := false; v_cnt_nolock := false; v_rate_shared := false |}.
Definition only_arch := {| v_next_plain := false; v_nsamp_workers := false; v_etrig_asm := false;
                           v_arch_shared := true; v_cnt_nolock := false; v_rate_shared := false |}.
Definition only_cnt := {| v_next_plain := false; v_nsamp_workers := false; v_etrig_asm := false;
                          v_arch_shared := false; v_cnt_nolock := true; v_rate_shared := false |}.
Definition only_rate := {| v_next_plain := false; v_nsamp_workers := false; v_etrig_asm := false;
                           v_arch_shared := false; v_cnt_nolock := false; v_rate_shared := true |}.
(* the unchanged tree: all five hand-offs as they were *)
Definition pre_fix := {| v_next_plain := true; v_nsamp_workers := true; v_etrig_asm := true;
                         v_arch_shared := true; v_cnt_nolock := true; v_rate_shared := false |}.

(* frame counter: the assembler advances it (plain store) while the reader's next tick loads it *)
Definition w_next : list act := [AC 0] ++ assemble 1 ++ [AR].
(* nSamp: two per-channel goroutines of distributeData write the block header *)
Definition w_nsamp : list act := [AC 0; AR] ++ reps 5 AA ++ [AAW 0; AAW 1].
(* external-trigger queue: the assembler drains it while the reader's next tick appends to it *)
Definition w_etrig : list act := [AC 0; AR; AA; AA; AR].
(* archive: StoreRawDataBlock, the block that fills it (close, THEN active = false), the writer reads the struct *)
Definition w_arch : list act :=
  [AC 0; AQ 4; AC 1; AC 0; AC 0; AQ 0] ++ assemble 1 ++ [AC 0; AC 0; AX 0; AX 0].
(* trigger counter: the core loop updates it without the lock while ReadComment copies it under the lock *)
Definition w_cnt : list act := one_block 1 ++ [AQ 0; AQ 0].
(* seeded fault: the counts slice of the first TRIGGERRATE message is written again after the updater has read it, with nothing from the updater back to the core loop *)
Definition w_rate : list act := one_block 1 ++ [AU] ++ one_block 1.

Definition racy (v : variant) (n : nat) (sched : list act) : bool :=
  negb (C17_check_log (exec v n sched)) && negb (monitor_accepts v (exec v n sched)).

Lemma witnesses_racy :
  racy only_next 1 w_next = true /\ racy only_nsamp 2 w_nsamp = true /\ racy only_etrig 1 w_etrig = true /\
  racy only_arch 1 w_arch = true /\ racy only_cnt 1 w_cnt = true /\ racy only_rate 1 w_rate = true /\
  racy pre_fix 2 (one_block 2 ++ w_arch) = true.
Proof. vm_compute. repeat split. Qed.

(* the same schedules are race free (and accepted) in the repaired protocol *)
Lemma witnesses_fixed_clean :
  forallb (fun ns => C17_check_log (exec fixed (fst ns) (snd ns)) && monitor_accepts fixed (exec fixed (fst ns) (snd ns)))
          [(1, w_next); (2, w_nsamp); (1, w_etrig); (1, w_arch); (1, w_cnt); (1, w_rate); (2, one_block 2 ++ w_arch)] = true.
Proof. vm_compute. reflexivity. Qed.

Lemma racy_not_race_free v n sched : racy v n sched = true -> ~ RaceFree (exec v n sched).
Proof.
  unfold racy. intros R RF. apply andb_true_iff in R as [R _]. apply negb_true_iff in R.
  apply (race_free_b_iff_thm tid mid loc tid_dec mid_dec loc_dec) in RF.
  unfold C17_check_log in R. congruence.
Qed.
