(* C17 — property theorems only. *)
From Dastard Require Import C17.Conc C17.Model C17.Spec C17.Proofs.
