(* C17 — property theorems only: each closed by [exact], each followed by Print Assumptions.

   PARTIAL (DESIGN section 7 C17).  Full informal statement: "while a source runs, with triggers firing,
   files being written, status being published, raw-data blocks being archived and one client issuing
   control requests, no two threads of dastard access the same memory without synchronisation when at
   least one access is a write - for all thread interleavings".  Race freedom of the Go program is a
   statement about memory accesses of the Go runtime, which no Gallina model observes.  The theorems
   below are about the OWNERSHIP PROTOCOL of Model.v (which thread may touch which shared location in
   which phase, through which synchronisation each hand-off goes).  They hold for ALL numbers of channels
   and ALL schedules.  The inventory of locations and synchronisation operations of the model is validated
   dynamically (conformance of logged executions, race-detector runs), it is NOT proved complete. *)
From Coq Require Import List Arith Bool.
Import ListNotations.
From Dastard Require Import C17.Conc C17.Model C17.Spec C17.Refute C17.Final.

(* For every number n of channels and every schedule, no two accesses of the execution by different
   threads to the same location, at least one of them a write and not both atomic, are unordered by
   happens-before (program order + release/acquire edges + transitivity). *)
Theorem ownership_race_free_partial :
  forall (n : nat) (sched : list act) i j t1 t2 l w1 a1 w2 a2,
    i < j ->
    nth_error (exec fixed n sched) i = Some (Acc t1 l w1 a1) ->
    nth_error (exec fixed n sched) j = Some (Acc t2 l w2 a2) ->
    t1 <> t2 -> w1 || w2 = true -> a1 && a2 = false ->
    Conc.HB tid mid loc (exec fixed n sched) i j.
Proof. exact ownership_race_free_thm. Qed.
Print Assumptions ownership_race_free_partial.

(* The invariant behind it: in every execution every access is made by a current holder of the location
   (a write by its only holder) and ownership changes only along a synchronisation edge. *)
Theorem model_accepted :
  forall (n : nat) (sched : list act), monitor_accepts fixed (exec fixed n sched) = true.
Proof. exact model_accepted_thm. Qed.
Print Assumptions model_accepted.

(* What acceptance by the ownership monitor means, for ANY trace and any variant's initial holders
   (this is what the conformance check uses for logs of the real program). *)
Theorem monitor_sound :
  forall (v : variant) (p : trace), monitor_accepts v p = true -> RaceFree p.
Proof. exact monitor_sound_gen. Qed.
Print Assumptions monitor_sound.

(* The observable checker (happens-before computed by clocks along the log) decides race freedom exactly. *)
Theorem checker_decides_race_freedom :
  forall p : trace, C17_check_log p = true <-> RaceFree p.
Proof. exact check_log_iff. Qed.
Print Assumptions checker_decides_race_freedom.

Theorem model_passes_checker :
  forall (n : nat) (sched : list act), C17_check_log (exec fixed n sched) = true.
Proof. exact model_passes_checker_thm. Qed.
Print Assumptions model_passes_checker.

(* The protocol of the unchanged tree: each of the five hand-offs that were repaired, re-introduced alone,
   has a schedule with a race; so has the unchanged tree as a whole (all five). *)
Theorem ownership_race_free_refuted_pre_fix :
  ~ RaceFree (exec only_next 1 w_next) /\ ~ RaceFree (exec only_nsamp 2 w_nsamp) /\
  ~ RaceFree (exec only_etrig 1 w_etrig) /\ ~ RaceFree (exec only_arch 1 w_arch) /\
  ~ RaceFree (exec only_cnt 1 w_cnt) /\ ~ RaceFree (exec pre_fix 2 (one_block 2 ++ w_arch)).
Proof. exact refuted_pre_fix_thm. Qed.
Print Assumptions ownership_race_free_refuted_pre_fix.

(* A seeded fault of the design's list: one counts slice shared by all TRIGGERRATE messages. *)
Theorem ownership_race_free_refuted_shared_rate_slice :
  ~ RaceFree (exec only_rate 1 w_rate).
Proof. exact refuted_rate_shared_thm. Qed.
Print Assumptions ownership_race_free_refuted_shared_rate_slice.
