From Coq Require Import List Arith Bool Lia.
Import ListNotations.
(* C17 -- families LProc i (per-channel processor state), LRec k i ph (the record batch made by worker i
   in phase ph of block k) and LRate x (the counts slice of the x-th TRIGGERRATE message), variant
   [fixed], every n and every index.  Same style as FamHdr.v.

     WFproc            state invariant shared by the three families (WFproc_init, WFproc_step)
     future s k i ph   worker i has not yet run phase ph of block k (future_mono: steps only shrink it)
     fam_proc          LProc i has ONE holder at any time: core loop -> MF (fork) -> worker -> MD (join) -> core loop
     fam_rec           LRec k i ph: held by the worker alone until it runs; then shared (read-only) with the
                       message MPub k i ph while that is queued, and with the publisher after it took it
     fam_rate          LRate x: core loop -> MRate x -> updater, one holder at any time *)
From Dastard Require Import C17.Conc C17.ConcProofs C17.Model C17.Spec C17.Proofs.

Definition future (s : st) (k i ph : nat) : Prop :=
  ck s < k \/
  (ck s = k /\ (cpc s <= 2 \/ 10 <= cpc s
                \/ (3 <= cpc s <= 5 /\ cph s < ph)
                \/ (3 <= cpc s <= 4 /\ cph s = ph /\ wdone s i = false))).

Record WFproc (n : nat) (s : st) : Prop := {
  p_cfc : cfc s <= n;
  p_cjc : cjc s <= n;
  p_cjc3 : cpc s = 3 -> cjc s = 0;
  p_wd : forall j, wdone s j = true -> j < cfc s /\ 3 <= cpc s <= 7;
  p_join : cpc s = 4 -> forall j, j < cjc s -> wdone s j = true;
  p_ph5 : cpc s = 5 -> cph s = 0;
  p_pub_nd : NoDup (pubq s);
  p_pub_nf : forall k i ph, In (k, i, ph) (pubq s) -> ~ future s k i ph;
  p_rate_nd : NoDup (rateq s);
  p_rate_lt : forall y, In y (rateq s) -> y < nrate s;
}.

Ltac fut_solve :=
  solve [ left; lia
        | right; split; [lia|];
          solve [ left; lia | right; left; lia | right; right; left; lia
                | right; right; right; repeat split; (lia || assumption) ] ].

Lemma future_mono n s a s' ev k i ph :
  (cpc s = 5 -> cph s = 0) -> step fixed n s a = Some (s', ev) -> future s' k i ph -> future s k i ph.
Proof.
  intros P5 ST. destruct a; simpl in ST; break_step ST; unfold future; proj; try exact (fun x => x).
  all: intros [F | (F0 & [F | [F | [(F1 & F2) | (F1 & F2 & F3)]]])].
  all: unfold setb in *;
       try match goal with X : (if ?a =? ?b then true else _) = false |- _ => destruct (a =? b); [discriminate X|] end.
  all: try fut_solve.
Qed.

Lemma NoDup_snoc {A} (l : list A) x : NoDup l -> ~ In x l -> NoDup (l ++ [x]).
Proof.
  intros ND NI. induction ND as [|y l Hy ND IH]; simpl.
  - constructor; [intros []|constructor].
  - constructor.
    + rewrite in_app_iff. simpl. intros [I|[E|[]]]; [contradiction|]. subst. apply NI. now left.
    + apply IH. intro I. apply NI. now right.
Qed.

Lemma WFproc_init n : WFproc n init.
Proof.
  constructor; simpl; try lia; try (intros; discriminate); try constructor; try (intros; contradiction).
Qed.

Ltac wf_wd pw :=
  let j := fresh "j" in let Hj := fresh "Hj" in
  intros j Hj; try discriminate Hj; unfold setb in Hj;
  try match type of Hj with context [?a =? ?b] => destruct (Nat.eqb_spec a b) end;
  try (apply pw in Hj); lia.

Ltac wf_join pj :=
  let E := fresh "E" in let j := fresh "j" in let Hj := fresh "Hj" in
  intros E j Hj; try (exfalso; lia); unfold setb;
  try match goal with |- context [?a =? ?b] => destruct (Nat.eqb_spec a b); [reflexivity|] end;
  try match goal with X : wdone ?s ?c = true |- wdone ?s j = true =>
        destruct (Nat.eq_dec j c); [subst; assumption|] end;
  apply pj; lia.

Lemma future_now s i : 3 <= cpc s <= 4 -> wdone s i = false -> future s (ck s) i (cph s).
Proof. intros A B. right. split; [reflexivity|]. right; right; right. auto. Qed.

Lemma not_future_done s i k ph pq : ~ future
    {| rk := rk s; apc := apc s; ak := ak s; afc := afc s; ajc := ajc s; awdone := awdone s;
       cgo := cgo s; cpc := cpc s; ck := ck s; cph := cph s; cfc := cfc s; cjc := cjc s;
       wdone := setb (wdone s) i true; pubq := pq;
       rateq := rateq s; nrate := nrate s; creq := creq s; qpc := qpc s; qr := qr s;
       qkind := qkind s; wsl := wsl s; aact := aact s; aj := aj s; ago := ago s; xpc := xpc s |} k i ph
    \/ (k, i, ph) <> (ck s, i, cph s) \/ ~ 3 <= cpc s <= 4.
Proof.
  destruct (Nat.eq_dec k (ck s)) as [->|N1]; [|right; left; congruence].
  destruct (Nat.eq_dec ph (cph s)) as [->|N2]; [|right; left; congruence].
  destruct (le_dec 3 (cpc s)); [|right; right; lia].
  destruct (le_dec (cpc s) 4); [|right; right; lia].
  left. unfold future; proj. unfold setb. rewrite Nat.eqb_refl.
  intros [F | (F0 & [F | [F | [(F1 & F2) | (F1 & F2 & F3)]]])]; try lia; try discriminate.
Qed.

Ltac fix3 :=
  repeat match goal with
         | X : match cpc ?s with _ => _ end = true |- _ =>
             change ((3 <=? cpc s) = true) in X; apply Nat.leb_le in X
         end;
  change (ratex fixed) with nrate in *.

Ltac wf_pub_nd :=
  first [ assumption
        | match goal with Y : NoDup (_ :: _) |- _ => inversion Y; assumption end
        | apply NoDup_snoc; [assumption|];
          let I := fresh "I" in intro I;
          match goal with P : forall k i ph, In _ (pubq ?s) -> ~ future ?s k i ph |- _ =>
            apply P in I; apply I; apply future_now; [lia | assumption] end ].

Ltac wf_pub_nf :=
  let k := fresh "k" in let i := fresh "i" in let ph := fresh "ph" in
  let I := fresh "I" in let F := fresh "F" in
  intros k i ph I F;
  match goal with P : forall k i ph, In _ _ -> ~ future ?s k i ph,
                  FM : forall k i ph, future _ k i ph -> future ?s k i ph |- _ =>
    first [ exact (P _ _ _ I (FM _ _ _ F))
          | exact (P _ _ _ (or_intror I) (FM _ _ _ F))
          | apply in_app_or in I; destruct I as [I | [I | []]];
            [ exact (P _ _ _ I (FM _ _ _ F))
            | inversion I; subst;
              match type of F with future {| wdone := setb _ ?j _; pubq := ?pq |} _ _ _ =>
                destruct (not_future_done s j (ck s) (cph s) pq) as [G | [G | G]];
                [ exact (G F) | congruence | lia ] end ] ]
  end.

Ltac wf_rate_nd :=
  first [ assumption
        | match goal with Y : NoDup (_ :: _) |- _ => inversion Y; assumption end
        | apply NoDup_snoc; [assumption|];
          let I := fresh "I" in intro I;
          match goal with P : forall y, In y (rateq ?s) -> y < nrate ?s |- _ =>
            apply P in I; lia end ].

Ltac wf_rate_lt :=
  let y := fresh "y" in let I := fresh "I" in
  intros y I;
  match goal with P : forall y, In y _ -> y < nrate ?s |- _ =>
    first [ exact (P _ I)
          | exact (P _ (or_intror I))
          | apply in_app_or in I; destruct I as [I | [I | []]]; [apply P in I; lia | subst; lia] ]
  end.

Lemma WFproc_step n s a s' ev : WFproc n s -> step fixed n s a = Some (s', ev) -> WFproc n s'.
Proof.
  intros W ST.
  assert (FM : forall k i ph, future s' k i ph -> future s k i ph).
  { intros. eapply future_mono; eauto. apply W. }
  destruct W. destruct a; simpl in ST; break_step ST; fix3;
  (constructor; proj;
   [ try lia | try lia | try lia | try wf_wd p_wd0 | try wf_join p_join0 | try lia
   | try wf_pub_nd | try wf_pub_nf | try wf_rate_nd | try wf_rate_lt ]).
Qed.

(* ------------------------------------------------------------------ (A) LProc i *)

Definition owner_proc (n : nat) (s : st) (i : nat) : H :=
  if n <=? i then HT TC
  else if ((cpc s =? 3) && (i <? cfc s)) || ((cpc s =? 4) && (cjc s <=? i))
       then (if wdone s i then HM (MD (cph s) (ck s) i) else HM (MF (cph s) (ck s) i))
       else HT TC.

Definition Hi_proc (s : st) (i : nat) (h : H) : Prop :=
  h = HT TC \/ h = HM (MF (cph s) (ck s) i) \/ h = HM (MD (cph s) (ck s) i).

Lemma owner_proc_Hi n s i : Hi_proc s i (owner_proc n s i).
Proof. unfold owner_proc, Hi_proc. repeat match goal with |- context [if ?b then _ else _] => destruct b end; auto. Qed.

Definition I_proc (n i : nat) (s : st) (o : option (list H)) : Prop :=
  exists hs, o = Some hs /\ only (owner_proc n s i) hs = true.

Ltac proc_skip n i s hs HB O W :=
  solve [ exists (Some hs); split;
    [ apply mon1_run_skip with (Hi := Hi_proc s i); [exact HB | unfold Hi_proc; nomention]
    | exists hs; split; [reflexivity |];
      match goal with |- only (owner_proc _ ?s' _) ?hh = true =>
         first [exact O | replace (owner_proc n s' i) with (owner_proc n s i); [exact O|]] end;
      destruct W; unfold owner_proc, setb; proj; bool_lia ] ].

Lemma run_map_acc_nil l o t (f : nat -> loc) w a n :
  (acc_ok1 o t w a = true \/ forall i, i < n -> f i <> l) ->
  mon1_run l o (map (fun i => Acc t (f i) w a) (chans n)) = Some o.
Proof. intro Hc. rewrite <- (app_nil_r (map _ _)). rewrite run_map_acc by exact Hc. reflexivity. Qed.

Ltac own_tc n i s W O :=
  let E := fresh "E" in
  assert (E : owner_proc n s i = HT TC) by (destruct W; unfold owner_proc; bool_lia);
  rewrite E in O.

Lemma fam_proc n i : fam_ok n (WFproc n) (LProc i) (I_proc n i).
Proof.
  split; [exists [HT TC]; split; [reflexivity | unfold owner_proc; simpl; destruct (n <=? i); apply only_one]|].
  intros s o a s' ev W (hs & -> & O) ST.
  assert (HB : forall h, In h hs -> Hi_proc s i h).
  { intros h I. apply only_spec in O as [_ A]. rewrite (A h I). apply owner_proc_Hi. }
  destruct a; simpl in ST.
  all: break_step ST; fix3.
  all: unfold wr, rd, nextacc.
  all: try proc_skip n i s hs HB O W.
  - (* fork *)
    destruct (Nat.eq_dec i (cfc s)) as [->|NE]; [|proc_skip n i s hs HB O W].
    own_tc n (cfc s) s W O.
    assert (WD : wdone s (cfc s) = false).
    { destruct (wdone s (cfc s)) eqn:D; [|reflexivity]. apply (p_wd _ _ W) in D. lia. }
    eexists. split.
    + rewrite run_cons, mon1_rel, rel1_cons_eq, (only_hmem _ _ O). rewrite rel1_cons_ne by discriminate. reflexivity.
    + eexists. split; [reflexivity|].
      replace (owner_proc _ _ (cfc s)) with (HM (MF (cph s) (ck s) (cfc s)) : Proofs.H); [now apply only_give|].
      destruct W; unfold owner_proc; proj; rewrite WD; bool_lia.
  - (* join *)
    destruct (Nat.eq_dec i (cjc s)) as [->|NE]; [|proc_skip n i s hs HB O W].
    assert (E : owner_proc n s (cjc s) = HM (MD (cph s) (ck s) (cjc s))).
    { destruct W; unfold owner_proc.
      match goal with X : wdone s (cjc s) = true |- _ => rewrite X end. bool_lia. }
    rewrite E in O. pose proof (only_take TC _ _ O) as O'.
    eexists. split.
    + repeat run1. reflexivity.
    + eexists. split; [reflexivity|].
      replace (owner_proc _ _ (cjc s)) with (HT TC : Proofs.H); [exact O'|].
      destruct W; unfold owner_proc; proj; bool_lia.
  - (* broker reads all processors *)
    own_tc n i s W O.
    exists (Some hs). split.
    + rewrite run_map_acc by (left; apply acc_ok1_only; exact O). repeat run1. reflexivity.
    + exists hs. split; [reflexivity|].
      replace (owner_proc n _ i) with (HT TC : Proofs.H); [exact O|].
      destruct W; unfold owner_proc; proj; bool_lia.
  - (* end of block: writes all processors *)
    own_tc n i s W O.
    exists (Some hs). split.
    + rewrite <- app_assoc. rewrite run_map_acc by (left; apply acc_ok1_only; exact O). repeat run1.
      rewrite (only_take_other _ _ _ _ O) by discriminate. reflexivity.
    + exists hs. split; [reflexivity|].
      replace (owner_proc n _ i) with (HT TC : Proofs.H); [exact O|].
      destruct W; unfold owner_proc; proj; bool_lia.
  - (* request closure, kind 0 *)
    own_tc n i s W O.
    exists (Some hs). split.
    + rewrite run_map_acc_nil by (left; apply acc_ok1_only; exact O). reflexivity.
    + exists hs. split; [reflexivity|].
      replace (owner_proc n _ i) with (HT TC : Proofs.H); [exact O|].
      destruct W; unfold owner_proc; proj; bool_lia.
  - (* kind 1 *)
    own_tc n i s W O.
    exists (Some hs). split.
    + rewrite run_map_acc by (left; apply acc_ok1_only; exact O). repeat run1. reflexivity.
    + exists hs. split; [reflexivity|].
      replace (owner_proc n _ i) with (HT TC : Proofs.H); [exact O|].
      destruct W; unfold owner_proc; proj; bool_lia.
  - (* kind 2 *)
    own_tc n i s W O.
    exists (Some hs). split.
    + rewrite run_map_acc by (left; apply acc_ok1_only; exact O). repeat run1.
      rewrite (only_take_other _ _ _ _ O) by discriminate. reflexivity.
    + exists hs. split; [reflexivity|].
      replace (owner_proc n _ i) with (HT TC : Proofs.H); [exact O|].
      destruct W; unfold owner_proc; proj; bool_lia.
  - (* worker, publishing *)
    destruct (Nat.eq_dec i i0) as [<-|NE]; [|proc_skip n i s hs HB O W].
    assert (CJ : cpc s = 4 -> cjc s <= i).
    { intro E4. destruct (le_lt_dec (cjc s) i) as [L|L]; [exact L|]. apply (p_join _ _ W E4) in L. congruence. }
    assert (E : owner_proc n s i = HM (MF (cph s) (ck s) i)).
    { destruct W; unfold owner_proc.
      match goal with X : wdone s i = false |- _ => rewrite X end. bool_lia. }
    rewrite E in O. pose proof (only_take (TW i) _ _ O) as O'.
    eexists. split.
    + repeat run1. rewrite (acc_ok1_only _ _ _ O'). repeat run1.
      rewrite rel1_cons_eq, (only_hmem _ _ O'). rewrite rel1_cons_ne by discriminate. reflexivity.
    + eexists. split; [reflexivity|].
      replace (owner_proc _ _ i) with (HM (MD (cph s) (ck s) i) : Proofs.H); [now apply only_give|].
      destruct W; unfold owner_proc, setb; proj; rewrite Nat.eqb_refl; bool_lia.
  - (* worker, not publishing *)
    destruct (Nat.eq_dec i i0) as [<-|NE]; [|proc_skip n i s hs HB O W].
    assert (CJ : cpc s = 4 -> cjc s <= i).
    { intro E4. destruct (le_lt_dec (cjc s) i) as [L|L]; [exact L|]. apply (p_join _ _ W E4) in L. congruence. }
    assert (E : owner_proc n s i = HM (MF (cph s) (ck s) i)).
    { destruct W; unfold owner_proc.
      match goal with X : wdone s i = false |- _ => rewrite X end. bool_lia. }
    rewrite E in O. pose proof (only_take (TW i) _ _ O) as O'.
    eexists. split.
    + repeat run1. rewrite (acc_ok1_only _ _ _ O'). repeat run1.
      rewrite rel1_cons_eq, (only_hmem _ _ O'). rewrite rel1_cons_ne by discriminate. reflexivity.
    + eexists. split; [reflexivity|].
      replace (owner_proc _ _ i) with (HM (MD (cph s) (ck s) i) : Proofs.H); [now apply only_give|].
      destruct W; unfold owner_proc, setb; proj; rewrite Nat.eqb_refl; bool_lia.
Qed.

(* ------------------------------------------------------------------ (C) LRate x *)

Definition Hi_rate (x : nat) (h : H) : Prop := h = HT TC \/ h = HM (MRate x) \/ h = HT TU.

Definition I_rate (x : nat) (s : st) (o : option (list H)) : Prop :=
  exists hs, o = Some hs
    /\ (nrate s <= x -> only (HT TC) hs = true)
    /\ (In x (rateq s) -> only (HM (MRate x)) hs = true)
    /\ (x < nrate s -> ~ In x (rateq s) -> only (HT TU) hs = true).

Ltac rate_skip x hs HB A B C :=
  solve [ exists (Some hs); split;
    [ apply mon1_run_skip with (Hi := Hi_rate x); [exact HB | unfold Hi_rate; nomention]
    | exists hs; split; [reflexivity |]; split; [exact A|]; split; [exact B | exact C] ] ].

Lemma fam_rate n x : fam_ok n (WFproc n) (LRate x) (I_rate x).
Proof.
  split.
  { exists [HT TC]. split; [reflexivity|]. cbn [init nrate rateq]. split; [intros _; apply only_one|]. split; [intros []|intros L; lia]. }
  intros s o a s' ev W (hs & -> & A & B & C) ST.
  assert (HB : forall h, In h hs -> Hi_rate x h).
  { intros h I. unfold Hi_rate.
    destruct (le_lt_dec (nrate s) x) as [L|L].
    - apply A in L. apply only_spec in L as [_ L]. rewrite (L h I). auto.
    - destruct (in_dec Nat.eq_dec x (rateq s)) as [J|J].
      + apply B in J. apply only_spec in J as [_ J]. rewrite (J h I). auto.
      + apply (C L) in J. apply only_spec in J as [_ J]. rewrite (J h I). auto. }
  destruct a; simpl in ST.
  all: break_step ST; fix3.
  all: unfold wr, rd, nextacc.
  all: try rate_skip x hs HB A B C.
  - (* broker makes the message *)
    destruct (Nat.eq_dec x (nrate s)) as [->|NE].
    + pose proof (A (le_n _)) as O.
      eexists. split.
      * repeat run1. rewrite (acc_ok1_only _ _ _ O). rewrite run_cons, mon1_rel, rel1_cons_eq, (only_hmem _ _ O). reflexivity.
      * eexists. split; [reflexivity|]. proj. split; [intro; lia|]. split.
        -- intros _. now apply only_give.
        -- intros _ N. exfalso. apply N. apply in_or_app. right. now left.
    + exists (Some hs). split.
      * apply mon1_run_skip with (Hi := Hi_rate x); [exact HB | unfold Hi_rate; nomention].
      * exists hs. split; [reflexivity|]. proj. split; [intro; apply A; lia|]. split.
        -- intro I. apply in_app_or in I. destruct I as [I|[I|[]]]; [exact (B I) | congruence].
        -- intros L N. apply C; [lia|]. intro I. apply N. apply in_or_app. now left.
  - (* updater takes a message *)
    match goal with X : rateq s = ?y :: ?r |- _ => rename X into RQ; destruct (Nat.eq_dec x y) as [<-|NE] end.
    + assert (IN : In x (rateq s)) by (rewrite RQ; now left).
      pose proof (B (or_introl eq_refl)) as O. pose proof (only_take TU _ _ O) as O'.
      eexists. split.
      * repeat run1. rewrite (acc_ok1_only _ _ _ O'). reflexivity.
      * eexists. split; [reflexivity|]. proj. split; [|split].
        -- intro L. apply (p_rate_lt _ _ W) in IN. lia.
        -- intro I. exfalso. pose proof (p_rate_nd _ _ W) as ND. rewrite RQ in ND. inversion ND. contradiction.
        -- intros _ _. exact O'.
    + exists (Some hs). split.
      * apply mon1_run_skip with (Hi := Hi_rate x); [exact HB | unfold Hi_rate; nomention].
      * exists hs. split; [reflexivity|]. proj. split; [exact A|]. split.
        -- intro I. apply B. now right.
        -- intros L N. apply C; [exact L|]. intros [E|I]; [congruence | contradiction].
Qed.

(* ------------------------------------------------------------------ (B) LRec k i ph *)

Definition Hi_rec (k i ph : nat) (h : H) : Prop := h = HT (TW i) \/ h = HT TP \/ h = HM (MPub k i ph).

Definition I_rec (k i ph : nat) (s : st) (o : option (list H)) : Prop :=
  exists hs, o = Some hs /\ In (HT (TW i)) hs
    /\ (forall h, In h hs -> h = HT (TW i) \/ h = HT TP \/ (h = HM (MPub k i ph) /\ In (k, i, ph) (pubq s)))
    /\ (In (k, i, ph) (pubq s) -> In (HM (MPub k i ph)) hs)
    /\ (future s k i ph -> forall h, In h hs -> h = HT (TW i)).

Lemma triple_dec (a b : nat * nat * nat) : {a = b} + {a <> b}.
Proof. repeat decide equality. Qed.

Ltac rec_skip k i ph hs HB I1 UB PB FU FM :=
  solve [ exists (Some hs); split;
    [ apply mon1_run_skip with (Hi := Hi_rec k i ph); [exact HB | unfold Hi_rec; nomention]
    | exists hs; split; [reflexivity |]; split; [exact I1|]; split; [exact UB|]; split;
      [exact PB | exact (fun F => FU (FM F))] ] ].

Lemma fam_rec n k i ph : fam_ok n (WFproc n) (LRec k i ph) (I_rec k i ph).
Proof.
  split.
  { exists [HT (TW i)]. split; [reflexivity|]. cbn [init pubq]. split; [now left|]. split; [|split].
    - intros h [<-|[]]. now left.
    - intros [].
    - intros _ h [<-|[]]. reflexivity. }
  intros s o a s' ev W (hs & -> & I1 & UB & PB & FU) ST.
  assert (HB : forall h, In h hs -> Hi_rec k i ph h).
  { intros h Hh. unfold Hi_rec. destruct (UB h Hh) as [|[|[? _]]]; auto. }
  assert (FM : future s' k i ph -> future s k i ph).
  { eapply future_mono; eauto. apply W. }
  destruct a; simpl in ST.
  all: break_step ST; fix3.
  all: unfold wr, rd, nextacc.
  all: try rec_skip k i ph hs HB I1 UB PB FU FM.
  - (* worker i0 publishes the batch (ck s, i0, cph s) *)
    destruct (triple_dec (ck s, i0, cph s) (k, i, ph)) as [E|NE].
    + injection E as E1 E2 E3. subst k i0 ph.
      assert (F : future s (ck s) i (cph s)) by (apply future_now; [lia | assumption]).
      assert (O : only (HT (TW i)) hs = true).
      { apply only_spec. split; [intro; subst; destruct I1 | exact (FU F)]. }
      assert (R : acc_ok1 (Some (give (TW i) (MPub (ck s) i (cph s)) true hs)) (TW i) false false = true).
      { unfold ConcProofs.acc_ok1, Conc.give. apply andb_true_iff. split; [reflexivity|].
        apply ConcProofs.hmem_true. right. exact I1. }
      eexists. split.
      * repeat run1. rewrite (only_take_other _ _ _ _ O) by discriminate.
        rewrite (acc_ok1_only _ _ _ O). repeat run1.
        rewrite rel1_cons_eq, (only_hmem _ _ O). cbn [ConcProofs.rel1].
        repeat run1. rewrite R. repeat run1. reflexivity.
      * eexists. split; [reflexivity|]. unfold Conc.give. proj. split; [right; exact I1|]. split; [|split].
        -- intros h [<-|Hh].
           ++ right. right. split; [reflexivity|]. apply in_or_app. right. now left.
           ++ left. exact (FU F h Hh).
        -- intros _. now left.
        -- intros F'. exfalso.
           match type of F' with future {| pubq := ?pq |} _ _ _ =>
             destruct (not_future_done s i (ck s) (cph s) pq) as [G | [G | G]] end;
           [ exact (G F') | congruence | lia ].
    + exists (Some hs). split.
      * apply mon1_run_skip with (Hi := Hi_rec k i ph); [exact HB | unfold Hi_rec; nomention].
      * exists hs. split; [reflexivity|]. proj. split; [exact I1|]. split; [|split].
        -- intros h Hh. destruct (UB h Hh) as [|[|[? ?]]]; auto.
           right. right. split; [assumption|]. apply in_or_app. now left.
        -- intro J. apply in_app_or in J. destruct J as [J|[J|[]]]; [exact (PB J) | congruence].
        -- exact (fun F => FU (FM F)).
  - (* publisher takes the head of the queue *)
    match goal with X : pubq s = (?a, ?b, ?c) :: ?r |- _ =>
      rename X into PQ; destruct (triple_dec (a, b, c) (k, i, ph)) as [E|NE] end.
    + injection E as E1 E2 E3. subst n1 n2 n0.
      pose proof (PB (or_introl eq_refl)) as M.
      assert (R : acc_ok1 (Some (take TP (MPub k i ph) hs)) TP false false = true).
      { unfold ConcProofs.acc_ok1. apply andb_true_iff. split; [reflexivity|].
        apply ConcProofs.hmem_true. apply ConcProofs.In_take. left. split; [exact M | now left]. }
      eexists. split.
      * repeat run1. rewrite R. reflexivity.
      * eexists. split; [reflexivity|]. proj. split; [|split; [|split]].
        -- apply ConcProofs.In_take. left. split; [exact M|]. right. split; [exact I1 | discriminate].
        -- intros h Hh. apply ConcProofs.In_take in Hh. destruct Hh as [[_ [->|[Hh N]]]|[N _]].
           ++ right. now left.
           ++ destruct (UB h Hh) as [|[|[? ?]]]; [auto | auto | contradiction].
           ++ contradiction.
        -- intro J. exfalso. pose proof (p_pub_nd _ _ W) as ND. rewrite PQ in ND. inversion ND. contradiction.
        -- intro F. exfalso. apply (p_pub_nf _ _ W k i ph); [rewrite PQ; now left | exact (FM F)].
    + exists (Some hs). split.
      * apply mon1_run_skip with (Hi := Hi_rec k i ph); [exact HB | unfold Hi_rec; nomention].
      * exists hs. split; [reflexivity|]. proj. split; [exact I1|]. split; [|split].
        -- intros h Hh. destruct (UB h Hh) as [|[|[? [J|J]]]]; auto. congruence.
        -- intro J. apply PB. now right.
        -- exact (fun F => FU (FM F)).
Qed.
