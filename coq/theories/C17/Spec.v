(* C17 — "a running acquisition is free of data races", as checkers over OBSERVABLES and as Props.

   Full informal statement (properties.jsonl, fixed):
     While a source runs, with triggers firing, files being written, status being published, raw-data
     blocks being archived and one client issuing control requests, no two threads of dastard access the
     same memory without synchronisation when at least one access is a write.  In particular the
     producer, block-assembly, per-channel processing, broker, writer and status threads only share
     state through channels, locks or completed wait groups.  — for all thread interleavings.

   What is observable of an execution is its EVENT LOG: which thread accessed which shared location
   (read / write, atomic or not) and which thread performed which half of which synchronisation edge, in
   the order in which these things happened.  The property of a log is [RaceFree] (Conc.v): any two
   accesses of different threads to the same location, one of them a write and not both atomic, are
   ordered by happens-before (program order + release/acquire edges + transitivity).  The checker
   [C17_check_log] computes happens-before with clocks along the log; it looks at nothing but the log
   (in particular not at the ghost payload of releases, and it never calls the model).
   [Properties.checker_decides_race_freedom] : C17_check_log log = true <-> RaceFree log.

   The second observable is the list of reports of the Go race detector for a run of the real program:
   the property demands that it is empty.

   PARTIAL (DESIGN section 7 C17): race freedom of the Go program is a statement about the memory
   accesses the Go runtime performs, which no Gallina model observes.  What the theorems of
   Properties.v carry is the OWNERSHIP PROTOCOL of Model.v: its inventory of shared locations is
   validated dynamically (race-detector runs of the real program, conformance of logged executions),
   it is not proved complete. *)
From Coq Require Import List Arith Bool.
Import ListNotations.
From Dastard Require Import C17.Conc C17.Model.

Definition RaceFree (p : trace) : Prop := Conc.RaceFree tid mid loc p.

Definition C17_check_log (p : trace) : bool := Conc.race_free_b tid mid loc tid_dec mid_dec loc_dec p.

(* the racing pairs (indices into the log), for the replay *)
Definition C17_races (p : trace) : list (nat * nat) := Conc.races_b tid mid loc tid_dec mid_dec loc_dec p.

(* a race-detector report, reduced to the inventory number of the location it is about (0: a location
   outside the inventory) *)
Definition C17_check_reports (reports : list nat) : bool :=
  match reports with [] => true | _ => false end.

(* the full statement for the protocol model: every execution, of every number of channels, under every
   schedule, is race free *)
Definition OwnershipRaceFree (v : variant) : Prop :=
  forall (n : nat) (sched : list act), RaceFree (exec v n sched).
