(* C17 — proofs about the protocol model (in progress). *)
From Dastard Require Import C17.Conc C17.ConcProofs C17.Model C17.Spec.
