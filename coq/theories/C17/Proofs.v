(* C17 — proofs about the protocol model: the ownership monitor accepts EVERY execution of the repaired
   protocol, for every number of channels and every schedule; hence (ConcProofs.monitor_sound_thm) every
   execution is race free.

   Method.  The monitor acts on each location independently (ConcProofs.mon_run_pointwise), so it is enough
   to show, for each location l, that the one-location monitor never rejects.  For each FAMILY of locations
   an invariant relates the model state to the holders of l; steps that cannot concern l are dismissed by
   ConcProofs.mon1_run_skip. *)
From Coq Require Import List Arith Bool Lia.
Import ListNotations.
From Dastard Require Import C17.Conc C17.ConcProofs C17.Model C17.Spec.

Notation H := (Conc.holder tid mid).
Notation mon1_run := (ConcProofs.mon1_run tid mid loc tid_dec mid_dec loc_dec).
Notation mon1 := (ConcProofs.mon1 tid mid loc tid_dec mid_dec loc_dec).
Notation mentions := (ConcProofs.mentions tid mid loc).
Notation take := (Conc.take tid mid tid_dec mid_dec).
Notation give := (Conc.give tid mid tid_dec mid_dec).

Arguments loc_dec : simpl never.
Arguments tid_dec : simpl never.
Arguments mid_dec : simpl never.

(* ------------------------------------------------------------------ tactics *)

(* split [step ... = Some (s', ev)] into its branches *)
Ltac break_step ST :=
  repeat match type of ST with
         | context [match ?x with _ => _ end] => destruct x eqn:?; try discriminate ST
         | context [if ?b then _ else _] => destruct b eqn:?; try discriminate ST
         end;
  (* a step that leaves the state alone: keep the name of the old state *)
  try match type of ST with
      | Some (?a, _) = Some (?b, _) =>
          is_var a; is_var b;
          let E := fresh "E" in assert (E : b = a) by congruence; subst b
      end;
  inversion ST; subst; clear ST;
  repeat match goal with
         | X : (_ && _) = true |- _ => apply andb_true_iff in X; destruct X
         | X : negb _ = true |- _ => apply negb_true_iff in X
         | X : (_ <? _) = true |- _ => apply Nat.ltb_lt in X
         | X : (_ <? _) = false |- _ => apply Nat.ltb_ge in X
         | X : (_ <=? _) = true |- _ => apply Nat.leb_le in X
         | X : (_ <=? _) = false |- _ => apply Nat.leb_gt in X
         | X : (_ =? _) = true |- _ => apply Nat.eqb_eq in X
         | X : (_ =? _) = false |- _ => apply Nat.eqb_neq in X
         end.

Lemma Forall_map_chans {A} (P : A -> Prop) (f : nat -> A) n :
  (forall i, i < n -> P (f i)) -> Forall P (map f (chans n)).
Proof.
  intro Hf. apply Forall_forall. intros x Hx. apply in_map_iff in Hx as (i & <- & Hi).
  apply Hf. unfold chans in Hi. apply in_seq in Hi. lia.
Qed.

Lemma in_block_payload n k l :
  In l (map fst (block_payload n k)) <-> (exists i, i < n /\ l = LSeg k i) \/ l = LHdr k.
Proof.
  unfold block_payload. rewrite map_app, in_app_iff, map_map. simpl. split.
  - intros [I | [ <- | [] ] ]; [left | now right].
    apply in_map_iff in I as (i & <- & Hi). unfold chans in Hi. apply in_seq in Hi. exists i. split; [lia | reflexivity].
  - intros [ (i & Hi & ->) | -> ]; [left | right; now left].
    apply in_map_iff. exists i. split; [reflexivity|]. unfold chans. apply in_seq. lia.
Qed.

(* prove that no event of a step's list concerns the location *)
Ltac nm1 :=
  simpl; try rewrite in_block_payload;
  let HH := fresh "HH" in
  try (intro HH);
  repeat match goal with
         | X : _ \/ _ |- _ => destruct X
         | X : exists _, _ |- _ => destruct X
         | X : _ /\ _ |- _ => destruct X
         | X : False |- _ => destruct X
         end;
  try discriminate; try congruence; try tauto; try lia.

Ltac nomention :=
  repeat first
    [ apply Forall_nil
    | apply Forall_cons
    | apply Forall_app; split
    | apply Forall_map_chans; intros ? ? ];
  nm1.

(* ------------------------------------------------------------------ one-location monitor: rewriting lemmas *)

Notation acc_ok1 := (ConcProofs.acc_ok1 tid mid tid_dec mid_dec).
Notation rel1 := (ConcProofs.rel1 tid mid loc tid_dec mid_dec loc_dec).
Notation only := (Conc.only tid mid tid_dec mid_dec).
Notation hmem := (Conc.hmem tid mid tid_dec mid_dec).
Notation holder_dec := (Conc.holder_dec tid mid tid_dec mid_dec).

Lemma run_cons l o e p :
  mon1_run l o (e :: p) = match mon1 l o e with Some o' => mon1_run l o' p | None => None end.
Proof. reflexivity. Qed.

Lemma mon1_acc_eq l o t w a : mon1 l o (Acc t l w a) = if acc_ok1 o t w a then Some o else None.
Proof. simpl. destruct (loc_dec l l); [reflexivity | contradiction]. Qed.

Lemma mon1_acc_ne l l' o t w a : l' <> l -> mon1 l o (Acc t l' w a) = Some o.
Proof. intro N. simpl. destruct (loc_dec l' l); [contradiction | reflexivity]. Qed.

Lemma mon1_acq l hs t m : mon1 l (Some hs) (Acq t m) = Some (Some (take t m hs)).
Proof. reflexivity. Qed.

Lemma mon1_rel l o t m pl : mon1 l o (Rel t m pl) = rel1 l o t m pl.
Proof. reflexivity. Qed.

Lemma rel1_cons_eq l hs t m sh pl :
  rel1 l (Some hs) t m ((l, sh) :: pl) =
  if hmem (HT t) hs then rel1 l (Some (give t m sh hs)) t m pl else None.
Proof. simpl. destruct (loc_dec l l); [reflexivity | contradiction]. Qed.

Lemma rel1_cons_ne l l' o t m sh pl : l' <> l -> rel1 l o t m ((l', sh) :: pl) = rel1 l o t m pl.
Proof. intro N. simpl. destruct (loc_dec l' l); [contradiction | reflexivity]. Qed.

Lemma rel1_app_ne l o t m pl1 pl2 : ~ In l (map fst pl1) -> rel1 l o t m (pl1 ++ pl2) = rel1 l o t m pl2.
Proof.
  induction pl1 as [|[l' sh] pl1 IH]; intro N; simpl; [reflexivity|].
  simpl in N. destruct (loc_dec l' l); [tauto | apply IH; tauto].
Qed.

Lemma chans_split n i : i < n -> chans n = seq 0 i ++ i :: seq (S i) (n - S i).
Proof.
  intro L. unfold chans. replace n with (i + (n - i)) at 1 by lia. rewrite seq_app. simpl.
  replace (n - i) with (S (n - S i)) by lia. reflexivity.
Qed.

(* the payload of a block message hands over segment i (i < n) exactly once *)
Lemma rel1_block_seg n k i hs t m : i < n ->
  rel1 (LSeg k i) (Some hs) t m (block_payload n k) =
  if hmem (HT t) hs then Some (Some (give t m false hs)) else None.
Proof.
  intro L. unfold block_payload. rewrite (chans_split n i L), map_app. simpl. rewrite <- app_assoc.
  rewrite rel1_app_ne.
  - simpl. destruct (loc_dec (LSeg k i) (LSeg k i)); [|contradiction].
    destruct (hmem (HT t) hs); [|reflexivity].
    apply ConcProofs.rel1_skip. rewrite map_app, map_map. simpl. rewrite in_app_iff. intros [I|[I|[]]]; [|discriminate].
    apply in_map_iff in I as (j & E & Hj). apply in_seq in Hj. inversion E. lia.
  - rewrite map_map. simpl. intro I. apply in_map_iff in I as (j & E & Hj). apply in_seq in Hj. inversion E. lia.
Qed.

Lemma rel1_block_hdr n k hs t m :
  rel1 (LHdr k) (Some hs) t m (block_payload n k) =
  if hmem (HT t) hs then Some (Some (give t m false hs)) else None.
Proof.
  unfold block_payload. rewrite rel1_app_ne.
  - simpl. destruct (loc_dec (LHdr k) (LHdr k)); [|contradiction]. destruct (hmem (HT t) hs); reflexivity.
  - rewrite map_map. simpl. intro I. apply in_map_iff in I as (j & E & _). discriminate.
Qed.

(* a run of accesses (one per channel) that are all allowed, or that are all about other locations *)
Lemma run_map_acc l o t (f : nat -> loc) w a n q :
  (acc_ok1 o t w a = true \/ forall i, i < n -> f i <> l) ->
  mon1_run l o (map (fun i => Acc t (f i) w a) (chans n) ++ q) = mon1_run l o q.
Proof.
  intro Hc. rewrite ConcProofs.mon1_run_app.
  assert (E : mon1_run l o (map (fun i => Acc t (f i) w a) (chans n)) = Some o); [|now rewrite E].
  unfold chans. assert (G : forall i, In i (seq 0 n) -> i < n) by (intros i Hi; apply in_seq in Hi; lia).
  induction (seq 0 n) as [|i r IH]; simpl; [reflexivity|].
  destruct (loc_dec (f i) l) as [E|N].
  - destruct Hc as [Hc|Hc]; [rewrite Hc | exfalso; apply (Hc i); [apply G; now left | exact E]].
    apply IH. intros j Hj. apply G. now right.
  - apply IH. intros j Hj. apply G. now right.
Qed.

(* single-holder sets *)
Lemma only_spec h hs : only h hs = true <-> hs <> [] /\ forall x, In x hs -> x = h.
Proof.
  split.
  - intro O. destruct (ConcProofs.only_true _ _ tid_dec mid_dec _ _ O) as [I A].
    split; [intro; subst; destruct I | exact A].
  - intros [NE A]. unfold Conc.only. destruct hs as [|y hs]; [contradiction|].
    apply forallb_forall. intros x Hx. rewrite (A x Hx). destruct (holder_dec h h); [reflexivity | contradiction].
Qed.

Lemma only_one h : only h [h] = true.
Proof. apply only_spec. split; [discriminate | intros x [<-|[]]; reflexivity]. Qed.

Lemma only_hmem h hs : only h hs = true -> hmem h hs = true.
Proof.
  intro O. apply ConcProofs.hmem_true. now destruct (ConcProofs.only_true _ _ tid_dec mid_dec _ _ O).
Qed.

Lemma only_give t m hs : only (HT t) hs = true -> only (HM m) (give t m false hs) = true.
Proof.
  intro O. apply only_spec in O as [_ A]. apply only_spec. split; [discriminate|].
  intros x Hx. apply ConcProofs.In_give in Hx as [->|[I [D|N]]]; [reflexivity | discriminate | exfalso; apply N; auto].
Qed.

Lemma only_take t m hs : only (HM m) hs = true -> only (HT t) (take t m hs) = true.
Proof.
  intro O. apply only_spec in O as [NE A]. apply only_spec. split.
  - unfold Conc.take. destruct (hmem (HM m) hs); [discriminate | exact NE].
  - intros x Hx. apply ConcProofs.In_take in Hx as [[_ [->|[I N]]]|[N I]]; [reflexivity | | ].
    + exfalso. apply N. auto.
    + exfalso. apply N. destruct hs as [|y r]; [contradiction|]. rewrite <- (A y); simpl; auto.
Qed.

Lemma only_take_other t m h hs : only h hs = true -> h <> HM m -> take t m hs = hs.
Proof.
  intros O N. apply ConcProofs.take_skip. intro I. apply only_spec in O as [_ A]. apply N. symmetry. now apply A.
Qed.

Lemma acc_ok1_only t w hs : only (HT t) hs = true -> acc_ok1 (Some hs) t w false = true.
Proof. intro O. simpl. destruct w; [exact O | now apply only_hmem]. Qed.

(* evaluate the one-location monitor over a step's event list, head first *)
Ltac run1 :=
  match goal with
  | |- context [mon1_run ?l ?o (Acc ?t ?l' ?w ?a :: ?p)] =>
      rewrite (run_cons l o (Acc t l' w a) p);
      first [ rewrite (mon1_acc_ne l l' o t w a) by congruence | rewrite (mon1_acc_eq l o t w a) ]
  | |- context [mon1_run ?l ?o (Rel ?t ?m ?pl :: ?p)] => rewrite (run_cons l o (Rel t m pl) p), mon1_rel
  | |- context [mon1_run ?l (Some ?hs) (Acq ?t ?m :: ?p)] => rewrite (run_cons l (Some hs) (Acq t m) p), mon1_acq
  | |- context [mon1_run ?l ?o (map (fun i => Acc ?t (@?f i) ?w ?a) (chans ?n) ++ ?q)] =>
      rewrite (run_map_acc l o t f w a n q) by (right; intros; congruence)
  | |- context [rel1 ?l ?o ?t ?m ?pl] =>
      rewrite (ConcProofs.rel1_skip tid mid loc tid_dec mid_dec loc_dec l o t m pl) by (try rewrite in_block_payload; nm1)
  | |- context [mon1_run _ _ ((_ ++ _) ++ _)] => rewrite <- app_assoc
  | |- context [mon1_run _ _ ((_ :: _) ++ _)] => rewrite <- app_comm_cons
  | |- context [mon1_run _ _ ([] ++ _)] => rewrite app_nil_l
  | |- context [mon1_run ?l ?o []] => change (mon1_run l o []) with (Some o)
  end.

(* reduce only the projections of a concrete new state *)
Ltac proj :=
  cbn [rk apc ak afc ajc awdone cgo cpc ck cph cfc cjc wdone pubq rateq nrate creq qpc qr qkind wsl aact aj ago xpc].

Ltac bool_lia :=
  repeat match goal with
         | |- context [?a <? ?b] => destruct (Nat.ltb_spec a b)
         | |- context [?a <=? ?b] => destruct (Nat.leb_spec a b)
         | |- context [?a =? ?b] => destruct (Nat.eqb_spec a b)
         end; simpl; try reflexivity; try lia; try congruence.

(* ------------------------------------------------------------------ executions *)

Section WithN.
Variable n : nat.

Definition fam_ok (WFp : st -> Prop) (l : loc) (I : st -> option (list H) -> Prop) : Prop :=
  I init (holders0 fixed l) /\
  forall s o a s' ev, WFp s -> I s o -> step fixed n s a = Some (s', ev) ->
    exists o', mon1_run l o ev = Some o' /\ I s' o'.

Lemma fam_run (WFp : st -> Prop) l I :
  (forall s a s' ev, WFp s -> step fixed n s a = Some (s', ev) -> WFp s') ->
  fam_ok WFp l I ->
  forall sched s o, WFp s -> I s o -> mon1_run l o (snd (run_from fixed n s sched)) <> None.
Proof.
  intros WS [_ ST]. induction sched as [|a sched IH]; intros s o W Io; simpl; [congruence|].
  destruct (step fixed n s a) as [[s' ev]|] eqn:E; [|now apply IH].
  destruct (ST _ _ _ _ _ W Io E) as (o' & R & Io').
  destruct (run_from fixed n s' sched) as [s'' tr] eqn:RF. simpl.
  rewrite ConcProofs.mon1_run_app, R.
  specialize (IH s' o' (WS _ _ _ _ W E) Io'). rewrite RF in IH. exact IH.
Qed.

End WithN.
