From Coq Require Import List Arith Bool Lia.
Import ListNotations.
(* C17 — family LHdr k (the header of buffers message / block k): one holder at any time,
   reader -> MBuf k -> assembler -> MBlk k -> core loop.  WORKED EXAMPLE of a family proof. *)
From Dastard Require Import C17.Conc C17.ConcProofs C17.Model C17.Spec C17.Proofs.

Definition arecvb (s : st) (k : nat) : bool := (k <? ak s) || ((k =? ak s) && (2 <=? apc s)).
Definition crecvb (s : st) (k : nat) : bool := (k <? ck s) || ((k =? ck s) && (2 <=? cpc s) && (cpc s <=? 7)).

Definition owner_hdr (s : st) (k : nat) : H :=
  if rk s <=? k then HT TR
  else if arecvb s k
       then (if k <? ak s then (if crecvb s k then HT TC else HM (MBlk k)) else HT TA)
       else HM (MBuf k).

Definition Hi_hdr (k : nat) (h : H) : Prop :=
  h = HT TR \/ h = HT TA \/ h = HT TC \/ h = HM (MBuf k) \/ h = HM (MBlk k).

Lemma owner_hdr_Hi s k : Hi_hdr k (owner_hdr s k).
Proof. unfold owner_hdr, Hi_hdr. repeat match goal with |- context [if ?b then _ else _] => destruct b end; auto 6. Qed.

Definition I_hdr (k : nat) (s : st) (o : option (list H)) : Prop :=
  exists hs, o = Some hs /\ only (owner_hdr s k) hs = true.

Record WF1 (n : nat) (s : st) : Prop := {
  w_ak_rk : ak s <= rk s;
  w_apc_rk : 2 <= apc s -> ak s < rk s;
  w_ck_ak : ck s <= ak s;
  w_cpc_ak : 2 <= cpc s <= 7 -> ck s < ak s;
  w_apc : apc s <= 4;
}.

Ltac hdr_skip k s hs HB O W :=
  solve [ exists (Some hs); split;
    [ apply mon1_run_skip with (Hi := Hi_hdr k); [exact HB | unfold Hi_hdr; nomention]
    | exists hs; split; [reflexivity |];
      match goal with |- only (owner_hdr ?s' ?kk) ?hh = true =>
         first [exact O | replace (owner_hdr s' kk) with (owner_hdr s kk); [exact O|]] end;
      destruct W; unfold owner_hdr, arecvb, crecvb; proj; bool_lia ] ].

Lemma WF1_init n : WF1 n init.
Proof. constructor; simpl; lia. Qed.

Lemma WF1_step n s a s' ev : WF1 n s -> step fixed n s a = Some (s', ev) -> WF1 n s'.
Proof.
  intros [] ST. destruct a; simpl in ST; break_step ST; constructor; proj; lia.
Qed.

Lemma fam_hdr n k : fam_ok n (WF1 n) (LHdr k) (I_hdr k).
Proof.
  split; [exists [HT TR]; split; [reflexivity | apply only_one]|].
  intros s o a s' ev W (hs & -> & O) ST.
  assert (HB : forall h, In h hs -> Hi_hdr k h).
  { intros h I. apply only_spec in O as [_ A]. rewrite (A h I). apply owner_hdr_Hi. }
  destruct a; simpl in ST.
  all: break_step ST.
  all: unfold wr, rd, nextacc.
  all: try hdr_skip k s hs HB O W.
  - (* reader tick *)
    destruct (Nat.eq_dec k (rk s)) as [->|NE]; [|hdr_skip k s hs HB O W].
    assert (E : owner_hdr s (rk s) = HT TR). { destruct W; unfold owner_hdr, arecvb, crecvb; bool_lia. }
    rewrite E in O.
    eexists. split.
    + repeat run1. rewrite (acc_ok1_only _ _ _ O). rewrite run_cons, mon1_rel, rel1_block_hdr, (only_hmem _ _ O). reflexivity.
    + eexists. split; [reflexivity|].
      replace (owner_hdr _ (rk s)) with (HM (MBuf (rk s)) : H); [now apply only_give|].
      destruct W; unfold owner_hdr, arecvb, crecvb; proj; bool_lia.
  - (* assembler receives the buffers message *)
    destruct (Nat.eq_dec k (ak s)) as [->|NE]; [|hdr_skip k s hs HB O W].
    assert (E : owner_hdr s (ak s) = HM (MBuf (ak s))). { destruct W; unfold owner_hdr, arecvb, crecvb; bool_lia. }
    rewrite E in O. pose proof (only_take TA _ _ O) as O'.
    eexists. split.
    + repeat run1. rewrite (acc_ok1_only _ _ _ O'). repeat run1. reflexivity.
    + eexists. split; [reflexivity|].
      replace (owner_hdr _ (ak s)) with (HT TA : H); [exact O'|].
      destruct W; unfold owner_hdr, arecvb, crecvb; proj; bool_lia.
  - (* assembler sends the block *)
    destruct (Nat.eq_dec k (ak s)) as [->|NE]; [|hdr_skip k s hs HB O W].
    assert (E : owner_hdr s (ak s) = HT TA). { destruct W; unfold owner_hdr, arecvb, crecvb; bool_lia. }
    rewrite E in O.
    eexists. split.
    + repeat run1. rewrite rel1_block_hdr, (only_hmem _ _ O). reflexivity.
    + eexists. split; [reflexivity|].
      replace (owner_hdr _ (ak s)) with (HM (MBlk (ak s)) : H); [now apply only_give|].
      destruct W; unfold owner_hdr, arecvb, crecvb; proj; bool_lia.
  - (* core loop receives the block *)
    destruct (Nat.eq_dec k (ck s)) as [->|NE]; [|hdr_skip k s hs HB O W].
    assert (E : owner_hdr s (ck s) = HM (MBlk (ck s))). { destruct W; unfold owner_hdr, arecvb, crecvb; bool_lia. }
    rewrite E in O. pose proof (only_take TC _ _ O) as O'.
    eexists. split.
    + repeat run1. rewrite (acc_ok1_only _ _ _ O'). reflexivity.
    + eexists. split; [reflexivity|].
      replace (owner_hdr _ (ck s)) with (HT TC : H); [exact O'|].
      destruct W; unfold owner_hdr, arecvb, crecvb; proj; bool_lia.
  - (* end of block processing: reads the header *)
    destruct (Nat.eq_dec k (ck s)) as [->|NE]; [|hdr_skip k s hs HB O W].
    assert (E : owner_hdr s (ck s) = HT TC). { destruct W; unfold owner_hdr, arecvb, crecvb; bool_lia. }
    rewrite E in O.
    exists (Some hs). split.
    + repeat run1. rewrite (acc_ok1_only _ _ _ O). repeat run1.
      rewrite (only_take_other _ _ _ _ O) by discriminate. reflexivity.
    + eexists. split; [reflexivity|].
      replace (owner_hdr _ (ck s)) with (HT TC : H); [exact O|].
      destruct W; unfold owner_hdr, arecvb, crecvb; proj; bool_lia.
Qed.
