(* C17 — the ownership protocol of a running acquisition as an executable interleaving system.

   WHAT IS MODELLED (see design.d/C17.md for the correspondence with the Go code, line by line):
   the goroutines of a running Abaco acquisition under a one-client control workload, their
   synchronisation operations, and their accesses to the shared locations of the inventory.
   The simulated sources and the Lancero source are the same protocol with the reader and the
   assembler merged / without the shared frame counter.

     threads    TR   packet reader (AbacoSource.readerMainLoop)
                TA   block assembler (the goroutine of getNextBlock; one per block, each forked by the
                     core loop after it received the previous block: modelled as ONE thread, see below)
                TAW i  per-channel goroutine of distributeData
                TC   core loop (CoreLoop/ProcessSegments; the broker and the queued request closures run here)
                TW i   per-channel worker of ProcessSegments (forked and joined twice per block)
                TP   record publisher (startSocket goroutine)
                TU   status updater (RunClientUpdater)
                TX j   writer goroutine of the j-th raw-data archive
                TQ   the RPC thread of the one client
                TF i   the writer goroutine of channel i's data file
     steps      every step of a thread is a (possibly empty) list of events: accesses and
                synchronisation halves (Conc.v).  A schedule is any list of [act]s; an act that is not
                enabled in the current state is skipped, so EVERY list is a schedule.
     variants   [fixed] is the code as repaired; each flag of [variant] re-introduces one hand-off of
                the unchanged tree (for the _refuted_pre_fix theorems) or a seeded fault.

   Incarnations of a goroutine that are forked and joined by one and the same thread (TAW i by TA, TW i by
   TC) or that are chained through it (the assembler of block k+1 is started by the core loop after it
   received block k from the assembler of block k) are given one thread identifier: the program-order
   edges this adds between incarnations are implied by the fork/join (go/receive) edges that are modelled.

   Definitions only; the proofs are in Proofs.v. *)
From Coq Require Import List Arith Bool Lia.
Import ListNotations.
From Dastard Require Import C17.Conc.

Inductive tid := TR | TA | TAW (i : nat) | TC | TW (i : nat) | TP | TU | TX (j : nat) | TQ | TF (i : nat).

Inductive loc :=
| LNext                      (* AnySource.nextFrameNum *)
| LETrig                     (* AbacoSource.eTrigPackets (queue of external-trigger packets) *)
| LTiming                    (* the reader's own bookkeeping: the groups' FrameTimingCorrepondence and packet queues, lastread *)
| LSeg (k i : nat)           (* channel i of block k: the demultiplexed samples and the DataSegment *)
| LHdr (k : nat)             (* the rest of buffers message k / block k: nSamp, external triggers, err *)
| LProc (i : nat)            (* DataStreamProcessor i: stream, trigger state, publisher, lastTrigList *)
| LRec (k i ph : nat)        (* the records made by worker i in phase ph of block k *)
| LRate (x : nat)            (* the counts slice of a TRIGGERRATE message *)
| LArch                      (* AnySource.archiveBlock *)
| LSnap (j : nat)            (* the sample buffers of the j-th archive request and the copy of the filled block that shares them *)
| LWs                        (* WritingState fields that ComputeState copies (Active, FilenamePattern, ...) *)
| LWsCnt                     (* WritingState.externalTriggerNumberObserved *)
| LWsPaused                  (* WritingState.Paused *)
| LStatus                    (* SourceControl.status, isSourceActive *)
| LFile (i : nat)            (* the writer goroutine of channel i's data file (asyncbufio.Writer.writeLoop): its buffer
                                and the error state of the underlying file; nobody else may look at it *)
| LState                     (* AnySource.sourceState, guarded by sourceStateLock *)
| LMix.                      (* Lancero: the block assembler's own state: the Mix objects (errorScale, last feedback value), the
                                external-trigger edge search (externalTriggerLastState), previousLastSampleTime *)

Inductive mid :=
| MBuf (k : nat)             (* k-th message on buffersChan *)
| MAFork (k i : nat) | MADone (k i : nat)      (* go / WaitGroup of distributeData *)
| MBlk (k : nat)             (* k-th block on nextBlock *)
| MGo (k : nat)              (* go statement of the k-th getNextBlock *)
| MF (ph k i : nat) | MD (ph k i : nat)        (* go / WaitGroup of ProcessSegments, phase ph *)
| MPub (k i ph : nat)        (* record batch on PubRecordsChan *)
| MRate (x : nat)            (* TRIGGERRATE message on clientMessageChan *)
| MReq (r : nat) | MRes (r : nat)              (* r-th request on queuedRequests / its reply on queuedResults *)
| MWs                        (* the WritingState mutex *)
| MXGo (j : nat) | MSnap (j : nat)             (* go of the j-th archive writer / its `complete` channel *)
| MState                     (* sourceStateLock *)
| MMix | MMixR.              (* Lancero: a ConfigureMixFraction request on mixRequests / its reply on currentMix *)

Definition tid_dec : forall a b : tid, {a = b} + {a <> b}.
Proof. decide equality; apply Nat.eq_dec. Defined.
Definition loc_dec : forall a b : loc, {a = b} + {a <> b}.
Proof. decide equality; apply Nat.eq_dec. Defined.
Definition mid_dec : forall a b : mid, {a = b} + {a <> b}.
Proof. decide equality; apply Nat.eq_dec. Defined.

Notation event := (Conc.event tid mid loc).
Notation trace := (list event).

(* plain read / plain write / possibly atomic access *)
Definition rd (t : tid) (l : loc) : event := Acc t l false false.
Definition wr (t : tid) (l : loc) : event := Acc t l true false.

Record variant := {
  v_next_plain : bool;      (* nextFrameNum read and advanced with plain loads and stores; the per-channel goroutines read it too *)
  v_nsamp_workers : bool;   (* every per-channel goroutine of distributeData writes block.nSamp *)
  v_etrig_asm : bool;       (* the assembler, not the reader, drains eTrigPackets and reads the frame timing *)
  v_arch_shared : bool;     (* the archive writer reads ds.archiveBlock; `complete` is closed before active is cleared *)
  v_cnt_nolock : bool;      (* externalTriggerNumberObserved is updated without the WritingState lock *)
  v_rate_shared : bool      (* seeded fault: one counts slice reused for every TRIGGERRATE message *)
}.
Definition fixed : variant :=
  {| v_next_plain := false; v_nsamp_workers := false; v_etrig_asm := false;
     v_arch_shared := false; v_cnt_nolock := false; v_rate_shared := false |}.

Definition setb (f : nat -> bool) (i : nat) (b : bool) : nat -> bool :=
  fun j => if j =? i then b else f j.
Definition setn (f : nat -> nat) (i : nat) (b : nat) : nat -> nat :=
  fun j => if j =? i then b else f j.

Record st := {
  rk : nat;                                   (* reader: buffers messages sent *)
  apc : nat; ak : nat; afc : nat; ajc : nat;  (* assembler: pc, block index, forks, joins *)
  awdone : nat -> bool;
  cgo : nat;                                  (* core loop: getNextBlock calls made *)
  cpc : nat; ck : nat; cph : nat; cfc : nat; cjc : nat;
  wdone : nat -> bool;
  pubq : list (nat * nat * nat);              (* record batches sent and not yet taken by the publisher *)
  rateq : list nat;                           (* TRIGGERRATE messages sent and not yet taken by the updater *)
  nrate : nat;                                (* TRIGGERRATE messages made *)
  creq : nat;                                 (* requests answered *)
  qpc : nat; qr : nat; qkind : nat;           (* client: pc, requests completed, kind of the pending request *)
  wsl : nat;                                  (* WritingState mutex: 0 free, 1 core loop, 2 client *)
  aact : bool; aj : nat;                      (* archive: active flag, number of archives filled *)
  ago : nat;                                  (* archive writer goroutines started *)
  xpc : nat -> nat                            (* archive writer j: 0 not running, 1 waiting for the block, 2 done *)
}.

Definition init : st :=
  {| rk := 0; apc := 0; ak := 0; afc := 0; ajc := 0; awdone := fun _ => false;
     cgo := 0; cpc := 0; ck := 0; cph := 0; cfc := 0; cjc := 0; wdone := fun _ => false;
     pubq := []; rateq := []; nrate := 0; creq := 0; qpc := 0; qr := 0; qkind := 0; wsl := 0;
     aact := false; aj := 0; ago := 0; xpc := fun _ => 0 |}.

(* what a thread may be asked to do; the numbers resolve the thread's own nondeterminism *)
Inductive act :=
| AR                        (* reader: one tick that yields a buffers message *)
| AA                        (* assembler: next step *)
| AAW (i : nat)             (* per-channel goroutine i of distributeData *)
| AC (c : nat)              (* core loop: next step; at the select c = 0 takes a block, otherwise a request;
                               when an active archive sees a block, c = 0 means "request filled" *)
| AW (i : nat) (pub : bool) (* worker i; pub: it made records and publishes them *)
| AP | AU                   (* publisher / updater take one message *)
| AX (j : nat)              (* archive writer j: next step *)
| AQ (c : nat)              (* client: when idle, c = 0 ReadComment, c = k+1 a request of kind k; otherwise next step *)
| AF (i : nat)              (* file writer goroutine i writes its buffer out / meets an I/O error (own ticker or overflow) *)
| AM                        (* Lancero: the client's ConfigureMixFraction is served by the block assembler while it
                               waits for the next buffers (the request does not go through the core loop) *)
| AS (c : nat) (w : bool).  (* a short critical section of sourceStateLock: c = 0 the client's thread (GetState, Running,
                               Configure..., Stop), otherwise the core loop (RunDoneDeactivate); w: it writes the state *)

Definition chans (n : nat) : list nat := seq 0 n.
Definition block_payload (n k : nat) : list (loc * bool) :=
  map (fun i => (LSeg k i, false)) (chans n) ++ [(LHdr k, false)].
Definition nextacc (v : variant) (t : tid) (w : bool) : event := Acc t LNext w (negb (v_next_plain v)).
Definition ratex (v : variant) (s : st) : nat := if v_rate_shared v then 0 else nrate s.

(* request kinds: 0 trigger/length changes (processors), 1 PAUSE/UNPAUSE (processors + Paused),
   2 START/STOP/label (processors + WritingState under its lock), 3 StoreRawDataBlock, other: status only *)

Definition step (v : variant) (n : nat) (s : st) (a : act) : option (st * trace) :=
  match a with
  | AR =>
      Some ({| rk := S (rk s); apc := apc s; ak := ak s; afc := afc s; ajc := ajc s; awdone := awdone s;
               cgo := cgo s; cpc := cpc s; ck := ck s; cph := cph s; cfc := cfc s; cjc := cjc s; wdone := wdone s;
               pubq := pubq s; rateq := rateq s; nrate := nrate s; creq := creq s; qpc := qpc s; qr := qr s;
               qkind := qkind s; wsl := wsl s; aact := aact s; aj := aj s; ago := ago s; xpc := xpc s |},
            [wr TR LETrig; wr TR LTiming; nextacc v TR false]
            ++ map (fun i => wr TR (LSeg (rk s) i)) (chans n)
            ++ [wr TR (LHdr (rk s)); Rel TR (MBuf (rk s)) (block_payload n (rk s))])
  | AA =>
      let upd pc k fc jc awd ev :=
        Some ({| rk := rk s; apc := pc; ak := k; afc := fc; ajc := jc; awdone := awd;
                 cgo := cgo s; cpc := cpc s; ck := ck s; cph := cph s; cfc := cfc s; cjc := cjc s; wdone := wdone s;
                 pubq := pubq s; rateq := rateq s; nrate := nrate s; creq := creq s; qpc := qpc s; qr := qr s;
                 qkind := qkind s; wsl := wsl s; aact := aact s; aj := aj s; ago := ago s; xpc := xpc s |}, ev) in
      match apc s with
      | 0 => if ak s <? cgo s then upd 1 (ak s) 0 0 (awdone s) [Acq TA (MGo (ak s))] else None
      | 1 => if ak s <? rk s
             then upd 2 (ak s) 0 0 (awdone s)
                      ([Acq TA (MBuf (ak s)); wr TA (LHdr (ak s))]
                       ++ (if v_etrig_asm v then [wr TA LETrig; rd TA LTiming] else [])
                       ++ [nextacc v TA false; rd TA LMix])
             else None
      | 2 => if afc s <? n
             then upd 2 (ak s) (S (afc s)) 0 (awdone s) [Rel TA (MAFork (ak s) (afc s)) [(LSeg (ak s) (afc s), false)]]
             else upd 3 (ak s) (afc s) 0 (awdone s) []
      | 3 => if ajc s <? n
             then (if awdone s (ajc s) then upd 3 (ak s) (afc s) (S (ajc s)) (awdone s) [Acq TA (MADone (ak s) (ajc s))] else None)
             else upd 4 (ak s) (afc s) (ajc s) (awdone s) []
      | 4 => upd 0 (S (ak s)) 0 0 (fun _ => false)
                 [nextacc v TA true; Rel TA (MBlk (ak s)) (block_payload n (ak s))]
      | _ => None
      end
  | AAW i =>
      if (2 <=? apc s) && (apc s <=? 3) && (i <? afc s) && negb (awdone s i)
      then Some ({| rk := rk s; apc := apc s; ak := ak s; afc := afc s; ajc := ajc s; awdone := setb (awdone s) i true;
                    cgo := cgo s; cpc := cpc s; ck := ck s; cph := cph s; cfc := cfc s; cjc := cjc s; wdone := wdone s;
                    pubq := pubq s; rateq := rateq s; nrate := nrate s; creq := creq s; qpc := qpc s; qr := qr s;
                    qkind := qkind s; wsl := wsl s; aact := aact s; aj := aj s; ago := ago s; xpc := xpc s |},
                 [Acq (TAW i) (MAFork (ak s) i)]
                 ++ (if v_next_plain v then [rd (TAW i) LNext] else [])
                 ++ [wr (TAW i) (LSeg (ak s) i)]
                 ++ (if v_nsamp_workers v then [wr (TAW i) (LHdr (ak s))] else [])
                 ++ [Rel (TAW i) (MADone (ak s) i) [(LSeg (ak s) i, false)]])
      else None
  | AC c =>
      let upd go pc k ph fc jc wd rq nr crq wl act j ag ev :=
        Some ({| rk := rk s; apc := apc s; ak := ak s; afc := afc s; ajc := ajc s; awdone := awdone s;
                 cgo := go; cpc := pc; ck := k; cph := ph; cfc := fc; cjc := jc; wdone := wd;
                 pubq := pubq s; rateq := rq; nrate := nr; creq := crq; qpc := qpc s; qr := qr s;
                 qkind := qkind s; wsl := wl; aact := act; aj := j; ago := ag; xpc := xpc s |}, ev) in
      let same pc ev := upd (cgo s) pc (ck s) (cph s) (cfc s) (cjc s) (wdone s) (rateq s) (nrate s) (creq s) (wsl s) (aact s) (aj s) (ago s) ev in
      let procs_w := map (fun i => wr TC (LProc i)) (chans n) in
      match cpc s with
      | 0 => (* nextBlock = ds.getNextBlock(): starts the assembler of block ck *)
          upd (S (cgo s)) 1 (ck s) (cph s) (cfc s) (cjc s) (wdone s) (rateq s) (nrate s) (creq s) (wsl s) (aact s) (aj s) (ago s)
              [Rel TC (MGo (ck s)) []]
      | 1 => (* select *)
          if c =? 0
          then (if ck s <? ak s then same 2 [Acq TC (MBlk (ck s)); rd TC (LHdr (ck s))] else None)
          else (if (qpc s =? 1) && (creq s =? qr s) then same 10 [Acq TC (MReq (qr s))] else None)
      | 2 => (* archiveNewDataBlock when an archive is being filled *)
          if aact s
          then (let copy := rd TC LArch :: map (fun i => rd TC (LSeg (ck s) i)) (chans n) ++ [wr TC LArch; wr TC (LSnap (aj s))] in
                if c =? 0
                then upd (cgo s) 3 (ck s) 0 0 0 (fun _ => false) (rateq s) (nrate s) (creq s) (wsl s) false (S (aj s)) (ago s)
                         (copy ++ (if v_arch_shared v
                                   then [Rel TC (MSnap (aj s)) []; wr TC LArch]
                                   else [wr TC LArch; wr TC (LSnap (aj s)); Rel TC (MSnap (aj s)) [(LSnap (aj s), false)]]))
                else upd (cgo s) 3 (ck s) 0 0 0 (fun _ => false) (rateq s) (nrate s) (creq s) (wsl s) true (aj s) (ago s) copy)
          else upd (cgo s) 3 (ck s) 0 0 0 (fun _ => false) (rateq s) (nrate s) (creq s) (wsl s) false (aj s) (ago s) [rd TC LArch]
      | 3 => (* fork the workers of phase cph *)
          if cfc s <? n
          then upd (cgo s) 3 (ck s) (cph s) (S (cfc s)) 0 (wdone s) (rateq s) (nrate s) (creq s) (wsl s) (aact s) (aj s) (ago s)
                   [Rel TC (MF (cph s) (ck s) (cfc s)) [(LProc (cfc s), false); (LSeg (ck s) (cfc s), false)]]
          else same 4 []
      | 4 => (* wg.Wait() *)
          if cjc s <? n
          then (if wdone s (cjc s)
                then upd (cgo s) 4 (ck s) (cph s) (cfc s) (S (cjc s)) (wdone s) (rateq s) (nrate s) (creq s) (wsl s) (aact s) (aj s) (ago s)
                         [Acq TC (MD (cph s) (ck s) (cjc s))]
                else None)
          else same (if cph s =? 0 then 5 else 6) []
      | 5 => (* broker: Distribute + GenerateTriggerMessages, then the second phase *)
          upd (cgo s) 3 (ck s) 1 0 0 (fun _ => false) (rateq s ++ [ratex v s]) (S (nrate s)) (creq s) (wsl s) (aact s) (aj s) (ago s)
              (map (fun i => rd TC (LProc i)) (chans n)
               ++ [wr TC (LRate (ratex v s)); Rel TC (MRate (ratex v s)) [(LRate (ratex v s), false)]])
      | 6 => (* TrimStream, HandleExternalTriggers ... *)
          let ev := procs_w ++ [rd TC (LHdr (ck s)); rd TC LWs; rd TC LWsPaused] in
          if v_cnt_nolock v
          then upd (cgo s) 0 (S (ck s)) 0 0 0 (fun _ => false) (rateq s) (nrate s) (creq s) (wsl s) (aact s) (aj s) (ago s)
                   (ev ++ [wr TC LWsCnt])
          else (if wsl s =? 0
                then upd (cgo s) 7 (ck s) (cph s) (cfc s) (cjc s) (wdone s) (rateq s) (nrate s) (creq s) 1 (aact s) (aj s) (ago s)
                         (ev ++ [Acq TC MWs])
                else None)
      | 7 =>
          upd (cgo s) 0 (S (ck s)) 0 0 0 (fun _ => false) (rateq s) (nrate s) (creq s) 0 (aact s) (aj s) (ago s)
              [wr TC LWsCnt; Rel TC MWs [(LWs, true); (LWsCnt, false)]]
      | 10 => (* the queued closure *)
          match qkind s with
          | 0 => same 13 procs_w
          | 1 => same 13 (procs_w ++ [wr TC LWsPaused])
          | 2 => if wsl s =? 0
                 then upd (cgo s) 11 (ck s) (cph s) (cfc s) (cjc s) (wdone s) (rateq s) (nrate s) (creq s) 1 (aact s) (aj s) (ago s)
                          (procs_w ++ [Acq TC MWs])
                 else None
          | 3 => if aact s
                 then same 13 [rd TC LArch]
                 else upd (cgo s) 13 (ck s) (cph s) (cfc s) (cjc s) (wdone s) (rateq s) (nrate s) (creq s) (wsl s) true (aj s) (S (ago s))
                          [rd TC LArch; wr TC LArch; Rel TC (MXGo (ago s)) []]
          | _ => same 13 [rd TC LStatus; wr TC LStatus]
          end
      | 11 =>
          upd (cgo s) 13 (ck s) (cph s) (cfc s) (cjc s) (wdone s) (rateq s) (nrate s) (creq s) 0 (aact s) (aj s) (ago s)
              [wr TC LWs; Rel TC MWs [(LWs, true); (LWsCnt, false)]]
      | 13 =>
          upd (cgo s) 1 (ck s) (cph s) (cfc s) (cjc s) (wdone s) (rateq s) (nrate s) (S (creq s)) (wsl s) (aact s) (aj s) (ago s)
              [rd TC LStatus; Rel TC (MRes (qr s)) [(LStatus, false); (LWsPaused, true)]]
      | _ => None
      end
  | AW i pub =>
      if (3 <=? cpc s) && (cpc s <=? 4) && (i <? cfc s) && negb (wdone s i)
      then Some ({| rk := rk s; apc := apc s; ak := ak s; afc := afc s; ajc := ajc s; awdone := awdone s;
                    cgo := cgo s; cpc := cpc s; ck := ck s; cph := cph s; cfc := cfc s; cjc := cjc s;
                    wdone := setb (wdone s) i true;
                    pubq := if pub then pubq s ++ [(ck s, i, cph s)] else pubq s;
                    rateq := rateq s; nrate := nrate s; creq := creq s; qpc := qpc s; qr := qr s;
                    qkind := qkind s; wsl := wsl s; aact := aact s; aj := aj s; ago := ago s; xpc := xpc s |},
                 [Acq (TW i) (MF (cph s) (ck s) i); rd (TW i) (LSeg (ck s) i); wr (TW i) (LSeg (ck s) i); wr (TW i) (LProc i)]
                 ++ (if pub
                     then [wr (TW i) (LRec (ck s) i (cph s));
                           Rel (TW i) (MPub (ck s) i (cph s)) [(LRec (ck s) i (cph s), true)];
                           rd (TW i) (LRec (ck s) i (cph s))]
                     else [])
                 ++ [Rel (TW i) (MD (cph s) (ck s) i) [(LProc i, false); (LSeg (ck s) i, false)]])
      else None
  | AP =>
      match pubq s with
      | (k, i, ph) :: rest =>
          Some ({| rk := rk s; apc := apc s; ak := ak s; afc := afc s; ajc := ajc s; awdone := awdone s;
                   cgo := cgo s; cpc := cpc s; ck := ck s; cph := cph s; cfc := cfc s; cjc := cjc s; wdone := wdone s;
                   pubq := rest; rateq := rateq s; nrate := nrate s; creq := creq s; qpc := qpc s; qr := qr s;
                   qkind := qkind s; wsl := wsl s; aact := aact s; aj := aj s; ago := ago s; xpc := xpc s |},
                [Acq TP (MPub k i ph); rd TP (LRec k i ph)])
      | [] => None
      end
  | AU =>
      match rateq s with
      | x :: rest =>
          Some ({| rk := rk s; apc := apc s; ak := ak s; afc := afc s; ajc := ajc s; awdone := awdone s;
                   cgo := cgo s; cpc := cpc s; ck := ck s; cph := cph s; cfc := cfc s; cjc := cjc s; wdone := wdone s;
                   pubq := pubq s; rateq := rest; nrate := nrate s; creq := creq s; qpc := qpc s; qr := qr s;
                   qkind := qkind s; wsl := wsl s; aact := aact s; aj := aj s; ago := ago s; xpc := xpc s |},
                [Acq TU (MRate x); rd TU (LRate x)])
      | [] => None
      end
  | AX j =>
      let upd pc ev :=
        Some ({| rk := rk s; apc := apc s; ak := ak s; afc := afc s; ajc := ajc s; awdone := awdone s;
                 cgo := cgo s; cpc := cpc s; ck := ck s; cph := cph s; cfc := cfc s; cjc := cjc s; wdone := wdone s;
                 pubq := pubq s; rateq := rateq s; nrate := nrate s; creq := creq s; qpc := qpc s; qr := qr s;
                 qkind := qkind s; wsl := wsl s; aact := aact s; aj := aj s; ago := ago s; xpc := setn (xpc s) j pc |}, ev) in
      match xpc s j with
      | 0 => if j <? ago s
             then upd 1 (Acq (TX j) (MXGo j) :: (if v_arch_shared v then [rd (TX j) LArch] else []))
             else None
      | 1 => if j <? aj s
             then upd 2 [Acq (TX j) (MSnap j); rd (TX j) (if v_arch_shared v then LArch else LSnap j)]
             else None
      | _ => None
      end
  | AQ c =>
      let upd pc r kind wl ev :=
        Some ({| rk := rk s; apc := apc s; ak := ak s; afc := afc s; ajc := ajc s; awdone := awdone s;
                 cgo := cgo s; cpc := cpc s; ck := ck s; cph := cph s; cfc := cfc s; cjc := cjc s; wdone := wdone s;
                 pubq := pubq s; rateq := rateq s; nrate := nrate s; creq := creq s; qpc := pc; qr := r;
                 qkind := kind; wsl := wl; aact := aact s; aj := aj s; ago := ago s; xpc := xpc s |}, ev) in
      match qpc s with
      | 0 => match c with
             | 0 => (* ReadComment: ComputeWritingState on the RPC thread *)
                 if wsl s =? 0 then upd 2 (qr s) (qkind s) 2 [rd TQ LStatus; Acq TQ MWs] else None
             | S kind =>
                 upd 1 (qr s) kind (wsl s)
                     [rd TQ LStatus; wr TQ LStatus; Rel TQ (MReq (qr s)) [(LStatus, false); (LWsPaused, false)]]
             end
      | 1 => if qr s <? creq s
             then upd 0 (S (qr s)) (qkind s) (wsl s) [Acq TQ (MRes (qr s)); rd TQ LStatus; wr TQ LStatus]
             else None
      | 2 => upd 0 (qr s) (qkind s) 0 [rd TQ LWs; rd TQ LWsCnt; rd TQ LWsPaused; Rel TQ MWs [(LWs, false); (LWsCnt, false)]]
      | _ => None
      end
  | AF i => Some (s, [wr (TF i) (LFile i)])
  | AM =>
      if (apc s =? 1) && (qpc s =? 0)
      then Some (s, [Rel TQ MMix []; Acq TA MMix; wr TA LMix; Rel TA MMixR []; Acq TQ MMixR])
      else None
  | AS c w =>
      let t := if c =? 0 then TQ else TC in
      Some (s, [Acq t MState; Acc t LState w false; Rel t MState [(LState, false)]])
  end.

(* run a schedule from a state: acts that are not enabled are skipped *)
Fixpoint run_from (v : variant) (n : nat) (s : st) (sched : list act) : st * trace :=
  match sched with
  | [] => (s, [])
  | a :: rest =>
      match step v n s a with
      | Some (s', ev) => let (s'', tr) := run_from v n s' rest in (s'', ev ++ tr)
      | None => run_from v n s rest
      end
  end.

Definition exec (v : variant) (n : nat) (sched : list act) : trace := snd (run_from v n init sched).

(* who holds what before anything has happened (right after Start has returned) *)
Definition holders0 (v : variant) (l : loc) : option (list (Conc.holder tid mid)) :=
  match l with
  | LNext => if v_next_plain v then Some [HT TA] else None
  | LETrig | LTiming => Some [HT TR]
  | LSeg _ _ | LHdr _ => Some [HT TR]
  | LProc _ => Some [HT TC]
  | LRec _ i _ => Some [HT (TW i)]
  | LRate _ => Some [HT TC]
  | LArch => Some [HT TC]
  | LSnap _ => Some [HT TC]
  | LWs => Some [HT TC; HM MWs]
  | LWsCnt => Some [HM MWs]
  | LWsPaused => Some [HT TC; HT TQ]
  | LStatus => Some [HT TQ]
  | LFile i => Some [HT (TF i)]
  | LState => Some [HM MState]
  | LMix => Some [HT TA]
  end.

Definition monitor_accepts (v : variant) (p : trace) : bool :=
  match Conc.mon_run tid mid loc tid_dec mid_dec loc_dec (holders0 v) p with Some _ => true | None => false end.
