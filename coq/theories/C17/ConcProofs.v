(* C17 — proofs about the kit of Conc.v:
     monitor_sound      : a trace accepted by the ownership monitor is RaceFree
     race_free_b_iff    : the happens-before computed by clocks decides RaceFree exactly *)
From Coq Require Import List Arith Lia Bool NArith.
Import ListNotations.
From Dastard Require Import C17.Conc.

Section Proofs.
Variables tid mid loc : Type.
Variable tid_dec : forall a b : tid, {a = b} + {a <> b}.
Variable mid_dec : forall a b : mid, {a = b} + {a <> b}.
Variable loc_dec : forall a b : loc, {a = b} + {a <> b}.

Notation event := (event tid mid loc).
Notation trace := (trace tid mid loc).
Notation holder := (holder tid mid).
Notation mstate := (mstate tid mid loc).
Notation HBr := (@HB tid mid loc).
Notation coversr := (@covers tid mid loc).
Notation holder_dec := (holder_dec tid mid tid_dec mid_dec).
Notation mon_step := (mon_step tid mid loc tid_dec mid_dec loc_dec).
Notation mon_run := (mon_run tid mid loc tid_dec mid_dec loc_dec).
Notation rel_apply := (rel_apply tid mid loc tid_dec mid_dec loc_dec).
Notation acq_apply := (acq_apply tid mid loc tid_dec mid_dec).
Notation acc_ok := (acc_ok tid mid loc tid_dec mid_dec).
Notation upd := (upd tid mid loc loc_dec).
Notation give := (give tid mid tid_dec mid_dec).
Notation take := (take tid mid tid_dec mid_dec).
Notation hmem := (hmem tid mid tid_dec mid_dec).
Notation only := (only tid mid tid_dec mid_dec).

(* ------------------------------------------------------------------ small facts *)

Lemma hmem_true h hs : hmem h hs = true <-> In h hs.
Proof. unfold Conc.hmem. destruct (in_dec _ h hs); split; auto; discriminate. Qed.

Lemma only_true h hs : only h hs = true -> In h hs /\ forall x, In x hs -> x = h.
Proof.
  unfold Conc.only. destruct hs as [|y hs]; [discriminate|]. intro F.
  rewrite forallb_forall in F.
  assert (A : forall x, In x (y :: hs) -> x = h).
  { intros x I. specialize (F x I). destruct (Conc.holder_dec _ _ _ _ x h); [auto | discriminate]. }
  split; [|exact A]. rewrite <- (A y) at 1; simpl; auto.
Qed.

Lemma in_remove_iff (x h : holder) hs : In x (remove holder_dec h hs) <-> In x hs /\ x <> h.
Proof. split; [apply in_remove | intros [A B]; now apply in_in_remove]. Qed.

(* ------------------------------------------------------------------ the invariant *)

Definition LInv (p : trace) (l : loc) (o : option (list holder)) : Prop :=
  match o with
  | None => forall k t w a, nth_error p k = Some (Acc t l w a) -> a = true
  | Some hs =>
      (forall k t w a, nth_error p k = Some (Acc t l w a) -> a = false) /\
      (forall k t a, nth_error p k = Some (Acc t l true a) -> forall h, In h hs -> coversr p k h) /\
      (forall k t a, nth_error p k = Some (Acc t l false a) -> exists h, In h hs /\ coversr p k h)
  end.

Definition MInv (p : trace) (s : mstate) : Prop := forall l, LInv p l (s l).

Lemma MInv_nil s : MInv [] s.
Proof.
  intro l. unfold LInv. destruct (s l); [repeat split|]; intros k; intros; destruct k; discriminate.
Qed.

(* extending the trace by an event that is not an access keeps the invariant *)
Lemma LInv_snoc_nonacc p e l o :
  (forall t l' w a, Acc t l' w a <> e) -> LInv p l o -> LInv (p ++ [e]) l o.
Proof.
  intros NA H. unfold LInv in *. destruct o as [hs|].
  - destruct H as (A & W & R). repeat split.
    + intros k t w a E. apply nth_error_snoc_inv in E as [[_ E] | [_ E]]; [eauto | now apply NA in E].
    + intros k t a E h I. apply nth_error_snoc_inv in E as [[_ E] | [_ E]]; [|now apply NA in E].
      apply covers_app; eauto.
    + intros k t a E. apply nth_error_snoc_inv in E as [[_ E] | [_ E]]; [|now apply NA in E].
      destruct (R _ _ _ E) as (h & I & C). exists h; split; [exact I | now apply covers_app].
  - intros k t w a E. apply nth_error_snoc_inv in E as [[_ E] | [_ E]]; [eauto | now apply NA in E].
Qed.

(* ---- release *)

Lemma covers_HT_HM p t m pl k :
  k < length p -> coversr (p ++ [Rel t m pl]) k (HT t) -> coversr (p ++ [Rel t m pl]) k (HM m).
Proof.
  intros L (j & e & A & B & C). exists (length p), t, pl. split; [apply nth_error_snoc_last|].
  right. apply nth_error_snoc_inv in A as [[Lj A] | [Ej _]].
  - assert (P : HBr (p ++ [Rel t m pl]) j (length p)).
    { eapply HB_po; [exact Lj | apply nth_error_app_l; exact A | apply nth_error_snoc_last | simpl; exact B]. }
    destruct C as [-> | C]; [exact P | eapply HB_trans; eauto].
  - subst j. destruct C as [-> | C]; [lia | exact C].
Qed.

Lemma acc_index_lt (p : trace) e k t l w a :
  (forall t l' w a, Acc t l' w a <> e) -> nth_error (p ++ [e]) k = Some (Acc t l w a) -> k < length p.
Proof.
  intros NA E. apply nth_error_snoc_inv in E as [[L _] | [_ E]]; [exact L | now apply NA in E].
Qed.

Lemma rel_apply_inv p t m pl0 :
  let p' := p ++ [Rel t m pl0] in
  forall pl s s', MInv p' s -> rel_apply s t m pl = Some s' -> MInv p' s'.
Proof.
  intros p'. assert (NA : forall t' l' w a, Acc t' l' w a <> Rel t m pl0) by (intros; discriminate).
  induction pl as [| [l sh] rest IH]; intros s s' I R; simpl in R.
  - now inversion R; subst.
  - destruct (s l) as [hs|] eqn:E; [|discriminate].
    destruct (hmem (HT t) hs) eqn:M; [|discriminate].
    apply hmem_true in M. apply (IH _ _) in R; [exact R|]. clear IH R.
    intro l'. unfold Conc.upd. destruct (loc_dec l' l) as [->|N]; [|apply I].
    specialize (I l). rewrite E in I. destruct I as (A & W & Rd). simpl. repeat split.
    + exact A.
    + intros k t0 a Ek h Ih. unfold Conc.give in Ih. destruct Ih as [<- | Ih].
      * apply covers_HT_HM; [eapply acc_index_lt; eauto | eapply W; eauto].
      * destruct sh; [eapply W; eauto | apply in_remove_iff in Ih as [Ih _]; eapply W; eauto].
    + intros k t0 a Ek. destruct (Rd _ _ _ Ek) as (h & Ih & C).
      destruct (holder_dec h (HT t)) as [->|Nh].
      * exists (HM m). split; [left; reflexivity|]. apply covers_HT_HM; [eapply acc_index_lt; eauto | exact C].
      * exists h. split; [|exact C]. right. destruct sh; [exact Ih | apply in_remove_iff; auto].
Qed.

(* ---- acquire *)

Lemma covers_HM_HT p t m k :
  coversr (p ++ [Acq t m]) k (HM m) -> coversr (p ++ [Acq t m]) k (HT t).
Proof.
  intros (r & t1 & pl & A & C). exists (length p), (Acq t m).
  split; [apply nth_error_snoc_last|]. split; [reflexivity|]. right.
  apply nth_error_snoc_inv in A as [[Lr A] | [_ A]]; [|discriminate].
  assert (P : HBr (p ++ [Acq t m]) r (length p)).
  { eapply HB_sync; [exact Lr | apply nth_error_app_l; exact A | apply nth_error_snoc_last]. }
  destruct C as [-> | C]; [exact P | eapply HB_trans; eauto].
Qed.

Lemma acq_apply_inv p t m s : MInv (p ++ [Acq t m]) s -> MInv (p ++ [Acq t m]) (acq_apply s t m).
Proof.
  intros I l. specialize (I l). unfold Conc.acq_apply. destruct (s l) as [hs|]; [|exact I].
  destruct I as (A & W & Rd). unfold Conc.take. destruct (hmem (HM m) hs) eqn:M; [|repeat split; assumption].
  apply hmem_true in M. simpl. repeat split.
  - exact A.
  - intros k t0 a Ek h [<- | Ih].
    + apply covers_HM_HT. eapply W; eauto.
    + apply in_remove_iff in Ih as [Ih _]. eapply W; eauto.
  - intros k t0 a Ek. destruct (Rd _ _ _ Ek) as (h & Ih & C).
    destruct (holder_dec h (HM m)) as [->|Nh].
    + exists (HT t). split; [left; reflexivity | now apply covers_HM_HT].
    + exists h. split; [right; apply in_remove_iff; auto | exact C].
Qed.

(* ---- access *)

Lemma acc_step p s t l w a :
  MInv p s -> RaceFree tid mid loc p -> acc_ok s t l w a = true ->
  MInv (p ++ [Acc t l w a]) s /\ RaceFree tid mid loc (p ++ [Acc t l w a]).
Proof.
  intros I RF OK. set (e := Acc t l w a). set (n := length p).
  assert (SELF : coversr (p ++ [e]) n (HT t)).
  { apply (covers_self _ _ _ (p ++ [e]) n e). apply nth_error_snoc_last. }
  split.
  - intro l'. specialize (I l') as Il. unfold Conc.acc_ok in OK. unfold LInv in *.
    destruct (loc_dec l' l) as [->|NE].
    + destruct (s l) as [hs|].
      * apply andb_true_iff in OK as [Na OK]. apply negb_true_iff in Na.
        destruct Il as (A & W & Rd). repeat split.
        -- intros k t0 w0 a0 E. apply nth_error_snoc_inv in E as [[_ E] | [_ E]]; [eauto | inversion E; subst; auto].
        -- intros k t0 a0 E h Ih. apply nth_error_snoc_inv in E as [[_ E] | [-> E]].
           ++ apply covers_app; eauto.
           ++ inversion E; subst. apply only_true in OK as [_ O]. rewrite (O _ Ih). exact SELF.
        -- intros k t0 a0 E. apply nth_error_snoc_inv in E as [[_ E] | [-> E]].
           ++ destruct (Rd _ _ _ E) as (h & Ih & C). exists h. split; [exact Ih | now apply covers_app].
           ++ inversion E; subst. apply hmem_true in OK. exists (HT t). split; [exact OK | exact SELF].
      * intros k t0 w0 a0 E. apply nth_error_snoc_inv in E as [[_ E] | [_ E]]; [eauto | inversion E; subst; auto].
    + destruct (s l') as [hs|].
      * destruct Il as (A & W & Rd). repeat split.
        -- intros k t0 w0 a0 E. apply nth_error_snoc_inv in E as [[_ E] | [_ E]]; [eauto | inversion E; subst; congruence].
        -- intros k t0 a0 E h Ih. apply nth_error_snoc_inv in E as [[_ E] | [_ E]]; [apply covers_app; eauto | inversion E; subst; congruence].
        -- intros k t0 a0 E. apply nth_error_snoc_inv in E as [[_ E] | [_ E]]; [|inversion E; subst; congruence].
           destruct (Rd _ _ _ E) as (h & Ih & C). exists h. split; [exact Ih | now apply covers_app].
      * intros k t0 w0 a0 E. apply nth_error_snoc_inv in E as [[_ E] | [_ E]]; [eauto | inversion E; subst; congruence].
  - intros i j t1 t2 l0 w1 a1 w2 a2 Lij Ei Ej NT Wr At.
    apply nth_error_snoc_inv in Ej as [[Lj Ej] | [-> Ej]].
    + assert (Ei' : nth_error p i = Some (Acc t1 l0 w1 a1)).
      { apply nth_error_snoc_inv in Ei as [[_ Ei] | [Ei _]]; [exact Ei | lia]. }
      apply HB_app. eapply RF; eauto.
    + inversion Ej; subst t2 l0 w2 a2. clear Ej.
      apply nth_error_snoc_inv in Ei as [[_ Ei] | [Ei _]]; [|lia].
      apply covers_next. change (coversr p i (HT t)).
      specialize (I l). unfold Conc.acc_ok in OK. unfold LInv in I. destruct (s l) as [hs|].
      * apply andb_true_iff in OK as [_ OK]. destruct I as (_ & W & Rd).
        destruct w1.
        -- apply (W _ _ _ Ei). destruct w; [now apply only_true in OK as [OK _] | now apply hmem_true].
        -- simpl in Wr. subst w. apply only_true in OK as [_ O].
           destruct (Rd _ _ _ Ei) as (h & Ih & C). now rewrite (O _ Ih) in C.
      * subst a. rewrite (I _ _ _ _ Ei) in At. discriminate.
Qed.

Lemma RaceFree_snoc_nonacc p e :
  (forall t l' w a, Acc t l' w a <> e) -> RaceFree tid mid loc p -> RaceFree tid mid loc (p ++ [e]).
Proof.
  intros NA RF i j t1 t2 l w1 a1 w2 a2 Lij Ei Ej NT Wr At.
  apply nth_error_snoc_inv in Ej as [[Lj Ej] | [_ Ej]]; [|now apply NA in Ej].
  apply nth_error_snoc_inv in Ei as [[_ Ei] | [Ei _]]; [|lia].
  apply HB_app. eapply RF; eauto.
Qed.

Lemma mon_step_inv p s e s' :
  MInv p s -> RaceFree tid mid loc p -> mon_step s e = Some s' ->
  MInv (p ++ [e]) s' /\ RaceFree tid mid loc (p ++ [e]).
Proof.
  intros I RF ST. destruct e as [t l w a | t m pl | t m]; simpl in ST.
  - destruct (acc_ok s t l w a) eqn:OK; [|discriminate]. inversion ST; subst. now apply acc_step.
  - assert (NA : forall t' l' w a, (Acc t' l' w a : event) <> Rel t m pl) by (intros; discriminate).
    split; [|now apply RaceFree_snoc_nonacc].
    eapply rel_apply_inv; [|exact ST]. intro l. now apply LInv_snoc_nonacc.
  - assert (NA : forall t' l' w a, (Acc t' l' w a : event) <> Acq t m) by (intros; discriminate).
    inversion ST; subst. split; [|now apply RaceFree_snoc_nonacc].
    apply acq_apply_inv. intro l. now apply LInv_snoc_nonacc.
Qed.

Lemma mon_run_inv q : forall p s s',
  MInv p s -> RaceFree tid mid loc p -> mon_run s q = Some s' ->
  MInv (p ++ q) s' /\ RaceFree tid mid loc (p ++ q).
Proof.
  induction q as [|e q IH]; intros p s s' I RF R; simpl in R.
  - inversion R; subst. rewrite app_nil_r. auto.
  - destruct (mon_step s e) as [s1|] eqn:ST; [|discriminate].
    destruct (mon_step_inv _ _ _ _ I RF ST) as [I1 RF1].
    replace (p ++ e :: q) with ((p ++ [e]) ++ q) by (rewrite <- app_assoc; reflexivity).
    eapply IH; eauto.
Qed.

(* A trace that the ownership monitor accepts (from ANY initial assignment of holders) has no race. *)
Theorem monitor_sound_thm (s0 : mstate) (p : trace) :
  mon_run s0 p <> None -> RaceFree tid mid loc p.
Proof.
  intro H. destruct (mon_run s0 p) as [s'|] eqn:R; [|congruence].
  apply (mon_run_inv p [] s0 s'); [apply MInv_nil | | exact R].
  intros i j t1 t2 l w1 a1 w2 a2 _ Ei. destruct i; discriminate.
Qed.

(* ------------------------------------------------------------------ how the monitor transforms holder sets *)

Lemma In_give t m sh hs h :
  In h (give t m sh hs) <-> h = HM m \/ (In h hs /\ (sh = true \/ h <> HT t)).
Proof.
  unfold Conc.give. destruct sh; simpl.
  - split; [intros [<-|I]; auto | intros [->|[I _]]; auto].
  - rewrite in_remove_iff. split; [intros [<-|[I N]]; auto | intros [->|[I [D|N]]]; auto; discriminate].
Qed.

Lemma In_take t m hs h :
  In h (take t m hs) <->
  (In (HM m) hs /\ (h = HT t \/ (In h hs /\ h <> HM m))) \/ (~ In (HM m) hs /\ In h hs).
Proof.
  unfold Conc.take. destruct (hmem (HM m) hs) eqn:M.
  - apply hmem_true in M. simpl. rewrite in_remove_iff. split.
    + intros [<-|[I N]]; left; auto.
    + intros [[_ [->|[I N]]]|[N _]]; auto; contradiction.
  - assert (N : ~ In (HM m) hs) by (intro I; apply hmem_true in I; congruence).
    split; [intro I; right; auto | intros [[I _]|[_ I]]; [contradiction | exact I]].
Qed.

Lemma mon_run_app s p q :
  mon_run s (p ++ q) = match mon_run s p with Some s' => mon_run s' q | None => None end.
Proof.
  revert s. induction p as [|e p IH]; intro s; simpl; [reflexivity|].
  destruct (mon_step s e); [apply IH | reflexivity].
Qed.

(* a release with a payload of distinct locations, all held by the releasing thread, succeeds and acts pointwise *)
Lemma rel_apply_spec t m : forall pl s,
  NoDup (map fst pl) ->
  (forall l sh, In (l, sh) pl -> exists hs, s l = Some hs /\ In (HT t) hs) ->
  exists s', rel_apply s t m pl = Some s' /\
    (forall l, ~ In l (map fst pl) -> s' l = s l) /\
    (forall l sh, In (l, sh) pl -> exists hs, s l = Some hs /\ s' l = Some (give t m sh hs)).
Proof.
  induction pl as [|[l0 sh0] pl IH]; intros s ND H; simpl.
  - exists s. repeat split; auto. intros l sh [].
  - inversion ND as [|x xs NI ND' E]; subst.
    destruct (H l0 sh0 (or_introl eq_refl)) as (hs0 & E0 & I0). rewrite E0.
    assert (M : hmem (HT t) hs0 = true) by now apply hmem_true. rewrite M.
    set (s1 := upd s l0 (Some (give t m sh0 hs0))).
    assert (U : forall l, l <> l0 -> s1 l = s l).
    { intros l N. unfold s1, Conc.upd. destruct (loc_dec l l0); [contradiction | reflexivity]. }
    destruct (IH s1 ND') as (s' & R & A & B).
    { intros l sh I. assert (N : l <> l0). { intro; subst. apply NI. apply (in_map fst) in I. exact I. }
      rewrite (U _ N). apply (H l sh). now right. }
    exists s'. split; [exact R|]. split.
    + intros l N. simpl in N. rewrite A by tauto. apply U. intro; subst; tauto.
    + intros l sh [E|I].
      * inversion E; subst. exists hs0. split; [exact E0|]. rewrite A by exact NI.
        unfold s1, Conc.upd. destruct (loc_dec l l); [reflexivity | contradiction].
      * assert (N : l <> l0). { intro; subst. apply NI. apply (in_map fst) in I. exact I. }
        destruct (B _ _ I) as (hs & E1 & E2). exists hs. split; [now rewrite <- (U _ N) | exact E2].
Qed.

(* a list of accesses that are all allowed leaves the monitor where it is *)
Lemma mon_run_accs s p :
  Forall (fun e => match e with Acc t l w a => acc_ok s t l w a = true | _ => False end) p ->
  mon_run s p = Some s.
Proof.
  induction 1 as [|e p He _ IH]; simpl; [reflexivity|].
  destruct e as [t l w a| |]; try contradiction. simpl. rewrite He. exact IH.
Qed.

(* ------------------------------------------------------------------ the monitor, one location at a time *)

Definition acc_ok1 (o : option (list holder)) (t : tid) (w a : bool) : bool :=
  match o with
  | None => a
  | Some hs => negb a && (if w then only (HT t) hs else hmem (HT t) hs)
  end.

Fixpoint rel1 (l : loc) (o : option (list holder)) (t : tid) (m : mid) (pl : list (loc * bool))
  : option (option (list holder)) :=
  match pl with
  | [] => Some o
  | (l', sh) :: rest =>
      if loc_dec l' l
      then match o with
           | Some hs => if hmem (HT t) hs then rel1 l (Some (give t m sh hs)) t m rest else None
           | None => None
           end
      else rel1 l o t m rest
  end.

Definition mon1 (l : loc) (o : option (list holder)) (e : event) : option (option (list holder)) :=
  match e with
  | Acc t l' w a => if loc_dec l' l then (if acc_ok1 o t w a then Some o else None) else Some o
  | Rel t m pl => rel1 l o t m pl
  | Acq t m => Some (match o with Some hs => Some (take t m hs) | None => None end)
  end.

Fixpoint mon1_run (l : loc) (o : option (list holder)) (p : trace) : option (option (list holder)) :=
  match p with
  | [] => Some o
  | e :: p' => match mon1 l o e with Some o' => mon1_run l o' p' | None => None end
  end.

Lemma mon1_run_app l o p q :
  mon1_run l o (p ++ q) = match mon1_run l o p with Some o' => mon1_run l o' q | None => None end.
Proof.
  revert o. induction p as [|e p IH]; intro o; simpl; [reflexivity|].
  destruct (mon1 l o e); [apply IH | reflexivity].
Qed.

Lemma rel_apply_pointwise t m : forall pl s,
  (forall l, rel1 l (s l) t m pl <> None) ->
  exists s', rel_apply s t m pl = Some s' /\ forall l, rel1 l (s l) t m pl = Some (s' l).
Proof.
  induction pl as [|[l0 sh0] pl IH]; intros s H; simpl.
  - exists s. split; auto.
  - pose proof (H l0) as H0. simpl in H0. destruct (loc_dec l0 l0) as [_|N]; [|contradiction].
    destruct (s l0) as [hs0|] eqn:E0; [|congruence].
    destruct (hmem (HT t) hs0) eqn:M; [|congruence].
    set (s1 := upd s l0 (Some (give t m sh0 hs0))).
    destruct (IH s1) as (s' & R & P).
    + intro l. specialize (H l). simpl in H. unfold s1, Conc.upd.
      destruct (loc_dec l0 l) as [<-|N].
      * destruct (loc_dec l0 l0); [|contradiction]. rewrite E0, M in H. exact H.
      * destruct (loc_dec l l0) as [->|_]; [contradiction | exact H].
    + exists s'. split; [exact R|]. intro l. specialize (P l). unfold s1, Conc.upd in P.
      destruct (loc_dec l0 l) as [<-|N].
      * destruct (loc_dec l0 l0); [|contradiction]. rewrite E0, M. exact P.
      * destruct (loc_dec l l0) as [->|_]; [contradiction | exact P].
Qed.

Lemma mon_run_pointwise : forall p s,
  (forall l, mon1_run l (s l) p <> None) -> mon_run s p <> None.
Proof.
  induction p as [|e p IH]; intros s H; simpl; [congruence|].
  assert (ST : exists s', mon_step s e = Some s' /\ forall l, mon1 l (s l) e = Some (s' l)).
  { destruct e as [t l0 w a | t m pl | t m]; simpl.
    - pose proof (H l0) as H0. simpl in H0. destruct (loc_dec l0 l0); [|contradiction].
      change (acc_ok s t l0 w a) with (acc_ok1 (s l0) t w a).
      destruct (acc_ok1 (s l0) t w a) eqn:OK.
      + exists s. split; [reflexivity|]. intro l. destruct (loc_dec l0 l) as [<-|]; [|reflexivity].
        now rewrite OK.
      + exfalso. apply H0. reflexivity.
    - apply rel_apply_pointwise. intro l. specialize (H l). simpl in H.
      destruct (rel1 l (s l) t m pl); congruence.
    - exists (acq_apply s t m). split; [reflexivity|]. intro l. unfold Conc.acq_apply. destruct (s l); reflexivity. }
  destruct ST as (s' & ST & P). rewrite ST. apply IH. intro l. specialize (H l). simpl in H. rewrite (P l) in H. exact H.
Qed.

(* events that cannot concern location l when its holders satisfy Hi *)
Definition mentions (l : loc) (Hi : holder -> Prop) (e : event) : Prop :=
  match e with
  | Acc _ l' _ _ => l' = l
  | Rel _ _ pl => In l (map fst pl)
  | Acq _ m => Hi (HM m)
  end.

Lemma rel1_skip l o t m pl : ~ In l (map fst pl) -> rel1 l o t m pl = Some o.
Proof.
  induction pl as [|[l' sh] pl IH]; intro N; simpl; [reflexivity|].
  simpl in N. destruct (loc_dec l' l); [tauto | apply IH; tauto].
Qed.

Lemma take_skip t m hs : ~ In (HM m) hs -> take t m hs = hs.
Proof.
  intro N. unfold Conc.take. destruct (hmem (HM m) hs) eqn:M; [|reflexivity].
  apply hmem_true in M. contradiction.
Qed.

Lemma mon1_run_skip l (Hi : holder -> Prop) o p :
  match o with Some hs => forall h, In h hs -> Hi h | None => True end ->
  Forall (fun e => ~ mentions l Hi e) p -> mon1_run l o p = Some o.
Proof.
  intros B F. induction F as [|e p N _ IH]; simpl; [reflexivity|].
  assert (E : mon1 l o e = Some o).
  { destruct e as [t l' w a | t m pl | t m]; simpl in *.
    - destruct (loc_dec l' l); [contradiction | reflexivity].
    - now apply rel1_skip.
    - destruct o as [hs|]; [|reflexivity]. rewrite take_skip; [reflexivity|]. intro I. apply N. now apply B. }
  rewrite E. exact IH.
Qed.

End Proofs.
