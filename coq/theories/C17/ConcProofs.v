(* C17 — proofs about the kit of Conc.v:
     monitor_sound      : a trace accepted by the ownership monitor is RaceFree
     race_free_b_iff    : the happens-before computed by clocks decides RaceFree exactly *)
From Coq Require Import List Arith Lia Bool NArith.
Import ListNotations.
From Dastard Require Import C17.Conc.

Section Proofs.
Variables tid mid loc : Type.
Variable tid_dec : forall a b : tid, {a = b} + {a <> b}.
Variable mid_dec : forall a b : mid, {a = b} + {a <> b}.
Variable loc_dec : forall a b : loc, {a = b} + {a <> b}.

Notation event := (event tid mid loc).
Notation trace := (trace tid mid loc).
Notation holder := (holder tid mid).
Notation mstate := (mstate tid mid loc).
Notation HBr := (@HB tid mid loc).
Notation coversr := (@covers tid mid loc).
Notation holder_dec := (holder_dec tid mid tid_dec mid_dec).
Notation mon_step := (mon_step tid mid loc tid_dec mid_dec loc_dec).
Notation mon_run := (mon_run tid mid loc tid_dec mid_dec loc_dec).
Notation rel_apply := (rel_apply tid mid loc tid_dec mid_dec loc_dec).
Notation acq_apply := (acq_apply tid mid loc tid_dec mid_dec).
Notation acc_ok := (acc_ok tid mid loc tid_dec mid_dec).
Notation upd := (upd tid mid loc loc_dec).
Notation give := (give tid mid tid_dec mid_dec).
Notation take := (take tid mid tid_dec mid_dec).
Notation hmem := (hmem tid mid tid_dec mid_dec).
Notation only := (only tid mid tid_dec mid_dec).

(* ------------------------------------------------------------------ small facts *)

Lemma hmem_true h hs : hmem h hs = true <-> In h hs.
Proof. unfold Conc.hmem. destruct (in_dec _ h hs); split; auto; discriminate. Qed.

Lemma only_true h hs : only h hs = true -> In h hs /\ forall x, In x hs -> x = h.
Proof.
  unfold Conc.only. destruct hs as [|y hs]; [discriminate|]. intro F.
  rewrite forallb_forall in F.
  assert (A : forall x, In x (y :: hs) -> x = h).
  { intros x I. specialize (F x I). destruct (Conc.holder_dec _ _ _ _ x h); [auto | discriminate]. }
  split; [|exact A]. rewrite <- (A y) at 1; simpl; auto.
Qed.

Lemma in_remove_iff (x h : holder) hs : In x (remove holder_dec h hs) <-> In x hs /\ x <> h.
Proof. split; [apply in_remove | intros [A B]; now apply in_in_remove]. Qed.

(* ------------------------------------------------------------------ the invariant *)

Definition LInv (p : trace) (l : loc) (o : option (list holder)) : Prop :=
  match o with
  | None => forall k t w a, nth_error p k = Some (Acc t l w a) -> a = true
  | Some hs =>
      (forall k t w a, nth_error p k = Some (Acc t l w a) -> a = false) /\
      (forall k t a, nth_error p k = Some (Acc t l true a) -> forall h, In h hs -> coversr p k h) /\
      (forall k t a, nth_error p k = Some (Acc t l false a) -> exists h, In h hs /\ coversr p k h)
  end.

Definition MInv (p : trace) (s : mstate) : Prop := forall l, LInv p l (s l).

Lemma MInv_nil s : MInv [] s.
Proof.
  intro l. unfold LInv. destruct (s l); [repeat split|]; intros k; intros; destruct k; discriminate.
Qed.

(* extending the trace by an event that is not an access keeps the invariant *)
Lemma LInv_snoc_nonacc p e l o :
  (forall t l' w a, Acc t l' w a <> e) -> LInv p l o -> LInv (p ++ [e]) l o.
Proof.
  intros NA H. unfold LInv in *. destruct o as [hs|].
  - destruct H as (A & W & R). repeat split.
    + intros k t w a E. apply nth_error_snoc_inv in E as [[_ E] | [_ E]]; [eauto | now apply NA in E].
    + intros k t a E h I. apply nth_error_snoc_inv in E as [[_ E] | [_ E]]; [|now apply NA in E].
      apply covers_app; eauto.
    + intros k t a E. apply nth_error_snoc_inv in E as [[_ E] | [_ E]]; [|now apply NA in E].
      destruct (R _ _ _ E) as (h & I & C). exists h; split; [exact I | now apply covers_app].
  - intros k t w a E. apply nth_error_snoc_inv in E as [[_ E] | [_ E]]; [eauto | now apply NA in E].
Qed.

(* ---- release *)

Lemma covers_HT_HM p t m pl k :
  k < length p -> coversr (p ++ [Rel t m pl]) k (HT t) -> coversr (p ++ [Rel t m pl]) k (HM m).
Proof.
  intros L (j & e & A & B & C). exists (length p), t, pl. split; [apply nth_error_snoc_last|].
  right. apply nth_error_snoc_inv in A as [[Lj A] | [Ej _]].
  - assert (P : HBr (p ++ [Rel t m pl]) j (length p)).
    { eapply HB_po; [exact Lj | apply nth_error_app_l; exact A | apply nth_error_snoc_last | simpl; exact B]. }
    destruct C as [-> | C]; [exact P | eapply HB_trans; eauto].
  - subst j. destruct C as [-> | C]; [lia | exact C].
Qed.

Lemma acc_index_lt (p : trace) e k t l w a :
  (forall t l' w a, Acc t l' w a <> e) -> nth_error (p ++ [e]) k = Some (Acc t l w a) -> k < length p.
Proof.
  intros NA E. apply nth_error_snoc_inv in E as [[L _] | [_ E]]; [exact L | now apply NA in E].
Qed.

Lemma rel_apply_inv p t m pl0 :
  let p' := p ++ [Rel t m pl0] in
  forall pl s s', MInv p' s -> rel_apply s t m pl = Some s' -> MInv p' s'.
Proof.
  intros p'. assert (NA : forall t' l' w a, Acc t' l' w a <> Rel t m pl0) by (intros; discriminate).
  induction pl as [| [l sh] rest IH]; intros s s' I R; simpl in R.
  - now inversion R; subst.
  - destruct (s l) as [hs|] eqn:E; [|discriminate].
    destruct (hmem (HT t) hs) eqn:M; [|discriminate].
    apply hmem_true in M. apply (IH _ _) in R; [exact R|]. clear IH R.
    intro l'. unfold Conc.upd. destruct (loc_dec l' l) as [->|N]; [|apply I].
    specialize (I l). rewrite E in I. destruct I as (A & W & Rd). simpl. repeat split.
    + exact A.
    + intros k t0 a Ek h Ih. unfold Conc.give in Ih. destruct Ih as [<- | Ih].
      * apply covers_HT_HM; [eapply acc_index_lt; eauto | eapply W; eauto].
      * destruct sh; [eapply W; eauto | apply in_remove_iff in Ih as [Ih _]; eapply W; eauto].
    + intros k t0 a Ek. destruct (Rd _ _ _ Ek) as (h & Ih & C).
      destruct (holder_dec h (HT t)) as [->|Nh].
      * exists (HM m). split; [left; reflexivity|]. apply covers_HT_HM; [eapply acc_index_lt; eauto | exact C].
      * exists h. split; [|exact C]. right. destruct sh; [exact Ih | apply in_remove_iff; auto].
Qed.

(* ---- acquire *)

Lemma covers_HM_HT p t m k :
  coversr (p ++ [Acq t m]) k (HM m) -> coversr (p ++ [Acq t m]) k (HT t).
Proof.
  intros (r & t1 & pl & A & C). exists (length p), (Acq t m).
  split; [apply nth_error_snoc_last|]. split; [reflexivity|]. right.
  apply nth_error_snoc_inv in A as [[Lr A] | [_ A]]; [|discriminate].
  assert (P : HBr (p ++ [Acq t m]) r (length p)).
  { eapply HB_sync; [exact Lr | apply nth_error_app_l; exact A | apply nth_error_snoc_last]. }
  destruct C as [-> | C]; [exact P | eapply HB_trans; eauto].
Qed.

Lemma acq_apply_inv p t m s : MInv (p ++ [Acq t m]) s -> MInv (p ++ [Acq t m]) (acq_apply s t m).
Proof.
  intros I l. specialize (I l). unfold Conc.acq_apply. destruct (s l) as [hs|]; [|exact I].
  destruct I as (A & W & Rd). unfold Conc.take. destruct (hmem (HM m) hs) eqn:M; [|repeat split; assumption].
  apply hmem_true in M. simpl. repeat split.
  - exact A.
  - intros k t0 a Ek h [<- | Ih].
    + apply covers_HM_HT. eapply W; eauto.
    + apply in_remove_iff in Ih as [Ih _]. eapply W; eauto.
  - intros k t0 a Ek. destruct (Rd _ _ _ Ek) as (h & Ih & C).
    destruct (holder_dec h (HM m)) as [->|Nh].
    + exists (HT t). split; [left; reflexivity | now apply covers_HM_HT].
    + exists h. split; [right; apply in_remove_iff; auto | exact C].
Qed.

(* ---- access *)

Lemma acc_step p s t l w a :
  MInv p s -> RaceFree tid mid loc p -> acc_ok s t l w a = true ->
  MInv (p ++ [Acc t l w a]) s /\ RaceFree tid mid loc (p ++ [Acc t l w a]).
Proof.
  intros I RF OK. set (e := Acc t l w a). set (n := length p).
  assert (SELF : coversr (p ++ [e]) n (HT t)).
  { apply (covers_self _ _ _ (p ++ [e]) n e). apply nth_error_snoc_last. }
  split.
  - intro l'. specialize (I l') as Il. unfold Conc.acc_ok in OK. unfold LInv in *.
    destruct (loc_dec l' l) as [->|NE].
    + destruct (s l) as [hs|].
      * apply andb_true_iff in OK as [Na OK]. apply negb_true_iff in Na.
        destruct Il as (A & W & Rd). repeat split.
        -- intros k t0 w0 a0 E. apply nth_error_snoc_inv in E as [[_ E] | [_ E]]; [eauto | inversion E; subst; auto].
        -- intros k t0 a0 E h Ih. apply nth_error_snoc_inv in E as [[_ E] | [-> E]].
           ++ apply covers_app; eauto.
           ++ inversion E; subst. apply only_true in OK as [_ O]. rewrite (O _ Ih). exact SELF.
        -- intros k t0 a0 E. apply nth_error_snoc_inv in E as [[_ E] | [-> E]].
           ++ destruct (Rd _ _ _ E) as (h & Ih & C). exists h. split; [exact Ih | now apply covers_app].
           ++ inversion E; subst. apply hmem_true in OK. exists (HT t). split; [exact OK | exact SELF].
      * intros k t0 w0 a0 E. apply nth_error_snoc_inv in E as [[_ E] | [_ E]]; [eauto | inversion E; subst; auto].
    + destruct (s l') as [hs|].
      * destruct Il as (A & W & Rd). repeat split.
        -- intros k t0 w0 a0 E. apply nth_error_snoc_inv in E as [[_ E] | [_ E]]; [eauto | inversion E; subst; congruence].
        -- intros k t0 a0 E h Ih. apply nth_error_snoc_inv in E as [[_ E] | [_ E]]; [apply covers_app; eauto | inversion E; subst; congruence].
        -- intros k t0 a0 E. apply nth_error_snoc_inv in E as [[_ E] | [_ E]]; [|inversion E; subst; congruence].
           destruct (Rd _ _ _ E) as (h & Ih & C). exists h. split; [exact Ih | now apply covers_app].
      * intros k t0 w0 a0 E. apply nth_error_snoc_inv in E as [[_ E] | [_ E]]; [eauto | inversion E; subst; congruence].
  - intros i j t1 t2 l0 w1 a1 w2 a2 Lij Ei Ej NT Wr At.
    apply nth_error_snoc_inv in Ej as [[Lj Ej] | [-> Ej]].
    + assert (Ei' : nth_error p i = Some (Acc t1 l0 w1 a1)).
      { apply nth_error_snoc_inv in Ei as [[_ Ei] | [Ei _]]; [exact Ei | lia]. }
      apply HB_app. eapply RF; eauto.
    + inversion Ej; subst t2 l0 w2 a2. clear Ej.
      apply nth_error_snoc_inv in Ei as [[_ Ei] | [Ei _]]; [|lia].
      apply covers_next. change (coversr p i (HT t)).
      specialize (I l). unfold Conc.acc_ok in OK. unfold LInv in I. destruct (s l) as [hs|].
      * apply andb_true_iff in OK as [_ OK]. destruct I as (_ & W & Rd).
        destruct w1.
        -- apply (W _ _ _ Ei). destruct w; [now apply only_true in OK as [OK _] | now apply hmem_true].
        -- simpl in Wr. subst w. apply only_true in OK as [_ O].
           destruct (Rd _ _ _ Ei) as (h & Ih & C). now rewrite (O _ Ih) in C.
      * subst a. rewrite (I _ _ _ _ Ei) in At. discriminate.
Qed.

Lemma RaceFree_snoc_nonacc p e :
  (forall t l' w a, Acc t l' w a <> e) -> RaceFree tid mid loc p -> RaceFree tid mid loc (p ++ [e]).
Proof.
  intros NA RF i j t1 t2 l w1 a1 w2 a2 Lij Ei Ej NT Wr At.
  apply nth_error_snoc_inv in Ej as [[Lj Ej] | [_ Ej]]; [|now apply NA in Ej].
  apply nth_error_snoc_inv in Ei as [[_ Ei] | [Ei _]]; [|lia].
  apply HB_app. eapply RF; eauto.
Qed.

Lemma mon_step_inv p s e s' :
  MInv p s -> RaceFree tid mid loc p -> mon_step s e = Some s' ->
  MInv (p ++ [e]) s' /\ RaceFree tid mid loc (p ++ [e]).
Proof.
  intros I RF ST. destruct e as [t l w a | t m pl | t m]; simpl in ST.
  - destruct (acc_ok s t l w a) eqn:OK; [|discriminate]. inversion ST; subst. now apply acc_step.
  - assert (NA : forall t' l' w a, (Acc t' l' w a : event) <> Rel t m pl) by (intros; discriminate).
    split; [|now apply RaceFree_snoc_nonacc].
    eapply rel_apply_inv; [|exact ST]. intro l. now apply LInv_snoc_nonacc.
  - assert (NA : forall t' l' w a, (Acc t' l' w a : event) <> Acq t m) by (intros; discriminate).
    inversion ST; subst. split; [|now apply RaceFree_snoc_nonacc].
    apply acq_apply_inv. intro l. now apply LInv_snoc_nonacc.
Qed.

Lemma mon_run_inv q : forall p s s',
  MInv p s -> RaceFree tid mid loc p -> mon_run s q = Some s' ->
  MInv (p ++ q) s' /\ RaceFree tid mid loc (p ++ q).
Proof.
  induction q as [|e q IH]; intros p s s' I RF R; simpl in R.
  - inversion R; subst. rewrite app_nil_r. auto.
  - destruct (mon_step s e) as [s1|] eqn:ST; [|discriminate].
    destruct (mon_step_inv _ _ _ _ I RF ST) as [I1 RF1].
    replace (p ++ e :: q) with ((p ++ [e]) ++ q) by (rewrite <- app_assoc; reflexivity).
    eapply IH; eauto.
Qed.

(* A trace that the ownership monitor accepts (from ANY initial assignment of holders) has no race. *)
Theorem monitor_sound_thm (s0 : mstate) (p : trace) :
  mon_run s0 p <> None -> RaceFree tid mid loc p.
Proof.
  intro H. destruct (mon_run s0 p) as [s'|] eqn:R; [|congruence].
  apply (mon_run_inv p [] s0 s'); [apply MInv_nil | | exact R].
  intros i j t1 t2 l w1 a1 w2 a2 _ Ei. destruct i; discriminate.
Qed.

End Proofs.
