(* C03 — one channel group: the invariant "the queue holds exactly the gap-filled run (consumed, lastSN],
   followed by the packets that arrived since the last fill", and what fillMissingPackets,
   trimPacketsBefore, countSamplesInQueue and demuxData do to it. *)
From Dastard Require Import Common.ZX C03.Model C03.Spec C03.Lemmas.
From Coq Require Import ZifyBool ZifyNat.

(* ghost state of a group: last sequence number consumed (delivered or trimmed), and the arrived
   packets that fillMissingPackets has already seen *)
Record ghost := { gh_c : Z; gh_F : list packet }.

(* lost packets among those fillMissingPackets has seen *)
Definition mf (gi : ginfo) (gh : ghost) : Z :=
  newest (gh_F gh) (last0 gi) - last0 gi - zlen (gh_F gh).

Section Group.
Variable fpp : Z.
Hypothesis Hfpp : 0 < fpp.
Variable gi : ginfo.
Hypothesis Hnchan : 0 < gi_nchan gi.

Definition wf (p : packet) : Prop :=
  p_off p = gi_off gi /\ p_nchan p = gi_nchan gi /\ zlen (p_data p) = fpp * gi_nchan gi.

(* the group's packets seen so far are in sequence order, after the last sampled one, well formed *)
Definition GValid (seen : list packet) : Prop :=
  pinc (last0 gi) (arrivals gi seen) /\ forall p, In p (arrivals gi seen) -> wf p.

Definition slots (F : list packet) (a n : Z) : list packet :=
  map (slot_packet (gi_nchan gi) F) (zrange a n).

Definition GInv (g : group) (gh : ghost) (seen : list packet) : Prop :=
  g_off g = gi_off gi /\ g_nchan g = gi_nchan gi /\ g_sync g = sync0 gi /\
  exists arrU, arrivals gi seen = gh_F gh ++ arrU /\
    g_last g = newest (gh_F gh) (last0 gi) /\
    last0 gi <= gh_c gh <= g_last g /\
    g_queue g = slots (gh_F gh) (gh_c gh + 1) (g_last g - gh_c gh) ++ arrU.

Lemma wf_frames p : wf p -> frames p = fpp.
Proof. intros (_ & H2 & H3). unfold frames. rewrite H2, H3. apply Z.div_mul. lia. Qed.

Lemma arrivals_app seen b : arrivals gi (seen ++ b) = arrivals gi seen ++ arrivals gi b.
Proof. unfold arrivals. apply filter_app. Qed.

Lemma slot_wf F lo sn : pinc lo F -> (forall p, In p F -> wf p) -> lo < sn <= newest F lo ->
  wf (slot_packet (gi_nchan gi) F sn).
Proof.
  intros HF Hw Hs. destruct (source_of_some _ _ _ HF Hs) as [p [P1 [P2 P3]]].
  unfold slot_packet. rewrite P1. destruct (Hw p P2) as (W1 & W2 & W3).
  destruct (p_sn p =? sn); [now split|]. unfold wf. rewrite pretend_len. cbn. auto.
Qed.

(* ---- arrival ---- *)
Lemma GInv_arrive g gh seen b : GInv g gh seen ->
  GInv (set_queue g (g_queue g ++ arrivals gi b)) gh (seen ++ b).
Proof.
  intros (H1 & H2 & H3 & arrU & A1 & A2 & A3 & A4). repeat split; auto.
  exists (arrU ++ arrivals gi b). cbn. rewrite arrivals_app, A1, A4, !app_assoc. auto.
Qed.

(* ---- fillMissingPackets ---- *)
Lemma last_sn_newest q d : last_sn q d = newest q d.
Proof.
  reflexivity.
Qed.

Lemma fill_loop_skip nchan last q1 q2 sne :
  (forall p, In p q1 -> p_sn p <= last) ->
  fill_loop nchan last (q1 ++ q2) sne =
  let '(nq, pa, fa) := fill_loop nchan last q2 sne in (q1 ++ nq, pa, fa).
Proof.
  induction q1 as [|p q1 IH]; intros H; cbn [app fill_loop].
  - destruct (fill_loop nchan last q2 sne) as [[? ?] ?]. reflexivity.
  - assert (E : p_sn p <=? last = true) by (specialize (H p (or_introl eq_refl)); lia). rewrite E.
    rewrite IH by (intros; apply H; now right).
    destruct (fill_loop nchan last q2 sne) as [[? ?] ?]. reflexivity.
Qed.

Lemma fill_loop_nogap nchan last q sne :
  let '(nq, pa, fa) := fill_loop nchan last q sne in 0 <= pa /\ (pa = 0 -> nq = q).
Proof.
  revert sne; induction q as [|p q IH]; intros sne; cbn [fill_loop]; [split; [lia|auto]|].
  destruct (p_sn p <=? last).
  - specialize (IH sne). destruct (fill_loop nchan last q sne) as [[nq pa] fa]. destruct IH as [I1 I2].
    split; auto. intros E. now rewrite I2.
  - specialize (IH (Z.max sne (p_sn p) + 1)).
    destruct (fill_loop nchan last q (Z.max sne (p_sn p) + 1)) as [[nq pa] fa]. destruct IH as [I1 I2].
    pose proof (zlen_nonneg (zrange sne (p_sn p - sne))). split; [lia|]. intros E.
    assert (Z0 : zlen (zrange sne (p_sn p - sne)) = 0) by lia.
    rewrite (zlen_zero_nil _ Z0). cbn [map app]. rewrite I2 by lia. reflexivity.
Qed.

Lemma fill_loop_fresh nchan last q : forall sne,
  pinc (sne - 1) q -> last < sne -> (forall p, In p q -> frames p = fpp) ->
  fill_loop nchan last q sne =
  (map (slot_packet nchan q) (zrange sne (newest q (sne - 1) - (sne - 1))),
   newest q (sne - 1) - (sne - 1) - zlen q,
   (newest q (sne - 1) - (sne - 1) - zlen q) * fpp).
Proof.
  induction q as [|p q IH]; intros sne HP Hl Hf; cbn [fill_loop].
  - change (newest [] (sne - 1)) with (sne - 1). change (zlen (@nil packet)) with 0.
    rewrite zrange_nil by lia. cbn [map]. f_equal; [f_equal|]; lia.
  - cbn [pinc] in HP. destruct HP as [P1 P2].
    assert (E : p_sn p <=? last = false) by lia. rewrite E.
    replace (Z.max sne (p_sn p) + 1) with (p_sn p + 1) by lia.
    rewrite IH; [| now replace (p_sn p + 1 - 1) with (p_sn p) by lia | lia | intros; apply Hf; now right].
    replace (p_sn p + 1 - 1) with (p_sn p) by lia.
    rewrite newest_cons, zlen_cons.
    destruct (pinc_newest _ _ P2) as [N1 _].
    rewrite (zrange_split sne (newest q (p_sn p) - (sne - 1)) (p_sn p - sne)) by lia.
    rewrite (zrange_cons (sne + (p_sn p - sne))) by lia.
    replace (sne + (p_sn p - sne)) with (p_sn p) by lia.
    replace (newest q (p_sn p) - (sne - 1) - (p_sn p - sne) - 1) with (newest q (p_sn p) - p_sn p) by lia.
    rewrite map_app. cbn [map]. rewrite zrange_length. rewrite (Hf p (or_introl eq_refl)).
    f_equal; [f_equal|].
    + f_equal; [|f_equal].
      * apply map_ext_in. intros s Hs. apply in_zrange in Hs. unfold slot_packet, source_of. cbn [find].
        assert (E1 : s <=? p_sn p = true) by lia. rewrite E1.
        assert (E2 : p_sn p =? s = false) by lia. now rewrite E2.
      * unfold slot_packet, source_of. cbn [find]. rewrite Z.leb_refl, Z.eqb_refl. reflexivity.
      * apply map_ext_in. intros s Hs. apply in_zrange in Hs. unfold slot_packet, source_of. cbn [find].
        assert (E1 : s <=? p_sn p = false) by lia. now rewrite E1.
    + lia.
    + replace (Z.max 0 (p_sn p - sne)) with (p_sn p - sne) by lia. ring.
Qed.

Lemma newest_slots F a n d : newest (slots F a n) d = if n <=? 0 then d else a + n - 1.
Proof.
  unfold slots. destruct (n <=? 0) eqn:E.
  - rewrite zrange_nil by lia. reflexivity.
  - replace n with ((n - 1) + 1) at 1 by lia. rewrite zrange_snoc by lia.
    rewrite map_app, newest_app. cbn [map]. rewrite newest_cons, newest_nil, slot_packet_sn. lia.
Qed.

Lemma slots_sn_le F a n p : In p (slots F a n) -> a <= p_sn p < a + n.
Proof.
  unfold slots. intros H. apply in_map_iff in H as [s [<- Hs]]. rewrite slot_packet_sn. now apply in_zrange.
Qed.

Lemma GInv_filled_arrU g gh seen : GInv g gh seen -> gh_F gh = arrivals gi seen ->
  g_queue g = slots (gh_F gh) (gh_c gh + 1) (g_last g - gh_c gh).
Proof.
  intros (_ & _ & _ & arrU & A1 & A2 & A3 & A4) HF. rewrite HF in A1 at 1.
  assert (arrU = []). { apply (app_inv_head (gh_F gh)). rewrite app_nil_r. congruence. }
  subst arrU. now rewrite app_nil_r in A4.
Qed.

Lemma fill_missing_spec g gh seen : GValid seen -> GInv g gh seen ->
  let gh' := {| gh_c := gh_c gh; gh_F := arrivals gi seen |} in
  let '(g', pa, fa) := fill_missing g in
  GInv g' gh' seen /\ fa = fpp * (mf gi gh' - mf gi gh).
Proof.
  intros [HV1 HV2] (H1 & H2 & H3 & arrU & A1 & A2 & A3 & A4). cbn zeta.
  rewrite A1 in HV1. apply pinc_app in HV1 as [PF PU]. rewrite <- A2 in PU.
  assert (WF : forall p, In p (gh_F gh) -> wf p) by (intros; apply HV2; rewrite A1; apply in_or_app; auto).
  assert (WU : forall p, In p arrU -> wf p) by (intros; apply HV2; rewrite A1; apply in_or_app; auto).
  unfold fill_missing. destruct (g_queue g) as [|q0 qr] eqn:EQ.
  - (* empty queue: nothing arrived since the last fill *)
    symmetry in A4. apply app_eq_nil in A4 as [Q1 Q2]. subst arrU. rewrite app_nil_r in A1.
    split.
    + repeat split; auto. exists []. cbn [gh_c gh_F]. rewrite !app_nil_r. rewrite A1.
      repeat split; auto; try lia. now rewrite Q1.
    + unfold mf. cbn [gh_F]. rewrite A1. lia.
  - rewrite <- EQ in A4 |- *. clear EQ q0 qr. rewrite A4, H2.
    rewrite fill_loop_skip by (intros p Hp; apply slots_sn_le in Hp; lia).
    rewrite (fill_loop_fresh (gi_nchan gi) (g_last g) arrU (g_last g + 1));
      [| now replace (g_last g + 1 - 1) with (g_last g) by lia | lia | intros; apply wf_frames; auto].
    replace (g_last g + 1 - 1) with (g_last g) by lia.
    pose proof (fill_loop_nogap (gi_nchan gi) (g_last g) arrU (g_last g + 1)) as NG.
    rewrite (fill_loop_fresh (gi_nchan gi) (g_last g) arrU (g_last g + 1)) in NG;
      [| now replace (g_last g + 1 - 1) with (g_last g) by lia | lia | intros; apply wf_frames; auto].
    replace (g_last g + 1 - 1) with (g_last g) in NG by lia. destruct NG as [NG1 NG2].
    set (L' := newest arrU (g_last g)) in *.
    set (nq := map (slot_packet (gi_nchan gi) arrU) (zrange (g_last g + 1) (L' - g_last g))) in *.
    destruct (pinc_newest _ _ PU) as [N1 N2]. fold L' in N1, N2.
    (* the new queue, whichever branch of "if packetsAdded > 0" is taken *)
    assert (EQ : (if L' - g_last g - zlen arrU >? 0
                  then slots (gh_F gh) (gh_c gh + 1) (g_last g - gh_c gh) ++ nq
                  else slots (gh_F gh) (gh_c gh + 1) (g_last g - gh_c gh) ++ arrU)
                 = slots (gh_F gh) (gh_c gh + 1) (g_last g - gh_c gh) ++ nq).
    { destruct (L' - g_last g - zlen arrU >? 0) eqn:E; auto. rewrite NG2 by lia. reflexivity. }
    rewrite EQ. clear EQ.
    assert (EL : last_sn (slots (gh_F gh) (gh_c gh + 1) (g_last g - gh_c gh) ++ nq) (g_last g) = L').
    { rewrite last_sn_newest, newest_app, newest_slots.
      assert (E0 : newest nq (g_last g) = L').
      { unfold nq. fold (slots arrU (g_last g + 1) (L' - g_last g)). rewrite newest_slots.
        destruct (L' - g_last g <=? 0) eqn:E; lia. }
      destruct (g_last g - gh_c gh <=? 0) eqn:E; [exact E0|].
      replace (gh_c gh + 1 + (g_last g - gh_c gh) - 1) with (g_last g) by lia. exact E0. }
    rewrite EL. split.
    + unfold GInv. cbn [g_off g_nchan g_sync g_last g_queue set_queue_last gh_c gh_F].
      repeat split; auto. exists []. rewrite !app_nil_r.
      assert (EN : newest (arrivals gi seen) (last0 gi) = L').
      { rewrite A1, newest_app, <- A2. reflexivity. }
      rewrite EN. repeat split; auto; try lia.
      unfold slots. rewrite (zrange_split (gh_c gh + 1) (L' - gh_c gh) (g_last g - gh_c gh)) by lia.
      rewrite map_app. f_equal.
      * apply map_ext_in. intros s Hs. apply in_zrange in Hs. rewrite A1.
        symmetry. apply slot_packet_app_l with (lo := last0 gi); auto. lia.
      * replace (gh_c gh + 1 + (g_last g - gh_c gh)) with (g_last g + 1) by lia.
        replace (L' - gh_c gh - (g_last g - gh_c gh)) with (L' - g_last g) by lia.
        unfold nq. apply map_ext_in. intros s Hs. apply in_zrange in Hs. rewrite A1.
        symmetry. apply slot_packet_app_r with (lo := last0 gi); auto. lia.
    + unfold mf. cbn [gh_F]. rewrite A1 at 1 2. rewrite newest_app, zlen_app, <- A2. fold L'. lia.
Qed.

(* first global sequence number of a queue that has been filled *)
Lemma first_seqnum_filled g gh seen : GInv g gh seen -> gh_F gh = arrivals gi seen ->
  first_seqnum g = if g_last g <=? gh_c gh then None else Some (gh_c gh + 1 - sync0 gi).
Proof.
  intros HI HF. pose proof (GInv_filled_arrU _ _ _ HI HF) as EQ.
  destruct HI as (H1 & H2 & H3 & _). unfold first_seqnum. rewrite EQ. unfold slots.
  destruct (g_last g <=? gh_c gh) eqn:E.
  - rewrite zrange_nil by lia. reflexivity.
  - rewrite zrange_cons by lia. cbn [map]. rewrite slot_packet_sn, H3. reflexivity.
Qed.

(* ---- trimPacketsBefore / countSamplesInQueue ---- *)
Lemma trim_loop_slots F T : forall m a,
  trim_loop T (slots F a (Z.of_nat m))
  = slots F (Z.max a (Z.min T (a + Z.of_nat m))) (a + Z.of_nat m - Z.max a (Z.min T (a + Z.of_nat m))).
Proof.
  unfold slots. induction m as [|m IH]; intros a.
  - cbn [Z.of_nat]. rewrite !zrange_nil by lia. reflexivity.
  - rewrite Nat2Z.inj_succ. rewrite (zrange_cons a) by lia. cbn [map trim_loop].
    rewrite slot_packet_sn. replace (Z.succ (Z.of_nat m) - 1) with (Z.of_nat m) by lia.
    destruct (a >=? T) eqn:E.
    + replace (Z.max a (Z.min T (a + Z.succ (Z.of_nat m)))) with a by lia.
      replace (a + Z.succ (Z.of_nat m) - a) with (Z.succ (Z.of_nat m)) by lia.
      rewrite (zrange_cons a) by lia. cbn [map].
      now replace (Z.succ (Z.of_nat m) - 1) with (Z.of_nat m) by lia.
    + rewrite IH. f_equal. f_equal; lia.
Qed.

Lemma count_slots F lo a n : pinc lo F -> (forall p, In p F -> wf p) -> lo < a -> a + n - 1 <= newest F lo ->
  fold_right (fun p acc => zlen (p_data p) + acc) 0 (slots F a n) = Z.max 0 n * (fpp * gi_nchan gi).
Proof.
  intros HF Hw Ha Hn. unfold slots, zrange. remember (Z.to_nat n) as m eqn:Em.
  assert (Hm : a + Z.of_nat m - 1 <= newest F lo \/ m = O) by lia.
  replace (Z.max 0 n) with (Z.of_nat m) by lia. clear Em Hn n.
  revert a Ha Hm; induction m as [|m IH]; intros a Ha Hm; [reflexivity|].
  cbn [zrange_nat map fold_right]. rewrite IH by lia.
  assert (W : wf (slot_packet (gi_nchan gi) F a)) by (eapply slot_wf; eauto; lia).
  destruct W as (_ & _ & W). rewrite W. lia.
Qed.

Lemma trim_before_spec g gh seen firstSn : GValid seen -> GInv g gh seen -> gh_F gh = arrivals gi seen ->
  gh_c gh < g_last g ->
  let c' := Z.max (gh_c gh) (Z.min (firstSn - 1 + sync0 gi) (g_last g)) in
  exists g', trim_before g firstSn = Ok g' /\ g_last g' = g_last g
    /\ GInv g' {| gh_c := c'; gh_F := gh_F gh |} seen
    /\ count_samples g' = fpp * (g_last g - c').
Proof.
  intros [HV1 HV2] HI HF Hne. pose proof (GInv_filled_arrU _ _ _ HI HF) as EQ.
  destruct HI as (H1 & H2 & H3 & arrU & A1 & A2 & A3 & A4). cbn zeta.
  set (c' := Z.max (gh_c gh) (Z.min (firstSn - 1 + sync0 gi) (g_last g))).
  assert (TR : trim_loop (firstSn + g_sync g) (g_queue g) = slots (gh_F gh) (c' + 1) (g_last g - c')).
  { rewrite EQ. replace (g_last g - gh_c gh) with (Z.of_nat (Z.to_nat (g_last g - gh_c gh))) by lia.
    rewrite trim_loop_slots. rewrite H3. f_equal; unfold c'; lia. }
  assert (NE : exists q0 qr, g_queue g = q0 :: qr).
  { rewrite EQ. unfold slots. rewrite zrange_cons by lia. cbn [map]. eauto. }
  destruct NE as (q0 & qr & NE).
  unfold trim_before. rewrite NE. cbv beta iota. rewrite <- NE, TR.
  - eexists. split; [reflexivity|]. split; [reflexivity|]. split.
    + unfold GInv. cbn [g_off g_nchan g_sync g_last g_queue set_queue gh_c gh_F].
      repeat split; auto. exists []. rewrite app_nil_r. rewrite HF at 1. rewrite app_nil_r.
      repeat split; auto; unfold c'; lia.
    + unfold count_samples. cbn [g_queue g_nchan set_queue]. rewrite H2.
      rewrite HF in *.
      rewrite (count_slots (arrivals gi seen) (last0 gi)); auto; try (unfold c'; lia).
      replace (Z.max 0 (g_last g - c')) with (g_last g - c') by (unfold c'; lia).
      replace ((g_last g - c') * (fpp * gi_nchan gi)) with (fpp * (g_last g - c') * gi_nchan gi) by lia.
      apply Z.div_mul. lia.
Qed.

(* ---- demuxData ---- *)
Lemma demux_loop_slots g F lo : g_off g = gi_off gi -> g_nchan g = gi_nchan gi ->
  pinc lo F -> (forall p, In p F -> wf p) ->
  forall n a m, lo < a -> a + m - 1 <= newest F lo -> (Z.of_nat n <= m) ->
  demux_loop g (slots F a m) (Z.of_nat n * fpp)
  = Ok (slots F a (Z.of_nat n), slots F (a + Z.of_nat n) (m - Z.of_nat n), 0).
Proof.
  intros G1 G2 HF Hw. induction n as [|n IH]; intros a m Ha Hm Hn.
  - cbn [Z.of_nat Z.mul]. replace (a + 0) with a by lia. replace (m - 0) with m by lia.
    unfold slots at 2. rewrite (zrange_nil a 0) by lia. cbn [map].
    destruct (m <=? 0) eqn:E.
    + unfold slots. rewrite zrange_nil by lia. reflexivity.
    + unfold slots. rewrite zrange_cons by lia. cbn [map demux_loop].
      assert (W : wf (slot_packet (gi_nchan gi) F a)) by (eapply slot_wf; eauto; lia).
      pose proof (wf_frames _ W) as Fr. destruct W as (W1 & W2 & _).
      rewrite W1, W2, G1, G2, !Z.eqb_refl. cbn [andb negb]. rewrite Fr.
      assert (E1 : fpp >? 0 = true) by lia. now rewrite E1.
  - rewrite Nat2Z.inj_succ in *. unfold slots at 1. rewrite zrange_cons by lia. cbn [map demux_loop].
    assert (W : wf (slot_packet (gi_nchan gi) F a)) by (eapply slot_wf; eauto; lia).
    pose proof (wf_frames _ W) as Fr. destruct W as (W1 & W2 & _).
    rewrite W1, W2, G1, G2, !Z.eqb_refl. cbn [andb negb]. rewrite Fr.
    assert (E1 : fpp >? Z.succ (Z.of_nat n) * fpp = false) by nia. rewrite E1.
    replace (Z.succ (Z.of_nat n) * fpp - fpp) with (Z.of_nat n * fpp) by lia.
    fold (slots F (a + 1) (m - 1)). rewrite IH by lia.
    assert (S1 : slot_packet (gi_nchan gi) F a :: slots F (a + 1) (Z.of_nat n) = slots F a (Z.succ (Z.of_nat n))).
    { unfold slots. rewrite (zrange_cons a (Z.succ (Z.of_nat n))) by lia. cbn [map].
      now replace (Z.succ (Z.of_nat n) - 1) with (Z.of_nat n) by lia. }
    rewrite S1. replace (a + 1 + Z.of_nat n) with (a + Z.succ (Z.of_nat n)) by lia.
    replace (m - 1 - Z.of_nat n) with (m - Z.succ (Z.of_nat n)) by lia. reflexivity.
Qed.

(* samples of one channel taken from the packet in a slot = what the specification says about the slot *)
Lemma chan_of_slot F lo sn idx : pinc lo F -> (forall p, In p F -> wf p) -> lo < sn <= newest F lo ->
  0 <= idx < gi_nchan gi ->
  chan_of_packet (gi_nchan gi) idx (slot_packet (gi_nchan gi) F sn) = slot_chan fpp (gi_nchan gi) F sn idx.
Proof.
  intros HF Hw Hs Hi. destruct (source_of_some _ _ _ HF Hs) as [p [P1 [P2 P3]]].
  unfold slot_packet, slot_chan. rewrite P1. destruct (Hw p P2) as (W1 & W2 & W3).
  unfold chan_of_packet. destruct (p_sn p =? sn) eqn:E.
  - rewrite W3, Z.div_mul by lia. apply map_ext. intros k. unfold conv, raw16.
    now replace (idx + k * gi_nchan gi) with (k * gi_nchan gi + idx) by lia.
  - rewrite pretend_len, W3, Z.div_mul by lia. apply map_ext_in. intros k Hk. apply in_zrange in Hk.
    cbn [pretend p_wide p_data]. unfold conv, raw16.
    assert (EL : znth 0 (map (fun i => znth 0 (p_data p) (i mod gi_nchan gi)) (zrange 0 (zlen (p_data p)))) (idx + k * gi_nchan gi)
                 = znth 0 (p_data p) idx).
    { unfold znth at 1. assert (E0 : idx + k * gi_nchan gi <? 0 = false) by nia. rewrite E0.
      rewrite nth_map_lt with (d := 0).
      - unfold zrange. rewrite zrange_nat_nth.
        + replace (0 + Z.of_nat (Z.to_nat (idx + k * gi_nchan gi))) with (idx + k * gi_nchan gi) by nia.
          rewrite Z.mod_add by lia. rewrite Z.mod_small by lia. reflexivity.
        + rewrite W3. nia.
      - unfold zrange. rewrite zrange_nat_length, W3. nia. }
    now rewrite EL.
Qed.

Lemma demux_spec g gh seen n : GValid seen -> GInv g gh seen -> gh_F gh = arrivals gi seen ->
  0 <= n -> gh_c gh + n <= g_last g ->
  exists g', demux g (n * fpp) =
    Ok (g', map (fun idx => flat_map (fun s => slot_chan fpp (gi_nchan gi) (arrivals gi seen) s idx)
                                     (zrange (gh_c gh + 1) n))
                (zrange 0 (gi_nchan gi)))
    /\ g_last g' = g_last g
    /\ GInv g' {| gh_c := gh_c gh + n; gh_F := gh_F gh |} seen.
Proof.
  intros [HV1 HV2] HI HF Hn Hc. pose proof (GInv_filled_arrU _ _ _ HI HF) as EQ.
  destruct HI as (H1 & H2 & H3 & arrU & A1 & A2 & A3 & A4).
  unfold demux. rewrite EQ. rewrite HF in *.
  assert (DL := demux_loop_slots g (arrivals gi seen) (last0 gi) H1 H2 HV1 HV2 (Z.to_nat n)
                  (gh_c gh + 1) (g_last g - gh_c gh) ltac:(lia) ltac:(lia) ltac:(lia)).
  replace (Z.of_nat (Z.to_nat n)) with n in DL by lia. rewrite DL.
  assert (E0 : 0 >? 0 = false) by lia. rewrite E0. eexists. split; [|split].
  - f_equal. f_equal. rewrite H2. apply map_ext_in. intros idx Hidx. apply in_zrange in Hidx.
    unfold slots. rewrite flat_map_map. apply flat_map_ext_in. intros s Hs. apply in_zrange in Hs.
    apply chan_of_slot with (lo := last0 gi); auto; lia.
  - reflexivity.
  - unfold GInv. cbn [g_off g_nchan g_sync g_last g_queue set_queue gh_c gh_F].
    repeat split; auto; try lia. exists []. rewrite !app_nil_r. repeat split; auto; try lia.
    f_equal; lia.
Qed.

End Group.
