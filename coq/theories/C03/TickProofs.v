(* C03 — one tick of the reader loop: the source-level invariant and what the three loops do to it,
   for ANY visiting order of the two loops over the group map. *)
From Dastard Require Import Common.ZX C03.Model C03.Spec C03.Lemmas C03.GroupProofs.
From Coq Require Import ZifyBool ZifyNat.

Definition dgi : ginfo := {| gi_off := 0; gi_nchan := 1; gi_sampled := [] |}.
Definition dgh : ghost := {| gh_c := 0; gh_F := [] |}.

(* sum over the groups of the lost packets fillMissingPackets has seen *)
Definition mfs (gis : list ginfo) (ghs : list ghost) : Z :=
  zsum (map (fun i => mf (nth i gis dgi) (nth i ghs dgh)) (seq 0 (length gis))).

Lemma zsum_seq_change (f f' : nat -> Z) i : forall n a, (a <= i < a + n)%nat ->
  (forall j, j <> i -> f' j = f j) ->
  zsum (map f' (seq a n)) = zsum (map f (seq a n)) + (f' i - f i).
Proof.
  induction n as [|n IH]; intros a Hi Hj; [lia|]. cbn [seq map zsum fold_right].
  destruct (Nat.eq_dec a i) as [->|Hne].
  - assert (E : map f' (seq (Datatypes.S i) n) = map f (seq (Datatypes.S i) n)).
    { apply map_ext_in. intros j Hin. apply in_seq in Hin. apply Hj. lia. }
    rewrite E. fold (zsum (map f (seq (Datatypes.S i) n))). lia.
  - fold (zsum (map f' (seq (Datatypes.S a) n))). fold (zsum (map f (seq (Datatypes.S a) n))).
    rewrite IH by (auto; lia). rewrite Hj by auto. lia.
Qed.

Lemma zsum_seq_ext (f f' : nat -> Z) n a : (forall j, (a <= j < a + n)%nat -> f' j = f j) ->
  zsum (map f' (seq a n)) = zsum (map f (seq a n)).
Proof. intros H. f_equal. apply map_ext_in. intros j Hj. apply in_seq in Hj. apply H. lia. Qed.

Lemma map_nth_seq {A} (l : list A) d : map (fun i => nth i l d) (seq 0 (length l)) = l.
Proof.
  induction l as [|h t IH]; [reflexivity|]. cbn [length seq map nth]. f_equal.
  rewrite <- seq_shift, map_map. exact IH.
Qed.


(* three lists in step *)
Fixpoint All3 {A B C} (P : A -> B -> C -> Prop) (a : list A) (b : list B) (c : list C) : Prop :=
  match a, b, c with
  | [], [], [] => True
  | x :: a', y :: b', z :: c' => P x y z /\ All3 P a' b' c'
  | _, _, _ => False
  end.

Lemma All3_of_nth {A B C} (P : A -> B -> C -> Prop) da db dc : forall a b c,
  length b = length a -> length c = length a ->
  (forall i, (i < length a)%nat -> P (nth i a da) (nth i b db) (nth i c dc)) -> All3 P a b c.
Proof.
  induction a as [|x a IH]; intros [|y b] [|z c] L1 L2 H; cbn [length] in *; try discriminate; cbn [All3]; auto.
  split; [apply (H O); lia|]. apply IH; try lia. intros i Hi. apply (H (Datatypes.S i)). lia.
Qed.

Lemma nth_of_All3 {A B C} (P : A -> B -> C -> Prop) da db dc : forall a b c, All3 P a b c ->
  length b = length a /\ length c = length a /\
  forall i, (i < length a)%nat -> P (nth i a da) (nth i b db) (nth i c dc).
Proof.
  induction a as [|x a IH]; intros [|y b] [|z c] H; cbn [All3] in H; try contradiction; cbn [length].
  - repeat split; auto. intros; lia.
  - destruct H as [H0 H]. destruct (IH _ _ H) as (L1 & L2 & HN). repeat split; try lia.
    intros [|i] Hi; cbn [nth]; auto. apply HN. lia.
Qed.

(* ---- third loop: demux every group ---- *)
Lemma loop3_spec fpp seen C N : 0 < fpp -> 0 <= N -> forall gisL gs ghs,
  All3 (fun gi g gh => 0 < gi_nchan gi /\ GValid fpp gi seen /\ GInv gi g gh seen /\
                       gh_F gh = arrivals gi seen /\ gh_c gh = C + sync0 gi /\ gh_c gh + N <= g_last g)
       gisL gs ghs ->
  exists gs', loop3 gs (N * fpp)
              = Ok (gs', flat_map (fun gi => map (fun c => chan_range fpp gi seen c C (C + N)) (zrange 0 (gi_nchan gi))) gisL)
    /\ All3 (fun gi g gh => GInv gi g {| gh_c := gh_c gh + N; gh_F := gh_F gh |} seen /\ g_last g = C + sync0 gi + N + (g_last g - (C + sync0 gi + N)))
            gisL gs' ghs
    /\ All3 (fun _ g' g => g_last g' = g_last g) gisL gs' gs.
Proof.
  intros Hfpp HN. induction gisL as [|gi gisL IH]; intros [|g gs] [|gh ghs] H; cbn [All3] in H; try contradiction.
  - exists []. cbn. auto.
  - destruct H as [(Hnc & HV & HI & HF & Hc & Hl) H].
    destruct (demux_spec fpp Hfpp gi Hnc g gh seen N HV HI HF HN Hl) as (g' & D1 & D2 & D3).
    destruct (IH gs ghs H) as (gs' & L1 & L2 & L3).
    exists (g' :: gs'). cbn [loop3 flat_map All3]. rewrite D1, L1. split; [|split].
    + f_equal. f_equal. f_equal. apply map_ext. intros c. unfold chan_range.
      replace (C + N - C) with N by lia. rewrite Hc.
      replace (C + sync0 gi + 1) with (C + 1 + sync0 gi) by lia.
      rewrite <- zrange_shift, flat_map_map. reflexivity.
    + split; auto. split; [exact D3 | lia].
    + split; auto.
Qed.

Section Tick.
Variable inp : input.
Let fpp := i_fpp inp.
Let gis := i_groups inp.
Let n := length gis.

(* what valid_inputb says about the groups *)
Definition Static : Prop :=
  0 < fpp < 65536 /\ gis <> [] /\
  (forall gi, In gi gis -> 0 < gi_nchan gi /\ 0 <= sync0 gi <= last0 gi) /\
  distinct_keys gis = true.

(* ... and about the packets seen so far *)
Definition HValid (seen : list packet) : Prop :=
  (forall gi, In gi gis -> GValid fpp gi seen) /\
  (forall p, In p seen -> (exists gi, In gi gis /\ belongs gi p = true) /\ p_sn p < 4294967296).

Hypothesis HS : Static.

Lemma nth_gis_in i : (i < n)%nat -> In (nth i gis dgi) gis.
Proof. intros. apply nth_In. exact H. Qed.

Lemma distinct_keys_nth : forall (l : list ginfo) i j, distinct_keys l = true ->
  (i < length l)%nat -> (j < length l)%nat -> i <> j -> same_key (nth i l dgi) (nth j l dgi) = false.
Proof.
  induction l as [|h t IH]; intros i j HD Hi Hj Hne; cbn [length] in *; [lia|].
  cbn [distinct_keys] in HD. apply andb_true_iff in HD as [D1 D2]. rewrite forallb_forall in D1.
  destruct i as [|i], j as [|j]; cbn [nth]; try lia.
  - assert (Hj' : (j < length t)%nat) by lia.
    specialize (D1 (nth j t dgi) (nth_In t dgi Hj')). now apply negb_true_iff in D1.
  - assert (Hi' : (i < length t)%nat) by lia.
    specialize (D1 (nth i t dgi) (nth_In t dgi Hi')). apply negb_true_iff in D1.
    unfold same_key in *. rewrite (Z.eqb_sym (gi_off (nth i t dgi))), (Z.eqb_sym (gi_nchan (nth i t dgi))). exact D1.
  - apply IH; auto; lia.
Qed.

Lemma belongs_unique i j p : (i < n)%nat -> (j < n)%nat ->
  belongs (nth i gis dgi) p = true -> belongs (nth j gis dgi) p = true -> i = j.
Proof.
  intros Hi Hj B1 B2. destruct (Nat.eq_dec i j) as [|Hne]; auto. exfalso.
  destruct HS as (_ & _ & _ & HD). pose proof (distinct_keys_nth gis i j HD Hi Hj Hne) as SK.
  unfold belongs, same_key in *. lia.
Qed.

(* the static part of the correspondence between model groups and the input's groups *)
Definition keys_ok (gs : list group) : Prop :=
  length gs = n /\ forall i, (i < n)%nat -> g_off (nth i gs dgroup) = gi_off (nth i gis dgi)
                                       /\ g_nchan (nth i gs dgroup) = gi_nchan (nth i gis dgi).

Lemma find_group_first : forall gs p i, find_group gs p = Some i ->
  (i < length gs)%nat /\ (p_off p =? g_off (nth i gs dgroup)) && (p_nchan p =? g_nchan (nth i gs dgroup)) = true.
Proof.
  induction gs as [|g gs IH]; intros p i H; cbn [find_group] in H; [discriminate|].
  destruct ((p_off p =? g_off g) && (p_nchan p =? g_nchan g)) eqn:E.
  - inversion H; subst. cbn [length nth]. split; [lia | exact E].
  - destruct (find_group gs p) as [k|] eqn:F; cbn [option_map] in H; [|discriminate].
    inversion H; subst. destruct (IH p k F) as [I1 I2]. cbn [length nth]. split; [lia | exact I2].
Qed.
Lemma find_group_some : forall gs p i, (i < length gs)%nat ->
  (p_off p =? g_off (nth i gs dgroup)) && (p_nchan p =? g_nchan (nth i gs dgroup)) = true ->
  exists k, find_group gs p = Some k.
Proof.
  induction gs as [|g gs IH]; intros p i Hi H; cbn [length] in Hi; [lia|]. cbn [find_group].
  destruct ((p_off p =? g_off g) && (p_nchan p =? g_nchan g)) eqn:E; [eauto|].
  destruct i as [|i]; cbn [nth] in H; [congruence|].
  destruct (IH p i ltac:(lia) H) as [k Hk]. rewrite Hk. cbn. eauto.
Qed.

Lemma find_group_spec gs p i : keys_ok gs -> (i < n)%nat -> belongs (nth i gis dgi) p = true ->
  find_group gs p = Some i.
Proof.
  intros [KL KO] Hi HB. destruct (KO i Hi) as [K1 K2].
  destruct (find_group_some gs p i) as [k Hk]; [lia | unfold belongs in HB; now rewrite K1, K2 |].
  destruct (find_group_first gs p k Hk) as [F1 F2]. rewrite KL in F1. destruct (KO k F1) as [K3 K4].
  rewrite K3, K4 in F2. fold (belongs (nth k gis dgi) p) in F2.
  now rewrite (belongs_unique i k p Hi F1 HB F2).
Qed.

Definition add_arrivals (gs : list group) (b : list packet) (i : nat) : group :=
  let g := nth i gs dgroup in set_queue g (g_queue g ++ arrivals (nth i gis dgi) b).

Lemma distribute_spec : forall b gs, keys_ok gs ->
  (forall p, In p b -> exists gi, In gi gis /\ belongs gi p = true) ->
  exists gs', distribute gs b = Ok gs' /\ keys_ok gs' /\
              forall i, (i < n)%nat -> nth i gs' dgroup = add_arrivals gs b i.
Proof.
  induction b as [|p b IH]; intros gs KO HB.
  - exists gs. split; [reflexivity|]. split; auto. intros i Hi. unfold add_arrivals, arrivals. cbn [filter].
    rewrite app_nil_r. destruct (nth i gs dgroup); reflexivity.
  - destruct (HB p (or_introl eq_refl)) as [gi [Gin Gb]].
    destruct (In_nth _ _ dgi Gin) as [i [Hi Ei]]. fold n in Hi. subst gi.
    cbn [distribute]. rewrite (find_group_spec gs p i KO Hi Gb).
    set (gs1 := upd gs i (set_queue (nth i gs dgroup) (g_queue (nth i gs dgroup) ++ [p]))).
    assert (KO1 : keys_ok gs1).
    { destruct KO as [KL KK]. split; [unfold gs1; now rewrite upd_length|]. intros j Hj. unfold gs1.
      destruct (Nat.eq_dec i j) as [<-|Hne].
      - rewrite nth_upd_eq by lia. cbn. apply KK; auto.
      - rewrite nth_upd_neq by auto. apply KK; auto. }
    destruct (IH gs1 KO1 ltac:(intros; apply HB; now right)) as [gs' [D1 [D2 D3]]].
    exists gs'. split; auto. split; auto. intros j Hj. rewrite D3 by auto. unfold add_arrivals, gs1.
    destruct KO as [KL KK].
    destruct (Nat.eq_dec i j) as [<-|Hne].
    + rewrite nth_upd_eq by lia. unfold arrivals. cbn [filter]. rewrite Gb. cbn [set_queue g_queue].
      now rewrite <- app_assoc.
    + rewrite nth_upd_neq by auto. unfold arrivals. cbn [filter].
      destruct (belongs (nth j gis dgi) p) eqn:E; auto.
      exfalso. apply Hne. eapply belongs_unique; eauto.
Qed.

(* ---- the invariant of the source ---- *)
Definition GAll (gs : list group) (ghs : list ghost) (seen : list packet) : Prop :=
  length gs = n /\ length ghs = n /\
  forall i, (i < n)%nat -> GInv (nth i gis dgi) (nth i gs dgroup) (nth i ghs dgh) seen.

Definition glob (ghs : list ghost) (i : nat) : Z := gh_c (nth i ghs dgh) - sync0 (nth i gis dgi).
Definition filled (ghs : list ghost) (seen : list packet) (i : nat) : Prop :=
  gh_F (nth i ghs dgh) = arrivals (nth i gis dgi) seen.
Definition newest_i (seen : list packet) (i : nat) : Z :=
  newest (arrivals (nth i gis dgi) seen) (last0 (nth i gis dgi)).

Definition SInv (st : src) (ghs : list ghost) (seen : list packet) (C rep : Z) : Prop :=
  GAll (s_groups st) ghs seen /\
  (forall i, (i < n)%nat -> glob ghs i <= C) /\
  (exists m, (m < n)%nat /\ glob ghs m = C) /\
  s_pend st = fpp * (mfs gis ghs - rep).

Lemma GAll_last gs ghs seen i : GAll gs ghs seen -> (i < n)%nat -> filled ghs seen i ->
  g_last (nth i gs dgroup) = newest_i seen i.
Proof.
  intros (_ & _ & G) Hi HF. destruct (G i Hi) as (_ & _ & _ & arrU & A1 & A2 & _).
  unfold newest_i. rewrite A2. unfold filled in HF. now rewrite HF.
Qed.

Lemma mfs_upd ghs i gh : length ghs = n -> (i < n)%nat ->
  mfs gis (upd ghs i gh) = mfs gis ghs + (mf (nth i gis dgi) gh - mf (nth i gis dgi) (nth i ghs dgh)).
Proof.
  intros HL Hi. unfold mfs.
  rewrite (zsum_seq_change (fun j => mf (nth j gis dgi) (nth j ghs dgh))
                           (fun j => mf (nth j gis dgi) (nth j (upd ghs i gh) dgh)) i).
  - rewrite nth_upd_eq by lia. reflexivity.
  - fold n. lia.
  - intros j Hj. rewrite nth_upd_neq by auto. reflexivity.
Qed.

(* ---- first loop ---- *)
Lemma loop1_spec seen : HValid seen -> forall o gs ghs fs d,
  GAll gs ghs seen -> (forall i, In i o -> (i < n)%nat) ->
  exists gs' ghs' fs' d' b,
    loop1 fill_missing gs o fs d = (gs', fs', d', b) /\
    GAll gs' ghs' seen /\
    (forall i, (i < n)%nat -> gh_c (nth i ghs' dgh) = gh_c (nth i ghs dgh)) /\
    (forall i, (i < n)%nat -> filled ghs seen i -> filled ghs' seen i) /\
    d' = d + fpp * (mfs gis ghs' - mfs gis ghs) /\
    (b = false -> exists i, (i < n)%nat /\ filled ghs' seen i /\ newest_i seen i <= gh_c (nth i ghs' dgh)) /\
    (b = true ->
       (forall i, In i o -> filled ghs' seen i /\ gh_c (nth i ghs' dgh) < newest_i seen i
                            /\ glob ghs' i + 1 <= fs') /\
       fs <= fs' /\ (fs' = fs \/ exists i, In i o /\ fs' = glob ghs' i + 1)).
Proof.
  intros [HV _]. induction o as [|i o IH]; intros gs ghs fs d GA Ho.
  - exists gs, ghs, fs, d, true. cbn [loop1]. split; [reflexivity|]. split; [exact GA|].
    split; [auto|]. split; [auto|]. split; [lia|]. split; [discriminate|].
    intros _. split; [intros ? []|]. split; [lia | now left].
  - assert (Hi : (i < n)%nat) by (apply Ho; now left).
    destruct GA as (L1 & L2 & G). cbn [loop1].
    destruct HS as (_ & _ & HG & _). destruct (HG _ (nth_gis_in i Hi)) as [Hnc _].
    pose proof (fill_missing_spec fpp _ Hnc _ _ _ (HV _ (nth_gis_in i Hi)) (G i Hi)) as FS. cbn zeta in FS.
    destruct (fill_missing (nth i gs dgroup)) as [[g' pa] fa]. destruct FS as [FG FA].
    set (gh' := {| gh_c := gh_c (nth i ghs dgh); gh_F := arrivals (nth i gis dgi) seen |}) in *.
    set (gs1 := upd gs i g'). set (ghs1 := upd ghs i gh').
    assert (GA1 : GAll gs1 ghs1 seen).
    { split; [unfold gs1; now rewrite upd_length|]. split; [unfold ghs1; now rewrite upd_length|].
      intros j Hj. unfold gs1, ghs1. destruct (Nat.eq_dec i j) as [<-|Hne].
      - rewrite !nth_upd_eq by lia. exact FG.
      - rewrite !nth_upd_neq by auto. apply G; auto. }
    assert (C1 : forall j, (j < n)%nat -> gh_c (nth j ghs1 dgh) = gh_c (nth j ghs dgh)).
    { intros j Hj. unfold ghs1. destruct (Nat.eq_dec i j) as [<-|Hne].
      - rewrite nth_upd_eq by lia. reflexivity.
      - now rewrite nth_upd_neq by auto. }
    assert (F1 : forall j, (j < n)%nat -> filled ghs seen j -> filled ghs1 seen j).
    { intros j Hj HF. unfold filled, ghs1 in *. destruct (Nat.eq_dec i j) as [<-|Hne].
      - rewrite nth_upd_eq by lia. reflexivity.
      - now rewrite nth_upd_neq by auto. }
    assert (Fi : filled ghs1 seen i) by (unfold filled, ghs1; rewrite nth_upd_eq by lia; reflexivity).
    assert (M1 : mfs gis ghs1 = mfs gis ghs + (mf (nth i gis dgi) gh' - mf (nth i gis dgi) (nth i ghs dgh)))
      by (apply mfs_upd; auto).
    pose proof (first_seqnum_filled _ _ _ _ FG eq_refl) as FSN.
    assert (Li : g_last g' = newest_i seen i).
    { replace g' with (nth i gs1 dgroup) by (unfold gs1; now rewrite nth_upd_eq by lia).
      apply (GAll_last gs1 ghs1); auto. }
    unfold gh' in FSN. cbn [gh_c] in FSN. fold gs1. rewrite FSN, Li.
    destruct (newest_i seen i <=? gh_c (nth i ghs dgh)) eqn:E.
    + (* this group has nothing: the tick is abandoned *)
      exists gs1, ghs1, fs, (d + fa), false. split; [reflexivity|]. split; [exact GA1|].
      split; [exact C1|]. split; [exact F1|]. split; [rewrite M1, FA; lia|]. split; [|discriminate].
      intros _. exists i. split; auto. split; auto. rewrite C1 by auto. lia.
    + destruct (IH gs1 ghs1 (if gh_c (nth i ghs dgh) + 1 - sync0 (nth i gis dgi) >? fs
                             then gh_c (nth i ghs dgh) + 1 - sync0 (nth i gis dgi) else fs) (d + fa) GA1
                   ltac:(intros; apply Ho; now right))
        as (gs' & ghs' & fs' & d' & b & R1 & R2 & R3 & R4 & R5 & R6 & R7).
      exists gs', ghs', fs', d', b. rewrite R1. split; [reflexivity|]. split; auto.
      split; [intros j Hj; rewrite R3, C1; auto|].
      split; [intros j Hj HF; apply R4; auto|].
      split; [rewrite R5, M1, FA; lia|].
      split; [exact R6|].
      intros Hb. destruct (R7 Hb) as (Q1 & Q2 & Q3).
      assert (Gi : glob ghs' i = gh_c (nth i ghs dgh) - sync0 (nth i gis dgi))
        by (unfold glob; rewrite R3, C1; auto).
      split; [|split].
      * intros j [<-|Hj]; [|apply Q1; auto].
        split; [apply R4; auto|]. split; [rewrite R3, C1 by auto; lia|]. rewrite Gi.
        destruct (gh_c (nth i ghs dgh) + 1 - sync0 (nth i gis dgi) >? fs) eqn:E3; lia.
      * destruct (gh_c (nth i ghs dgh) + 1 - sync0 (nth i gis dgi) >? fs) eqn:E3; lia.
      * destruct Q3 as [Q3|[j [Hj Q3]]].
        -- destruct (gh_c (nth i ghs dgh) + 1 - sync0 (nth i gis dgi) >? fs) eqn:E2; [|now left].
           right. exists i. split; [now left|]. rewrite Gi. lia.
        -- right. exists j. split; [now right | exact Q3].
Qed.

(* ---- second loop ---- *)
Lemma loop2_spec seen firstSn : HValid seen -> forall o gs ghs m,
  GAll gs ghs seen -> NoDup o -> (forall i, (i < n)%nat -> filled ghs seen i) ->
  (forall i, In i o -> (i < n)%nat /\ gh_c (nth i ghs dgh) < newest_i seen i) ->
  exists gs' ghs' m',
    loop2 gs o firstSn m = Ok (gs', m') /\
    GAll gs' ghs' seen /\
    (forall i, (i < n)%nat -> gh_F (nth i ghs' dgh) = gh_F (nth i ghs dgh)) /\
    (forall i, In i o -> gh_c (nth i ghs' dgh)
                         = Z.max (gh_c (nth i ghs dgh)) (Z.min (firstSn - 1 + sync0 (nth i gis dgi)) (newest_i seen i))) /\
    (forall i, (i < n)%nat -> ~ In i o -> nth i ghs' dgh = nth i ghs dgh) /\
    m' <= m /\
    (forall i, In i o -> m' <= fpp * (newest_i seen i - gh_c (nth i ghs' dgh))) /\
    (m' = m \/ exists i, In i o /\ m' = fpp * (newest_i seen i - gh_c (nth i ghs' dgh))).
Proof.
  intros [HV _]. induction o as [|i o IH]; intros gs ghs m GA ND HF Ho.
  - exists gs, ghs, m. cbn [loop2]. split; [reflexivity|]. split; [exact GA|]. split; [auto|].
    split; [intros ? []|]. split; [auto|]. split; [lia|]. split; [intros ? []| now left].
  - inversion ND as [|? ? Hni ND']; subst.
    destruct (Ho i (or_introl eq_refl)) as [Hi Hne].
    pose proof GA as (L1 & L2 & G). cbn [loop2].
    destruct HS as (_ & _ & HG & _). destruct (HG _ (nth_gis_in i Hi)) as [Hnc _].
    pose proof (GAll_last gs ghs seen i GA Hi (HF i Hi)) as Li.
    destruct (trim_before_spec fpp _ Hnc _ _ _ firstSn (HV _ (nth_gis_in i Hi)) (G i Hi) (HF i Hi) ltac:(lia))
      as (g' & T1 & T2 & T3 & T4).
    rewrite T1. rewrite Li in *.
    set (c' := Z.max (gh_c (nth i ghs dgh)) (Z.min (firstSn - 1 + sync0 (nth i gis dgi)) (newest_i seen i))) in *.
    set (gh' := {| gh_c := c'; gh_F := gh_F (nth i ghs dgh) |}) in *.
    set (gs1 := upd gs i g'). set (ghs1 := upd ghs i gh').
    assert (GA1 : GAll gs1 ghs1 seen).
    { split; [unfold gs1; now rewrite upd_length|]. split; [unfold ghs1; now rewrite upd_length|].
      intros j Hj. unfold gs1, ghs1. destruct (Nat.eq_dec i j) as [<-|Hne'].
      - rewrite !nth_upd_eq by lia. exact T3.
      - rewrite !nth_upd_neq by auto. apply G; auto. }
    assert (N1 : forall j, j <> i -> nth j ghs1 dgh = nth j ghs dgh)
      by (intros j Hj; unfold ghs1; now rewrite nth_upd_neq by auto).
    assert (Ni : nth i ghs1 dgh = gh') by (unfold ghs1; now rewrite nth_upd_eq by lia).
    assert (HF1 : forall j, (j < n)%nat -> filled ghs1 seen j).
    { intros j Hj. unfold filled. destruct (Nat.eq_dec j i) as [->|Hne'].
      - rewrite Ni. cbn [gh_F]. apply HF; auto.
      - rewrite N1 by auto. apply HF; auto. }
    assert (Ho1 : forall j, In j o -> (j < n)%nat /\ gh_c (nth j ghs1 dgh) < newest_i seen j).
    { intros j Hj. assert (j <> i) by (intros ->; contradiction). rewrite N1 by auto. apply Ho. now right. }
    destruct (IH gs1 ghs1 (if count_samples g' <? m then count_samples g' else m) GA1 ND' HF1 Ho1)
      as (gs' & ghs' & m' & R1 & R2 & R3 & R4 & R5 & R6 & R7 & R8).
    exists gs', ghs', m'. split; [exact R1|]. split; [exact R2|].
    assert (Ei : nth i ghs' dgh = gh') by (rewrite R5 by auto; exact Ni).
    split; [|split; [|split; [|split; [|split]]]].
    + intros j Hj. rewrite R3 by auto. destruct (Nat.eq_dec j i) as [->|Hne'].
      * now rewrite Ni.
      * now rewrite N1.
    + intros j [<-|Hj].
      * rewrite Ei. reflexivity.
      * assert (j <> i) by (intros ->; contradiction). rewrite R4 by auto. now rewrite N1 by auto.
    + intros j Hj Hnj. assert (j <> i) by (intros ->; apply Hnj; now left).
      rewrite R5; auto. intros Hin; apply Hnj; now right.
    + destruct (count_samples g' <? m) eqn:E; lia.
    + intros j [<-|Hj]; [|apply R7; auto]. rewrite Ei. unfold gh'. cbn [gh_c]. rewrite T4 in R6.
      destruct (fpp * (newest_i seen i - c') <? m) eqn:E; lia.
    + destruct R8 as [R8|[j [Hj R8]]].
      * rewrite T4 in R8. destruct (fpp * (newest_i seen i - c') <? m) eqn:E; [|now left].
        right. exists i. split; [now left|]. rewrite Ei. unfold gh'. cbn [gh_c]. exact R8.
      * right. exists j. split; [now right | exact R8].
Qed.

(* ---- facts about avail / total_missing in terms of positions ---- *)
Lemma hi_nth seen i : hi (nth i gis dgi) seen = newest_i seen i - sync0 (nth i gis dgi).
Proof. reflexivity. Qed.

Lemma avail_le seen i : (i < n)%nat -> avail inp seen <= newest_i seen i - sync0 (nth i gis dgi).
Proof.
  intros Hi. unfold avail. fold gis.
  assert (NE : map (fun gi => hi gi seen) gis <> []).
  { destruct gis; [cbn in Hi; lia | discriminate]. }
  destruct (zmin_list_spec _ NE) as [_ H]. rewrite <- hi_nth. apply H.
  apply (in_map (fun gi => hi gi seen)). apply nth_In. exact Hi.
Qed.

Lemma avail_is seen : exists k, (k < n)%nat /\ avail inp seen = newest_i seen k - sync0 (nth k gis dgi).
Proof.
  unfold avail. fold gis.
  assert (NE : map (fun gi => hi gi seen) gis <> []).
  { destruct HS as (_ & H & _). destruct gis; [congruence | discriminate]. }
  destruct (zmin_list_spec _ NE) as [H _]. apply in_map_iff in H as [gi [E Hin]].
  destruct (In_nth _ _ dgi Hin) as [k [Hk Ek]]. exists k. split; auto. rewrite <- E, <- Ek. reflexivity.
Qed.

Lemma mfs_filled ghs seen : (forall i, (i < n)%nat -> filled ghs seen i) -> mfs gis ghs = total_missing inp seen.
Proof.
  intros HF. unfold mfs, total_missing. fold gis.
  transitivity (zsum (map (fun gi => missing gi seen) (map (fun i => nth i gis dgi) (seq 0 (length gis))))).
  - rewrite map_map. f_equal. apply map_ext_in.
    intros i Hi. apply in_seq in Hi. unfold mf, missing. rewrite (HF i) by (fold n in Hi; lia). reflexivity.
  - now rewrite map_nth_seq.
Qed.

(* ---- one tick ---- *)
Definition perm_ok (o : list nat) : Prop := NoDup o /\ forall i, In i o <-> (i < n)%nat.

Lemma HValid_bound seen i : HValid seen -> (i < n)%nat -> 0 <= sync0 (nth i gis dgi) <= last0 (nth i gis dgi)
  /\ last0 (nth i gis dgi) <= newest_i seen i /\ (newest_i seen i < 4294967296 \/ newest_i seen i = last0 (nth i gis dgi)).
Proof.
  intros [HV HB] Hi. destruct HS as (_ & _ & HG & _). destruct (HG _ (nth_gis_in i Hi)) as [_ HG2].
  destruct (HV _ (nth_gis_in i Hi)) as [P _]. destruct (pinc_newest _ _ P) as [N1 _].
  split; auto. split; auto. unfold newest_i.
  destruct (arrivals (nth i gis dgi) seen) as [|q0 qr] eqn:E using rev_ind; [now right|]. left.
  rewrite newest_app. cbn. assert (Hin : In q0 (arrivals (nth i gis dgi) seen)) by (rewrite E; apply in_or_app; right; now left).
  unfold arrivals in Hin. apply filter_In in Hin as [Hin _]. apply HB in Hin. tauto.
Qed.

Lemma tick_spec st ghs seen C rep batch o1 o2 :
  HValid (seen ++ batch) -> SInv st ghs seen C rep -> perm_ok o1 -> perm_ok o2 ->
  (forall i, (i < n)%nat -> last0 (nth i gis dgi) < 4294967296) ->
  let seen' := seen ++ batch in
  let a := avail inp seen' in
  exists st' ghs', s_next st' = s_next st /\
    if a >? C
    then tick st batch o1 o2
         = Ok (st', Some {| b_data := block_data inp seen' C a;
                            b_dropped := fpp * (total_missing inp seen' - rep) |})
         /\ SInv st' ghs' seen' a (total_missing inp seen')
    else tick st batch o1 o2 = Ok (st', None) /\ SInv st' ghs' seen' C rep.
Proof.
  intros HV (GA & CL & (mx & Hmx & Cmx) & PD) [ND1 P1] [ND2 P2] HL0. cbn zeta.
  set (seen' := seen ++ batch). set (a := avail inp seen').
  pose proof HS as (Hf & Hne & HG & HD). destruct GA as (L1 & L2 & G).
  (* distribute *)
  assert (KO : keys_ok (s_groups st)).
  { split; auto. intros i Hi. destruct (G i Hi) as (K1 & K2 & _). auto. }
  destruct (distribute_spec batch (s_groups st) KO) as (gs0 & D1 & [D2a D2b] & D3).
  { intros p Hp. destruct HV as [_ HB]. apply (HB p). apply in_or_app. now right. }
  assert (GA0 : GAll gs0 ghs seen').
  { split; auto. split; auto. intros i Hi. rewrite D3 by auto. apply GInv_arrive. apply G; auto. }
  unfold tick, tick_with. rewrite D1.
  (* first loop *)
  destruct (loop1_spec seen' HV o1 gs0 ghs 0 (s_pend st) GA0 ltac:(intros; now apply P1))
    as (gs1 & ghs1 & fs1 & d1 & b & R1 & GA1 & RC & _ & RD & RF & RT).
  rewrite R1.
  assert (CL1 : forall i, (i < n)%nat -> glob ghs1 i <= C) by (intros i Hi; unfold glob; rewrite RC by auto; apply CL; auto).
  assert (Cmx1 : glob ghs1 mx = C) by (unfold glob; rewrite RC by auto; exact Cmx).
  assert (PD1 : d1 = fpp * (mfs gis ghs1 - rep)) by (rewrite RD, PD; lia).
  assert (C0 : 0 <= C).
  { destruct (HValid_bound seen' mx HV Hmx) as (B1 & _). destruct GA1 as (_ & _ & G1).
    destruct (G1 mx Hmx) as (_ & _ & _ & arrU & _ & _ & A3 & _). unfold glob in Cmx1. lia. }
  destruct b; cbn [negb].
  2:{ (* some group is empty: abandoned *)
    destruct (RF eq_refl) as (i & Hi & Fi & Ei).
    assert (AC : a >? C = false).
    { pose proof (avail_le seen' i Hi). pose proof (CL1 i Hi). unfold glob in *. fold a in H. lia. }
    rewrite AC. eexists. exists ghs1. split; [|split; [reflexivity|]]; [reflexivity|].
    split; [exact GA1|]. split; [exact CL1|]. split; [exists mx; auto|]. cbn [s_pend]. exact PD1. }
  destruct (RT eq_refl) as (Q1 & Q2 & Q3).
  assert (FA : forall i, (i < n)%nat -> filled ghs1 seen' i) by (intros i Hi; apply Q1; now apply P1).
  assert (FS : fs1 = C + 1).
  { destruct (Q1 mx ltac:(now apply P1)) as (_ & _ & Q1m).
    destruct Q3 as [Q3|[j [Hj Q3]]]; [lia|]. pose proof (CL1 j ltac:(now apply P1)). lia. }
  subst fs1.
  (* second loop *)
  destruct (loop2_spec seen' (C + 1) HV o2 gs1 ghs1 max_int64 GA1 ND2 FA)
    as (gs2 & ghs2 & fr & S1 & GA2 & SF & SC & _ & Sm & Sle & Sin).
  { intros i Hi. split; [now apply P2|]. apply Q1. apply P1. now apply P2. }
  rewrite S1.
  assert (FA2 : forall i, (i < n)%nat -> filled ghs2 seen' i) by (intros i Hi; unfold filled; rewrite SF by auto; apply FA; auto).
  assert (SC' : forall i, (i < n)%nat -> gh_c (nth i ghs2 dgh)
                 = Z.max (gh_c (nth i ghs1 dgh)) (Z.min (C + sync0 (nth i gis dgi)) (newest_i seen' i))).
  { intros i Hi. rewrite SC by (now apply P2). f_equal. f_equal. lia. }
  assert (BND : forall i, (i < n)%nat -> fpp * (newest_i seen' i - gh_c (nth i ghs2 dgh)) < max_int64).
  { intros i Hi. destruct (HValid_bound seen' i HV Hi) as (B1 & B2 & B3). specialize (HL0 i Hi).
    destruct GA2 as (_ & _ & G2). destruct (G2 i Hi) as (_ & _ & _ & arrU & _ & _ & A3 & _).
    unfold max_int64. nia. }
  assert (FR : exists k, (k < n)%nat /\ fr = fpp * (newest_i seen' k - gh_c (nth k ghs2 dgh))).
  { destruct Sin as [E|[k [Hk E]]]; [|exists k; split; auto; now apply P2].
    exfalso. assert (H0 : (0 < n)%nat) by lia.
    pose proof (Sle O ltac:(now apply P2)). pose proof (BND O H0). lia. }
  assert (CL2 : forall i, (i < n)%nat -> glob ghs2 i <= C).
  { intros i Hi. unfold glob. rewrite SC' by auto. pose proof (CL1 i Hi). unfold glob in H. lia. }
  assert (Cmx2 : glob ghs2 mx = C).
  { unfold glob in *. rewrite SC' by auto. destruct (Q1 mx ltac:(now apply P1)) as (_ & Qm & _). lia. }
  assert (M2 : mfs gis ghs2 = mfs gis ghs1).
  { unfold mfs. apply zsum_seq_ext. intros j Hj. unfold mf. fold n in Hj. rewrite SF by lia. reflexivity. }
  destruct (fr <=? 0) eqn:EFR.
  { (* some group has nothing beyond C: abandoned *)
    destruct FR as (k & Hk & Ek).
    assert (AC : a >? C = false).
    { pose proof (avail_le seen' k Hk). fold a in H. rewrite SC' in Ek by auto.
      destruct (Q1 k ltac:(now apply P1)) as (_ & Qk & _). pose proof (CL1 k Hk). unfold glob in *. nia. }
    rewrite AC. eexists. exists ghs2. split; [|split; [reflexivity|]]; [reflexivity|].
    split; [exact GA2|]. split; [exact CL2|]. split; [exists mx; auto|]. cbn [s_pend]. rewrite M2. exact PD1. }
  (* a block is delivered *)
  assert (CE : forall i, (i < n)%nat -> gh_c (nth i ghs2 dgh) = C + sync0 (nth i gis dgi)
                                      /\ gh_c (nth i ghs2 dgh) < newest_i seen' i).
  { intros i Hi. pose proof (Sle i ltac:(now apply P2)). pose proof (CL1 i Hi). unfold glob in *.
    rewrite SC' in * by auto. split; nia. }
  destruct FR as (k & Hk & Ek).
  assert (AV : a = newest_i seen' k - sync0 (nth k gis dgi)).
  { destruct (avail_is seen') as (k' & Hk' & Ek'). fold a in Ek'. pose proof (avail_le seen' k Hk). fold a in H.
    pose proof (Sle k' ltac:(now apply P2)). destruct (CE k Hk), (CE k' Hk'). nia. }
  assert (AC : a >? C = true) by (destruct (CE k Hk); lia).
  rewrite AC.
  assert (EFr : fr = (a - C) * fpp) by (destruct (CE k Hk) as [E1 _]; rewrite Ek, E1, AV; lia).
  rewrite EFr.
  destruct (loop3_spec fpp seen' C (a - C) ltac:(lia) ltac:(lia) gis gs2 ghs2) as (gs3 & T1 & T2 & T3).
  { destruct GA2 as (L21 & L22 & G2). apply (All3_of_nth _ dgi dgroup dgh); auto.
    intros i Hi. fold n in Hi. destruct (CE i Hi) as [E1 E2].
    split; [apply HG, nth_gis_in; auto|]. split; [destruct HV as [HV1 _]; apply HV1, nth_gis_in; auto|].
    split; [apply G2; auto|]. split; [apply FA2; auto|]. split; [exact E1|].
    rewrite (GAll_last gs2 ghs2 seen' i) by (auto; split; auto).
    pose proof (avail_le seen' i Hi). fold a in H. lia. }
  replace (C + (a - C)) with a in T1 by lia. fold gis in T1. rewrite T1.
  fold (block_data inp seen' C a).
  set (ghs3 := map (fun gh => {| gh_c := gh_c gh + (a - C); gh_F := gh_F gh |}) ghs2).
  eexists. exists ghs3. split; [|split; [rewrite PD1, (mfs_filled ghs1 seen' FA); reflexivity|]]; [reflexivity|].
  destruct (nth_of_All3 _ dgi dgroup dgh _ _ _ T2) as (L31 & L32 & G3).
  assert (N3 : forall i, (i < n)%nat -> nth i ghs3 dgh = {| gh_c := gh_c (nth i ghs2 dgh) + (a - C); gh_F := gh_F (nth i ghs2 dgh) |}).
  { intros i Hi. unfold ghs3. destruct GA2 as (_ & L22 & _). rewrite nth_map_lt with (d := dgh) by lia. reflexivity. }
  cbn [s_groups s_pend].
  assert (FA3 : forall i, (i < n)%nat -> filled ghs3 seen' i).
  { intros i Hi. unfold filled. rewrite N3 by auto. cbn [gh_F]. apply FA2; auto. }
  split; [|split; [|split]].
  - split; [exact L31|]. split; [unfold ghs3; rewrite map_length; destruct GA2 as (_ & L22 & _); exact L22|].
    intros i Hi. rewrite N3 by auto. apply G3. exact Hi.
  - intros i Hi. unfold glob. rewrite N3 by auto. cbn [gh_c]. destruct (CE i Hi). lia.
  - exists mx. split; auto. unfold glob. rewrite N3 by auto. cbn [gh_c]. destruct (CE mx Hmx). lia.
  - rewrite (mfs_filled ghs3 seen' FA3). cbn [s_pend]. lia.
Qed.

End Tick.
