(* C03 — generic facts: updated lists, ranges, sums, minima, increasing packet lists, the packet that
   determines a slot. *)
From Dastard Require Import Common.ZX C03.Model C03.Spec.
From Coq Require Import ZifyBool ZifyNat.

(* ---------- upd ---------- *)
Lemma upd_length {A} (l : list A) i x : length (upd l i x) = length l.
Proof. revert i; induction l as [|h t IH]; intros [|i]; cbn; auto. Qed.

Lemma nth_upd_eq {A} (l : list A) i x d : (i < length l)%nat -> nth i (upd l i x) d = x.
Proof. revert i; induction l as [|h t IH]; intros [|i] H; cbn in *; try lia; auto. apply IH; lia. Qed.

Lemma nth_upd_neq {A} (l : list A) i j x d : i <> j -> nth j (upd l i x) d = nth j l d.
Proof.
  revert i j; induction l as [|h t IH]; intros [|i] [|j] H; cbn; auto; try congruence.
Qed.

Lemma map_upd {A B} (f : A -> B) (l : list A) i x : map f (upd l i x) = upd (map f l) i (f x).
Proof. revert i; induction l as [|h t IH]; intros [|i]; cbn; auto. now rewrite IH. Qed.

Lemma zsum_upd (l : list Z) i x : (i < length l)%nat -> zsum (upd l i x) = zsum l + (x - nth i l 0).
Proof.
  revert i; induction l as [|h t IH]; intros [|i] H; cbn in *; try lia.
  unfold zsum in *. rewrite IH by lia. lia.
Qed.

Lemma nth_map_lt {A B} (f : A -> B) (l : list A) i d d' :
  (i < length l)%nat -> nth i (map f l) d' = f (nth i l d).
Proof. intros H. rewrite nth_indep with (d' := f d) by (now rewrite map_length). apply map_nth. Qed.

(* ---------- zlen / zrange ---------- *)
Lemma zlen_map {A B} (f : A -> B) l : zlen (map f l) = zlen l.
Proof. unfold zlen. now rewrite map_length. Qed.
Lemma zlen_cons {A} (x : A) l : zlen (x :: l) = 1 + zlen l.
Proof. unfold zlen. cbn [length]. lia. Qed.
Lemma zlen_nil {A} : zlen (@nil A) = 0. Proof. reflexivity. Qed.
Lemma zlen_zero_nil {A} (l : list A) : zlen l = 0 -> l = [].
Proof. destruct l; auto. rewrite zlen_cons. pose proof (zlen_nonneg l). lia. Qed.

Lemma zrange_nil a n : n <= 0 -> zrange a n = [].
Proof. intros. unfold zrange. replace (Z.to_nat n) with O by lia. reflexivity. Qed.
Lemma zrange_cons a n : 0 < n -> zrange a n = a :: zrange (a + 1) (n - 1).
Proof.
  intros. unfold zrange. replace (Z.to_nat n) with (Datatypes.S (Z.to_nat (n - 1))) by lia. reflexivity.
Qed.
Lemma zrange_snoc a n : 0 <= n -> zrange a (n + 1) = zrange a n ++ [a + n].
Proof. intros. rewrite zrange_app by lia. f_equal. Qed.
Lemma zrange_split a n k : 0 <= k <= n -> zrange a n = zrange a k ++ zrange (a + k) (n - k).
Proof. intros. replace n with (k + (n - k)) at 1 by lia. apply zrange_app; lia. Qed.
Lemma in_zrange a n x : In x (zrange a n) <-> a <= x < a + n.
Proof.
  unfold zrange. remember (Z.to_nat n) as m eqn:E.
  assert (Hn : a <= x < a + n <-> a <= x < a + Z.of_nat m) by lia. rewrite Hn. clear.
  revert a; induction m as [|m IH]; intros a; cbn [zrange_nat In]; [lia|].
  rewrite IH. lia.
Qed.
Lemma zrange_shift a n k : map (fun x => x + k) (zrange a n) = zrange (a + k) n.
Proof.
  unfold zrange. generalize (Z.to_nat n). intros m. revert a; induction m as [|m IH]; intros a; cbn; auto.
  f_equal. rewrite IH. f_equal. lia.
Qed.

Lemma flat_map_ext_in {A B} (f g : A -> list B) l : (forall x, In x l -> f x = g x) -> flat_map f l = flat_map g l.
Proof. induction l as [|h t IH]; intros H; cbn; auto. rewrite H by (now left). f_equal. apply IH. intros; apply H; now right. Qed.
Lemma flat_map_map {A B C} (f : A -> B) (g : B -> list C) l : flat_map g (map f l) = flat_map (fun x => g (f x)) l.
Proof. induction l; cbn; auto. now rewrite IHl. Qed.

(* ---------- newest ---------- *)
Lemma newest_app a b d : newest (a ++ b) d = newest b (newest a d).
Proof. unfold newest. apply fold_left_app. Qed.
Lemma newest_cons p a d : newest (p :: a) d = newest a (p_sn p).
Proof. reflexivity. Qed.
Lemma newest_nil d : newest [] d = d. Proof. reflexivity. Qed.
Lemma newest_nonempty a d d' : a <> [] -> newest a d = newest a d'.
Proof. destruct a; [congruence|]. reflexivity. Qed.

(* ---------- minima / maxima ---------- *)
Lemma zmin_l_le x l : zmin_l x l <= x /\ forall y, In y l -> zmin_l x l <= y.
Proof.
  revert x; induction l as [|h t IH]; intros x; cbn; [split; [lia | tauto]|].
  destruct (IH h) as [H1 H2]. split; [lia|]. intros y [->|Hy]; [lia|]. specialize (H2 y Hy). lia.
Qed.
Lemma zmin_l_in x l : zmin_l x l = x \/ In (zmin_l x l) l.
Proof.
  revert x; induction l as [|h t IH]; intros x; cbn; [now left|].
  destruct (IH h) as [H|H]; destruct (Z.min_spec x (zmin_l h t)) as [[_ E]|[_ E]]; rewrite E; auto.
Qed.
Lemma zmax_l_ge x l : x <= zmax_l x l /\ forall y, In y l -> y <= zmax_l x l.
Proof.
  revert x; induction l as [|h t IH]; intros x; cbn; [split; [lia | tauto]|].
  destruct (IH h) as [H1 H2]. split; [lia|]. intros y [->|Hy]; [lia|]. specialize (H2 y Hy). lia.
Qed.
Lemma zmax_l_in x l : zmax_l x l = x \/ In (zmax_l x l) l.
Proof.
  revert x; induction l as [|h t IH]; intros x; cbn; [now left|].
  destruct (IH h) as [H|H]; destruct (Z.max_spec x (zmax_l h t)) as [[_ E]|[_ E]]; rewrite E; auto.
Qed.
Lemma zmin_list_spec l : l <> [] -> In (zmin_list l) l /\ forall y, In y l -> zmin_list l <= y.
Proof.
  destruct l as [|x t]; [congruence|]. intros _. cbn [zmin_list].
  destruct (zmin_l_le x t) as [H1 H2]. split.
  - destruct (zmin_l_in x t) as [E|E]; [left; now rewrite E | now right].
  - intros y [->|Hy]; auto.
Qed.
Lemma zmax_list_spec l : l <> [] -> In (zmax_list l) l /\ forall y, In y l -> y <= zmax_list l.
Proof.
  destruct l as [|x t]; [congruence|]. intros _. cbn [zmax_list].
  destruct (zmax_l_ge x t) as [H1 H2]. split.
  - destruct (zmax_l_in x t) as [E|E]; [left; now rewrite E | now right].
  - intros y [->|Hy]; auto.
Qed.
(* a value that is below every element and is one of them is the minimum *)
Lemma zmin_list_unique l m : In m l -> (forall y, In y l -> m <= y) -> zmin_list l = m.
Proof.
  intros Hin Hle. assert (Hl : l <> []) by (destruct l; [destruct Hin | congruence]).
  destruct (zmin_list_spec l Hl) as [H1 H2]. specialize (H2 m Hin). specialize (Hle _ H1). lia.
Qed.
Lemma zmax_list_unique l m : In m l -> (forall y, In y l -> y <= m) -> zmax_list l = m.
Proof.
  intros Hin Hle. assert (Hl : l <> []) by (destruct l; [destruct Hin | congruence]).
  destruct (zmax_list_spec l Hl) as [H1 H2]. specialize (H2 m Hin). specialize (Hle _ H1). lia.
Qed.

(* ---------- strictly increasing packet lists ---------- *)
Fixpoint pinc (lo : Z) (arr : list packet) : Prop :=
  match arr with [] => True | p :: t => lo < p_sn p /\ pinc (p_sn p) t end.

Lemma pinc_app lo a b : pinc lo (a ++ b) <-> pinc lo a /\ pinc (newest a lo) b.
Proof.
  revert lo; induction a as [|p a IH]; intros lo; cbn [app pinc]; [rewrite newest_nil; tauto|].
  rewrite newest_cons, IH. tauto.
Qed.
Lemma pinc_weaken lo lo' a : lo' <= lo -> pinc lo a -> pinc lo' a.
Proof. destruct a; cbn; auto. intros ? [? ?]; split; auto; lia. Qed.
Lemma pinc_newest lo a : pinc lo a -> lo <= newest a lo /\ (a <> [] -> lo < newest a lo).
Proof.
  revert lo; induction a as [|p a IH]; intros lo H; cbn [pinc] in H.
  - rewrite newest_nil. split; [lia | congruence].
  - destruct H as [H1 H2]. rewrite newest_cons. destruct (IH _ H2). split; intros; lia.
Qed.
Lemma pinc_bounds lo a : pinc lo a -> forall p, In p a -> lo < p_sn p <= newest a lo.
Proof.
  revert lo; induction a as [|q a IH]; intros lo H p Hp; [destruct Hp|].
  cbn [pinc] in H. destruct H as [H1 H2]. rewrite newest_cons. destruct (pinc_newest _ _ H2) as [H3 _].
  destruct Hp as [->|Hp]; [lia|]. specialize (IH _ H2 p Hp). lia.
Qed.
Lemma pinc_zlen lo a : pinc lo a -> zlen a <= newest a lo - lo.
Proof.
  revert lo; induction a as [|q a IH]; intros lo H; [rewrite newest_nil, zlen_nil; lia|].
  cbn [pinc] in H. destruct H as [H1 H2]. rewrite newest_cons, zlen_cons. specialize (IH _ H2). lia.
Qed.

Lemma increasing_from_pinc lo a : increasing_from lo (map p_sn a) = true <-> pinc lo a.
Proof.
  revert lo; induction a as [|p a IH]; intros lo; cbn [map increasing_from pinc]; [tauto|].
  rewrite andb_true_iff, IH, Z.ltb_lt. tauto.
Qed.

(* ---------- the packet that determines a slot ---------- *)
Lemma source_of_app_l a b sn : (exists p, In p a /\ sn <= p_sn p) -> source_of (a ++ b) sn = source_of a sn.
Proof.
  unfold source_of. induction a as [|q a IH]; intros [p [Hp Hs]]; [destruct Hp|]. cbn [app find].
  destruct (sn <=? p_sn q) eqn:E; auto. apply IH. destruct Hp as [->|Hp]; [lia|]. eauto.
Qed.
Lemma source_of_app_r a b sn : (forall p, In p a -> p_sn p < sn) -> source_of (a ++ b) sn = source_of b sn.
Proof.
  unfold source_of. induction a as [|q a IH]; intros H; auto. cbn [app find].
  destruct (sn <=? p_sn q) eqn:E; [specialize (H q (or_introl eq_refl)); lia|].
  apply IH. intros; apply H; now right.
Qed.
Lemma source_of_some lo a sn : pinc lo a -> lo < sn <= newest a lo ->
  exists p, source_of a sn = Some p /\ In p a /\ sn <= p_sn p.
Proof.
  revert lo; induction a as [|q a IH]; intros lo H Hs; [rewrite newest_nil in Hs; lia|].
  cbn [pinc] in H. destruct H as [H1 H2]. rewrite newest_cons in Hs. unfold source_of. cbn [find].
  destruct (sn <=? p_sn q) eqn:E.
  - exists q. split; auto. split; [now left | lia].
  - destruct (IH (p_sn q) H2 ltac:(lia)) as [p [P1 [P2 P3]]]. exists p. split; auto. split; auto. now right.
Qed.
(* an arrived packet is its own source *)
Lemma source_of_self lo a p : pinc lo a -> In p a -> source_of a (p_sn p) = Some p.
Proof.
  revert lo; induction a as [|q a IH]; intros lo H Hp; [destruct Hp|].
  cbn [pinc] in H. destruct H as [H1 H2]. unfold source_of. cbn [find].
  destruct Hp as [->|Hp].
  - now rewrite Z.leb_refl.
  - pose proof (pinc_bounds _ _ H2 p Hp). destruct (p_sn p <=? p_sn q) eqn:E; [lia|]. eapply IH; eauto.
Qed.

Definition dpacket (sn : Z) : packet := {| p_sn := sn; p_nchan := 1; p_off := 0; p_wide := false; p_data := [] |}.
(* what sits in slot sn of a gap-filled queue: the packet itself or a pretend packet made from the
   next one that arrived *)
Definition slot_packet (nchan : Z) (arr : list packet) (sn : Z) : packet :=
  match source_of arr sn with
  | Some p => if p_sn p =? sn then p else pretend p sn nchan
  | None => dpacket sn
  end.

Lemma slot_packet_sn nchan arr sn : p_sn (slot_packet nchan arr sn) = sn.
Proof. unfold slot_packet. destruct (source_of arr sn) as [p|]; auto. destruct (p_sn p =? sn) eqn:E; cbn; lia. Qed.

Lemma slot_packet_app_l nchan a b sn lo : pinc lo a -> lo < sn <= newest a lo ->
  slot_packet nchan (a ++ b) sn = slot_packet nchan a sn.
Proof.
  intros H Hs. unfold slot_packet. rewrite source_of_app_l; auto.
  destruct (source_of_some _ _ _ H Hs) as [p [_ [P2 P3]]]. eauto.
Qed.
Lemma slot_packet_app_r nchan a b sn lo : pinc lo a -> newest a lo < sn ->
  slot_packet nchan (a ++ b) sn = slot_packet nchan b sn.
Proof.
  intros H Hs. unfold slot_packet. rewrite source_of_app_r; auto.
  intros p Hp. pose proof (pinc_bounds _ _ H p Hp). lia.
Qed.

Lemma pretend_len p sn nchan : zlen (p_data (pretend p sn nchan)) = zlen (p_data p).
Proof. cbn. rewrite zlen_map, zrange_length. pose proof (zlen_nonneg (p_data p)). lia. Qed.
