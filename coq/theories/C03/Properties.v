(* C03 — property theorems only: each closed by [exact], each followed by Print Assumptions.

   Reading the statements.  [inp] is one run as the harness scripts it: frames per packet, the channel
   groups with the packets sampled at start-up, and for tick 1, 2, ... the packets that arrive in it
   (any batching: empty ticks, a group without data for any number of ticks).
   [valid_inputb inp = true] is the premise of the property: packets come from the groups seen at
   start-up, per group in strictly increasing sequence order (any subset lost), one frames-per-packet
   value, no uint32 wrap.  [os] gives, for every tick, the two orders in which Go happens to visit
   the group map in the two range loops of readerMainLoop: ANY permutations of the groups.
   [run (init_src ...) (combine ticks os)] is the mirror model of the repaired reader loop
   (Model.v); [blocks] are the blocks it delivers through getNextBlock.
   Spec.v defines: start/finish (first-1 and last global sequence number delivered), chan_range
   (channel c of a group over a range of global slots: data(sn)[c] if sn arrived, else filler(sn)[c] made
   from the next packet that did arrive), chan_out (a channel's concatenated output), chan_pos. *)
From Dastard Require Import Common.ZX C03.Model C03.Spec C03.Lemmas C03.GroupProofs C03.TickProofs C03.Run
  C03.Proofs C03.PropProofs.

(* demux_exact: for every arrival pattern, every batching into ticks and every visiting order, channel
   c of group i outputs, in order, for global sequence numbers start+1 .. finish, exactly data(sn)[c]
   where sn arrived and filler(sn)[c] where it was lost; hence fpp * (finish - start) samples. *)
Theorem demux_exact :
  forall (inp : input) (os : list (list nat * list nat)),
    valid_inputb inp = true -> length os = length (i_ticks inp) ->
    Forall (fun o => (NoDup (fst o) /\ forall i, In i (fst o) <-> (i < length (i_groups inp))%nat) /\
                     (NoDup (snd o) /\ forall i, In i (snd o) <-> (i < length (i_groups inp))%nat)) os ->
    exists st' blocks,
      run (init_src (map (fun gi => (gi_off gi, gi_nchan gi, gi_sampled gi)) (i_groups inp)))
          (combine (i_ticks inp) os) = Ok (st', blocks) /\
      forall i gi c, nth_error (i_groups inp) i = Some gi -> 0 <= c < gi_nchan gi ->
        chan_out blocks (chan_pos (i_groups inp) i c)
        = chan_range (i_fpp inp) gi (concat (i_ticks inp)) c (start inp) (finish inp)
        /\ zlen (chan_out blocks (chan_pos (i_groups inp) i c)) = i_fpp inp * (finish inp - start inp).
Proof. exact thm_demux_exact. Qed.
Print Assumptions demux_exact.

(* groups_aligned: every block has one length on all channels and one first frame on all segments,
   first frames are contiguous, every block carries all channels, and the frame number is the
   position in the aligned stream in EVERY group: sample x of a block whose first frame is f holds
   sample f+x of the channel's exact stream, i.e. global sequence number start+1+(f+x)/fpp. *)
Theorem groups_aligned :
  forall (inp : input) (os : list (list nat * list nat)),
    valid_inputb inp = true -> length os = length (i_ticks inp) ->
    Forall (fun o => (NoDup (fst o) /\ forall i, In i (fst o) <-> (i < length (i_groups inp))%nat) /\
                     (NoDup (snd o) /\ forall i, In i (snd o) <-> (i < length (i_groups inp))%nat)) os ->
    exists st' blocks,
      run (init_src (map (fun gi => (gi_off gi, gi_nchan gi, gi_sampled gi)) (i_groups inp)))
          (combine (i_ticks inp) os) = Ok (st', blocks) /\
      contiguous (frame0 blocks) blocks /\
      (forall k, In k blocks -> zlen (k_segs k) = zsum (map gi_nchan (i_groups inp))) /\
      forall k i gi c x, In k blocks -> nth_error (i_groups inp) i = Some gi -> 0 <= c < gi_nchan gi ->
        0 <= x < k_nsamp k ->
        let s := nth (chan_pos (i_groups inp) i c) (k_segs k) dseg in
        znth 0 (sg_data s) x
        = znth 0 (chan_range (i_fpp inp) gi (concat (i_ticks inp)) c (start inp) (finish inp))
               (sg_first s - frame0 blocks + x).
Proof. exact thm_groups_aligned. Qed.
Print Assumptions groups_aligned.

(* dropped_equals_filled: all segments of a block report the same count, and the counts add up to
   fpp for every packet of every group known to be lost when the last block was made. *)
Theorem dropped_equals_filled :
  forall (inp : input) (os : list (list nat * list nat)),
    valid_inputb inp = true -> length os = length (i_ticks inp) ->
    Forall (fun o => (NoDup (fst o) /\ forall i, In i (fst o) <-> (i < length (i_groups inp))%nat) /\
                     (NoDup (snd o) /\ forall i, In i (snd o) <-> (i < length (i_groups inp))%nat)) os ->
    exists st' blocks,
      run (init_src (map (fun gi => (gi_off gi, gi_nchan gi, gi_sampled gi)) (i_groups inp)))
          (combine (i_ticks inp) os) = Ok (st', blocks) /\
      (forall k s, In k blocks -> In s (k_segs k) -> sg_dropped s = block_dropped k) /\
      zsum (map block_dropped blocks)
      = i_fpp inp * total_missing inp (seen_at_last inp [] (start inp) (i_ticks inp) []).
Proof. exact thm_dropped_equals_filled. Qed.
Print Assumptions dropped_equals_filled.

(* tick_order_independent: whatever orders Go's map iteration takes in whatever tick, the delivered
   blocks are the same (they are the blocks Spec.expected_blocks computes from the input alone). *)
Theorem tick_order_independent :
  forall (inp : input) (os os' : list (list nat * list nat)),
    valid_inputb inp = true ->
    length os = length (i_ticks inp) -> length os' = length (i_ticks inp) ->
    Forall (fun o => (NoDup (fst o) /\ forall i, In i (fst o) <-> (i < length (i_groups inp))%nat) /\
                     (NoDup (snd o) /\ forall i, In i (snd o) <-> (i < length (i_groups inp))%nat)) os ->
    Forall (fun o => (NoDup (fst o) /\ forall i, In i (fst o) <-> (i < length (i_groups inp))%nat) /\
                     (NoDup (snd o) /\ forall i, In i (snd o) <-> (i < length (i_groups inp))%nat)) os' ->
    exists st st',
      run (init_src (map (fun gi => (gi_off gi, gi_nchan gi, gi_sampled gi)) (i_groups inp)))
          (combine (i_ticks inp) os) = Ok (st, expected_blocks inp) /\
      run (init_src (map (fun gi => (gi_off gi, gi_nchan gi, gi_sampled gi)) (i_groups inp)))
          (combine (i_ticks inp) os') = Ok (st', expected_blocks inp).
Proof. exact run_order_independent. Qed.
Print Assumptions tick_order_independent.

(* The model's output passes the observable checker used on the implementation (never panics on a
   valid input, delivers exactly the expected blocks). *)
Theorem model_passes_checker :
  forall (inp : input) (os : list (list nat * list nat)),
    valid_inputb inp = true -> length os = length (i_ticks inp) ->
    Forall (fun o => (NoDup (fst o) /\ forall i, In i (fst o) <-> (i < length (i_groups inp))%nat) /\
                     (NoDup (snd o) /\ forall i, In i (snd o) <-> (i < length (i_groups inp))%nat)) os ->
    exists st' blocks,
      run (init_src (map (fun gi => (gi_off gi, gi_nchan gi, gi_sampled gi)) (i_groups inp)))
          (combine (i_ticks inp) os) = Ok (st', blocks) /\
      blocks = expected_blocks inp /\ C03_check inp (Some blocks) = true.
Proof. exact thm_model_passes_checker. Qed.
Print Assumptions model_passes_checker.

(* What the checker's "true" means for ANY observed output, independent of the model. *)
Theorem checker_sound :
  forall (inp : input) (blocks : list block),
    valid_inputb inp = true -> C03_check inp (Some blocks) = true ->
    forall i gi c, nth_error (i_groups inp) i = Some gi -> 0 <= c < gi_nchan gi ->
      chan_out blocks (chan_pos (i_groups inp) i c)
      = chan_range (i_fpp inp) gi (concat (i_ticks inp)) c (start inp) (finish inp).
Proof. exact thm_checker_sound. Qed.
Print Assumptions checker_sound.

(* The run used by the correspondence check (groups visited in sorted order) is one of these runs. *)
Theorem model_blocks_are_expected :
  forall inp, valid_inputb inp = true -> model_blocks inp = Ok (expected_blocks inp).
Proof. exact model_blocks_expected. Qed.
Print Assumptions model_blocks_are_expected.

(* Invariant: after any valid history each queue holds exactly the gap-filled run (consumed, lastSN]
   — slot sn holds the packet that arrived with that number or a pretend packet made from the next one
   that did — followed by the packets that arrived after the last fill. *)
Theorem queue_invariant :
  forall (inp : input) (os : list (list nat * list nat)),
    valid_inputb inp = true -> length os = length (i_ticks inp) ->
    Forall (fun o => (NoDup (fst o) /\ forall i, In i (fst o) <-> (i < length (i_groups inp))%nat) /\
                     (NoDup (snd o) /\ forall i, In i (snd o) <-> (i < length (i_groups inp))%nat)) os ->
    exists st',
      run (init_src (map (fun gi => (gi_off gi, gi_nchan gi, gi_sampled gi)) (i_groups inp)))
          (combine (i_ticks inp) os) = Ok (st', expected_blocks inp) /\
      length (s_groups st') = length (i_groups inp) /\
      forall i, (i < length (i_groups inp))%nat ->
        let g := nth i (s_groups st') dgroup in let gi := nth i (i_groups inp) dgi in
        exists c arrF arrU,
          arrivals gi (concat (i_ticks inp)) = arrF ++ arrU /\
          g_last g = newest arrF (last0 gi) /\ last0 gi <= c <= g_last g /\
          g_queue g = map (slot_packet (gi_nchan gi) arrF) (zrange (c + 1) (g_last g - c)) ++ arrU.
Proof. exact model_queue_invariant. Qed.
Print Assumptions queue_invariant.

(* Non-vacuity: a concrete input with two groups, a lost packet and a lagging group meets the premise
   (it is the witness of the refutation theorems below), and the identity orders are permutations. *)
Example premise_met : valid_inputb old_witness = true /\ total_missing old_witness (concat (i_ticks old_witness)) = 1.
Proof. exact (conj (proj1 old_refuted_A_first) eq_refl). Qed.

Example premise_orders_met :
  Forall (fun o => (NoDup (fst o) /\ forall i, In i (fst o) <-> (i < length (i_groups old_witness))%nat) /\
                   (NoDup (snd o) /\ forall i, In i (snd o) <-> (i < length (i_groups old_witness))%nat))
         [([0; 1], [1; 0]); ([1; 0], [0; 1])]%nat.
Proof.
  assert (P01 : NoDup [0; 1]%nat /\ forall i, In i [0; 1]%nat <-> (i < 2)%nat).
  { split; [repeat constructor; cbn; intuition lia|]. intros i; cbn; lia. }
  assert (P10 : NoDup [1; 0]%nat /\ forall i, In i [1; 0]%nat <-> (i < 2)%nat).
  { split; [repeat constructor; cbn; intuition lia|]. intros i; cbn; lia. }
  apply Forall_cons; [cbn [fst snd]; split; [exact P01 | exact P10]|].
  apply Forall_cons; [cbn [fst snd]; split; [exact P10 | exact P01] | apply Forall_nil].
Qed.

(* ---- the code before the two repairs (fillMissingPackets recounting leftovers; dropped-frame counts
        forgotten when a tick is abandoned) ---- *)
Theorem demux_exact_refuted_pre_fix :
  valid_inputb old_witness = true /\
  blocks_of (run_old (init_of old_witness) (combine (i_ticks old_witness) [([0; 1], [0; 1]); ([0; 1], [0; 1])]%nat))
  = Some [B 6 [S 0 0 [30; 31; 40; 41; 60; 61]; S 0 0 [130; 131; 140; 141; 150; 151]]] /\
  C03_check old_witness
    (blocks_of (run_old (init_of old_witness) (combine (i_ticks old_witness) [([0; 1], [0; 1]); ([0; 1], [0; 1])]%nat)))
  = false.
Proof. exact old_refuted_A_first. Qed.
Print Assumptions demux_exact_refuted_pre_fix.

Theorem tick_order_independent_refuted_pre_fix :
  blocks_of (run_old (init_of old_witness) (combine (i_ticks old_witness) [([1; 0], [0; 1]); ([0; 1], [0; 1])]%nat))
  = Some (expected_blocks old_witness) /\
  blocks_of (run_old (init_of old_witness) (combine (i_ticks old_witness) [([0; 1], [0; 1]); ([0; 1], [0; 1])]%nat))
  <> Some (expected_blocks old_witness).
Proof. exact old_order_dependent. Qed.
Print Assumptions tick_order_independent_refuted_pre_fix.

Theorem dropped_equals_filled_refuted_pre_fix :
  valid_inputb old_drop_witness = true /\
  (exists bl, blocks_of (run_old (init_of old_drop_witness)
                          (combine (i_ticks old_drop_witness) [([0; 1], [0; 1]); ([0; 1], [0; 1])]%nat)) = Some bl
              /\ zsum (map block_dropped bl) = 0) /\
  zsum (map block_dropped (expected_blocks old_drop_witness)) = 2.
Proof. exact old_drop_lost. Qed.
Print Assumptions dropped_equals_filled_refuted_pre_fix.
