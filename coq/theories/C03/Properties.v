(* C03 — property theorems (being filled in) *)
