(* C03 — the property as a checker over OBSERVABLES only: what the harness gave to the system (the
   channel groups with the packets sampled at start-up, and for every read tick the packets that
   arrived in it) and what the system delivered (the blocks: per segment first frame, dropped-frame
   count and samples).  Nothing here calls the model's functions; from Model.v only the record types
   [packet], [seg], [block] are used.  The view is global: per group the list of packets that
   arrived — no queue, no filling, no trimming. *)
From Dastard Require Import Common.ZX C03.Model.

(* one channel group as seen at start-up: first channel, number of channels, the packets sampled
   (sequence number, carries-a-time-stamp) *)
Record ginfo := { gi_off : Z; gi_nchan : Z; gi_sampled : list (Z * bool) }.
(* one run: frames per packet, the groups in channel order, the packets arriving in tick 1, 2, ... *)
Record input := { i_fpp : Z; i_groups : list ginfo; i_ticks : list (list packet) }.

(* The reference of a group's sequence numbers: its first sampled packet that has a time stamp;
   global sequence number = sequence number - reference.  The last sampled packet is the last one
   seen before the run: everything after it belongs to the run. *)
Definition sync0 (gi : ginfo) : Z :=
  match filter snd (gi_sampled gi) with [] => 0 | (sn, _) :: _ => sn end.
Definition last0 (gi : ginfo) : Z :=
  match rev (gi_sampled gi) with [] => 0 | (sn, _) :: _ => sn end.

Definition belongs (gi : ginfo) (p : packet) : bool :=
  (p_off p =? gi_off gi) && (p_nchan p =? gi_nchan gi).
(* the packets of a group among those seen so far, in arrival order *)
Definition arrivals (gi : ginfo) (seen : list packet) : list packet := filter (belongs gi) seen.

(* sequence number of the newest packet of a list (d if there is none) *)
Definition newest (arr : list packet) (d : Z) : Z := fold_left (fun _ p => p_sn p) arr d.

(* newest global sequence number of a group; packets of the group lost so far (known lost = a later
   one has arrived) *)
Definition hi (gi : ginfo) (seen : list packet) : Z :=
  newest (arrivals gi seen) (last0 gi) - sync0 gi.
Definition missing (gi : ginfo) (seen : list packet) : Z :=
  newest (arrivals gi seen) (last0 gi) - last0 gi - zlen (arrivals gi seen).

Fixpoint zmin_l (x : Z) (l : list Z) : Z := match l with [] => x | y :: t => Z.min x (zmin_l y t) end.
Fixpoint zmax_l (x : Z) (l : list Z) : Z := match l with [] => x | y :: t => Z.max x (zmax_l y t) end.
Definition zmin_list (l : list Z) : Z := match l with [] => 0 | x :: t => zmin_l x t end.
Definition zmax_list (l : list Z) : Z := match l with [] => 0 | x :: t => zmax_l x t end.
Definition zsum (l : list Z) : Z := fold_right Z.add 0 l.

(* global sequence number up to which every group has data; where the common stream starts
   (the groups are aligned on the newest "last packet before the run") *)
Definition avail (inp : input) (seen : list packet) : Z :=
  zmin_list (map (fun gi => hi gi seen) (i_groups inp)).
Definition start (inp : input) : Z :=
  zmax_list (map (fun gi => last0 gi - sync0 gi) (i_groups inp)).
Definition total_missing (inp : input) (seen : list packet) : Z :=
  zsum (map (fun gi => missing gi seen) (i_groups inp)).

(* uint16 sample made of a payload value: int16 reinterpreted; int32 / 0x10000 (truncating) *)
Definition raw16 (wide : bool) (v : Z) : Z :=
  if wide then (Z.quot v 65536) mod 65536 else v mod 65536.

(* The packet that determines slot [sn] of a group: the first arrived packet whose sequence number
   is >= sn — the packet itself if it arrived, else the next one that did (the filler's template). *)
Definition source_of (arr : list packet) (sn : Z) : option packet :=
  find (fun p => sn <=? p_sn p) arr.

(* the fpp samples of channel c in slot sn: data(sn)[c] frame by frame if sn arrived, else filler:
   the template's first sample of that channel, repeated *)
Definition slot_chan (fpp nchan : Z) (arr : list packet) (sn c : Z) : list Z :=
  match source_of arr sn with
  | None => []
  | Some p => map (fun k => raw16 (p_wide p)
                              (znth 0 (p_data p) (if p_sn p =? sn then k * nchan + c else c)))
                  (zrange 0 fpp)
  end.

(* channel c of group gi over the global slots lo+1 .. hi *)
Definition chan_range (fpp : Z) (gi : ginfo) (seen : list packet) (c lo hi : Z) : list Z :=
  flat_map (fun G => slot_chan fpp (gi_nchan gi) (arrivals gi seen) (G + sync0 gi) c)
           (zrange (lo + 1) (hi - lo)).

(* all channels, group after group *)
Definition block_data (inp : input) (seen : list packet) (lo hi : Z) : list (list Z) :=
  flat_map (fun gi => map (fun c => chan_range (i_fpp inp) gi seen c lo hi) (zrange 0 (gi_nchan gi)))
           (i_groups inp).

(* The blocks a run must deliver.  State: packets seen so far, global sequence number consumed so
   far [C], lost packets reported so far, next frame number.  A tick delivers a block iff afterwards
   every group has data beyond C; the block then holds the slots C+1 .. avail of every group and
   reports the frames filled in since the previous block. *)
Fixpoint expected (inp : input) (seen : list packet) (C reported next : Z) (ticks : list (list packet))
  : list block :=
  match ticks with
  | [] => []
  | b :: rest =>
      let seen' := seen ++ b in
      let a := avail inp seen' in
      if a >? C then
        let miss := total_missing inp seen' in
        let n := i_fpp inp * (a - C) in
        {| k_nsamp := n;
           k_segs := map (fun d => {| sg_first := next; sg_dropped := i_fpp inp * (miss - reported); sg_data := d |})
                         (block_data inp seen' C a) |}
        :: expected inp seen' a miss (next + n) rest
      else expected inp seen' C reported next rest
  end.

Definition expected_blocks (inp : input) : list block :=
  expected inp [] (start inp) 0 0 (i_ticks inp).

(* ---- premise of the property, as a decidable test on the input ---- *)
Fixpoint increasing_from (lo : Z) (l : list Z) : bool :=
  match l with [] => true | x :: t => (lo <? x) && increasing_from x t end.

Definition same_key (a b : ginfo) : bool := (gi_off a =? gi_off b) && (gi_nchan a =? gi_nchan b).
Fixpoint distinct_keys (gs : list ginfo) : bool :=
  match gs with [] => true | g :: t => forallb (fun h => negb (same_key g h)) t && distinct_keys t end.

(* "packet streams arriving in sequence order from the channel groups seen at start-up", one
   frames-per-packet value per run (a packet's payload length is a uint16, so it is below 65536),
   no uint32 wrap of sequence numbers *)
Definition valid_inputb (inp : input) : bool :=
  let all := concat (i_ticks inp) in
  (0 <? i_fpp inp) && (i_fpp inp <? 65536)
  && match i_groups inp with [] => false | _ => true end
  && forallb (fun gi => (0 <? gi_nchan gi) && (0 <=? sync0 gi) && (sync0 gi <=? last0 gi)
                        && (last0 gi <? 4294967296)) (i_groups inp)
  && distinct_keys (i_groups inp)
  && forallb (fun p => existsb (fun gi => belongs gi p) (i_groups inp)
                       && (zlen (p_data p) =? i_fpp inp * p_nchan p)
                       && (p_sn p <? 4294967296)) all
  && forallb (fun gi => increasing_from (last0 gi) (map p_sn (arrivals gi all))) (i_groups inp).

(* ---- the checker ---- *)
(* frame numbers are compared relative to the first frame of the first delivered block *)
Definition frame0 (obs : list block) : Z :=
  match obs with
  | {| k_segs := s :: _ |} :: _ => sg_first s
  | _ => 0
  end.

Definition seg_eqb (f0 : Z) (e o : seg) : bool :=
  (sg_first o =? f0 + sg_first e) && (sg_dropped o =? sg_dropped e) && zlist_eqb (sg_data o) (sg_data e).
Definition block_eqb (f0 : Z) (e o : block) : bool :=
  (k_nsamp o =? k_nsamp e) && list_eqb (seg_eqb f0) (k_segs e) (k_segs o).

(* [obs = None]: the process panicked *)
Definition C03_check (inp : input) (obs : option (list block)) : bool :=
  if valid_inputb inp then
    match obs with
    | None => false
    | Some bl => list_eqb (block_eqb (frame0 bl)) (expected_blocks inp) bl
    end
  else true.

(* ---- the same thing as Props over (input, delivered blocks) ---- *)
Definition dseg : seg := {| sg_first := 0; sg_dropped := 0; sg_data := [] |}.

(* output stream of channel number j (position in the concatenation of the groups' channels) *)
Definition chan_out (blocks : list block) (j : nat) : list Z :=
  flat_map (fun k => sg_data (nth j (k_segs k) dseg)) blocks.

(* position of channel c of the i-th group among all channels *)
Definition chan_pos (gs : list ginfo) (i : nat) (c : Z) : nat :=
  Z.to_nat (zsum (map gi_nchan (firstn i gs)) + c).

(* last global sequence number delivered: everything every group has by the end of the run *)
Definition finish (inp : input) : Z :=
  Z.max (start inp) (avail inp (concat (i_ticks inp))).

(* demux_exact: channel c of group i outputs, in order, for global sequence numbers
   start+1 .. finish (i.e. sn = start+1+sync_i .. finish+sync_i), data(sn)[c] if sn arrived else
   filler(sn)[c] — where "arrived" and "the next packet that did arrive" refer to the whole run *)
Definition demux_exact_spec (inp : input) (blocks : list block) : Prop :=
  forall i gi c, nth_error (i_groups inp) i = Some gi -> 0 <= c < gi_nchan gi ->
    chan_out blocks (chan_pos (i_groups inp) i c)
    = chan_range (i_fpp inp) gi (concat (i_ticks inp)) c (start inp) (finish inp).

(* groups_aligned: every block has one length on all channels (= nSamp) and one first frame on all
   segments; first frames are contiguous; and the frame number is the position in the aligned
   stream for every group: sample x of a block whose first frame is f (relative to the first
   block) is sample (f+x) of the channel's exact stream, i.e. slot start+1+(f+x)/fpp in every group *)
Definition sample_at (inp : input) (gi : ginfo) (c f : Z) : Z :=
  znth 0 (chan_range (i_fpp inp) gi (concat (i_ticks inp)) c (start inp) (finish inp)) f.

Fixpoint contiguous (next : Z) (blocks : list block) : Prop :=
  match blocks with
  | [] => True
  | k :: rest => (forall s, In s (k_segs k) -> sg_first s = next /\ zlen (sg_data s) = k_nsamp k)
                 /\ contiguous (next + k_nsamp k) rest
  end.

Definition groups_aligned_spec (inp : input) (blocks : list block) : Prop :=
  contiguous (frame0 blocks) blocks
  /\ (forall k, In k blocks -> zlen (k_segs k) = zsum (map gi_nchan (i_groups inp)))
  /\ forall k i gi c x, In k blocks -> nth_error (i_groups inp) i = Some gi -> 0 <= c < gi_nchan gi ->
       0 <= x < k_nsamp k ->
       let s := nth (chan_pos (i_groups inp) i c) (k_segs k) dseg in
       znth 0 (sg_data s) x = sample_at inp gi c (sg_first s - frame0 blocks + x).

(* dropped_equals_filled: all segments of a block report the same count, and the counts add up to
   the frames filled in: fpp for every packet known to be lost when the last block was made
   ([seen_at_last]: the packets that had arrived by then). *)
Definition block_dropped (k : block) : Z := sg_dropped (nth 0 (k_segs k) dseg).

(* the packets that have arrived by the last tick that can deliver a block *)
Fixpoint seen_at_last (inp : input) (seen : list packet) (C : Z) (ticks : list (list packet)) (acc : list packet)
  : list packet :=
  match ticks with
  | [] => acc
  | b :: rest => let seen' := seen ++ b in
                 if avail inp seen' >? C then seen_at_last inp seen' (avail inp seen') rest seen'
                 else seen_at_last inp seen' C rest acc
  end.

Definition dropped_equals_filled_spec (inp : input) (blocks : list block) : Prop :=
  (forall k s, In k blocks -> In s (k_segs k) -> sg_dropped s = block_dropped k)
  /\ zsum (map block_dropped blocks)
     = i_fpp inp * total_missing inp (seen_at_last inp [] (start inp) (i_ticks inp) []).
