(* C03 — mirror model of the Abaco ingest path of /repo/abaco.go and of Packet.MakePretendPacket in
   /repo/packets/packets.go (definitions only, no proofs).

   One Gallina function per Go function, same control flow and order of effects:
     AbacoGroup.samplePackets (sequence bookkeeping only)   sample_group
     AbacoGroup.enqueuePacket / AbacoSource.distributePackets   distribute
     AbacoGroup.fillMissingPackets                          fill_missing      (repaired; [fill_missing_old] = before)
     AbacoGroup.firstSeqNum                                 first_seqnum
     AbacoGroup.trimPacketsBefore                           trim_before
     AbacoGroup.countSamplesInQueue                         count_samples
     AbacoGroup.demuxData                                   demux             (phase unwrapping switched off)
     AbacoSource.readerMainLoop, body of one tick           tick              ([tick_old] = before the repair)
     AbacoSource.distributeData                             distribute_data
   Go's [for ... range as.groups] visits the map in an unspecified order: the two loops over the map
   take their visiting order as ORACLE arguments [o1], [o2] (lists of positions in the sorted group
   list).  The third loop runs over as.groupKeysSorted.
   Go panics are explicit ([Panic]).  Sequence numbers are unbounded Z (premise: no uint32 wrap in a run).
   Not modelled: byte counters, wall-clock stamps, external-trigger packets, the 5 s watchdogs. *)
From Dastard Require Import Common.ZX.

(* packets.Packet as the ingest path sees it: sequence number, shape (channels), channel offset,
   16/32-bit payload ([p_wide] = []int32), payload values frame-major (frames x channels) *)
Record packet := { p_sn : Z; p_nchan : Z; p_off : Z; p_wide : bool; p_data : list Z }.

(* Packet.Frames: payloadLength / (wordlen * nchan), payloadLength = wordlen * len(Data) *)
Definition frames (p : packet) : Z := zlen (p_data p) / p_nchan p.

(* Packet.MakePretendPacket(seqnum, nchan): x[i] = d[i % nchan] *)
Definition pretend (p : packet) (sn nchan : Z) : packet :=
  {| p_sn := sn; p_nchan := p_nchan p; p_off := p_off p; p_wide := p_wide p;
     p_data := map (fun i => znth 0 (p_data p) (i mod nchan)) (zrange 0 (zlen (p_data p))) |}.

(* AbacoGroup: index {Firstchan, Nchan}, queue, seqnumsync, lastSN *)
Record group := { g_off : Z; g_nchan : Z; g_queue : list packet; g_sync : Z; g_last : Z }.

Definition set_queue (g : group) (q : list packet) : group :=
  {| g_off := g_off g; g_nchan := g_nchan g; g_queue := q; g_sync := g_sync g; g_last := g_last g |}.
Definition set_queue_last (g : group) (q : list packet) (l : Z) : group :=
  {| g_off := g_off g; g_nchan := g_nchan g; g_queue := q; g_sync := g_sync g; g_last := l |}.

(* queue[len(queue)-1].SequenceNumber() (d for an empty queue); written as a left fold so that it
   evaluates in linear time on queues of tens of thousands of packets *)
Definition last_sn (q : list packet) (d : Z) : Z := fold_left (fun _ p => p_sn p) q d.

(* AbacoGroup.samplePackets, the part that concerns sequence numbers: seqnumsync = sequence number
   of the first sampled packet that carries a usable time stamp (stays 0 if none does),
   lastSN = sequence number of the last sampled packet; the queue is cleared.
   A sampled packet is (sequence number, carries-a-time-stamp). *)
Definition sample_group (off nchan : Z) (sampled : list (Z * bool)) : group :=
  {| g_off := off; g_nchan := nchan; g_queue := [];
     g_sync := match filter snd sampled with [] => 0 | (sn, _) :: _ => sn end;
     g_last := match rev sampled with [] => 0 | (sn, _) :: _ => sn end |}.

(* ---- AbacoGroup.fillMissingPackets ---- *)
(* the loop over the queue; returns (newq, packetsAdded, framesAdded).  Repaired version: packets
   left queued by an earlier call (sequence number <= lastSN) were already checked for gaps. *)
Fixpoint fill_loop (nchan last : Z) (q : list packet) (snexpect : Z) : list packet * Z * Z :=
  match q with
  | [] => ([], 0, 0)
  | p :: rest =>
      if p_sn p <=? last then
        let '(nq, pa, fa) := fill_loop nchan last rest snexpect in (p :: nq, pa, fa)
      else
        let gap := zrange snexpect (p_sn p - snexpect) in            (* for snexpect < sn { ...; snexpect++ } *)
        let fakes := map (fun s => pretend p s nchan) gap in
        let '(nq, pa, fa) := fill_loop nchan last rest (Z.max snexpect (p_sn p) + 1) in
        (fakes ++ p :: nq, zlen gap + pa, zlen gap * frames p + fa)
  end.

Definition fill_missing (g : group) : group * Z * Z :=
  match g_queue g with
  | [] => (g, 0, 0)
  | _ =>
      let '(nq, pa, fa) := fill_loop (g_nchan g) (g_last g) (g_queue g) (g_last g + 1) in
      let q := if pa >? 0 then nq else g_queue g in
      (set_queue_last g q (last_sn q (g_last g)), pa, fa)
  end.

(* the code before the repair: every queued packet is counted from lastSN+1 again *)
Fixpoint fill_loop_old (nchan : Z) (q : list packet) (snexpect : Z) : list packet * Z * Z :=
  match q with
  | [] => ([], 0, 0)
  | p :: rest =>
      let gap := zrange snexpect (p_sn p - snexpect) in
      let fakes := map (fun s => pretend p s nchan) gap in
      let '(nq, pa, fa) := fill_loop_old nchan rest (Z.max snexpect (p_sn p) + 1) in
      (fakes ++ p :: nq, zlen gap + pa, zlen gap * frames p + fa)
  end.

Definition fill_missing_old (g : group) : group * Z * Z :=
  match g_queue g with
  | [] => (g, 0, 0)
  | _ =>
      let '(nq, pa, fa) := fill_loop_old (g_nchan g) (g_queue g) (g_last g + 1) in
      let q := if pa >? 0 then nq else g_queue g in
      (set_queue_last g q (last_sn q (g_last g)), pa, fa)
  end.

(* AbacoGroup.firstSeqNum: error (None) on an empty queue *)
Definition first_seqnum (g : group) : option Z :=
  match g_queue g with [] => None | p :: _ => Some (p_sn p - g_sync g) end.

(* AbacoGroup.trimPacketsBefore: indexes queue[0] first (panics on an empty queue) *)
Fixpoint trim_loop (first : Z) (q : list packet) : list packet :=
  match q with
  | [] => []
  | p :: rest => if p_sn p >=? first then q else trim_loop first rest
  end.
Definition trim_before (g : group) (firstSn : Z) : res group :=
  match g_queue g with
  | [] => Panic
  | _ => Ok (set_queue g (trim_loop (firstSn + g_sync g) (g_queue g)))
  end.

(* AbacoGroup.countSamplesInQueue *)
Definition count_samples (g : group) : Z :=
  fold_right (fun p acc => zlen (p_data p) + acc) 0 (g_queue g) / g_nchan g.

(* conversion of one payload value to RawType (uint16): int16 -> uint16, int32 -> uint16(v / 0x10000)
   with Go's truncating division *)
Definition conv (wide : bool) (v : Z) : Z :=
  if wide then (Z.quot v 65536) mod 65536 else v mod 65536.

(* samples of channel [idx] taken from one packet: d[idx], d[idx+nchan], ... (len(d)/nchan of them) *)
Definition chan_of_packet (nchan idx : Z) (p : packet) : list Z :=
  map (fun i => conv (p_wide p) (znth 0 (p_data p) (idx + i * nchan))) (zrange 0 (zlen (p_data p) / nchan)).

(* AbacoGroup.demuxData: the loop over the queue; which packets are consumed *)
Fixpoint demux_loop (g : group) (q : list packet) (fr : Z) : res (list packet * list packet * Z) :=
  match q with
  | [] => Ok ([], [], fr)
  | p :: rest =>
      if negb ((p_off p =? g_off g) && (p_nchan p =? g_nchan g)) then Panic      (* gIndex(p) != group.index *)
      else if frames p >? fr then Ok ([], q, fr)                                  (* would over-fill: break *)
      else match demux_loop g rest (fr - frames p) with
           | Ok (c, r, f) => Ok (p :: c, r, f)
           | Panic => Panic
           end
  end.

(* returns the group with the consumed packets removed and one sample list per channel of the group *)
Definition demux (g : group) (fr : Z) : res (group * list (list Z)) :=
  match demux_loop g (g_queue g) fr with
  | Panic => Panic
  | Ok (c, r, f) =>
      if f >? 0 then Panic                                   (* "still %d frames to fill": panic *)
      else Ok (set_queue g r,
               map (fun idx => flat_map (chan_of_packet (g_nchan g) idx) c) (zrange 0 (g_nchan g)))
  end.

(* ---- AbacoSource ---- *)
(* groups in groupKeysSorted order; nextFrameNum; frames filled in but not yet reported *)
Record src := { s_groups : list group; s_next : Z; s_pend : Z }.

Definition dgroup : group := {| g_off := 0; g_nchan := 1; g_queue := []; g_sync := 0; g_last := 0 |}.

Fixpoint upd {A} (l : list A) (i : nat) (x : A) : list A :=
  match l, i with
  | [], _ => []
  | _ :: t, O => x :: t
  | h :: t, S j => h :: upd t j x
  end.

(* as.groups[gIndex(p)]: position of the group with this index *)
Fixpoint find_group (gs : list group) (p : packet) : option nat :=
  match gs with
  | [] => None
  | g :: rest => if (p_off p =? g_off g) && (p_nchan p =? g_nchan g) then Some O
                 else option_map S (find_group rest p)
  end.

(* AbacoSource.distributePackets: a packet of an unknown group dereferences a nil map entry *)
Fixpoint distribute (gs : list group) (pkts : list packet) : res (list group) :=
  match pkts with
  | [] => Ok gs
  | p :: rest =>
      match find_group gs p with
      | None => Panic
      | Some i => let g := nth i gs dgroup in
                  distribute (upd gs i (set_queue g (g_queue g ++ [p]))) rest
      end
  end.

(* first loop of a tick over the map, in visiting order [o]: fill, add up dropped frames, take the
   maximum first global sequence number; an empty group abandons the tick ([false]) *)
Fixpoint loop1 (fill : group -> group * Z * Z) (gs : list group) (o : list nat) (firstSn dropped : Z)
  : list group * Z * Z * bool :=
  match o with
  | [] => (gs, firstSn, dropped, true)
  | i :: o' =>
      let '(g', _, fa) := fill (nth i gs dgroup) in
      let gs' := upd gs i g' in
      let dropped' := dropped + fa in
      match first_seqnum g' with
      | None => (gs', firstSn, dropped', false)
      | Some sn0 => loop1 fill gs' o' (if sn0 >? firstSn then sn0 else firstSn) dropped'
      end
  end.

(* second loop over the map, in visiting order [o]: trim, count, take the minimum *)
Fixpoint loop2 (gs : list group) (o : list nat) (firstSn m : Z) : res (list group * Z) :=
  match o with
  | [] => Ok (gs, m)
  | i :: o' =>
      match trim_before (nth i gs dgroup) firstSn with
      | Panic => Panic
      | Ok g' => let n := count_samples g' in
                 loop2 (upd gs i g') o' firstSn (if n <? m then n else m)
      end
  end.

(* third loop, over groupKeysSorted: demux every group, channels concatenated in group order *)
Fixpoint loop3 (gs : list group) (fr : Z) : res (list group * list (list Z)) :=
  match gs with
  | [] => Ok ([], [])
  | g :: rest =>
      match demux g fr with
      | Panic => Panic
      | Ok (g', chans) =>
          match loop3 rest fr with
          | Panic => Panic
          | Ok (rest', chans') => Ok (g' :: rest', chans ++ chans')
          end
      end
  end.

Definition max_int64 : Z := 9223372036854775807.

(* AbacoBuffersType, projected: datacopies and droppedFrames *)
Record buffer := { b_data : list (list Z); b_dropped : Z }.

(* body of [case <-ticker.C] of readerMainLoop.  [keep]: dropped-frame counts of abandoned ticks are
   carried over to the next published buffer (the repaired code); the old code forgot them. *)
Definition tick_with (fill : group -> group * Z * Z) (keep : bool)
           (st : src) (batch : list packet) (o1 o2 : list nat) : res (src * option buffer) :=
  match distribute (s_groups st) batch with
  | Panic => Panic
  | Ok gs0 =>
      let dropped0 := if keep then s_pend st else 0 in
      let '(gs1, firstSn, dropped, complete) := loop1 fill gs0 o1 0 dropped0 in
      let abandoned gs := Ok ({| s_groups := gs; s_next := s_next st;
                                 s_pend := if keep then dropped else 0 |}, None) in
      if negb complete then abandoned gs1                                  (* continue awaitmoredata *)
      else
        match loop2 gs1 o2 firstSn max_int64 with
        | Panic => Panic
        | Ok (gs2, fr) =>
            if fr <=? 0 then abandoned gs2                                 (* continue awaitmoredata *)
            else
              match loop3 gs2 fr with
              | Panic => Panic
              | Ok (gs3, chans) =>
                  Ok ({| s_groups := gs3; s_next := s_next st; s_pend := 0 |},
                      Some {| b_data := chans; b_dropped := dropped |})
              end
        end
  end.

Definition tick := tick_with fill_missing true.
Definition tick_old := tick_with fill_missing_old false.

(* one DataSegment of a block, projected: firstFrameIndex, droppedFrames, rawData *)
Record seg := { sg_first : Z; sg_dropped : Z; sg_data : list Z }.
(* dataBlock, projected: nSamp and the segments *)
Record block := { k_nsamp : Z; k_segs : list seg }.

(* AbacoSource.distributeData: framesUsed = len(datacopies[0]) (index panic without channels);
   block.nSamp = framesUsed; every segment is stamped with nextFrameNum (loaded once), which then
   advances by framesUsed *)
Definition distribute_data (next : Z) (b : buffer) : res (Z * block) :=
  match b_data b with
  | [] => Panic
  | d0 :: _ =>
      Ok (next + zlen d0,
          {| k_nsamp := zlen d0;
             k_segs := map (fun d => {| sg_first := next; sg_dropped := b_dropped b; sg_data := d |}) (b_data b) |})
  end.

(* a run: one (batch, visiting orders) per tick; every published buffer goes through getNextBlock *)
Definition step_with (fill : group -> group * Z * Z) (keep : bool)
           (st : src) (t : list packet * (list nat * list nat)) : res (src * list block) :=
  match tick_with fill keep st (fst t) (fst (snd t)) (snd (snd t)) with
  | Panic => Panic
  | Ok (st', None) => Ok (st', [])
  | Ok (st', Some b) =>
      match distribute_data (s_next st') b with
      | Panic => Panic
      | Ok (next', k) => Ok ({| s_groups := s_groups st'; s_next := next'; s_pend := s_pend st' |}, [k])
      end
  end.

Fixpoint run_with (fill : group -> group * Z * Z) (keep : bool)
         (st : src) (ticks : list (list packet * (list nat * list nat))) : res (src * list block) :=
  match ticks with
  | [] => Ok (st, [])
  | t :: rest =>
      match step_with fill keep st t with
      | Panic => Panic
      | Ok (st1, ks) =>
          match run_with fill keep st1 rest with
          | Panic => Panic
          | Ok (st2, ks') => Ok (st2, ks ++ ks')
          end
      end
  end.

Definition run := run_with fill_missing true.
Definition run_old := run_with fill_missing_old false.

(* the state Sample / PrepareRun leave behind: one group per (offset, channels, sampled packets),
   in sorted order; nextFrameNum = 0 *)
Definition init_src (gs : list (Z * Z * list (Z * bool))) : src :=
  {| s_groups := map (fun x => sample_group (fst (fst x)) (snd (fst x)) (snd x)) gs; s_next := 0; s_pend := 0 |}.
