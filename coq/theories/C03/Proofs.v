(* C03 — from one tick to all histories: for every valid input and every choice of visiting orders
   the model delivers exactly the blocks the specification computes from the input alone. *)
From Dastard Require Import Common.ZX C03.Model C03.Spec C03.Lemmas C03.GroupProofs C03.TickProofs C03.Run.
From Coq Require Import ZifyBool ZifyNat.

(* ---------- the premise, as Props ---------- *)
Lemma valid_static inp : valid_inputb inp = true -> Static inp.
Proof.
  unfold valid_inputb. rewrite !andb_true_iff. intros ((((((V1 & V1') & V2) & V3) & V4) & V5) & V6).
  unfold Static. split; [lia|]. split; [destruct (i_groups inp); [discriminate | congruence]|].
  split; auto. intros gi Hgi. rewrite forallb_forall in V3. specialize (V3 gi Hgi). lia.
Qed.

Lemma valid_last0 inp : valid_inputb inp = true ->
  forall i, (i < length (i_groups inp))%nat -> last0 (nth i (i_groups inp) dgi) < 4294967296.
Proof.
  unfold valid_inputb. rewrite !andb_true_iff. intros ((((((V1 & V1') & V2) & V3) & V4) & V5) & V6) i Hi.
  rewrite forallb_forall in V3. specialize (V3 _ (nth_In _ dgi Hi)). lia.
Qed.

Lemma valid_hvalid inp : valid_inputb inp = true -> HValid inp (concat (i_ticks inp)).
Proof.
  unfold valid_inputb. rewrite !andb_true_iff. intros ((((((V1 & V1') & V2) & V3) & V4) & V5) & V6).
  rewrite forallb_forall in V5, V6. split.
  - intros gi Hgi. split; [apply increasing_from_pinc, V6; auto|].
    intros p Hp. unfold arrivals in Hp. apply filter_In in Hp as [Hp Hb].
    specialize (V5 p Hp). unfold belongs in Hb. unfold wf.
    assert (E : p_nchan p = gi_nchan gi) by lia. rewrite <- E. repeat split; lia.
  - intros p Hp. specialize (V5 p Hp). rewrite !andb_true_iff in V5. destruct V5 as ((V5a & V5b) & V5c).
    split; [|lia]. apply existsb_exists in V5a. exact V5a.
Qed.

Lemma HValid_prefix inp a b : HValid inp (a ++ b) -> HValid inp a.
Proof.
  intros [H1 H2]. split.
  - intros gi Hgi. destruct (H1 gi Hgi) as [P W]. rewrite arrivals_app in P, W.
    apply pinc_app in P as [P _]. split; auto. intros p Hp. apply W. apply in_or_app; now left.
  - intros p Hp. apply H2. apply in_or_app; now left.
Qed.

(* ---------- shape of a delivered block ---------- *)
Lemma zlen_flat_map_const {A B} (f : A -> list B) k l : (forall x, In x l -> zlen (f x) = k) ->
  zlen (flat_map f l) = k * zlen l.
Proof.
  induction l as [|h t IH]; intros H; cbn [flat_map]; [unfold zlen; cbn [length]; lia|].
  rewrite zlen_app, zlen_cons, H, IH by (try (now left); intros; apply H; now right). lia.
Qed.

Lemma zlen_slot_chan fpp nchan arr lo sn c : 0 <= fpp -> pinc lo arr -> lo < sn <= newest arr lo ->
  zlen (slot_chan fpp nchan arr sn c) = fpp.
Proof.
  intros Hf P Hs. destruct (source_of_some _ _ _ P Hs) as [p [P1 _]]. unfold slot_chan. rewrite P1.
  rewrite zlen_map, zrange_length. lia.
Qed.

Lemma zlen_chan_range fpp gi seen c C a : 0 <= fpp -> pinc (last0 gi) (arrivals gi seen) ->
  last0 gi - sync0 gi <= C -> a <= hi gi seen -> C <= a ->
  zlen (chan_range fpp gi seen c C a) = fpp * (a - C).
Proof.
  intros Hf P H1 H2 H3. unfold chan_range. rewrite (zlen_flat_map_const _ fpp).
  - rewrite zrange_length. replace (Z.max 0 (a - C)) with (a - C) by lia. reflexivity.
  - intros G HG. apply in_zrange in HG. apply zlen_slot_chan with (lo := last0 gi); auto. unfold hi in H2. lia.
Qed.

Lemma last_in {A} (l : list A) d : l <> [] -> In (last l d) l.
Proof.
  induction l as [|h t IH]; [congruence|]. intros _. destruct t as [|h' t']; [now left|].
  right. apply IH. discriminate.
Qed.

Section Run.
Variable inp : input.
Hypothesis HS : Static inp.
Hypothesis HL0 : forall i, (i < length (i_groups inp))%nat -> last0 (nth i (i_groups inp) dgi) < 4294967296.
Let fpp := i_fpp inp.
Let gis := i_groups inp.

Lemma block_data_shape seen C a :
  HValid inp seen -> (forall gi, In gi gis -> last0 gi - sync0 gi <= C) -> C <= a -> a <= avail inp seen ->
  block_data inp seen C a <> [] /\ forall d, In d (block_data inp seen C a) -> zlen d = fpp * (a - C).
Proof.
  intros [HV _] HC Ha Hav. destruct HS as (Hf & Hne & HG & _). split.
  - unfold block_data. clear HV HC. destruct (i_groups inp) as [|g0 gr]; [congruence|]. cbn [flat_map].
    destruct (HG g0 (or_introl eq_refl)) as [Hn _]. rewrite zrange_cons by lia. discriminate.
  - intros d Hd. unfold block_data in Hd. apply in_flat_map in Hd as [gi [Hgi Hd]].
    apply in_map_iff in Hd as [c [<- Hc]]. destruct (HV gi Hgi) as [P _].
    apply zlen_chan_range; auto; try (fold fpp; lia).
    unfold avail in Hav. fold gis in Hav.
    pose proof (in_map (fun gi => hi gi seen) _ _ Hgi) as Hin. cbv beta in Hin. fold gis in Hin.
    assert (NE : map (fun gi => hi gi seen) gis <> []) by (intros E; rewrite E in Hin; destruct Hin).
    destruct (zmin_list_spec _ NE) as [_ H]. specialize (H (hi gi seen) Hin). lia.
Qed.

Definition orders_ok (os : list (list nat * list nat)) : Prop :=
  Forall (fun o => perm_ok inp (fst o) /\ perm_ok inp (snd o)) os.

Lemma run_spec : forall ticks os st ghs seen C rep,
  length os = length ticks -> orders_ok os ->
  HValid inp (seen ++ concat ticks) -> SInv inp st ghs seen C rep ->
  exists st' ghs' C' rep', run st (combine ticks os) = Ok (st', expected inp seen C rep (s_next st) ticks)
    /\ SInv inp st' ghs' (seen ++ concat ticks) C' rep'.
Proof.
  induction ticks as [|b ticks IH]; intros os st ghs seen C rep HL HO HV HI.
  - exists st, ghs, C, rep. split; [reflexivity|]. cbn [concat]. now rewrite app_nil_r.
  - destruct os as [|[o1 o2] os]; [discriminate|]. cbn [length] in HL. inversion HO as [|? ? [O1 O2] HO']; subst.
    cbn [fst snd] in O1, O2. cbn [concat] in HV. rewrite app_assoc in HV.
    pose proof (HValid_prefix _ _ _ HV) as HVb.
    destruct (tick_spec inp HS st ghs seen C rep b o1 o2 HVb HI O1 O2 HL0) as (st1 & ghs1 & N1 & T).
    cbn zeta in T. cbn [combine]. unfold run. cbn [run_with]. unfold step_with. cbn [fst snd].
    change (tick_with fill_missing true st b o1 o2) with (tick st b o1 o2).
    cbn [expected]. destruct (avail inp (seen ++ b) >? C) eqn:EA.
    + destruct T as [T1 T2]. rewrite T1.
      (* the block made from the buffer *)
      assert (HC : forall gi, In gi gis -> last0 gi - sync0 gi <= C).
      { intros gi Hgi. destruct (In_nth _ _ dgi Hgi) as [i [Hi <-]].
        destruct HI as ((_ & _ & G) & CL & _). specialize (CL i Hi). destruct (G i Hi) as (_ & _ & _ & arrU & _ & _ & A3 & _).
        unfold glob, gis in *. lia. }
      destruct (block_data_shape (seen ++ b) C (avail inp (seen ++ b)) HVb HC ltac:(lia) ltac:(lia)) as [BN BL].
      assert (EB : exists d0 dr, block_data inp (seen ++ b) C (avail inp (seen ++ b)) = d0 :: dr)
        by (destruct (block_data inp (seen ++ b) C (avail inp (seen ++ b))); [congruence | eauto]).
      destruct EB as (d0 & dr & EB).
      unfold distribute_data. cbn [b_data b_dropped]. rewrite EB. cbv beta iota. rewrite <- EB.
      rewrite (BL d0) by (rewrite EB; now left).
      set (st2 := {| s_groups := s_groups st1; s_next := s_next st1 + fpp * (avail inp (seen ++ b) - C); s_pend := s_pend st1 |}).
      assert (HI2 : SInv inp st2 ghs1 (seen ++ b) (avail inp (seen ++ b)) (total_missing inp (seen ++ b))).
      { destruct T2 as (A1 & A2 & A3 & A4). split; [exact A1|]. split; [exact A2|]. split; [exact A3 | exact A4]. }
      destruct (IH os st2 ghs1 (seen ++ b) _ _ ltac:(lia) HO' HV HI2) as (st' & ghs' & C' & rep' & R & RI).
      unfold run in R. rewrite R. exists st', ghs', C', rep'. cbn [s_next st2]. rewrite N1.
      split; [reflexivity|]. cbn [concat]. now rewrite app_assoc.
    + destruct T as [T1 T2]. rewrite T1.
      destruct (IH os st1 ghs1 (seen ++ b) C rep ltac:(lia) HO' HV T2) as (st' & ghs' & C' & rep' & R & RI).
      unfold run in R. rewrite R. exists st', ghs', C', rep'. rewrite N1.
      split; [reflexivity|]. cbn [concat]. now rewrite app_assoc.
Qed.

End Run.

(* ---------- the state Sample / PrepareRun leave behind ---------- *)
Definition init_of (inp : input) : src :=
  init_src (map (fun gi => (gi_off gi, gi_nchan gi, gi_sampled gi)) (i_groups inp)).

Lemma zsum_zero (f : nat -> Z) n a : (forall j, f j = 0) -> zsum (map f (seq a n)) = 0.
Proof.
  intros H. revert a; induction n as [|n IH]; intros a; [reflexivity|]. cbn [seq map zsum fold_right].
  fold (zsum (map f (seq (Datatypes.S a) n))). rewrite IH, H. reflexivity.
Qed.

Lemma init_inv inp : Static inp ->
  SInv inp (init_of inp) (map (fun gi => {| gh_c := last0 gi; gh_F := [] |}) (i_groups inp)) [] (start inp) 0.
Proof.
  intros (Hf & Hne & HG & HD).
  set (gis := i_groups inp). set (ghs := map (fun gi => {| gh_c := last0 gi; gh_F := [] |}) gis).
  assert (NG : forall i, (i < length gis)%nat -> nth i ghs dgh = {| gh_c := last0 (nth i gis dgi); gh_F := [] |}).
  { intros i Hi. unfold ghs. now rewrite nth_map_lt with (d := dgi). }
  assert (MZ : mfs gis ghs = 0).
  { unfold mfs. erewrite zsum_seq_ext; [apply (zsum_zero (fun _ => 0)); reflexivity|].
    intros j Hj. rewrite NG by lia. unfold mf. cbn [gh_F]. rewrite newest_nil. unfold zlen. cbn [length]. lia. }
  split; [|split; [|split]].
  - split; [unfold init_of, init_src; cbn [s_groups]; now rewrite !map_length|].
    split; [unfold ghs; now rewrite map_length|].
    intros i Hi. fold gis in Hi |- *. fold ghs. rewrite NG by auto.
    unfold init_of, init_src. cbn [s_groups]. rewrite map_map.
    rewrite nth_map_lt with (d := dgi) by auto. cbn [fst snd].
    unfold GInv, sample_group. cbn [g_off g_nchan g_sync g_last g_queue gh_c gh_F].
    repeat split. exists []. repeat split; try reflexivity; try lia.
    unfold slots. fold gis. fold (last0 (nth i gis dgi)). rewrite zrange_nil by lia. reflexivity.
  - intros i Hi. fold gis in Hi. unfold glob. fold gis ghs. rewrite NG by auto. cbn [gh_c].
    unfold start. fold gis.
    assert (NE : map (fun gi => last0 gi - sync0 gi) gis <> []) by (intros E; apply map_eq_nil in E; unfold gis in E; congruence).
    destruct (zmax_list_spec _ NE) as [_ H]. apply H.
    apply (in_map (fun gi => last0 gi - sync0 gi)). now apply nth_In.
  - unfold start. fold gis.
    assert (NE : map (fun gi => last0 gi - sync0 gi) gis <> []) by (intros E; apply map_eq_nil in E; unfold gis in E; congruence).
    destruct (zmax_list_spec _ NE) as [H _]. apply in_map_iff in H as [gi [E Hin]].
    destruct (In_nth _ _ dgi Hin) as [m [Hm Em]]. exists m. split; [exact Hm|].
    unfold glob. fold gis ghs. rewrite NG by auto. cbn [gh_c]. rewrite Em. exact E.
  - unfold init_of, init_src. cbn [s_pend]. fold gis ghs. rewrite MZ. lia.
Qed.

(* ---------- the engine: the model delivers exactly the expected blocks, whatever the orders ---------- *)
Lemma model_delivers_expected inp os :
  valid_inputb inp = true -> length os = length (i_ticks inp) -> orders_ok inp os ->
  exists st', run (init_of inp) (combine (i_ticks inp) os) = Ok (st', expected_blocks inp).
Proof.
  intros V HL HO. pose proof (valid_static _ V) as HS.
  destruct (run_spec inp HS (valid_last0 _ V) (i_ticks inp) os (init_of inp) _ [] (start inp) 0 HL HO
                     (valid_hvalid _ V) (init_inv inp HS)) as (st' & _ & _ & _ & R & _).
  exists st'. exact R.
Qed.

(* ... and leaves every queue as the gap-filled run (consumed, lastSN] followed by the packets that
   arrived after the last fill *)
Lemma model_queue_invariant inp os :
  valid_inputb inp = true -> length os = length (i_ticks inp) -> orders_ok inp os ->
  exists st', run (init_of inp) (combine (i_ticks inp) os) = Ok (st', expected_blocks inp) /\
    length (s_groups st') = length (i_groups inp) /\
    forall i, (i < length (i_groups inp))%nat ->
      let g := nth i (s_groups st') dgroup in let gi := nth i (i_groups inp) dgi in
      exists c arrF arrU,
        arrivals gi (concat (i_ticks inp)) = arrF ++ arrU /\
        g_last g = newest arrF (last0 gi) /\ last0 gi <= c <= g_last g /\
        g_queue g = map (slot_packet (gi_nchan gi) arrF) (zrange (c + 1) (g_last g - c)) ++ arrU.
Proof.
  intros V HL HO. pose proof (valid_static _ V) as HS.
  destruct (run_spec inp HS (valid_last0 _ V) (i_ticks inp) os (init_of inp) _ [] (start inp) 0 HL HO
                     (valid_hvalid _ V) (init_inv inp HS)) as (st' & ghs' & C' & rep' & R & ((L1 & L2 & G) & _)).
  exists st'. split; [exact R|]. split; [exact L1|]. intros i Hi. cbn zeta.
  destruct (G i Hi) as (_ & _ & _ & arrU & A1 & A2 & A3 & A4). cbn [app] in A1.
  exists (gh_c (nth i ghs' dgh)), (gh_F (nth i ghs' dgh)), arrU. repeat split; auto; lia.
Qed.

Lemma perm_ok_seq inp : perm_ok inp (seq 0 (length (i_groups inp))).
Proof. split; [apply seq_NoDup|]. intros i. rewrite in_seq. lia. Qed.

Lemma map_pair_combine {A B} (l : list A) (x : B) : map (fun b => (b, x)) l = combine l (repeat x (length l)).
Proof. induction l; cbn; auto. now rewrite IHl. Qed.

Lemma model_blocks_expected inp : valid_inputb inp = true -> model_blocks inp = Ok (expected_blocks inp).
Proof.
  intros V. unfold model_blocks, model_blocks_with. rewrite map_pair_combine.
  destruct (model_delivers_expected inp (repeat (seq 0 (length (i_groups inp)), seq 0 (length (i_groups inp))) (length (i_ticks inp))) V)
    as [st' R].
  - now rewrite repeat_length.
  - apply Forall_forall. intros o Ho. apply repeat_spec in Ho. subst o. cbn [fst snd]. split; apply perm_ok_seq.
  - unfold run, init_of in R. rewrite R. reflexivity.
Qed.

(* ---------- the checker accepts what the specification computes ---------- *)
Lemma frame0_expected inp : forall ticks seen C rep, frame0 (expected inp seen C rep 0 ticks) = 0.
Proof.
  induction ticks as [|b ticks IH]; intros seen C rep; cbn [expected]; [reflexivity|].
  destruct (avail inp (seen ++ b) >? C); [|apply IH].
  cbn [frame0 k_segs]. destruct (block_data inp (seen ++ b) C (avail inp (seen ++ b))); reflexivity.
Qed.

Lemma list_eqb_refl {A} (eqb : A -> A -> bool) l : (forall x, In x l -> eqb x x = true) -> list_eqb eqb l l = true.
Proof. induction l as [|h t IH]; intros H; cbn; auto. rewrite H by (now left). apply IH. intros; apply H; now right. Qed.

Lemma block_eqb_refl k : block_eqb 0 k k = true.
Proof.
  unfold block_eqb. rewrite Z.eqb_refl. cbn [andb]. apply list_eqb_refl. intros s _.
  unfold seg_eqb. replace (0 + sg_first s) with (sg_first s) by lia. rewrite !Z.eqb_refl. cbn [andb].
  apply zlist_eqb_eq. reflexivity.
Qed.

Lemma check_expected inp : C03_check inp (Some (expected_blocks inp)) = true.
Proof.
  unfold C03_check. destruct (valid_inputb inp); [|reflexivity].
  unfold expected_blocks at 1. rewrite frame0_expected. apply list_eqb_refl. intros; apply block_eqb_refl.
Qed.

(* ---------- order independence ---------- *)
Lemma run_order_independent inp os os' :
  valid_inputb inp = true ->
  length os = length (i_ticks inp) -> length os' = length (i_ticks inp) -> orders_ok inp os -> orders_ok inp os' ->
  exists st st', run (init_of inp) (combine (i_ticks inp) os) = Ok (st, expected_blocks inp)
              /\ run (init_of inp) (combine (i_ticks inp) os') = Ok (st', expected_blocks inp).
Proof.
  intros V L1 L2 O1 O2.
  destruct (model_delivers_expected inp os V L1 O1) as [st R].
  destruct (model_delivers_expected inp os' V L2 O2) as [st' R'].
  exists st, st'. split; assumption.
Qed.

(* ---------- the code before the repairs ---------- *)
(* two groups A = channel 0, B = channel 1, two frames per packet, sampling ended at packet 2;
   tick 1: A receives 3, 4 and B nothing; tick 2: A receives 6 (5 is lost), B receives 3 4 5 6 *)
Definition old_witness : input :=
  let pa sn := P 0 1 sn false [sn * 10; sn * 10 + 1] in
  let pb sn := P 1 1 sn false [sn * 10 + 100; sn * 10 + 101] in
  {| i_fpp := 2;
     i_groups := [G 0 1 [(1, true); (2, true)]; G 1 1 [(1, true); (2, true)]];
     i_ticks := [[pa 3; pa 4]; [pa 6; pb 3; pb 4; pb 5; pb 6]] |}.

Definition blocks_of (r : res (src * list block)) : option (list block) :=
  match r with Ok (_, bl) => Some bl | Panic => None end.

(* A visited before B in both ticks: packet 5 of A is never filled in, A runs one packet ahead of B,
   and no dropped frame is reported *)
Lemma old_refuted_A_first :
  valid_inputb old_witness = true /\
  blocks_of (run_old (init_of old_witness) (combine (i_ticks old_witness) [([0; 1], [0; 1]); ([0; 1], [0; 1])]%nat))
  = Some [B 6 [S 0 0 [30; 31; 40; 41; 60; 61]; S 0 0 [130; 131; 140; 141; 150; 151]]] /\
  C03_check old_witness
    (blocks_of (run_old (init_of old_witness) (combine (i_ticks old_witness) [([0; 1], [0; 1]); ([0; 1], [0; 1])]%nat)))
  = false.
Proof. vm_compute. repeat split; reflexivity. Qed.

(* B visited before A in tick 1: the empty group abandons the tick before A is touched, and the
   old code happens to get it right — the outcome depended on Go's map iteration order *)
Lemma old_order_dependent :
  blocks_of (run_old (init_of old_witness) (combine (i_ticks old_witness) [([1; 0], [0; 1]); ([0; 1], [0; 1])]%nat))
  = Some (expected_blocks old_witness) /\
  blocks_of (run_old (init_of old_witness) (combine (i_ticks old_witness) [([0; 1], [0; 1]); ([0; 1], [0; 1])]%nat))
  <> Some (expected_blocks old_witness).
Proof. vm_compute. split; [reflexivity | discriminate]. Qed.

(* a gap filled in a tick that is then abandoned: tick 1: A receives 4 (3 is lost), B nothing;
   tick 2: B receives 3 4.  The old code reports no dropped frame at all. *)
Definition old_drop_witness : input :=
  let pa sn := P 0 1 sn false [sn * 10; sn * 10 + 1] in
  let pb sn := P 1 1 sn false [sn * 10 + 100; sn * 10 + 101] in
  {| i_fpp := 2;
     i_groups := [G 0 1 [(1, true); (2, true)]; G 1 1 [(1, true); (2, true)]];
     i_ticks := [[pa 4]; [pb 3; pb 4]] |}.

Lemma old_drop_lost :
  valid_inputb old_drop_witness = true /\
  (exists bl, blocks_of (run_old (init_of old_drop_witness)
                          (combine (i_ticks old_drop_witness) [([0; 1], [0; 1]); ([0; 1], [0; 1])]%nat)) = Some bl
              /\ zsum (map block_dropped bl) = 0) /\
  zsum (map block_dropped (expected_blocks old_drop_witness)) = 2.
Proof. vm_compute. split; [reflexivity|]. split; [eexists; split; reflexivity | reflexivity]. Qed.
