(* C03 — evaluation of generated cases: model vs observed implementation output, and the checker. *)
From Dastard Require Import Common.ZX Common.CaseLib C03.Model C03.Spec.

(* [c_obs = None]: the harness process was killed by a panic of the reader loop *)
Record case := { c_inp : input; c_obs : option (list block) }.

Definition seg_same (a b : seg) : bool :=
  (sg_first a =? sg_first b) && (sg_dropped a =? sg_dropped b) && zlist_eqb (sg_data a) (sg_data b).
Definition block_same (a b : block) : bool :=
  (k_nsamp a =? k_nsamp b) && list_eqb seg_same (k_segs a) (k_segs b).

Fixpoint first_diff (i : Z) (a b : list block) : Z :=
  match a, b with
  | [], [] => -1
  | x :: a', y :: b' => if block_same x y then first_diff (i + 1) a' b' else i
  | _, _ => i
  end.

(* the model is run with the groups visited in sorted order in every tick (after the repair the
   outcome does not depend on the order: theorem tick_order_independent) *)
Definition model_blocks_with (fill : group -> group * Z * Z) (keep : bool) (inp : input) : res (list block) :=
  let n := length (i_groups inp) in
  let st := init_src (map (fun gi => (gi_off gi, gi_nchan gi, gi_sampled gi)) (i_groups inp)) in
  match run_with fill keep st (map (fun b => (b, (seq 0 n, seq 0 n))) (i_ticks inp)) with
  | Panic => Panic
  | Ok (_, bl) => Ok bl
  end.
Definition model_blocks := model_blocks_with fill_missing true.

(* (code, index of the first differing block) *)
Definition verdict (c : case) : Z * Z :=
  let d := match model_blocks (c_inp c), c_obs c with
           | Panic, None => -1
           | Ok m, Some o => first_diff 0 o m
           | _, _ => 0
           end in
  (verdict_code (d =? -1) (C03_check (c_inp c) (c_obs c)), d).

(* compact constructors for generated files *)
Definition G (off nchan : Z) (sampled : list (Z * bool)) : ginfo :=
  {| gi_off := off; gi_nchan := nchan; gi_sampled := sampled |}.
Definition P (off nchan sn : Z) (wide : bool) (d : list Z) : packet :=
  {| p_sn := sn; p_nchan := nchan; p_off := off; p_wide := wide; p_data := d |}.
Definition S (first dropped : Z) (d : list Z) : seg := {| sg_first := first; sg_dropped := dropped; sg_data := d |}.
(* a long constant run inside observed sample data (the harness run-length encodes runs of filler) *)
Definition rep (v n : Z) : list Z := repeat v (Z.to_nat n).
Definition B (nsamp : Z) (segs : list seg) : block := {| k_nsamp := nsamp; k_segs := segs |}.
Definition mk (fpp : Z) (gs : list ginfo) (ticks : list (list packet)) (obs : list block) : case :=
  {| c_inp := {| i_fpp := fpp; i_groups := gs; i_ticks := ticks |}; c_obs := Some obs |}.
Definition mkpanic (fpp : Z) (gs : list ginfo) (ticks : list (list packet)) : case :=
  {| c_inp := {| i_fpp := fpp; i_groups := gs; i_ticks := ticks |}; c_obs := None |}.
