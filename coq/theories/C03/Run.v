(* C03 — evaluation of generated cases: model vs observed implementation output, and the checker. *)
From Dastard Require Import Common.ZX Common.CaseLib C03.Model C03.Spec.

(* [c_obs = None]: the harness process was killed by a panic of the reader loop.
   [c_pre]: earlier runs (input, delivered blocks) on the SAME AbacoSource object, each ended by a
   Stop before the next Start; every run is a run of the property in its own right. *)
Record case := { c_pre : list (input * list block); c_inp : input; c_obs : option (list block) }.

Definition seg_same (a b : seg) : bool :=
  (sg_first a =? sg_first b) && (sg_dropped a =? sg_dropped b) && zlist_eqb (sg_data a) (sg_data b).
Definition block_same (a b : block) : bool :=
  (k_nsamp a =? k_nsamp b) && list_eqb seg_same (k_segs a) (k_segs b).

Fixpoint first_diff (i : Z) (a b : list block) : Z :=
  match a, b with
  | [], [] => -1
  | x :: a', y :: b' => if block_same x y then first_diff (i + 1) a' b' else i
  | _, _ => i
  end.

(* the model is run with the groups visited in sorted order in every tick (after the repair the
   outcome does not depend on the order: theorem tick_order_independent) *)
Definition model_blocks_with (fill : group -> group * Z * Z) (keep : bool) (inp : input) : res (list block) :=
  let n := length (i_groups inp) in
  let st := init_src (map (fun gi => (gi_off gi, gi_nchan gi, gi_sampled gi)) (i_groups inp)) in
  match run_with fill keep st (map (fun b => (b, (seq 0 n, seq 0 n))) (i_ticks inp)) with
  | Panic => Panic
  | Ok (_, bl) => Ok bl
  end.
Definition model_blocks := model_blocks_with fill_missing true.

(* One AbacoSource object keeps its frame counter (AnySource.nextFrameNum) across a Stop/Start:
   the blocks of a later run are numbered on from where the previous run ended.  Everything else of a
   run starts afresh (Sample rebuilds the groups).  So the model's blocks of a run are compared with
   the observed ones after adding the frames delivered by the earlier runs. *)
Definition shift_blocks (off : Z) (bl : list block) : list block :=
  map (fun k => {| k_nsamp := k_nsamp k;
                   k_segs := map (fun s => {| sg_first := sg_first s + off; sg_dropped := sg_dropped s;
                                              sg_data := sg_data s |}) (k_segs k) |}) bl.
Definition frames_of (bl : list block) : Z := fold_right (fun k acc => k_nsamp k + acc) 0 bl.

(* first difference between model and observation of one run: -1 none *)
Definition run_diff (off : Z) (inp : input) (obs : option (list block)) : Z :=
  match model_blocks inp, obs with
  | Panic, None => -1
  | Ok m, Some o => first_diff 0 o (shift_blocks off m)
  | _, _ => 0
  end.

(* over the earlier runs: (all agree, all accepted by the checker, frames delivered so far) *)
Fixpoint pre_verdict (off : Z) (pre : list (input * list block)) : bool * bool * Z :=
  match pre with
  | [] => (true, true, off)
  | (inp, obs) :: rest =>
      let a := run_diff off inp (Some obs) =? -1 in
      let c := C03_check inp (Some obs) in
      let '(a', c', off') := pre_verdict (off + frames_of obs) rest in
      (a && a', c && c', off')
  end.

(* (code, index of the first differing block of the last run; -2 if an earlier run differs) *)
Definition verdict (c : case) : Z * Z :=
  let '(a, ck, off) := pre_verdict 0 (c_pre c) in
  let d := run_diff off (c_inp c) (c_obs c) in
  (verdict_code (a && (d =? -1)) (ck && C03_check (c_inp c) (c_obs c)), if a then d else -2).

(* compact constructors for generated files *)
Definition G (off nchan : Z) (sampled : list (Z * bool)) : ginfo :=
  {| gi_off := off; gi_nchan := nchan; gi_sampled := sampled |}.
Definition P (off nchan sn : Z) (wide : bool) (d : list Z) : packet :=
  {| p_sn := sn; p_nchan := nchan; p_off := off; p_wide := wide; p_data := d |}.
Definition S (first dropped : Z) (d : list Z) : seg := {| sg_first := first; sg_dropped := dropped; sg_data := d |}.
(* a long constant run inside observed sample data (the harness run-length encodes runs of filler) *)
Definition rep (v n : Z) : list Z := repeat v (Z.to_nat n).
Definition B (nsamp : Z) (segs : list seg) : block := {| k_nsamp := nsamp; k_segs := segs |}.
Definition mk (fpp : Z) (gs : list ginfo) (ticks : list (list packet)) (obs : list block) : case :=
  {| c_pre := []; c_inp := {| i_fpp := fpp; i_groups := gs; i_ticks := ticks |}; c_obs := Some obs |}.
Definition mkpanic (fpp : Z) (gs : list ginfo) (ticks : list (list packet)) : case :=
  {| c_pre := []; c_inp := {| i_fpp := fpp; i_groups := gs; i_ticks := ticks |}; c_obs := None |}.
(* a case whose last run was preceded by other runs on the same source object *)
Definition after (pre : list case) (c : case) : case :=
  {| c_pre := flat_map (fun p => c_pre p ++ match c_obs p with Some o => [(c_inp p, o)] | None => [] end) pre;
     c_inp := c_inp c; c_obs := c_obs c |}.
